(* C10 - Pretty-printing is reversible.
   Only the property theorems, each closed by [exact]; the models are in
   Pretty/{Tok,FloatFmt,PrintModel,ScanModel}.v, the proofs in
   Pretty/PrettyProofs.v, the pre-fix functions in Pretty/PrettyRegress.v.

   Full statement (properties.jsonl): for ANY argument list over all printable
   types and any print options, text length = returned length, the checker
   accepts with the count the scanner writes, the scanner consumes the whole
   text, and the values come back (ranges by expansion).
   Proved (see the comment at each theorem and notes/C10.md): the round trip
   for EVERY option record - compression on or off - and unbounded lists of
   int32, int64, chars, true/false/nil/inf, strings, symbols (quoted or bare),
   colours, MIDI, blobs and, with the lossless option, every finite float and
   double (C10_roundtrip_any_partial, C10_message_any_partial), for arrays
   (C10_array_roundtrip_partial) and for the text forms of lists that mix arrays
   with other values (C10_mixed_reads_partial).  The first theorems
   (C10_roundtrip_partial, C10_message_partial, C10_print_total) are the
   compression-off fragment over [good_val] of the first stage; the range
   conversion itself and the reading of repetitions are stated separately
   (C10_range_expand, C10_repetition_reads_partial).  Side conditions are
   named at the theorems; time tags: C10_timetag_... (model, calendar, fraction). *)
From Coq Require Import List ZArith.
From RtoscV Require Import Pretty.Tok Pretty.FloatFmt Pretty.PrintModel Pretty.ScanModel
  Pretty.PrettyProofs Pretty.FloatProofs Pretty.SymBlobProofs Pretty.RangeProofs Pretty.RunProofs Pretty.ListProofs Pretty.ArrayProofs Pretty.MixedProofs Pretty.MixedPrint Pretty.TotalProofs Pretty.TimeFmt Pretty.TimeProofs Pretty.TimeTokProofs Pretty.TimeSkipProofs Pretty.TimeFracProofs Pretty.TimeFracSkipProofs Pretty.TimeTokofProofs Pretty.TimeListProofs Pretty.PrettyRegress.
Import ListNotations.
Local Open Scope Z_scope.

(* dec2f/dec2d: oracles for the value of a decimal floating point literal
   (arbitrary functions, no hypothesis) *)
Theorem C10_roundtrip_partial : forall (dec2f dec2d : list Z -> Z) o vs text w,
  compress o = false ->
  Forall good_val vs -> print_arg_vals o vs 0 = Some (text, w) ->
  w = len text /\
  count_printed_arg_vals dec2f dec2d text = Ok (true, Z.of_nat (length vs)) /\
  scan_arg_vals dec2f dec2d text (Z.of_nat (length vs)) = Ok (vs, []).
Proof. exact roundtrip_scalars. Qed.

(* the printer model never fails on good values: the theorem above speaks
   about every such list and every option record *)
Theorem C10_print_total : forall o vs,
  compress o = false -> Forall good_val vs -> exists text w, print_arg_vals o vs 0 = Some (text, w).
Proof. exact print_arg_vals_total. Qed.

(* line breaks (" " replaced by "\n    ", strings split into concatenated
   pieces) are transparent: whatever white space separates the tokens, and at
   whatever column a string was broken, both recognisers read the values *)
Theorem C10_linebreak_transparent : forall (dec2f dec2d : list Z -> Z) vs T,
  lang dec2f dec2d vs T ->
  count_printed_arg_vals dec2f dec2d T = Ok (true, Z.of_nat (length vs)) /\
  scan_arg_vals dec2f dec2d T (Z.of_nat (length vs)) = Ok (vs, []).
Proof. exact (fun a b vs T H => conj (count_lang a b vs T H) (scan_lang a b vs T H)). Qed.

(* non-vacuity: "1" newline four blanks "true" tab "-7" *)
Theorem C10_linebreak_nonvacuous : forall (dec2f dec2d : list Z -> Z),
  lang dec2f dec2d [VI 1; VT; VI (-7)] ([49] ++ nl4 ++ kw_true ++ [9] ++ [45; 55]).
Proof. exact linebreak_example. Qed.

(* rtosc_convert_to_range: whenever it converts the head of a list of scalar
   values into a range block, the block expands (PrintModel.expand) to exactly
   the kk slots it replaces, and kk >= 5 (the threshold).  For runs with a step
   (types i, h, c; wrap-around arithmetic) and constant runs of every scalar
   type; floats/doubles that are no NaN, and one zero pattern of each type (zf, zd)
   does not occur (their == identifies +0.0 and -0.0: signed-zero-run). *)
Theorem C10_range_expand : forall zf zd o args size c kk,
  zf = 0 \/ zf = 2 ^ 31 -> zd = 0 \/ zd = 2 ^ 63 ->
  Forall scalar args -> Forall (inrv zf zd) args -> exact (hd VN args) ->
  Z.of_nat (length args) < 2 ^ 31 ->
  convert_to_range o args size = CYes c kk ->
  exists n, kk = Z.of_nat n /\ (5 <= n)%nat /\ expand c = Some (firstn n args).
Proof. exact (fun zf zd o a s c k Hf Hd => range_expand zf zd Hf Hd o a s c k). Qed.

(* whole messages (rtosc_print_message / rtosc_count_printed_arg_vals_of_msg /
   rtosc_scan_message): the same for an address that starts with '/' and has
   no white space, including the line break that replaces the blank after the
   address and the message without arguments *)
Theorem C10_message_partial : forall (dec2f dec2d : list Z -> Z) o addr vs text w,
  compress o = false -> good_addr addr -> Forall good_val vs ->
  print_message o addr vs 0 = Some (text, w) ->
  w = len text /\
  count_printed_arg_vals_of_msg dec2f dec2d text = Ok (true, Z.of_nat (length vs)) /\
  scan_message dec2f dec2d text (Z.of_nat (length vs)) = Ok (addr, vs, []).
Proof. exact message_roundtrip. Qed.

(* repetitions: both recognisers read "NxV" (V a token of a good value) back as
   the range header and the value, in any sequence of values and repetitions
   separated by white space *)
Theorem C10_repetition_reads_partial : forall (dec2f dec2d : list Z -> Z) els T,
  elang dec2f dec2d els T ->
  count_printed_arg_vals dec2f dec2d T = Ok (true, total_slots els) /\
  scan_arg_vals dec2f dec2d T (total_slots els) = Ok (concat els, []).
Proof. exact elements_agree. Qed.

(* THE LIST-LEVEL ROUND TRIP FOR EVERY OPTION RECORD (compression on or off,
   any line length, precision, column): for lists of int32/int64/char values,
   true/false/nil/inf, strings and quoted symbols (goodc: the FULL int32/int64
   range since the range_step_fits fix; strings and quoted symbols
   without two dots in a row (sdotsv; three in a row are the finding D28,
   ellipsis-in-string-before-range), every character but '.'; MIDI, colours; with the lossless option every finite float
   and double, printed as "<decimal> (<hexadecimal>)", in lists that do not
   contain both +0.0 and -0.0 of one type (nozmix: finding signed-zero-run, the
   classifier's predicate); symbols printed bare (identifier-shaped, no reserved
   word) and blobs of any length with their line breaks (goodx); arrays among
   other values: C10_roundtrip_any_partial below; time tags are outside), the returned count
   is the text length, the checker accepts with the number of slots the scanner
   then writes, the scanner consumes the whole text, and the slots expand to
   the original values. *)
Theorem C10_roundtrip_values_partial : forall (dec2f dec2d : list Z -> Z) o vs text w,
  Forall (goodv o) vs -> nozmix vs -> Z.of_nat (length vs) < 2 ^ 31 ->
  print_arg_vals o vs 0 = Some (text, w) ->
  exists slots,
    w = len text /\
    count_printed_arg_vals dec2f dec2d text = Ok (true, Z.of_nat (length slots)) /\
    scan_arg_vals dec2f dec2d text (Z.of_nat (length slots)) = Ok (slots, []) /\
    expand slots = Some vs.
Proof. exact roundtrip_any_nz. Qed.

(* the same for whole messages (rtosc_print_message / count_of_msg /
   rtosc_scan_message), compression on or off *)
Theorem C10_message_values_partial : forall (dec2f dec2d : list Z -> Z) o addr vs text w,
  good_addr addr -> Forall (goodv o) vs -> nozmix vs -> Z.of_nat (length vs) < 2 ^ 31 ->
  print_message o addr vs 0 = Some (text, w) ->
  exists slots,
    w = len text /\
    count_printed_arg_vals_of_msg dec2f dec2d text = Ok (true, Z.of_nat (length slots)) /\
    scan_message dec2f dec2d text (Z.of_nat (length slots)) = Ok (addr, slots, []) /\
    expand slots = Some vs.
Proof. exact message_roundtrip_any_nz. Qed.

(* LISTS THAT MIX ARRAYS WITH OTHER VALUES, every option record.  The list is
   given as a list of values (TS v) and arrays of values (TA type elements);
   flat is its slot layout (array header, then the elements), the input of
   rtosc_print_arg_vals.  For values as above (goodv; the condition on the
   zeroes over all values, also those inside arrays) and arrays whose elements
   have one type (homog; true and false count as one; "[]" included): the
   returned count is the text length, the checker accepts with the number of
   slots the scanner then writes, the scanner consumes the whole text, and the
   slots expand (expand_deep: ranges and repetitions expanded - also inside
   arrays and repetitions OF arrays "Nx[...]" -, element counts adjusted) to the
   original list, each array carrying the type of its last element (canon: the
   text holds no more; the blank for "[]").
   No side condition on the position of arrays and runs is left: a run directly
   after an array is printed "b ... c" only if the array's last value has
   another type or equals b, and then all three functions use the unit step
   (repo commit 94686c2 made the checker agree).  What remains of the class
   range-after-array concerns hand-written text only (C10_mixed_reads_partial).
   Outside: arrays of arrays, time tags (C10_timetag_...), ".." in strings (D28), NaN/inf. *)
Theorem C10_roundtrip_any_partial : forall (dec2f dec2d : list Z -> Z) o tvs text w,
  Forall (goodtv o) tvs -> nozmix (scalars tvs) -> Z.of_nat (length (flat tvs)) < 2 ^ 31 ->
  print_arg_vals o (flat tvs) 0 = Some (text, w) ->
  exists slots,
    w = len text /\
    count_printed_arg_vals dec2f dec2d text = Ok (true, Z.of_nat (length slots)) /\
    scan_arg_vals dec2f dec2d text (Z.of_nat (length slots)) = Ok (slots, []) /\
    expand_deep slots = Some (flat (canon tvs)).
Proof. exact roundtrip_mixed_nz. Qed.

(* the same for whole messages *)
Theorem C10_message_any_partial : forall (dec2f dec2d : list Z -> Z) o addr tvs text w,
  good_addr addr -> Forall (goodtv o) tvs -> nozmix (scalars tvs) -> Z.of_nat (length (flat tvs)) < 2 ^ 31 ->
  print_message o addr (flat tvs) 0 = Some (text, w) ->
  exists slots,
    w = len text /\
    count_printed_arg_vals_of_msg dec2f dec2d text = Ok (true, Z.of_nat (length slots)) /\
    scan_message dec2f dec2d text (Z.of_nat (length slots)) = Ok (addr, slots, []) /\
    expand_deep slots = Some (flat (canon tvs)).
Proof. exact message_roundtrip_mixed_nz. Qed.

(* THE HYPOTHESIS "print... = Some _" OF THE TWO THEOREMS ABOVE HOLDS FOR EVERY
   SUCH LIST: the printer model is total there - the range conversion never
   takes a path the model does not cover (CUnmod), every value, repetition,
   range and array is printed, and the value printed first never needs a line
   break in front of the buffer (print_arg_vals starts at column 0; a message
   may break after its address).  So the theorems speak about every list of
   good values and arrays, every option record. *)
Theorem C10_print_any_total : forall o tvs,
  Forall (goodtv o) tvs -> nozmix (scalars tvs) -> Z.of_nat (length (flat tvs)) < 2 ^ 31 ->
  exists text w, print_arg_vals o (flat tvs) 0 = Some (text, w).
Proof. exact print_mixed_total_nz. Qed.

Theorem C10_print_message_any_total : forall o addr tvs,
  Forall (goodtv o) tvs -> nozmix (scalars tvs) -> Z.of_nat (length (flat tvs)) < 2 ^ 31 ->
  exists text w, print_message o addr (flat tvs) 0 = Some (text, w).
Proof. exact print_message_mixed_total_nz. Qed.

(* non-vacuity: [1 2 3 4 5 6 9] 9 10 11 12 13 true [] [] [] [] [] is printed
   "[1 ... 6 9] 9 ... 13 true 5x[]" *)
Theorem C10_roundtrip_mixed_nonvacuous : forall o,
  Forall (goodtv o) ex_tvs /\ nozmix (scalars ex_tvs) /\
  print_arg_vals {| lossless := true; prec := 2; linelength := 80; compress := true |} (flat ex_tvs) 0
  = Some ([91; 49; 32; 46; 46; 46; 32; 54; 32; 57; 93; 32; 57; 32; 46; 46; 46; 32; 49; 51; 32;
           116; 114; 117; 101; 32; 53; 120; 91; 93], 30).
Proof. exact roundtrip_mixed_example. Qed.

(* non-vacuity: a list with a constant run, an elided and an explicit run *)
Theorem C10_roundtrip_any_nonvacuous : forall o,
  Forall (goodv o) ([VT; VT; VT; VT; VT; VI 7] ++ map VI [1; 2; 3; 4; 5; 6] ++ map VH [10; 20; 30; 40; 50]) /\
  exists text w, print_arg_vals {| lossless := true; prec := 2; linelength := 20; compress := true |}
    ([VT; VT; VT; VT; VT; VI 7] ++ map VI [1; 2; 3; 4; 5; 6] ++ map VH [10; 20; 30; 40; 50]) 0 = Some (text, w).
Proof. exact roundtrip_any_example. Qed.

(* arrays: a list that is one array [e1 e2 ...] of values of one type (true and
   false count as one type; the empty array included), printed with any
   options - so runs inside the array become "NxV" and "a ... b" and line
   breaks fall between elements: the returned count is the text length, the
   checker accepts with 1 + the number of element slots, the scanner consumes
   the whole text and writes an array header whose element count is the number
   of slots that follow and whose type is the type of the last element, and
   those slots expand to the original elements.
   Outside: arrays among other values of a list (the checker looks for the left
   neighbour of a later range in the text of the array), nested arrays. *)
Theorem C10_array_roundtrip_partial : forall (dec2f dec2d : list Z -> Z) o ty elems text w,
  Forall (goodv o) elems -> nozmix elems -> homog elems -> Z.of_nat (length elems) + 1 < 2 ^ 31 ->
  print_arg_vals o (VArr ty (Z.of_nat (length elems)) :: elems) 0 = Some (text, w) ->
  exists ty' slots,
    w = len text /\
    count_printed_arg_vals dec2f dec2d text = Ok (true, 1 + Z.of_nat (length slots)) /\
    scan_arg_vals dec2f dec2d text (1 + Z.of_nat (length slots))
    = Ok (VArr ty' (Z.of_nat (length slots)) :: slots, []) /\
    expand slots = Some elems /\ ty' = last_type elems.
Proof. exact roundtrip_array_nz. Qed.

(* the bracketed text forms themselves, after any value and before anything that
   may follow a value: both recognisers read "[" items "]" when the item types
   pass the checker's array type test *)
Theorem C10_array_reads_partial : forall (dec2f dec2d : list Z -> Z) its T,
  iseq dec2f dec2d None its T -> its <> [] -> atys_ok 0 its ->
  forall rest, rest_ok rest ->
  (forall f ll fe ib, (length T <= f)%nat ->
     skip_next dec2f dec2d (S f) (91 :: T ++ 93 :: rest) ll fe ib
     = Ok (rest, 1 + Z.of_nat (length (islots its)), 97)) /\
  (forall f before nb fe, (length T <= f)%nat ->
     scan_arg_val dec2f dec2d (S f) (91 :: T ++ 93 :: rest) before nb fe
     = Ok (VArr (lty 32 its) (Z.of_nat (length (islots its))) :: islots its, rest)).
Proof. exact array_reads. Qed.

(* non-vacuity: [1 2 3 4 5 6 9 8 8 8 8 8 8] prints as "[1 ... 6 9 6x8]" *)
Theorem C10_array_nonvacuous : forall o,
  Forall (goodv o) example_elems /\ homog example_elems /\
  exists w, print_arg_vals {| lossless := true; prec := 2; linelength := 20; compress := true |}
    (VArr 105 (Z.of_nat (length example_elems)) :: example_elems) 0
  = Some ([91; 49; 32; 46; 46; 46; 32; 54; 32; 57; 32; 54; 120; 56; 93], w).
Proof. exact roundtrip_array_example. Qed.

(* ARRAYS AMONG OTHER VALUES (recogniser half): a text made of items (values,
   "NxV", range tails - as in C10_compressed_reads_partial), arrays "[" items "]"
   (also "[]") and repetitions of arrays "Nx[" items "]" in any order, separated
   by any white space, is counted and scanned to the expected slots.  The only
   exclusion (m_ok in the context CArr q, aft_ok): A RANGE TAIL "b ... c" DIRECTLY
   AFTER AN ARRAY WHOSE LAST VALUE q HAS THE TAIL'S TYPE AND DIFFERS FROM b.  The
   checker takes the array as a whole for the left neighbour (none: unit step),
   the scanner the slot before it - the array's last value (step b - q).  That is
   the finding class range-after-array for hand-written text (D25,
   "[1 31 36] 4 ... -1"); the printer never writes it (it elides the tail's
   first value only when the previous value has another type or equals b). *)
Theorem C10_mixed_reads_partial : forall (dec2f dec2d : list Z -> Z) ms T,
  mseq dec2f dec2d (CItem None) ms T ->
  count_printed_arg_vals dec2f dec2d T = Ok (true, Z.of_nat (length (mslots ms))) /\
  scan_arg_vals dec2f dec2d T (Z.of_nat (length (mslots ms))) = Ok (mslots ms, []).
Proof. exact mseq_reads. Qed.

(* non-vacuity: "[1 ... 6 9] 9 ... 13 true 3x[]" (a tail directly after an array) *)
Theorem C10_mixed_nonvacuous : forall (dec2f dec2d : list Z -> Z),
  exists T, mseq dec2f dec2d (CItem None) ex_mixed T /\
            T = [91; 49; 32; 46; 46; 46; 32; 54; 32; 57; 93; 32; 57; 32; 46; 46; 46; 32; 49; 51; 32;
                 116; 114; 117; 101; 32; 51; 120; 91; 93].
Proof. exact mixed_example. Qed.

(* the text forms the printer uses with compression on - values, repetitions
   "NxV", range tails "b ... c" (the explicit form "a b ... c" is the value a
   followed by the tail from b) - in any sequence, separated by any white
   space: both recognisers read them back and the scanned slots expand to the
   original values.  iseq threads the original previous value: a tail is read
   with the unit step unless that value is a same-typed neighbour (ctx_ok). *)
Theorem C10_compressed_reads_partial : forall (dec2f dec2d : list Z -> Z) its T,
  iseq dec2f dec2d None its T ->
  count_printed_arg_vals dec2f dec2d T = Ok (true, Z.of_nat (length (islots its))) /\
  scan_arg_vals dec2f dec2d T (Z.of_nat (length (islots its))) = Ok (islots its, []) /\
  expand (islots its) = Some (iorig its).
Proof.
  exact (fun a b its T H => conj (proj1 (iseq_reads a b its T H))
                                 (conj (proj2 (iseq_reads a b its T H)) (expand_items a b its None T H))).
Qed.

(* floats and doubles, lossless form: the hexadecimal text printf("%a") writes
   for the (promoted) value is read back to the same bit pattern, for EVERY
   finite float and double (subnormals, both zeroes); FloatFmt.fmt_a and
   hex_to_f32/f64 are concrete functions on bit patterns, no oracle *)
Theorem C10_hexfloat_roundtrip :
  (forall b, 0 <= b < 2 ^ 32 -> f32_finite b = true -> hex_to_f32 (fmt_a (f32_to_f64 b)) = b) /\
  (forall b, 0 <= b < 2 ^ 64 -> f64_finite b = true -> hex_to_f64 (fmt_a b) = b).
Proof. exact (conj f32_roundtrip f64_roundtrip). Qed.

(* ... and both recognisers read the printed token "<%#.<p>f> (<%a>)" resp.
   "<%#.<p>f>d (<%a>)" back to those bits, for every precision p, whatever the
   oracles say about the decimal part (its value is overwritten) *)
Theorem C10_float_tokens : forall (dec2f dec2d : list Z -> Z) p,
  (forall b, 0 <= b < 2 ^ 32 -> f32_finite b = true ->
     tok_core dec2f dec2d (VFl b) (fmt_f p (f32_to_f64 b) ++ [32; 40] ++ fmt_a (f32_to_f64 b) ++ [41])) /\
  (forall b, 0 <= b < 2 ^ 64 -> f64_finite b = true ->
     tok_core dec2f dec2d (VD b) (fmt_f p b ++ 100 :: [32; 40] ++ fmt_a b ++ [41])).
Proof. exact (fun a b p => conj (tok_float a b p) (tok_double a b p)). Qed.

(* bare symbols and blobs: both recognisers read the printed token back *)
Theorem C10_symbol_blob_tokens : forall (dec2f dec2d : list Z -> Z),
  (forall s, sym_plain s = true -> tok_core dec2f dec2d (VSym s) s) /\
  (forall o d cols t w c, Forall byte_ok d -> print_blob o d cols = (t, w, c) ->
     tok_core dec2f dec2d (VB d) t /\ w = len t).
Proof. exact symbol_blob_tokens. Qed.

(* non-vacuity: 1.5f six times (a compressed run), 0.1 as a double, the smallest
   subnormal float, an int, a bare symbol, a blob *)
Theorem C10_float_nonvacuous :
  Forall (goodv ex_fl_opts) ex_fl_list /\ nozmix ex_fl_list /\
  exists text w, print_arg_vals ex_fl_opts ex_fl_list 0 = Some (text, w).
Proof. exact float_list_example. Qed.

(* decimal integers: no open hypothesis about printf/sscanf *)
(* TIME TAGS.  The model prints and reads them (PrintModel.print_timetag,
   ScanModel.scan_date / skip_date; TimeFmt: the calendar of TZ=UTC and the
   conversions of the fraction); every run compares them with the real code and
   the calendar functions with localtime() / mktime() of libc.  Proved about the
   model, without hypotheses:
   - the calendar pair round-trips for every 32-bit number of seconds (dates
     1970 .. 2106), fields in their ranges;
   - the 32-bit fraction of a second, printed through a float (the decimal
     digits are for the reader, the exact value is the hexadecimal float in
     "(...+0x..s)"), comes back exactly when it has at most 24 significant bits
     (frac_fits_float - the quantifier's "float-representable fraction"); a
     fraction with more bits is rounded by the code (0x12345679 -> 0x12345680)
     and one above 0xffffff7f becomes "0x1p+0", which the checker rejects:
     outside the quantifier, see notes/C10.md;
   - so the value of a time tag is rebuilt from what the printer writes.
   Text level (Pretty/TimeTokProofs, TimeSkipProofs, TimeFracProofs, TimeFracSkipProofs,
   TimeTokofProofs), for EVERY 32-bit number of seconds:
   - whole seconds, all three strftime formats: the scanner's date branch
     (C10_timetag_token_whole_seconds) and the checker's (C10_timetag_skip_whole_seconds)
     read the printed text back and stop behind it, whatever follows that is not a
     continuation of the token;
   - with a fraction that fits a float, lossless option
     ("... hh:mm:ss.dd (...+0x1.8p-3s)"): C10_timetag_token_fraction,
     C10_timetag_skip_fraction - the value comes from the hexadecimal float, exactly;
   - so the printed text is a TOKEN of the whole-function recognisers
     (C10_timetag_tokof_clock: whole seconds with a clock time other than 00:00:00;
     C10_timetag_tokof_fraction; C10_timetag_tokof_immediately), and a text of such tokens and the other proved
     tokens, with any white space between them, is counted and scanned back
     (C10_linebreak_transparent; C10_timetag_in_list).
   - printer to scanner: C10_roundtrip_timetags_partial, C10_message_timetags_partial
     (lists and messages of the proved scalar values and such time tags, compression
     off: returned length, count, whole text consumed, the values back).
   NOT proved: a date standing alone (midnight) as a token of `lang` (it is one only
   where no "hh:mm" follows: the side condition of C10_timetag_token_whole_seconds);
   time tags in the theorems with compression on / arrays (goodv has no VTm case: tied);
   a fraction without the lossless option (the decimal digits are not exact). *)
Theorem C10_timetag_calendar : forall s, 0 <= s < 2 ^ 32 ->
  let '(y, mo, d, h, mi, se) := date_of_secs s in
  secs_of_date y mo d h mi se = s /\
  1970 <= y <= 2200 /\ 1 <= mo <= 12 /\ 1 <= d <= 31 /\ 0 <= h < 24 /\ 0 <= mi < 60 /\ 0 <= se < 60.
Proof. exact calendar_roundtrip. Qed.

Theorem C10_timetag_fraction : forall sf, frac_fits_float sf -> float2secfracs (secfracs2float sf) = Some sf.
Proof. exact secfracs_roundtrip. Qed.

Theorem C10_timetag_value_partial : forall t, 0 <= t < 2 ^ 64 ->
  let secs := t / 2 ^ 32 in let sf := t mod 2 ^ 32 in
  sf = 0 \/ frac_fits_float sf ->
  let '(y, mo, d, h, mi, se) := date_of_secs secs in
  exists sf', (if sf =? 0 then Some 0 else float2secfracs (secfracs2float sf)) = Some sf' /\
              secs_of_date y mo d h mi se mod 2 ^ 32 * 2 ^ 32 + sf' mod 2 ^ 32 = t.
Proof. exact timetag_value_roundtrip. Qed.

Theorem C10_timetag_token_whole_seconds : forall (dec2f : list Z -> Z) o secs rest,
  0 <= secs < 2 ^ 32 -> tt_rest_ok rest ->
  scan_date dec2f (print_timetag o (secs * 2 ^ 32) ++ rest) = Ok ([VTm (secs * 2 ^ 32)], rest).
Proof. exact timetag_token_whole_seconds. Qed.

Theorem C10_timetag_skip_whole_seconds : forall o secs rest,
  0 <= secs < 2 ^ 32 -> tt_rest_ok_skip rest ->
  let text := print_timetag o (secs * 2 ^ 32) ++ rest in
  same_pos (skip_fmt fmt_date text) text = false /\
  skip_date (skip_fmt fmt_date text) = Ok (rest, 1, 116).
Proof. exact timetag_skip_whole_seconds. Qed.

(* what may follow the token: the end of the text, a following value, a closing
   bracket, an ellipsis *)
Theorem C10_timetag_token_nonvacuous :
  (tt_rest_ok [] /\ tt_rest_ok [32; 49; 50] /\ tt_rest_ok [93] /\ tt_rest_ok [32; 46; 46; 46; 32]) /\
  (tt_rest_ok_skip [] /\ tt_rest_ok_skip [32; 49; 50] /\ tt_rest_ok_skip [93] /\ tt_rest_ok_skip [32; 46; 46; 46; 32]).
Proof. exact (conj tt_rest_ok_examples tt_rest_ok_skip_examples). Qed.

Theorem C10_timetag_token_fraction : forall (dec2f : list Z -> Z) o secs sf rest,
  lossless o = true -> 0 <= secs < 2 ^ 32 -> frac_fits_float sf -> secs * 2 ^ 32 + sf <> 1 ->
  scan_date dec2f (print_timetag o (secs * 2 ^ 32 + sf) ++ rest) = Ok ([VTm (secs * 2 ^ 32 + sf)], rest).
Proof. exact timetag_token_fraction. Qed.

Theorem C10_timetag_skip_fraction : forall o secs sf rest,
  lossless o = true -> 0 <= secs < 2 ^ 32 -> frac_fits_float sf -> secs * 2 ^ 32 + sf <> 1 ->
  let text := print_timetag o (secs * 2 ^ 32 + sf) ++ rest in
  same_pos (skip_fmt fmt_date text) text = false /\
  skip_date (skip_fmt fmt_date text) = Ok (rest, 1, 116).
Proof. exact timetag_skip_fraction. Qed.

Theorem C10_timetag_fraction_nonvacuous :
  frac_fits_float (2 ^ 31) /\ 0 <= 1479144390 < 2 ^ 32 /\ 1479144390 * 2 ^ 32 + 2 ^ 31 <> 1.
Proof. exact timetag_token_fraction_nonvacuous. Qed.

Theorem C10_timetag_tokof_clock : forall (dec2f dec2d : list Z -> Z) o secs,
  0 <= secs < 2 ^ 32 -> secs mod 86400 <> 0 ->
  tokof dec2f dec2d (VTm (secs * 2 ^ 32)) (print_timetag o (secs * 2 ^ 32)).
Proof. exact timetag_tokof_clock. Qed.

Theorem C10_timetag_tokof_fraction : forall (dec2f dec2d : list Z -> Z) o secs sf,
  lossless o = true -> 0 <= secs < 2 ^ 32 -> frac_fits_float sf -> secs * 2 ^ 32 + sf <> 1 ->
  tokof dec2f dec2d (VTm (secs * 2 ^ 32 + sf)) (print_timetag o (secs * 2 ^ 32 + sf)).
Proof. exact timetag_tokof_fraction. Qed.

Theorem C10_timetag_tokof_immediately : forall (dec2f dec2d : list Z -> Z) o,
  tokof dec2f dec2d (VTm 1) (print_timetag o 1).
Proof. exact timetag_tokof_immediately. Qed.

(* 1 <line break> 2016-11-14 17:26 <tab> 2016-11-14 17:26:30.38 (...+0x1.8p-2s) true *)
Theorem C10_timetag_in_list : forall (dec2f dec2d : list Z -> Z),
  lang dec2f dec2d [VI 1; VTm ex_t1; VTm ex_t2; VT]
       ([49] ++ nl4 ++ print_timetag ex_o ex_t1 ++ [9] ++ print_timetag ex_o ex_t2 ++ [32] ++ kw_true).
Proof. exact timetag_in_list. Qed.

(* LISTS AND MESSAGES WITH TIME TAGS, printer to scanner (compression off): the
   proved scalar values and time tags that are "immediately", whole seconds with
   a clock time other than 00:00:00, or - lossless option - have a fraction that
   fits a float.  Partial: a date standing alone (midnight) is not in the class
   (it is a token only where no "hh:mm" follows), compression is off. *)
Theorem C10_roundtrip_timetags_partial : forall (dec2f dec2d : list Z -> Z) o vs text w,
  compress o = false ->
  Forall (good_val_tt o) vs -> print_arg_vals o vs 0 = Some (text, w) ->
  w = len text /\
  count_printed_arg_vals dec2f dec2d text = Ok (true, Z.of_nat (length vs)) /\
  scan_arg_vals dec2f dec2d text (Z.of_nat (length vs)) = Ok (vs, []).
Proof. exact roundtrip_with_timetags. Qed.

Theorem C10_message_timetags_partial : forall (dec2f dec2d : list Z -> Z) o addr vs text w,
  compress o = false -> good_addr addr -> Forall (good_val_tt o) vs ->
  print_message o addr vs 0 = Some (text, w) ->
  w = len text /\
  count_printed_arg_vals_of_msg dec2f dec2d text = Ok (true, Z.of_nat (length vs)) /\
  scan_message dec2f dec2d text (Z.of_nat (length vs)) = Ok (addr, vs, []).
Proof. exact message_roundtrip_with_timetags. Qed.

(* 1, 2016-11-14 17:26, 2016-11-14 17:26:30.375, immediately, true, "a b": in the
   class, and the printer answers *)
Theorem C10_timetags_nonvacuous :
  Forall (good_val_tt ex_o) ex_tt_list /\ exists text w, print_arg_vals ex_o ex_tt_list 0 = Some (text, w).
Proof. exact (conj ex_tt_list_good ex_tt_list_prints). Qed.

(* immediately, 2016-11-14, 2016-11-14 17:26, 2016-11-14 17:26:30,
   2016-11-14 17:26:30.50 (...+0x1p-1s), 2106-02-07 06:28:15.00 (...+0x1.8p-23s), 12 *)
Theorem C10_timetag_examples : forall (dec2f dec2d : list Z -> Z),
  let o := {| lossless := true; prec := 2; linelength := 80; compress := false |} in
  exists text w, print_arg_vals o ex_timetags 0 = Some (text, w) /\ w = len text /\
    count_printed_arg_vals dec2f dec2d text = Ok (true, 7) /\
    scan_arg_vals dec2f dec2d text 7 = Ok (ex_timetags, []).
Proof. exact timetag_examples. Qed.

Theorem C10_decimal_roundtrip : forall v rest,
  num_follow rest -> sc_d (print_d v ++ rest) = Some (v, rest) /\ sc_i (print_d v ++ rest) = Some (v, rest).
Proof. exact (fun v rest H => conj (sc_d_print v rest H) (sc_i_print v rest H)). Qed.

(* defects of the pinned tree, witnesses against the pre-fix functions *)
Theorem C10_roundtrip_refuted_D7 :
  exists text w, print_arg_vals opts80 [VI (-10); VI (-20)] 0 = Some (text, w) /\
    count_printed_arg_vals no_oracle no_oracle text = Ok (true, 2) /\
    checker_date_test text = false /\ old_scanner_date_test text = true.
Proof. exact D7_witness. Qed.

Theorem C10_roundtrip_refuted_D8 :
  exists text w, print_arg_vals opts80 [VD dbl_0_1] 0 = Some (text, w) /\
    scan_numeric_D8 no_oracle no_oracle text = Ok (VD 1036831949, []) /\
    scan_numeric no_oracle no_oracle text = Ok (VD dbl_0_1, []).
Proof. exact D8_witness. Qed.

Theorem C10_roundtrip_refuted_D10 :
  print_symbol_D10 kw_true = kw_true /\
  scan_arg_vals no_oracle no_oracle (print_symbol_D10 kw_true) 1 = Ok ([VT], []) /\
  count_printed_arg_vals no_oracle no_oracle (print_symbol_D10 kw_MIDI ++ [32; 49]) = Ok (false, 1) /\
  (exists text w, print_arg_vals opts80 [VSym kw_true] 0 = Some (text, w) /\
     scan_arg_vals no_oracle no_oracle text 1 = Ok ([VSym kw_true], [])).
Proof. exact D10_witness. Qed.

(* D26/D27 (fixed in the repository): the pre-fix conversion compressed a run
   that wraps around and a run whose span does not fit the type *)
Theorem C10_range_refuted_D26 :
  (exists c, convert_to_range_D26 opts_c wrap_run 6 = CYes c 6) /\
  convert_to_range opts_c wrap_run 6 = CNo /\
  (exists c, convert_to_range_D26 opts_c span_run 8 = CYes c 8) /\
  convert_to_range opts_c span_run 8 = CNo /\
  (exists text w, print_arg_vals opts_c wrap_run 0 = Some (text, w) /\
     scan_arg_vals no_oracle no_oracle text 6 = Ok (wrap_run, [])).
Proof. exact D26_witness. Qed.

(* D32 (fixed in the repository): the checker searched the text of a preceding
   array for the ellipsis of "a preceding range"; "[1 ... 6 9] 9 ... 13" (what
   the printer writes for [1 2 3 4 5 6 9] 9 10 11 12 13) was rejected *)
Theorem C10_roundtrip_refuted_D32 :
  (exists w, print_arg_vals opts_c arr_then_run 0 = Some (arr_then_run_text, w)) /\
  chk_l1_D32 arr_then_run_text (skipn 14 arr_then_run_text) = Some (skipn 7 arr_then_run_text) /\
  chk_l1 arr_then_run_text (skipn 14 arr_then_run_text) = Some arr_then_run_text /\
  count_printed_arg_vals no_oracle no_oracle arr_then_run_text = Ok (true, 8) /\
  (exists slots, scan_arg_vals no_oracle no_oracle arr_then_run_text 8 = Ok (slots, []) /\
                 length slots = 8%nat).
Proof. exact D32_witness. Qed.

(* the hypotheses are satisfiable by a list that needs a line break, a string
   broken in two and an escaped quote *)
Theorem C10_nonvacuous :
  Forall good_val [VI (-10); VI (-20); VS [104; 101; 108; 108; 111; 10; 34]; VC 39; VH 5; VT; VSym [49; 120]] /\
  exists text w, print_arg_vals {| lossless := true; prec := 2; linelength := 10; compress := false |}
    [VI (-10); VI (-20); VS [104; 101; 108; 108; 111; 10; 34]; VC 39; VH 5; VT; VSym [49; 120]] 0 = Some (text, w).
Proof. exact nonvacuous_list. Qed.
