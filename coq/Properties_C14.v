(* C14 - Parameter ports clamp to their declared range and report every change.
   Only the property theorems, each closed by [exact]; proofs live in
   Ports/SugarProofs.v (and Ports/SugarRegress.v for the pre-fix witnesses),
   the model and the Spec definitions in Ports/SugarModel.v.

   [numeric_set e loc old key mka mkb v r] enumerates the set messages of the
   numeric and option kinds (rParam/char, rParamI, rParamF, rOption with an
   'i' or 'c' argument, the element callback of rArrayI; rArrayF and
   rArrayOption use rParamFCb / rOptionCb on the addressed element):
   r is the callback's result on stored value [old] and incoming value [v].
   Its side conditions are the property's quantifier: char-backed kinds
   -128..127 (for rArrayI, whose local is a char whatever the element type,
   also the stored value: C14_arrayI_wide_element_refuted), floats without NaN. *)
From Coq Require Import List ZArith.
From RtoscV Require Import Ports.SugarModel Ports.SugarProofs Ports.SugarRegress Ports.SugarReplay
     Ports.SugarOptions Ports.SugarOptionsProofs.
Import ListNotations.
Local Open Scope Z_scope.

(* the value stored afterwards is the incoming value clamped to the declared
   minimum and maximum (absent bound = no restriction).  No order between the
   bounds is assumed: [clampK] applies the lower bound first, then the upper
   (min(max(v,lo),hi)), so for an inverted range (min > max) every value is
   stored as max - the correspondence run generates inverted ranges too and its
   oracle demands exactly this; "inside the range" (C14_in_range) needs
   [bounds_ordered]. *)
Theorem C14_clamp : forall e loc old key mka mkb v r,
  numeric_set e loc old key mka mkb v r ->
  exists o, r = Some (clampK key (p_min e) (p_max e) v, o).
Proof. exact numeric_clamp. Qed.

(* for the integer kinds that is min(hi, max(lo, v)) *)
Theorem C14_clamp_is_min_max : forall mn mx v, clampK zkey mn mx v = zclamp mn mx v.
Proof. exact clampK_zclamp. Qed.

(* with min <= max the stored value lies inside the range; a value inside the
   range is stored unchanged *)
Theorem C14_in_range : forall e loc old key mka mkb v r st o,
  numeric_set e loc old key mka mkb v r ->
  bounds_ordered key (p_min e) (p_max e) ->
  r = Some (st, o) -> in_rangeK key (p_min e) (p_max e) st.
Proof. exact numeric_in_range. Qed.

Theorem C14_inside_unchanged : forall V (key : V -> Z) mn mx v,
  in_rangeK key mn mx v -> clampK key mn mx v = v.
Proof. exact clampK_inside. Qed.

(* a message without arguments replies the stored value at the address and
   changes nothing: scalar kinds and element callbacks, strings, arrays (the
   element the address names), rParams' blob *)
Theorem C14_query_pure : forall e loc v,
  rParamCb e loc v [] = Some (v, [Reply (mk loc [Ac v])]) /\
  rParamFCb e loc v [] = Some (v, [Reply (mk loc [Af v])]) /\
  rParamICb e loc v [] = Some (v, [Reply (mk loc [Ai v])]) /\
  rOptionCb e loc v [] = Some (v, [Reply (mk loc [Ai v])]) /\
  rToggleCb e loc v [] = Some (v, [Reply (mk loc [if v =? 0 then AFalse else ATrue])]) /\
  rArrayICb_elem e loc v [] = Some (v, [Reply (mk loc [Ai v])]) /\
  rArrayTCb_elem e loc v [] = Some (v, [Reply (mk loc [if v =? 0 then AFalse else ATrue])]).
Proof. exact query_scalar. Qed.

Theorem C14_query_pure_string : forall len e loc buf s,
  cstr buf = Some s -> rStringCb len e loc buf [] = Some (buf, [Reply (mk loc [As s])]).
Proof. exact query_string. Qed.

Theorem C14_query_pure_array : forall e ds rest arr cur loc,
  p_hash e = true -> digits_ok ds -> starts_nondigit rest ->
  nth_error arr (Z.to_nat (digits_val ds)) = Some cur ->
  let m := array_address e ds rest in
  rArrayICb e loc m arr [] = Some (arr, [Reply (mk loc [Ai cur])]) /\
  rArrayFCb e loc m arr [] = Some (arr, [Reply (mk loc [Af cur])]) /\
  rArrayOptionCb e loc m arr [] = Some (arr, [Reply (mk loc [Ai cur])]) /\
  rArrayTCb e loc m arr [] = Some (arr, [Reply (mk loc [if cur =? 0 then AFalse else ATrue])]).
Proof. exact query_array. Qed.

Theorem C14_query_pure_params : forall len e loc arr,
  len <= Z.of_nat (length arr) ->
  rParamsCb len e loc arr [] =
    Some (arr, [Reply (mk loc [Ab (map (fun v => v mod 256) (firstn (Z.to_nat len) arr))])]).
Proof. exact query_params. Qed.

(* a set broadcasts the stored value at the address - exactly one broadcast,
   no reply other than the undo event *)
Theorem C14_broadcast_new : forall e loc old key mka mkb v r st o,
  numeric_set e loc old key mka mkb v r -> r = Some (st, o) ->
  broadcasts o = [mk loc [mkb st]] /\ replies o = [].
Proof. exact numeric_broadcast. Qed.

(* toggles: the new value is stored; broadcast (carrying the incoming T/F tag)
   exactly when it differs from the stored one *)
Theorem C14_broadcast_toggle : forall e loc old a t,
  arg_T a = Some t ->
  rToggleCb e loc old [a] = Some (if old =? t then (old, []) else (t, [Bcast (mk loc [a])])) /\
  rArrayTCb_elem e loc old [a] = Some (t, if old =? t then [] else [Bcast (mk loc [a])]).
Proof. exact toggle_set. Qed.

(* exactly one undo event carrying (address, true previous value, new value)
   iff the stored value changed.
   PARTIAL - side condition inside [numeric_set] (constructor NS_arrayI): for the
   element callback of rArrayI the STORED value [old] must lie in the char range
   -128..127 ([char_range old]).  On an rArrayI port over elements wider than
   char the full statement is false of the current code
   (C14_arrayI_wide_element_refuted, finding class arrayI-wide-element); for
   every other kind [numeric_set] puts no condition on [old] beyond "no NaN"
   for floats, and the statement is the full one.  C14_clamp, C14_in_range and
   C14_broadcast_new go through the same [numeric_set] but do not depend on
   [old]: the value stored and broadcast by rArrayI is the clamped incoming
   value whatever the element held (rArrayICb_elem_stored). *)
Theorem C14_undo_iff_partial : forall e loc old key mka mkb v r st o,
  numeric_set e loc old key mka mkb v r -> r = Some (st, o) ->
  undo_events o = if key old =? key st then [] else [undo_event loc mka old st].
Proof. exact numeric_undo_iff. Qed.

(* the same three facts for a set by option symbol, which stores the number of
   the first option carrying the symbol *)
Theorem C14_option_symbol : forall e loc old s k,
  symbol_index (p_map e) s = Some k ->
  exists res, rOptionCb e loc old [ASy s] = Some res /\
              set_spec zkey Ai Ai None None loc old k res.
Proof. exact rOptionCb_set_symbol. Qed.

Theorem C14_symbol_index_first : forall mp s k,
  symbol_index mp s = Some k <->
  exists pre post, mp = pre ++ (k, s) :: post /\ Forall (fun kv => snd kv <> s) pre.
Proof. exact symbol_index_first. Qed.

(* an array port reads and writes the element its address names and no other:
   its result is the element callback's result on that element, the array
   afterwards differs from the one before in that element only *)
Theorem C14_array_frame : forall e ds rest arr cur loc args,
  p_hash e = true -> digits_ok ds -> starts_nondigit rest ->
  nth_error arr (Z.to_nat (digits_val ds)) = Some cur ->
  let m := array_address e ds rest in
  let i := Z.to_nat (digits_val ds) in
  forall cb elem, In (cb, elem)
      [(rArrayICb, rArrayICb_elem); (rArrayFCb, rParamFCb);
       (rArrayOptionCb, rOptionCb); (rArrayTCb, rArrayTCb_elem)] ->
  forall arr' o, cb e loc m arr args = Some (arr', o) ->
  exists v, elem e loc cur args = Some (v, o) /\ frame arr arr' i v.
Proof. exact array_set_frame. Qed.

Theorem C14_array_index : forall e ds rest,
  p_hash e = true -> digits_ok ds -> starts_nondigit rest ->
  boils_idx e (array_address e ds rest) = digits_val ds.
Proof. exact boils_idx_names. Qed.

(* strings are truncated to the declared length (one byte is the terminator) *)
Theorem C14_string_trunc : forall len e loc buf s,
  1 <= len -> Z.of_nat (length buf) = len -> nul_free s ->
  exists buf', rStringCb len e loc buf [As s] =
                 Some (buf', [Bcast (mk loc [As (firstn (Z.to_nat (len - 1)) s)])]) /\
               cstr buf' = Some (firstn (Z.to_nat (len - 1)) s) /\
               length buf' = length buf.
Proof. exact rStringCb_set. Qed.

(* clamping is idempotent (used by C12: a saved value loads back unchanged) and
   re-sending the stored value reports nothing *)
Theorem C14_clamp_idem : forall V (key : V -> Z) mn mx v,
  clampK key mn mx (clampK key mn mx v) = clampK key mn mx v.
Proof. exact clampK_idem. Qed.

Theorem C14_set_stored_again : forall e loc key mka mkb v r st o,
  numeric_set e loc st key mka mkb v r -> r = Some (st, o) -> undo_events o = [].
Proof. exact numeric_set_stored_again. Qed.

(* non-vacuity *)
Theorem C14_nonvacuous :
  numeric_set env_ex [47] 5 zkey Ac Ac 100 (rParamCb env_ex [47] 5 [Ac 100]) /\
  rParamCb env_ex [47] 5 [Ac 100] =
    Some (9, [Reply (mk undo_path [As [47]; Ac 5; Ac 9]); Bcast (mk [47] [Ac 9])]).
Proof. exact numeric_set_nonvacuous. Qed.

Theorem C14_array_nonvacuous :
  digits_ok [0; 3] /\ digits_val [0; 3] = 3 /\
  rArrayICb env_ex [47] (array_address env_ex [0; 3] []) [1; 2; 3; 4] [Ai 50] =
    Some ([1; 2; 3; 9], [Reply (mk undo_path [As [47]; Ai 4; Ai 9]); Bcast (mk [47] [Ai 9])]).
Proof. exact array_address_nonvacuous. Qed.

Theorem C14_string_trunc_nonvacuous :
  1 <= 5 /\ Z.of_nat (length [65; 0; 77; 0; 0]) = 5 /\ nul_free [97; 98; 99; 100; 101; 102] /\
  rStringCb 5 env_ex [47] [65; 0; 77; 0; 0] [As [97; 98; 99; 100; 101; 102]] =
    Some ([97; 98; 99; 100; 0], [Bcast (mk [47] [As [97; 98; 99; 100]])]).
Proof. exact string_trunc_nonvacuous. Qed.

Theorem C14_option_symbol_nonvacuous :
  symbol_index (p_map env_ex) [114] = Some 0 /\
  rOptionCb env_ex [47] 2 [ASy [114]] =
    Some (0, [Reply (mk undo_path [As [47]; Ai 2; Ai 0]); Bcast (mk [47] [Ai 0])]).
Proof. exact option_symbol_nonvacuous. Qed.

Theorem C14_member_toggle_nonvacuous :
  p_hash env_arr = true /\ digits_ok [1] /\ starts_nondigit [] /\
  nth_error [7; 0; 8; 1] (Z.to_nat (2 * digits_val [1] + 1)) = Some 1 /\ arg_T AFalse = Some 0 /\
  rArrayTCbMember env_arr [47; 110; 49] (array_address env_arr [1] []) [7; 0; 8; 1] [AFalse] =
    Some ([7; 0; 8; 0], [Bcast (mk [47; 110; 49] [AFalse])]).
Proof. exact member_toggle_nonvacuous. Qed.

(* a float kind: port -1.5 .. 2.5 holding 0.5; set 100.0, query, set -7.125 *)
Theorem C14_history_in_range_nonvacuous :
  numeric_kind KF /\ env_ok env_flt KF /\
  bounds_ordered (kind_key KF) (p_min env_flt) (p_max env_flt) /\ map_in_range env_flt /\
  Forall (fun o => conforming env_flt KF (op_args o)) hist_flt /\ stored_ok env_flt KF [1056964608] /\
  exists outs, run KF env_flt hist_flt [1056964608] = Some ([3217031168], outs) /\
    undo_pairs outs = [(1056964608, 1075838976); (1075838976, 3217031168)].
Proof. exact history_in_range_nonvacuous. Qed.

(* the side condition "stored value inside the char range" of rArrayI cannot be
   dropped (CURRENT code, int-element array holding 261): the query replies 261,
   a set of 5 stores 5 without an undo event, a set of 7 reports 5 as the
   previous value.  Replayed on the real code (harness kind AIW); finding class
   arrayI-wide-element. *)
Theorem C14_arrayI_wide_element_refuted :
  let e := {| p_name := [119]; p_hash := true; p_min := None; p_max := None; p_map := [] |} in
  ~ char_range 261 /\ char_range 5 /\ char_range 7 /\
  rArrayICb_elem e [47; 119; 48] 261 [] = Some (261, [Reply (mk [47; 119; 48] [Ai 261])]) /\
  rArrayICb_elem e [47; 119; 48] 261 [Ai 5] = Some (5, [Bcast (mk [47; 119; 48] [Ai 5])]) /\
  rArrayICb_elem e [47; 119; 48] 261 [Ai 7] =
    Some (7, [Reply (mk undo_path [As [47; 119; 48]; Ai 5; Ai 7]); Bcast (mk [47; 119; 48] [Ai 7])]).
Proof. exact arrayI_wide_element. Qed.

(* the code before the two fix: commits did not have the property (witnesses
   replayed on the unfixed code, corpus/C14/defects.txt) *)
Theorem C14_undo_iff_float_before_fix_refuted :
  exists e loc old b,
    nonan old /\ nonan b /\ onan (p_min e) /\ onan (p_max e) /\
    forall junk st o, rParamFCb_old junk e loc old [Af b] = Some (st, o) ->
      fkey old <> fkey st /\ undo_events o <> [undo_event loc Af old st].
Proof. exact undo_iff_float_old_refuted. Qed.

Theorem C14_array_frame_before_fix_refuted :
  exists e ds arr v,
    p_hash e = true /\ digits_ok ds /\ digits_val ds = 3 /\
    boils_idx_old (array_address e ds []) = 2 /\
    rArrayICb_old e [47] (array_address e ds []) arr [Ai v] =
      Some ([1; 2; 50; 4], [Reply (mk undo_path [As [47]; Ai 3; Ai 50]); Bcast (mk [47] [Ai 50])]) /\
    arr = [1; 2; 3; 4].
Proof. exact array_frame_old_refuted. Qed.

(* histories.  Any sequence of queries and conforming sets on a scalar numeric
   or option port (address different from "/undo_change") is answered, and
   the (previous, new) pairs of the undo events it emits form a chain from the
   initial to the final stored value: every event starts where the one before
   ended, every event is a real change, nothing changed without an event. *)
Theorem C14_undo_chain : forall k e ops v0,
  scalar_numeric k -> env_ok e k -> val_ok k v0 -> Forall (op_ok e k) ops ->
  exists v1 outs, run k e ops [v0] = Some ([v1], outs) /\ val_ok k v1 /\
                  chainK (kind_key k) v0 (undo_pairs outs) v1.
Proof. exact run_scalar_chain. Qed.

(* over a whole history an array keeps its length and every element that no
   message of the history addresses keeps its value *)
Theorem C14_history_frame : forall k e ops arr arr' outs,
  is_array k = true -> run k e ops arr = Some (arr', outs) ->
  length arr' = length arr /\
  forall j, Forall (fun o => Z.to_nat (boils_idx e (op_m o)) <> j) ops ->
            nth_error arr' j = nth_error arr j.
Proof. exact run_array_frame. Qed.

Theorem C14_history_nonvacuous :
  Forall (op_ok env_ex KI) hist_ex /\
  exists outs, run KI env_ex hist_ex [5] = Some ([-3], outs) /\ undo_pairs outs = [(5, 9); (9, -3)].
Proof. exact history_nonvacuous. Qed.

(* outside the property's quantifier, recorded because it shows that the "no
   NaN" side condition of [numeric_set] is necessary: a NaN is stored whatever
   the declared range is, and re-sending it reports a change every time *)
Theorem C14_nan_is_stored_unclamped :
  exists e loc old b,
    onan (p_min e) /\ onan (p_max e) /\ bounds_ordered fkey (p_min e) (p_max e) /\
    nonan old /\ f_is_nan b = true /\
    exists o1 o2, rParamFCb e loc old [Af b] = Some (b, o1) /\
                  rParamFCb e loc b [Af b] = Some (b, o2) /\
                  undo_events o2 = [undo_event loc Af b b].
Proof. exact nan_not_clamped. Qed.

(* the declared range is an invariant of every history: with min <= max and the
   option numbers inside the range, whatever sequence of queries and conforming
   sets a numeric / option port (scalar or array, any length) receives, every
   stored element stays an ordered value inside the range *)
Theorem C14_history_in_range : forall k e ops st st' outs,
  numeric_kind k -> env_ok e k ->
  bounds_ordered (kind_key k) (p_min e) (p_max e) -> map_in_range e ->
  Forall (fun o => conforming e k (op_args o)) ops -> stored_ok e k st ->
  run k e ops st = Some (st', outs) -> stored_ok e k st'.
Proof. exact run_inv. Qed.

(* the undo event replays through the port that emitted it.  For every callback
   kind that emits undo events (rParam, rParamI, rParamF, rOption, rArrayI,
   rArrayF, rArrayOption, rCOptionCb), every set message of the quantifier and
   every "/undo_change" among what the callback emitted: the event carries the
   port's address and both values with the port's own argument type
   ([event_arg k]), that type is in the port's argument specification
   ([in_spec]: Ports::dispatch delivers the set-messages an undo history
   builds from the event to this port), the old-value message dispatched to
   the port afterwards restores the stored values, the new-value message
   stores the new value again - from the state before and from the state
   after.  The stored values stay inside the declared range ([stored_stable]
   is an invariant), so this holds along any history that STARTS in such a
   state.  Side condition to read in [stored_stable] ([stable]): for rParam and
   rArrayI every stored value is a char (-128..127).  For rArrayI over elements
   wider than char that is a real restriction on the initial contents (an
   element holding 261: the event carries 5, C14_arrayI_wide_element_refuted);
   it is the premise [char_range old] of NS_arrayI reached through
   conf_numeric. *)
Theorem C14_undo_event_replays : forall k e loc m st args st' outs,
  undo_kind k -> env_ok e k ->
  bounds_ordered (kind_key k) (p_min e) (p_max e) -> map_in_range e ->
  conf e k args -> stored_stable e k st ->
  step k e loc m st args = Some (st', outs) ->
  stored_stable e k st' /\
  forall l a b, In (Reply (mk undo_path [As l; a; b])) outs ->
    l = loc /\ (exists old new, a = event_arg k old /\ b = event_arg k new) /\
    in_spec k [a] = true /\ in_spec k [b] = true /\
    (exists st1 o1, step k e loc m st' [a] = Some (st1, o1) /\ values k st1 = values k st) /\
    (exists st2 o2, step k e loc m st [b] = Some (st2, o2) /\ values k st2 = values k st') /\
    (exists st3 o3, step k e loc m st' [b] = Some (st3, o3) /\ values k st3 = values k st').
Proof. exact step_event_replays. Qed.

Theorem C14_undo_event_replays_nonvacuous :
  undo_kind KAI /\ env_ok env_arr KAI /\ bounds_ordered (kind_key KAI) (p_min env_arr) (p_max env_arr) /\
  map_in_range env_arr /\ conf env_arr KAI [Ai 50] /\ stored_stable env_arr KAI [1; 2; 3] /\
  step KAI env_arr [47; 110; 49] [110; 49] [1; 2; 3] [Ai 50] =
    Some ([1; 9; 3], [Reply (mk undo_path [As [47; 110; 49]; Ai 2; Ai 9]); Bcast (mk [47; 110; 49] [Ai 9])]) /\
  step KAI env_arr [47; 110; 49] [110; 49] [1; 9; 3] [Ai 2] =
    Some ([1; 2; 3], [Reply (mk undo_path [As [47; 110; 49]; Ai 9; Ai 2]); Bcast (mk [47; 110; 49] [Ai 2])]).
Proof. exact replays_nonvacuous. Qed.

(* rCOptionCb(getcode, setcode), the option callback over a pair of
   expressions: with a setter that stores what it is given it is rOptionCb on
   the value of getcode - clamp, undo event, broadcast and symbol translation
   are those of C14_clamp / C14_undo_iff_partial / C14_broadcast_new /
   C14_option_symbol - and setcode runs on every set message *)
Theorem C14_coption_as_option : forall S (get : S -> Z) (set : S -> Z -> S),
  (forall s v, get (set s v) = v) ->
  forall e loc s args,
    rCOptionCb_ get set e loc s args =
    match rOptionCb e loc (get s) args with
    | Some (v, o) => Some (match args with [] => s | _ => set s v end, o)
    | None => None
    end.
Proof. exact rCOptionCb_as_option. Qed.

(* the harness port's pair (a field and a counter of setter invocations) *)
Theorem C14_coption_counted : forall e loc v n args,
  rCOptionCb_counted e loc [v; n] args =
  match rOptionCb e loc v args with
  | Some (v', o) => Some ([v'; match args with [] => n | _ => n + 1 end], o)
  | None => None
  end.
Proof. exact counted_as_option. Qed.

(* observation: the setter's law is needed - the event reports the value handed
   to setcode, the broadcast the value getcode returns afterwards *)
Theorem C14_coption_needs_storing_setter :
  exists (get : Z -> Z) (set : Z -> Z -> Z) e loc s s' o,
    rCOptionCb_ get set e loc s [Ai 7] = Some (s', o) /\ get s' = 3 /\
    undo_events o = [Reply (mk undo_path [As loc; Ai 0; Ai 7])].
Proof. exact coption_needs_storing_setter. Qed.

(* rArrayTCbMember(name, member): the toggle contract of rArrayT on the member
   of the element the address names; of the flattened struct array (two entries
   per element) only that member's entry changes *)
Theorem C14_member_toggle : forall e ds rest arr cur loc a t,
  p_hash e = true -> digits_ok ds -> starts_nondigit rest ->
  let i := Z.to_nat (2 * digits_val ds + 1) in
  nth_error arr i = Some cur -> arg_T a = Some t ->
  rArrayTCbMember e loc (array_address e ds rest) arr [a] =
    Some (upd arr i t, if cur =? t then [] else [Bcast (mk loc [a])]) /\
  frame arr (upd arr i t) i t /\
  rArrayTCbMember e loc (array_address e ds rest) arr [] =
    Some (arr, [Reply (mk loc [if cur =? 0 then AFalse else ATrue])]).
Proof. exact member_toggle. Qed.

(* "option symbols translated to their index" for a list declared with rOptions(s_0, ..., s_{n-1})
   (any n, pairwise distinct symbols): symbol number i is stored as i, with the undo / broadcast
   contract of a set.  The tie drives one such port per argument count the macro family supports. *)
Theorem C14_option_symbol_position : forall e loc old syms i s,
  p_map e = rOptions_decl syms -> NoDup syms -> nth_error syms i = Some s ->
  exists res, rOptionCb e loc old [ASy s] = Some res /\
              set_spec zkey Ai Ai None None loc old (Z.of_nat i) res.
Proof. exact rOptionCb_symbol_position. Qed.

Theorem C14_option_symbol_position_nonvacuous :
  let syms := [[97]; [98]; [99]; [100]; [101]; [102]; [103]; [104]; [105]; [106]; [107;105;108;111]] in
  NoDup syms /\ nth_error syms 10 = Some [107;105;108;111] /\
  symbol_index (rOptions_decl syms) [107;105;108;111] = Some 10.
Proof. exact symbol_position_nonvacuous. Qed.
