(* C13 - Loading a savefile does not depend on the order of its lines.
   Only theorem statements closed by [exact]; proofs in Save/TopoProofs.v. *)
From Coq Require Import List ZArith Bool Permutation.
From RtoscV Require Import Save.TopoModel Save.TopoProofs.
Import ListNotations.

(* Two orders of the same messages that both respect the dependencies leave
   the same state, provided messages without a dependency between them commute. *)
Theorem C13_linear_extensions_agree :
  forall (X S : Type) (R : X -> X -> Prop) (f : X -> S -> S),
    (forall x y s, ~ R x y -> ~ R y x -> f x (f y s) = f y (f x s)) ->
    forall l1 l2, NoDup l1 -> Permutation l1 l2 -> respects R l1 -> respects R l2 ->
    forall s, run X S f l1 s = run X S f l2 s.
Proof. exact linext_unique. Qed.
