(* C13 - Loading a savefile does not depend on the order of its lines.
   Only theorem statements closed by [exact]; proofs in Save/TopoProofs.v,
   Save/KahnProofs.v, Save/TopoRegress.v. *)
From Coq Require Import List ZArith Bool Permutation.
From RtoscV Require Ports.NameModel.
From RtoscV Require Import Save.TopoModel Save.KahnProofs Save.TopoProofs Save.TopoEdges Save.TopoPerm Save.TopoTree Save.TopoRegress Save.TopoRoot.
From RtoscV Require Save.DeclModel Save.DeclProofs Save.CondModel Save.CondProofs.
From RtoscV Require Import Save.SaveModel Save.SaveProofs Save.RoundFull Save.CommuteProofs Save.PermApp.
Import ListNotations.

(* The sort as coded (counters, queue seeded in file order, fuel = number of
   messages), on ANY dependency lists over n messages that are acyclic
   (ranked): it ends within its fuel, hands out every message exactly once and
   never a message in front of one it waits for. *)
Theorem C13_kahn : forall n (deps : nat -> list nat),
  (forall m d, In d (deps m) -> (d < n)%nat) -> ranked_deps n deps ->
  exists order, kahn n deps = Some order /\
                Permutation order (seq 0 n) /\ respects (waits deps) order.
Proof. exact kahn_correct. Qed.

(* The same for the edges scan_deps produces for a file (any port tree, any
   metadata, any number of lines): if the scan ends (Some ps) and the edges are
   acyclic, the hand-out order is a permutation of the messages and every
   (dependee, dependent) edge is respected. *)
Theorem C13_topo : forall A apropos fuel (ms : list (message A)) ps,
  pushes A apropos fuel ms = Some ps -> ranked ps ->
  exists order, load_order apropos fuel ms = Some order /\
                Permutation order (seq 0 (length ms)) /\
                respects (edge ps) order.
Proof. exact load_order_topo. Qed.

(* Two orders of the same messages that both respect the dependencies leave
   the same state, provided messages without a dependency between them commute. *)
Theorem C13_linear_extensions_agree :
  forall (X S : Type) (R : X -> X -> Prop) (f : X -> S -> S),
    (forall x y s, ~ R x y -> ~ R y x -> f x (f y s) = f y (f x s)) ->
    forall l1 l2, NoDup l1 -> Permutation l1 l2 -> respects R l1 -> respects R l2 ->
    forall s, run X S f l1 s = run X S f l2 s.
Proof. exact linext_unique. Qed.

(* The edges of a file depend only on the set of addresses that have a line,
   not on where the lines stand. *)
Theorem C13_same_edges : forall A apropos fuel (ms1 ms2 : list (message A)) orig cur,
  Permutation ms1 ms2 ->
  scan_deps apropos (map_keys A ms1) fuel orig cur = scan_deps apropos (map_keys A ms2) fuel orig cur.
Proof. exact same_edges. Qed.

(* Every "enabled by" / "depends" / "default depends" reference - of the port a
   line addresses or of any of its parents - whose target has a line yields an
   edge (target, line).  For ANY lookup function apropos; the '#' restriction of
   the design concerns whether Ports::apropos finds the referring port (C18) and
   shows up only once apropos is instantiated (apropos_of_tree below). *)
Theorem C13_edges_complete : forall A apropos fuel (ms : list (message A)) ps k o ic m e t i,
  pushes A apropos fuel ms = Some ps ->
  In k (map_keys A ms) -> index_of A k ms = Some o ->
  In ic (flagged (ancestors k)) ->
  apropos (if fst ic then snd ic ++ [slash] else snd ic) = Some m ->
  In e (dep_values m) -> resolve_entry (fst ic) (port_name m) e (snd ic) = Some t ->
  index_of A t ms = Some i -> has_key (map_keys A ms) t = true -> t <> k ->
  In (i, o) ps.
Proof. exact edges_complete_port. Qed.

(* The same for the "self:" port of every directory above the address: a
   directory enabled as a whole by one of its own ports (rSelf(.., rEnabledBy(x)))
   gives the edge (x, line) for every other line below it. *)
Theorem C13_edges_complete_self : forall A apropos fuel (ms : list (message A)) ps k o (ic : bool * str) s m e t i,
  pushes A apropos fuel ms = Some ps ->
  In k (map_keys A ms) -> index_of A k ms = Some o ->
  In ic (flagged (ancestors k)) ->
  rel2abs self_name (snd ic) = Some s -> apropos s = Some m ->
  In e (dep_values m) -> resolve_entry (fst ic) (port_name m) e (snd ic) = Some t ->
  index_of A t ms = Some i -> has_key (map_keys A ms) t = true -> t <> k ->
  In (i, o) ps.
Proof. exact edges_complete_self. Qed.

(* The ROOT table's "self:" port (rSelf(.., rEnabledBy(on)) on the table handed to load_from_file):
   scan_deps never visits the root as a directory, its "self:" is looked up in the round of the
   root-level component (rel2abs("self:", "/x") = "/self:").  Every entry of that port whose target
   has a line gives the edge to a root-level line /x ... *)
Theorem C13_edges_complete_root_self : forall A apropos fuel (ms : list (message A)) ps x o m e t i,
  pushes A apropos fuel ms = Some ps ->
  ~ In slash x ->
  In (slash :: x) (map_keys A ms) -> index_of A (slash :: x) ms = Some o ->
  apropos (slash :: self_name) = Some m ->
  In e (dep_values m) -> resolve_entry false (port_name m) e (slash :: x) = Some t ->
  index_of A t ms = Some i -> has_key (map_keys A ms) t = true -> t <> slash :: x ->
  In (i, o) ps.
Proof. exact edges_complete_root_self. Qed.

(* ... and (computed; non-vacuity) to the lines below: root { self: enabled by "on", on, x, sub/{y} },
   file /x, /sub/y, /on: the line of /on is pushed for both others *)
Theorem C13_root_self_nonvacuous :
  let ms := [([47; 120], tt); ([47; 115; 117; 98; 47; 121], tt); ([47; 111; 110], tt)]%Z in
  pushes unit ex_root_apropos 10%nat ms = Some [(2%nat, 1%nat); (2%nat, 0%nat)].
Proof. exact root_self_example. Qed.

(* "... including files where a depended-on port is itself absent": a reference that passes
   through ports WITHOUT a line - k refers to u (by an entry of its own, a parent's or a "self:"
   port's metadata), u has no line and refers on, ... up to t, which has one - makes k wait for t
   (the recursive call of scan_deps).  [reaches] is the chain, Save/TopoEdges.v *)
Theorem C13_edges_complete_through : forall A apropos fuel (ms : list (message A)) ps k o t i,
  pushes A apropos fuel ms = Some ps ->
  In k (map_keys A ms) -> index_of A k ms = Some o ->
  reaches apropos (map_keys A ms) k k t -> index_of A t ms = Some i ->
  In (i, o) ps.
Proof. exact edges_complete_through. Qed.

Theorem C13_edges_through_nonvacuous :
  let ms := [([47; 97]%Z, tt); ([47; 99]%Z, tt)] in
  reaches ex_thr_apropos (map_keys unit ms) [47; 97]%Z [47; 97]%Z [47; 99]%Z /\
  has_key (map_keys unit ms) [47; 98]%Z = false /\
  pushes unit ex_thr_apropos 5 ms = Some [(1%nat, 0%nat)].
Proof. exact edges_through_example. Qed.

(* The same for ANY message semantics (generic in [apply]): two files with the same lines
   (distinct addresses, acyclic edges) are handed out in orders that give the
   same final state and the same count, for every initial state.
   _partial: the one remaining side condition is that two messages neither of
   which waits for the other commute; it is NOT yet discharged for C12's
   abstract application (there a message writes its own port, the dependents of
   a selector and the sub-tree of a switch - all of which wait for it). *)
Theorem C13_perm_invariant_generic_partial :
  forall A apropos fuel (S : Type) (apply : message A -> S -> S) (ms1 ms2 : list (message A)) ps1 ps2 d,
    NoDup (map fst ms1) -> Permutation ms1 ms2 ->
    pushes A apropos fuel ms1 = Some ps1 -> pushes A apropos fuel ms2 = Some ps2 ->
    ranked ps1 -> ranked ps2 ->
    (forall x y s, ~ waits_for A apropos fuel (map_keys A ms1) x y ->
                   ~ waits_for A apropos fuel (map_keys A ms1) y x ->
                   apply x (apply y s) = apply y (apply x s)) ->
    exists o1 o2,
      load_order apropos fuel ms1 = Some o1 /\ load_order apropos fuel ms2 = Some o2 /\
      length o1 = length o2 /\
      forall st, run _ _ apply (map (fun i => nth i ms1 d) o1) st
               = run _ _ apply (map (fun i => nth i ms2 d) o2) st.
Proof. exact perm_invariant_load. Qed.

(* PERMUTATION INVARIANCE for the savefiles of C12's abstract application
   (preset selectors, switches with pointer sub-trees, arrays, any values on the
   lines): two files with the same lines - distinct addresses, acyclic edges - are
   handed out in orders under which the loader's loop (apply_all: stops at the
   first line no port accepts) accepts the same (all or not all) and, when all are
   accepted, leaves the same state; the counts agree.  The commutation of two
   messages neither of which waits for the other is PROVED (C13_messages_commute),
   no longer a hypothesis.  Hypotheses: the application is well formed
   (RoundFull.wf_app) and the metadata the lookup returns declares its
   dependencies ([declared]: the selector of a port / the switch above it is
   named by an entry of the port's or a parent's "default depends" / "enabled by"). *)
Theorem C13_perm_invariant : forall a apropos fuel, wf_app a -> declared a apropos ->
  forall (ls1 ls2 : list line) ps1 ps2 d,
    NoDup (map l_path ls1) -> Permutation ls1 ls2 ->
    pushes line apropos fuel (msgs ls1) = Some ps1 -> pushes line apropos fuel (msgs ls2) = Some ps2 ->
    ranked ps1 -> ranked ps2 ->
    exists o1 o2,
      load_order apropos fuel (msgs ls1) = Some o1 /\ load_order apropos fuel (msgs ls2) = Some o2 /\
      length o1 = length o2 /\
      forall s0, length s0 = length a ->
        let r1 := apply_all a (map snd (map (fun i => nth i (msgs ls1) d) o1)) s0 in
        let r2 := apply_all a (map snd (map (fun i => nth i (msgs ls2) d) o2)) s0 in
        snd r1 = snd r2 /\ (snd r1 = true -> fst r1 = fst r2).
Proof. exact perm_invariant_loader. Qed.

(* ... and for the value load_from_file's body loop REPORTS (dispatch_printed: the scanned
   messages with the bytes each took, the sort, the loop): two files holding the same messages
   in any order return the same number - the number of lines when every line is accepted,
   -rd_total-1 otherwise - and, when accepted, leave the same state *)
Theorem C13_perm_invariant_reported : forall a apropos fuel, wf_app a -> declared a apropos ->
  forall (its1 its2 : list item) ls1 ls2 tot1 tot2 ps1 ps2,
    scan_items its1 = (ls1, tot1, true) -> scan_items its2 = (ls2, tot2, true) ->
    rd_nonneg its1 -> Permutation its1 its2 -> NoDup (map l_path ls1) ->
    pushes line apropos fuel (msgs ls1) = Some ps1 -> pushes line apropos fuel (msgs ls2) = Some ps2 ->
    ranked ps1 -> ranked ps2 ->
    forall s0, length s0 = length a ->
    exists r st1 st2,
      dispatch_printed apropos fuel a its1 s0 = Some (r, st1) /\
      dispatch_printed apropos fuel a its2 s0 = Some (r, st2) /\
      ((0 <= r)%Z -> st1 = st2 /\ r = Z.of_nat (length ls1)) /\
      ((r < 0)%Z -> r = (- tot1 - 1)%Z).
Proof. exact perm_invariant_reported. Qed.

(* "a parameter message writes its own port and reads only its declared
   dependencies": lines for different ports neither of which has to precede the
   other (selector / switch) commute, acceptance included *)
Theorem C13_messages_commute : forall a, wf_app a -> forall x y o, okstate a o ->
  (forall i vs j ws, line_target a x = Some (i, vs) -> line_target a y = Some (j, ws) ->
                     i <> j /\ ~ must_precede a i j /\ ~ must_precede a j i) ->
  step_line a x (step_line a y o) = step_line a y (step_line a x o).
Proof. exact lines_commute. Qed.

(* C13_topo with the lookup instantiated by the models of the code scan_deps
   calls: Ports::apropos (C18) on a port tree, MetaContainer::operator[] (C17) *)
Theorem C13_topo_tree : forall A (root : list NameModel.port) fuel (ms : list (message A)) ps,
  pushes A (apropos_of_tree root) fuel ms = Some ps -> ranked ps ->
  exists order, load_order (apropos_of_tree root) fuel ms = Some order /\
                Permutation order (seq 0 (length ms)) /\
                respects (edge ps) order.
Proof. exact load_order_topo_tree. Qed.

(* regression: before the fix a dependency declared on an enumerated sub-tree
   produced no edge *)
Theorem C13_edge_of_enumerated_subtree_before_fix_refuted :
  exists apropos keys cur,
    scan_deps apropos keys 8 cur cur = Some [p_on] /\ scan_deps_old apropos keys 8 cur = Some [].
Proof. exact edge_of_enumerated_subtree_before_fix_refuted. Qed.

(* regression: before the fix the empty rest behind rDepends' trailing ',' was
   scanned as an entry; with a same-named port inside an enabled-by sub-tree
   the scan did not end (out of fuel here, stack overflow in the code) *)
Theorem C13_trailing_comma_entry_before_fix_refuted :
  entries_old [113; 44]%Z = [[113; 44]; []]%Z /\ entries [113; 44]%Z = [[113; 44]]%Z /\
  exists apropos cur,
    scan_deps apropos [] 40 cur cur = Some [] /\ scan_deps_old2 apropos [] 40 cur = None.
Proof. exact trailing_comma_entry_before_fix_refuted. Qed.

(* non-vacuity: "/b" declares default depends = "a"; file order /b, /a;
   the edge is found, is ranked, and the sort hands /a out first *)
Theorem C13_nonvacuous :
  let ap := fun p : str => if str_eqb p [47; 98]%Z
                           then Some {| enabled_by := None; depends := None; default_depends := Some [97]%Z; port_name := [] |}
                           else None in
  let ms := [([47; 98]%Z, tt); ([47; 97]%Z, tt)] in
  pushes unit ap 8 ms = Some [(1%nat, 0%nat)] /\ load_order ap 8 ms = Some [1%nat; 0%nat].
Proof. exact (conj eq_refl eq_refl). Qed.

(* regression (D28): before fix a3fd6a3 a sub-tree enabled by a port inside itself
   ("s/on" on "s/") made the scan of every message below it recurse for ever when
   that port had no line, and made the port wait for itself when it had one *)
Theorem C13_inner_switch_before_fix_refuted :
  scan_deps_old3 apropos_ex3 [p_sx] 60 p_sx = None /\
  scan_deps apropos_ex3 [p_sx] 60 p_sx p_sx = Some [] /\
  scan_deps_old3 apropos_ex3 [p_son; p_sx] 60 p_son = Some [p_son] /\
  scan_deps apropos_ex3 [p_son; p_sx] 60 p_son p_son = Some [] /\
  scan_deps apropos_ex3 [p_son; p_sx] 60 p_sx p_sx = Some [p_son].
Proof. exact inner_switch_before_fix_refuted. Qed.

(* what remains excluded by C13_topo's premises (D31): on cyclic metadata - the
   switch inside the sub-tree depends on a port of that sub-tree - the scan does
   not end when the ports of the cycle have no line, and each waits for the other
   when they have *)
Theorem C13_cyclic_metadata_scan_does_not_end :
  scan_deps apropos_ex4 [p_sx] 200 p_sx p_sx = None /\
  scan_deps apropos_ex4 [p_son; p_sp] 200 p_son p_son = Some [p_sp] /\
  scan_deps apropos_ex4 [p_son; p_sp] 200 p_sp p_sp = Some [p_son].
Proof. exact cyclic_metadata_scan_does_not_end. Qed.

(* `declared` - the hypothesis of C13_perm_invariant and of C12's sorted pipeline - is
   decidable for a finite application and a lookup function: the tie evaluates
   [declared_b a (apropos_of_tree root)] on every generated application (model driver) *)
Theorem C13_declared_computed : forall a apropos,
  (DeclModel.declared_b a apropos = true -> declared a apropos) /\
  ((forall i j, (j < length a)%nat -> must_precede a i j -> (i < length a)%nat) ->
   declared a apropos -> DeclModel.declared_b a apropos = true).
Proof. exact (fun a ap => conj (DeclProofs.declared_b_sound a ap) (DeclProofs.declared_b_complete a ap)). Qed.

(* Regression witness for fix 8301891: before it a directory enabled as a whole by
   one of its own ports (rSelf(.., rEnabledBy(on))) gave no load-order edge. *)
Theorem C13_rself_switch_before_fix_refuted :
  scan_deps_old4 apropos_ex5 [p_son; p_sx; p_ssubx] 60 p_sx p_sx = Some [] /\
  scan_deps_old4 apropos_ex5 [p_son; p_sx; p_ssubx] 60 p_ssubx p_ssubx = Some [] /\
  scan_deps apropos_ex5 [p_son; p_sx; p_ssubx] 60 p_sx p_sx = Some [p_son] /\
  scan_deps apropos_ex5 [p_son; p_sx; p_ssubx] 60 p_ssubx p_ssubx = Some [p_son] /\
  scan_deps apropos_ex5 [p_son; p_sx; p_ssubx] 60 p_son p_son = Some [].
Proof. exact rself_switch_before_fix_refuted. Qed.

(* Regression witness for fix fb0c466: before it an entry naming a port inside an
   ENUMERATED sub-tree ("a#3/on" on "a#3/") was resolved to the literal "/a#3/on":
   no edge from "/a1/on" to the lines below "/a1/". *)
Theorem C13_enumerated_inner_switch_before_fix_refuted :
  scan_deps_old5 apropos_ex6 [p_a1on; p_a1x; p_a1tx] 60 p_a1x p_a1x = Some [] /\
  scan_deps_old5 apropos_ex6 [p_a1on; p_a1x; p_a1tx] 60 p_a1tx p_a1tx = Some [] /\
  scan_deps apropos_ex6 [p_a1on; p_a1x; p_a1tx] 60 p_a1x p_a1x = Some [p_a1on] /\
  scan_deps apropos_ex6 [p_a1on; p_a1x; p_a1tx] 60 p_a1tx p_a1tx = Some [p_a1on] /\
  scan_deps apropos_ex6 [p_a1on; p_a1x; p_a1tx] 60 p_a1on p_a1on = Some [] /\
  resolve_entry true [115; 47]%Z [115; 47; 111; 110]%Z [47; 115]%Z = rel2abs [115; 47; 111; 110]%Z [47; 115]%Z.
Proof. exact enumerated_inner_switch_before_fix_refuted. Qed.

(* "the dependency edges of the file are acyclic" (ranked, premise of C13_topo and
   C13_perm_invariant) is evaluated by the tie on the edges scan_deps' model produces for
   every generated file: a ranking is computed by relaxation and checked *)
Theorem C13_ranked_computed : forall ps, CondModel.ranked_b ps = true -> ranked ps.
Proof. exact CondProofs.ranked_b_sound. Qed.
