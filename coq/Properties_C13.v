(* C13 - Loading a savefile does not depend on the order of its lines.
   Only theorem statements closed by [exact]; proofs in Save/TopoProofs.v,
   Save/KahnProofs.v, Save/TopoRegress.v. *)
From Coq Require Import List ZArith Bool Permutation.
From RtoscV Require Import Save.TopoModel Save.KahnProofs Save.TopoProofs Save.TopoRegress.
Import ListNotations.

(* The sort as coded (counters, queue seeded in file order, fuel = number of
   messages), on ANY dependency lists over n messages that are acyclic
   (ranked): it ends within its fuel, hands out every message exactly once and
   never a message in front of one it waits for. *)
Theorem C13_kahn : forall n (deps : nat -> list nat),
  (forall m d, In d (deps m) -> (d < n)%nat) -> ranked_deps n deps ->
  exists order, kahn n deps = Some order /\
                Permutation order (seq 0 n) /\ respects (waits deps) order.
Proof. exact kahn_correct. Qed.

(* The same for the edges scan_deps produces for a file (any port tree, any
   metadata, any number of lines): if the scan ends (Some ps) and the edges are
   acyclic, the hand-out order is a permutation of the messages and every
   (dependee, dependent) edge is respected. *)
Theorem C13_topo : forall A apropos fuel (ms : list (message A)) ps,
  pushes A apropos fuel ms = Some ps -> ranked ps ->
  exists order, load_order apropos fuel ms = Some order /\
                Permutation order (seq 0 (length ms)) /\
                respects (edge ps) order.
Proof. exact load_order_topo. Qed.

(* Two orders of the same messages that both respect the dependencies leave
   the same state, provided messages without a dependency between them commute. *)
Theorem C13_linear_extensions_agree :
  forall (X S : Type) (R : X -> X -> Prop) (f : X -> S -> S),
    (forall x y s, ~ R x y -> ~ R y x -> f x (f y s) = f y (f x s)) ->
    forall l1 l2, NoDup l1 -> Permutation l1 l2 -> respects R l1 -> respects R l2 ->
    forall s, run X S f l1 s = run X S f l2 s.
Proof. exact linext_unique. Qed.

(* Full statement: Permutation f1 f2 -> load f1 = load f2 (state and count).
   Proved here as the composition: whenever the two hand-out orders are
   permutations of their files that respect one dependency relation R on lines
   (what C13_topo gives for each file; side condition [same R for both files]:
   the edges depend on the addresses present, not on their positions), state
   and count agree.  Commutation of independent messages is a hypothesis. *)
Theorem C13_perm_invariant_partial :
  forall (L S : Type) (R : L -> L -> Prop) (apply : L -> S -> S),
    (forall x y s, ~ R x y -> ~ R y x -> apply x (apply y s) = apply y (apply x s)) ->
    forall f1 f2 s1 s2,
      NoDup f1 -> Permutation f1 f2 ->
      Permutation s1 f1 -> respects R s1 ->
      Permutation s2 f2 -> respects R s2 ->
      forall st, run L S apply s1 st = run L S apply s2 st /\ length s1 = length s2.
Proof. exact perm_invariant. Qed.

(* regression: before the fix a dependency declared on an enumerated sub-tree
   produced no edge *)
Theorem C13_edge_of_enumerated_subtree_before_fix_refuted :
  exists apropos keys cur,
    scan_deps apropos keys 8 cur = Some [p_on] /\ scan_deps_old apropos keys 8 cur = Some [].
Proof. exact edge_of_enumerated_subtree_before_fix_refuted. Qed.

(* regression: before the fix the empty rest behind rDepends' trailing ',' was
   scanned as an entry; with a same-named port inside an enabled-by sub-tree
   the scan did not end (out of fuel here, stack overflow in the code) *)
Theorem C13_trailing_comma_entry_before_fix_refuted :
  entries_old [113; 44]%Z = [[113; 44]; []]%Z /\ entries [113; 44]%Z = [[113; 44]]%Z /\
  exists apropos cur,
    scan_deps apropos [] 40 cur = Some [] /\ scan_deps_old2 apropos [] 40 cur = None.
Proof. exact trailing_comma_entry_before_fix_refuted. Qed.

(* non-vacuity: "/b" declares default depends = "a"; file order /b, /a;
   the edge is found, is ranked, and the sort hands /a out first *)
Theorem C13_nonvacuous :
  let ap := fun p : str => if str_eqb p [47; 98]%Z
                           then Some {| enabled_by := None; depends := None; default_depends := Some [97]%Z |}
                           else None in
  let ms := [([47; 98]%Z, tt); ([47; 97]%Z, tt)] in
  pushes unit ap 8 ms = Some [(1%nat, 0%nat)] /\ load_order ap 8 ms = Some [1%nat; 0%nat].
Proof. exact (conj eq_refl eq_refl). Qed.
