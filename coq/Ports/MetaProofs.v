(* C17 - proofs about MetaModel: iterating / looking up / measuring a block
   rendered by the metadata macros gives back exactly the entries. *)
From Coq Require Import List ZArith Bool Lia.
From RtoscV Require Import Ports.MetaModel.
Import ListNotations.
Local Open Scope Z_scope.

Definition vpart (v : option str) : list byte :=
  match v with Some v => 61 :: v ++ [0] | None => [] end.

Definition tail_of (es : list entry) : list byte :=
  concat (map render_entry es) ++ [0].

Lemma render_entry_eq k v : render_entry (k, v) = 58 :: k ++ 0 :: vpart v.
Proof. reflexivity. Qed.

Lemma tail_of_cons k v es :
  tail_of ((k, v) :: es) = 58 :: k ++ 0 :: vpart v ++ tail_of es.
Proof.
  unfold tail_of. cbn [map concat]. rewrite render_entry_eq.
  cbn [app]. rewrite <- !app_assoc. cbn [app]. reflexivity.
Qed.

Lemma tail_of_hd es : exists c t, tail_of es = c :: t /\ (c = 0 \/ c = 58).
Proof.
  destruct es as [|[k v] es].
  - exists 0, []. split; [reflexivity | now left].
  - rewrite tail_of_cons. eexists _, _. split; [reflexivity | now right].
Qed.

Lemma eqb0 c : c <> 0 -> (c =? 0) = false.
Proof. intros H. now apply Z.eqb_neq. Qed.

Lemma cstr_app s r : nonul s -> cstr (s ++ 0 :: r) = Some s.
Proof.
  induction s as [|c s IH]; intros H; cbn [app cstr].
  - reflexivity.
  - inversion H as [|? ? Hc Hs]; subst. rewrite (eqb0 c Hc), (IH Hs). reflexivity.
Qed.

Lemma strend_app s r : nonul s -> strend (s ++ 0 :: r) = Some (0 :: r).
Proof.
  induction s as [|c s IH]; intros H; cbn [app strend].
  - reflexivity.
  - inversion H as [|? ? Hc Hs]; subst. rewrite (eqb0 c Hc). destruct s; apply (IH Hs).
Qed.

Lemma scan_next_run p s r :
  nonul s -> p <> 0 -> scan_next p (s ++ 0 :: r) = scan_next 0 r.
Proof.
  revert p. induction s as [|c s IH]; intros p Hs Hp; cbn [app scan_next].
  - rewrite (eqb0 p Hp). cbn. reflexivity.
  - inversion Hs as [|? ? Hc Hs']; subst. rewrite (eqb0 p Hp). cbn [negb orb].
    apply IH; assumption.
Qed.

Lemma scan_next_stop es : scan_next 0 (tail_of es) = Some (tail_of es).
Proof.
  destruct (tail_of_hd es) as (c & t & E & Hc). rewrite E. cbn [scan_next].
  destruct Hc; subst; reflexivity.
Qed.

Lemma key_ok_split k : key_ok k ->
  exists c t, k = c :: t /\ c <> 0 /\ c <> 58 /\ nonul t.
Proof.
  intros (Hne & Hn & Hh). destruct k as [|c t]; [congruence|].
  inversion Hn; subst. exists c, t. cbn in Hh. auto.
Qed.

Lemma vpart_ok v : match v with Some v => nonul v | None => True end ->
  forall r, scan_next 0 (vpart v ++ tail_of r) = Some (tail_of r).
Proof.
  intros Hv r. destruct v as [v|]; cbn [vpart app].
  - cbn [scan_next]. change (negb (0 =? 0)) with false.
    cbn [orb]. change (61 =? 0) with false. change (61 =? 58) with false. cbn [negb andb].
    rewrite <- app_assoc. cbn [app]. rewrite scan_next_run by (auto; lia).
    apply scan_next_stop.
  - apply scan_next_stop.
Qed.

Lemma scan_next_entry k v es :
  entry_ok (k, v) ->
  scan_next 0 (k ++ 0 :: vpart v ++ tail_of es) = Some (tail_of es).
Proof.
  intros (Hk & Hv). cbn [fst snd] in *.
  destruct (key_ok_split k Hk) as (c & t & -> & Hc0 & Hc58 & Ht).
  cbn [app scan_next]. rewrite (eqb0 c Hc0).
  replace (c =? 58) with false by (symmetry; now apply Z.eqb_neq).
  cbn [negb orb andb]. rewrite scan_next_run by assumption.
  apply vpart_ok; assumption.
Qed.

Definition val_ptr (v : option str) (rest : list byte) : ptr :=
  match v with Some v => At (v ++ 0 :: rest) | None => Null end.

Lemma advance_entry k v es :
  entry_ok (k, v) ->
  advance (At (k ++ 0 :: vpart v ++ tail_of es)) = Some (val_ptr v (tail_of es)).
Proof.
  intros (Hk & Hv). cbn [fst snd] in *.
  destruct (key_ok_split k Hk) as (c & t & -> & Hc0 & Hc58 & Ht).
  unfold advance. cbn [app]. rewrite (eqb0 c Hc0).
  change (c :: t ++ 0 :: vpart v ++ tail_of es) with ((c :: t) ++ 0 :: vpart v ++ tail_of es).
  rewrite strend_app by (apply Forall_cons; assumption).
  destruct v as [v|]; cbn [vpart app val_ptr].
  - change (61 =? 61) with true. cbn. rewrite <- app_assoc. reflexivity.
  - destruct (tail_of_hd es) as (d & t' & E & Hd). rewrite E.
    destruct Hd; subst; reflexivity.
Qed.

(* the iterator positioned on the first entry of a tail *)
Definition iter_at (k : str) (v : option str) (es : list entry) : iter :=
  {| title := At (k ++ 0 :: vpart v ++ tail_of es); value := val_ptr v (tail_of es) |}.

Definition iter_of (es : list entry) : iter :=
  match es with
  | [] => {| title := Null; value := Null |}
  | (k, v) :: r => iter_at k v r
  end.

Lemma mk_iter_entry k v es : entry_ok (k, v) ->
  mk_iter (At (k ++ 0 :: vpart v ++ tail_of es)) = Some (iter_at k v es).
Proof. intros H. unfold mk_iter. rewrite (advance_entry k v es H). reflexivity. Qed.

Lemma incr_entry k v es :
  entry_ok (k, v) -> Forall entry_ok es ->
  incr (iter_at k v es) = Some (iter_of es).
Proof.
  intros H Hes. pose proof H as (Hk & Hv). cbn [fst snd] in *.
  destruct (key_ok_split k Hk) as (c & t & E & Hc0 & Hc58 & Ht).
  unfold incr, iter_at. cbn [title value].
  rewrite E at 1. cbn [app]. rewrite (eqb0 c Hc0).
  rewrite (scan_next_entry k v es H).
  destruct es as [|[k' v'] r].
  - cbn. reflexivity.
  - rewrite tail_of_cons. change (58 =? 0) with false. cbn iota.
    inversion Hes; subst. cbn [iter_of]. apply mk_iter_entry. assumption.
Qed.

Lemma deref_entry k v es : entry_ok (k, v) ->
  deref (iter_at k v es) = Some (Some (k, v)).
Proof.
  intros (Hk & Hv). cbn [fst snd] in *. destruct Hk as (_ & Hn & _).
  unfold deref, iter_at. cbn [title value]. rewrite cstr_app by assumption.
  destruct v as [v|]; cbn [val_ptr]; [rewrite cstr_app by assumption|]; reflexivity.
Qed.

Lemma iterate_from_ok es : Forall entry_ok es ->
  forall fuel, (length es < fuel)%nat -> iterate_from fuel (iter_of es) = Some es.
Proof.
  induction es as [|[k v] es IH]; intros Hes fuel Hf.
  - destruct fuel; [lia|]. reflexivity.
  - destruct fuel; [cbn in Hf; lia|]. inversion Hes as [|? ? He Hes']; subst.
    cbn [iterate_from iter_of]. rewrite deref_entry, incr_entry by assumption.
    rewrite IH; [reflexivity|assumption|cbn in Hf; lia].
Qed.

Lemma begin_block k v es : entry_ok (k, v) ->
  begin_ (k ++ 0 :: vpart v ++ tail_of es) = Some (iter_at k v es).
Proof.
  intros H. pose proof H as (Hk & _). cbn [fst] in Hk.
  destruct (key_ok_split k Hk) as (c & t & E & Hc0 & Hc58 & Ht).
  unfold begin_, strip_colon. rewrite E at 1. cbn [app].
  replace (c =? 58) with false by (symmetry; now apply Z.eqb_neq).
  apply mk_iter_entry. assumption.
Qed.

Lemma length_tail_of es : (length es < length (tail_of es))%nat.
Proof.
  induction es as [|[k v] es IH].
  - cbn. lia.
  - rewrite tail_of_cons. cbn [length]. rewrite !app_length. cbn [length].
    rewrite app_length. lia.
Qed.

(* meta(render es): what Port::meta() hands to the container *)
Lemma meta_render k v es :
  meta (render ((k, v) :: es)) = Some (k ++ 0 :: vpart v ++ tail_of es).
Proof. unfold render. fold (tail_of ((k,v)::es)). rewrite tail_of_cons. reflexivity. Qed.

Theorem iterate_render k v es :
  Forall entry_ok ((k, v) :: es) ->
  exists p, meta (render ((k, v) :: es)) = Some p /\ iterate p = Some ((k, v) :: es).
Proof.
  intros H. inversion H as [|? ? He Hes]; subst.
  eexists. split; [apply meta_render|].
  unfold iterate. rewrite begin_block by assumption.
  apply (iterate_from_ok ((k, v) :: es) H).
  pose proof (length_tail_of es). cbn [length]. rewrite !app_length. cbn [length].
  rewrite !app_length. lia.
Qed.

(* the empty block "" : the range-for yields one entry with an empty title *)
Lemma iterate_empty : iterate (render []) = Some [([], None)].
Proof. reflexivity. Qed.

(* ---- find / operator[] -------------------------------------------------- *)
Fixpoint drop_to (es : list entry) (key : str) : list entry :=
  match es with
  | [] => []
  | (k, v) :: r => if str_eqb k key then es else drop_to r key
  end.

Lemma drop_to_ok es key : Forall entry_ok es -> Forall entry_ok (drop_to es key).
Proof.
  induction es as [|[k v] es IH]; intros H; cbn [drop_to]; [constructor|].
  destruct (str_eqb k key); [assumption|]. inversion H; subst. auto.
Qed.

Lemma spec_lookup_drop es key :
  spec_lookup es key = match drop_to es key with [] => None | (_, v) :: _ => v end.
Proof.
  induction es as [|[k v] es IH]; cbn [spec_lookup drop_to]; [reflexivity|].
  destruct (str_eqb k key); [reflexivity | exact IH].
Qed.

Lemma spec_present_drop es key :
  spec_present es key = match drop_to es key with [] => false | _ :: _ => true end.
Proof.
  unfold spec_present.
  induction es as [|[k v] es IH]; cbn [existsb drop_to fst]; [reflexivity|].
  destruct (str_eqb k key); [reflexivity | exact IH].
Qed.

Lemma find_from_ok es key : Forall entry_ok es ->
  forall fuel, (length es < fuel)%nat ->
  find_from fuel key (iter_of es) = Some (iter_of (drop_to es key)).
Proof.
  induction es as [|[k v] es IH]; intros Hes fuel Hf.
  - destruct fuel; [lia|]. reflexivity.
  - destruct fuel; [cbn in Hf; lia|]. inversion Hes as [|? ? He Hes']; subst.
    cbn [find_from iter_of drop_to]. unfold iter_at at 1. cbn [title].
    pose proof He as ((_ & Hn & _) & Hv). cbn [fst snd] in *.
    rewrite cstr_app by assumption.
    destruct (str_eqb k key) eqn:E; [reflexivity|].
    rewrite incr_entry by assumption.
    apply IH; [assumption | cbn in Hf; lia].
Qed.

Lemma fuel_ok (k : str) (v : option str) (es : list entry) :
  (length (((k, v) : entry) :: es) < S (length (k ++ 0%Z :: vpart v ++ tail_of es)))%nat.
Proof.
  pose proof (length_tail_of es). cbn [length]. rewrite !app_length. cbn [length].
  rewrite !app_length. lia.
Qed.

Theorem lookup_render k v es key :
  Forall entry_ok ((k, v) :: es) ->
  exists p, meta (render ((k, v) :: es)) = Some p /\
    lookup p key = Some (spec_lookup ((k, v) :: es) key) /\
    present p key = Some (spec_present ((k, v) :: es) key).
Proof.
  intros H. inversion H as [|? ? He Hes]; subst.
  eexists. split; [apply meta_render|].
  unfold lookup, present, find. rewrite begin_block by assumption.
  change (iter_at k v es) with (iter_of ((k, v) :: es)).
  rewrite (find_from_ok ((k, v) :: es) key H _ (fuel_ok k v es)).
  rewrite spec_lookup_drop, spec_present_drop.
  pose proof (drop_to_ok _ key H) as Hd.
  destruct (drop_to ((k, v) :: es) key) as [|[k' v'] r]; [split; reflexivity|].
  inversion Hd as [|? ? (_ & Hv') _]; subst. cbn [snd] in Hv'.
  cbn [iter_of iter_at title value]. split; [|reflexivity].
  destruct v' as [v'|]; cbn [val_ptr]; [rewrite cstr_app by assumption|]; reflexivity.
Qed.

(* ---- length -------------------------------------------------------------- *)
Lemma len_scan_run p s r n :
  nonul s -> p <> 0 -> len_scan p (s ++ 0 :: r) n = len_scan 0 r (n + Z.of_nat (length s) + 1).
Proof.
  revert p n. induction s as [|c s IH]; intros p n Hs Hp; cbn [app len_scan length].
  - rewrite (eqb0 p Hp). cbn [negb orb]. f_equal. lia.
  - inversion Hs as [|? ? Hc Hs']; subst. rewrite (eqb0 p Hp). cbn [negb orb].
    rewrite IH by assumption. f_equal. lia.
Qed.

Lemma len_scan_tail es n : Forall entry_ok es ->
  len_scan 0 (tail_of es) n = Some (n + Z.of_nat (length (tail_of es)) - 1).
Proof.
  revert n. induction es as [|[k v] es IH]; intros n H.
  - cbn. cbn [negb orb Z.eqb]. f_equal. lia.
  - inversion H as [|? ? ((Hne & Hn & _) & Hv) Hes]; subst. cbn [fst snd] in *.
    rewrite tail_of_cons. cbn [len_scan]. change (58 =? 0) with false. cbn [negb orb].
    rewrite len_scan_run by (auto; lia).
    destruct v as [v|]; cbn [vpart app].
    + cbn [len_scan]. change (61 =? 0) with false. cbn [negb orb].
      rewrite <- app_assoc. cbn [app]. rewrite len_scan_run by (auto; lia).
      rewrite IH by assumption. cbn [negb orb Z.eqb]. f_equal. cbn [length]. rewrite !app_length. cbn [length].
      rewrite !app_length. cbn [length]. lia.
    + rewrite IH by assumption. cbn [negb orb Z.eqb]. f_equal. cbn [length]. rewrite !app_length. cbn [length]. lia.
Qed.

Theorem length_render k v es :
  Forall entry_ok ((k, v) :: es) ->
  exists p, meta (render ((k, v) :: es)) = Some p /\
    length_ p = Some (Z.of_nat (length (render ((k, v) :: es)))).
Proof.
  intros H. inversion H as [|? ? He Hes]; subst.
  eexists. split; [apply meta_render|].
  pose proof He as (Hk & Hv). cbn [fst snd] in *.
  destruct (key_ok_split k Hk) as (c & t & E & Hc0 & Hc58 & Ht).
  unfold length_. rewrite E at 1. cbn [app]. rewrite (eqb0 c Hc0).
  rewrite E at 1. cbn [app len_scan]. rewrite (eqb0 c Hc0). cbn [negb orb].
  rewrite len_scan_run by assumption.
  unfold render. fold (tail_of ((k, v) :: es)). rewrite tail_of_cons.
  destruct v as [v|]; cbn [vpart app].
  - cbn [len_scan]. change (61 =? 0) with false. cbn [negb orb].
    rewrite <- app_assoc. cbn [app]. rewrite len_scan_run by (auto; lia).
    rewrite len_scan_tail by assumption. cbn [negb orb Z.eqb]. f_equal. subst k. cbn [length].
    rewrite !app_length. cbn [length]. rewrite !app_length. cbn [length]. lia.
  - rewrite len_scan_tail by assumption. cbn [negb orb Z.eqb]. f_equal. subst k. cbn [length].
    rewrite !app_length. cbn [length]. lia.
Qed.

(* non-vacuity: a concrete block with ':' and '=' inside a value, a repeated
   key and a value-less entry meets the hypotheses *)
Example block_ok :
  Forall entry_ok [([107], Some [58; 61]); ([112], None); ([107], Some [])].
Proof.
  repeat constructor; cbn; try discriminate; intros H; discriminate.
Qed.
