(* C09, the dispatch clause as the text has it - "every reported address, sent as a
   message, is dispatched to the very port it was reported with" - without a condition on
   sibling names: false of the faithful model for the siblings a#4b / a01b (the shape of
   C18_lookup_refuted).  The walk reports /a01b for port 1; an enumeration accepts an index
   with leading zeros (C05), so the dispatcher - every matching port is called (C04) - runs
   the callbacks of port 0 AND port 1, d.matches = 2.  Known finding (proposed):
   dispatch-leading-zero-alias. *)
From Coq Require Import List ZArith Bool Arith Lia.
From RtoscV Require Import Match.PatSpec Match.MatchModel
     Ports.NameModel Ports.PathModel Ports.WalkModel Ports.DispatchModel Ports.TreeProofs
     Ports.DispatchWalk Ports.NamesModel Ports.LookupSpec.
Import ListNotations.
Local Open Scope Z_scope.

Definition alias_msg : list Z := [47; 97; 48; 49; 98].          (* /a01b *)

Theorem walk_dispatch_refuted :
  let t := to_tree no_hash_search one_id alias_stree in
  (names_shape alias_stree = true /\ enums_pos alias_stree = true /\ sibling_prefix_free alias_stree = true) /\
  (names_ok alias_stree = false /\ no_digit_facing alias_stree = false) /\
  tree_ok t /\ leaf_admits alias_stree [1%nat] [] /\
  exists out b, walk None (map render_port alias_stree) [] = WOk out b /\
    In ([1%nat], alias_msg) out /\
    dispatch t alias_msg [] true 1 =
    {| loc := Some [47]; matches := 2; obj := 1; dport := Some (2, 1);
       log := [Ev 2 1 [97; 48; 49; 98] 1 (Some alias_msg) (Some (2, 1)) true;
               Ev 2 0 [97; 48; 49; 98] 1 (Some alias_msg) (Some (2, 0)) true] |} /\
    dispatch t alias_msg [] false 1 =
    {| loc := None; matches := 0; obj := 1; dport := Some (2, 1);
       log := [Ev 2 1 [97; 48; 49; 98] 1 None (Some (2, 1)) true;
               Ev 2 0 [97; 48; 49; 98] 1 None (Some (2, 0)) true] |} /\
    rev (log (dispatch t alias_msg [] true 1)) <> chain [1%nat] t (strip alias_msg) [] 1 (Some [47]) /\
    matches (dispatch t alias_msg [] true 1) <> 1.
Proof.
  cbv zeta.
  split; [repeat split; vm_compute; reflexivity|].
  split; [split; vm_compute; reflexivity|].
  split.
  { constructor.
    - intros n name sub En. destruct n as [|[|n]]; cbn in En; try (destruct n; discriminate);
        inversion En; subst; (split; [discriminate | intros [s Hs]; discriminate]).
    - left. reflexivity.
    - intros n s En. destruct n as [|[|n]]; cbn in En; try discriminate. destruct n; discriminate. }
  split.
  { cbn. exists None. split; [reflexivity|]. split; [exact I|]. split; [constructor | exact I]. }
  eexists. eexists. split; [vm_compute; reflexivity|].
  split; [do 4 right; left; reflexivity|].
  split; [vm_compute; reflexivity|]. split; [vm_compute; reflexivity|].
  split; [vm_compute; discriminate | vm_compute; discriminate].
Qed.
