(* C04 - executable model of Ports::dispatch (src/cpp/ports.cpp), of the
   decisions and of find_remap in generate_minimal_hash, of
   Port_Matcher::hard_match, and of the recursion contract SNIP + rRecur*Cb
   (include/rtosc/port-sugar.h:495-527).  The matcher is C05's model.

   The perfect-hash *search* (find_pos, find_assoc) is not modelled: its
   result (pos, assoc) is an input of the table; what the library does with
   it - use it or fall back to the linear scan, build remap, look a message
   up - is modelled.  The model follows the repaired code (fix: commits for
   D3, D20, D23, the unsigned 256-entry letter table, the default handler on
   every path, names with alternatives never hashed and their loc text taken
   from the message); the pinned functions live in DispatchRegress.v.
   No proofs in this file. *)
From Coq Require Import List ZArith Bool.
From RtoscV Require Import Match.PatSpec Match.MatchModel.
Import ListNotations.
Local Open Scope Z_scope.

(* ---- a table: what refreshMagic() sees ----------------------------------- *)
Record table := {
  t_id    : Z;                       (* identity of the Ports object *)
  t_dflt  : bool;                    (* default_handler set *)
  t_ports : list (str * bool);       (* Port::name, Port::ports != NULL *)
  t_pos   : list Z;                  (* result of find_pos  (search: input) *)
  t_assoc : list Z                   (* result of find_assoc (search: input) *)
}.

Definition mem (c : Z) (s : str) : bool := existsb (Z.eqb c) s.

Fixpoint index_of (c : Z) (s : str) : option nat :=
  match s with
  | [] => None
  | x :: t => if x =? c then Some O
              else match index_of c t with Some n => Some (S n) | None => None end
  end.

(* generate_minimal_hash(Ports&): key = name up to the first ':' when that is
   not at position 0, arg_spec = the rest *)
Definition split_name (name : str) : str * option str :=
  match index_of 58 name with
  | Some (S n) => (firstn (S n) name, Some (skipn (S n) name))
  | _ => (name, None)
  end.

Definition keys_of (T : table) : list str := map (fun p => fst (split_name (fst p))) (t_ports T).

(* "if(slash && slash[1] && slash[1] != ':') return;"  (fix D20) *)
Fixpoint inner_slash (name : str) : bool :=
  match name with
  | [] => false
  | c :: t => if c =? 47 then negb ((hd0 t =? 0) || (hd0 t =? 58)) else inner_slash t
  end.

(* assoc[(unsigned char)c]: a byte of the string is 0..255 here, which is what
   the cast yields (fix: "the perfect-hash letter table was indexed with a plain
   char"; find_assoc makes 256 entries).  None = index outside the vector (the
   code would read outside); the old indexing is DispatchRegress.assoc_at_old *)
Definition assoc_at (assoc : list Z) (c : Z) : option Z :=
  if c <? 0 then None else nth_error assoc (Z.to_nat c).

(* t = len + sum over pos p < len of assoc[s[p]]   (s: the first len chars) *)
Fixpoint hash_sum (assoc : list Z) (s : str) (pos : list Z) : option Z :=
  match pos with
  | [] => Some 0
  | p :: r =>
      match hash_sum assoc s r with
      | None => None
      | Some acc =>
          if (0 <=? p) && (p <? Z.of_nat (length s)) then
            match nth_error s (Z.to_nat p) with
            | Some c => match assoc_at assoc c with Some a => Some (a + acc) | None => None end
            | None => None
            end
          else Some acc
      end
  end.

Definition hash_of (pos assoc : list Z) (s : str) : option Z :=
  match hash_sum assoc s pos with Some x => Some (Z.of_nat (length s) + x) | None => None end.

Fixpoint all_some {A} (l : list (option A)) : option (list A) :=
  match l with
  | [] => Some []
  | Some x :: r => match all_some r with Some t => Some (x :: t) | None => None end
  | None :: _ => None
  end.

Fixpoint has_dups (l : list Z) : bool :=
  match l with
  | [] => false
  | x :: r => existsb (Z.eqb x) r || has_dups r
  end.

(* find_remap: N = max(h)+1 zeros, then remap[h_i] = i in order *)
Fixpoint set_nth (l : list Z) (n : nat) (v : Z) : list Z :=
  match l, n with
  | [], _ => []
  | _ :: t, O => v :: t
  | x :: t, S k => x :: set_nth t k v
  end.

Fixpoint fill_remap (remap : list Z) (hs : list Z) (i : Z) : list Z :=
  match hs with
  | [] => remap
  | h :: r => fill_remap (set_nth remap (Z.to_nat h) i) r (i + 1)
  end.

Definition find_remap (hs : list Z) : list Z :=
  let n := fold_left Z.max (map (fun h => h + 1) hs) 0 in
  fill_remap (repeat 0 (Z.to_nat n)) hs 0.

Record hashtab := { h_pos : list Z; h_assoc : list Z; h_remap : list Z }.

(* a name that is a pattern: it holds an enumeration '#' or alternatives '{'
   (fix "a port table whose names hold alternatives ... got a perfect hash",
   fix "the linear scan ... appended the text of the port's name") *)
Definition is_pattern (name : str) : bool := mem 35 name || mem 123 name.

(* the decisions of generate_minimal_hash: None = pos stays empty = linear scan *)
Definition tables_of (T : table) : option hashtab :=
  if existsb (fun p => is_pattern (fst p)) (t_ports T) then None      (* a '#' or '{' name *)
  else if existsb (fun p => inner_slash (fst p)) (t_ports T) then None  (* fix D20 *)
  else match t_ports T, t_pos T with
       | [], _ => None
       | _, [] => None                                       (* find_pos gave up *)
       | _, _ =>
           match all_some (map (hash_of (t_pos T) (t_assoc T)) (keys_of T)) with
           | None => None
           | Some hs => if has_dups hs then None                       (* fix D3 *)
                        else Some {| h_pos := t_pos T; h_assoc := t_assoc T; h_remap := find_remap hs |}
           end
       end.

(* ---- run-time state ------------------------------------------------------ *)
Inductive event :=
| Ev (tid idx : Z) (msg : str) (eobj : Z) (eloc : option str) (eport : option (Z * Z))
     (eleaf : bool)               (* the port has no sub-ports (Port::ports == NULL) *)
| EvDefault (tid : Z) (msg : str) (eobj : Z) (eloc : option str)
| EvError.                       (* assoc read out of range / model out of fuel *)

Record dstate := {
  loc     : option str;          (* RtData::loc as a C string; None = NULL *)
  matches : Z;
  obj     : Z;
  dport   : option (Z * Z);      (* RtData::port: (table id, index) *)
  log     : list event           (* newest first *)
}.

Definition set_loc (st : dstate) (l : option str) : dstate :=
  {| loc := l; matches := matches st; obj := obj st; dport := dport st; log := log st |}.
Definition set_obj (st : dstate) (o : Z) : dstate :=
  {| loc := loc st; matches := matches st; obj := o; dport := dport st; log := log st |}.
Definition set_port (st : dstate) (p : option (Z * Z)) : dstate :=
  {| loc := loc st; matches := matches st; obj := obj st; dport := p; log := log st |}.
Definition inc_matches (st : dstate) : dstate :=
  {| loc := loc st; matches := matches st + 1; obj := obj st; dport := dport st; log := log st |}.
Definition set_matches (st : dstate) (n : Z) : dstate :=
  {| loc := loc st; matches := n; obj := obj st; dport := dport st; log := log st |}.
Definition add_log (st : dstate) (e : event) : dstate :=
  {| loc := loc st; matches := matches st; obj := obj st; dport := dport st; log := e :: log st |}.

Definition callback := Z -> str -> dstate -> dstate.   (* port index, msg, d *)

(* scat(dest, src): src up to ':' *)
Fixpoint upto_colon (s : str) : str :=
  match s with
  | [] => []
  | c :: t => if c =? 58 then [] else c :: upto_colon t
  end.

(* "Remove the rest of the path": everything from old_end on is zeroed *)
Definition restore (old : str) (st : dstate) : dstate :=
  match loc st with
  | Some l => set_loc st (Some (firstn (length old) l))
  | None => st
  end.

(* ---- the three loops of Ports::dispatch ----------------------------------- *)
(* simple case: no location buffer *)
Fixpoint scan_noloc (cb : callback) (tid : Z) (ports : list (str * bool)) (i : Z)
         (m args : str) (obj0 : Z) (st : dstate) : dstate :=
  match ports with
  | [] => st
  | (name, _) :: r =>
      let st' :=
        match rtosc_match name m args with
        | Some (true, _) => set_obj (cb i m (set_port st (Some (tid, i)))) obj0
        | Some (false, _) => st
        | None => add_log st EvError
        end in
      scan_noloc cb tid r (i + 1) m args obj0 st'
  end.

(* linear scan with location buffer (impl->pos.empty()) *)
Fixpoint scan_loc (cb : callback) (tid : Z) (ports : list (str * bool)) (i : Z)
         (m args : str) (obj0 : Z) (old : str) (st : dstate) : dstate :=
  match ports with
  | [] => st
  | (name, sub) :: r =>
      let st' :=
        match rtosc_match name m args with
        | Some (true, Some m_end) =>
            let st1 := if sub then st else inc_matches st in
            let app := if is_pattern name then firstn (length m - length m_end) m else upto_colon name in
            let st2 := match loc st1 with
                       | Some l => set_loc st1 (Some (if is_pattern name then old ++ app else l ++ app))
                       | None => st1
                       end in
            restore old (set_obj (cb i m (set_port st2 (Some (tid, i)))) obj0)
        | Some (true, None) => add_log st EvError      (* a match always sets m_end *)
        | Some (false, _) => st
        | None => add_log st EvError
        end in
      scan_loc cb tid r (i + 1) m args obj0 old st'
  end.

(* while( *tmp && *tmp != '/') tmp++; if( *tmp == '/') tmp++; len = tmp-m; *)
Fixpoint first_component (m : str) : str :=
  match m with
  | [] => []
  | c :: t => if c =? 47 then [c] else c :: first_component t
  end.

(* strncmp(msg, fixed, fixed.length()) == 0 *)
Fixpoint is_prefix (a b : str) : bool :=
  match a, b with
  | [], _ => true
  | x :: a', y :: b' => (x =? y) && is_prefix a' b'
  | _ :: _, [] => false
  end.

(* Port_Matcher::hard_match *)
Definition hard_match (name : str) (m args : str) : bool :=
  is_prefix (fst (split_name name)) m &&
  match snd (split_name name) with Some s => pm_match_args s args | None => true end.

Definition call_default (dh : str -> dstate -> dstate) (m : str) (obj0 : Z) (st : dstate) : dstate :=
  set_obj (dh m (inc_matches st)) obj0.
(* without location buffer nothing counts matches *)
Definition call_default_noloc (dh : str -> dstate -> dstate) (m : str) (obj0 : Z) (st : dstate) : dstate :=
  set_obj (dh m st) obj0.

(* the flag `hit` of the two loops: it is set exactly when rtosc_match returned
   true for some port of the table (message and table do not change while the
   callbacks run, so the flag after the loop is this disjunction) *)
Definition any_match (ports : list (str * bool)) (m args : str) : bool :=
  existsb (fun p => match rtosc_match (fst p) m args with Some (true, _) => true | _ => false end) ports.

(* hashed lookup with location buffer *)
Definition lookup_loc (cb : callback) (dh : str -> dstate -> dstate) (T : table) (H : hashtab)
           (m args : str) (obj0 : Z) (old : str) (st : dstate) : dstate :=
  let comp := first_component m in
  let len := Z.of_nat (length comp) in
  match hash_of (h_pos H) (h_assoc H) comp with
  | None => add_log st EvError
  | Some t =>
      if Z.of_nat (length (h_remap H)) <=? t then
        (if t_dflt T then call_default dh m obj0 st else st)
      else
        match nth_error (h_remap H) (Z.to_nat t) with
        | None => add_log st EvError
        | Some port_num =>
            match nth_error (t_ports T) (Z.to_nat port_num) with
            | None => add_log st EvError
            | Some (name, sub) =>
                let key := fst (split_name name) in
                if (Z.of_nat (length key) =? len) && hard_match name m args then   (* fix D23 *)
                  let st1 := if sub then st else inc_matches st in
                  (* enump[] is false in every hashed table: memcpy of fixed[port_num] *)
                  let st2 := match loc st1 with
                             | Some l => set_loc st1 (Some (old ++ key))
                             | None => st1
                             end in
                  restore old (set_obj (cb port_num m (set_port st2 (Some (t_id T, port_num)))) obj0)
                else if t_dflt T then call_default dh m obj0 st
                else st
            end
        end
  end.

(* Ports::dispatch for one table; cb / dh are the port callbacks and the
   default handler of that table *)
Definition dispatch_table (cb : callback) (dh : str -> dstate -> dstate) (T : table)
           (m args : str) (base : bool) (st : dstate) : dstate :=
  let obj0 := obj st in
  let st1 := if base then
               let s := set_matches st 0 in
               match loc s with Some _ => set_loc s (Some []) | None => s end
             else st in
  let m1 := if base then match m with c :: t => if c =? 47 then t else m | [] => m end else m in
  match loc st1 with
  | None =>
      let st' := scan_noloc cb (t_id T) (t_ports T) 0 m1 args obj0 st1 in
      (* fix "a table's default handler ... ran only when the table had a perfect hash":
         if(!hit && default_handler) default_handler(m,d), d.obj = obj; *)
      if any_match (t_ports T) m1 args then st'
      else if t_dflt T then call_default_noloc dh m1 obj0 st' else st'
  | Some l0 =>
      let l := match l0 with [] => [47] | _ => l0 end in
      let st2 := set_loc st1 (Some l) in
      match tables_of T with
      | None =>
          let st' := scan_loc cb (t_id T) (t_ports T) 0 m1 args obj0 l st2 in
          (* same fix: if(!hit && default_handler) { d.matches++; default_handler(m,d), d.obj = obj; } *)
          if any_match (t_ports T) m1 args then st'
          else if t_dflt T then call_default dh m1 obj0 st' else st'
      | Some H => lookup_loc cb dh T H m1 args obj0 l st2
      end
  end.

(* ---- the tree ------------------------------------------------------------ *)
Inductive tree := Node (tab : table) (subs : list (option tree)).

Definition tab_of (t : tree) : table := match t with Node T _ => T end.
Definition subs_of (t : tree) : list (option tree) := match t with Node _ s => s end.

(* one round of SNIP: while( *msg && *msg!='/') ++msg; msg = *msg ? msg+1 : msg; *)
Fixpoint snip (m : str) : str :=
  match m with
  | [] => []
  | c :: t => if c =? 47 then t else snip t
  end.

(* SNIP after the commit "fix: the recursion callbacks skipped one component ...":
   as many components as the matched port's name has (the '/' in front of
   its ':'), at least one *)
Fixpoint count_slash (name : str) : nat :=
  match name with
  | [] => O
  | c :: t => if c =? 58 then O else if c =? 47 then S (count_slash t) else count_slash t
  end.
Fixpoint snipn (k : nat) (m : str) : str :=
  match k with O => m | S k' => snipn k' (snip m) end.
Definition snipk (name m : str) : str := snipn (Nat.max 1 (count_slash name)) m.

(* skip to the first digit, atoi *)
Fixpoint first_number (m : str) : Z :=
  match m with
  | [] => 0
  | c :: t => if isdigit c then atoi_acc 0 m else first_number t
  end.

(* rBOILS_BEGIN after the commit "fix: array ports took their index from the
   first digit of the address, not from the '#' position": as many characters
   of the message are skipped as the name has in front of its first '#'
   (stopping at the end of the message), then on to the first digit, atoi.
   rRecurCb (a name without '#') takes no index: 0. *)
Fixpoint skip_to_hash (name msg : str) : option str :=
  match name with
  | [] => None
  | c :: t => if c =? 35 then Some msg
              else match msg with
                   | [] => skip_to_hash t []
                   | _ :: mt => skip_to_hash t mt
                   end
  end.
Definition port_index (name msg : str) : Z :=
  match skip_to_hash name msg with Some mm => first_number mm | None => 0 end.

(* the object a parent hands down (the harness's stand-in for &obj->name[idx]) *)
Definition child_obj (o tid idx n : Z) : Z := o * 131 + tid * 17 + idx * 7 + n + 1.

Definition leaf_event (tid i : Z) (m : str) (leaf : bool) (st : dstate) : dstate :=
  add_log st (Ev tid i m (obj st) (loc st) (dport st) leaf).

(* callbacks: a leaf records what it sees; a port with sub-ports records,
   then does what rRecurCb / rRecursCb do *)
Fixpoint dispatch_f (fuel : nat) (t : tree) (m args : str) (base : bool) (st : dstate) : dstate :=
  match fuel with
  | O => add_log st EvError
  | S f =>
      let T := tab_of t in
      let cb := fun (i : Z) (msg : str) (d : dstate) =>
        let leaf := match nth_error (subs_of t) (Z.to_nat i) with Some (Some _) => false | _ => true end in
        let d1 := leaf_event (t_id T) i msg leaf d in
        match nth_error (subs_of t) (Z.to_nat i) with
        | Some (Some sub) =>
            let name := match nth_error (t_ports T) (Z.to_nat i) with Some (n, _) => n | None => [] end in
            let n := port_index name msg in
            dispatch_f f sub (snipk name msg) args false (set_obj d1 (child_obj (obj d1) (t_id T) i n))
        | _ => d1
        end in
      let dh := fun (msg : str) (d : dstate) => add_log d (EvDefault (t_id T) msg (obj d) (loc d)) in
      dispatch_table cb dh T m args base st
  end.

Fixpoint depth (t : tree) : nat :=
  match t with
  | Node _ subs =>
      S ((fix go (l : list (option tree)) : nat :=
            match l with
            | [] => O
            | Some s :: r => Nat.max (depth s) (go r)
            | None :: r => go r
            end) subs)
  end.

Definition init_state (with_loc : bool) (o : Z) : dstate :=
  {| loc := if with_loc then Some [] else None; matches := 0; obj := o; dport := None; log := [] |}.

(* a root dispatch *)
Definition dispatch (t : tree) (m args : str) (with_loc : bool) (o : Z) : dstate :=
  dispatch_f (depth t) t m args true (init_state with_loc o).
