(* C18 - proofs about Ports/PathModel.v *)
From Coq Require Import List ZArith Bool Arith Lia.
From RtoscV Require Import Match.PatSpec Match.MatchModel Ports.PathModel.
Import ListNotations.
Local Open Scope Z_scope.

(* ======================================================================== *)
(* Part 1: collapsePath                                                     *)
(* ======================================================================== *)

Definition noslash (c : str) : Prop := Forall (fun x => x <> 47) c.

(* equality of two list expressions up to associativity of ++ *)
Ltac list_eq :=
  repeat (rewrite <- app_assoc || rewrite <- app_comm_cons); cbn [app];
  repeat (rewrite <- app_assoc || rewrite <- app_comm_cons); reflexivity.

(* ---- components / flat --------------------------------------------------- *)
Lemma comps_of_nonempty p : comps_of p <> [].
Proof.
  induction p as [|c t IH]; cbn [comps_of]; [discriminate|].
  destruct (c =? 47); [discriminate|]. destruct (comps_of t); discriminate.
Qed.

Lemma comps_of_flat p : flat (comps_of p) = 47 :: p /\ Forall noslash (comps_of p).
Proof.
  induction p as [|c t [IH1 IH2]]; cbn [comps_of].
  - split; [reflexivity|]. repeat constructor.
  - destruct (c =? 47) eqn:E.
    + apply Z.eqb_eq in E. subst c. split.
      * unfold flat in *. cbn [map concat app]. rewrite IH1. reflexivity.
      * constructor; [constructor|assumption].
    + apply Z.eqb_neq in E. destruct (comps_of t) as [|h r] eqn:Hc.
      * exfalso. eapply comps_of_nonempty. exact Hc.
      * unfold flat in *. cbn [map concat app] in *. inversion IH1. split; [reflexivity|].
        inversion IH2; subst. constructor; [constructor; assumption|assumption].
Qed.

Lemma components_flat p cs :
  components p = Some cs -> flat cs = p /\ Forall noslash cs /\ cs <> [].
Proof.
  unfold components. destruct p as [|c t]; [discriminate|].
  destruct (c =? 47) eqn:E; [|discriminate]. apply Z.eqb_eq in E. subst c.
  intros H. inversion H; subst. destruct (comps_of_flat t) as [H1 H2].
  destruct (comps_of t) as [|h r] eqn:Hc.
  - exfalso. eapply comps_of_nonempty. exact Hc.
  - repeat split; [assumption | assumption | discriminate].
Qed.

Lemma flat_app a b : flat (a ++ b) = flat a ++ flat b.
Proof. unfold flat. rewrite map_app, concat_app. reflexivity. Qed.

Lemma flat_cons c a : flat (c :: a) = 47 :: c ++ flat a.
Proof. reflexivity. Qed.

(* ---- the abstract backward machine and its equivalence with the stack ---- *)
Fixpoint bw (rcs : list str) (k : nat) (acc : list str) : list str :=
  match rcs with
  | [] => acc
  | c :: r =>
      if is_dotdot c then bw r (S k) acc
      else match k with
           | S k' => bw r k' acc
           | O => bw r O (c :: acc)
           end
  end.

Lemma skipn_tl {A} k (l : list A) : skipn k (tl l) = skipn (S k) l.
Proof. destruct l; [destruct k; reflexivity | reflexivity]. Qed.

Lemma bw_spec cs : forall k acc,
  bw (rev cs) k acc = rev (skipn k (fold_left stack_step cs [])) ++ acc.
Proof.
  induction cs as [|c cs IH] using rev_ind; intros k acc.
  - cbn. destruct k; reflexivity.
  - rewrite rev_app_distr, fold_left_app. cbn [rev app bw fold_left].
    unfold stack_step at 1. destruct (is_dotdot c).
    + rewrite IH, skipn_tl. reflexivity.
    + destruct k as [|k'].
      * rewrite IH. cbn [skipn rev]. rewrite <- app_assoc. reflexivity.
      * rewrite IH. reflexivity.
Qed.

(* ---- memory lemmas --------------------------------------------------------- *)
Lemma nth_error_mid {A} (a : list A) y b : nth_error (a ++ y :: b) (length a) = Some y.
Proof. rewrite nth_error_app2, Nat.sub_diag by lia. reflexivity. Qed.

Lemma upd_mid a y b v : upd (a ++ y :: b) (length a) v = Some (a ++ v :: b).
Proof. induction a as [|x a IH]; cbn [upd app length]; [reflexivity|]. rewrite IH. reflexivity. Qed.

Lemma upd_length b : forall i v b', upd b i v = Some b' -> length b' = length b.
Proof.
  induction b as [|c t IH]; intros i v b' H; cbn [upd] in H; [discriminate|].
  destruct i as [|j].
  - inversion H. reflexivity.
  - destruct (upd t j v) eqn:E; [|discriminate]. inversion H. cbn [length]. f_equal. eapply IH. exact E.
Qed.

Lemma upd_firstn b : forall i v b', upd b i v = Some b' -> firstn i b' = firstn i b.
Proof.
  induction b as [|c t IH]; intros i v b' H; cbn [upd] in H; [discriminate|].
  destruct i as [|j].
  - reflexivity.
  - destruct (upd t j v) eqn:E; [|discriminate]. inversion H. cbn [firstn]. f_equal. eapply IH. exact E.
Qed.

Lemma firstn_firstn_le {A} (l l' : list A) i j :
  (i <= j)%nat -> firstn j l' = firstn j l -> firstn i l' = firstn i l.
Proof.
  intros Hij H. rewrite <- (Nat.min_l i j) by assumption.
  rewrite <- !firstn_firstn. rewrite H. reflexivity.
Qed.

(* ---- read_path over one chunk --------------------------------------------- *)
Lemma read_path_chunk c : forall pre rest,
  noslash c ->
  read_path (pre ++ 47 :: c ++ rest) (length pre + 1 + length c) = Some (length pre).
Proof.
  induction c as [|x c IH] using rev_ind; intros pre rest Hc.
  - cbn [length app]. replace (length pre + 1 + 0)%nat with (S (length pre)) by lia.
    cbn [read_path]. rewrite nth_error_mid. reflexivity.
  - apply Forall_app in Hc. destruct Hc as [Hc Hx]. inversion Hx as [|? ? Hx47 _]; subst.
    rewrite app_length. cbn [length].
    replace (length pre + 1 + (length c + 1))%nat with (S (length pre + 1 + length c)) by lia.
    cbn [read_path].
    replace (pre ++ 47 :: (c ++ [x]) ++ rest) with ((pre ++ 47 :: c) ++ x :: rest)
      by list_eq.
    replace (length pre + 1 + length c)%nat with (length (pre ++ 47 :: c))
      by (rewrite app_length; cbn [length]; lia).
    rewrite nth_error_mid.
    destruct (x =? 47) eqn:E; [apply Z.eqb_eq in E; contradiction|].
    replace ((pre ++ 47 :: c) ++ x :: rest) with (pre ++ 47 :: c ++ (x :: rest))
      by list_eq.
    replace (length (pre ++ 47 :: c)) with (length pre + 1 + length c)%nat
      by (rewrite app_length; cbn [length]; lia).
    apply IH. assumption.
Qed.

(* ---- move_path over one chunk: the chunk lands right before [tail], the gap
        [X] between the cursors keeps its length --------------------------- *)
Lemma move_path_chunk c : forall pre X tail,
  noslash c ->
  exists X',
    move_path (pre ++ 47 :: c ++ X ++ tail) (length pre + 1 + length c)
              (length pre + 1 + length c + length X)
    = Some (pre ++ X' ++ 47 :: c ++ tail, length pre, (length pre + length X')%nat)
    /\ length X' = length X.
Proof.
  induction c as [|x c IH] using rev_ind; intros pre X tail Hc.
  - (* only the '/' is left *)
    cbn [length app].
    replace (length pre + 1 + 0)%nat with (S (length pre)) by lia.
    cbn [move_path]. rewrite nth_error_mid.
    destruct (exists_last (l := 47 :: X) ltac:(discriminate)) as [Y0 [y HY]].
    assert (HL : length (47 :: X) = length (Y0 ++ [y])) by (rewrite HY; reflexivity).
    rewrite app_length in HL. cbn [length] in HL.
    replace (S (length pre) + length X)%nat with (S (length pre + length Y0)) by lia.
    replace (pre ++ 47 :: X ++ tail) with ((pre ++ Y0) ++ y :: tail)
      by (rewrite <- app_assoc; f_equal; change (47 :: X ++ tail) with ((47 :: X) ++ tail);
          rewrite HY, <- app_assoc; reflexivity).
    replace (length pre + length Y0)%nat with (length (pre ++ Y0)) by (rewrite app_length; reflexivity).
    rewrite upd_mid. cbn [Z.eqb Pos.eqb].
    exists Y0. split; [|lia].
    rewrite app_length, <- app_assoc. reflexivity.
  - apply Forall_app in Hc. destruct Hc as [Hc Hx]. inversion Hx as [|? ? Hx47 _]; subst.
    rewrite app_length. cbn [length].
    replace (length pre + 1 + (length c + 1))%nat with (S (length pre + 1 + length c)) by lia.
    cbn [move_path].
    replace (pre ++ 47 :: (c ++ [x]) ++ X ++ tail) with ((pre ++ 47 :: c) ++ x :: X ++ tail)
      by list_eq.
    replace (length pre + 1 + length c)%nat with (length (pre ++ 47 :: c))
      by (rewrite app_length; cbn [length]; lia).
    rewrite nth_error_mid.
    destruct (exists_last (l := x :: X) ltac:(discriminate)) as [Y0 [y HY]].
    assert (HL : length (x :: X) = length (Y0 ++ [y])) by (rewrite HY; reflexivity).
    rewrite app_length in HL. cbn [length] in HL.
    replace (S (length (pre ++ 47%Z :: c)) + length X)%nat with (S (length (pre ++ 47 :: c) + length Y0)) by lia.
    replace ((pre ++ 47 :: c) ++ x :: X ++ tail) with (((pre ++ 47 :: c) ++ Y0) ++ y :: tail)
      by (rewrite <- (app_assoc _ Y0); f_equal; change (x :: X ++ tail) with ((x :: X) ++ tail);
          rewrite HY, <- app_assoc; reflexivity).
    replace (length (pre ++ 47%Z :: c) + length Y0)%nat with (length ((pre ++ 47 :: c) ++ Y0))
      by (rewrite app_length; reflexivity).
    rewrite upd_mid.
    destruct (x =? 47) eqn:E; [apply Z.eqb_eq in E; contradiction|].
    destruct (IH pre Y0 (x :: tail) Hc) as [X' [HM HX']].
    replace (((pre ++ 47 :: c) ++ Y0) ++ x :: tail) with (pre ++ 47 :: c ++ Y0 ++ x :: tail)
      by list_eq.
    replace (length (pre ++ 47 :: c)) with (length pre + 1 + length c)%nat
      by (rewrite app_length; cbn [length]; lia).
    replace (length ((pre ++ 47 :: c) ++ Y0)) with (length pre + 1 + length c + length Y0)%nat
      by (rewrite !app_length; cbn [length]; lia).
    rewrite HM. exists X'. split; [|lia].
    rewrite <- !app_assoc. reflexivity.
Qed.

(* ---- parent_path_p at the end of a chunk ---------------------------------- *)
Lemma nth_error_at {A} (l a : list A) y b n :
  l = a ++ y :: b -> n = length a -> nth_error l n = Some y.
Proof. intros -> ->. apply nth_error_mid. Qed.

Ltac len_eq := repeat (rewrite app_length || cbn [length]); lia.

Lemma pp_three A x2 x1 x0 B :
  parent_path_p (A ++ x2 :: x1 :: x0 :: B) (length A + 3)
  = Some ((x0 =? 46) && (x1 =? 46) && (x2 =? 47)).
Proof.
  replace (length A + 3)%nat with (S (S (S (length A)))) by lia.
  unfold parent_path_p.
  rewrite (nth_error_at _ (A ++ [x2; x1]) x0 B) by (list_eq || len_eq).
  destruct (x0 =? 46); cbn [negb andb]; [|reflexivity].
  rewrite (nth_error_at _ (A ++ [x2]) x1 (x0 :: B)) by (list_eq || len_eq).
  destruct (x1 =? 46); cbn [negb andb]; [|reflexivity].
  rewrite nth_error_mid. reflexivity.
Qed.

Lemma parent_path_p_chunk c pre rest :
  noslash c ->
  parent_path_p (pre ++ 47 :: c ++ rest) (length pre + 1 + length c) = Some (is_dotdot c).
Proof.
  intros Hc.
  destruct c as [|x0 c _] using rev_ind.
  - (* "" : read[0] is the '/' *)
    cbn [length app]. destruct pre as [|y1 pre _] using rev_ind; [reflexivity|].
    destruct pre as [|y2 pre _] using rev_ind; [reflexivity|].
    replace (((pre ++ [y2]) ++ [y1]) ++ 47 :: rest) with (pre ++ y2 :: y1 :: 47 :: rest) by list_eq.
    replace (length ((pre ++ [y2]) ++ [y1]) + 1 + 0)%nat with (length pre + 3)%nat by len_eq.
    rewrite pp_three. reflexivity.
  - apply Forall_app in Hc. destruct Hc as [Hc H0]. inversion H0 as [|? ? Hx0 _]; subst.
    destruct c as [|x1 c _] using rev_ind.
    + (* one character *)
      cbn [length app]. destruct pre as [|y1 pre _] using rev_ind; [reflexivity|].
      replace ((pre ++ [y1]) ++ 47 :: x0 :: rest) with (pre ++ y1 :: 47 :: x0 :: rest) by list_eq.
      replace (length (pre ++ [y1]) + 1 + 1)%nat with (length pre + 3)%nat by len_eq.
      rewrite pp_three. cbn. rewrite andb_false_r. reflexivity.
    + apply Forall_app in Hc. destruct Hc as [Hc H1]. inversion H1 as [|? ? Hx1 _]; subst.
      destruct c as [|x2 c _] using rev_ind.
      * (* two characters *)
        cbn [length app].
        replace (length pre + 1 + 2)%nat with (length pre + 3)%nat by lia.
        rewrite pp_three. cbn [is_dotdot]. rewrite Z.eqb_refl, andb_true_r, andb_comm. reflexivity.
      * apply Forall_app in Hc. destruct Hc as [Hc H2]. inversion H2 as [|? ? Hx2 _]; subst.
        replace (pre ++ 47 :: (((c ++ [x2]) ++ [x1]) ++ [x0]) ++ rest)
          with ((pre ++ 47 :: c) ++ x2 :: x1 :: x0 :: rest) by list_eq.
        replace (length pre + 1 + length (((c ++ [x2]) ++ [x1]) ++ [x0]))%nat
          with (length (pre ++ 47%Z :: c) + 3)%nat by len_eq.
        rewrite pp_three.
        replace (x2 =? 47) with false by (symmetry; apply Z.eqb_neq; assumption).
        rewrite andb_false_r.
        assert (Hd : forall l : list Z, is_dotdot (((l ++ [x2]) ++ [x1]) ++ [x0]) = false).
        { intros l. destruct l as [|a [|a' [|a'' l']]]; reflexivity. }
        rewrite Hd. reflexivity.
Qed.

(* ---- the loop: chunk by chunk it is the abstract backward machine ---------- *)
Lemma flat_snoc cs c : flat (cs ++ [c]) = flat cs ++ 47 :: c.
Proof. rewrite flat_app. unfold flat at 2. cbn [map concat]. rewrite app_nil_r. reflexivity. Qed.

Lemma collapse_loop_chunks cs : forall mid acc k fuel,
  Forall noslash cs ->
  (length (flat cs) < fuel)%nat ->
  exists b' pos,
    collapse_loop fuel (flat cs ++ mid ++ flat acc) (length (flat cs))
                  (length (flat cs) + length mid) (Z.of_nat k) = COk b' pos
    /\ skipn pos b' = flat (bw (rev cs) k acc).
Proof.
  induction cs as [|c cs IH] using rev_ind; intros mid acc k fuel Hcs Hf.
  - cbn [flat map concat length app rev bw]. destruct fuel as [|f]; [lia|].
    cbn [collapse_loop]. exists (mid ++ flat acc), (length mid). split; [reflexivity|].
    rewrite skipn_app, skipn_all, Nat.sub_diag. reflexivity.
  - apply Forall_app in Hcs. destruct Hcs as [Hcs Hc]. inversion Hc as [|? ? Hc' _]; subst.
    rewrite rev_app_distr. cbn [rev app bw].
    rewrite flat_snoc in *. rewrite app_length in *. cbn [length] in *.
    destruct fuel as [|f]; [lia|].
    replace (length (flat cs) + S (length c))%nat with (S (length (flat cs) + length c)) by lia.
    cbn [collapse_loop].
    replace (S (length (flat cs) + length c)) with (length (flat cs) + 1 + length c)%nat by lia.
    replace ((flat cs ++ 47 :: c) ++ mid ++ flat acc)
      with (flat cs ++ 47 :: c ++ (mid ++ flat acc)) by list_eq.
    rewrite parent_path_p_chunk by assumption.
    destruct (is_dotdot c) eqn:Edd.
    + (* a parent reference: skip it, one more to consume *)
      rewrite read_path_chunk by assumption.
      replace (Z.of_nat k + 1) with (Z.of_nat (S k)) by lia.
      destruct (IH ((47 :: c) ++ mid) acc (S k) f Hcs ltac:(lia)) as [b' [pos [HL HS]]].
      exists b', pos. split; [|exact HS].
      rewrite <- HL. f_equal; [list_eq | len_eq].
    + destruct k as [|k'].
      * (* nothing to consume: the chunk is moved down to the write cursor *)
        cbn [Z.of_nat Z.eqb negb].
        destruct (move_path_chunk c (flat cs) mid (flat acc) Hc') as [X' [HM HX]].
        replace (length (flat cs) + 1 + length c + length mid)%nat
          with (length (flat cs) + 1 + length c + length mid)%nat in HM by reflexivity.
        rewrite HM.
        destruct (IH X' (c :: acc) O f Hcs ltac:(lia)) as [b' [pos [HL HS]]].
        exists b', pos. split; [|exact HS].
        rewrite <- HL. f_equal.
      * (* an ordinary component cancelled by a later '..' *)
        replace (negb (Z.of_nat (S k') =? 0)) with true
          by (symmetry; apply negb_true_iff, Z.eqb_neq; lia).
        rewrite read_path_chunk by assumption.
        replace (Z.of_nat (S k') - 1) with (Z.of_nat k') by lia.
        destruct (IH ((47 :: c) ++ mid) acc k' f Hcs ltac:(lia)) as [b' [pos [HL HS]]].
        exists b', pos. split; [|exact HS].
        rewrite <- HL. f_equal; [list_eq | len_eq].
Qed.

(* ---- what is never written: everything before the returned position -------- *)
Lemma move_path_frame : forall rp b wp b' rp' wp',
  move_path b rp wp = Some (b', rp', wp') ->
  (wp' <= wp)%nat /\ firstn wp' b' = firstn wp' b /\ length b' = length b.
Proof.
  induction rp as [|r IH]; intros b wp b' rp' wp' H; cbn [move_path] in H.
  - inversion H; subst. repeat split; lia.
  - destruct (nth_error b r) as [c|]; [|discriminate].
    destruct wp as [|w]; [discriminate|].
    destruct (upd b w c) as [b1|] eqn:Eu; [|discriminate].
    pose proof (upd_length _ _ _ _ Eu) as HL1. pose proof (upd_firstn _ _ _ _ Eu) as HF1.
    destruct (c =? 47).
    + inversion H; subst. repeat split; [lia | assumption | assumption].
    + destruct (IH _ _ _ _ _ H) as [Hle [HF HL]].
      repeat split; [lia | | congruence].
      rewrite HF. eapply firstn_firstn_le; [exact Hle | exact HF1].
Qed.

Lemma collapse_loop_frame : forall fuel b rp wp k b' pos,
  collapse_loop fuel b rp wp k = COk b' pos ->
  (pos <= wp)%nat /\ firstn pos b' = firstn pos b /\ length b' = length b.
Proof.
  induction fuel as [|f IH]; intros b rp wp k b' pos H; cbn [collapse_loop] in H; [discriminate|].
  destruct rp as [|r].
  - inversion H; subst. repeat split; lia.
  - destruct (parent_path_p b (S r)) as [[|]|]; [| |discriminate].
    + destruct (read_path b (S r)); [|discriminate]. eapply IH. exact H.
    + destruct (negb (k =? 0)).
      * destruct (read_path b (S r)); [|discriminate]. eapply IH. exact H.
      * destruct (move_path b (S r) wp) as [[[b1 rp1] wp1]|] eqn:Em; [|discriminate].
        destruct (move_path_frame _ _ _ _ _ _ Em) as [Hle [HF HL]].
        destruct (IH _ _ _ _ _ _ H) as [Hle2 [HF2 HL2]].
        repeat split; [lia | | congruence].
        rewrite HF2. eapply firstn_firstn_le; [exact Hle2 | exact HF].
Qed.

(* ---- the theorem ------------------------------------------------------------ *)
Theorem collapse_is_stack_spec p cs :
  components p = Some cs ->
  exists b' pos,
    collapse p = COk b' pos /\
    skipn pos b' = flat (stack_spec cs) /\
    (pos <= length p)%nat /\ length b' = length p /\
    firstn pos b' = firstn pos p.
Proof.
  intros Hp. destruct (components_flat _ _ Hp) as [Hf [Hn _]].
  unfold collapse. subst p.
  destruct (collapse_loop_chunks cs [] [] O (S (length (flat cs))) Hn ltac:(lia)) as [b' [pos [HL HS]]].
  cbn [app flat map concat] in HL. rewrite app_nil_r, Nat.add_0_r in HL. cbn [Z.of_nat] in HL.
  exists b', pos. split; [exact HL|].
  destruct (collapse_loop_frame _ _ _ _ _ _ _ HL) as [Hle [HF HLen]].
  rewrite bw_spec in HS. cbn [skipn] in HS. rewrite app_nil_r in HS.
  repeat split; assumption.
Qed.

(* every absolute path has components *)
Lemma absolute_components p : hd 0 p = 47 -> exists cs, components p = Some cs.
Proof.
  destruct p as [|c t]; cbn [hd]; [discriminate|]. intros ->.
  eexists. reflexivity.
Qed.

(* non-vacuity / the three paths of test/path-collapse.cpp and a few shapes *)
Example collapse_ex1 :   (* "/foo/bar/../baz" -> "/foo/baz" at offset 7 *)
  collapse_str [47;102;111;111;47;98;97;114;47;46;46;47;98;97;122]
  = Some (7%nat, [47;102;111;111;47;98;97;122]).
Proof. reflexivity. Qed.

Example collapse_ex2 :   (* "/../bar/../baz" -> "/baz" *)
  collapse_str [47;46;46;47;98;97;114;47;46;46;47;98;97;122] = Some (10%nat, [47;98;97;122]).
Proof. reflexivity. Qed.

Example collapse_ex3 :   (* "/a/b/../" -> "/a/" : the empty last component is ordinary *)
  collapse_str [47;97;47;98;47;46;46;47] = Some (5%nat, [47;97;47]).
Proof. reflexivity. Qed.

Example components_ex : components [47;97;47;98;47;46;46;47] = Some [[97];[98];[46;46];[]].
Proof. reflexivity. Qed.
