(* C14: the option list an rOptions(s_0, ..., s_{n-1}) declaration stands for
   (spec side; port-sugar.h: "rOptions(...)" = rOpt(0, s_0) rOpt(1, s_1) ...):
   symbol number i is declared under index i. *)
From Coq Require Import List ZArith.
From RtoscV Require Import Ports.SugarModel.
Import ListNotations.
Local Open Scope Z_scope.

Fixpoint options_from (k : Z) (syms : list str) : list (Z * str) :=
  match syms with
  | [] => []
  | s :: r => (k, s) :: options_from (k + 1) r
  end.

Definition rOptions_decl (syms : list str) : list (Z * str) := options_from 0 syms.
