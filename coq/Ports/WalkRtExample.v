(* C09 - non-vacuity of the runtime enumeration theorem: the tree of
   Ports/EnabledProofs.v in structured form, the oracle built from the toggles'
   answers by the model of port_is_enabled. *)
From Coq Require Import List ZArith Bool Arith Lia.
From RtoscV Require Import Match.PatSpec Match.MatchModel Ports.MetaModel Ports.NameModel Ports.PathModel
     Ports.WalkModel Ports.WalkProofs Ports.EnumProofs Ports.WalkRt Ports.EnabledModel Ports.EnabledProofs.
Import ListNotations.
Local Open Scope Z_scope.

Definition ex_rt_s : list sport :=
  [SPort [Lit [116;103]] [58;58;84;58;70] None None;
   SPort (comps_segs [([115;117;98], None)]) [] (Some m_tg) (Some [SPort [Lit [120]] [] None None]);
   SPort (comps_segs [([97;114;114], Some 2)]) [] (Some m_on)
         (Some [SPort [Lit [111;110]] [58;58;84;58;70] None None; SPort [Lit [121]] [] None None])].

Definition o_ex : oracle := oracle_of ans_ex [] ex_rt [].

Example walk_rt_nonvacuous :
  map render_port ex_rt_s = ex_rt /\
  Forall sport_wf ex_rt_s /\
  defined_visit o_ex [47] ex_rt_s = true /\
  o_disabled o_ex [47;115;117;98;47] = true /\ o_disabled o_ex [47;97;114;114;49;47] = true /\
  o_disabled o_ex [47;97;114;114;48;47] = false /\
  spec_walk_rt o_ex ex_rt_s =
    [([0%nat], [47;116;103]);
     ([2%nat; 0%nat], [47;97;114;114;48;47;111;110]); ([2%nat; 1%nat], [47;97;114;114;48;47;121]);
     ([2%nat; 0%nat], [47;97;114;114;49;47;111;110])] /\
  length (spec_addrs ex_rt_s) = 6%nat.
Proof.
  split; [reflexivity|]. split.
  { assert (A0 : args_wf []) by (split; [left|]; reflexivity).
    assert (A1 : args_wf [58;58;84;58;70]) by (split; [right|]; reflexivity).
    assert (L : forall t, t <> [] -> has_char 35 t = false -> has_char 58 t = false -> segs_wf [Lit t])
      by (intros t H1 H2 H3; cbn; auto).
    constructor; [|constructor; [|constructor; [|constructor]]].
    - split; [exact A1|]. apply L; [discriminate | reflexivity | reflexivity].
    - split; [exact A0|]. split.
      + exists [([115;117;98], None)]. split; [reflexivity|]. split; [|discriminate].
        constructor; [|constructor]. repeat split; try discriminate; reflexivity.
      + split; [|exact I]. split; [exact A0|]. apply L; [discriminate | reflexivity | reflexivity].
    - split; [exact A0|]. split.
      + exists [([97;114;114], Some 2)]. split; [reflexivity|]. split; [|discriminate].
        constructor; [|constructor]. repeat split; try discriminate; try reflexivity; try (cbn; lia).
      + split; [|split; [|exact I]].
        * split; [exact A1|]. apply L; [discriminate | reflexivity | reflexivity].
        * split; [exact A0|]. apply L; [discriminate | reflexivity | reflexivity]. }
  vm_compute. repeat split; reflexivity.
Qed.
