(* C04 - the descent through a port TREE of any depth: dispatch_f (model of
   Ports::dispatch + the rRecur* callbacks) is characterised by a pure
   function spec_run that lists, level by level, the ports whose name
   matches; the tree-level property theorems are corollaries about that list.
   Re-uses the per-table theorems of DispatchProofs.v. *)
From Coq Require Import List ZArith Bool Lia.
From RtoscV Require Import Match.PatSpec Match.MatchModel Match.MatchProofs
     Ports.DispatchModel Ports.DispatchProofs.
Import ListNotations.
Local Open Scope Z_scope.

(* ======================================================================== *)
(* what a root dispatch must log                                             *)
(* ======================================================================== *)
(* text appended to loc for a matching port: scat(name) or, for names that
   are patterns ('#', '{'), the matched part of the message *)
Definition app_of (name m pe : str) : str :=
  if is_pattern name then firstn (length m - length pe) m else upto_colon name.

Definition is_leaf (t : tree) (i : Z) : bool :=
  match nth_error (subs_of t) (Z.to_nat i) with Some (Some _) => false | _ => true end.

(* one matching port: its callback's record, then (if it has sub-ports) the
   level below with the message SNIPped, the child object and the longer loc *)
Definition visit (below : tree -> str -> str -> Z -> option str -> list event)
           (t : tree) (m args : str) (o : Z) (p : option str) (h : hit) : list event :=
  let '(i, name, sub, pe) := h in
  let T := tab_of t in
  let l' := option_map (fun l => l ++ app_of name m pe) p in
  Ev (t_id T) i m o l' (Some (t_id T, i)) (is_leaf t i) ::
  match nth_error (subs_of t) (Z.to_nat i) with
  | Some (Some s) =>
      below s (snipk name m) args (child_obj o (t_id T) i (port_index name m)) l'
  | _ => []
  end.

(* events in the order they happen.  p = location so far (None: no buffer),
   o = the object this level was handed.  Fuel = depth of the tree. *)
Fixpoint spec_run (fuel : nat) (t : tree) (m args : str) (o : Z) (p : option str) : list event :=
  match fuel with
  | O => [EvError]
  | S f =>
      let T := tab_of t in
      let hits := scan_hits (t_ports T) 0 m args in
      match hits with
      | [] => if t_dflt T then [EvDefault (t_id T) m o p] else []
      | _ => flat_map (visit (spec_run f) t m args o p) hits
      end
  end.

(* leaf callbacks (and default-handler calls) in a list of events *)
Definition counts (e : event) : Z :=
  match e with Ev _ _ _ _ _ _ true => 1 | EvDefault _ _ _ _ => 1 | _ => 0 end.
Definition leaf_count (l : list event) : Z := fold_right (fun e a => counts e + a) 0 l.

Lemma leaf_count_app : forall a b, leaf_count (a ++ b) = leaf_count a + leaf_count b.
Proof.
  induction a as [|e a IH]; intros b; [reflexivity|].
  unfold leaf_count in *. cbn [app fold_right]. rewrite IH. lia.
Qed.

Lemma leaf_count_cons : forall e r, leaf_count (e :: r) = counts e + leaf_count r.
Proof. reflexivity. Qed.

Lemma leaf_count_rev : forall l, leaf_count (rev l) = leaf_count l.
Proof.
  induction l as [|e l IH]; [reflexivity|]. cbn [rev]. rewrite leaf_count_app, IH.
  unfold leaf_count. cbn [fold_right]. lia.
Qed.

(* ======================================================================== *)
(* well-formed trees                                                         *)
(* ======================================================================== *)
Inductive tree_ok : tree -> Prop :=
| TreeOk : forall T subs,
    (forall n name sub, nth_error (t_ports T) n = Some (name, sub) ->
       (sub = true <-> exists s, nth_error subs n = Some (Some s))) ->
    (tables_of T = None \/ (lit_table T /\ assoc_ok T)) ->
    (forall n s, nth_error subs n = Some (Some s) -> tree_ok s) ->
    tree_ok (Node T subs).

Definition depth_subs :=
  fix go (l : list (option tree)) : nat :=
    match l with
    | [] => O
    | Some s :: r => Nat.max (depth s) (go r)
    | None :: r => go r
    end.

Lemma depth_node : forall T subs, depth (Node T subs) = S (depth_subs subs).
Proof. reflexivity. Qed.

Lemma depth_sub : forall subs n s, nth_error subs n = Some (Some s) -> (depth s <= depth_subs subs)%nat.
Proof.
  induction subs as [|x subs IH]; intros n s E; [destruct n; discriminate|].
  destruct n as [|n]; cbn in E.
  - inversion E; subst. cbn. lia.
  - specialize (IH _ _ E). destruct x; cbn; lia.
Qed.

(* ======================================================================== *)
(* a hashed literal table has at most one hit, and it is the lookup's         *)
(* ======================================================================== *)
Definition hidx (h : hit) : Z := let '(i, _, _, _) := h in i.

Lemma scan_hits_ge : forall ports i m args h, In h (scan_hits ports i m args) -> i <= hidx h.
Proof.
  induction ports as [|[nm sb] r IH]; intros i m args h Hin; [contradiction|].
  cbn [scan_hits] in Hin. apply in_app_or in Hin as [Hin|Hin].
  - destruct (rtosc_match nm m args) as [[[|] [pe|]]|]; try contradiction.
    destruct Hin as [<-|[]]. cbn. lia.
  - specialize (IH _ _ _ _ Hin). lia.
Qed.

Lemma scan_hits_le1 : forall ports i m args,
  (forall h1 h2, In h1 (scan_hits ports i m args) -> In h2 (scan_hits ports i m args) -> hidx h1 = hidx h2) ->
  scan_hits ports i m args = [] \/ exists h, scan_hits ports i m args = [h].
Proof.
  induction ports as [|[nm sb] r IH]; intros i m args Hu; [left; reflexivity|].
  cbn [scan_hits] in *.
  destruct (rtosc_match nm m args) as [[[|] [pe|]]|]; cbn [app] in *; try (apply IH; exact Hu).
  right. destruct (scan_hits r (i + 1) m args) as [|h2 rest] eqn:E; [eauto|].
  exfalso. assert (Hin : In h2 (scan_hits r (i + 1) m args)) by (rewrite E; now left).
  apply scan_hits_ge in Hin. specialize (Hu (i, nm, sb, pe) h2 (or_introl eq_refl) (or_intror (or_introl eq_refl))).
  cbn in Hu. lia.
Qed.

Lemma hashed_hits : forall T H m args,
  tables_of T = Some H -> lit_table T -> assoc_ok T -> addr_chars m -> byte_str m ->
  match lookup_hit T H m args with
  | LErr => False
  | LMiss => scan_hits (t_ports T) 0 m args = []
  | LHit j name sub => exists pe, scan_hits (t_ports T) 0 m args = [(j, name, sub, pe)]
  end.
Proof.
  intros T H m args HT Hlit Ha Hm H7.
  destruct (hashed_eq_linear T H m args HT Hlit Ha Hm H7) as [NE Iff].
  destruct (lookup_hit T H m args) as [| |j name sub] eqn:L; [congruence | |].
  - now apply (default_only_when_no_match T H).
  - destruct (proj1 (Iff j name sub) eq_refl) as [pe Hin].
    destruct (scan_hits_le1 (t_ports T) 0 m args) as [E|[h E]].
    + intros [[[j1 n1] s1] p1] [[[j2 n2] s2] p2] I1 I2. cbn.
      eapply (hashed_table_unique T H); eauto.
    + rewrite E in Hin. contradiction.
    + exists pe. rewrite E in Hin |- *. destruct Hin as [->|[]]. reflexivity.
Qed.

(* ======================================================================== *)
(* dispatch_f = spec_run                                                     *)
(* ======================================================================== *)
Definition tree_cb (f : nat) (t : tree) (args : str) : callback := fun i msg d =>
  let T := tab_of t in
  let leaf := match nth_error (subs_of t) (Z.to_nat i) with Some (Some _) => false | _ => true end in
  let d1 := leaf_event (t_id T) i msg leaf d in
  match nth_error (subs_of t) (Z.to_nat i) with
  | Some (Some sub) =>
      let name := match nth_error (t_ports T) (Z.to_nat i) with Some (n, _) => n | None => [] end in
      let n := port_index name msg in
      dispatch_f f sub (snipk name msg) args false (set_obj d1 (child_obj (obj d1) (t_id T) i n))
  | _ => d1
  end.
Definition tree_dh (t : tree) : str -> dstate -> dstate :=
  fun msg d => add_log d (EvDefault (t_id (tab_of t)) msg (obj d) (loc d)).

Lemma dispatch_f_S : forall f t m args base st,
  dispatch_f (S f) t m args base st =
  dispatch_table (tree_cb f t args) (tree_dh t) (tab_of t) m args base st.
Proof. reflexivity. Qed.

Lemma snip_suffix : forall m, exists x, m = x ++ snip m.
Proof.
  induction m as [|c m [x IH]]; [exists []; reflexivity|]. cbn.
  destruct (c =? 47); [exists [c]; reflexivity | exists (c :: x); cbn; now f_equal].
Qed.

Lemma snipn_suffix : forall k m, exists x, m = x ++ snipn k m.
Proof.
  induction k as [|k IH]; intros m; [exists []; reflexivity|]. cbn [snipn].
  destruct (snip_suffix m) as [x E]. destruct (IH (snip m)) as [y E'].
  exists (x ++ y). rewrite <- app_assoc, <- E', <- E. reflexivity.
Qed.

Lemma snipk_suffix : forall name m, exists x, m = x ++ snipk name m.
Proof. intros. apply snipn_suffix. Qed.

Lemma addr_chars_snip : forall name m, addr_chars m -> addr_chars (snipk name m).
Proof. intros name m H. destruct (snipk_suffix name m) as [x E]. rewrite E in H. eapply addr_chars_suffix; eauto. Qed.

Lemma byte_str_snip : forall name m, byte_str m -> byte_str (snipk name m).
Proof.
  intros name m H. destruct (snipk_suffix name m) as [x E]. unfold byte_str in *. rewrite E in H.
  apply Forall_app in H. tauto.
Qed.

(* the statement for one level and everything below it, with location buffer *)
Definition run_loc_ok (f : nat) : Prop :=
  forall t m args st l, tree_ok t -> (depth t <= f)%nat -> addr_chars m -> byte_str m ->
    loc st = Some l -> l <> [] ->
    exists dp, dispatch_f f t m args false st =
      {| loc := Some l;
         matches := matches st + leaf_count (spec_run f t m args (obj st) (Some l));
         obj := obj st; dport := dp;
         log := rev (spec_run f t m args (obj st) (Some l)) ++ log st |}.

Lemma app_nonempty : forall (l a : str), l <> [] -> l ++ a <> [].
Proof. intros [|c l] a H; [congruence | discriminate]. Qed.

Lemma visit_step_loc : forall f t args, run_loc_ok f -> tree_ok t -> (depth t <= S f)%nat ->
  forall m l obj0 i name sub pe s,
  addr_chars m -> byte_str m -> l <> [] ->
  loc s = Some l -> obj s = obj0 -> 0 <= i ->
  nth_error (t_ports (tab_of t)) (Z.to_nat i) = Some (name, sub) ->
  exists dp,
    step_loc (tree_cb f t args) (t_id (tab_of t)) m obj0 l s (i, name, sub, pe) =
    {| loc := Some l;
       matches := matches s + leaf_count (visit (spec_run f) t m args obj0 (Some l) (i, name, sub, pe));
       obj := obj0; dport := dp;
       log := rev (visit (spec_run f) t m args obj0 (Some l) (i, name, sub, pe)) ++ log s |}.
Proof.
  intros f t args IH Hok Hd m l obj0 i name sub pe s Hm H7 Hl Ls Os Hi Hp.
  rewrite callback_sees by exact Ls.
  destruct t as [T subs]. inversion Hok as [? ? Hflag Htab Hsubs]; subst.
  cbn [tab_of subs_of] in *.
  unfold visit, tree_cb, is_leaf. cbn [tab_of subs_of option_map].
  unfold app_of. rewrite Hp.
  destruct (nth_error subs (Z.to_nat i)) as [[s'|]|] eqn:Es.
  - (* a port with sub-ports *)
    assert (Hsub : sub = true) by (apply (Hflag _ _ _ Hp); eauto). subst sub.
    assert (Hd' : (depth s' <= f)%nat).
    { rewrite depth_node in Hd. pose proof (depth_sub _ _ _ Es). lia. }
    unfold leaf_event, add_log, set_obj. cbn [loc matches obj dport log].
    edestruct (IH s' (snipk name m) args) as [dp E];
      [eapply Hsubs; eassumption | exact Hd' | now apply addr_chars_snip | now apply byte_str_snip
       | | apply app_nonempty; exact Hl | rewrite E]; [reflexivity|].
    cbn [loc matches obj dport log]. eexists. unfold restore. cbn [loc set_obj].
    unfold set_loc. cbn [loc matches obj dport log]. rewrite firstn_app_exact.
    f_equal; try (cbn [rev]; rewrite <- app_assoc; reflexivity);
      try (rewrite leaf_count_cons; cbn [counts]; lia).
  - (* a leaf: subs holds None *)
    assert (Hsub : sub = false).
    { destruct sub; [|reflexivity]. destruct (proj1 (Hflag _ _ _ Hp) eq_refl) as [s' E]. congruence. }
    subst sub. unfold leaf_event, add_log, set_obj, restore, set_loc. cbn [loc matches obj dport log].
    rewrite firstn_app_exact. eexists. f_equal; try reflexivity;
      try (rewrite leaf_count_cons; cbn [counts leaf_count fold_right]; lia).
  - assert (Hsub : sub = false).
    { destruct sub; [|reflexivity]. destruct (proj1 (Hflag _ _ _ Hp) eq_refl) as [s' E]. congruence. }
    subst sub. unfold leaf_event, add_log, set_obj, restore, set_loc. cbn [loc matches obj dport log].
    rewrite firstn_app_exact. eexists. f_equal; try reflexivity;
      try (rewrite leaf_count_cons; cbn [counts leaf_count fold_right]; lia).
Qed.

Definition hit_in_table (T : table) (h : hit) : Prop :=
  let '(i, name, sub, _) := h in 0 <= i /\ nth_error (t_ports T) (Z.to_nat i) = Some (name, sub).

Lemma scan_hits_in_table : forall T m args h,
  In h (scan_hits (t_ports T) 0 m args) -> hit_in_table T h.
Proof.
  intros T m args [[[i name] sub] pe] Hin. apply scan_hits_in in Hin as (n & -> & E & _).
  cbn. split; [lia|]. now rewrite Nat2Z.id.
Qed.

Lemma fold_steps_loc : forall f t args, run_loc_ok f -> tree_ok t -> (depth t <= S f)%nat ->
  forall m l obj0, addr_chars m -> byte_str m -> l <> [] ->
  forall hits, (forall h, In h hits -> hit_in_table (tab_of t) h) ->
  forall s, loc s = Some l -> obj s = obj0 ->
  exists dp,
    fold_left (step_loc (tree_cb f t args) (t_id (tab_of t)) m obj0 l) hits s =
    {| loc := Some l;
       matches := matches s + leaf_count (flat_map (visit (spec_run f) t m args obj0 (Some l)) hits);
       obj := obj0; dport := dp;
       log := rev (flat_map (visit (spec_run f) t m args obj0 (Some l)) hits) ++ log s |}.
Proof.
  intros f t args IH Hok Hd m l obj0 Hm H7 Hl hits.
  induction hits as [|h r IHr]; intros Hin s Ls Os.
  - exists (dport s). destruct s as [a b c d e]. cbn in *. subst. f_equal. unfold leaf_count. cbn. lia.
  - cbn [fold_left flat_map].
    destruct h as [[[i name] sub] pe].
    destruct (Hin _ (or_introl eq_refl)) as [Hi Hp].
    destruct (visit_step_loc f t args IH Hok Hd m l obj0 i name sub pe s Hm H7 Hl Ls Os Hi Hp) as [dp E].
    rewrite E. edestruct IHr as [dp' E']; [intros h' Hh; apply Hin; now right | | | rewrite E'];
      [reflexivity | reflexivity |].
    cbn [matches log]. exists dp'. f_equal.
    + rewrite leaf_count_app. lia.
    + rewrite rev_app_distr, <- app_assoc. reflexivity.
Qed.

Lemma upto_colon_key : forall key T', ~ In 58 key -> (T' = [] \/ exists X, T' = 58 :: X) ->
  upto_colon (key ++ T') = key.
Proof.
  induction key as [|c key IH]; intros T' N HT.
  - destruct HT as [->|[X ->]]; reflexivity.
  - cbn. destruct (c =? 58) eqn:E; [apply Z.eqb_eq in E; subst; exfalso; apply N; now left|].
    f_equal. apply IH; [intros H; apply N; now right | assumption].
Qed.

Lemma tables_of_no_hash : forall T H name sub n,
  tables_of T = Some H -> nth_error (t_ports T) n = Some (name, sub) -> is_pattern name = false.
Proof.
  intros T H name sub n HT E. unfold tables_of in HT.
  destruct (existsb (fun p => is_pattern (fst p)) (t_ports T)) eqn:X; [discriminate|].
  apply not_true_iff_false. intros M. apply not_true_iff_false in X. apply X.
  apply existsb_exists. exists (name, sub). split; [eapply nth_error_In; eassumption | exact M].
Qed.

(* on a literal name the hashed branch appends what the linear one appends *)
Lemma step_hashed_is_step_loc : forall cb tid m obj0 old st i name sub pe,
  lit_port name -> is_pattern name = false -> loc st = Some old ->
  step_hashed cb tid m obj0 old st i name sub = step_loc cb tid m obj0 old st (i, name, sub, pe).
Proof.
  intros cb tid m obj0 old st i name sub pe (k & sb & tys & -> & Hwf & Hk) H35 L.
  unfold step_hashed, step_loc. rewrite H35.
  assert (L1 : loc (if sub then st else inc_matches st) = Some old) by (destruct sub; exact L).
  rewrite L1. rewrite split_literal by assumption. cbn [fst].
  rewrite render_mkp, upto_colon_key; [reflexivity | now destruct (key_no_colon _ _ _ Hwf) |].
  destruct Hwf as (_ & _ & _ & Ht). cbn [types mkp] in Ht.
  destruct (render_types_shape _ Ht); auto.
Qed.

Lemma depth_pos : forall t, (1 <= depth t)%nat.
Proof. intros [T subs]. rewrite depth_node. lia. Qed.

(* ---- the descent with location buffer ------------------------------------- *)
Theorem run_loc : forall f, run_loc_ok f.
Proof.
  induction f as [|f IH]; intros t m args st l Hok Hd Hm H7 Ls Hl.
  { pose proof (depth_pos t). lia. }
  rewrite dispatch_f_S. unfold dispatch_table. cbn [spec_run].
  destruct st as [lc mt ob dp lg]. cbn [loc obj matches log] in *. subst lc.
  destruct l as [|c l']; [congruence|]. set (l := c :: l') in *.
  unfold set_loc. cbn [loc matches obj dport log].
  pose proof Hok as Hok'. destruct t as [T subs]. inversion Hok' as [? ? Hflag Htab Hsubs]; subst.
  cbn [tab_of] in *.
  destruct (tables_of T) as [H|] eqn:HT.
  - (* hashed *)
    destruct Htab as [?|[Hlit Hassoc]]; [discriminate|].
    pose proof (hashed_hits T H m args HT Hlit Hassoc Hm H7) as HH.
    rewrite lookup_loc_hit.
    destruct (lookup_hit T H m args) as [| |j name sub]; [contradiction| |].
    + rewrite HH. destruct (t_dflt T).
      * exists dp. unfold call_default, tree_dh, inc_matches, add_log, set_obj.
        cbn [loc matches obj dport log tab_of]. f_equal.
      * exists dp. f_equal. unfold leaf_count. cbn. lia.
    + destruct HH as [pe HH]. rewrite HH.
      assert (Hin : hit_in_table T (j, name, sub, pe)).
      { apply (scan_hits_in_table T m args). rewrite HH. now left. }
      destruct Hin as [Hj Hp].
      assert (LP : lit_port name).
      { unfold lit_table in Hlit. rewrite Forall_forall in Hlit.
        apply nth_error_In in Hp. exact (Hlit _ Hp). }
      rewrite (step_hashed_is_step_loc _ _ _ _ l {| loc := Some l; matches := mt; obj := ob; dport := dp; log := lg |}
                 _ _ _ pe LP (tables_of_no_hash _ _ _ _ _ HT Hp) eq_refl).
      destruct (visit_step_loc f (Node T subs) args IH Hok Hd m l ob j name sub pe
                  {| loc := Some l; matches := mt; obj := ob; dport := dp; log := lg |}
                  Hm H7 Hl eq_refl eq_refl Hj Hp) as [dp' E].
      cbn [tab_of] in E. rewrite E. cbn [flat_map matches log]. rewrite app_nil_r. eauto.
  - (* linear *)
    rewrite scan_loc_fold, (any_match_hits (t_ports T) 0 m args).
    edestruct (fold_steps_loc f (Node T subs) args IH Hok Hd m l ob Hm H7 Hl
                 (scan_hits (t_ports T) 0 m args)) as [dp' E];
      [intros h Hh; eapply scan_hits_in_table; eassumption | | | cbn [tab_of] in E; rewrite E];
      [reflexivity | reflexivity |].
    cbn [matches log].
    destruct (scan_hits (t_ports T) 0 m args) as [|h0 hr]; [|exists dp'; reflexivity].
    cbn [flat_map rev app]. destruct (t_dflt T).
    + exists dp'. unfold call_default, tree_dh, inc_matches, add_log, set_obj.
      cbn [loc matches obj dport log tab_of]. f_equal; try reflexivity; unfold leaf_count; cbn; lia.
    + exists dp'. f_equal; try reflexivity; unfold leaf_count; cbn; lia.
Qed.

(* ---- the descent without location buffer ----------------------------------- *)
Definition run_noloc_ok (f : nat) : Prop :=
  forall t m args st, (depth t <= f)%nat -> loc st = None ->
    exists dp, dispatch_f f t m args false st =
      {| loc := None; matches := matches st; obj := obj st; dport := dp;
         log := rev (spec_run f t m args (obj st) None) ++ log st |}.

Lemma visit_step_noloc : forall f t args, run_noloc_ok f -> (depth t <= S f)%nat ->
  forall m obj0 i name sub pe s,
  loc s = None -> obj s = obj0 -> 0 <= i ->
  nth_error (t_ports (tab_of t)) (Z.to_nat i) = Some (name, sub) ->
  exists dp,
    step_noloc (tree_cb f t args) (t_id (tab_of t)) m obj0 s (i, name, sub, pe) =
    {| loc := None; matches := matches s; obj := obj0; dport := dp;
       log := rev (visit (spec_run f) t m args obj0 None (i, name, sub, pe)) ++ log s |}.
Proof.
  intros f t args IH Hd m obj0 i name sub pe s Ls Os Hi Hp.
  destruct t as [T subs]. cbn [tab_of subs_of] in *.
  unfold step_noloc, visit, tree_cb, is_leaf. cbn [tab_of subs_of option_map]. rewrite Hp.
  destruct s as [lc mt ob dp lg]. cbn [loc obj] in *. subst lc ob.
  destruct (nth_error subs (Z.to_nat i)) as [[s'|]|] eqn:Es.
  - assert (Hd' : (depth s' <= f)%nat).
    { rewrite depth_node in Hd. pose proof (depth_sub _ _ _ Es). lia. }
    unfold leaf_event, add_log, set_obj, set_port. cbn [loc matches obj dport log].
    edestruct (IH s' (snipk name m) args) as [dp' E]; [exact Hd' | | rewrite E]; [reflexivity|].
    cbn [loc matches obj dport log]. eexists. f_equal. cbn [rev]. rewrite <- app_assoc. reflexivity.
  - unfold leaf_event, add_log, set_obj, set_port. cbn [loc matches obj dport log]. eexists. reflexivity.
  - unfold leaf_event, add_log, set_obj, set_port. cbn [loc matches obj dport log]. eexists. reflexivity.
Qed.

Theorem run_noloc : forall f, run_noloc_ok f.
Proof.
  induction f as [|f IH]; intros t m args st Hd Ls.
  { pose proof (depth_pos t). lia. }
  rewrite dispatch_f_S. unfold dispatch_table. rewrite Ls. cbn [spec_run].
  rewrite scan_noloc_fold, (any_match_hits (t_ports (tab_of t)) 0 m args).
  assert (G : forall hits, (forall h, In h hits -> hit_in_table (tab_of t) h) ->
            forall s, loc s = None -> obj s = obj st ->
            exists dp, fold_left (step_noloc (tree_cb f t args) (t_id (tab_of t)) m (obj st)) hits s =
              {| loc := None; matches := matches s; obj := obj st; dport := dp;
                 log := rev (flat_map (visit (spec_run f) t m args (obj st) None) hits) ++ log s |}).
  { induction hits as [|h r IHr]; intros Hin s L0 O0.
    - exists (dport s). destruct s; cbn in *; subst; reflexivity.
    - cbn [fold_left flat_map]. destruct h as [[[i name] sub] pe].
      destruct (Hin _ (or_introl eq_refl)) as [Hi Hp].
      destruct (visit_step_noloc f t args IH Hd m (obj st) i name sub pe s L0 O0 Hi Hp) as [dp E].
      rewrite E. edestruct IHr as [dp' E']; [intros h' Hh; apply Hin; now right | | | rewrite E'];
        [reflexivity | reflexivity |].
      cbn [matches log]. exists dp'. f_equal. rewrite rev_app_distr, <- app_assoc. reflexivity. }
  destruct (G (scan_hits (t_ports (tab_of t)) 0 m args)
              (fun h Hh => scan_hits_in_table _ _ _ _ Hh) st Ls eq_refl) as [dp E].
  rewrite E.
  destruct (scan_hits (t_ports (tab_of t)) 0 m args) as [|h0 hr]; [|exists dp; reflexivity].
  cbn [flat_map rev app]. destruct (t_dflt (tab_of t)); exists dp; [|reflexivity].
  unfold call_default_noloc, tree_dh, add_log, set_obj. cbn [loc matches obj dport log]. reflexivity.
Qed.

(* ---- a root dispatch -------------------------------------------------------- *)
Definition strip (m : str) : str :=
  match m with c :: t => if c =? 47 then t else m | [] => m end.

Definition base_state (st : dstate) : dstate :=
  {| loc := match loc st with Some _ => Some [47] | None => None end;
     matches := 0; obj := obj st; dport := dport st; log := log st |}.

Lemma dispatch_table_base : forall cb dh T m args st,
  dispatch_table cb dh T m args true st = dispatch_table cb dh T (strip m) args false (base_state st).
Proof.
  intros cb dh T m args [lc mt ob dp lg]. unfold dispatch_table, base_state, strip, set_matches, set_loc.
  cbn [loc matches obj dport log]. destruct lc as [l|]; reflexivity.
Qed.

(* the events a root dispatch must produce *)
Definition spec_events (t : tree) (m args : str) (o : Z) (with_loc : bool) : list event :=
  spec_run (depth t) t (strip m) args o (if with_loc then Some [47] else None).

Theorem dispatch_with_loc : forall t m args o,
  tree_ok t -> addr_chars (strip m) -> byte_str (strip m) ->
  exists dp, dispatch t m args true o =
    {| loc := Some [47]; matches := leaf_count (spec_events t m args o true); obj := o;
       dport := dp; log := rev (spec_events t m args o true) |}.
Proof.
  intros t m args o Hok Hm H7. unfold dispatch, spec_events.
  destruct (depth t) as [|f] eqn:D; [pose proof (depth_pos t); lia|].
  rewrite dispatch_f_S, dispatch_table_base, <- dispatch_f_S.
  destruct (run_loc (S f) t (strip m) args (base_state (init_state true o)) [47]
              Hok ltac:(lia) Hm H7 eq_refl ltac:(discriminate)) as [dp E].
  rewrite E. exists dp. cbn [base_state init_state loc matches obj dport log]. f_equal; try lia; try apply app_nil_r.
Qed.

Theorem dispatch_without_loc : forall t m args o,
  exists dp, dispatch t m args false o =
    {| loc := None; matches := 0; obj := o; dport := dp;
       log := rev (spec_events t m args o false) |}.
Proof.
  intros t m args o. unfold dispatch, spec_events.
  destruct (depth t) as [|f] eqn:D; [pose proof (depth_pos t); lia|].
  rewrite dispatch_f_S, dispatch_table_base, <- dispatch_f_S.
  destruct (run_noloc (S f) t (strip m) args (base_state (init_state false o))
              ltac:(lia) eq_refl) as [dp E].
  rewrite E. exists dp. cbn [base_state init_state loc matches obj dport log]. f_equal; try apply app_nil_r.
Qed.

(* ======================================================================== *)
(* corollaries about the list of events                                      *)
(* ======================================================================== *)
(* ---- each callback sees its own port -------------------------------------- *)
Definition ev_port_ok (e : event) : Prop :=
  match e with Ev tid i _ _ _ p _ => p = Some (tid, i) | _ => True end.

Lemma spec_run_port : forall f t m args o p, Forall ev_port_ok (spec_run f t m args o p).
Proof.
  induction f as [|f IH]; intros t m args o p; [repeat constructor|].
  cbn [spec_run].
  assert (G : forall hits, Forall ev_port_ok (flat_map (visit (spec_run f) t m args o p) hits)).
  { intros hits. apply Forall_forall. intros e He. apply in_flat_map in He as ([[[i name] sub] pe] & _ & He).
    unfold visit in He. destruct He as [<-|He]; [reflexivity|].
    destruct (nth_error (subs_of t) (Z.to_nat i)) as [[s|]|]; try contradiction.
    specialize (IH s (snipk name m) args (child_obj o (t_id (tab_of t)) i (port_index name m))
                   (option_map (fun l => l ++ app_of name m pe) p)).
    rewrite Forall_forall in IH. now apply IH. }
  destruct (scan_hits (t_ports (tab_of t)) 0 m args) eqn:E; [|rewrite <- E; apply G].
  destruct (t_dflt (tab_of t)); repeat constructor.
Qed.

(* ---- with and without location buffer: the same callbacks ------------------ *)
Definition strip_ev (e : event) : list event :=
  match e with
  | Ev a b c d _ p lf => [Ev a b c d None p lf]
  | EvDefault a c d _ => [EvDefault a c d None]
  | EvError => [EvError]
  end.
Definition strip_loc (l : list event) : list event := flat_map strip_ev l.

Lemma strip_loc_app : forall a b, strip_loc (a ++ b) = strip_loc a ++ strip_loc b.
Proof. intros. apply flat_map_app. Qed.

Lemma spec_run_strategy : forall f t m args o l,
  strip_loc (spec_run f t m args o (Some l)) = spec_run f t m args o None.
Proof.
  induction f as [|f IH]; intros t m args o l; [reflexivity|]. cbn [spec_run].
  assert (G : forall hits, strip_loc (flat_map (visit (spec_run f) t m args o (Some l)) hits)
                           = flat_map (visit (spec_run f) t m args o None) hits).
  { induction hits as [|[[[i name] sub] pe] r IHr]; [reflexivity|].
    cbn [flat_map]. rewrite strip_loc_app, IHr. f_equal.
    unfold visit. cbn [option_map strip_loc flat_map strip_ev app]. f_equal.
    destruct (nth_error (subs_of t) (Z.to_nat i)) as [[s|]|]; [|reflexivity|reflexivity].
    apply IH. }
  destruct (scan_hits (t_ports (tab_of t)) 0 m args) eqn:E; [|rewrite <- E; apply G].
  destruct (t_dflt (tab_of t)); reflexivity.
Qed.

(* ---- one message, one leaf -------------------------------------------------- *)
(* port n of the table is the only one whose name matches m *)
Definition sole_match (T : table) (n : nat) (m args : str) (name : str) (sub : bool) (pe : str) : Prop :=
  nth_error (t_ports T) n = Some (name, sub) /\
  rtosc_match name m args = Some (true, Some pe) /\
  forall n' name' sub', n' <> n -> nth_error (t_ports T) n' = Some (name', sub') ->
     forall pe', rtosc_match name' m args <> Some (true, Some pe').

Lemma scan_hits_sole : forall ports i m args n name sub pe,
  nth_error ports n = Some (name, sub) -> rtosc_match name m args = Some (true, Some pe) ->
  (forall n' name' sub', n' <> n -> nth_error ports n' = Some (name', sub') ->
     forall pe', rtosc_match name' m args <> Some (true, Some pe')) ->
  scan_hits ports i m args = [(i + Z.of_nat n, name, sub, pe)].
Proof.
  induction ports as [|[nm sb] r IH]; intros i m args n name sub pe E M U; [destruct n; discriminate|].
  cbn [scan_hits]. destruct n as [|n]; cbn in E.
  - inversion E; subst. rewrite M.
    assert (scan_hits r (i + 1) m args = []).
    { destruct (scan_hits r (i + 1) m args) as [|[[[j n1] s1] p1] rest] eqn:Er; [reflexivity|]. exfalso.
      assert (Hin : In (j, n1, s1, p1) (scan_hits r (i + 1) m args)) by (rewrite Er; now left).
      apply scan_hits_in in Hin as (k & _ & Ek & Mk). exact (U (S k) n1 s1 ltac:(lia) Ek p1 Mk). }
    rewrite H. cbn. f_equal. f_equal. f_equal. f_equal. lia.
  - destruct (rtosc_match_shape nm m args) as [[pe0 E0]|[x E0]].
    + exfalso. exact (U O nm sb ltac:(lia) eq_refl pe0 E0).
    + rewrite E0. cbn [app]. rewrite (IH (i + 1) m args n name sub pe E M).
      * f_equal. f_equal. f_equal. f_equal. lia.
      * intros n' name' sub' Hn En. apply (U (S n') name' sub'); [lia | exact En].
Qed.

(* the chain of callbacks along a path of port indices *)
Fixpoint chain (path : list nat) (t : tree) (m args : str) (o : Z) (p : option str) : list event :=
  match path with
  | [] => []
  | n :: rest =>
      let T := tab_of t in
      match nth_error (t_ports T) n with
      | None => []
      | Some (name, _) =>
          let i := Z.of_nat n in
          let pe := match rtosc_match name m args with Some (_, Some pe) => pe | _ => [] end in
          let l' := option_map (fun l => l ++ app_of name m pe) p in
          Ev (t_id T) i m o l' (Some (t_id T, i)) (is_leaf t i) ::
          match nth_error (subs_of t) n with
          | Some (Some s) =>
              chain rest s (snipk name m) args
                    (child_obj o (t_id T) i (port_index name m)) l'
          | _ => []
          end
      end
  end.

(* m is addressed to the leaf at the end of path: at every level exactly the
   port on the path matches, and the path ends at a port without sub-ports *)
Fixpoint addressed (path : list nat) (t : tree) (m args : str) : Prop :=
  match path with
  | [] => False
  | n :: rest =>
      exists name sub pe, sole_match (tab_of t) n m args name sub pe /\
        match nth_error (subs_of t) n with
        | Some (Some s) => addressed rest s (snipk name m) args
        | _ => rest = []
        end
  end.

Lemma spec_run_chain : forall path f t m args o p,
  (depth t <= f)%nat -> addressed path t m args ->
  flat_map (visit (spec_run (pred f)) t m args o p) (scan_hits (t_ports (tab_of t)) 0 m args)
  = chain path t m args o p.
Proof.
  induction path as [|n rest IH]; intros f t m args o p Hd Ha; [contradiction|].
  cbn [addressed] in Ha. destruct Ha as (name & sub & pe & (En & M & U) & Hrest).
  rewrite (scan_hits_sole _ 0 m args n name sub pe En M U). cbn [flat_map chain].
  rewrite app_nil_r, En, M. unfold visit. replace (0 + Z.of_nat n) with (Z.of_nat n) by lia.
  rewrite Nat2Z.id. f_equal.
  destruct t as [T subs]. cbn [subs_of tab_of] in *.
  destruct (nth_error subs n) as [[s|]|] eqn:Es; [|reflexivity|reflexivity].
  assert (Hs : (depth s <= pred f)%nat).
  { rewrite depth_node in Hd. pose proof (depth_sub _ _ _ Es). lia. }
  destruct (pred f) as [|g] eqn:G; [pose proof (depth_pos s); lia|].
  cbn [spec_run].
  specialize (IH (S g) s (snipk name m) args
    (child_obj o (t_id T) (Z.of_nat n) (port_index name m))
    (option_map (fun l => l ++ app_of name m pe) p) Hs Hrest). cbn [pred] in IH.
  destruct (scan_hits (t_ports (tab_of s)) 0 (snipk name m) args) eqn:Eh; [|exact IH].
  (* no hit below although the path goes on: impossible *)
  exfalso. destruct rest as [|n2 rest2]; [contradiction|].
  cbn [addressed] in Hrest. destruct Hrest as (nm2 & sb2 & pe2 & (En2 & M2 & U2) & _).
  rewrite (scan_hits_sole _ 0 (snipk name m) args n2 nm2 sb2 pe2 En2 M2 U2) in Eh. discriminate.
Qed.

Lemma spec_run_addressed : forall path f t m args o p,
  (depth t <= f)%nat -> addressed path t m args ->
  spec_run f t m args o p = chain path t m args o p.
Proof.
  intros path f t m args o p Hd Ha. destruct f as [|g]; [pose proof (depth_pos t); lia|].
  cbn [spec_run]. rewrite <- (spec_run_chain path (S g) t m args o p Hd Ha). cbn [pred].
  destruct path as [|n rest]; [contradiction|]. cbn [addressed] in Ha.
  destruct Ha as (name & sub & pe & (En & M & U) & _).
  rewrite (scan_hits_sole _ 0 m args n name sub pe En M U). reflexivity.
Qed.

Lemma chain_one_leaf : forall path t m args o p,
  addressed path t m args ->
  leaf_count (chain path t m args o p) = 1 /\ length (chain path t m args o p) = length path.
Proof.
  induction path as [|n rest IH]; intros t m args o p Ha; [contradiction|].
  cbn [addressed] in Ha. destruct Ha as (name & sub & pe & (En & M & U) & Hrest).
  cbn [chain]. rewrite En. unfold is_leaf. rewrite Nat2Z.id.
  destruct (nth_error (subs_of t) n) as [[s|]|].
  - destruct (IH s (snipk name m) args
               (child_obj o (t_id (tab_of t)) (Z.of_nat n) (port_index name m))
               (option_map (fun l => l ++ app_of name m
                   (match rtosc_match name m args with Some (_, Some pe) => pe | _ => [] end)) p) Hrest)
      as [C L].
    rewrite leaf_count_cons. cbn [counts length]. split; [lia | now rewrite L].
  - subst rest. split; reflexivity.
  - subst rest. split; reflexivity.
Qed.

(* ---- loc holds the full address -------------------------------------------- *)
Definition no_alt (p : pat) : Prop :=
  Forall (fun s => match s with Alt _ => False | _ => True end) (segs p).
(* alternatives are text of one address component: no '/' (SNIP counts the
   '/' of the NAME) and no ':' (the name's path ends at its first ':') *)
Definition alt_plain_seg (s : seg) : Prop :=
  match s with Alt a => Forall (fun x => ~ In 47 x /\ ~ In 58 x) a | _ => True end.
Definition alts_plain (p : pat) : Prop := Forall alt_plain_seg (segs p).
Definition no_slash (p : pat) : Prop :=
  Forall (fun s => match s with Lit k => ~ In 47 k | _ => True end) (segs p).

(* names of the documented form: literal text, #N and {a,b,..} (alternatives
   without '/' and ':'), any number of address components ("a#2/b#3/", "x/y/",
   "a#2/k#2:i", "{on,off}/", "p{q,r}#2:i"); a port with sub-ports has a
   trailing '/', a leaf has none *)
Inductive names_ok : tree -> Prop :=
| NamesOk : forall T subs,
    (forall n name sub, nth_error (t_ports T) n = Some (name, sub) ->
       exists p, name = render p /\ wf_pat p /\ alts_plain p /\
         match nth_error subs n with
         | Some (Some _) => subtree p = true
         | _ => subtree p = false
         end) ->
    (forall n s, nth_error subs n = Some (Some s) -> names_ok s) ->
    names_ok (Node T subs).

Lemma rtosc_match_path_ret : forall p m a pe,
  rtosc_match p m a = Some (true, Some pe) -> exists r, match_path p m = MRet r pe.
Proof.
  intros p m a pe H. unfold rtosc_match in H.
  destruct (match_path p m) as [|r pe'|]; [discriminate| |discriminate].
  exists r. destruct (hd0 r =? 58); inversion H; reflexivity.
Qed.

Lemma mem_app : forall c a b, mem c (a ++ b) = mem c a || mem c b.
Proof. intros. unfold mem. apply existsb_app. Qed.

Lemma spells_lits : forall l x, spells l x ->
  Forall (fun s => match s with Lit _ => True | _ => False end) l -> x = render_segs l.
Proof.
  induction 1 as [|s r x y Hs Sp IH]; intros Hl; [reflexivity|].
  inversion Hl; subst. rewrite render_segs_cons. f_equal; [|now apply IH].
  destruct Hs; cbn in *; try contradiction. reflexivity.
Qed.

Lemma no_hash_lits : forall l, mem 35 (render_segs l) = false ->
  Forall (fun s => match s with Alt _ => False | _ => True end) l ->
  Forall (fun s => match s with Lit _ => True | _ => False end) l.
Proof.
  induction l as [|s r IH]; intros H Ha; [constructor|]. inversion Ha as [|? ? Hs Hr]; subst.
  rewrite render_segs_cons, mem_app in H. apply orb_false_iff in H as [M1 M2].
  constructor; [|now apply IH]. destruct s as [k|ds|a]; [exact I | cbn in M1; discriminate | contradiction].
Qed.

Lemma no_pattern_lits : forall l, mem 35 (render_segs l) = false -> mem 123 (render_segs l) = false ->
  Forall (fun s => match s with Lit _ => True | _ => False end) l.
Proof.
  induction l as [|s r IH]; intros H G; [constructor|].
  rewrite render_segs_cons, mem_app in H, G.
  apply orb_false_iff in H as [M1 M2]. apply orb_false_iff in G as [N1 N2].
  constructor; [|now apply IH]. destruct s as [k|ds|a]; [exact I | cbn in M1; discriminate | cbn in N1; discriminate].
Qed.

Lemma no_alt_plain : forall p, no_alt p -> alts_plain p.
Proof.
  intros p H. unfold no_alt, alts_plain in *. eapply Forall_impl; [|exact H].
  intros [k|ds|a] Hs; [exact I | exact I | contradiction].
Qed.

Lemma spells_no47 : forall l x, spells l x ->
  Forall (fun s => match s with Alt _ => False | _ => True end) l ->
  Forall (fun s => match s with Lit k => ~ In 47 k | _ => True end) l -> ~ In 47 x.
Proof.
  induction 1 as [|s r x y Hs Sp IH]; intros Ha Hn; [intros []|].
  inversion Ha; subst. inversion Hn; subst. intros Hin. apply in_app_or in Hin as [Hin|Hin].
  - destruct Hs as [k|ds x Hne Hd Hlt|a x Hx]; [contradiction | | contradiction].
    unfold digits in Hd. rewrite Forall_forall in Hd. specialize (Hd _ Hin). discriminate.
  - now apply IH.
Qed.

Lemma snip_app_noslash : forall x r, ~ In 47 x -> snip (x ++ 47 :: r) = r.
Proof.
  induction x as [|c x IH]; intros r N; [reflexivity|]. cbn.
  destruct (c =? 47) eqn:E; [apply Z.eqb_eq in E; subst; exfalso; apply N; now left|].
  apply IH. intros H. apply N. now right.
Qed.

Lemma segs_no_colon : forall l, Forall seg_ok l ->
  Forall (fun s => match s with Lit _ => True | _ => False end) l -> ~ In 58 (render_segs l).
Proof.
  induction l as [|s r IH]; intros Hs Hl; [intros []|].
  inversion Hs; subst. inversion Hl; subst. rewrite render_segs_cons. intros Hin.
  apply in_app_or in Hin as [Hin|Hin]; [|now apply IH].
  destruct s as [k| |]; try contradiction. cbn in Hin. destruct H1 as [_ Hk].
  rewrite Forall_forall in Hk. destruct (Hk _ Hin) as (_ & H58 & _). congruence.
Qed.

(* a one-component name has one '/' in front of its ':' (none if it is a leaf's) *)
Lemma count_slash_app_clean : forall a b, ~ In 47 a -> ~ In 58 a -> count_slash (a ++ b) = count_slash b.
Proof.
  induction a as [|c a IH]; intros b H47 H58; [reflexivity|]. cbn [app count_slash].
  destruct (c =? 58) eqn:E1; [apply Z.eqb_eq in E1; subst; exfalso; apply H58; now left|].
  destruct (c =? 47) eqn:E2; [apply Z.eqb_eq in E2; subst; exfalso; apply H47; now left|].
  apply IH; intros H; [apply H47 | apply H58]; now right.
Qed.

Lemma render_segs_clean : forall l, Forall seg_ok l ->
  Forall (fun s => match s with Alt _ => False | _ => True end) l ->
  Forall (fun s => match s with Lit k => ~ In 47 k | _ => True end) l ->
  ~ In 47 (render_segs l) /\ ~ In 58 (render_segs l).
Proof.
  induction l as [|s r IH]; intros Hs Ha Hn; [split; intros []|].
  inversion Hs as [|? ? Hs1 Hsr]; subst. inversion Ha as [|? ? Ha1 Har]; subst. inversion Hn as [|? ? Hn1 Hnr]; subst.
  destruct (IH Hsr Har Hnr) as [I47 I58]. rewrite render_segs_cons.
  assert (H1 : ~ In 47 (render_seg s) /\ ~ In 58 (render_seg s)).
  { destruct s as [k|ds|a]; [| |contradiction]; cbn [render_seg].
    - split; [exact Hn1|]. destruct Hs1 as [_ Hk]. rewrite Forall_forall in Hk. intros Hin.
      destruct (Hk _ Hin) as (_ & H58 & _). congruence.
    - destruct Hs1 as (_ & Hd & _). unfold digits in Hd. rewrite Forall_forall in Hd.
      split; intros [E|Hin]; try discriminate; specialize (Hd _ Hin); discriminate. }
  destruct H1 as [A B]. split; intros Hin; apply in_app_or in Hin as [Hin|Hin]; auto.
Qed.

Lemma count_slash_render : forall p, wf_pat p -> no_alt p -> no_slash p ->
  count_slash (render p) = if subtree p then 1%nat else 0%nat.
Proof.
  intros p Hwf Ha Hn. destruct Hwf as (Hs & _ & _ & Ht).
  destruct (render_segs_clean (segs p) Hs Ha Hn) as [A B].
  unfold render, render_tail. rewrite count_slash_app_clean by assumption.
  destruct (render_types_shape (types p) Ht) as [->|[X ->]]; destruct (subtree p); reflexivity.
Qed.

(* ---- names of several components: SNIP strips what the name matched -------- *)
Fixpoint cnt47 (s : str) : nat :=
  match s with
  | [] => O
  | c :: t => if c =? 47 then S (cnt47 t) else cnt47 t
  end.

Lemma cnt47_app : forall a b, cnt47 (a ++ b) = (cnt47 a + cnt47 b)%nat.
Proof.
  induction a as [|c a IH]; intros b; [reflexivity|]. cbn [app cnt47].
  destruct (c =? 47); rewrite IH; reflexivity.
Qed.

Lemma cnt47_digits : forall x, digits x -> cnt47 x = O.
Proof.
  induction x as [|c x IH]; intros H; [reflexivity|]. inversion H as [|? ? Hc Hx]; subst.
  cbn [cnt47]. destruct (c =? 47) eqn:E; [apply Z.eqb_eq in E; subst; discriminate|]. now apply IH.
Qed.

(* one round of SNIP per '/' of the matched text, and one for the '/' behind it *)
Lemma snipn_cnt : forall x r, snipn (S (cnt47 x)) (x ++ 47 :: r) = r.
Proof.
  induction x as [|c x IH]; intros r; [reflexivity|].
  cbn [app cnt47]. destruct (c =? 47) eqn:E.
  - cbn [snipn snip]. rewrite E. exact (IH r).
  - specialize (IH r). cbn [snipn] in IH |- *. cbn [snip]. rewrite E. exact IH.
Qed.

Lemma count_slash_app_nocolon : forall a b, ~ In 58 a -> count_slash (a ++ b) = (cnt47 a + count_slash b)%nat.
Proof.
  induction a as [|c a IH]; intros b H58; [reflexivity|]. cbn [app count_slash cnt47].
  destruct (c =? 58) eqn:E1; [apply Z.eqb_eq in E1; subst; exfalso; apply H58; now left|].
  rewrite IH by (intros H; apply H58; now right).
  destruct (c =? 47); reflexivity.
Qed.

Lemma join_alts_in : forall a c, In c (join_alts a) -> c = 44 \/ exists x, In x a /\ In c x.
Proof.
  induction a as [|x r IH]; intros c Hin; [contradiction|].
  destruct r as [|y r'].
  - right. exists x. split; [now left | exact Hin].
  - change (join_alts (x :: y :: r')) with (x ++ 44 :: join_alts (y :: r')) in Hin.
    apply in_app_or in Hin as [Hin|[E|Hin]].
    + right. exists x. split; [now left | exact Hin].
    + left. now symmetry.
    + destruct (IH c Hin) as [E|(z & Hz & Hc)]; [now left|]. right. exists z. split; [now right | exact Hc].
Qed.

(* the text of a group of plain alternatives holds neither '/' nor ':' *)
Lemma render_alt_plain : forall a, alt_plain_seg (Alt a) ->
  ~ In 47 (render_seg (Alt a)) /\ ~ In 58 (render_seg (Alt a)).
Proof.
  intros a Hp. cbn [alt_plain_seg] in Hp. rewrite Forall_forall in Hp. cbn [render_seg].
  split; intros [E|Hin]; try discriminate; apply in_app_or in Hin as [Hin|[E|[]]]; try discriminate;
    destruct (join_alts_in _ _ Hin) as [E|(x & Hx & Hc)]; try discriminate;
    destruct (Hp _ Hx) as [A B]; contradiction.
Qed.

Lemma cnt47_none : forall x, ~ In 47 x -> cnt47 x = O.
Proof.
  induction x as [|c x IH]; intros H; [reflexivity|]. cbn [cnt47].
  destruct (c =? 47) eqn:E; [apply Z.eqb_eq in E; subst; exfalso; apply H; now left|].
  apply IH. intros G. apply H. now right.
Qed.

Lemma render_segs_no58_p : forall l, Forall seg_ok l -> Forall alt_plain_seg l -> ~ In 58 (render_segs l).
Proof.
  induction l as [|s r IH]; intros Hs Ha; [intros []|].
  inversion Hs as [|? ? Hs1 Hsr]; subst. inversion Ha as [|? ? Ha1 Har]; subst.
  rewrite render_segs_cons. intros Hin. apply in_app_or in Hin as [Hin|Hin]; [|now apply IH].
  destruct s as [k|ds|a].
  - cbn [render_seg] in Hin. destruct Hs1 as [_ Hk]. rewrite Forall_forall in Hk.
    destruct (Hk _ Hin) as (_ & H58 & _). congruence.
  - cbn [render_seg] in Hin. destruct Hs1 as (_ & Hd & _). unfold digits in Hd. rewrite Forall_forall in Hd.
    destruct Hin as [E|Hin]; [discriminate|]. specialize (Hd _ Hin). discriminate.
  - now apply (proj2 (render_alt_plain a Ha1)).
Qed.

Lemma render_segs_no58 : forall l, Forall seg_ok l ->
  Forall (fun s => match s with Alt _ => False | _ => True end) l -> ~ In 58 (render_segs l).
Proof.
  intros l Hs Ha. apply render_segs_no58_p; [exact Hs|]. eapply Forall_impl; [|exact Ha].
  intros [k|ds|a] H; [exact I | exact I | contradiction].
Qed.

(* the spelled text has as many '/' as the name's path: an alternative and
   the text of its group have none *)
Lemma cnt47_spells_p : forall l x, spells l x -> Forall seg_ok l ->
  Forall alt_plain_seg l -> cnt47 x = cnt47 (render_segs l).
Proof.
  induction 1 as [|s r x y Hs Sp IH]; intros Hok Ha; [reflexivity|].
  inversion Hok as [|? ? Hs1 Hsr]; subst. inversion Ha as [|? ? Ha1 Har]; subst.
  rewrite render_segs_cons, !cnt47_app, (IH Hsr Har). f_equal.
  destruct Hs as [k|ds x Hne Hd Hlt|a x Hx]; [reflexivity | |].
  - cbn [render_seg cnt47]. replace (35 =? 47) with false by reflexivity.
    destruct Hs1 as (_ & Hds & _). rewrite (cnt47_digits _ Hd), (cnt47_digits _ Hds). reflexivity.
  - rewrite (cnt47_none (render_seg (Alt a))) by (apply (render_alt_plain a Ha1)).
    apply cnt47_none. cbn [alt_plain_seg] in Ha1. rewrite Forall_forall in Ha1. apply (Ha1 _ Hx).
Qed.

Lemma cnt47_spells : forall l x, spells l x -> Forall seg_ok l ->
  Forall (fun s => match s with Alt _ => False | _ => True end) l -> cnt47 x = cnt47 (render_segs l).
Proof.
  intros l x Sp Hs Ha. apply cnt47_spells_p; [exact Sp | exact Hs |]. eapply Forall_impl; [|exact Ha].
  intros [k|ds|a] H; [exact I | exact I | contradiction].
Qed.

Lemma count_slash_render_sub_p : forall p, wf_pat p -> alts_plain p -> subtree p = true ->
  count_slash (render p) = S (cnt47 (render_segs (segs p))).
Proof.
  intros p Hwf Ha St. destruct Hwf as (Hs & _ & _ & Ht).
  unfold render, render_tail. rewrite St.
  rewrite count_slash_app_nocolon by (now apply render_segs_no58_p).
  destruct (render_types_shape (types p) Ht) as [->|[X ->]]; cbn; lia.
Qed.

Lemma count_slash_render_sub : forall p, wf_pat p -> no_alt p -> subtree p = true ->
  count_slash (render p) = S (cnt47 (render_segs (segs p))).
Proof. intros p Hwf Ha. apply count_slash_render_sub_p; [exact Hwf | now apply no_alt_plain]. Qed.

(* the text appended to loc is the matched part of the message - for every
   name of the documented form, alternatives included *)
Lemma app_is_matched_p : forall p m pe,
  wf_pat p -> alts_plain p -> path_spec p m pe ->
  m = app_of (render p) m pe ++ pe /\
  (subtree p = false -> pe = []) /\
  (subtree p = true -> snipk (render p) m = pe).
Proof.
  intros p m pe Hwf Ha Sp. unfold path_spec in Sp.
  assert (HX : exists x, spells (segs p) x /\ m = (x ++ (if subtree p then [47] else [])) ++ pe /\
                         (subtree p = false -> pe = [])).
  { destruct (subtree p).
    - destruct Sp as (x & Sx & ->). exists x. rewrite <- app_assoc. repeat split; [assumption | discriminate].
    - destruct Sp as [Sx ->]. exists m. rewrite !app_nil_r. auto. }
  destruct HX as (x & Sx & Em & Hpe). split; [|split; [exact Hpe|]].
  - unfold app_of. destruct (is_pattern (render p)) eqn:HP.
    + rewrite Em. rewrite app_length, Nat.add_sub, firstn_app_exact. reflexivity.
    + unfold is_pattern in HP. apply orb_false_iff in HP as [H35 H123].
      unfold render in H35, H123 |- *. rewrite mem_app in H35, H123.
      apply orb_false_iff in H35 as [H35 _]. apply orb_false_iff in H123 as [H123 _].
      pose proof (no_pattern_lits _ H35 H123) as Hl. pose proof (spells_lits _ _ Sx Hl) as Ex.
      destruct Hwf as (Hs & _ & _ & Ht). unfold render_tail. rewrite app_assoc.
      rewrite upto_colon_key; [now rewrite <- Ex | | now apply render_types_shape].
      intros Hin. apply in_app_or in Hin as [Hin|Hin]; [now apply (segs_no_colon _ Hs Hl)|].
      destruct (subtree p); cbn in Hin; [destruct Hin as [Hin|[]]; discriminate | contradiction].
  - intros St. rewrite St in Em. rewrite Em, <- app_assoc. cbn [app].
    unfold snipk. rewrite (count_slash_render_sub_p p Hwf Ha St).
    rewrite <- (cnt47_spells_p _ _ Sx (proj1 Hwf) Ha).
    replace (Nat.max 1 (S (cnt47 x))) with (S (cnt47 x)) by lia.
    apply snipn_cnt.
Qed.

Lemma app_is_matched : forall p m pe,
  wf_pat p -> no_alt p -> path_spec p m pe ->
  m = app_of (render p) m pe ++ pe /\
  (subtree p = false -> pe = []) /\
  (subtree p = true -> snipk (render p) m = pe).
Proof. intros p m pe Hwf Ha. apply app_is_matched_p; [exact Hwf | now apply no_alt_plain]. Qed.

(* the recursion contract for a name of any number of components: the level
   below receives exactly what follows the text the name matched, and that
   text is what went into loc *)
Theorem snip_strips_matched_name : forall p m pe,
  wf_pat p -> alts_plain p -> subtree p = true -> path_spec p m pe ->
  snipk (render p) m = pe /\ m = app_of (render p) m pe ++ pe.
Proof.
  intros p m pe Hwf Ha St Sp. destruct (app_is_matched_p p m pe Hwf Ha Sp) as (Em & _ & Hs).
  split; [now apply Hs | exact Em].
Qed.

Definition ev_loc_ok (full : str) (e : event) : Prop :=
  match e with
  | Ev _ _ _ _ (Some le) _ leaf => (exists rest, le ++ rest = full) /\ (leaf = true -> le = full)
  | _ => True
  end.

Lemma addr_ok_suffix : forall a b, addr_ok (a ++ b) -> addr_ok b.
Proof.
  intros a b H. eapply addr_chars_suffix; exact H.
Qed.

Theorem spec_full_address : forall f t m args o l full,
  names_ok t -> (depth t <= f)%nat -> addr_ok m -> l ++ m = full ->
  Forall (ev_loc_ok full) (spec_run f t m args o (Some l)).
Proof.
  induction f as [|f IH]; intros t m args o l full Hn Hd Ham Hfull; [repeat constructor|]. subst full.
  cbn [spec_run].
  assert (G : Forall (ev_loc_ok (l ++ m))
                (flat_map (visit (spec_run f) t m args o (Some l)) (scan_hits (t_ports (tab_of t)) 0 m args))).
  { apply Forall_forall. intros e He. apply in_flat_map in He as ([[[i name] sub] pe] & Hin & He).
    apply scan_hits_in in Hin as (n & -> & En & M).
    destruct t as [T subs]. inversion Hn as [? ? Hnames Hsubs]; subst. cbn [tab_of subs_of] in *.
    destruct (Hnames _ _ _ En) as (p & -> & Hwf & Hna & Hkind).
    destruct (rtosc_match_path_ret _ _ _ _ M) as [r Mp].
    destruct (path_sound _ _ _ _ Hwf Ham Mp) as [_ Sp].
    destruct (app_is_matched_p p m pe Hwf Hna Sp) as (Em & Hleaf & Hdesc).
    unfold visit in He. cbn [tab_of subs_of option_map] in He.
    replace (Z.to_nat (0 + Z.of_nat n)) with n in He by lia.
    unfold is_leaf in He. cbn [subs_of] in He.
    replace (Z.to_nat (0 + Z.of_nat n)) with n in He by lia.
    assert (Efull : (l ++ app_of (render p) m pe) ++ pe = l ++ m).
    { rewrite <- app_assoc, <- Em. reflexivity. }
    destruct He as [<-|He].
    - cbn. split; [eauto|]. intros Lf.
      destruct (nth_error subs n) as [[s|]|]; [discriminate | |];
        pose proof (Hleaf Hkind) as Epe; subst pe; rewrite app_nil_r in Efull; exact Efull.
    - destruct (nth_error subs n) as [[s|]|] eqn:Es; try contradiction.
      specialize (Hdesc Hkind).
      assert (IHs := IH s (snipk (render p) m) args
                (child_obj o (t_id T) (0 + Z.of_nat n) (port_index (render p) m))
                (l ++ app_of (render p) m pe) (l ++ m)).
      rewrite Forall_forall in IHs. apply IHs; try assumption.
      + eapply Hsubs; eassumption.
      + rewrite depth_node in Hd. pose proof (depth_sub _ _ _ Es). lia.
      + rewrite Hdesc. apply (addr_ok_suffix (app_of (render p) m pe)). now rewrite <- Em.
      + rewrite Hdesc. exact Efull. }
  destruct (scan_hits (t_ports (tab_of t)) 0 m args) eqn:E; [|exact G].
  destruct (t_dflt (tab_of t)); repeat constructor.
Qed.

(* ======================================================================== *)
(* the property theorems for a root dispatch                                 *)
(* ======================================================================== *)
Definition root_ok (t : tree) (m : str) : Prop :=
  tree_ok t /\ addr_chars (strip m) /\ byte_str (strip m).

Theorem tree_matches_count : forall t m args o, root_ok t m ->
  let d := dispatch t m args true o in
  matches d = leaf_count (log d) /\ loc d = Some [47] /\ obj d = o.
Proof.
  intros t m args o (Hok & Hm & H7). destruct (dispatch_with_loc t m args o Hok Hm H7) as [dp E].
  cbn zeta. rewrite E. cbn [matches log loc obj]. now rewrite leaf_count_rev.
Qed.

Theorem tree_port_pointer : forall t m args o,
  Forall ev_port_ok (log (dispatch t m args false o)) /\
  (root_ok t m -> Forall ev_port_ok (log (dispatch t m args true o))).
Proof.
  intros t m args o. split.
  - destruct (dispatch_without_loc t m args o) as [dp E]. rewrite E. cbn [log].
    apply Forall_rev, spec_run_port.
  - intros (Hok & Hm & H7). destruct (dispatch_with_loc t m args o Hok Hm H7) as [dp E].
    rewrite E. cbn [log]. apply Forall_rev, spec_run_port.
Qed.

Theorem tree_strategy_independent : forall t m args o, root_ok t m ->
  strip_loc (rev (log (dispatch t m args true o))) = rev (log (dispatch t m args false o)).
Proof.
  intros t m args o (Hok & Hm & H7).
  destruct (dispatch_with_loc t m args o Hok Hm H7) as [dp E].
  destruct (dispatch_without_loc t m args o) as [dp' E'].
  rewrite E, E'. cbn [log]. rewrite !rev_involutive. apply spec_run_strategy.
Qed.

(* ---- the equalities above are not about the out-of-fuel event -------------- *)
(* spec_run returns [EvError] only at fuel 0; with fuel >= depth that branch is
   never reached, whatever the tree, the message and the object are *)
Lemma spec_run_no_error : forall f t m args o p,
  (depth t <= f)%nat -> ~ In EvError (spec_run f t m args o p).
Proof.
  induction f as [|f IH]; intros t m args o p Hd; [pose proof (depth_pos t); lia|].
  cbn [spec_run].
  assert (G : ~ In EvError (flat_map (visit (spec_run f) t m args o p)
                               (scan_hits (t_ports (tab_of t)) 0 m args))).
  { intros He. apply in_flat_map in He as ([[[i name] sub] pe] & _ & He).
    unfold visit in He. destruct He as [He|He]; [discriminate|].
    destruct t as [T subs]. cbn [subs_of tab_of] in *.
    destruct (nth_error subs (Z.to_nat i)) as [[s|]|] eqn:Es; try contradiction.
    revert He. apply IH. rewrite depth_node in Hd. pose proof (depth_sub _ _ _ Es). lia. }
  destruct (scan_hits (t_ports (tab_of t)) 0 m args) eqn:E; [|exact G].
  destruct (t_dflt (tab_of t)); [intros [H|[]]; discriminate | intros []].
Qed.

Lemma spec_events_no_error : forall t m args o b, ~ In EvError (spec_events t m args o b).
Proof. intros. unfold spec_events. apply spec_run_no_error. lia. Qed.

(* so a root dispatch never logs the model's error event (assoc read out of
   range / a match without m_end / out of fuel): with a location buffer under
   root_ok, without one for every tree and message *)
Theorem tree_no_error : forall t m args o,
  ~ In EvError (log (dispatch t m args false o)) /\
  (root_ok t m -> ~ In EvError (log (dispatch t m args true o))).
Proof.
  intros t m args o. split.
  - destruct (dispatch_without_loc t m args o) as [dp E]. rewrite E. cbn [log].
    rewrite <- in_rev. apply spec_events_no_error.
  - intros (Hok & Hm & H7). destruct (dispatch_with_loc t m args o Hok Hm H7) as [dp E].
    rewrite E. cbn [log]. rewrite <- in_rev. apply spec_events_no_error.
Qed.

(* the default handler of the root table: when no port of it matches, both
   runs log exactly its call (none if the table has no handler) - whatever
   lookup strategy the table got *)
Theorem tree_default_both_runs : forall t m args o b,
  scan_hits (t_ports (tab_of t)) 0 (strip m) args = [] ->
  spec_events t m args o b =
  if t_dflt (tab_of t)
  then [EvDefault (t_id (tab_of t)) (strip m) o (if b then Some [47] else None)] else [].
Proof.
  intros t m args o b H. unfold spec_events.
  destruct (depth t) as [|f] eqn:D; [pose proof (depth_pos t); lia|].
  cbn [spec_run]. rewrite H. reflexivity.
Qed.

(* a table without matching port runs its default handler in both runs: the
   stripped events of tree_strategy_independent include the EvDefault ones *)
Lemma strip_loc_defaults : forall l,
  length (filter (fun e => match e with EvDefault _ _ _ _ => true | _ => false end) (strip_loc l)) =
  length (filter (fun e => match e with EvDefault _ _ _ _ => true | _ => false end) l).
Proof.
  induction l as [|e l IH]; [reflexivity|]. unfold strip_loc in *. cbn [flat_map].
  rewrite filter_app, app_length, IH. destruct e; reflexivity.
Qed.

Theorem tree_loc_full_address : forall t m args o,
  root_ok t m -> names_ok t -> addr_ok (strip m) ->
  Forall (ev_loc_ok (47 :: strip m)) (log (dispatch t m args true o)).
Proof.
  intros t m args o (Hok & Hm & H7) Hn Ha.
  destruct (dispatch_with_loc t m args o Hok Hm H7) as [dp E]. rewrite E. cbn [log].
  apply Forall_rev. unfold spec_events. now apply (spec_full_address _ t (strip m) args o [47]).
Qed.

Theorem tree_exactly_one_leaf : forall path t m args o,
  root_ok t m -> addressed path t (strip m) args ->
  rev (log (dispatch t m args true o)) = chain path t (strip m) args o (Some [47]) /\
  rev (log (dispatch t m args false o)) = chain path t (strip m) args o None /\
  matches (dispatch t m args true o) = 1 /\
  leaf_count (chain path t (strip m) args o (Some [47])) = 1 /\
  length (chain path t (strip m) args o (Some [47])) = length path.
Proof.
  intros path t m args o (Hok & Hm & H7) Ha.
  destruct (dispatch_with_loc t m args o Hok Hm H7) as [dp E].
  destruct (dispatch_without_loc t m args o) as [dp' E'].
  rewrite E, E'. cbn [log matches]. rewrite !rev_involutive. unfold spec_events.
  rewrite !(spec_run_addressed path) by (assumption || lia).
  destruct (chain_one_leaf path t (strip m) args o (Some [47]) Ha) as [C L]. auto.
Qed.

(* ---- non-vacuity: the tree { a#2/ -> { b, c:i } (hashed), d } ------------ *)
Definition tab_inner : table :=
  {| t_id := 1; t_dflt := false; t_ports := [([98], false); ([99; 58; 105], false)];
     t_pos := [0]; t_assoc := repeat 0 99 ++ [1] ++ repeat 0 156 |}.
Definition tab_root : table :=
  {| t_id := 0; t_dflt := false; t_ports := [([97; 35; 50; 47], true); ([100], false)];
     t_pos := []; t_assoc := [] |}.
Definition tree_in : tree := Node tab_inner [None; None].
Definition tree_ex : tree := Node tab_root [Some tree_in; None].
(* /a1/c *)
Definition msg_ex : str := [47; 97; 49; 47; 99].

Lemma tree_ex_ok : root_ok tree_ex msg_ex /\ tables_of tab_inner <> None.
Proof.
  split; [|vm_compute; discriminate].
  split; [|split; [repeat constructor; discriminate | repeat constructor; lia]].
  constructor.
  - intros [|[|[|n]]] name sub E; cbn in E; inversion E; subst; cbn; split; intros H;
      try discriminate; try reflexivity; try (eexists; reflexivity); try (destruct H; discriminate).
  - left. vm_compute. reflexivity.
  - intros [|[|[|n]]] s E; cbn in E; inversion E; subst. constructor.
    + intros [|[|[|n]]] name sub E2; cbn in E2; inversion E2; subst; cbn; split; intros H;
        try discriminate; try reflexivity; try (destruct H; discriminate).
    + right. split.
      * unfold lit_table. cbn [t_ports tab_inner]. repeat constructor; cbn [fst].
        -- exists [98], false, None. split; [reflexivity|]. split; [unfold wf_pat, mkp; prove_wf | cbn; intuition discriminate].
        -- exists [99], false, (Some [[105]]). split; [reflexivity|]. split; [unfold wf_pat, mkp; prove_wf | cbn; intuition discriminate].
      * split; [reflexivity|]. cbn [t_assoc tab_inner]. repeat (apply Forall_app; split);
          try (apply Forall_forall; intros a Ha; apply repeat_spec in Ha; lia). repeat constructor; lia.
    + intros [|[|[|n]]] s E2; cbn in E2; discriminate.
Qed.

Lemma tree_ex_names : names_ok tree_ex /\ addr_ok (strip msg_ex).
Proof.
  split; [|repeat constructor; discriminate].
  constructor.
  - intros [|[|[|n]]] name sub E; cbn in E; inversion E; subst; cbn [nth_error].
    + exists {| segs := [Lit [97]; Enum [50]]; subtree := true; types := None |}.
      split; [reflexivity|]. split; [unfold wf_pat; prove_wf|]. split; [repeat constructor | reflexivity].
    + exists {| segs := [Lit [100]]; subtree := false; types := None |}.
      split; [reflexivity|]. split; [unfold wf_pat; prove_wf|]. split; [repeat constructor | reflexivity].
  - intros [|[|[|n]]] s E; cbn in E; inversion E; subst. constructor.
    + intros [|[|[|n]]] name sub E2; cbn in E2; inversion E2; subst; cbn [nth_error].
      * exists {| segs := [Lit [98]]; subtree := false; types := None |}.
        split; [reflexivity|]. split; [unfold wf_pat; prove_wf|]. split; [repeat constructor | reflexivity].
      * exists {| segs := [Lit [99]]; subtree := false; types := Some [[105]] |}.
        split; [reflexivity|]. split; [unfold wf_pat; prove_wf|]. split; [repeat constructor | reflexivity].
    + intros [|[|[|n]]] s E2; cbn in E2; discriminate.
Qed.

Lemma tree_ex_addressed : addressed [0%nat; 1%nat] tree_ex (strip msg_ex) [105].
Proof.
  cbn [addressed]. exists [97; 35; 50; 47], true, [99]. split.
  - split; [reflexivity|]. split; [vm_compute; reflexivity|].
    intros [|[|[|n]]] name sub Hn E pe'; cbn in E; inversion E; subst; try congruence.
    vm_compute. discriminate.
  - cbn. exists [99; 58; 105], false, []. split; [|reflexivity].
    split; [reflexivity|]. split; [vm_compute; reflexivity|].
    intros [|[|[|n]]] name sub Hn E pe'; cbn in E; inversion E; subst; try congruence.
    vm_compute. discriminate.
Qed.

Lemma tree_ex_run :
  dispatch tree_ex msg_ex [105] true 1 =
  {| loc := Some [47]; matches := 1; obj := 1; dport := Some (1, 1);
     log := [Ev 1 1 [99] 133 (Some [47; 97; 49; 47; 99]) (Some (1, 1)) true;
             Ev 0 0 [97; 49; 47; 99] 1 (Some [47; 97; 49; 47]) (Some (0, 0)) false] |}.
Proof. vm_compute. reflexivity. Qed.

(* an address with bytes >= 0x80 below the enumerated port: "/a1/\xe9\xff" goes
   through the hashed table { b, c:i } (hash of the byte 233 - an index the
   127-entry table of the pinned code did not have), finds no port there, and
   the same single callback runs without buffer *)
Definition msg_hi : str := [47; 97; 49; 47; 233; 255].
Lemma tree_ex_highbyte :
  root_ok tree_ex msg_hi /\
  dispatch tree_ex msg_hi [] true 1 =
  {| loc := Some [47]; matches := 0; obj := 1; dport := Some (0, 0);
     log := [Ev 0 0 [97; 49; 47; 233; 255] 1 (Some [47; 97; 49; 47]) (Some (0, 0)) false] |} /\
  dispatch tree_ex msg_hi [] false 1 =
  {| loc := None; matches := 0; obj := 1; dport := Some (0, 0);
     log := [Ev 0 0 [97; 49; 47; 233; 255] 1 None (Some (0, 0)) false] |}.
Proof.
  split; [|split; vm_compute; reflexivity].
  split; [exact (proj1 (proj1 tree_ex_ok))|].
  split; [repeat constructor; discriminate | repeat constructor; lia].
Qed.

(* ---- non-vacuity for names of several address components -------------------
   { a#2/b#3/ -> { x, u/v/ -> { w } }, a#2/k#2:i } with /a1/b2/u/v/w and /a1/k0 *)
Definition tab_mc_bot : table :=
  {| t_id := 2; t_dflt := false; t_ports := [([119], false)]; t_pos := []; t_assoc := [] |}.
Definition tab_mc_mid : table :=
  {| t_id := 1; t_dflt := false; t_ports := [([120], false); ([117; 47; 118; 47], true)];
     t_pos := []; t_assoc := [] |}.
Definition tab_mc_root : table :=
  {| t_id := 0; t_dflt := false;
     t_ports := [([97; 35; 50; 47; 98; 35; 51; 47], true); ([97; 35; 50; 47; 107; 35; 50; 58; 105], false)];
     t_pos := []; t_assoc := [] |}.
Definition tree_mc : tree :=
  Node tab_mc_root [Some (Node tab_mc_mid [None; Some (Node tab_mc_bot [None])]); None].
(* /a1/b2/u/v/w   /a1/k0 *)
Definition msg_mc : str := [47; 97; 49; 47; 98; 50; 47; 117; 47; 118; 47; 119].
Definition msg_mc2 : str := [47; 97; 49; 47; 107; 48].

Lemma tree_mc_tree_ok : tree_ok tree_mc.
Proof.
  constructor.
  - intros [|[|[|n]]] name sub E; cbn in E; inversion E; subst; cbn; split; intros H;
      try discriminate; try reflexivity; try (eexists; reflexivity); try (destruct H; discriminate).
  - left. vm_compute. reflexivity.
  - intros [|[|[|n]]] s E; cbn in E; inversion E; subst. constructor.
    + intros [|[|[|n]]] name sub E2; cbn in E2; inversion E2; subst; cbn; split; intros H;
        try discriminate; try reflexivity; try (eexists; reflexivity); try (destruct H; discriminate).
    + left. vm_compute. reflexivity.
    + intros [|[|[|n]]] s E2; cbn in E2; inversion E2; subst. constructor.
      * intros [|[|n]] name sub E3; cbn in E3; inversion E3; subst; cbn; split; intros H;
          try discriminate; try (destruct H; discriminate).
      * left. vm_compute. reflexivity.
      * intros [|[|n]] s E3; cbn in E3; discriminate.
Qed.

Lemma tree_mc_ok : root_ok tree_mc msg_mc /\ root_ok tree_mc msg_mc2.
Proof.
  split; (split; [exact tree_mc_tree_ok | split; [repeat constructor; discriminate | repeat constructor; lia]]).
Qed.

Lemma tree_mc_names : names_ok tree_mc /\ addr_ok (strip msg_mc) /\ addr_ok (strip msg_mc2).
Proof.
  split; [|split; repeat constructor; discriminate].
  constructor.
  - intros [|[|[|n]]] name sub E; cbn in E; inversion E; subst; cbn [nth_error].
    + exists {| segs := [Lit [97]; Enum [50]; Lit [47; 98]; Enum [51]]; subtree := true; types := None |}.
      split; [reflexivity|]. split; [unfold wf_pat; prove_wf|]. split; [repeat constructor | reflexivity].
    + exists {| segs := [Lit [97]; Enum [50]; Lit [47; 107]; Enum [50]]; subtree := false; types := Some [[105]] |}.
      split; [reflexivity|]. split; [unfold wf_pat; prove_wf|]. split; [repeat constructor | reflexivity].
  - intros [|[|[|n]]] s E; cbn in E; inversion E; subst. constructor.
    + intros [|[|[|n]]] name sub E2; cbn in E2; inversion E2; subst; cbn [nth_error].
      * exists {| segs := [Lit [120]]; subtree := false; types := None |}.
        split; [reflexivity|]. split; [unfold wf_pat; prove_wf|]. split; [repeat constructor | reflexivity].
      * exists {| segs := [Lit [117; 47; 118]]; subtree := true; types := None |}.
        split; [reflexivity|]. split; [unfold wf_pat; prove_wf|]. split; [repeat constructor | reflexivity].
    + intros [|[|[|n]]] s E2; cbn in E2; inversion E2; subst. constructor.
      * intros [|[|n]] name sub E3; cbn in E3; inversion E3; subst; cbn [nth_error].
        exists {| segs := [Lit [119]]; subtree := false; types := None |}.
        split; [reflexivity|]. split; [unfold wf_pat; prove_wf|]. split; [repeat constructor | reflexivity].
      * intros [|[|n]] s E3; cbn in E3; discriminate.
Qed.

Lemma tree_mc_addressed :
  addressed [0%nat; 1%nat; 0%nat] tree_mc (strip msg_mc) [] /\
  addressed [1%nat] tree_mc (strip msg_mc2) [105].
Proof.
  split.
  - cbn [addressed]. exists [97; 35; 50; 47; 98; 35; 51; 47], true, [117; 47; 118; 47; 119]. split.
    + split; [reflexivity|]. split; [vm_compute; reflexivity|].
      intros [|[|[|n]]] name sub Hn E pe'; cbn in E; inversion E; subst; try congruence.
      vm_compute. discriminate.
    + cbn. exists [117; 47; 118; 47], true, [119]. split.
      * split; [reflexivity|]. split; [vm_compute; reflexivity|].
        intros [|[|[|n]]] name sub Hn E pe'; cbn in E; inversion E; subst; try congruence.
        vm_compute. discriminate.
      * cbn. exists [119], false, []. split; [|reflexivity].
        split; [reflexivity|]. split; [vm_compute; reflexivity|].
        intros [|[|n]] name sub Hn E pe'; cbn in E; inversion E; subst; congruence.
  - cbn [addressed]. exists [97; 35; 50; 47; 107; 35; 50; 58; 105], false, []. split; [|reflexivity].
    split; [reflexivity|]. split; [vm_compute; reflexivity|].
    intros [|[|[|n]]] name sub Hn E pe'; cbn in E; inversion E; subst; try congruence.
    vm_compute. discriminate.
Qed.

Lemma tree_mc_run :
  dispatch tree_mc msg_mc [] true 1 =
  {| loc := Some [47]; matches := 1; obj := 1; dport := Some (2, 0);
     log := [Ev 2 0 [119] 17448 (Some [47; 97; 49; 47; 98; 50; 47; 117; 47; 118; 47; 119]) (Some (2, 0)) true;
             Ev 1 1 [117; 47; 118; 47; 119] 133 (Some [47; 97; 49; 47; 98; 50; 47; 117; 47; 118; 47]) (Some (1, 1)) false;
             Ev 0 0 [97; 49; 47; 98; 50; 47; 117; 47; 118; 47; 119] 1 (Some [47; 97; 49; 47; 98; 50; 47]) (Some (0, 0)) false] |} /\
  dispatch tree_mc msg_mc2 [105] true 1 =
  {| loc := Some [47]; matches := 1; obj := 1; dport := Some (0, 1);
     log := [Ev 0 1 [97; 49; 47; 107; 48] 1 (Some [47; 97; 49; 47; 107; 48]) (Some (0, 1)) true] |}.
Proof. split; vm_compute; reflexivity. Qed.

(* ---- non-vacuity for names with alternatives ---------------------------------
   { {on,off}/ -> { x, y:i }, p{q,r}#2:i } with /off/y and /pr1, types "i" *)
Definition tab_alt_sub : table :=
  {| t_id := 1; t_dflt := false; t_ports := [([120], false); ([121; 58; 105], false)]; t_pos := []; t_assoc := [] |}.
Definition tab_alt_root : table :=
  {| t_id := 0; t_dflt := false;
     t_ports := [([123; 111; 110; 44; 111; 102; 102; 125; 47], true);
                 ([112; 123; 113; 44; 114; 125; 35; 50; 58; 105], false)];
     t_pos := []; t_assoc := [] |}.
Definition tree_alt : tree := Node tab_alt_root [Some (Node tab_alt_sub [None; None]); None].
(* /off/y   /pr1 *)
Definition msg_alt : str := [47; 111; 102; 102; 47; 121].
Definition msg_alt2 : str := [47; 112; 114; 49].

Lemma tree_alt_tree_ok : tree_ok tree_alt.
Proof.
  constructor.
  - intros [|[|[|n]]] name sub E; cbn in E; inversion E; subst; cbn; split; intros H;
      try discriminate; try reflexivity; try (eexists; reflexivity); try (destruct H; discriminate).
  - left. vm_compute. reflexivity.
  - intros [|[|[|n]]] s E; cbn in E; inversion E; subst. constructor.
    + intros [|[|[|n]]] name sub E2; cbn in E2; inversion E2; subst; cbn; split; intros H;
        try discriminate; try (destruct H; discriminate).
    + left. vm_compute. reflexivity.
    + intros [|[|[|n]]] s E2; cbn in E2; discriminate.
Qed.

Lemma tree_alt_ok : root_ok tree_alt msg_alt /\ root_ok tree_alt msg_alt2.
Proof.
  split; (split; [exact tree_alt_tree_ok | split; [repeat constructor; discriminate | repeat constructor; lia]]).
Qed.

Ltac prove_plain :=
  repeat constructor; intros Hx; cbn in Hx; repeat (destruct Hx as [Hx|Hx]; [discriminate|]); exact Hx.

Lemma tree_alt_names : names_ok tree_alt /\ addr_ok (strip msg_alt) /\ addr_ok (strip msg_alt2).
Proof.
  split; [|split; repeat constructor; discriminate].
  constructor.
  - intros [|[|[|n]]] name sub E; cbn in E; inversion E; subst; cbn [nth_error].
    + exists {| segs := [Alt [[111; 110]; [111; 102; 102]]]; subtree := true; types := None |}.
      split; [reflexivity|]. split; [unfold wf_pat; prove_wf|]. split; [prove_plain | reflexivity].
    + exists {| segs := [Lit [112]; Alt [[113]; [114]]; Enum [50]]; subtree := false; types := Some [[105]] |}.
      split; [reflexivity|]. split; [unfold wf_pat; prove_wf|]. split; [prove_plain | reflexivity].
  - intros [|[|[|n]]] s E; cbn in E; inversion E; subst. constructor.
    + intros [|[|[|n]]] name sub E2; cbn in E2; inversion E2; subst; cbn [nth_error].
      * exists {| segs := [Lit [120]]; subtree := false; types := None |}.
        split; [reflexivity|]. split; [unfold wf_pat; prove_wf|]. split; [repeat constructor | reflexivity].
      * exists {| segs := [Lit [121]]; subtree := false; types := Some [[105]] |}.
        split; [reflexivity|]. split; [unfold wf_pat; prove_wf|]. split; [repeat constructor | reflexivity].
    + intros [|[|[|n]]] s E2; cbn in E2; discriminate.
Qed.

Lemma tree_alt_addressed :
  addressed [0%nat; 1%nat] tree_alt (strip msg_alt) [105] /\
  addressed [1%nat] tree_alt (strip msg_alt2) [105].
Proof.
  split.
  - cbn [addressed]. exists [123; 111; 110; 44; 111; 102; 102; 125; 47], true, [121]. split.
    + split; [reflexivity|]. split; [vm_compute; reflexivity|].
      intros [|[|[|n]]] name sub Hn E pe'; cbn in E; inversion E; subst; try congruence.
      vm_compute. discriminate.
    + cbn. exists [121; 58; 105], false, []. split; [|reflexivity].
      split; [reflexivity|]. split; [vm_compute; reflexivity|].
      intros [|[|[|n]]] name sub Hn E pe'; cbn in E; inversion E; subst; try congruence.
      vm_compute. discriminate.
  - cbn [addressed]. exists [112; 123; 113; 44; 114; 125; 35; 50; 58; 105], false, []. split; [|reflexivity].
    split; [reflexivity|]. split; [vm_compute; reflexivity|].
    intros [|[|[|n]]] name sub Hn E pe'; cbn in E; inversion E; subst; try congruence.
    vm_compute. discriminate.
Qed.

Lemma tree_alt_run :
  dispatch tree_alt msg_alt [105] true 1 =
  {| loc := Some [47]; matches := 1; obj := 1; dport := Some (1, 1);
     log := [Ev 1 1 [121] 132 (Some [47; 111; 102; 102; 47; 121]) (Some (1, 1)) true;
             Ev 0 0 [111; 102; 102; 47; 121] 1 (Some [47; 111; 102; 102; 47]) (Some (0, 0)) false] |} /\
  dispatch tree_alt msg_alt [105] false 1 =
  {| loc := None; matches := 0; obj := 1; dport := Some (1, 1);
     log := [Ev 1 1 [121] 132 None (Some (1, 1)) true;
             Ev 0 0 [111; 102; 102; 47; 121] 1 None (Some (0, 0)) false] |} /\
  dispatch tree_alt msg_alt2 [105] true 1 =
  {| loc := Some [47]; matches := 1; obj := 1; dport := Some (0, 1);
     log := [Ev 0 1 [112; 114; 49] 1 (Some [47; 112; 114; 49]) (Some (0, 1)) true] |} /\
  dispatch tree_alt msg_alt2 [105] false 1 =
  {| loc := None; matches := 0; obj := 1; dport := Some (0, 1);
     log := [Ev 0 1 [112; 114; 49] 1 None (Some (0, 1)) true] |}.
Proof. repeat split; vm_compute; reflexivity. Qed.

(* ---- the index an enumerated parent hands down ------------------------------ *)
Lemma take_digits_app : forall x r, digits x -> starts_with_digit r = false -> take_digits (x ++ r) = x.
Proof.
  induction x as [|c x IH]; intros r Hd Hr.
  - destruct r as [|c r]; [reflexivity|]. cbn in Hr |- *. now rewrite Hr.
  - inversion Hd as [|? ? Hc Hx]; subst. cbn. rewrite Hc. f_equal. now apply IH.
Qed.

Lemma skip_to_hash_prefix : forall k rest m, ~ In 35 k -> skip_to_hash (k ++ 35 :: rest) (k ++ m) = Some m.
Proof.
  induction k as [|c k IH]; intros rest m H; [reflexivity|]. cbn [app skip_to_hash].
  destruct (c =? 35) eqn:E; [apply Z.eqb_eq in E; subst; exfalso; apply H; now left|].
  apply IH. intros Hin. apply H. now right.
Qed.

(* the child object of "k#N..." is chosen by the number the address spells at
   the '#' - digits in the literal text k in front of it do not count *)
Theorem port_index_at_hash : forall k rest x r,
  ~ In 35 k -> x <> [] -> digits x -> starts_with_digit r = false ->
  port_index (k ++ 35 :: rest) (k ++ x ++ r) = dec x.
Proof.
  intros k rest x r Hk Hne Hd Hr. unfold port_index. rewrite skip_to_hash_prefix by assumption.
  destruct x as [|c x]; [congruence|]. inversion Hd as [|? ? Hc Hx]; subst.
  cbn [app first_number]. rewrite Hc.
  change (c :: x ++ r) with ((c :: x) ++ r). rewrite atoi_acc_take, take_digits_app by assumption.
  reflexivity.
Qed.

(* non-vacuity of port_index_at_hash: a12b#4/ addressed by a12b03/x - the digits "12" of the
   literal text do not count, the index handed down is 3 *)
Example port_index_at_hash_nonvacuous :
  let k := [97; 49; 50; 98] in let rest := [52; 47] in let x := [48; 51] in let r := [47; 120] in
  ~ In 35 k /\ x <> [] /\ digits x /\ starts_with_digit r = false /\
  port_index (k ++ 35 :: rest) (k ++ x ++ r) = 3 /\ dec x = 3.
Proof.
  cbv zeta. split; [|split; [|split; [|split; [|split]]]].
  - cbn. intros H. repeat (destruct H as [H|H]; [discriminate|]). exact H.
  - discriminate.
  - repeat constructor.
  - reflexivity.
  - vm_compute. reflexivity.
  - vm_compute. reflexivity.
Qed.

(* The statement at full strength - for every name whose segments `pre` in front of the first
   '#' are spelled by the address as the pattern language says (literal text OR one of the
   alternatives), the index handed down is the number spelled at the '#':
     forall pre ds tl s x r, (forall d, ~ In (Enum d) pre) -> spells pre s ->
       x <> [] -> digits x -> starts_with_digit r = false ->
       port_index (render_segs (pre ++ [Enum ds]) ++ tl) (s ++ x ++ r) = dec x
   is FALSE of the faithful model (known finding index-behind-alternatives): rBOILS_BEGIN
   walks as many characters into the message as the NAME has in front of its '#'.
   { p{q,r}#2/ -> { x } } with /pq1/x: the address spells index 1, port_index reads at
   offset min(6, 5) = the end of "pq1/x", finds no digit and gives 0;
   the child callback runs with object 132 (index 0) in both runs, not 133 (index 1). *)
Definition tab_iba_sub : table :=
  {| t_id := 1; t_dflt := false; t_ports := [([120], false)]; t_pos := []; t_assoc := [] |}.
Definition tab_iba_root : table :=
  {| t_id := 0; t_dflt := false;
     t_ports := [([112; 123; 113; 44; 114; 125; 35; 50; 47], true)]; t_pos := []; t_assoc := [] |}.
Definition tree_iba : tree := Node tab_iba_root [Some (Node tab_iba_sub [None])].
Definition msg_iba : str := [47; 112; 113; 49; 47; 120].

Theorem index_behind_alternatives_refuted :
  exists pre ds tl s x r,
    (forall d, ~ In (Enum d) pre) /\ spells pre s /\ x <> [] /\ digits x /\ dec x < dec ds /\
    starts_with_digit r = false /\
    t_ports tab_iba_root = [(render_segs (pre ++ [Enum ds]) ++ tl, true)] /\
    strip msg_iba = s ++ x ++ r /\
    dec x = 1 /\
    port_index (render_segs (pre ++ [Enum ds]) ++ tl) (s ++ x ++ r) = 0 /\
    child_obj 1 0 0 (dec x) = 133 /\
    dispatch tree_iba msg_iba [] true 1 =
    {| loc := Some [47]; matches := 1; obj := 1; dport := Some (1, 0);
       log := [Ev 1 0 [120] 132 (Some [47; 112; 113; 49; 47; 120]) (Some (1, 0)) true;
               Ev 0 0 [112; 113; 49; 47; 120] 1 (Some [47; 112; 113; 49; 47]) (Some (0, 0)) false] |} /\
    dispatch tree_iba msg_iba [] false 1 =
    {| loc := None; matches := 0; obj := 1; dport := Some (1, 0);
       log := [Ev 1 0 [120] 132 None (Some (1, 0)) true;
               Ev 0 0 [112; 113; 49; 47; 120] 1 None (Some (0, 0)) false] |}.
Proof.
  exists [Lit [112]; Alt [[113]; [114]]], [50], [47], [112; 113], [49], [47; 120].
  split; [|split; [|split; [|split; [|split; [|split; [|split; [|split; [|split; [|split; [|split; [|split]]]]]]]]]]].
  - intros d [H|[H|[]]]; discriminate.
  - change [112; 113] with ([112] ++ [113] ++ []).
    constructor; [constructor|]. constructor; [constructor; left; reflexivity|constructor].
  - discriminate.
  - repeat constructor.
  - vm_compute. reflexivity.
  - reflexivity.
  - vm_compute. reflexivity.
  - vm_compute. reflexivity.
  - vm_compute. reflexivity.
  - vm_compute. reflexivity.
  - vm_compute. reflexivity.
  - vm_compute. reflexivity.
  - vm_compute. reflexivity.
Qed.

Lemma port_index_no_hash : forall name m, mem 35 name = false -> port_index name m = 0.
Proof.
  unfold port_index. induction name as [|c name IH]; intros m H; [reflexivity|].
  change (mem 35 (c :: name)) with ((35 =? c) || mem 35 name) in H.
  apply orb_false_iff in H as [E H]. cbn [skip_to_hash]. rewrite Z.eqb_sym, E.
  destruct m; apply IH; exact H.
Qed.

(* "a1x#3/" and a1x2/...: index 2 (the pinned callbacks read 1, the first digit) *)
Example port_index_ex :
  port_index [97; 49; 120; 35; 51; 47] [97; 49; 120; 50; 47; 98] = 2 /\
  first_number [97; 49; 120; 50; 47; 98] = 1.
Proof. split; reflexivity. Qed.

(* ======================================================================== *)
(* beyond literal names: it is the branch decision that makes them agree      *)
(* ======================================================================== *)
(* a table with a '#' name, or with a multi-component literal name, is never
   hashed: with a location buffer it is served by the same linear scan over
   the same scan_hits as without one (scan_loc_fold / scan_noloc_fold), so
   tree_ok asks nothing of it *)
Theorem unhashed_tables : forall T,
  (exists p, In p (t_ports T) /\ (is_pattern (fst p) = true \/ inner_slash (fst p) = true)) ->
  tables_of T = None.
Proof.
  intros T (p & Hin & Hp). unfold tables_of.
  destruct (existsb (fun p => is_pattern (fst p)) (t_ports T)) eqn:E1; [reflexivity|].
  destruct (existsb (fun p => inner_slash (fst p)) (t_ports T)) eqn:E2; [reflexivity|].
  exfalso. destruct Hp as [Hp|Hp].
  - apply not_true_iff_false in E1. apply E1. apply existsb_exists. eauto.
  - apply not_true_iff_false in E2. apply E2. apply existsb_exists. eauto.
Qed.

(* for such a table the two runs of dispatch_table call the same ports in the
   same order, whatever the names are (alternatives, '*', '#', anything), and
   then - in both runs - the default handler iff there is one and no port
   matched *)
Definition after_scan (T : table) (hits : list hit) (call : dstate -> dstate) (s : dstate) : dstate :=
  match hits with [] => if t_dflt T then call s else s | _ :: _ => s end.

Theorem unhashed_same_calls : forall cb dh T m args st l,
  tables_of T = None -> loc st = Some l -> l <> [] ->
  dispatch_table cb dh T m args false st =
  after_scan T (scan_hits (t_ports T) 0 m args) (call_default dh m (obj st))
    (fold_left (step_loc cb (t_id T) m (obj st) l) (scan_hits (t_ports T) 0 m args) st) /\
  forall st', loc st' = None ->
  dispatch_table cb dh T m args false st' =
  after_scan T (scan_hits (t_ports T) 0 m args) (call_default_noloc dh m (obj st'))
    (fold_left (step_noloc cb (t_id T) m (obj st')) (scan_hits (t_ports T) 0 m args) st').
Proof.
  intros cb dh T m args st l HT Ls Hl. split.
  - unfold dispatch_table, after_scan. rewrite Ls, HT. destruct l as [|c l']; [congruence|].
    rewrite scan_loc_fold, (any_match_hits (t_ports T) 0 m args).
    replace (set_loc st (Some (c :: l'))) with st by (destruct st; cbn in *; subst; reflexivity).
    destruct (scan_hits (t_ports T) 0 m args); reflexivity.
  - intros st' L'. unfold dispatch_table, after_scan. rewrite L'.
    rewrite scan_noloc_fold, (any_match_hits (t_ports T) 0 m args).
    destruct (scan_hits (t_ports T) 0 m args); reflexivity.
Qed.
