(* C04: what the location buffer held before a root dispatch does not matter *)
From Coq Require Import List ZArith Bool.
From RtoscV Require Import Match.PatSpec Match.MatchModel Ports.DispatchModel Ports.DispatchReuse.
Import ListNotations.
Local Open Scope Z_scope.

Lemma depth_S : forall t, exists n, depth t = S n.
Proof. intros [T subs]. cbn [depth]. eexists. reflexivity. Qed.

Theorem dispatch_reused_as_fresh : forall t m args stale m0 o,
  dispatch_reused t m args stale m0 o = dispatch t m args true o.
Proof.
  intros t m args stale m0 o. unfold dispatch_reused, dispatch.
  destruct (depth_S t) as [n ->].
  cbn [dispatch_f]. unfold dispatch_table, reused_state, init_state.
  cbn [loc obj set_matches set_loc matches dport log]. reflexivity.
Qed.

(* a stale, non-empty buffer in front of a two-level address: the callbacks see
   "/ab/" and "/ab/xy", not the old text *)
Example dispatch_reused_nonvacuous :
  let leaf := Node {| t_id := 1; t_dflt := false; t_ports := [([120;121], false)]; t_pos := []; t_assoc := [] |} [None] in
  let root := Node {| t_id := 0; t_dflt := false; t_ports := [([97;98;47], true)]; t_pos := []; t_assoc := [] |} [Some leaf] in
  map (fun e => match e with Ev _ _ _ _ l _ _ => l | _ => None end)
      (rev (log (dispatch_reused root [47;97;98;47;120;121] [] [115;99;114;97;116;99;104] 5 1)))
  = [Some [47;97;98;47]; Some [47;97;98;47;120;121]].
Proof. vm_compute. reflexivity. Qed.
