(* The decimal round trip: NameModel.dec (what snprintf("%d", i) writes) is
   read back exactly by atoi (walk_ports, bundle_foreach) and by the
   saturating reader of rtosc_match_number (C05's read_u), for every n >= 0. *)
From Coq Require Import List ZArith Bool Arith Lia.
From RtoscV Require Import Match.PatSpec Match.MatchModel Match.MatchProofs Ports.NameModel.
Import ListNotations.
Local Open Scope Z_scope.

(* the value of a digit string (C05's PatSpec.dec) *)
Notation dval := PatSpec.dec.

Lemma dec_fuel_acc f : forall n acc, dec_fuel f n acc = dec_fuel f n [] ++ acc.
Proof.
  induction f as [|f IH]; intros n acc; cbn [dec_fuel]; [reflexivity|].
  destruct (n <? 10); [reflexivity|].
  rewrite IH. rewrite (IH _ [48 + n mod 10]). rewrite <- app_assoc. reflexivity.
Qed.

Lemma dval_snoc ds c : dval (ds ++ [c]) = dval ds * 10 + (c - 48).
Proof. unfold PatSpec.dec. rewrite fold_left_app. reflexivity. Qed.

Lemma digit_ok d : 0 <= d <= 9 -> isdigit (48 + d) = true.
Proof. intros H. unfold isdigit. apply andb_true_iff. split; apply Z.leb_le; lia. Qed.

Lemma dec_fuel_spec f : forall n,
  0 <= n < 2 ^ Z.of_nat f -> (1 <= f)%nat ->
  digits (dec_fuel f n []) /\ dec_fuel f n [] <> [] /\ dval (dec_fuel f n []) = n /\
  (Z.of_nat (length (dec_fuel f n [])) <= Z.of_nat f).
Proof.
  induction f as [|f IH]; intros n Hn Hf; [lia|].
  cbn [dec_fuel]. destruct (n <? 10) eqn:E.
  - apply Z.ltb_lt in E. rewrite Z.mod_small by lia.
    split; [|split; [|split]].
    + apply Forall_cons; [apply digit_ok; lia | apply Forall_nil].
    + discriminate.
    + unfold PatSpec.dec. cbn [fold_left]. lia.
    + cbn [length]. lia.
  - apply Z.ltb_ge in E. rewrite dec_fuel_acc.
    assert (Hq : 0 <= n / 10 < 2 ^ Z.of_nat f).
    { rewrite Nat2Z.inj_succ, Z.pow_succ_r in Hn by lia. split; [apply Z.div_pos; lia|].
      apply Z.div_lt_upper_bound; lia. }
    assert (Hf' : (1 <= f)%nat).
    { destruct f; [|lia]. cbn in Hq. assert (1 <= n / 10) by (apply Z.div_le_lower_bound; lia). lia. }
    destruct (IH (n / 10) Hq Hf') as [Hd [Hne [Hv Hl]]].
    split; [|split; [|split]].
    + apply Forall_app. split; [exact Hd|]. apply Forall_cons; [|apply Forall_nil]. apply digit_ok.
      pose proof (Z.mod_pos_bound n 10). lia.
    + intros H. apply app_eq_nil in H. destruct H. discriminate.
    + rewrite dval_snoc, Hv. pose proof (Z.div_mod n 10). lia.
    + rewrite app_length. cbn [length]. lia.
Qed.

Lemma dec_fuel_enough n : 0 <= n -> 0 <= n < 2 ^ Z.of_nat (S (Z.to_nat (Z.log2 n))).
Proof.
  intros H. split; [exact H|]. rewrite Nat2Z.inj_succ, Z2Nat.id by apply Z.log2_nonneg.
  destruct (Z.eq_dec n 0) as [->|Hn]; [cbn; lia|].
  apply Z.log2_spec. lia.
Qed.

Theorem dec_digits n : 0 <= n -> digits (dec n) /\ dec n <> [] /\ dval (dec n) = n.
Proof.
  intros H. unfold dec.
  destruct (dec_fuel_spec _ n (dec_fuel_enough n H) ltac:(lia)) as [A [B [C _]]]. auto.
Qed.

(* the round trip for atoi, whatever non-digit follows *)
Theorem atoi_dec n rest :
  0 <= n -> starts_with_digit rest = false ->
  atoi (dec n ++ rest) = n /\ skip_digits (dec n ++ rest) = rest /\
  isdigit (hd0 (dec n ++ rest)) = true.
Proof.
  intros Hn Hr. destruct (dec_digits n Hn) as [Hd [Hne Hv]].
  destruct (take_skip_app (dec n) rest Hd Hr) as [Ht Hs].
  split; [|split; [exact Hs|]].
  - unfold atoi. rewrite atoi_acc_take, Ht, <- dec_fold. exact Hv.
  - destruct (dec n) as [|c t]; [congruence|]. inversion Hd; subst. assumption.
Qed.

(* ... and for the matcher's saturating reader, up to UINT_MAX *)
Theorem read_u_dec n rest :
  0 <= n <= umax -> starts_with_digit rest = false -> read_u (dec n ++ rest) = n.
Proof.
  intros Hn Hr. destruct (dec_digits n ltac:(lia)) as [Hd [Hne Hv]].
  rewrite read_u_spec. destruct (take_skip_app (dec n) rest Hd Hr) as [-> _]. rewrite Hv. lia.
Qed.

(* the number of digits: below 10^9 at most nine *)
Lemma dval_lower x : digits x -> x <> [] -> hd0 x <> 48 -> 10 ^ Z.of_nat (length x - 1) <= dval x.
Proof.
  intros Hd. induction x as [|c x IH] using rev_ind; [congruence|]. intros _ Hh.
  apply Forall_app in Hd. destruct Hd as [Hx Hc]. inversion Hc as [|? ? Hc' _]; subst.
  apply isdigit_range in Hc'. rewrite dval_snoc, app_length. cbn [length].
  destruct x as [|d x].
  - cbn in *. lia.
  - replace (length (d :: x) + 1 - 1)%nat with (S (length (d :: x) - 1)) by (cbn [length]; lia).
    rewrite Nat2Z.inj_succ, Z.pow_succ_r by lia.
    assert (10 ^ Z.of_nat (length (d :: x) - 1) <= dval (d :: x)) by (apply IH; [exact Hx | discriminate | exact Hh]).
    lia.
Qed.

Lemma dec_fuel_hd f : forall n, 10 <= n -> 0 <= n < 2 ^ Z.of_nat f -> (1 <= f)%nat ->
  hd0 (dec_fuel f n []) <> 48.
Proof.
  induction f as [|f IH]; intros n H10 Hn Hf; [lia|].
  cbn [dec_fuel]. replace (n <? 10) with false by (symmetry; apply Z.ltb_ge; lia).
  rewrite dec_fuel_acc.
  assert (Hq : 0 <= n / 10 < 2 ^ Z.of_nat f).
  { rewrite Nat2Z.inj_succ, Z.pow_succ_r in Hn by lia. split; [apply Z.div_pos; lia|].
    apply Z.div_lt_upper_bound; lia. }
  assert (H1 : 1 <= n / 10) by (apply Z.div_le_lower_bound; lia).
  assert (Hf' : (1 <= f)%nat) by (destruct f; [cbn in Hq; lia | lia]).
  destruct (Z_lt_le_dec (n / 10) 10) as [Hlt|Hge].
  - destruct f as [|f']; [lia|]. cbn [dec_fuel].
    replace (n / 10 <? 10) with true by (symmetry; apply Z.ltb_lt; lia).
    cbn [app hd0]. rewrite Z.mod_small by lia. lia.
  - specialize (IH (n / 10) Hge Hq Hf').
    destruct (dec_fuel_spec f (n / 10) Hq Hf') as [_ [Hne _]].
    destruct (dec_fuel f (n / 10) []) as [|c t]; [congruence|]. exact IH.
Qed.

Theorem dec_length n : 0 <= n < 1000000000 -> (length (dec n) <= 9)%nat.
Proof.
  intros Hn. destruct (dec_digits n ltac:(lia)) as [Hd [Hne Hv]].
  destruct (Z_lt_le_dec n 10) as [Hlt|Hge].
  - unfold dec. cbn [dec_fuel]. replace (n <? 10) with true by (symmetry; apply Z.ltb_lt; lia).
    cbn [length]. lia.
  - assert (Hh : hd0 (dec n) <> 48).
    { unfold dec. apply dec_fuel_hd; [exact Hge | apply dec_fuel_enough; lia | lia]. }
    pose proof (dval_lower (dec n) Hd Hne Hh) as HL. rewrite Hv in HL.
    destruct (le_lt_dec (length (dec n)) 9) as [|Hgt]; [assumption|].
    assert (10 ^ 9 <= 10 ^ Z.of_nat (length (dec n) - 1)) by (apply Z.pow_le_mono_r; lia).
    change (10 ^ 9) with 1000000000 in *. lia.
Qed.

(* distinct numbers have distinct texts, and none is a prefix of another's
   followed by a non-digit *)
Theorem dec_inj a b : 0 <= a -> 0 <= b -> dec a = dec b -> a = b.
Proof.
  intros Ha Hb H. destruct (dec_digits a Ha) as [_ [_ <-]]. destruct (dec_digits b Hb) as [_ [_ <-]].
  rewrite H. reflexivity.
Qed.
