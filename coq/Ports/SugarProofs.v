(* C14 - proofs about the model of the port-sugar callbacks (Ports/SugarModel.v) *)
From Coq Require Import List ZArith Bool Lia ZifyBool.
From RtoscV Require Import Ports.SugarModel.
Import ListNotations.
Local Open Scope Z_scope.

(* ------------------------------------------------------------ generic part *)
Section Ord.
  Variable V : Type.
  Variable key : V -> Z.
  Variables ltb neqb : V -> V -> bool.
  Variable good : V -> Prop.
  Hypothesis ltb_key : forall a b, good a -> good b -> ltb a b = (key a <? key b).
  Hypothesis neqb_key : forall a b, good a -> good b -> neqb a b = negb (key a =? key b).

  Definition ogood (o : option V) : Prop := forall b, o = Some b -> good b.

  Lemma rLIMIT_clampK : forall mn mx v,
    good v -> ogood mn -> ogood mx -> rLIMIT ltb mn mx v = clampK key mn mx v.
  Proof.
    intros mn mx v Hv Hmn Hmx. unfold rLIMIT, clampK.
    destruct mn as [lo|].
    - assert (Hlo : good lo) by (apply Hmn; reflexivity).
      rewrite (ltb_key v lo Hv Hlo).
      destruct (key v <? key lo); destruct mx as [hi|]; try reflexivity.
      + rewrite (ltb_key hi lo (Hmx hi eq_refl) Hlo). reflexivity.
      + rewrite (ltb_key hi v (Hmx hi eq_refl) Hv). reflexivity.
    - destruct mx as [hi|]; try reflexivity.
      rewrite (ltb_key hi v (Hmx hi eq_refl) Hv). reflexivity.
  Qed.

  Lemma good_clampK : forall mn mx v,
    good v -> ogood mn -> ogood mx -> good (clampK key mn mx v).
  Proof.
    intros mn mx v Hv Hmn Hmx. unfold clampK.
    destruct mn as [lo|]; destruct mx as [hi|].
    - destruct (key v <? key lo).
      + destruct (key hi <? key lo); [apply Hmx | apply Hmn]; reflexivity.
      + destruct (key hi <? key v); [apply Hmx; reflexivity | exact Hv].
    - destruct (key v <? key lo); [apply Hmn; reflexivity | exact Hv].
    - destruct (key hi <? key v); [apply Hmx; reflexivity | exact Hv].
    - exact Hv.
  Qed.

  Lemma limit_apply_bcast_spec : forall mka mkb mn mx loc old v,
    good old -> good v -> ogood mn -> ogood mx ->
    set_spec key mka mkb mn mx loc old v (limit_apply_bcast ltb neqb mka mkb mn mx loc old v).
  Proof.
    intros mka mkb mn mx loc old v Hold Hv Hmn Hmx.
    unfold set_spec, limit_apply_bcast. cbn [fst snd].
    rewrite (rLIMIT_clampK mn mx v Hv Hmn Hmx).
    pose proof (good_clampK mn mx v Hv Hmn Hmx) as Hc.
    set (new := clampK key mn mx v) in *.
    unfold rCAPPLY. rewrite (neqb_key old new Hold Hc).
    destruct (key old =? key new); cbn; repeat split; reflexivity.
  Qed.
End Ord.

(* ----------------------------------------------------- clamp: Spec facts *)
Lemma clampK_in_range : forall V (key : V -> Z) mn mx v,
  bounds_ordered key mn mx -> in_rangeK key mn mx (clampK key mn mx v).
Proof.
  intros V key mn mx v Hord. unfold in_rangeK, clampK.
  destruct mn as [lo|]; destruct mx as [hi|].
  - pose proof (Hord lo hi eq_refl eq_refl) as H.
    split; intros b E; inversion E; subst b; clear E.
    + destruct (key v <? key lo) eqn:E1.
      * destruct (key hi <? key lo) eqn:E2; lia.
      * destruct (key hi <? key v) eqn:E2; lia.
    + destruct (key v <? key lo) eqn:E1.
      * destruct (key hi <? key lo) eqn:E2; lia.
      * destruct (key hi <? key v) eqn:E2; lia.
  - split; intros b E; inversion E; subst b; clear E.
    destruct (key v <? key lo) eqn:E1; lia.
  - split; intros b E; inversion E; subst b; clear E.
    destruct (key hi <? key v) eqn:E1; lia.
  - split; intros b E; inversion E.
Qed.

(* a value inside the range is stored as it came *)
Lemma clampK_inside : forall V (key : V -> Z) mn mx v,
  in_rangeK key mn mx v -> clampK key mn mx v = v.
Proof.
  intros V key mn mx v [Hlo Hhi]. unfold clampK.
  destruct mn as [lo|]; destruct mx as [hi|].
  - pose proof (Hlo lo eq_refl). pose proof (Hhi hi eq_refl).
    destruct (key v <? key lo) eqn:E1; [lia|].
    destruct (key hi <? key v) eqn:E2; [lia|reflexivity].
  - pose proof (Hlo lo eq_refl). destruct (key v <? key lo) eqn:E1; [lia|reflexivity].
  - pose proof (Hhi hi eq_refl). destruct (key hi <? key v) eqn:E1; [lia|reflexivity].
  - reflexivity.
Qed.

(* clamping twice is clamping once (whatever the order of the bounds) *)
Lemma clampK_idem : forall V (key : V -> Z) mn mx v,
  clampK key mn mx (clampK key mn mx v) = clampK key mn mx v.
Proof.
  intros V key mn mx v. unfold clampK.
  destruct mn as [lo|]; destruct mx as [hi|].
  - destruct (key v <? key lo) eqn:E1.
    + destruct (key hi <? key lo) eqn:E2.
      * rewrite E2. rewrite E2. reflexivity.
      * rewrite Z.ltb_irrefl. rewrite E2. reflexivity.
    + destruct (key hi <? key v) eqn:E2.
      * destruct (key hi <? key lo) eqn:E3.
        -- rewrite E3. reflexivity.
        -- rewrite Z.ltb_irrefl. reflexivity.
      * rewrite E1. rewrite E2. reflexivity.
  - destruct (key v <? key lo) eqn:E1.
    + rewrite Z.ltb_irrefl. reflexivity.
    + rewrite E1. reflexivity.
  - destruct (key hi <? key v) eqn:E1.
    + rewrite Z.ltb_irrefl. reflexivity.
    + rewrite E1. reflexivity.
  - reflexivity.
Qed.

Lemma clampK_zclamp : forall mn mx v, clampK zkey mn mx v = zclamp mn mx v.
Proof.
  intros mn mx v. unfold clampK, zclamp, zkey.
  destruct mn as [lo|]; destruct mx as [hi|].
  - destruct (v <? lo) eqn:E1.
    + destruct (hi <? lo) eqn:E2; lia.
    + destruct (hi <? v) eqn:E2; lia.
  - destruct (v <? lo) eqn:E1; lia.
  - destruct (hi <? v) eqn:E1; lia.
  - reflexivity.
Qed.

(* --------------------------------------------------------- the instances *)
Definition anyZ (_ : Z) : Prop := True.

Lemma z_ltb_key : forall a b, anyZ a -> anyZ b -> Z.ltb a b = (zkey a <? zkey b).
Proof. reflexivity. Qed.
Lemma z_neqb_key : forall a b, anyZ a -> anyZ b -> zneqb a b = negb (zkey a =? zkey b).
Proof. reflexivity. Qed.
Lemma ogood_any : forall o, ogood Z anyZ o.
Proof. intros o b _. exact I. Qed.

Lemma f_ltb_key : forall a b, nonan a -> nonan b -> fltb a b = (fkey a <? fkey b).
Proof. intros a b Ha Hb. unfold fltb. rewrite Ha, Hb. reflexivity. Qed.
Lemma f_neqb_key : forall a b, nonan a -> nonan b -> fneqb a b = negb (fkey a =? fkey b).
Proof. intros a b Ha Hb. unfold fneqb. rewrite Ha, Hb. reflexivity. Qed.

Lemma wrap8_id : forall v, char_range v -> wrap8 v = v.
Proof. intros v H. unfold char_range in H. unfold wrap8. rewrite Z.mod_small by lia. lia. Qed.
Lemma wrap8_range : forall v, char_range (wrap8 v).
Proof.
  intros v. unfold char_range, wrap8.
  pose proof (Z.mod_pos_bound (v + 128) 256 ltac:(lia)). lia.
Qed.
Lemma omap_wrap8_id : forall o, ochar o -> option_map wrap8 o = o.
Proof.
  intros [b|] H; [|reflexivity]. cbn. rewrite wrap8_id; [reflexivity|]. apply H. reflexivity.
Qed.

Definition int_set_spec := @set_spec Z zkey.

Lemma int_lab_spec : forall mka mkb mn mx loc old v,
  set_spec zkey mka mkb mn mx loc old v (limit_apply_bcast Z.ltb zneqb mka mkb mn mx loc old v).
Proof.
  intros. apply (limit_apply_bcast_spec Z zkey Z.ltb zneqb anyZ z_ltb_key z_neqb_key);
    try exact I; apply ogood_any.
Qed.

Lemma flt_lab_spec : forall mn mx loc old v,
  nonan old -> nonan v -> onan mn -> onan mx ->
  set_spec fkey Af Af mn mx loc old v (limit_apply_bcast fltb fneqb Af Af mn mx loc old v).
Proof.
  intros mn mx loc old v Ho Hv Hmn Hmx.
  apply (limit_apply_bcast_spec Z fkey fltb fneqb nonan f_ltb_key f_neqb_key); assumption.
Qed.

(* ------------------------------------------------- sets, one per callback *)
Lemma rParamCb_set : forall e loc old v,
  char_range v -> ochar (p_min e) -> ochar (p_max e) ->
  exists res, rParamCb e loc old [Ac v] = Some res /\
              set_spec zkey Ac Ac (p_min e) (p_max e) loc old v res.
Proof.
  intros e loc old v Hv Hmn Hmx. unfold rParamCb. cbn [arg_i].
  rewrite (wrap8_id v Hv), (omap_wrap8_id _ Hmn), (omap_wrap8_id _ Hmx).
  eexists. split; [reflexivity|]. apply int_lab_spec.
Qed.

Lemma rParamICb_set : forall e loc old v,
  exists res, rParamICb e loc old [Ai v] = Some res /\
              set_spec zkey Ai Ai (p_min e) (p_max e) loc old v res.
Proof.
  intros e loc old v. unfold rParamICb. cbn [arg_i].
  eexists. split; [reflexivity|]. apply int_lab_spec.
Qed.

Lemma rParamFCb_set : forall e loc old b,
  nonan old -> nonan b -> onan (p_min e) -> onan (p_max e) ->
  exists res, rParamFCb e loc old [Af b] = Some res /\
              set_spec fkey Af Af (p_min e) (p_max e) loc old b res.
Proof.
  intros e loc old b Ho Hb Hmn Hmx. unfold rParamFCb. cbn [arg_f].
  eexists. split; [reflexivity|]. apply flt_lab_spec; assumption.
Qed.

Lemma rOptionCb_set_int : forall e loc old a v,
  a = Ai v \/ a = Ac v ->
  exists res, rOptionCb e loc old [a] = Some res /\
              set_spec zkey Ai (retag a) (p_min e) (p_max e) loc old v res.
Proof.
  intros e loc old a v [Ha|Ha]; subst a; unfold rOptionCb; cbn [arg_i];
    (eexists; split; [reflexivity|]; apply int_lab_spec).
Qed.

Lemma rArrayICb_elem_set : forall e loc old v,
  char_range old -> char_range v -> ochar (p_min e) -> ochar (p_max e) ->
  exists res, rArrayICb_elem e loc old [Ai v] = Some res /\
              set_spec zkey Ai Ai (p_min e) (p_max e) loc old v res.
Proof.
  intros e loc old v Hold Hv Hmn Hmx. unfold rArrayICb_elem. cbn [arg_i].
  rewrite (wrap8_id old Hold), (wrap8_id v Hv), (omap_wrap8_id _ Hmn), (omap_wrap8_id _ Hmx).
  eexists. split; [reflexivity|]. apply int_lab_spec.
Qed.

(* ------------------------------------------------------ option symbols *)
Lemma str_eqb_refl : forall s, str_eqb s s = true.
Proof. induction s as [|c r IH]; cbn; [reflexivity|]. rewrite Z.eqb_refl. exact IH. Qed.

Lemma str_eqb_eq : forall a b, str_eqb a b = true <-> a = b.
Proof.
  induction a as [|x a IH]; destruct b as [|y b]; cbn; split; intro H; try reflexivity; try discriminate.
  - apply andb_true_iff in H. destruct H as [H1 H2]. apply Z.eqb_eq in H1. apply IH in H2. subst. reflexivity.
  - inversion H; subst. rewrite Z.eqb_refl. apply str_eqb_refl.
Qed.

Lemma enum_key_symbol_index : forall mp s,
  enum_key mp s = match symbol_index mp s with Some k => k | None => int_min end.
Proof.
  induction mp as [|[k v] r IH]; intros s; [reflexivity|].
  unfold symbol_index in *. cbn [enum_key find snd fst].
  destruct (str_eqb v s); [reflexivity|]. apply IH.
Qed.

(* the first option that carries the symbol *)
Lemma symbol_index_first : forall mp s k,
  symbol_index mp s = Some k <->
  exists pre post, mp = pre ++ (k, s) :: post /\ Forall (fun kv => snd kv <> s) pre.
Proof.
  induction mp as [|[k0 v0] r IH]; intros s k; unfold symbol_index in *; cbn [find snd fst].
  - split; [discriminate|]. intros (pre & post & E & _). destruct pre; discriminate.
  - destruct (str_eqb v0 s) eqn:E0.
    + apply str_eqb_eq in E0. subst v0. cbn. split.
      * intros H. inversion H; subst. exists [], r. split; [reflexivity|constructor].
      * intros (pre & post & E & Hpre). destruct pre as [|p pre].
        -- inversion E; subst. reflexivity.
        -- inversion E; subst. inversion Hpre; subst. cbn in *. congruence.
    + split.
      * intros H. apply IH in H. destruct H as (pre & post & E & Hpre).
        exists ((k0, v0) :: pre), post. split; [rewrite E; reflexivity|].
        constructor; [|exact Hpre]. cbn. intro; subst. rewrite str_eqb_refl in E0. discriminate.
      * intros (pre & post & E & Hpre). destruct pre as [|p pre].
        -- inversion E; subst. rewrite str_eqb_refl in E0. discriminate.
        -- inversion E; subst. inversion Hpre; subst. apply IH. exists pre, post. split; [reflexivity|assumption].
Qed.

Lemma rOptionCb_set_symbol : forall e loc old s k,
  symbol_index (p_map e) s = Some k ->
  exists res, rOptionCb e loc old [ASy s] = Some res /\
              set_spec zkey Ai Ai None None loc old k res.
Proof.
  intros e loc old s k Hk. unfold rOptionCb.
  rewrite enum_key_symbol_index, Hk.
  eexists. split; [reflexivity|].
  unfold set_spec, clampK, rCAPPLY, zneqb, zkey. cbn [fst snd].
  destruct (old =? k); cbn; repeat split; reflexivity.
Qed.

(* -------------------------------------------------------------- toggles *)
Lemma rToggleCb_set : forall e loc old a t,
  arg_T a = Some t ->
  rToggleCb e loc old [a] =
    Some (if old =? t then (old, []) else (t, [Bcast (mk loc [a])])).
Proof.
  intros e loc old a t Ha. unfold rToggleCb. rewrite Ha.
  destruct (old =? t); reflexivity.
Qed.

Lemma rArrayTCb_elem_set : forall e loc old a t,
  arg_T a = Some t ->
  rArrayTCb_elem e loc old [a] =
    Some (t, if old =? t then [] else [Bcast (mk loc [a])]).
Proof.
  intros e loc old a t Ha. unfold rArrayTCb_elem. rewrite Ha.
  destruct (old =? t); reflexivity.
Qed.

Lemma toggle_set : forall e loc old a t,
  arg_T a = Some t ->
  rToggleCb e loc old [a] = Some (if old =? t then (old, []) else (t, [Bcast (mk loc [a])])) /\
  rArrayTCb_elem e loc old [a] = Some (t, if old =? t then [] else [Bcast (mk loc [a])]).
Proof.
  intros e loc old a t H. split; [apply rToggleCb_set|apply rArrayTCb_elem_set]; exact H.
Qed.

(* -------------------------------------------------------------- strings *)
Lemma strncpy_upd : forall n s x,
  nul_free s ->
  cstr (upd (strncpy n s ++ [x]) n 0) = Some (firstn n s) /\
  length (upd (strncpy n s ++ [x]) n 0) = S n.
Proof.
  induction n as [|n IH]; intros s x Hs.
  - cbn. split; reflexivity.
  - destruct s as [|c r].
    + cbn [strncpy app upd firstn]. destruct (IH [] x Hs) as [_ HL].
      split; [reflexivity|]. cbn [length]. rewrite HL. reflexivity.
    + inversion Hs as [|? ? Hc Hr]; subst.
      cbn [strncpy app upd firstn]. destruct (IH r x Hr) as [HC HL].
      split.
      * cbn [cstr]. destruct (c =? 0) eqn:E; [apply Z.eqb_eq in E; contradiction|].
        rewrite HC. reflexivity.
      * cbn [length]. rewrite HL. reflexivity.
Qed.

Lemma skipn_last : forall (buf : list Z) n, length buf = S n -> exists x, skipn n buf = [x].
Proof.
  intros buf n. revert buf. induction n as [|n IH]; intros buf H.
  - destruct buf as [|x [|y r]]; try discriminate. exists x. reflexivity.
  - destruct buf as [|x r]; [discriminate|]. cbn [length] in H. apply eq_add_S in H.
    cbn [skipn]. apply IH. exact H.
Qed.

Lemma rStringCb_set : forall len e loc buf s,
  1 <= len -> Z.of_nat (length buf) = len -> nul_free s ->
  exists buf', rStringCb len e loc buf [As s] =
                 Some (buf', [Bcast (mk loc [As (firstn (Z.to_nat (len - 1)) s)])]) /\
               cstr buf' = Some (firstn (Z.to_nat (len - 1)) s) /\
               length buf' = length buf.
Proof.
  intros len e loc buf s Hlen Hbuf Hs. unfold rStringCb.
  destruct (len <? 1) eqn:E1; [lia|].
  destruct (Z.of_nat (length buf) <? len) eqn:E2; [lia|]. cbn [orb].
  set (n := Z.to_nat (len - 1)).
  assert (HL : length buf = S n) by (unfold n; lia).
  destruct (skipn_last buf n HL) as [x Hx]. rewrite Hx.
  destruct (strncpy_upd n s x Hs) as [HC HLen]. rewrite HC.
  eexists. split; [reflexivity|]. split; [exact HC|]. rewrite HLen, HL. reflexivity.
Qed.

(* -------------------------------------------------------------- arrays *)
Lemma length_upd : forall A (l : list A) n v, length (upd l n v) = length l.
Proof.
  induction l as [|x r IH]; intros n v; [reflexivity|].
  destruct n; cbn; [reflexivity|]. rewrite IH. reflexivity.
Qed.

Lemma nth_error_upd_same : forall A (l : list A) n v,
  (n < length l)%nat -> nth_error (upd l n v) n = Some v.
Proof.
  induction l as [|x r IH]; intros n v H; [cbn in H; lia|].
  destruct n; cbn; [reflexivity|]. apply IH. cbn in H. lia.
Qed.

Lemma nth_error_upd_other : forall A (l : list A) n v j,
  j <> n -> nth_error (upd l n v) j = nth_error l j.
Proof.
  induction l as [|x r IH]; intros n v j H; [reflexivity|].
  destruct n; destruct j; cbn; try reflexivity; try congruence.
  apply IH. congruence.
Qed.

Lemma upd_same : forall A (l : list A) n v, nth_error l n = Some v -> upd l n v = l.
Proof.
  induction l as [|x r IH]; intros n v H; [reflexivity|].
  destruct n; cbn in *; [congruence|]. rewrite IH; [reflexivity|assumption].
Qed.

Lemma frame_upd : forall A (l : list A) n v,
  (n < length l)%nat -> frame l (upd l n v) n v.
Proof.
  intros A l n v H. unfold frame. split; [apply length_upd|]. split.
  - apply nth_error_upd_same. assumption.
  - intros j Hj. apply nth_error_upd_other. assumption.
Qed.

Lemma skipn_length_app : forall A (a b : list A), skipn (length a) (a ++ b) = b.
Proof. induction a as [|x a IH]; intros b; [reflexivity|]. cbn. apply IH. Qed.

Lemma is_digit_char : forall d, 0 <= d <= 9 -> is_digit (digit_char d) = true.
Proof.
  intros d H. unfold is_digit, digit_char. apply andb_true_iff. split; apply Z.leb_le; lia.
Qed.

Lemma atoi_acc_digits : forall ds acc rest,
  Forall (fun d => 0 <= d <= 9) ds -> starts_nondigit rest ->
  atoi_acc acc (map digit_char ds ++ rest) = fold_left (fun a d => 10 * a + d) ds acc.
Proof.
  induction ds as [|d ds IH]; intros acc rest Hds Hrest.
  - cbn. destruct rest as [|c r]; [reflexivity|]. cbn in *. rewrite Hrest. reflexivity.
  - inversion Hds as [|? ? Hd Hds']; subst. cbn [map app atoi_acc fold_left].
    rewrite (is_digit_char d Hd). rewrite (IH _ rest Hds' Hrest).
    unfold digit_char. f_equal. lia.
Qed.

(* the index an array callback computes = the number its address names *)
Lemma boils_idx_names : forall e ds rest,
  p_hash e = true -> digits_ok ds -> starts_nondigit rest ->
  boils_idx e (p_name e ++ map digit_char ds ++ rest) = digits_val ds.
Proof.
  intros e ds rest Hh [Hne Hds] Hrest. unfold boils_idx. rewrite Hh.
  rewrite skipn_length_app.
  destruct ds as [|d ds]; [contradiction|].
  inversion Hds as [|? ? Hd Hds']; subst.
  cbn [map app skip_nondigit]. rewrite (is_digit_char d Hd).
  change (digit_char d :: map digit_char ds ++ rest) with (map digit_char (d :: ds) ++ rest).
  rewrite (atoi_acc_digits (d :: ds) 0 rest Hds Hrest). reflexivity.
Qed.

Lemma digits_val_nonneg : forall ds, Forall (fun d => 0 <= d <= 9) ds -> 0 <= digits_val ds.
Proof.
  intros ds H. unfold digits_val.
  assert (G : forall acc, 0 <= acc -> 0 <= fold_left (fun a d => 10 * a + d) ds acc).
  { induction H as [|d ds Hd Hds IH]; intros acc Ha; cbn [fold_left]; [assumption|]. apply IH. lia. }
  apply G. lia.
Qed.

Lemma at_idx_elem : forall A (arr : list A) idx f cur,
  nth_error arr (Z.to_nat idx) = Some cur ->
  at_idx arr idx f =
    match f cur with
    | None => None
    | Some (v, o) => Some (upd arr (Z.to_nat idx) v, o)
    end.
Proof. intros A arr idx f cur H. unfold at_idx. rewrite H. reflexivity. Qed.

(* every array callback is its element callback applied to the element the
   address names, written back with all other elements kept *)
Lemma array_elemwise : forall e ds rest arr cur loc args,
  p_hash e = true -> digits_ok ds -> starts_nondigit rest ->
  nth_error arr (Z.to_nat (digits_val ds)) = Some cur ->
  let m := array_address e ds rest in
  let i := Z.to_nat (digits_val ds) in
  rArrayICb e loc m arr args = lifted arr i (rArrayICb_elem e loc cur args) /\
  rArrayFCb e loc m arr args = lifted arr i (rParamFCb e loc cur args) /\
  rArrayOptionCb e loc m arr args = lifted arr i (rOptionCb e loc cur args) /\
  rArrayTCb e loc m arr args = lifted arr i (rArrayTCb_elem e loc cur args).
Proof.
  intros e ds rest arr cur loc args Hh Hds Hrest Hcur m i.
  unfold rArrayICb, rArrayFCb, rArrayOptionCb, rArrayTCb, m, array_address.
  rewrite (boils_idx_names e ds rest Hh Hds Hrest).
  repeat rewrite (at_idx_elem _ arr _ _ cur Hcur).
  repeat split; reflexivity.
Qed.

Lemma lifted_frame : forall arr i r arr' o cur,
  nth_error arr i = Some cur ->
  lifted arr i r = Some (arr', o) ->
  exists v, r = Some (v, o) /\ frame arr arr' i v.
Proof.
  intros arr i r arr' o cur Hcur H. unfold lifted in H. destruct r as [[v o']|]; [|discriminate].
  inversion H; subst. exists v. split; [reflexivity|].
  apply frame_upd. apply nth_error_Some. rewrite Hcur. discriminate.
Qed.

(* a query leaves the array as it is *)
Lemma lifted_query : forall arr i cur o,
  nth_error arr i = Some cur -> lifted arr i (Some (cur, o)) = Some (arr, o).
Proof. intros arr i cur o H. unfold lifted. rewrite (upd_same _ arr i cur H). reflexivity. Qed.

(* ------------------------------------------ the numeric sets, all at once *)
Lemma numeric_set_spec : forall e loc old key mka mkb v r,
  numeric_set e loc old key mka mkb v r ->
  exists res, r = Some res /\ set_spec key mka mkb (p_min e) (p_max e) loc old v res.
Proof.
  intros e loc old key mka mkb v r H. destruct H.
  - apply rParamCb_set; assumption.
  - apply rParamICb_set.
  - apply rParamFCb_set; assumption.
  - apply (rOptionCb_set_int e loc old (Ai v) v). left. reflexivity.
  - apply (rOptionCb_set_int e loc old (Ac v) v). right. reflexivity.
  - apply rArrayICb_elem_set; assumption.
Qed.

Lemma numeric_clamp : forall e loc old key mka mkb v r,
  numeric_set e loc old key mka mkb v r ->
  exists o, r = Some (clampK key (p_min e) (p_max e) v, o).
Proof.
  intros. destruct (numeric_set_spec _ _ _ _ _ _ _ _ H) as ([st o] & E & S1 & _).
  cbn [fst] in S1. subst st. exists o. exact E.
Qed.

Lemma numeric_in_range : forall e loc old key mka mkb v r st o,
  numeric_set e loc old key mka mkb v r ->
  bounds_ordered key (p_min e) (p_max e) ->
  r = Some (st, o) -> in_rangeK key (p_min e) (p_max e) st.
Proof.
  intros e loc old key mka mkb v r st o H Hord E.
  destruct (numeric_clamp _ _ _ _ _ _ _ _ H) as (o' & E'). rewrite E in E'. inversion E'; subst.
  apply clampK_in_range. exact Hord.
Qed.

Lemma numeric_broadcast : forall e loc old key mka mkb v r st o,
  numeric_set e loc old key mka mkb v r -> r = Some (st, o) ->
  broadcasts o = [mk loc [mkb st]] /\ replies o = [].
Proof.
  intros e loc old key mka mkb v r st o H E.
  destruct (numeric_set_spec _ _ _ _ _ _ _ _ H) as (res & E' & S1 & _ & S3 & S4).
  rewrite E in E'. inversion E'; subst res. cbn [fst snd] in *. rewrite S1. split; assumption.
Qed.

Lemma numeric_undo_iff : forall e loc old key mka mkb v r st o,
  numeric_set e loc old key mka mkb v r -> r = Some (st, o) ->
  undo_events o = if key old =? key st then [] else [undo_event loc mka old st].
Proof.
  intros e loc old key mka mkb v r st o H E.
  destruct (numeric_set_spec _ _ _ _ _ _ _ _ H) as (res & E' & S1 & S2 & _).
  rewrite E in E'. inversion E'; subst res. cbn [fst snd] in *. rewrite S1. exact S2.
Qed.

(* storing the value that is already stored changes nothing and reports nothing *)
Lemma numeric_set_stored_again : forall e loc key mka mkb v r st o,
  numeric_set e loc st key mka mkb v r -> r = Some (st, o) ->
  undo_events o = [].
Proof.
  intros e loc key mka mkb v r st o H E.
  rewrite (numeric_undo_iff _ _ _ _ _ _ _ _ _ _ H E). rewrite Z.eqb_refl. reflexivity.
Qed.

(* ------------------------------------------------------------- queries *)
Lemma query_scalar : forall e loc v,
  rParamCb e loc v [] = Some (v, [Reply (mk loc [Ac v])]) /\
  rParamFCb e loc v [] = Some (v, [Reply (mk loc [Af v])]) /\
  rParamICb e loc v [] = Some (v, [Reply (mk loc [Ai v])]) /\
  rOptionCb e loc v [] = Some (v, [Reply (mk loc [Ai v])]) /\
  rToggleCb e loc v [] = Some (v, [Reply (mk loc [if v =? 0 then AFalse else ATrue])]) /\
  rArrayICb_elem e loc v [] = Some (v, [Reply (mk loc [Ai v])]) /\
  rArrayTCb_elem e loc v [] = Some (v, [Reply (mk loc [if v =? 0 then AFalse else ATrue])]).
Proof. intros. repeat split; reflexivity. Qed.

Lemma query_string : forall len e loc buf s,
  cstr buf = Some s -> rStringCb len e loc buf [] = Some (buf, [Reply (mk loc [As s])]).
Proof. intros len e loc buf s H. unfold rStringCb. rewrite H. reflexivity. Qed.

Lemma query_params : forall len e loc arr,
  len <= Z.of_nat (length arr) ->
  rParamsCb len e loc arr [] =
    Some (arr, [Reply (mk loc [Ab (map (fun v => v mod 256) (firstn (Z.to_nat len) arr))])]).
Proof.
  intros len e loc arr H. unfold rParamsCb.
  destruct (Z.of_nat (length arr) <? len) eqn:E; [lia|reflexivity].
Qed.

Lemma query_array : forall e ds rest arr cur loc,
  p_hash e = true -> digits_ok ds -> starts_nondigit rest ->
  nth_error arr (Z.to_nat (digits_val ds)) = Some cur ->
  let m := array_address e ds rest in
  rArrayICb e loc m arr [] = Some (arr, [Reply (mk loc [Ai cur])]) /\
  rArrayFCb e loc m arr [] = Some (arr, [Reply (mk loc [Af cur])]) /\
  rArrayOptionCb e loc m arr [] = Some (arr, [Reply (mk loc [Ai cur])]) /\
  rArrayTCb e loc m arr [] = Some (arr, [Reply (mk loc [if cur =? 0 then AFalse else ATrue])]).
Proof.
  intros e ds rest arr cur loc Hh Hds Hrest Hcur m.
  destruct (array_elemwise e ds rest arr cur loc [] Hh Hds Hrest Hcur) as (A1 & A2 & A3 & A4).
  destruct (query_scalar e loc cur) as (_ & Q2 & _ & Q4 & _ & Q6 & Q7).
  fold m in A1, A2, A3, A4.
  rewrite A1, A2, A3, A4, Q2, Q4, Q6, Q7.
  repeat split; apply lifted_query; assumption.
Qed.

(* an array set: the element callback's result on the named element, frame *)
Lemma array_set_frame : forall e ds rest arr cur loc args,
  p_hash e = true -> digits_ok ds -> starts_nondigit rest ->
  nth_error arr (Z.to_nat (digits_val ds)) = Some cur ->
  let m := array_address e ds rest in
  let i := Z.to_nat (digits_val ds) in
  forall cb elem, In (cb, elem)
      [(rArrayICb, rArrayICb_elem); (rArrayFCb, rParamFCb);
       (rArrayOptionCb, rOptionCb); (rArrayTCb, rArrayTCb_elem)] ->
  forall arr' o, cb e loc m arr args = Some (arr', o) ->
  exists v, elem e loc cur args = Some (v, o) /\ frame arr arr' i v.
Proof.
  intros e ds rest arr cur loc args Hh Hds Hrest Hcur m i cb elem Hin arr' o H.
  destruct (array_elemwise e ds rest arr cur loc args Hh Hds Hrest Hcur) as (A1 & A2 & A3 & A4).
  fold m in A1, A2, A3, A4. fold i in A1, A2, A3, A4.
  cbn [In] in Hin.
  destruct Hin as [E|[E|[E|[E|[]]]]]; inversion E; subst cb elem; clear E.
  - rewrite A1 in H. exact (lifted_frame arr i _ arr' o cur Hcur H).
  - rewrite A2 in H. exact (lifted_frame arr i _ arr' o cur Hcur H).
  - rewrite A3 in H. exact (lifted_frame arr i _ arr' o cur Hcur H).
  - rewrite A4 in H. exact (lifted_frame arr i _ arr' o cur Hcur H).
Qed.

(* non-vacuity: concrete inputs satisfying the hypotheses *)
Definition env_ex : penv :=
  {| p_name := [112; 50; 118]; p_hash := true; p_min := Some (-3); p_max := Some 9;
     p_map := [(0, [114]); (2, [98]); (5, [114])] |}.
Lemma numeric_set_nonvacuous :
  numeric_set env_ex [47] 5 zkey Ac Ac 100 (rParamCb env_ex [47] 5 [Ac 100]) /\
  rParamCb env_ex [47] 5 [Ac 100] =
    Some (9, [Reply (mk undo_path [As [47]; Ac 5; Ac 9]); Bcast (mk [47] [Ac 9])]).
Proof.
  split; [|reflexivity].
  apply NS_param.
  - unfold char_range. lia.
  - intros b E. inversion E. unfold char_range. lia.
  - intros b E. inversion E. unfold char_range. lia.
Qed.
Lemma array_address_nonvacuous :
  digits_ok [0; 3] /\ digits_val [0; 3] = 3 /\
  rArrayICb env_ex [47] (array_address env_ex [0; 3] []) [1; 2; 3; 4] [Ai 50] =
    Some ([1; 2; 3; 9], [Reply (mk undo_path [As [47]; Ai 4; Ai 9]); Bcast (mk [47] [Ai 9])]).
Proof.
  split; [|split; reflexivity].
  split; [discriminate|]. repeat constructor; lia.
Qed.
Lemma symbol_nonvacuous : symbol_index (p_map env_ex) [114] = Some 0 /\ symbol_index (p_map env_ex) [98] = Some 2.
Proof. split; reflexivity. Qed.

(* ------------------------------------------------------------ histories *)
Lemma is_undo_query : forall loc args, loc <> undo_path -> is_undo (Reply (mk loc args)) = false.
Proof.
  intros loc args H. cbn. destruct (str_eqb loc undo_path) eqn:E; [|reflexivity].
  apply str_eqb_eq in E. contradiction.
Qed.

Lemma undo_events_app : forall a b, undo_events (a ++ b) = undo_events a ++ undo_events b.
Proof. intros. unfold undo_events. apply filter_app. Qed.

Lemma undo_pairs_app : forall a b, undo_pairs (a ++ b) = undo_pairs a ++ undo_pairs b.
Proof. intros. unfold undo_pairs. rewrite undo_events_app. apply flat_map_app. Qed.

Lemma numeric_set_step : forall e loc old key mka mkb v r,
  numeric_set e loc old key mka mkb v r ->
  exists st o, r = Some (st, o) /\ st = clampK key (p_min e) (p_max e) v /\
    undo_events o = if key old =? key st then [] else [undo_event loc mka old st].
Proof.
  intros e loc old key mka mkb v r H.
  destruct (numeric_clamp _ _ _ _ _ _ _ _ H) as (o & E).
  eexists. exists o. split; [exact E|]. split; [reflexivity|].
  exact (numeric_undo_iff _ _ _ _ _ _ _ _ _ _ H E).
Qed.

Lemma scalar_step_of : forall (f : Z -> option (Z * list out)) old st o,
  f old = Some (st, o) -> scalar [old] f = Some ([st], o).
Proof. intros f old st o H. unfold scalar. rewrite H. reflexivity. Qed.

Lemma step_scalar : forall k e loc m old args,
  scalar_numeric k -> env_ok e k -> val_ok k old -> conforming e k args -> loc <> undo_path ->
  exists st o, step k e loc m [old] args = Some ([st], o) /\ val_ok k st /\
    undo_events o =
      if kind_key k old =? kind_key k st then [] else [undo_event loc (kind_arg k) old st].
Proof.
  intros k e loc m old args Hk Henv Hold Hc Hloc.
  inversion Hc; subst; try (destruct Hk as [Hk|[Hk|[Hk|Hk]]]; discriminate).
  - (* query *)
    exists old. destruct Hk as [Hk|[Hk|[Hk|Hk]]]; subst k; eexists;
      (split; [reflexivity|]); (split; [exact Hold|]);
      rewrite Z.eqb_refl; unfold undo_events; cbn [filter];
      rewrite (is_undo_query loc _ Hloc); reflexivity.
  - (* rParam *)
    destruct Henv as [Hmn Hmx].
    destruct (numeric_set_step e loc old _ _ _ _ _ (NS_param e loc old v H Hmn Hmx)) as (st & o & E & _ & U).
    exists st, o. split; [apply scalar_step_of; exact E|]. split; [exact I|exact U].
  - destruct (numeric_set_step e loc old _ _ _ _ _ (NS_paramI e loc old v)) as (st & o & E & _ & U).
    exists st, o. split; [apply scalar_step_of; exact E|]. split; [exact I|exact U].
  - destruct Henv as [Hmn Hmx].
    destruct (numeric_set_step e loc old _ _ _ _ _ (NS_paramF e loc old b Hold H Hmn Hmx)) as (st & o & E & S & U).
    exists st, o. split; [apply scalar_step_of; exact E|]. split; [|exact U].
    subst st. apply (good_clampK Z fkey nonan); assumption.
  - destruct (numeric_set_step e loc old _ _ _ _ _ (NS_option_i e loc old v)) as (st & o & E & _ & U).
    exists st, o. split; [apply scalar_step_of; exact E|]. split; [exact I|exact U].
  - destruct (numeric_set_step e loc old _ _ _ _ _ (NS_option_c e loc old v)) as (st & o & E & _ & U).
    exists st, o. split; [apply scalar_step_of; exact E|]. split; [exact I|exact U].
  - destruct (rOptionCb_set_symbol e loc old s k0 H) as ([st o] & E & S1 & S2 & _).
    cbn [fst snd] in S1, S2. unfold clampK in S1, S2.
    exists st, o. split; [apply scalar_step_of; exact E|]. split; [exact I|].
    subst st. exact S2.
Qed.

Lemma chainK_key_eq : forall key a b evs f,
  key a = key b -> chainK key b evs f -> chainK key a evs f.
Proof.
  intros key a b evs f H C. destruct evs as [|[old new] r]; cbn in *.
  - congruence.
  - destruct C as (C1 & C2 & C3). repeat split; try assumption. congruence.
Qed.

Lemma arg_val_kind_arg : forall k x, arg_val (kind_arg k x) = Some x.
Proof. intros k x. destruct k; reflexivity. Qed.

Lemma run_scalar_chain : forall k e ops v0,
  scalar_numeric k -> env_ok e k -> val_ok k v0 -> Forall (op_ok e k) ops ->
  exists v1 outs, run k e ops [v0] = Some ([v1], outs) /\ val_ok k v1 /\
                  chainK (kind_key k) v0 (undo_pairs outs) v1.
Proof.
  intros k e ops. induction ops as [|o r IH]; intros v0 Hk Henv Hv Hops.
  - exists v0, []. split; [reflexivity|]. split; [exact Hv|reflexivity].
  - inversion Hops as [|? ? [Hc Hloc] Hr]; subst.
    destruct (step_scalar k e (op_loc o) (op_m o) v0 (op_args o) Hk Henv Hv Hc Hloc)
      as (st & o1 & E1 & Hst & U).
    destruct (IH st Hk Henv Hst Hr) as (v1 & o2 & E2 & Hv1 & C).
    exists v1, (o1 ++ o2). cbn [run]. rewrite E1, E2. split; [reflexivity|]. split; [exact Hv1|].
    rewrite undo_pairs_app. unfold undo_pairs at 1. rewrite U.
    destruct (kind_key k v0 =? kind_key k st) eqn:EK.
    + cbn [flat_map app]. apply Z.eqb_eq in EK. apply (chainK_key_eq _ v0 st); assumption.
    + apply Z.eqb_neq in EK. unfold undo_event. cbn [flat_map undo_pair o_args mk app].
      rewrite !arg_val_kind_arg. cbn [app chainK]. repeat split; assumption.
Qed.

(* arrays over a whole history: same length, and an element no message of the
   history addresses keeps its value *)
Lemma at_idx_frame : forall A (arr arr' : list A) idx f o,
  at_idx arr idx f = Some (arr', o) ->
  length arr' = length arr /\
  forall j, j <> Z.to_nat idx -> nth_error arr' j = nth_error arr j.
Proof.
  intros A arr arr' idx f o H. unfold at_idx in H.
  destruct (nth_error arr (Z.to_nat idx)) as [cur|]; [|discriminate].
  destruct (f cur) as [[v o']|]; [|discriminate].
  inversion H; subst. split; [apply length_upd|].
  intros j Hj. apply nth_error_upd_other. exact Hj.
Qed.

Lemma step_array_frame : forall k e loc m arr args arr' o,
  is_array k = true -> step k e loc m arr args = Some (arr', o) ->
  length arr' = length arr /\
  forall j, j <> Z.to_nat (boils_idx e m) -> nth_error arr' j = nth_error arr j.
Proof.
  intros k e loc m arr args arr' o Hk H.
  destruct k; try discriminate; cbn [step] in H;
    unfold rArrayICb, rArrayFCb, rArrayOptionCb, rArrayTCb in H;
    exact (at_idx_frame _ _ _ _ _ _ H).
Qed.

Lemma run_array_frame : forall k e ops arr arr' outs,
  is_array k = true -> run k e ops arr = Some (arr', outs) ->
  length arr' = length arr /\
  forall j, Forall (fun o => Z.to_nat (boils_idx e (op_m o)) <> j) ops ->
            nth_error arr' j = nth_error arr j.
Proof.
  intros k e ops. induction ops as [|o r IH]; intros arr arr' outs Hk H.
  - cbn in H. inversion H; subst. split; [reflexivity|]. intros; reflexivity.
  - cbn [run] in H.
    destruct (step k e (op_loc o) (op_m o) arr (op_args o)) as [[st1 o1]|] eqn:E1; [|discriminate].
    destruct (run k e r st1) as [[st2 o2]|] eqn:E2; [|discriminate].
    inversion H; subst.
    destruct (step_array_frame _ _ _ _ _ _ _ _ Hk E1) as [L1 F1].
    destruct (IH _ _ _ Hk E2) as [L2 F2].
    split; [congruence|].
    intros j Hj. inversion Hj as [|? ? Hj1 Hjr]; subst.
    rewrite (F2 j Hjr). apply F1. intro; subst j. apply Hj1. reflexivity.
Qed.

(* a history on the int port of [env_ex] (range -3..9): set 100, query, set 100
   again, set -7 -> two events (5 -> 9), (9 -> -3) *)
Definition hist_ex : list op :=
  [ {| op_loc := [47; 105]; op_m := [105]; op_args := [Ai 100] |};
    {| op_loc := [47; 105]; op_m := [105]; op_args := [] |};
    {| op_loc := [47; 105]; op_m := [105]; op_args := [Ai 100] |};
    {| op_loc := [47; 105]; op_m := [105]; op_args := [Ai (-7)] |} ].
Lemma history_nonvacuous :
  Forall (op_ok env_ex KI) hist_ex /\
  exists outs, run KI env_ex hist_ex [5] = Some ([-3], outs) /\ undo_pairs outs = [(5, 9); (9, -3)].
Proof.
  split.
  - repeat constructor; discriminate.
  - eexists. split; reflexivity.
Qed.

(* The side condition "no NaN" of [numeric_set] cannot be dropped: a NaN is
   stored whatever the bounds are, and sending it again reports a change again
   (NaN 0x7fc00000 on a port with range 0.0 .. 1.0 holding 0.5). *)
Lemma nan_not_clamped :
  exists e loc old b,
    onan (p_min e) /\ onan (p_max e) /\ bounds_ordered fkey (p_min e) (p_max e) /\
    nonan old /\ f_is_nan b = true /\
    exists o1 o2, rParamFCb e loc old [Af b] = Some (b, o1) /\
                  rParamFCb e loc b [Af b] = Some (b, o2) /\
                  undo_events o2 = [undo_event loc Af b b].
Proof.
  exists {| p_name := [103]; p_hash := false; p_min := Some 0; p_max := Some 1065353216; p_map := [] |},
         [47; 103], 1056964608, 2143289344.
  split; [intros b E; inversion E; reflexivity|].
  split; [intros b E; inversion E; reflexivity|].
  split; [intros lo hi E1 E2; inversion E1; inversion E2; subst; cbn; lia|].
  split; [reflexivity|]. split; [reflexivity|].
  eexists. eexists. split; [reflexivity|]. split; reflexivity.
Qed.

(* ---------------------------------- histories: the range is an invariant *)
Definition elem_cb (k : kind) : option (penv -> str -> Z -> list arg -> option (Z * list out)) :=
  match k with
  | KP => Some rParamCb | KI => Some rParamICb | KF | KAF => Some rParamFCb
  | KO | KAO => Some rOptionCb | KAI => Some rArrayICb_elem
  | _ => None
  end.

Lemma symbol_index_in : forall mp s k, symbol_index mp s = Some k -> In (k, s) mp.
Proof.
  intros mp s k H. apply symbol_index_first in H. destruct H as (pre & post & E & _).
  subst mp. apply in_or_app. right. left. reflexivity.
Qed.

Lemma symbol_in_range : forall e s k,
  map_in_range e -> symbol_index (p_map e) s = Some k -> in_rangeK zkey (p_min e) (p_max e) k.
Proof.
  intros e s k Hm H. apply symbol_index_in in H. unfold map_in_range in Hm.
  rewrite Forall_forall in Hm. exact (Hm (k, s) H).
Qed.

Lemma numeric_set_inv : forall e loc old key mka mkb v r st o,
  numeric_set e loc old key mka mkb v r -> bounds_ordered key (p_min e) (p_max e) ->
  r = Some (st, o) ->
  st = clampK key (p_min e) (p_max e) v /\ in_rangeK key (p_min e) (p_max e) st.
Proof.
  intros e loc old key mka mkb v r st o H Hord E. split.
  - destruct (numeric_clamp _ _ _ _ _ _ _ _ H) as (o' & E'). rewrite E in E'. inversion E'. reflexivity.
  - exact (numeric_in_range _ _ _ _ _ _ _ _ _ _ H Hord E).
Qed.

Lemma char_range_0 : char_range 0.
Proof. unfold char_range. lia. Qed.

(* rArrayICb: the stored value does not depend on the previous content (only the
   undo event does) *)
Lemma rArrayICb_elem_stored : forall e loc old old' args st o,
  rArrayICb_elem e loc old args = Some (st, o) -> args <> [] ->
  exists o', rArrayICb_elem e loc old' args = Some (st, o').
Proof.
  intros e loc old old' args st o H Hne. unfold rArrayICb_elem in *.
  destruct args as [|a r]; [congruence|]. destruct (arg_i a); [|discriminate].
  unfold limit_apply_bcast in *. inversion H; subst. eexists. reflexivity.
Qed.

Lemma elem_inv : forall k e cb loc old args st o,
  elem_cb k = Some cb -> env_ok e k ->
  bounds_ordered (kind_key k) (p_min e) (p_max e) -> map_in_range e ->
  conforming e k args ->
  val_ok k old -> in_rangeK (kind_key k) (p_min e) (p_max e) old ->
  cb e loc old args = Some (st, o) ->
  val_ok k st /\ in_rangeK (kind_key k) (p_min e) (p_max e) st.
Proof.
  intros k e cb loc old args st o Hcb Henv Hord Hmap Hc Hv Hin H.
  inversion Hc; subst.
  - (* query *)
    destruct k; try discriminate; inversion Hcb; subst cb; cbn in H; inversion H; subst;
      split; assumption.
  - inversion Hcb; subst cb. destruct Henv as [Hmn Hmx].
    destruct (numeric_set_inv _ _ _ _ _ _ _ _ _ _ (NS_param e loc old v H0 Hmn Hmx) Hord H) as [_ R].
    split; [exact I|exact R].
  - inversion Hcb; subst cb.
    destruct (numeric_set_inv _ _ _ _ _ _ _ _ _ _ (NS_paramI e loc old v) Hord H) as [_ R].
    split; [exact I|exact R].
  - inversion Hcb; subst cb. destruct Henv as [Hmn Hmx].
    destruct (numeric_set_inv _ _ _ _ _ _ _ _ _ _ (NS_paramF e loc old b Hv H0 Hmn Hmx) Hord H) as [S R].
    split; [|exact R]. subst st. apply (good_clampK Z fkey nonan); assumption.
  - inversion Hcb; subst cb.
    destruct (numeric_set_inv _ _ _ _ _ _ _ _ _ _ (NS_option_i e loc old v) Hord H) as [_ R].
    split; [exact I|exact R].
  - inversion Hcb; subst cb.
    destruct (numeric_set_inv _ _ _ _ _ _ _ _ _ _ (NS_option_c e loc old v) Hord H) as [_ R].
    split; [exact I|exact R].
  - inversion Hcb; subst cb.
    destruct (rOptionCb_set_symbol e loc old s k0 H0) as ([st' o'] & E & S1 & _).
    rewrite H in E. inversion E; subst. cbn [fst] in S1. unfold clampK in S1. subst st'.
    split; [exact I|]. exact (symbol_in_range e s k0 Hmap H0).
  - inversion Hcb; subst cb. destruct Henv as [Hmn Hmx].
    (* what is stored does not depend on the previous content *)
    destruct (rArrayICb_elem_stored e loc old 0 [Ai v] st o H ltac:(discriminate)) as [o' H'].
    destruct (numeric_set_inv _ _ _ _ _ _ _ _ _ _ (NS_arrayI e loc 0 v char_range_0 H0 Hmn Hmx) Hord H') as [_ R].
    split; [exact I|exact R].
  - inversion Hcb; subst cb. destruct Henv as [Hmn Hmx].
    destruct (numeric_set_inv _ _ _ _ _ _ _ _ _ _ (NS_paramF e loc old b Hv H0 Hmn Hmx) Hord H) as [S R].
    split; [|exact R]. subst st. apply (good_clampK Z fkey nonan); assumption.
  - inversion Hcb; subst cb.
    destruct (numeric_set_inv _ _ _ _ _ _ _ _ _ _ (NS_option_i e loc old v) Hord H) as [_ R].
    split; [exact I|exact R].
  - inversion Hcb; subst cb.
    destruct (numeric_set_inv _ _ _ _ _ _ _ _ _ _ (NS_option_c e loc old v) Hord H) as [_ R].
    split; [exact I|exact R].
  - inversion Hcb; subst cb.
    destruct (rOptionCb_set_symbol e loc old s k0 H0) as ([st' o'] & E & S1 & _).
    rewrite H in E. inversion E; subst. cbn [fst] in S1. unfold clampK in S1. subst st'.
    split; [exact I|]. exact (symbol_in_range e s k0 Hmap H0).
Qed.

Lemma Forall_upd : forall A (P : A -> Prop) l n v, Forall P l -> P v -> Forall P (upd l n v).
Proof.
  intros A P l. induction l as [|x r IH]; intros n v Hl Hv; [constructor|].
  inversion Hl; subst. destruct n; cbn; constructor; try assumption. apply IH; assumption.
Qed.

Lemma Forall_nth_error : forall A (P : A -> Prop) l n x, Forall P l -> nth_error l n = Some x -> P x.
Proof.
  intros A P l n x Hl H. rewrite Forall_forall in Hl. apply Hl. exact (nth_error_In l n H).
Qed.

Lemma step_inv : forall k e loc m st args st' o,
  numeric_kind k -> env_ok e k ->
  bounds_ordered (kind_key k) (p_min e) (p_max e) -> map_in_range e ->
  conforming e k args -> stored_ok e k st ->
  step k e loc m st args = Some (st', o) -> stored_ok e k st'.
Proof.
  intros k e loc m st args st' o Hk Henv Hord Hmap Hc Hst H.
  assert (SC : forall cb, elem_cb k = Some cb ->
               scalar st (fun v => cb e loc v args) = Some (st', o) -> stored_ok e k st').
  { intros cb Hcb HS. unfold scalar in HS.
    destruct st as [|v [|w r]]; try discriminate.
    destruct (cb e loc v args) as [[v' o']|] eqn:E; [|discriminate]. inversion HS; subst.
    inversion Hst as [|? ? [Hv Hin] _]; subst.
    constructor; [|constructor].
    exact (elem_inv k e cb loc v args v' o Hcb Henv Hord Hmap Hc Hv Hin E). }
  assert (AR : forall cb, elem_cb k = Some cb ->
               at_idx st (boils_idx e m) (fun cur => cb e loc cur args) = Some (st', o) ->
               stored_ok e k st').
  { intros cb Hcb HA. unfold at_idx in HA.
    destruct (nth_error st (Z.to_nat (boils_idx e m))) as [cur|] eqn:En; [|discriminate].
    destruct (cb e loc cur args) as [[v' o']|] eqn:E; [|discriminate]. inversion HA; subst.
    destruct (Forall_nth_error _ _ _ _ _ Hst En) as [Hv Hin].
    apply Forall_upd; [exact Hst|].
    exact (elem_inv k e cb loc cur args v' o Hcb Henv Hord Hmap Hc Hv Hin E). }
  destruct Hk as [Hk|[Hk|[Hk|[Hk|[Hk|[Hk|Hk]]]]]]; subst k; cbn [step] in H.
  - exact (SC _ eq_refl H).
  - exact (SC _ eq_refl H).
  - exact (SC _ eq_refl H).
  - exact (SC _ eq_refl H).
  - exact (AR _ eq_refl H).
  - exact (AR _ eq_refl H).
  - exact (AR _ eq_refl H).
Qed.

Lemma run_inv : forall k e ops st st' outs,
  numeric_kind k -> env_ok e k ->
  bounds_ordered (kind_key k) (p_min e) (p_max e) -> map_in_range e ->
  Forall (fun o => conforming e k (op_args o)) ops -> stored_ok e k st ->
  run k e ops st = Some (st', outs) -> stored_ok e k st'.
Proof.
  intros k e ops. induction ops as [|o r IH]; intros st st' outs Hk Henv Hord Hmap Hops Hst H.
  - cbn in H. inversion H; subst. exact Hst.
  - cbn [run] in H. inversion Hops as [|? ? Hc Hr]; subst.
    destruct (step k e (op_loc o) (op_m o) st (op_args o)) as [[st1 o1]|] eqn:E1; [|discriminate].
    destruct (run k e r st1) as [[st2 o2]|] eqn:E2; [|discriminate].
    inversion H; subst.
    apply (IH st1 st' o2 Hk Henv Hord Hmap Hr); [|exact E2].
    exact (step_inv k e _ _ st _ st1 o1 Hk Henv Hord Hmap Hc Hst E1).
Qed.
