(* C18 - proofs about path_search (Ports/PathModel.v, part 3): collection,
   the sort as a sorted permutation, the unique-prefix pass against the
   Spec "every name that lies below a returned 'name/' entry is removed". *)
From Coq Require Import List ZArith Bool Arith Lia Permutation Sorting.Sorted.
From RtoscV Require Import Match.PatSpec Match.MatchModel Osc.OscModel Ports.MetaModel Ports.MetaProofs Ports.NameModel Ports.PathModel.
Import ListNotations.
Local Open Scope Z_scope.

(* ---- strings: prefix and order -------------------------------------------- *)
Lemma prefixb_refl a : prefixb a a = true.
Proof. induction a as [|x a IH]; cbn; [reflexivity|]. rewrite Z.eqb_refl. exact IH. Qed.

Lemma prefixb_app a b : prefixb a (a ++ b) = true.
Proof. induction a as [|x a IH]; cbn; [reflexivity|]. rewrite Z.eqb_refl. exact IH. Qed.

Lemma prefixb_spec a b : prefixb a b = true -> exists r, b = a ++ r.
Proof.
  revert b. induction a as [|x a IH]; intros b H; cbn in H.
  - exists b. reflexivity.
  - destruct b as [|y b]; [discriminate|]. apply andb_true_iff in H. destruct H as [E H].
    apply Z.eqb_eq in E. subst y. destruct (IH _ H) as [r ->]. exists r. reflexivity.
Qed.

Lemma prefixb_trans a b c : prefixb a b = true -> prefixb b c = true -> prefixb a c = true.
Proof.
  intros H1 H2. destruct (prefixb_spec _ _ H1) as [r ->]. destruct (prefixb_spec _ _ H2) as [r' ->].
  rewrite <- app_assoc. apply prefixb_app.
Qed.

Lemma prefixb_length a b : prefixb a b = true -> (length a <= length b)%nat.
Proof. intros H. destruct (prefixb_spec _ _ H) as [r ->]. rewrite app_length. lia. Qed.

Lemma prefixb_same_length a b : prefixb a b = true -> (length b <= length a)%nat -> a = b.
Proof.
  intros H L. destruct (prefixb_spec _ _ H) as [r ->]. rewrite app_length in L.
  destruct r; [rewrite app_nil_r; reflexivity | cbn [length] in L; lia].
Qed.

Lemma str_ltb_irrefl a : str_ltb a a = false.
Proof. induction a as [|x a IH]; cbn; [reflexivity|]. rewrite Z.eqb_refl. exact IH. Qed.

Lemma str_ltb_asym a : forall b, str_ltb a b = true -> str_ltb b a = false.
Proof.
  induction a as [|x a IH]; intros [|y b] H; cbn in *; try reflexivity; try discriminate.
  destruct (x =? y) eqn:E.
  - apply Z.eqb_eq in E. subst y. rewrite Z.eqb_refl. apply IH. exact H.
  - rewrite Z.eqb_sym, E. apply Z.ltb_lt in H. apply Z.ltb_ge. lia.
Qed.

(* negative transitivity: the complement of < is a total preorder *)
Lemma str_ltb_negtrans a : forall b c,
  str_ltb b a = false -> str_ltb c b = false -> str_ltb c a = false.
Proof.
  induction a as [|x a IH]; intros b c H1 H2.
  - destruct c; reflexivity.
  - destruct b as [|y b].
    + cbn in H1. discriminate H1.
    + destruct c as [|z c]; [cbn in H2; discriminate H2 |].
      cbn in *.
      destruct (y =? x) eqn:E1.
      * apply Z.eqb_eq in E1. subst y.
        destruct (z =? x) eqn:E2.
        -- eapply IH; eassumption.
        -- exact H2.
      * apply Z.ltb_ge in H1. apply Z.eqb_neq in E1.
        destruct (z =? y) eqn:E2.
        -- apply Z.eqb_eq in E2. subst z.
           replace (y =? x) with false by (symmetry; apply Z.eqb_neq; lia).
           apply Z.ltb_ge. lia.
        -- apply Z.ltb_ge in H2. apply Z.eqb_neq in E2.
           replace (z =? x) with false by (symmetry; apply Z.eqb_neq; lia).
           apply Z.ltb_ge. lia.
Qed.

(* a proper prefix is smaller *)
Lemma prefix_lt a : forall b, prefixb a b = true -> (length a < length b)%nat -> str_ltb a b = true.
Proof.
  induction a as [|x a IH]; intros [|y b] H L; cbn in *; try lia; try reflexivity; try discriminate.
  apply andb_true_iff in H. destruct H as [E H]. rewrite E. apply IH; [exact H | lia].
Qed.

(* between a string and one of its extensions lie only extensions *)
Lemma prefix_between e : forall x y,
  prefixb e y = true -> str_ltb x e = false -> str_ltb y x = false -> prefixb e x = true.
Proof.
  induction e as [|c e IH]; intros x y Hp H1 H2; [reflexivity|].
  destruct y as [|c' y]; [discriminate|]. cbn in Hp. apply andb_true_iff in Hp.
  destruct Hp as [E Hp]. apply Z.eqb_eq in E. subst c'.
  destruct x as [|d x]; [discriminate H1|].
  cbn in *.
  destruct (d =? c) eqn:E1.
  - apply Z.eqb_eq in E1. subst d. rewrite Z.eqb_refl in *. cbn. eapply IH; eassumption.
  - apply Z.ltb_ge in H1. rewrite Z.eqb_sym, E1 in H2. apply Z.ltb_ge in H2.
    apply Z.eqb_neq in E1. lia.
Qed.

(* ---- below ------------------------------------------------------------------ *)
Lemma below_parts e x :
  below e x = true <->
  (length e < length x)%nat /\ prefixb e x = true /\ last_char e = Some 47.
Proof.
  unfold below. rewrite !andb_true_iff, Nat.ltb_lt.
  destruct (last_char e) as [c|].
  - split.
    + intros [[A B] C]. apply Z.eqb_eq in C. subst c. repeat split; assumption.
    + intros [A [B C]]. inversion C. repeat split; assumption || reflexivity.
  - split; [intros [_ H]; discriminate | intros [_ [_ H]]; discriminate].
Qed.

Lemma below_lt e x : below e x = true -> str_ltb e x = true.
Proof. intros H. apply below_parts in H. destruct H as [L [P _]]. apply prefix_lt; assumption. Qed.

Lemma below_trans a b c : below a b = true -> below b c = true -> below a c = true.
Proof.
  intros H1 H2. apply below_parts in H1. apply below_parts in H2. apply below_parts.
  destruct H1 as [L1 [P1 S1]]. destruct H2 as [L2 [P2 S2]].
  repeat split; [lia | eapply prefixb_trans; eassumption | assumption].
Qed.

(* ---- hits ----------------------------------------------------------------------- *)
Definition nm (e : hit) : str := match e_name e with Some n => n | None => [] end.
Definition has_name (e : hit) : bool := match e_name e with Some _ => true | None => false end.
Definition hit_le (a b : hit) : Prop := entry_ltb b a = false.

Lemma entry_ltb_named a b : has_name a = true -> has_name b = true ->
  entry_ltb a b = str_ltb (nm a) (nm b).
Proof. unfold has_name, entry_ltb, nm. destruct (e_name a), (e_name b); intros; try discriminate; reflexivity. Qed.

Lemma entry_ltb_negtrans a b c :
  entry_ltb b a = false -> entry_ltb c b = false -> entry_ltb c a = false.
Proof.
  unfold entry_ltb. destruct (e_name a) as [x|], (e_name b) as [y|], (e_name c) as [z|];
    intros H1 H2; try reflexivity; try discriminate.
  eapply str_ltb_negtrans; eassumption.
Qed.

Lemma entry_ltb_asym a b : entry_ltb a b = true -> entry_ltb b a = false.
Proof.
  unfold entry_ltb. destruct (e_name a) as [x|], (e_name b) as [y|]; intros H; try reflexivity; try discriminate.
  apply str_ltb_asym. exact H.
Qed.

(* ---- the sort: a sorted permutation ----------------------------------------- *)
Lemma insert_perm x l : Permutation (x :: l) (insert_sorted x l).
Proof.
  induction l as [|y r IH]; cbn [insert_sorted]; [reflexivity|].
  destruct (entry_ltb y x); [|reflexivity].
  rewrite perm_swap. constructor. exact IH.
Qed.

Lemma sort_perm l : Permutation l (sort_entries l).
Proof.
  induction l as [|x r IH]; cbn [sort_entries]; [constructor|].
  rewrite <- insert_perm. constructor. exact IH.
Qed.

Lemma insert_sorted_sorted x l : StronglySorted hit_le l -> StronglySorted hit_le (insert_sorted x l).
Proof.
  induction l as [|y r IH]; intros H; cbn [insert_sorted].
  - repeat constructor.
  - inversion H as [|? ? Hr Hy]; subst.
    destruct (entry_ltb y x) eqn:E.
    + constructor; [apply IH; exact Hr|].
      rewrite Forall_forall. intros z Hz.
      apply (Permutation_in _ (Permutation_sym (insert_perm x r))) in Hz.
      destruct Hz as [<- | Hz].
      * unfold hit_le. apply entry_ltb_asym. exact E.
      * rewrite Forall_forall in Hy. apply Hy. exact Hz.
    + constructor; [exact H|].
      constructor; [exact E|].
      rewrite Forall_forall in *. intros z Hz. unfold hit_le in *.
      eapply entry_ltb_negtrans; [exact E | apply Hy; exact Hz].
Qed.

Lemma sort_sorted l : StronglySorted hit_le (sort_entries l).
Proof.
  induction l as [|x r IH]; cbn [sort_entries]; [constructor|].
  apply insert_sorted_sorted. exact IH.
Qed.

(* sorting a sorted list changes nothing (the insertion is stable) *)
Lemma insert_sorted_head x l : Forall (hit_le x) l -> insert_sorted x l = x :: l.
Proof.
  destruct l as [|y r]; intros H; cbn [insert_sorted]; [reflexivity|].
  inversion H as [|? ? Hy _]; subst. unfold hit_le in Hy. rewrite Hy. reflexivity.
Qed.

Lemma sort_sorted_id l : StronglySorted hit_le l -> sort_entries l = l.
Proof.
  induction 1 as [|x r Hr IH Hx]; cbn [sort_entries]; [reflexivity|].
  rewrite IH. apply insert_sorted_head. exact Hx.
Qed.

(* in a sorted list the named hits come first *)
Lemma sorted_named_first l :
  StronglySorted hit_le l -> firstn (length (filter has_name l)) l = filter has_name l.
Proof.
  induction 1 as [|x r Hr IH Hx]; [reflexivity|].
  cbn [filter]. destruct (has_name x) eqn:E.
  - cbn [length firstn]. f_equal. exact IH.
  - assert (Hn : filter has_name r = []).
    { clear IH Hr. induction r as [|y r IH]; [reflexivity|].
      inversion Hx as [|? ? Hy Hr]; subst. cbn [filter].
      destruct (has_name y) eqn:Ey.
      - exfalso. unfold hit_le, entry_ltb, has_name in *.
        destruct (e_name x); [discriminate|]. destruct (e_name y); [discriminate|discriminate].
      - apply IH. exact Hr. }
    rewrite Hn. reflexivity.
Qed.

Lemma filter_sorted {A} (R : A -> A -> Prop) f l :
  StronglySorted R l -> StronglySorted R (filter f l).
Proof.
  induction 1 as [|x r Hr IH Hx]; cbn [filter]; [constructor|].
  destruct (f x); [|exact IH]. constructor; [exact IH|].
  rewrite Forall_forall in *. intros y Hy. apply filter_In in Hy. apply Hx. apply Hy.
Qed.

Lemma filter_perm {A} (f : A -> bool) l l' : Permutation l l' -> Permutation (filter f l) (filter f l').
Proof.
  induction 1; cbn [filter].
  - constructor.
  - destruct (f x); [constructor|]; assumption.
  - destruct (f x), (f y); try apply perm_swap; apply Permutation_refl.
  - etransitivity; eassumption.
Qed.

Lemma count_unused_split l : length l = (length (filter has_name l) + count_unused l)%nat.
Proof.
  unfold count_unused. induction l as [|x r IH]; [reflexivity|].
  cbn [filter length]. unfold has_name at 1. destruct (e_name x); cbn [length]; lia.
Qed.

Lemma count_unused_length l : (length l - count_unused l)%nat = length (filter has_name l).
Proof. rewrite (count_unused_split l) at 1. lia. Qed.

(* ---- the marking pass ---------------------------------------------------------- *)
Definition unname (e : hit) : hit := {| e_name := None; e_data := e_data e; e_len := e_len e |}.

Fixpoint mark_spec (prev : str) (l : list hit) : list hit :=
  match l with
  | [] => []
  | e :: r => if below prev (nm e) then unname e :: mark_spec prev r else e :: mark_spec (nm e) r
  end.

Lemma last_char_some s : s <> [] -> exists c, last_char s = Some c.
Proof.
  induction s as [|x s IH]; [congruence|]. intros _. destruct s as [|y s].
  - exists x. reflexivity.
  - destruct IH as [c Hc]; [discriminate|]. exists c. cbn [last_char] in *. exact Hc.
Qed.

Lemma mark_pass_spec l : forall prev,
  prev <> [] -> Forall (fun e => has_name e = true /\ nm e <> []) l ->
  mark_pass prev l = Some (mark_spec prev l).
Proof.
  induction l as [|e r IH]; intros prev Hp Hl; [reflexivity|].
  inversion Hl as [|? ? [He Hne] Hr]; subst.
  cbn [mark_pass mark_spec]. unfold has_name in He. unfold nm in *.
  destruct (e_name e) as [cur|] eqn:En; [|discriminate].
  destruct (last_char_some prev Hp) as [c Hc].
  unfold below. rewrite Hc.
  destruct ((length prev <? length cur)%nat && prefixb prev cur) eqn:E1; cbn [andb].
  - destruct (c =? 47).
    + rewrite IH by assumption. reflexivity.
    + assert (IHc := IH cur Hne Hr). unfold nm in IHc. rewrite IHc. reflexivity.
  - assert (IHc := IH cur Hne Hr). rewrite IHc. reflexivity.
Qed.

(* what the Spec keeps: the hits no name of the list lies above *)
Definition keep_spec (S : list hit) (x : hit) : bool :=
  negb (existsb (fun e => below (nm e) (nm x)) S).

Definition name_le (a b : hit) : Prop := str_ltb (nm b) (nm a) = false.

(* invariant of the pass: prev dominates everything seen so far *)
Definition dominates (prev : str) (done : list hit) : Prop :=
  forall e y, In e done -> str_ltb y prev = false -> below (nm e) y = true -> below prev y = true.

Lemma mark_spec_keeps l : forall done prev,
  StronglySorted name_le (done ++ l) ->
  (exists e, In e done /\ nm e = prev) ->
  dominates prev done ->
  Forall (fun e => has_name e = true) l ->
  filter has_name (mark_spec prev l) = filter (keep_spec (done ++ l)) l.
Proof.
  induction l as [|x l IH]; intros done prev HS [e0 [He0 Hn0]] HD Hl; [reflexivity|].
  apply Forall_cons_iff in Hl. destruct Hl as [Hx Hl'].
  cbn [mark_spec filter].
  (* x is not smaller than anything seen, nothing later is smaller than x *)
  assert (Hle_done : forall e, In e done -> str_ltb (nm x) (nm e) = false).
  { clear - HS. induction done as [|d done IHd]; intros e He; [contradiction|].
    cbn [app] in HS. inversion HS as [|? ? HS' Hd]; subst. destruct He as [<- | He].
    - rewrite Forall_forall in Hd. apply (Hd x). apply in_or_app. right. left. reflexivity.
    - apply IHd; assumption. }
  assert (Hle_later : forall z, In z l -> str_ltb (nm z) (nm x) = false).
  { clear - HS. induction done as [|d done IHd].
    - cbn [app] in HS. inversion HS as [|? ? _ Hd]; subst. rewrite Forall_forall in Hd. exact Hd.
    - cbn [app] in HS. inversion HS; subst. apply IHd. assumption. }
  assert (Hprev_le : str_ltb (nm x) prev = false) by (rewrite <- Hn0; apply Hle_done; exact He0).
  (* the Spec's test on x reduces to the pass's test *)
  assert (Hkeep : keep_spec (done ++ x :: l) x = negb (below prev (nm x))).
  { unfold keep_spec. f_equal.
    destruct (below prev (nm x)) eqn:Eb.
    - apply existsb_exists. exists e0. split; [apply in_or_app; left; exact He0 | rewrite Hn0; exact Eb].
    - apply not_true_is_false. intros Hex. apply existsb_exists in Hex. destruct Hex as [e [He Hb]].
      apply in_app_or in He. destruct He as [He | [<- | He]].
      + rewrite (HD e (nm x) He Hprev_le Hb) in Eb. discriminate.
      + apply below_lt in Hb. rewrite str_ltb_irrefl in Hb. discriminate.
      + apply below_lt in Hb. rewrite (Hle_later e He) in Hb. discriminate. }
  rewrite Hkeep.
  replace (done ++ x :: l) with ((done ++ [x]) ++ l) in * by (rewrite <- app_assoc; reflexivity).
  destruct (below prev (nm x)) eqn:Eb; cbn [negb filter].
  - (* dropped: prev stays *)
    unfold has_name at 1. cbn [unname e_name].
    apply IH; try assumption.
    + exists e0. split; [apply in_or_app; left; exact He0 | exact Hn0].
    + intros e y He Hy Hb. apply in_app_or in He. destruct He as [He | [<- | []]].
      * eapply HD; eassumption.
      * eapply below_trans; eassumption.
  - (* kept: x becomes prev *)
    rewrite Hx. f_equal.
    apply IH; try assumption.
    + exists x. split; [apply in_or_app; right; left; reflexivity | reflexivity].
    + intros e y He Hy Hb. apply in_app_or in He. destruct He as [He | [<- | []]]; [|exact Hb].
      assert (Hpe : prefixb (nm e) (nm x) = true).
      { apply below_parts in Hb. destruct Hb as [_ [P _]].
        eapply prefix_between; [exact P | apply Hle_done; exact He | exact Hy]. }
      destruct (Nat.ltb (length (nm e)) (length (nm x))) eqn:EL.
      * (* then e would lie above x, and prev with it *)
        exfalso. apply Nat.ltb_lt in EL.
        assert (Hbx : below (nm e) (nm x) = true).
        { apply below_parts. apply below_parts in Hb. destruct Hb as [_ [_ S]]. repeat split; assumption. }
        rewrite (HD e (nm x) He Hprev_le Hbx) in Eb. discriminate.
      * apply Nat.ltb_ge in EL. rewrite <- (prefixb_same_length _ _ Hpe EL). exact Hb.
Qed.

(* ---- collection --------------------------------------------------------------- *)
Lemma length_render_block (b : list entry) :
  b <> [] -> Forall entry_ok b ->
  exists q t, render b = 58 :: t /\ meta (render b) = Some q /\
              length_ q = Some (Z.of_nat (length (render b))).
Proof.
  destruct b as [|[k v] es]; [congruence|]. intros _ H.
  destruct (length_render k v es H) as [q [Hq Hl]]. exists q. eexists.
  split; [unfold render; cbn [map concat]; rewrite render_entry_eq; reflexivity|].
  split; assumption.
Qed.

Lemma collect_one_spec needle p :
  meta_wf (pmeta p) ->
  collect_one needle p = Some (if prefixb needle (pname p) then [hit_of p] else []).
Proof.
  intros Hm. unfold collect_one, hit_of, spec_blob.
  destruct (prefixb needle (pname p)); [|reflexivity].
  destruct Hm as [-> | [es [-> Hes]]]; [reflexivity|].
  destruct es as [|e es]; [reflexivity|].
  match goal with |- context [render ?b] =>
    destruct (length_render_block b ltac:(discriminate) Hes) as [q [t [Ht [Hq Hl]]]] end.
  rewrite Hq. rewrite Ht in *. cbn [Z.eqb Pos.eqb]. rewrite Hl. reflexivity.
Qed.

Lemma collect_spec needle t :
  Forall (fun p => meta_wf (pmeta p)) t ->
  collect needle t = Some (map hit_of (spec_children needle t)).
Proof.
  induction 1 as [|p t Hp Ht IH]; [reflexivity|].
  cbn [collect spec_children filter]. rewrite (collect_one_spec needle p Hp).
  fold (spec_children needle t). rewrite IH.
  destruct (prefixb needle (pname p)); reflexivity.
Qed.

(* ---- the three options ---------------------------------------------------------- *)
Lemma hit_of_named p : has_name (hit_of p) = true /\ nm (hit_of p) = pname p.
Proof. split; reflexivity. Qed.

Lemma existsb_perm {A} (f : A -> bool) l l' : Permutation l l' -> existsb f l = existsb f l'.
Proof.
  induction 1; cbn [existsb]; try congruence.
  - destruct (f x), (f y); reflexivity.
Qed.

Lemma sorted_weaken {A} (R R' : A -> A -> Prop) l :
  (forall a b, In a l -> In b l -> R a b -> R' a b) -> StronglySorted R l -> StronglySorted R' l.
Proof.
  intros HR H. induction H as [|x r Hr IH Hx]; [constructor|].
  constructor.
  - apply IH. intros a b Ha Hb. apply HR; right; assumption.
  - rewrite Forall_forall in *. intros y Hy. apply HR; [left; reflexivity | right; exact Hy | apply Hx; exact Hy].
Qed.

Theorem search_unmodified root loc needle ch :
  addressed root loc = AdOk ch ->
  Forall (fun p => meta_wf (pmeta p)) ch ->
  path_search root loc needle Unmodified = SOk (map hit_of (spec_children needle ch)).
Proof. intros Ha Hm. unfold path_search. rewrite Ha, (collect_spec needle ch Hm). reflexivity. Qed.

Theorem search_sorted root loc needle ch :
  addressed root loc = AdOk ch ->
  Forall (fun p => meta_wf (pmeta p)) ch ->
  exists r, path_search root loc needle Sorted = SOk r /\
            Permutation r (map hit_of (spec_children needle ch)) /\
            StronglySorted hit_le r.
Proof.
  intros Ha Hm. unfold path_search. rewrite Ha, (collect_spec needle ch Hm).
  eexists. split; [reflexivity|]. split; [symmetry; apply sort_perm | apply sort_sorted].
Qed.

Theorem search_unique root loc needle ch :
  addressed root loc = AdOk ch ->
  Forall (fun p => meta_wf (pmeta p)) ch ->
  Forall (fun p => pname p <> []) ch ->
  let found := spec_children needle ch in
  exists r, path_search root loc needle SortedUniquePrefix = SOk r /\
            Permutation r (map hit_of (spec_unique (map pname found) found)) /\
            StronglySorted hit_le r.
Proof.
  intros Ha Hm Hne found. unfold path_search. rewrite Ha, (collect_spec needle ch Hm). fold found.
  set (es := map hit_of found).
  assert (Hes : Forall (fun e => has_name e = true /\ nm e <> []) es).
  { unfold es. rewrite Forall_forall. intros e He. apply in_map_iff in He. destruct He as [p [<- Hp]].
    split; [reflexivity|]. cbn. unfold found, spec_children in Hp. apply filter_In in Hp.
    rewrite Forall_forall in Hne. apply Hne. apply Hp. }
  pose proof (sort_perm es) as HP. pose proof (sort_sorted es) as HS.
  set (S := sort_entries es) in *.
  assert (HSn : Forall (fun e => has_name e = true /\ nm e <> []) S).
  { rewrite Forall_forall in *. intros e He. apply Hes. eapply Permutation_in; [symmetry; exact HP | exact He]. }
  (* the Spec's answer, phrased over the sorted hits *)
  assert (Hspec : Permutation (filter (keep_spec S) S) (map hit_of (spec_unique (map pname found) found))).
  { transitivity (filter (keep_spec S) es); [apply filter_perm; symmetry; exact HP|].
    unfold es, spec_unique. clear. induction found as [|p l IH] at 1 3; [constructor|].
    cbn [map filter].
    assert (E : keep_spec S (hit_of p) = negb (existsb (fun e => below e (pname p)) (map pname found))).
    { unfold keep_spec. f_equal.
      rewrite (existsb_perm _ S (map hit_of found)) by (symmetry; apply sort_perm).
      clear. induction found as [|q l IH]; [reflexivity|]. cbn [map existsb]. rewrite IH. reflexivity. }
    rewrite E. destruct (negb _); [cbn [map]; constructor|]; exact IH. }
  assert (HSname : StronglySorted name_le S).
  { eapply sorted_weaken; [|exact HS]. intros a b Ha' Hb' Hab. unfold hit_le, name_le in *.
    rewrite Forall_forall in HSn. rewrite entry_ltb_named in Hab; [exact Hab | apply HSn; assumption | apply HSn; assumption]. }
  unfold unique_prefix.
  destruct S as [|e0 r] eqn:ES.
  - exists []. split; [reflexivity|]. split; [exact Hspec | constructor].
  - destruct r as [|e1 r'].
    + exists [e0]. split; [reflexivity|]. split; [|exact HS].
      etransitivity; [|exact Hspec]. cbn [filter]. unfold keep_spec. cbn [existsb].
      assert (Hb : below (nm e0) (nm e0) = false).
      { apply not_true_is_false. intros Hb. apply below_lt in Hb. rewrite str_ltb_irrefl in Hb. discriminate. }
      rewrite Hb. reflexivity.
    + set (r := e1 :: r') in *.
      inversion HSn as [|? ? [Hn0 Hne0] HSr]; subst.
      unfold has_name in Hn0. destruct (e_name e0) as [n0|] eqn:En0; [|discriminate].
      assert (Hnm0 : nm e0 = n0) by (unfold nm; rewrite En0; reflexivity).
      rewrite <- Hnm0. rewrite (mark_pass_spec r (nm e0) Hne0 HSr).
      set (marked := e0 :: mark_spec (nm e0) r).
      rewrite count_unused_length.
      assert (Hkeep0 : keep_spec (e0 :: r) e0 = true).
      { unfold keep_spec. apply negb_true_iff. apply not_true_is_false. intros Hex.
        apply existsb_exists in Hex. destruct Hex as [e [He Hb]]. apply below_lt in Hb.
        destruct He as [<- | He].
        - rewrite str_ltb_irrefl in Hb. discriminate.
        - inversion HSname as [|? ? _ Hall]; subst. rewrite Forall_forall in Hall.
          specialize (Hall e He). unfold name_le in Hall. congruence. }
      assert (Hmk : filter has_name marked = filter (keep_spec (e0 :: r)) (e0 :: r)).
      { unfold marked. cbn [filter]. unfold has_name at 1. rewrite En0. rewrite Hkeep0. f_equal.
        apply (mark_spec_keeps r [e0] (nm e0)).
        - exact HSname.
        - exists e0. split; [left; reflexivity | reflexivity].
        - intros e y [<- | []] _ Hb. exact Hb.
        - eapply Forall_impl; [|exact HSr]. intros a [Ha' _]. exact Ha'. }
      pose proof (sort_perm marked) as HPm. pose proof (sort_sorted marked) as HSm.
      rewrite (Permutation_length (filter_perm has_name _ _ HPm)).
      rewrite (sorted_named_first _ HSm).
      eexists. split; [reflexivity|]. split.
      * etransitivity; [symmetry; apply filter_perm; exact HPm|]. rewrite Hmk. exact Hspec.
      * apply filter_sorted. exact HSm.
Qed.

(* ---- the reply message ----------------------------------------------------------- *)
From RtoscV Require Import Osc.OscEncProofs Osc.OscReadProofs.

Definition hit_ok (e : hit) : Prop :=
  (exists n, e_name e = Some n /\ Forall (fun c => c <> 0) n) /\
  0 <= e_len e < 4294967292 /\
  match e_data e with Some d => zlen d = e_len e | None => True end.

Lemma reply_match es : args_match (reply_tags es) (reply_args es) = true.
Proof. induction es as [|e es IH]; [reflexivity|]. cbn. exact IH. Qed.

Lemma reply_tags_nonul es : OscReadProofs.nonul (reply_tags es).
Proof.
  induction es as [|e es IH]; [constructor|]. unfold reply_tags. cbn [map concat app].
  constructor; [discriminate|]. constructor; [discriminate|]. exact IH.
Qed.

Lemma reply_args_wf es : Forall hit_ok es -> Forall payload_rd_wf (reply_args es).
Proof.
  induction 1 as [|e es He Hes IH]; [constructor|].
  destruct He as [[n [Hn Hnn]] [Hlen Hd]].
  cbn [reply_args flat_map app]. rewrite Hn.
  constructor; [exact Hnn|]. constructor; [|exact IH].
  cbn. split; [exact Hlen | exact Hd].
Qed.

Theorem reply_wellformed es (rwq : bool) loc needle :
  Forall hit_ok es ->
  Forall (fun c => c <> 0) loc -> Forall (fun c => c <> 0) needle ->
  let tags := (if rwq then [115; 115] else []) ++ reply_tags es in
  let args := (if rwq then [PStr loc; PStr needle] else []) ++ reply_args es in
  msg_wf paths_addr tags args /\
  forall buf,
    amessage (Some buf) paths_addr tags args =
    let enc := enc_spec paths_addr tags args in
    if zlen buf <? zlen enc then Ok (0, Some (zeros (zlen buf)))
    else Ok (zlen enc, Some (enc ++ skipn (length enc) buf)).
Proof.
  intros Hes Hl Hn tags args.
  assert (WF : msg_wf paths_addr tags args).
  { constructor.
    - discriminate.
    - repeat (constructor; [discriminate|]). constructor.
    - unfold tags. destruct rwq; cbn [app]; repeat (constructor; [discriminate|]); apply reply_tags_nonul.
    - unfold tags, args. destruct rwq; cbn; apply reply_match.
    - unfold args. destruct rwq; cbn [app]; repeat (constructor; [assumption|]); apply reply_args_wf; exact Hes. }
  split; [exact WF|].
  intros buf. apply (proj2 (amessage_spec paths_addr tags args (msg_wf_args_wf _ _ _ WF))).
Qed.

(* the hits path_search returns meet hit_ok *)
Definition port_ok (p : port) : Prop :=
  Forall (fun c => c <> 0) (pname p) /\ meta_wf (pmeta p) /\
  match pmeta p with Some b => Z.of_nat (length b) < 4294967292 | None => True end.

Lemma hit_of_ok p : port_ok p -> hit_ok (hit_of p).
Proof.
  intros [Hn [_ Hb]]. unfold hit_ok, hit_of, spec_blob. cbn [e_name e_data e_len].
  split; [exists (pname p); split; [reflexivity | exact Hn]|].
  destruct (pmeta p) as [[|c b]|]; cbn [fst snd]; try (split; [lia | exact I]).
  destruct (c =? 0); cbn [fst snd]; [split; [lia | exact I]|].
  split; [split; [lia | exact Hb] | reflexivity].
Qed.

Lemma hits_ok_children needle ch :
  Forall port_ok ch -> Forall hit_ok (map hit_of (spec_children needle ch)).
Proof.
  intros H. rewrite Forall_forall in *. intros e He. apply in_map_iff in He.
  destruct He as [p [<- Hp]]. apply hit_of_ok. apply H. unfold spec_children in Hp.
  apply filter_In in Hp. apply Hp.
Qed.

Lemma hits_ok_unique needle ch :
  Forall port_ok ch ->
  let found := spec_children needle ch in
  Forall hit_ok (map hit_of (spec_unique (map pname found) found)).
Proof.
  intros H found. rewrite Forall_forall in *. intros e He. apply in_map_iff in He.
  destruct He as [p [<- Hp]]. apply hit_of_ok. apply H. unfold spec_unique in Hp.
  apply filter_In in Hp. destruct Hp as [Hp _]. unfold found, spec_children in Hp.
  apply filter_In in Hp. apply Hp.
Qed.

Theorem search_reply root loc needle opt (rwq : bool) ch :
  addressed root loc = AdOk ch ->
  Forall port_ok ch -> Forall (fun p => pname p <> []) ch ->
  Forall (fun c => c <> 0) loc -> Forall (fun c => c <> 0) needle ->
  exists es,
    path_search root loc needle opt = SOk es /\ Forall hit_ok es /\
    let tags := (if rwq then [115; 115] else []) ++ reply_tags es in
    let args := (if rwq then [PStr loc; PStr needle] else []) ++ reply_args es in
    let enc := enc_spec paths_addr tags args in
    msg_wf paths_addr tags args /\
    forall buf,
      path_search_msg root loc needle opt rwq buf =
      if zlen buf <? zlen enc then ROk 0 (zeros (zlen buf))
      else ROk (zlen enc) (enc ++ skipn (length enc) buf).
Proof.
  intros Ha Hok Hne Hl Hn.
  assert (Hm : Forall (fun p => meta_wf (pmeta p)) ch).
  { eapply Forall_impl; [|exact Hok]. intros p Hp. apply Hp. }
  assert (Hres : exists es, path_search root loc needle opt = SOk es /\ Forall hit_ok es).
  { destruct opt.
    - eexists. split; [apply search_unmodified; eassumption | apply hits_ok_children; exact Hok].
    - destruct (search_sorted root loc needle ch Ha Hm) as [r [Hr [HP _]]].
      exists r. split; [exact Hr|]. eapply Permutation_Forall; [symmetry; exact HP|].
      apply hits_ok_children; exact Hok.
    - destruct (search_unique root loc needle ch Ha Hm Hne) as [r [Hr [HP _]]].
      exists r. split; [exact Hr|]. eapply Permutation_Forall; [symmetry; exact HP|].
      apply hits_ok_unique; exact Hok. }
  destruct Hres as [es [Hes Hok']]. exists es. split; [exact Hes|]. split; [exact Hok'|].
  destruct (reply_wellformed es rwq loc needle Hok' Hl Hn) as [WF Ham].
  cbn zeta. split; [exact WF|].
  intros buf. unfold path_search_msg. rewrite Hes. rewrite Ham. cbn zeta.
  unfold OscModel.byte in *.
  match goal with |- context [zlen buf <? ?x] => destruct (zlen buf <? x) end; reflexivity.
Qed.

(* non-vacuity: the table of include/rtosc/ports.h's example "a/", "a/b", "a/"
   plus "b" - sorted keeps the duplicate, unique-prefix drops "a/b" only *)
Definition ex_table : list port :=
  [Port [97;47] None None; Port [97;47;98] (Some [58;100;0;0]) None; Port [97;47] None None; Port [98] None None].

Example ex_search :
  addressed ex_table [] = AdOk ex_table /\
  Forall port_ok ex_table /\ Forall (fun p => pname p <> []) ex_table /\
  path_search ex_table [] [] Sorted =
    SOk (map hit_of [Port [97;47] None None; Port [97;47] None None;
                     Port [97;47;98] (Some [58;100;0;0]) None; Port [98] None None]) /\
  path_search ex_table [] [] SortedUniquePrefix =
    SOk (map hit_of [Port [97;47] None None; Port [97;47] None None; Port [98] None None]).
Proof.
  split; [reflexivity|]. split; [|split; [|split; reflexivity]].
  - assert (N : forall n, Forall (fun c => c <> 0) n -> port_ok (Port n None None)).
    { intros n Hn. split; [exact Hn|]. split; [left; reflexivity | exact I]. }
    constructor; [apply N; repeat (constructor; [discriminate|]); constructor|].
    constructor.
    { split; [repeat (constructor; [discriminate|]); constructor|]. split; [|cbn; lia].
      right. exists [([100], None)]. split; [reflexivity|].
      constructor; [|constructor]. split; [|exact I].
      split; [discriminate|]. split; [repeat (constructor; [discriminate|]); constructor | cbn; discriminate]. }
    constructor; [apply N; repeat (constructor; [discriminate|]); constructor|].
    constructor; [apply N; repeat (constructor; [discriminate|]); constructor|].
    constructor.
  - repeat (constructor; [discriminate|]). constructor.
Qed.
