(* C09 - model of rtosc::walk_ports (src/cpp/ports.cpp:1146-1193) with
   walk_ports_recurse0 (expansion of every '#N' of a sub-tree name),
   walk_ports_recurse (pruning), bundle_foreach (include/rtosc/bundle-foreach.h,
   expansion of the '#N' of a leaf name, recursive since the commit "fix:
   bundle_foreach expanded only the first '#' ..."), scat and the erase loop.
   No proofs in this file.

   The name buffer is modelled as the C string it holds (the bytes before the
   first terminator).  All writes of the modelled code either append to that
   string or restart it at a remembered position (write_head, old_end) and
   terminate it, so "the buffer" after a write is a prefix of the old string
   plus the new bytes.  The tie additionally checks on the real buffer that
   nothing but zeros follows the terminator whenever the walker is called and
   when walk_ports returns (the erase loop "while( *tmp) *tmp++=0" relies on
   it).  Pruning (null child object, port_is_enabled) is an oracle over the
   address of the sub-tree, as in DESIGN section 4 C09. *)
From Coq Require Import List ZArith Bool Arith.
From RtoscV Require Import Match.PatSpec Match.MatchModel Ports.MetaModel Ports.NameModel Ports.PathModel.
Import ListNotations.
Local Open Scope Z_scope.

Notation byte := Z (only parsing).
Notation str := (list Z) (only parsing).

(* the bytes a name contributes to an address: everything before ':' *)
Fixpoint upto_colon (s : str) : str :=
  match s with
  | [] => []
  | c :: t => if c =? 58 then [] else c :: upto_colon t
  end.

(* the literal before the first '#' and what follows the '#'; None = no '#' *)
Fixpoint split_hash (s : str) : option (str * str) :=
  match s with
  | [] => None
  | c :: t =>
      if c =? 35 then Some ([], t)
      else match split_hash t with
           | Some (l, r) => Some (c :: l, r)
           | None => None
           end
  end.

(* ---- bundle_foreach(p, name, old_end, ..., write_start) ---------------------
   w = the buffer up to the write position.  Result: the addresses the functor
   is called with, in order.  None = out of fuel, or the copy loop
   "while( *name != '#')" ran off a name without '#'. *)
Fixpoint bundle_addrs (fuel : nat) (name w : str) : option (list str) :=
  match fuel with
  | O => None
  | S f =>
      match split_hash name with
      | None => None
      | Some (lit, rest) =>
          let max := atoi rest in
          let rest' := skip_digits rest in
          let pos := w ++ lit in
          let idxs := map Z.of_nat (seq 0 (Z.to_nat max)) in
          if has_char 35 rest' then
            (* further enumerations behind this one: recurse at pos2 *)
            (fix each (l : list Z) : option (list str) :=
               match l with
               | [] => Some []
               | i :: r =>
                   match bundle_addrs f rest' (pos ++ dec i), each r with
                   | Some a, Some b => Some (a ++ b)
                   | _, _ => None
                   end
               end) idxs
          else Some (map (fun i => pos ++ dec i ++ upto_colon rest') idxs)
      end
  end.

(* bundle_foreach before that commit: only the first '#' is expanded, the rest
   of the name is appended verbatim (kept for WalkRegress.v) *)
Definition bundle_addrs_pinned (name w : str) : option (list str) :=
  match split_hash name with
  | None => None
  | Some (lit, rest) =>
      let max := atoi rest in
      let rest' := skip_digits rest in
      Some (map (fun i => w ++ lit ++ dec i ++ upto_colon rest')
                (map Z.of_nat (seq 0 (Z.to_nat max))))
  end.

(* ---- the runtime oracle --------------------------------------------------------
   o_null a     : the child object of the sub-tree at address a is NULL
   o_disabled a : the 'enabled by' port of the sub-tree at address a answers false
   o_selfoff a  : the 'enabled by' port named by the "self:" port of the table at
                  address a answers false *)
Record oracle := { o_null : str -> bool; o_disabled : str -> bool; o_selfoff : str -> bool }.

Definition report := (list nat * str)%type.     (* (port id, address) *)

Inductive wres := WOk (out : list report) (buf : str) | WFail.

(* strchr(read_head + 1, '#'): the first '#' that is not the first character *)
Definition split_hash1 (s : str) : option (str * str) :=
  match s with
  | [] => None
  | c :: t => match split_hash t with
              | Some (l, r) => Some (c :: l, r)
              | None => None
              end
  end.

Definition last_is_slash (w : str) : bool :=
  match last_char w with Some c => c =? 47 | None => false end.

(* ---- walk_ports_recurse0: the prefixes the sub-walk is started with ----------
   k = walk_ports_recurse + walk_ports on the sub-table, called with the buffer
   string; it returns the reports and the buffer it leaves.  The buffer left by
   the last call is what recurse0 leaves (nothing is erased here). *)
Fixpoint recurse0 (fuel : nat) (k : str -> wres) (read_head w : str) (buf : str) : wres :=
  match fuel with
  | O => WFail
  | S f =>
      match split_hash1 read_head with
      | Some (lit, rest) =>
          if has_char 58 lit then WFail       (* a ':' in front of a '#': outside the modelled names *)
          else
            let max := atoi rest in
            let rest1 := skip_digits rest in
            (* const bool slash = *read_head == '/'; if(slash) ++read_head;
               snprintf(write_head, 32, slash ? "%d/" : "%d", i) *)
            let slash := hd0 rest1 =? 47 in
            let rest2 := if slash then tl rest1 else rest1 in
            let sl : str := if slash then [47] else [] in
            (fix each (l : list nat) (out : list report) (buf : str) : wres :=
               match l with
               | [] => WOk out buf
               | i :: r =>
                   match recurse0 f k rest2 (w ++ lit ++ dec (Z.of_nat i) ++ sl) buf with
                   | WOk o b => each r (out ++ o) b
                   | WFail => WFail
                   end
               end) (seq 0 (Z.to_nat max)) [] buf
      | None =>
          let w1 := w ++ upto_colon read_head in
          let w2 := if last_is_slash w1 then w1 else w1 ++ [47] in
          k w2
      end
  end.

(* before the commit "fix: walk_ports wrote a '/' behind every index ...": the '/'
   was written whether or not the name has one (kept for WalkRegress.v) *)
Fixpoint recurse0_pinned (fuel : nat) (k : str -> wres) (read_head w : str) (buf : str) : wres :=
  match fuel with
  | O => WFail
  | S f =>
      match split_hash1 read_head with
      | Some (lit, rest) =>
          if has_char 58 lit then WFail       (* a ':' in front of a '#': outside the modelled names *)
          else
            let max := atoi rest in
            let rest1 := skip_digits rest in
            let rest2 := match rest1 with c :: t => if c =? 47 then t else rest1 | [] => rest1 end in
            (fix each (l : list nat) (out : list report) (buf : str) : wres :=
               match l with
               | [] => WOk out buf
               | i :: r =>
                   match recurse0_pinned f k rest2 (w ++ lit ++ dec (Z.of_nat i) ++ [47]) buf with
                   | WOk o b => each r (out ++ o) b
                   | WFail => WFail
                   end
               end) (seq 0 (Z.to_nat max)) [] buf
      | None =>
          let w1 := w ++ upto_colon read_head in
          let w2 := if last_is_slash w1 then w1 else w1 ++ [47] in
          k w2
      end
  end.

(* ---- walk_ports ------------------------------------------------------------------
   rt = None: no runtime object.  ids = the index path of the table. *)
Definition self_key : str := [115; 101; 108; 102; 58].                        (* "self:" *)
Definition enabled_by : str := [101;110;97;98;108;101;100;32;98;121].        (* "enabled by" *)

(* the port the walker is applied to when the table's own "self:" port is
   disabled: ask_port = base[enable_port], at name_buffer ++ enable_port *)
Definition self_toggle (t : list port) (buf : str) : option (nat * str) :=
  match index_op t self_key with
  | None => None
  | Some i =>
      match nth_error t i with
      | Some (Port _ (Some m) _) =>
          match meta m with
          | Some s =>
              match lookup s enabled_by with
              | Some (Some v) =>
                  match index_op t v with
                  | Some j => Some (j, buf ++ v)
                  | None => None
                  end
              | _ => None
              end
          | None => None
          end
      | _ => None
      end
  end.

(* port_is_enabled for a sub-tree port whose 'enabled by' names a port INSIDE it
   ("name/toggle"): for( ; *n && *n == *e && *n != '/' && *e != '/'; ++n, ++e);
   subport = ( *e == '/' && *n == '/').  Some (the part of e behind that '/') *)
Fixpoint subport_split (n e : str) : option str :=
  match n, e with
  | c :: n', d :: e' =>
      if (c =? 47) || (d =? 47) then (if (c =? 47) && (d =? 47) then Some e' else None)
      else if c =? d then subport_split n' e' else None
  | _, _ => None
  end.

(* when such a sub-tree is disabled the walker is still applied to the enabling
   port: ask_port = port.ports[toggle], at name_buffer ++ toggle - the sub-tree's own
   (expanded) address followed by what stands behind "name/" in the property (since
   the commit "fix: the enabling port inside a disabled enumerated sub-tree ...";
   before: collapsePath(name_buffer ++ "../" ++ enable_port), sub_toggle_pinned) *)
Definition sub_toggle (q : port) (b : str) : option (nat * str) :=
  match q with
  | Port qn (Some m) (Some sub) =>
      match meta m with
      | Some s =>
          match lookup s enabled_by with
          | Some (Some v) =>
              match subport_split qn v with
              | Some e' =>
                  match index_op sub e' with
                  | Some j => Some (j, b ++ e')
                  | None => None
                  end
              | None => None
              end
          | _ => None
          end
      | None => None
      end
  | _ => None
  end.

Definition sub_toggle_pinned (q : port) (b : str) : option (nat * str) :=
  match q with
  | Port qn (Some m) (Some sub) =>
      match meta m with
      | Some s =>
          match lookup s enabled_by with
          | Some (Some v) =>
              match subport_split qn v with
              | Some e' =>
                  match index_op sub e', collapse_str (b ++ [46; 46; 47] ++ v) with
                  | Some j, Some (_, a) => Some (j, a)
                  | _, _ => None
                  end
              | None => None
              end
          | _ => None
          end
      | None => None
      end
  | _ => None
  end.

(* what is reported for a sub-tree that is not visited *)
Definition skipped_reports (rt : option oracle) (ids : list nat) (i : nat) (q : port) (b : str) : list report :=
  match rt with
  | Some o =>
      if negb (o_null o b) && o_disabled o b then
        match sub_toggle q b with
        | Some (j, a) => [(ids ++ [i; j], a)]
        | None => []
        end
      else []
  | None => []
  end.

Section Table.
  (* walk_sub = walk_ports on a port's own sub-table (the recursion of walk_port below) *)
  Variable walk_sub : port -> list nat -> str -> wres.
  Variable rt : option oracle.
  Variable ids : list nat.
  Variable old_end : nat.

  (* what walk_ports does with one port of the table *)
  Definition step_port (i : nat) (q : port) (buf : str) : wres :=
    match q with
    | Port qn _ (Some _) =>
        recurse0 (S (length qn))
          (fun b =>
             (* walk_ports_recurse: child object, 'enabled by', then the sub-table *)
             let skip := match rt with
                         | Some o => o_null o b || o_disabled o b
                         | None => false
                         end in
             if skip then WOk (skipped_reports rt ids i q b) b else walk_sub q (ids ++ [i]) b)
          qn buf buf
    | Port qn _ None =>
        if has_char 35 qn then
          match bundle_addrs (S (length qn)) qn buf with
          | Some addrs => WOk (map (fun a => (ids ++ [i], a)) addrs) buf
          | None => WFail
          end
        else
          let b := buf ++ upto_colon qn in
          WOk [(ids ++ [i], b)] b
    end.

  (* for(const Port &p: *base) { ...; char *tmp = old_end; while( *tmp) *tmp++=0; } *)
  Fixpoint loop_ports (l : list port) (i : nat) (out : list report) (buf : str) {struct l} : wres :=
    match l with
    | [] => WOk out buf
    | q :: r =>
        match step_port i q buf with
        | WFail => WFail
        | WOk o b =>
            if Nat.ltb (length b) old_end then WFail
            else loop_ports r (S i) (out ++ o) (firstn old_end b)
        end
    end.
End Table.

Definition norm (buf : str) : str := match buf with [] => [47] | _ => buf end.

Fixpoint walk_port (rt : option oracle) (ids : list nat) (p : port) (buf0 : str) {struct p} : wres :=
  match p with
  | Port _ _ None => WFail
  | Port _ _ (Some t) =>
      let buf := norm buf0 in                       (* if(name_buffer[0] == 0) name_buffer[0] = '/' *)
      let selfoff := match rt with Some o => o_selfoff o buf | None => false end in
      if selfoff then
        match self_toggle t buf with
        | Some (j, a) => WOk [(ids ++ [j], a)] buf
        | None => WFail
        end
      else
        loop_ports (fun q ids' b => walk_port rt ids' q b) rt ids (length buf) t 0%nat [] buf
  end.

Definition walk (rt : option oracle) (root : list port) (buf : str) : wres :=
  walk_port rt [] (Port [] None (Some root)) buf.

(* ---- Spec side ---------------------------------------------------------------------
   structured trees: every name is a list of segments plus an argument part *)
Inductive sport := SPort (segs : list seg) (args : str) (meta : option (list byte)) (sub : option (list sport)).

Fixpoint render_port (p : sport) : port :=
  match p with
  | SPort segs args m sub =>
      Port (render_name segs args) m
           (match sub with Some l => Some (map render_port l) | None => None end)
  end.

(* the addresses of the tree: every leaf under every expansion of every '#N'
   on its path, in table order, leftmost index slowest *)
Fixpoint spec_addrs_port (ids : list nat) (prefix : str) (p : sport) {struct p} : list report :=
  match p with
  | SPort segs _ _ None => map (fun a => (ids, prefix ++ a)) (expand segs)
  | SPort segs _ _ (Some l) =>
      flat_map (fun a =>
        (fix go (l : list sport) (i : nat) : list report :=
           match l with
           | [] => []
           | q :: r => spec_addrs_port (ids ++ [i]) (prefix ++ a) q ++ go r (S i)
           end) l 0%nat) (expand segs)
  end.

Definition spec_addrs (root : list sport) : list report :=
  spec_addrs_port [] [] (SPort [Lit [47]] [] None (Some root)).
