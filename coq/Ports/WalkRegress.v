(* C09 - regression witnesses: bundle_foreach and walk_ports_recurse0 as they
   were before the "fix:" commits of the work-C18 branch (replayed on the real
   code: corpus/C09/defects.txt). *)
From Coq Require Import List ZArith Bool.
From RtoscV Require Import Match.PatSpec Match.MatchModel Ports.NameModel Ports.PathModel Ports.WalkModel.
Import ListNotations.
Local Open Scope Z_scope.

(* D6: the leaf "a#2/b#3" below "/" *)
Definition d6_name : list Z := [97;35;50;47;98;35;51].

(* pinned: two addresses that still contain "#3" - nothing dispatches them;
   fixed: the six concrete addresses, which are exactly expand [a;#2;/b;#3] *)
Lemma multi_hash_leaf_pinned_refuted :
  bundle_addrs_pinned d6_name [47] =
    Some [[47;97;48;47;98;35;51]; [47;97;49;47;98;35;51]] /\
  bundle_addrs (S (length d6_name)) d6_name [47] =
    Some (map (app [47]) (expand [Lit [97]; Enum 2; Lit [47;98]; Enum 3])) /\
  bundle_addrs_pinned d6_name [47] <>
    Some (map (app [47]) (expand [Lit [97]; Enum 2; Lit [47;98]; Enum 3])).
Proof. repeat split; vm_compute; congruence. Qed.

(* walk_ports_recurse0 before the commit "fix: walk_ports wrote a '/' behind
   every index ...": the sub-tree name a#2b/ (started below "/") gave the
   prefixes /a0/b/ and /a1/b/ - addresses the name a#2b/ does not match; the
   repaired one gives /a0b/, /a1b/ = "/" ++ expand [a; #2; b/] *)
Definition slash_name : list Z := [97; 35; 50; 98; 47].
Definition probe (b : list Z) : wres := WOk [([0%nat], b)] b.

Lemma recurse0_slash_pinned_refuted :
  recurse0_pinned 6 probe slash_name [47] [47] =
    WOk [([0%nat], [47;97;48;47;98;47]); ([0%nat], [47;97;49;47;98;47])] [47;97;49;47;98;47] /\
  recurse0 6 probe slash_name [47] [47] =
    WOk (map (fun a => ([0%nat], 47 :: a)) (expand [Lit [97]; Enum 2; Lit [98; 47]])) [47;97;49;98;47].
Proof. split; vm_compute; reflexivity. Qed.

(* port_is_enabled before the commit "fix: the enabling port inside a disabled
   enumerated sub-tree was reported with the unexpanded name ...": the address of
   the enabling port was collapsePath(name_buffer ++ "../" ++ enable_port).  For the
   sub-tree "arr#3/" (enabled by "arr#3/tg") skipped at "/arr1/" that is
   "/arr#3/tg" - an address nothing dispatches; repaired: "/arr1/tg". *)
Definition en_port : port :=
  Port [97;114;114;35;51;47]
       (Some ([58;101;110;97;98;108;101;100;32;98;121;0] ++ [61;97;114;114;35;51;47;116;103;0] ++ [0]))
       (Some [Port [116;103;58;58;84;58;70] None None; Port [120] None None]).

Lemma enabled_inside_enumerated_pinned_refuted :
  sub_toggle_pinned en_port [47;97;114;114;49;47] = Some (0%nat, [47;97;114;114;35;51;47;116;103]) /\
  sub_toggle en_port [47;97;114;114;49;47] = Some (0%nat, [47;97;114;114;49;47;116;103]).
Proof. split; vm_compute; reflexivity. Qed.
