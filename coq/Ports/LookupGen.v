(* C18 - lookup of walked addresses, in general: every (port, address) the walk
   reports is found by apropos, for trees of the documented name shape whose
   sibling names answer disjoint sets of addresses. *)
From Coq Require Import List ZArith Bool Arith Lia.
From RtoscV Require Import Match.PatSpec Match.MatchModel Match.MatchProofs
     Ports.DispatchModel Ports.DispatchProofs Ports.TreeProofs
     Ports.MetaModel Ports.NameModel Ports.PathModel Ports.WalkModel Ports.WalkProofs
     Ports.DecProofs Ports.EnumProofs Ports.DispatchWalk.
Import ListNotations.
Local Open Scope Z_scope.

(* a port answers a path in the sense of apropos: its name matches it as a
   pattern, or the (non-empty) path is a prefix of the raw name *)
Definition answers (name m : list Z) : Prop :=
  (exists r pe, match_path name m = MRet r pe) \/ (m <> [] /\ NameModel.prefixb m name = true).

(* a path (NUL- and ':'-free) that one port of a table matches is not answered
   by another port of that table; at every level *)
Definition lookup_disjoint (l : list sport) : Prop :=
  forall j j' q q' m, nth_error l j = Some q -> nth_error l j' = Some q' -> addr_ok m ->
    (exists r pe, match_path (sname q) m = MRet r pe) -> answers (sname q') m -> j = j'.

Fixpoint lok (p : sport) : Prop :=
  match p with
  | SPort sg a _ None =>
      dsegs_wf sg /\ last_not_slash (map conv sg) /\
      match sg with NameModel.Lit (c :: _) :: _ => c <> 47 | _ => False end
  | SPort sg a _ (Some l) =>
      a = [] /\ (exists cs, sg = comps_segs cs /\ cs <> [] /\ Forall dcomp cs) /\ lookup_disjoint l /\
      (fix all (l : list sport) : Prop := match l with [] => True | x :: r => lok x /\ all r end) l
  end.

Lemma lok_all l :
  (fix all (l : list sport) : Prop := match l with [] => True | x :: r => lok x /\ all r end) l -> Forall lok l.
Proof. induction l as [|x r IH]; intros H; [constructor|]. destruct H. constructor; auto. Qed.

Lemma rtosc_match_path_of name m ty pe :
  rtosc_match name m ty = Some (true, Some pe) -> exists r, match_path name m = MRet r pe.
Proof.
  unfold rtosc_match. destruct (match_path name m) as [|r pe'|]; [discriminate| |discriminate].
  destruct (hd0 r =? 58); intros H; inversion H; subst; eexists; reflexivity.
Qed.

Lemma pname_render q : pname (render_port q) = sname q.
Proof. destruct q as [sg a m [l|]]; reflexivity. Qed.

Lemma psub_render q : psub (render_port q) = match q with SPort _ _ _ (Some l) => Some (map render_port l) | _ => None end.
Proof. destruct q as [sg a m [l|]]; reflexivity. Qed.

Section Loops.
  Variable rec : port -> list Z -> ares.
  Variable t : list port.
  Variable path : list Z.

  (* ports that do not answer the path are passed over by both loops *)
  Lemma loop1_skip pre : forall rest i,
    Forall (fun q => ~ answers (sname q) path) pre ->
    apropos_loop1 rec false t path (map render_port pre ++ rest) i =
    apropos_loop1 rec false t path rest (i + length pre).
  Proof.
    induction pre as [|q pre IH]; intros rest i H; [rewrite Nat.add_0_r; reflexivity|].
    inversion H as [|? ? Hq Hp]; subst. cbn [map app apropos_loop1]. rewrite pname_render.
    replace (i + length (q :: pre))%nat with (S i + length pre)%nat by (cbn [length]; lia).
    destruct (has_char 47 (sname q)); [|apply IH; exact Hp].
    destruct (match_path (sname q) path) as [|r pe|] eqn:E.
    - apply IH; exact Hp.
    - exfalso. apply Hq. left. eauto.
    - exfalso. exact (match_path_nofuel _ _ E).
  Qed.

  Lemma leaf_skip pre : forall rest i,
    Forall (fun q => ~ answers (sname q) path) pre ->
    apropos_leaf (map render_port pre ++ rest) i path = apropos_leaf rest (i + length pre) path.
  Proof.
    induction pre as [|q pre IH]; intros rest i H; [rewrite Nat.add_0_r; reflexivity|].
    inversion H as [|? ? Hq Hp]; subst. cbn [map app apropos_leaf]. rewrite pname_render.
    replace (i + length (q :: pre))%nat with (S i + length pre)%nat by (cbn [length]; lia).
    destruct (is_nil path) eqn:En; [apply IH; exact Hp|].
    destruct (NameModel.prefixb path (sname q)) eqn:Ep.
    - exfalso. apply Hq. right. split; [intros ->; discriminate | exact Ep].
    - destruct (match_path (sname q) path) as [|r pe|] eqn:E.
      + apply IH; exact Hp.
      + exfalso. apply Hq. left. eauto.
      + exfalso. exact (match_path_nofuel _ _ E).
  Qed.
End Loops.

(* the ports around index j of a table do not answer what port j answers *)
Lemma others_silent l j q m :
  lookup_disjoint l -> nth_error l j = Some q -> addr_ok m ->
  (exists r pe, match_path (sname q) m = MRet r pe) ->
  exists pre post, l = pre ++ q :: post /\ length pre = j /\
    Forall (fun q' => ~ answers (sname q') m) pre /\ Forall (fun q' => ~ answers (sname q') m) post.
Proof.
  intros Hd E Haddr Ha. destruct (nth_error_split l j E) as [pre [post [-> Hlen]]].
  exists pre, post. split; [reflexivity|]. split; [exact Hlen|]. split; rewrite Forall_forall; intros q' Hin Ha'.
  - destruct (In_nth_error _ _ Hin) as [k Ek].
    assert (Hk : (k < length pre)%nat) by (apply nth_error_Some; congruence).
    assert (j = k); [|lia].
    eapply (Hd j k q q' m); [exact E | rewrite nth_error_app1 by exact Hk; exact Ek | exact Haddr | exact Ha | exact Ha'].
  - destruct (In_nth_error _ _ Hin) as [k Ek].
    assert (j = S (length pre + k)); [|lia].
    eapply (Hd j (S (length pre + k)) q q' m); [exact E | | exact Haddr | exact Ha | exact Ha'].
    rewrite nth_error_app2 by lia. replace (S (length pre + k) - length pre)%nat with (S k) by lia. exact Ek.
Qed.

Lemma strip_slash_id a : hd0 a <> 47 ->
  match a with c :: r => if c =? 47 then r else a | [] => a end = a.
Proof. destruct a as [|c r]; [reflexivity|]. cbn [hd0]. intros H. destruct (c =? 47) eqn:E; [apply Z.eqb_eq in E; contradiction | reflexivity]. Qed.

Lemma reaches_hd l : forall id a ty, Forall lok l -> reaches l id a ty -> hd0 a <> 47 /\ a <> [].
Proof.
  intros id a ty Hl H. destruct id as [|j rest]; [contradiction|]. cbn [reaches] in H.
  destruct (nth_error l j) as [[sg args m [l'|]]|] eqn:E; [| |contradiction];
    rewrite Forall_forall in Hl; pose proof (Hl _ (nth_error_In _ _ E)) as Hq; cbn [lok] in Hq.
  - destruct H as [x [a' [Hx [-> _]]]]. destruct Hq as [_ [[cs [-> [Hcs Hcl]]] _]].
    destruct (comps_expand cs Hcs x Hx) as [y [Hy ->]].
    destruct cs as [|c r]; [congruence|]. inversion Hcl as [|? ? Hc _]; subst.
    destruct Hc as [Hne [_ [Hns _]]]. destruct c as [t0 [n|]]; cbn [comps_conv comp_conv app expand fst] in *.
    + apply in_map_iff in Hy. destruct Hy as [z [<- _]]. destruct t0 as [|c0 t0]; [congruence|].
      cbn [app hd0]. split; [intros ->; apply Hns; left; reflexivity | discriminate].
    + apply in_map_iff in Hy. destruct Hy as [z [<- _]]. destruct t0 as [|c0 t0]; [congruence|].
      cbn [app hd0]. split; [intros ->; apply Hns; left; reflexivity | discriminate].
  - destruct H as [_ [Ha _]]. destruct Hq as [_ [_ Hh]].
    destruct sg as [|[[|c0 s]|n] sg]; try contradiction.
    cbn [expand] in Ha. apply in_map_iff in Ha. destruct Ha as [z [<- _]].
    cbn [app hd0]. split; [exact Hh | discriminate].
Qed.

Lemma reaches_chars_lok l : forall id a ty, Forall lok l -> reaches l id a ty -> Forall achar a.
Proof.
  intros id. revert l. induction id as [|j rest IH]; intros l a ty Hl H; [contradiction|].
  cbn [reaches] in H. destruct (nth_error l j) as [[sg args m [l'|]]|] eqn:E; [| |contradiction].
  - destruct H as [x [a' [Hx [-> H]]]].
    rewrite Forall_forall in Hl. pose proof (Hl _ (nth_error_In _ _ E)) as Hq. cbn [lok] in Hq.
    destruct Hq as [_ [[cs [-> [Hne Hc]]] [_ Hall]]].
    apply Forall_app. split; [|eapply IH; [apply lok_all; exact Hall | exact H]].
    destruct (comps_expand cs Hne x Hx) as [y [Hy ->]]. apply Forall_app. split.
    + apply (expand_chars achar _ dchar_achar digit_achar (comps_conv_wf cs Hc) y Hy).
    + constructor; [unfold achar; lia | constructor].
  - destruct H as [_ [Ha _]]. rewrite Forall_forall in Hl. pose proof (Hl _ (nth_error_In _ _ E)) as Hq.
    cbn [lok] in Hq. apply (expand_chars achar sg dchar_achar digit_achar (proj1 Hq) a Ha).
Qed.

Lemma reaches_nulfree l : forall id a ty, reaches l id a ty -> nul_free ty.
Proof.
  intros id. revert l. induction id as [|j r IHr]; intros l a ty H; [contradiction|].
  cbn [reaches] in H. destruct (nth_error l j) as [[sg args m [l''|]]|]; [| |contradiction].
  - destruct H as [_ [a'' [_ [_ H]]]]. eapply IHr. exact H.
  - destruct H as [_ [_ [tys [_ [_ [Hn _]]]]]]. exact Hn.
Qed.

Lemma apropos_port_eq pinned n m t path0 :
  apropos_port pinned (Port n m (Some t)) path0 =
  apropos_loop1 (fun q pe => apropos_port pinned q pe) pinned t
    (match path0 with c :: r => if c =? 47 then r else path0 | [] => path0 end) t 0%nat.
Proof. reflexivity. Qed.

Lemma apropos_port_rel pinned n m t a : hd0 a <> 47 ->
  apropos_port pinned (Port n m (Some t)) a =
  apropos_loop1 (fun q pe => apropos_port pinned q pe) pinned t a t 0%nat.
Proof.
  intros H. rewrite apropos_port_eq. destruct a as [|c r]; [reflexivity|]. cbn [hd0] in H.
  replace (c =? 47) with false by (symmetry; apply Z.eqb_neq; exact H). reflexivity.
Qed.

Lemma apropos_port_abs pinned n m t a : hd0 a <> 47 ->
  apropos_port pinned (Port n m (Some t)) (47 :: a) = apropos_port pinned (Port n m (Some t)) a.
Proof. intros H. rewrite (apropos_port_rel _ _ _ _ a H), apropos_port_eq. reflexivity. Qed.

Theorem lookup_reaches : forall id l a ty n m,
  lookup_disjoint l -> Forall lok l -> reaches l id a ty ->
  apropos_port false (Port n m (Some (map render_port l))) a = AFound id.
Proof.
  induction id as [|j rest IH]; intros l a ty n m Hd Hl H; [contradiction|].
  destruct (reaches_hd l _ a ty Hl H) as [Hh Hne].
  pose proof (reaches_chars_lok l _ a ty Hl H) as Hch.
  pose proof (reaches_nulfree l _ a ty H) as Hty.
  rewrite (apropos_port_rel _ _ _ _ a Hh).
  cbn [reaches] in H. destruct (nth_error l j) as [[sg args m' [l'|]]|] eqn:E; [| |contradiction].
  - (* through a sub-tree port *)
    destruct H as [x [a' [Hx [-> H]]]].
    pose proof Hl as Hl0. rewrite Forall_forall in Hl0. pose proof (Hl0 _ (nth_error_In _ _ E)) as Hq. cbn [lok] in Hq.
    destruct Hq as [-> [[cs [-> [Hcs Hc]]] [Hd' Hall]]].
    assert (Haddr : addr_ok (x ++ a')) by (eapply Forall_impl; [|exact Hch]; intros ch Hc'; apply Hc').
    destruct (subtree_matches cs ty x a' Hcs Hc Hx Haddr Hty) as [Hm _].
    destruct (rtosc_match_path_of _ _ _ _ Hm) as [r Hmp].
    set (q := SPort (comps_segs cs) [] m' (Some l')) in *.
    assert (Hans : exists r pe, match_path (sname q) (x ++ a') = MRet r pe) by (exists r, a'; exact Hmp).
    destruct (others_silent l j q (x ++ a') Hd E Haddr Hans) as [pre [post [-> [Hlen [Hpre _]]]]].
    rewrite map_app. cbn [map]. rewrite loop1_skip by exact Hpre. cbn [apropos_loop1].
    rewrite pname_render, psub_render. unfold q at 1 2 3. cbn [sname].
    change (render_name (comps_segs cs) []) with (flatten (comps_segs cs) ++ []).
    replace (has_char 47 (flatten (comps_segs cs) ++ [])) with true
      by (rewrite (comps_flatten cs Hcs), !has_char_app; cbn; rewrite orb_true_r; reflexivity).
    rewrite Hmp.
    destruct (reaches_hd l' _ a' ty (lok_all _ Hall) H) as [_ Hne'].
    destruct a' as [|c0 a'']; [congruence|]. cbn [is_nil negb].
    unfold q. cbn [render_port].
    rewrite (IH l' (c0 :: a'') ty _ m' Hd' (lok_all _ Hall) H). cbn [aprepend]. rewrite Hlen. reflexivity.
  - (* the leaf *)
    destruct H as [-> [Ha Hadm]].
    pose proof Hl as Hl0. rewrite Forall_forall in Hl0. pose proof (Hl0 _ (nth_error_In _ _ E)) as Hq. cbn [lok] in Hq.
    destruct Hq as [Hw [Hls _]].
    pose proof (leaf_matches sg args ty a Hw Hls Hadm Ha) as Hm.
    destruct (rtosc_match_path_of _ _ _ _ Hm) as [r Hmp].
    set (q := SPort sg args m' None) in *.
    assert (Hans : exists r pe, match_path (sname q) a = MRet r pe) by (exists r, []; exact Hmp).
    assert (Haddr : addr_ok a) by (eapply Forall_impl; [|exact Hch]; intros ch Hc'; apply Hc').
    destruct (others_silent l j q a Hd E Haddr Hans) as [pre [post [-> [Hlen [Hpre Hpost]]]]].
    rewrite map_app. cbn [map]. rewrite loop1_skip by exact Hpre. cbn [apropos_loop1].
    rewrite pname_render, psub_render. unfold q at 1 2 3 4. cbn [sname].
    change (render_name sg args) with (flatten sg ++ args).
    destruct (has_char 47 (flatten sg ++ args)).
    + rewrite Hmp. rewrite Hlen. reflexivity.
    + rewrite <- (app_nil_r (map render_port post)). rewrite loop1_skip by exact Hpost. cbn [apropos_loop1].
      rewrite leaf_skip by exact Hpre. cbn [apropos_leaf].
      rewrite pname_render. unfold q. cbn [sname]. change (render_name sg args) with (flatten sg ++ args).
      destruct a as [|c0 a0]; [congruence|]. cbn [is_nil].
      destruct (NameModel.prefixb (c0 :: a0) (flatten sg ++ args)); [rewrite Hlen; reflexivity|].
      rewrite Hmp, Hlen. reflexivity.
Qed.

(* every pair the walk reports is found *)
Theorem walk_lookup root id a ty :
  Forall sport_wf root -> Forall lok root -> lookup_disjoint root ->
  forall out b, walk None (map render_port root) [] = WOk out b ->
  In (id, a) out -> leaf_admits root id ty ->
  apropos (map render_port root) a = AFound id.
Proof.
  intros Hwf Hl Hd out b Hwalk Hin Hty.
  rewrite (walk_enumerates root Hwf) in Hwalk. inversion Hwalk; subst out b.
  destruct (spec_addrs_reaches root id a ty Hin Hty) as [a' [-> Hr]].
  unfold apropos.
  destruct (reaches_hd root id a' ty Hl Hr) as [Hh _].
  pose proof (apropos_port_abs false [] None (map render_port root) a' Hh) as E.
  rewrite E. eapply lookup_reaches; eassumption.
Qed.

(* non-vacuity: the tree of DispatchWalk.ex_d *)
Lemma singleton_lookup_disjoint q : lookup_disjoint [q].
Proof.
  intros j j' q1 q2 m E1 E2 _ _ _.
  destruct j as [|j]; [|destruct j; discriminate]. destruct j' as [|j']; [reflexivity | destruct j'; discriminate].
Qed.

Example ex_d_lok : Forall lok ex_d /\ lookup_disjoint ex_d /\
  apropos (map render_port ex_d) [47; 97; 49; 49; 47; 99; 49; 47; 120] = AFound [0%nat; 0%nat].
Proof.
  split; [|split; [apply singleton_lookup_disjoint | vm_compute; reflexivity]].
  constructor; [|constructor]. cbn [lok ex_d]. split; [reflexivity|]. split.
  - eexists. split; [reflexivity|]. split; [discriminate|]. constructor; [|constructor]. unfold dcomp. cbn [fst snd].
    split; [discriminate|]. split; [constructor; [unfold dchar; lia | constructor]|].
    split; [intros [H|[]]; discriminate|]. split; [reflexivity | lia].
  - split; [apply singleton_lookup_disjoint|]. split; [|exact I].
    cbn [dsegs_wf]. split; [|split; [cbn; discriminate | discriminate]].
    split; [discriminate|]. split; [constructor; [unfold dchar; lia | constructor]|].
    split; [lia|]. split; [reflexivity|]. split; [discriminate|]. split; [|exact I].
    constructor; [unfold dchar; lia|]. constructor; [unfold dchar; lia | constructor].
Qed.
