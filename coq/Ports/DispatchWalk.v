(* C09 - every address the walk reports is dispatched to the very port it was
   reported with: composition of the walk's enumeration (EnumProofs.v) with
   the matcher of C05 (Match/MatchProofs.v: path_complete) and the tree
   dispatch of C04 (Ports/TreeProofs.v: tree_exactly_one_leaf).
   Sub-tree ports: one or more components "text/" or "text#N/" (the recursion
   callbacks strip as many components as the matched name has - SNIP after the
   fix, DispatchModel.snipk); leaf ports any sequence of literal text and '#N'. *)
From Coq Require Import List ZArith Bool Arith Lia.
From RtoscV Require Import Match.PatSpec Match.MatchModel Match.MatchProofs
     Ports.DispatchModel Ports.DispatchProofs Ports.TreeProofs
     Ports.MetaModel Ports.NameModel Ports.PathModel Ports.WalkModel Ports.WalkProofs
     Ports.DecProofs Ports.EnumProofs.
Import ListNotations.
Local Open Scope Z_scope.

(* ---- structured names as C05 patterns ---------------------------------------------- *)
Definition conv (s : NameModel.seg) : PatSpec.seg :=
  match s with
  | NameModel.Lit t => PatSpec.Lit t
  | NameModel.Enum n => PatSpec.Enum (NameModel.dec n)
  end.

(* literal characters: 7-bit, not NUL, not one of  : { * #  *)
Definition dchar (c : Z) : Prop := 0 < c < 127 /\ c <> 58 /\ c <> 123 /\ c <> 42 /\ c <> 35.

Fixpoint dsegs_wf (l : list NameModel.seg) : Prop :=
  match l with
  | [] => True
  | NameModel.Lit s :: r => s <> [] /\ Forall dchar s /\ dsegs_wf r
  | NameModel.Enum n :: r =>
      0 <= n < 1000000000 /\
      match r with
      | NameModel.Lit s :: _ => starts_with_digit s = false
      | NameModel.Enum _ :: _ => False
      | [] => True
      end /\ dsegs_wf r
  end.

Lemma render_conv l : render_segs (map conv l) = flatten l.
Proof.
  induction l as [|[s|n] l IH]; [reflexivity| |];
    cbn [map conv]; rewrite render_segs_cons, flatten_cons, IH; reflexivity.
Qed.

Lemma dchar_nonspecial c : dchar c -> nonspecial c.
Proof. unfold dchar, nonspecial. intros H. repeat split; lia. Qed.

Lemma conv_seg_ok l : dsegs_wf l -> Forall seg_ok (map conv l).
Proof.
  induction l as [|[s|n] l IH]; intros H; [constructor| |].
  - destruct H as [Hne [Hc Hr]]. constructor; [|apply IH; exact Hr].
    split; [exact Hne|]. eapply Forall_impl; [|exact Hc]. apply dchar_nonspecial.
  - destruct H as [Hn [_ Hr]]. constructor; [|apply IH; exact Hr].
    destruct (dec_digits n ltac:(lia)) as [Hd [Hne _]].
    split; [exact Hne|]. split; [exact Hd | apply dec_length; exact Hn].
Qed.

Lemma conv_enum_sep l : dsegs_wf l -> enum_sep (map conv l).
Proof.
  induction l as [|[s|n] l IH]; intros H; [exact I| |].
  - destruct H as [_ [_ Hr]]. cbn [map conv enum_sep]. destruct (map conv l) eqn:E; apply IH; exact Hr.
  - destruct H as [_ [Hnx Hr]]. cbn [map conv]. destruct l as [|[s|n'] l]; cbn [map conv enum_sep].
    + exact I.
    + split; [exact Hnx | apply IH; exact Hr].
    + contradiction.
Qed.

Lemma conv_enum_delimited l : dsegs_wf l -> enum_delimited (map conv l).
Proof.
  induction l as [|[s|n] l IH]; intros H; [exact I| |].
  - destruct H as [_ [_ Hr]]. cbn [map conv enum_delimited]. destruct (map conv l) eqn:E; apply IH; exact Hr.
  - destruct H as [_ [Hnx Hr]]. cbn [map conv]. destruct l as [|[s|n'] l]; cbn [map conv enum_delimited].
    + exact I.
    + apply IH. exact Hr.
    + contradiction.
Qed.

Lemma conv_no_alt l a : ~ In (PatSpec.Alt a) (map conv l).
Proof. induction l as [|[s|n] l IH]; cbn; intros H; [exact H| |]; destruct H as [H|H]; try discriminate; auto. Qed.

(* an expansion spells the pattern *)
Lemma expand_spells l : dsegs_wf l -> forall a, In a (expand l) -> spells (map conv l) a.
Proof.
  induction l as [|[s|n] l IH]; intros H a Ha.
  - destruct Ha as [<-|[]]. constructor.
  - destruct H as [_ [_ Hr]]. cbn [expand] in Ha. apply in_map_iff in Ha. destruct Ha as [a' [<- Ha']].
    cbn [map conv]. constructor; [constructor | apply IH; assumption].
  - destruct H as [Hn [_ Hr]]. cbn [expand] in Ha. apply in_flat_map in Ha. destruct Ha as [i [Hi Ha]].
    apply in_map_iff in Ha. destruct Ha as [a' [<- Ha']]. apply in_seq in Hi.
    cbn [map conv]. constructor; [|apply IH; assumption].
    destruct (dec_digits (Z.of_nat i) ltac:(lia)) as [Hd [Hne Hv]].
    destruct (dec_digits n ltac:(lia)) as [_ [_ Hvn]].
    constructor; [exact Hne | exact Hd | rewrite Hv, Hvn; lia].
Qed.

(* the characters of an expansion *)
Lemma expand_chars (P : Z -> Prop) l :
  (forall c, dchar c -> P c) -> (forall c, isdigit c = true -> P c) ->
  dsegs_wf l -> forall a, In a (expand l) -> Forall P a.
Proof.
  intros HP HD. induction l as [|[s|n] l IH]; intros H a Ha.
  - destruct Ha as [<-|[]]. constructor.
  - destruct H as [_ [Hc Hr]]. cbn [expand] in Ha. apply in_map_iff in Ha. destruct Ha as [a' [<- Ha']].
    apply Forall_app. split; [eapply Forall_impl; [|exact Hc]; exact HP | apply IH; assumption].
  - destruct H as [Hn [_ Hr]]. cbn [expand] in Ha. apply in_flat_map in Ha. destruct Ha as [i [Hi Ha]].
    apply in_map_iff in Ha. destruct Ha as [a' [<- Ha']].
    apply Forall_app. split; [|apply IH; assumption].
    destruct (dec_digits (Z.of_nat i) ltac:(lia)) as [Hd _]. eapply Forall_impl; [|exact Hd]. exact HD.
Qed.

Definition achar (c : Z) : Prop := (c <> 0 /\ c <> 58) /\ 0 <= c < 127.

Lemma dchar_achar c : dchar c -> achar c.
Proof. unfold dchar, achar. lia. Qed.
Lemma digit_achar c : isdigit c = true -> achar c.
Proof. intros H. apply isdigit_range in H. unfold achar. lia. Qed.

(* which type strings a leaf admits: its argument part is ':'t1':'t2...,
   the message carries one of the alternatives (anything if there is none) *)
Definition admits (args ty : list Z) : Prop :=
  exists tys, args = render_types tys /\ types_ok tys /\ nul_free ty /\
              match tys with None => True | Some l => In ty l end.

(* ---- a leaf name matches each of its expansions, entirely --------------------------- *)
Lemma leaf_matches sg args ty a :
  dsegs_wf sg -> last_not_slash (map conv sg) -> admits args ty -> In a (expand sg) ->
  rtosc_match (flatten sg ++ args) a ty = Some (true, Some []).
Proof.
  intros Hw Hl [tys [-> [Ht [Hn Hin]]]] Ha.
  set (p := {| segs := map conv sg; subtree := false; types := tys |}).
  assert (Hr : flatten sg ++ render_types tys = PatSpec.render p).
  { unfold PatSpec.render, render_tail, p. cbn [segs subtree types app]. rewrite render_conv. reflexivity. }
  rewrite Hr.
  assert (Hwf : wf_pat p).
  { unfold wf_pat, p. cbn [segs subtree types]. repeat split;
      [apply conv_seg_ok; exact Hw | apply conv_enum_sep; exact Hw | intros _; exact Hl | exact Ht]. }
  assert (Haddr : addr_ok a).
  { eapply Forall_impl; [|apply (expand_chars achar sg dchar_achar digit_achar Hw a Ha)]. intros c Hc. apply Hc. }
  rewrite (rtosc_match_types p a ty [] Ht Hn).
  - unfold p. cbn [types]. destruct tys as [l|]; [|reflexivity].
    rewrite alts_match_complete; [reflexivity | apply Ht | exact Hin].
  - apply path_complete; [exact Hwf | intros l Hl'; exfalso; exact (conv_no_alt _ _ Hl')
                          | apply conv_enum_delimited; exact Hw | exact Haddr |].
    unfold path_spec, p. cbn [subtree segs]. split; [apply expand_spells; assumption | reflexivity].
Qed.

(* ---- a one-component sub-tree name matches the first component, the rest goes down --- *)
Definition dcomp (c : comp) : Prop :=
  fst c <> [] /\ Forall dchar (fst c) /\ ~ In 47 (fst c) /\ starts_with_digit [47] = false /\
  match snd c with Some n => 0 <= n < 1000000000 | None => True end.

Definition comp_conv (c : comp) : list NameModel.seg :=
  match c with (t, None) => [NameModel.Lit t] | (t, Some n) => [NameModel.Lit t; NameModel.Enum n] end.

Lemma comp_conv_wf c : dcomp c -> dsegs_wf (comp_conv c).
Proof.
  destruct c as [t [n|]]; intros [Hne [Hc [_ [_ Hn]]]]; cbn [fst snd comp_conv dsegs_wf] in *; repeat split; auto; lia.
Qed.

Lemma comp_expand c x : In x (expand (comps_segs [c])) -> exists y, In y (expand (comp_conv c)) /\ x = y ++ [47].
Proof.
  destruct c as [t [n|]]; cbn [comps_segs flat_map comp_segs app comp_conv expand map].
  - intros H. apply in_map_iff in H. destruct H as [z [<- Hz]]. apply in_flat_map in Hz.
    destruct Hz as [i [Hi Hz]]. destruct Hz as [<-|[]]. exists (t ++ NameModel.dec (Z.of_nat i)). split; [|rewrite <- app_assoc; reflexivity].
    apply in_map_iff. exists (NameModel.dec (Z.of_nat i)). split; [reflexivity|].
    apply in_flat_map. exists i. split; [exact Hi|]. left. rewrite app_nil_r. reflexivity.
  - intros [<-|[]]. exists t. split; [left; rewrite app_nil_r; reflexivity | rewrite app_nil_r; reflexivity].
Qed.

Lemma comp_flatten c : flatten (comps_segs [c]) = flatten (comp_conv c) ++ [47].
Proof.
  destruct c as [t [n|]]; cbn [comps_segs flat_map comp_segs app comp_conv flatten map concat NameModel.render_seg];
    rewrite ?app_nil_r, <- ?app_assoc; reflexivity.
Qed.

(* ---- a sub-tree name of several components "a#3/b#2/c/" ------------------------------- *)
(* the pattern's segments: the components joined by "/", without the final '/' *)
Fixpoint comps_conv (cs : list comp) : list NameModel.seg :=
  match cs with
  | [] => []
  | c :: r => comp_conv c ++ match r with [] => [] | _ :: _ => NameModel.Lit [47] :: comps_conv r end
  end.

Lemma comps_segs_cons c r : comps_segs (c :: r) = comp_segs c ++ comps_segs r.
Proof. reflexivity. Qed.

Lemma comps_segs_one c : comps_segs [c] = comp_segs c.
Proof. unfold comps_segs. cbn [flat_map]. apply app_nil_r. Qed.

Lemma dchar47 : Forall dchar [47].
Proof. constructor; [unfold dchar; lia | constructor]. Qed.

Lemma comps_conv_wf cs : Forall dcomp cs -> dsegs_wf (comps_conv cs).
Proof.
  induction cs as [|c r IH]; intros H; [exact I|]. inversion H as [|? ? Hc Hr]; subst.
  specialize (IH Hr). destruct Hc as [Hne [Hc [_ [Hsd Hn]]]].
  destruct c as [t [n|]]; destruct r as [|c' r']; cbn [comps_conv comp_conv app fst snd dsegs_wf] in *.
  - repeat split; auto; lia.
  - repeat split; auto; try lia; try discriminate. apply dchar47.
  - repeat split; auto.
  - repeat split; auto; try discriminate. apply dchar47.
Qed.

Lemma comps_flatten cs : cs <> [] -> flatten (comps_segs cs) = flatten (comps_conv cs) ++ [47].
Proof.
  induction cs as [|c r IH]; intros Hne; [congruence|].
  rewrite comps_segs_cons, flatten_app, <- (comps_segs_one c), comp_flatten.
  destruct r as [|c' r']; cbn [comps_conv].
  - cbn [comps_segs flat_map flatten map concat]. rewrite !app_nil_r. reflexivity.
  - rewrite IH by discriminate. rewrite flatten_app, flatten_cons. cbn [NameModel.render_seg].
    rewrite <- !app_assoc. reflexivity.
Qed.

Lemma expand_app a : forall b x,
  In x (expand (a ++ b)) <-> exists u v, In u (expand a) /\ In v (expand b) /\ x = u ++ v.
Proof.
  induction a as [|[s|n] a IH]; intros b x; cbn [app expand].
  - split.
    + intros H. exists [], x. split; [left; reflexivity | split; [exact H | reflexivity]].
    + intros [u [v [[<-|[]] [Hv ->]]]]. exact Hv.
  - rewrite in_map_iff. split.
    + intros [z [<- Hz]]. apply IH in Hz. destruct Hz as [u [v [Hu [Hv ->]]]].
      exists (s ++ u), v. split; [apply in_map; exact Hu | split; [exact Hv | apply app_assoc]].
    + intros [u [v [Hu [Hv ->]]]]. apply in_map_iff in Hu. destruct Hu as [u' [<- Hu']].
      exists (u' ++ v). split; [apply app_assoc | apply IH; eauto].
  - rewrite in_flat_map. split.
    + intros [i [Hi Hz]]. apply in_map_iff in Hz. destruct Hz as [z [<- Hz]]. apply IH in Hz.
      destruct Hz as [u [v [Hu [Hv ->]]]].
      exists (NameModel.dec (Z.of_nat i) ++ u), v. split; [|split; [exact Hv | apply app_assoc]].
      apply in_flat_map. exists i. split; [exact Hi | apply in_map; exact Hu].
    + intros [u [v [Hu [Hv ->]]]]. apply in_flat_map in Hu. destruct Hu as [i [Hi Hu]].
      apply in_map_iff in Hu. destruct Hu as [u' [<- Hu']].
      exists i. split; [exact Hi|]. apply in_map_iff. exists (u' ++ v). split; [apply app_assoc | apply IH; eauto].
Qed.

Lemma comps_expand cs : cs <> [] -> forall x, In x (expand (comps_segs cs)) ->
  exists y, In y (expand (comps_conv cs)) /\ x = y ++ [47].
Proof.
  induction cs as [|c r IH]; intros Hne x Hx; [congruence|].
  rewrite comps_segs_cons in Hx. apply expand_app in Hx. destruct Hx as [u [v [Hu [Hv ->]]]].
  rewrite <- (comps_segs_one c) in Hu. destruct (comp_expand c u Hu) as [y [Hy ->]].
  destruct r as [|c' r']; cbn [comps_conv].
  - cbn [comps_segs flat_map expand] in Hv. destruct Hv as [<-|[]].
    exists y. rewrite !app_nil_r. split; [exact Hy | reflexivity].
  - destruct (IH ltac:(discriminate) v Hv) as [y' [Hy' ->]].
    exists (y ++ [47] ++ y'). split; [|rewrite <- !app_assoc; reflexivity].
    apply expand_app. exists y, ([47] ++ y'). split; [exact Hy|]. split; [|reflexivity].
    cbn [expand]. apply in_map. exact Hy'.
Qed.

(* one component's expansions hold no '/' in front of their last character *)
Lemma comp_expand_noslash c y : dcomp c -> In y (expand (comp_conv c)) -> ~ In 47 y.
Proof.
  intros Hc Hy. destruct Hc as [_ [_ [Hns _]]]. destruct c as [t [n|]]; cbn [comp_conv expand fst] in *.
  - apply in_map_iff in Hy. destruct Hy as [z [<- Hz]]. apply in_flat_map in Hz. destruct Hz as [i [_ Hz]].
    destruct Hz as [<-|[]]. rewrite app_nil_r. intros H. apply in_app_or in H. destruct H as [H|H]; [exact (Hns H)|].
    destruct (dec_digits (Z.of_nat i) ltac:(lia)) as [Hd _]. unfold digits in Hd. rewrite Forall_forall in Hd.
    specialize (Hd 47 H). discriminate.
  - destruct Hy as [<-|[]]. rewrite app_nil_r. exact Hns.
Qed.

(* SNIP after the fix skips exactly the components of the name *)
Lemma comps_snipn cs : Forall dcomp cs -> forall x rest, In x (expand (comps_segs cs)) ->
  snipn (length cs) (x ++ rest) = rest.
Proof.
  induction cs as [|c r IH]; intros H x rest Hx.
  - cbn [comps_segs flat_map expand] in Hx. destruct Hx as [<-|[]]. reflexivity.
  - inversion H as [|? ? Hc Hr]; subst.
    rewrite comps_segs_cons in Hx. apply expand_app in Hx. destruct Hx as [u [v [Hu [Hv ->]]]].
    rewrite <- (comps_segs_one c) in Hu. destruct (comp_expand c u Hu) as [y [Hy ->]].
    cbn [length snipn]. rewrite <- !app_assoc. cbn [app].
    rewrite (snip_app_noslash y (v ++ rest) (comp_expand_noslash c y Hc Hy)). apply IH; assumption.
Qed.

Lemma dchar_clean t : Forall dchar t -> ~ In 58 t.
Proof. intros H Hin. rewrite Forall_forall in H. specialize (H _ Hin). unfold dchar in H. lia. Qed.

Lemma dec_clean n : 0 <= n -> ~ In 47 (NameModel.dec n) /\ ~ In 58 (NameModel.dec n).
Proof.
  intros Hn. destruct (dec_digits n Hn) as [Hd _]. unfold digits in Hd. rewrite Forall_forall in Hd.
  split; intros H; specialize (Hd _ H); discriminate.
Qed.

Lemma count_slash_comps cs rest : Forall dcomp cs ->
  count_slash (flatten (comps_segs cs) ++ rest) = (length cs + count_slash rest)%nat.
Proof.
  induction cs as [|c r IH]; intros H; [reflexivity|]. inversion H as [|? ? Hc Hr]; subst.
  rewrite comps_segs_cons, flatten_app, <- app_assoc. cbn [length]. rewrite Nat.add_succ_l, <- (IH Hr). clear IH.
  destruct Hc as [_ [Hc [Hns [_ Hn]]]]. pose proof (dchar_clean _ Hc) as H58.
  destruct c as [t [n|]]; cbn [comp_segs flatten map concat NameModel.render_seg fst snd] in *;
    rewrite ?app_nil_r, <- ?app_assoc.
  - rewrite count_slash_app_clean by assumption. cbn [app count_slash Z.eqb Pos.eqb].
    destruct (dec_clean n ltac:(lia)) as [A B]. rewrite count_slash_app_clean by assumption. reflexivity.
  - rewrite count_slash_app_clean by assumption. reflexivity.
Qed.

Lemma subtree_matches cs ty x rest :
  cs <> [] -> Forall dcomp cs -> In x (expand (comps_segs cs)) -> addr_ok (x ++ rest) -> nul_free ty ->
  rtosc_match (flatten (comps_segs cs) ++ []) (x ++ rest) ty = Some (true, Some rest) /\
  snipk (flatten (comps_segs cs) ++ []) (x ++ rest) = rest.
Proof.
  intros Hne Hc Hx Haddr Hn. split.
  - destruct (comps_expand cs Hne x Hx) as [y [Hy ->]].
    pose proof (comps_conv_wf cs Hc) as Hw.
    set (p := {| segs := map conv (comps_conv cs); subtree := true; types := None |}).
    assert (Hr : flatten (comps_segs cs) ++ [] = PatSpec.render p).
    { unfold PatSpec.render, render_tail, p. cbn [segs subtree types render_types app].
      rewrite render_conv, (comps_flatten cs Hne), !app_nil_r. reflexivity. }
    rewrite Hr. rewrite <- app_assoc. cbn [app].
    assert (Hwf : wf_pat p).
    { unfold wf_pat, p. cbn [segs subtree types]. repeat split;
        [apply conv_seg_ok; exact Hw | apply conv_enum_sep; exact Hw | intros E; discriminate]. }
    rewrite (rtosc_match_types p (y ++ 47 :: rest) ty rest I Hn); [reflexivity|].
    apply path_complete; [exact Hwf | intros l Hl'; exfalso; exact (conv_no_alt _ _ Hl')
                          | apply conv_enum_delimited; exact Hw
                          | rewrite <- app_assoc in Haddr; exact Haddr |].
    unfold path_spec, p. cbn [subtree segs]. exists y. split; [apply expand_spells; assumption | reflexivity].
  - unfold snipk. rewrite (count_slash_comps cs [] Hc). cbn [count_slash]. rewrite Nat.add_0_r.
    replace (Nat.max 1 (length cs)) with (length cs) by (destruct cs; [congruence | cbn [length]; lia]).
    apply comps_snipn; assumption.
Qed.

(* ---- the structured tree as a C04 tree ------------------------------------------------ *)
Definition is_sub (p : sport) : bool := match p with SPort _ _ _ (Some _) => true | _ => false end.
Definition sname (p : sport) : list Z := match p with SPort sg a _ _ => render_name sg a end.

Section ToTree.
  (* what the perfect-hash search returned for a table (an input of C04's
     model) and the identity of the Ports object: arbitrary *)
  Variable hp : list sport -> list Z * list Z.
  Variable tid : list sport -> Z.

  Definition mk_table (l : list sport) : table :=
    {| t_id := tid l; t_dflt := false;
       t_ports := map (fun p => (sname p, is_sub p)) l;
       t_pos := fst (hp l); t_assoc := snd (hp l) |}.

  Fixpoint to_tree_port (p : sport) : option tree :=
    match p with
    | SPort _ _ _ None => None
    | SPort _ _ _ (Some l) =>
        Some (Node (mk_table l)
                   ((fix go (l : list sport) : list (option tree) :=
                       match l with [] => [] | x :: r => to_tree_port x :: go r end) l))
    end.

  Definition to_tree (root : list sport) : tree := Node (mk_table root) (map to_tree_port root).

  Lemma to_tree_port_sub sg a m l : to_tree_port (SPort sg a m (Some l)) = Some (to_tree l).
  Proof.
    reflexivity.
  Qed.

  (* pairwise non-overlapping sibling names: no message (NUL- and ':'-free
     address) is matched by two ports of one table (C04's side condition) *)
  Definition table_disjoint (l : list sport) : Prop :=
    forall j j' q q' m ty pe pe',
      nth_error l j = Some q -> nth_error l j' = Some q' -> addr_ok m ->
      rtosc_match (sname q) m ty = Some (true, Some pe) ->
      rtosc_match (sname q') m ty = Some (true, Some pe') -> j = j'.

  (* names of the documented shape + disjoint tables, at every level *)
  Fixpoint dok (p : sport) : Prop :=
    match p with
    | SPort sg a _ None => dsegs_wf sg /\ last_not_slash (map conv sg)
    | SPort sg a _ (Some l) =>
        a = [] /\ (exists cs, sg = comps_segs cs /\ cs <> [] /\ Forall dcomp cs) /\ table_disjoint l /\
        (fix all (l : list sport) : Prop := match l with [] => True | x :: r => dok x /\ all r end) l
    end.

  Lemma dok_all l :
    (fix all (l : list sport) : Prop := match l with [] => True | x :: r => dok x /\ all r end) l -> Forall dok l.
  Proof. induction l as [|x r IH]; intros H; [constructor|]. destruct H. constructor; auto. Qed.

  (* the leaf at index path id is reached by the (relative) address a, and
     admits the type string ty *)
  Fixpoint reaches (l : list sport) (id : list nat) (a ty : list Z) {struct id} : Prop :=
    match id with
    | [] => False
    | j :: rest =>
        match nth_error l j with
        | None => False
        | Some (SPort sg args _ None) => rest = [] /\ In a (expand sg) /\ admits args ty
        | Some (SPort sg _ _ (Some l')) =>
            exists x a', In x (expand sg) /\ a = x ++ a' /\ reaches l' rest a' ty
        end
    end.

  Lemma reaches_chars l : forall id a ty, Forall dok l -> reaches l id a ty -> Forall achar a.
  Proof.
    intros id. revert l. induction id as [|j rest IH]; intros l a ty Hl H; [contradiction|].
    cbn [reaches] in H. destruct (nth_error l j) as [[sg args m [l'|]]|] eqn:E; [| |contradiction].
    - destruct H as [x [a' [Hx [-> H]]]].
      rewrite Forall_forall in Hl. pose proof (Hl _ (nth_error_In _ _ E)) as Hq. cbn [dok] in Hq.
      destruct Hq as [_ [[cs [-> [Hne Hc]]] [_ Hall]]].
      apply Forall_app. split; [|eapply IH; [apply dok_all; exact Hall | exact H]].
      destruct (comps_expand cs Hne x Hx) as [y [Hy ->]]. apply Forall_app. split.
      + apply (expand_chars achar _ dchar_achar digit_achar (comps_conv_wf cs Hc) y Hy).
      + constructor; [unfold achar; lia | constructor].
    - destruct H as [_ [Ha _]]. rewrite Forall_forall in Hl. pose proof (Hl _ (nth_error_In _ _ E)) as Hq.
      cbn [dok] in Hq. apply (expand_chars achar sg dchar_achar digit_achar (proj1 Hq) a Ha).
  Qed.

  Lemma nth_error_map' {A B} (f : A -> B) l n : nth_error (map f l) n = option_map f (nth_error l n).
  Proof. revert n. induction l as [|x l IH]; intros [|n]; cbn; auto. Qed.

  (* at every level exactly the port on the path matches *)
  Lemma reaches_addressed : forall id l a ty,
    table_disjoint l -> Forall dok l -> reaches l id a ty ->
    TreeProofs.addressed id (to_tree l) a ty.
  Proof.
    induction id as [|j rest IH]; intros l a ty Hd Hl H; [contradiction|].
    pose proof (reaches_chars l (j :: rest) a ty Hl H) as Hch.
    cbn [reaches] in H. destruct (nth_error l j) as [[sg args m [l'|]]|] eqn:E; [| |contradiction].
    - (* a sub-tree port *)
      destruct H as [x [a' [Hx [-> H]]]].
      rewrite Forall_forall in Hl. pose proof (Hl _ (nth_error_In _ _ E)) as Hq. cbn [dok] in Hq.
      destruct Hq as [-> [[cs [-> [Hne Hc]]] [Hd' Hall]]].
      assert (Haddr : addr_ok (x ++ a')) by (eapply Forall_impl; [|exact Hch]; intros ch Hc'; apply Hc').
      assert (Hty : nul_free ty).
      { clear - H. revert l' a' H. induction rest as [|j' r IHr]; intros l' a' H; [contradiction|].
        cbn [reaches] in H. destruct (nth_error l' j') as [[sg args m [l''|]]|]; [| |contradiction].
        - destruct H as [_ [a'' [_ [_ H]]]]. eapply IHr. exact H.
        - destruct H as [_ [_ [tys [_ [_ [Hn _]]]]]]. exact Hn. }
      destruct (subtree_matches cs ty x a' Hne Hc Hx Haddr Hty) as [Hm Hs].
      cbn [TreeProofs.addressed]. exists (flatten (comps_segs cs) ++ []), true, a'. split.
      + unfold sole_match, to_tree. cbn [tab_of mk_table t_ports]. split; [|split; [exact Hm|]].
        * rewrite nth_error_map', E. reflexivity.
        * intros n' name' sub' Hn' En' pe' Hm'. rewrite nth_error_map' in En'.
          destruct (nth_error l n') as [q'|] eqn:E'; [|discriminate]. cbn [option_map] in En'. inversion En'; subst.
          apply Hn'. symmetry. eapply (Hd j n' _ q' (x ++ a') ty a' pe' E E' Haddr); [exact Hm | exact Hm'].
      + unfold to_tree. cbn [subs_of]. rewrite nth_error_map', E. cbn [option_map]. rewrite to_tree_port_sub.
        rewrite Hs. apply IH; [exact Hd' | apply dok_all; exact Hall | exact H].
    - (* the leaf *)
      destruct H as [-> [Ha Hadm]].
      rewrite Forall_forall in Hl. pose proof (Hl _ (nth_error_In _ _ E)) as Hq. cbn [dok] in Hq.
      destruct Hq as [Hw Hls].
      pose proof (leaf_matches sg args ty a Hw Hls Hadm Ha) as Hm.
      assert (Haddr : addr_ok a) by (eapply Forall_impl; [|exact Hch]; intros ch Hc'; apply Hc').
      cbn [TreeProofs.addressed]. exists (flatten sg ++ args), false, []. split.
      + unfold sole_match, to_tree. cbn [tab_of mk_table t_ports]. split; [|split; [exact Hm|]].
        * rewrite nth_error_map', E. reflexivity.
        * intros n' name' sub' Hn' En' pe' Hm'. rewrite nth_error_map' in En'.
          destruct (nth_error l n') as [q'|] eqn:E'; [|discriminate]. cbn [option_map] in En'. inversion En'; subst.
          apply Hn'. symmetry. eapply (Hd j n' _ q' a ty [] pe' E E' Haddr); [exact Hm | exact Hm'].
      + unfold to_tree. cbn [subs_of]. rewrite nth_error_map', E. reflexivity.
  Qed.

  (* ---- what the walk reports is such a path ---------------------------------------------- *)
  Definition reach_port (q : sport) (rest : list nat) (a ty : list Z) : Prop :=
    match q with
    | SPort sg args _ None => rest = [] /\ In a (expand sg) /\ admits args ty
    | SPort sg _ _ (Some l') => exists x a', In x (expand sg) /\ a = x ++ a' /\ reaches l' rest a' ty
    end.

  Definition leaf_args_ok (ty : list Z) (q : sport) : Prop := True.

  (* the type string: the reported leaf must admit it *)
  Fixpoint leaf_admits (l : list sport) (id : list nat) (ty : list Z) {struct id} : Prop :=
    match id with
    | [] => False
    | j :: rest =>
        match nth_error l j with
        | Some (SPort _ args _ None) => admits args ty
        | Some (SPort _ _ _ (Some l')) => leaf_admits l' rest ty
        | None => False
        end
    end.

  Lemma spec_port_reaches q : forall ids pre id a,
    In (id, a) (spec_addrs_port ids pre q) ->
    exists rest a', id = ids ++ rest /\ a = pre ++ a' /\
      forall ty, (match q with
                  | SPort _ args _ None => admits args ty
                  | SPort _ _ _ (Some l') => leaf_admits l' rest ty
                  end) -> reach_port q rest a' ty.
  Proof.
    induction q as [sg args m s IHs] using sport_ind2. intros ids pre id a H.
    destruct s as [l'|].
    - rewrite spec_addrs_subtree in H. apply in_flat_map in H. destruct H as [x [Hx H]].
      assert (Htab : forall l i, Forall (fun q => forall ids pre id a,
                 In (id, a) (spec_addrs_port ids pre q) ->
                 exists rest a', id = ids ++ rest /\ a = pre ++ a' /\
                   forall ty, (match q with
                               | SPort _ args _ None => admits args ty
                               | SPort _ _ _ (Some l') => leaf_admits l' rest ty
                               end) -> reach_port q rest a' ty) l ->
               In (id, a) (spec_table ids (pre ++ x) l i) ->
               exists j q rest a', nth_error l j = Some q /\ id = ids ++ (i + j)%nat :: rest /\
                 a = (pre ++ x) ++ a' /\
                 forall ty, (match q with
                             | SPort _ args _ None => admits args ty
                             | SPort _ _ _ (Some l') => leaf_admits l' rest ty
                             end) -> reach_port q rest a' ty).
      { induction l as [|q r IHr]; intros i HF Hin; [contradiction|].
        inversion HF as [|? ? Hq Hr]; subst. cbn [spec_table] in Hin. apply in_app_or in Hin.
        destruct Hin as [Hin|Hin].
        - destruct (Hq _ _ _ _ Hin) as [rest [a' [-> [-> Hre]]]].
          exists O, q, rest, a'. split; [reflexivity|]. split; [rewrite <- app_assoc, Nat.add_0_r; reflexivity|].
          split; [reflexivity | exact Hre].
        - destruct (IHr (S i) Hr Hin) as [j [q' [rest [a' [En [-> [-> Hre]]]]]]].
          exists (S j), q', rest, a'. split; [exact En|]. split; [f_equal; f_equal; lia|]. split; [reflexivity | exact Hre]. }
      destruct (Htab l' O IHs H) as [j [q [rest [a' [En [-> [-> Hre]]]]]]].
      exists (j :: rest), (x ++ a'). split; [reflexivity|]. split; [rewrite <- app_assoc; reflexivity|].
      intros ty Hty. cbn [reach_port]. exists x, a'. split; [exact Hx|]. split; [reflexivity|].
      cbn [leaf_admits] in Hty. rewrite En in Hty. cbn [reaches]. rewrite En.
      destruct q as [sg' args' m' [l''|]]; apply Hre; exact Hty.
    - cbn [spec_addrs_port] in H. apply in_map_iff in H. destruct H as [x [Heq Hx]]. inversion Heq; subst.
      exists [], x. split; [rewrite app_nil_r; reflexivity|]. split; [reflexivity|].
      intros ty Hty. cbn [reach_port]. auto.
  Qed.

  Lemma spec_addrs_reaches root id a ty :
    In (id, a) (spec_addrs root) -> leaf_admits root id ty ->
    exists a', a = 47 :: a' /\ reaches root id a' ty.
  Proof.
    intros H Hty. unfold spec_addrs in H.
    destruct (spec_port_reaches _ _ _ _ _ H) as [rest [a' [-> [-> Hre]]]]. cbn [app] in *.
    specialize (Hre ty Hty). cbn [reach_port] in Hre. destruct Hre as [x [a'' [Hx [-> Hr]]]].
    cbn [expand map] in Hx. destruct Hx as [<-|[]]. exists a''. split; [reflexivity | exact Hr].
  Qed.

  (* ---- the theorem --------------------------------------------------------------------------- *)
  Theorem walk_dispatchable root id a ty o :
    Forall sport_wf root -> Forall dok root -> table_disjoint root ->
    tree_ok (to_tree root) ->
    forall out b, walk None (map render_port root) [] = WOk out b ->
    In (id, a) out -> leaf_admits root id ty ->
    let t := to_tree root in
    rev (log (dispatch t a ty true o)) = chain id t (strip a) ty o (Some [47]) /\
    rev (log (dispatch t a ty false o)) = chain id t (strip a) ty o None /\
    matches (dispatch t a ty true o) = 1 /\
    leaf_count (chain id t (strip a) ty o (Some [47])) = 1 /\
    length (chain id t (strip a) ty o (Some [47])) = length id.
  Proof.
    intros Hwf Hok Hd Htree out b Hwalk Hin Hty t.
    rewrite (walk_enumerates root Hwf) in Hwalk. inversion Hwalk; subst out b.
    destruct (spec_addrs_reaches root id a ty Hin Hty) as [a' [-> Hr]].
    pose proof (reaches_chars root id a' ty Hok Hr) as Hch.
    apply tree_exactly_one_leaf.
    - unfold root_ok. split; [exact Htree|]. cbn [strip Z.eqb Pos.eqb].
      split; (eapply Forall_impl; [|exact Hch]; intros c Hc; unfold achar in Hc; lia).
    - cbn [strip Z.eqb Pos.eqb]. apply reaches_addressed; assumption.
  Qed.
End ToTree.

(* ---- non-vacuity: "a#12/" -> { "c#2/x:i" }; /a11/c1/x with an int --------------------- *)
Definition ex_d : list sport :=
  [SPort (comps_segs [([97], Some 12)]) [] None
         (Some [SPort [NameModel.Lit [99]; NameModel.Enum 2; NameModel.Lit [47; 120]] [58; 105] None None])].
Definition no_hash_search (l : list sport) : list Z * list Z := ([], []).
Definition one_id (l : list sport) : Z := Z.of_nat (length l).

Lemma singleton_disjoint q : table_disjoint [q].
Proof.
  intros j j' q1 q2 m ty pe pe' E1 E2 _ _ _.
  destruct j as [|j]; [|destruct j; discriminate]. destruct j' as [|j']; [reflexivity | destruct j'; discriminate].
Qed.

Example ex_d_ok :
  Forall sport_wf ex_d /\ Forall dok ex_d /\ table_disjoint ex_d /\
  tree_ok (to_tree no_hash_search one_id ex_d) /\
  leaf_admits ex_d [0%nat; 0%nat] [105] /\
  (exists out b, walk None (map render_port ex_d) [] = WOk out b /\
                 In ([0%nat; 0%nat], [47; 97; 49; 49; 47; 99; 49; 47; 120]) out /\ length out = 24%nat).
Proof.
  assert (Hadm : admits [58; 105] [105]).
  { exists (Some [[105]]). split; [reflexivity|]. split; [split; [discriminate|]|].
    - constructor; [|constructor]. constructor; [split; discriminate | constructor].
    - split; [constructor; [discriminate | constructor] | left; reflexivity]. }
  split; [|split; [|split; [|split; [|split]]]].
  - constructor; [|constructor]. cbn [sport_wf ex_d]. split; [split; [left|]; reflexivity|]. split.
    + eexists. split; [reflexivity|]. split; [|discriminate].
      constructor; [|constructor]. repeat split; try discriminate; try reflexivity; cbn; lia.
    + split; [|exact I]. split; [split; [right|]; reflexivity|]. cbn. repeat split; try discriminate; try reflexivity; lia.
  - constructor; [|constructor]. cbn [dok ex_d]. split; [reflexivity|]. split.
    + eexists. split; [reflexivity|]. split; [discriminate|]. constructor; [|constructor]. unfold dcomp. cbn [fst snd].
      split; [discriminate|]. split; [constructor; [unfold dchar; lia | constructor]|].
      split; [intros [H|[]]; discriminate|]. split; [reflexivity | lia].
    + split; [apply singleton_disjoint|]. split; [|exact I].
      cbn [dsegs_wf]. split.
      * split; [discriminate|]. split; [constructor; [unfold dchar; lia | constructor]|].
        split; [lia|]. split; [reflexivity|]. split; [discriminate|]. split; [|exact I].
        constructor; [unfold dchar; lia|]. constructor; [unfold dchar; lia | constructor].
      * cbn. discriminate.
  - apply singleton_disjoint.
  - unfold to_tree. cbn [map ex_d]. rewrite to_tree_port_sub.
    constructor.
    + intros n name sub En. destruct n as [|n]; [|destruct n; discriminate]. cbn in En. inversion En; subst.
      split; [intros _; eexists; reflexivity | reflexivity].
    + left. reflexivity.
    + intros n s En. destruct n as [|n]; [|destruct n; discriminate]. cbn in En. inversion En; subst.
      constructor.
      * intros n name sub En'. destruct n as [|n]; [|destruct n; discriminate]. cbn in En'. inversion En'; subst.
        split; [discriminate | intros [s Hs]; discriminate].
      * left. reflexivity.
      * intros n s En'. destruct n as [|n]; [|destruct n; discriminate]. discriminate.
  - cbn. exact Hadm.
  - eexists. eexists. split; [vm_compute; reflexivity|]. split; [|reflexivity].
    do 23 right. left. reflexivity.
Qed.
