(* C04 - proofs about the dispatch model (Ports/DispatchModel.v). *)
From Coq Require Import List ZArith Bool Lia.
From RtoscV Require Import Match.PatSpec Match.MatchModel Match.MatchProofs Ports.DispatchModel.
Import ListNotations.
Local Open Scope Z_scope.

(* ======================================================================== *)
(* find_remap                                                                *)
(* ======================================================================== *)
Lemma set_nth_length : forall l n v, length (set_nth l n v) = length l.
Proof. induction l as [|x l IH]; intros [|n] v; cbn; auto. Qed.

Lemma set_nth_same : forall l n v, (n < length l)%nat -> nth_error (set_nth l n v) n = Some v.
Proof.
  induction l as [|x l IH]; intros [|n] v L; cbn in *; try lia; [reflexivity|]. apply IH. lia.
Qed.

Lemma set_nth_other : forall l n k v, n <> k -> nth_error (set_nth l n v) k = nth_error l k.
Proof.
  induction l as [|x l IH]; intros [|n] [|k] v N; cbn; try reflexivity; try congruence.
  apply IH. congruence.
Qed.

Lemma fill_remap_length : forall hs r i, length (fill_remap r hs i) = length r.
Proof.
  induction hs as [|h hs IH]; intros r i; cbn; [reflexivity|]. now rewrite IH, set_nth_length.
Qed.

Lemma fill_remap_other : forall hs r i k,
  ~ In k (map Z.to_nat hs) -> nth_error (fill_remap r hs i) k = nth_error r k.
Proof.
  induction hs as [|h hs IH]; intros r i k N; cbn; [reflexivity|].
  cbn in N. rewrite IH by tauto. apply set_nth_other. tauto.
Qed.

Lemma fill_remap_hit : forall hs r i j h,
  NoDup (map Z.to_nat hs) -> nth_error hs j = Some h -> (Z.to_nat h < length r)%nat ->
  nth_error (fill_remap r hs i) (Z.to_nat h) = Some (i + Z.of_nat j).
Proof.
  induction hs as [|h0 hs IH]; intros r i j h ND E L; [destruct j; discriminate|].
  cbn [map] in ND. inversion ND as [|? ? Hnin ND']; subst.
  destruct j as [|j]; cbn in E.
  - inversion E; subst. cbn [fill_remap]. rewrite fill_remap_other by assumption.
    rewrite set_nth_same by assumption. f_equal. lia.
  - cbn [fill_remap]. rewrite (IH _ _ j h ND' E) by now rewrite set_nth_length.
    f_equal. lia.
Qed.

Lemma fold_max_ge : forall l a x, In x l -> x <= fold_left Z.max l a.
Proof.
  induction l as [|y l IH]; intros a x Hin; [contradiction|]. cbn.
  assert (M : forall b, b <= fold_left Z.max l b).
  { clear. induction l as [|z l IH]; intros b; cbn; [lia|]. specialize (IH (Z.max b z)). lia. }
  destruct Hin as [->|Hin]; [|now apply IH].
  specialize (M (Z.max a x)). lia.
Qed.

Lemma has_dups_nodup : forall l, has_dups l = false -> NoDup l.
Proof.
  induction l as [|x l IH]; intros H; [constructor|]. cbn in H.
  apply orb_false_iff in H as [H1 H2]. constructor; [|now apply IH].
  intros Hin. assert (existsb (Z.eqb x) l = true); [|congruence].
  apply existsb_exists. exists x. split; [assumption | apply Z.eqb_refl].
Qed.

Lemma nodup_to_nat : forall l, Forall (fun h => 0 <= h) l -> NoDup l -> NoDup (map Z.to_nat l).
Proof.
  induction l as [|x l IH]; intros Hp ND; [constructor|].
  inversion Hp; subst. inversion ND; subst. cbn. constructor; [|now apply IH].
  intros Hin. apply in_map_iff in Hin as (y & E & Hy). rewrite Forall_forall in H2.
  specialize (H2 _ Hy). assert (x = y) by lia. subst. contradiction.
Qed.

(* every key's slot holds the key's index *)
Lemma find_remap_hit : forall hs j h,
  Forall (fun h => 0 <= h) hs -> has_dups hs = false -> nth_error hs j = Some h ->
  h < Z.of_nat (length (find_remap hs)) /\
  nth_error (find_remap hs) (Z.to_nat h) = Some (Z.of_nat j).
Proof.
  intros hs j h Hp Hd E. unfold find_remap.
  set (n := fold_left Z.max (map (fun h => h + 1) hs) 0).
  assert (Hn : h + 1 <= n).
  { apply fold_max_ge. apply in_map_iff. exists h. split; [reflexivity|]. eapply nth_error_In; eassumption. }
  assert (Hh : 0 <= h). { rewrite Forall_forall in Hp. apply Hp. eapply nth_error_In; eassumption. }
  rewrite fill_remap_length, repeat_length. split; [lia|].
  rewrite (fill_remap_hit hs _ 0 j h); [f_equal; lia | | assumption | rewrite repeat_length; lia].
  apply nodup_to_nat; [assumption | now apply has_dups_nodup].
Qed.

(* ======================================================================== *)
(* the loops of Ports::dispatch call exactly the "hits", in port order        *)
(* ======================================================================== *)
Definition hit := (Z * str * bool * str)%type.     (* index, name, has sub-ports, m_end *)

Fixpoint scan_hits (ports : list (str * bool)) (i : Z) (m args : str) : list hit :=
  match ports with
  | [] => []
  | (name, sub) :: r =>
      match rtosc_match name m args with
      | Some (true, Some pe) => [(i, name, sub, pe)]
      | _ => []
      end ++ scan_hits r (i + 1) m args
  end.

Lemma rtosc_match_shape : forall p m a,
  (exists pe, rtosc_match p m a = Some (true, Some pe)) \/ (exists x, rtosc_match p m a = Some (false, x)).
Proof.
  intros p m a. unfold rtosc_match. pose proof (match_path_nofuel p m).
  destruct (match_path p m) as [|ap pe|]; [right; eauto | | congruence].
  destruct (hd0 ap =? 58); [|left; eauto].
  destruct (match_args ap a); [left | right]; eauto.
Qed.

Definition step_noloc (cb : callback) (tid : Z) (m : str) (obj0 : Z) (st : dstate) (h : hit) : dstate :=
  let '(i, _, _, _) := h in set_obj (cb i m (set_port st (Some (tid, i)))) obj0.

Definition step_loc (cb : callback) (tid : Z) (m : str) (obj0 : Z) (old : str) (st : dstate) (h : hit) : dstate :=
  let '(i, name, sub, m_end) := h in
  let st1 := if sub then st else inc_matches st in
  let app := if is_pattern name then firstn (length m - length m_end) m else upto_colon name in
  let st2 := match loc st1 with
             | Some l => set_loc st1 (Some (if is_pattern name then old ++ app else l ++ app))
             | None => st1
             end in
  restore old (set_obj (cb i m (set_port st2 (Some (tid, i)))) obj0).

(* without location buffer: one callback per matching port, in order *)
Lemma scan_noloc_fold : forall cb tid ports i m args obj0 st,
  scan_noloc cb tid ports i m args obj0 st =
  fold_left (step_noloc cb tid m obj0) (scan_hits ports i m args) st.
Proof.
  induction ports as [|[name sub] r IH]; intros i m args obj0 st; [reflexivity|].
  cbn [scan_noloc scan_hits]. rewrite fold_left_app, IH.
  destruct (rtosc_match_shape name m args) as [[pe E]|[x E]]; rewrite E; reflexivity.
Qed.

(* the loops' `hit` flag: set iff the list of matching ports is not empty *)
Lemma any_match_hits : forall ports i m args,
  any_match ports m args = match scan_hits ports i m args with [] => false | _ => true end.
Proof.
  induction ports as [|[name sub] r IH]; intros i m args; [reflexivity|].
  cbn [any_match existsb scan_hits fst]. fold (any_match r m args). rewrite (IH (i + 1)).
  destruct (rtosc_match_shape name m args) as [[pe E]|[x E]]; rewrite E; reflexivity.
Qed.

(* linear scan with location buffer: the same ports, in the same order *)
Lemma scan_loc_fold : forall cb tid ports i m args obj0 old st,
  scan_loc cb tid ports i m args obj0 old st =
  fold_left (step_loc cb tid m obj0 old) (scan_hits ports i m args) st.
Proof.
  induction ports as [|[name sub] r IH]; intros i m args obj0 old st; [reflexivity|].
  cbn [scan_loc scan_hits]. rewrite fold_left_app, IH.
  destruct (rtosc_match_shape name m args) as [[pe E]|[x E]]; rewrite E; reflexivity.
Qed.

Lemma scan_hits_in : forall ports i m args j name sub pe,
  In (j, name, sub, pe) (scan_hits ports i m args) <->
  exists n, j = i + Z.of_nat n /\ nth_error ports n = Some (name, sub) /\
            rtosc_match name m args = Some (true, Some pe).
Proof.
  induction ports as [|[nm sb] r IH]; intros i m args j name sub pe.
  - cbn. split; [tauto | intros (n & _ & E & _); destruct n; discriminate].
  - cbn [scan_hits]. rewrite in_app_iff, IH. split.
    + intros [H|(n & -> & E & M)].
      * destruct (rtosc_match nm m args) as [[[|] [pe'|]]|] eqn:E; try contradiction.
        destruct H as [H|[]]. inversion H; subst. exists O. repeat split; [lia | assumption].
      * exists (S n). repeat split; [lia | assumption | assumption].
    + intros ([|n] & -> & E & M).
      * cbn in E. inversion E; subst. left. rewrite M. left. f_equal. f_equal. f_equal. lia.
      * right. exists n. repeat split; [lia | assumption | assumption].
Qed.

(* the hashed lookup as a pure function *)
Inductive lres := LErr | LMiss | LHit (i : Z) (name : str) (sub : bool).

Definition lookup_hit (T : table) (H : hashtab) (m args : str) : lres :=
  let comp := first_component m in
  match hash_of (h_pos H) (h_assoc H) comp with
  | None => LErr
  | Some t =>
      if Z.of_nat (length (h_remap H)) <=? t then LMiss
      else match nth_error (h_remap H) (Z.to_nat t) with
           | None => LErr
           | Some pn =>
               match nth_error (t_ports T) (Z.to_nat pn) with
               | None => LErr
               | Some (name, sub) =>
                   if (Z.of_nat (length (fst (split_name name))) =? Z.of_nat (length comp))
                      && hard_match name m args
                   then LHit pn name sub else LMiss
               end
           end
  end.

Definition step_hashed (cb : callback) (tid : Z) (m : str) (obj0 : Z) (old : str) (st : dstate)
           (i : Z) (name : str) (sub : bool) : dstate :=
  let st1 := if sub then st else inc_matches st in
  let st2 := match loc st1 with
             | Some l => set_loc st1 (Some (old ++ fst (split_name name)))
             | None => st1
             end in
  restore old (set_obj (cb i m (set_port st2 (Some (tid, i)))) obj0).

Lemma lookup_loc_hit : forall cb dh T H m args obj0 old st,
  lookup_loc cb dh T H m args obj0 old st =
  match lookup_hit T H m args with
  | LErr => add_log st EvError
  | LMiss => if t_dflt T then call_default dh m obj0 st else st
  | LHit i name sub => step_hashed cb (t_id T) m obj0 old st i name sub
  end.
Proof.
  intros. unfold lookup_loc, lookup_hit.
  destruct (hash_of (h_pos H) (h_assoc H) (first_component m)) as [t|]; [|reflexivity].
  destruct (Z.of_nat (length (h_remap H)) <=? t); [reflexivity|].
  destruct (nth_error (h_remap H) (Z.to_nat t)) as [pn|]; [|reflexivity].
  destruct (nth_error (t_ports T) (Z.to_nat pn)) as [[name sub]|]; [|reflexivity].
  destruct ((Z.of_nat (length (fst (split_name name))) =? Z.of_nat (length (first_component m)))
            && hard_match name m args); reflexivity.
Qed.

(* ======================================================================== *)
(* literal port names                                                        *)
(* ======================================================================== *)
Definition mkp (k : str) (sub : bool) (tys : option (list str)) : pat :=
  {| segs := [Lit k]; subtree := sub; types := tys |}.
Definition key_of (k : str) (sub : bool) : str := k ++ (if sub then [47] else []).

(* a literal, single-component name: text, optional trailing '/', optional types *)
Definition lit_port (name : str) : Prop :=
  exists k sub tys, name = render (mkp k sub tys) /\ wf_pat (mkp k sub tys) /\ ~ In 47 k.

Definition str_eqb (a b : str) : bool := prefixb a b && (length a =? length b)%nat.
Lemma str_eqb_eq : forall a b, str_eqb a b = true <-> a = b.
Proof. intros. apply prefixb_len_eq. Qed.

Lemma render_mkp : forall k sub tys, render (mkp k sub tys) = key_of k sub ++ render_types tys.
Proof.
  intros. unfold render, render_tail, render_segs, key_of. cbn. rewrite app_nil_r.
  now rewrite app_assoc.
Qed.

Lemma fc_app_noslash : forall k r, ~ In 47 k -> first_component (k ++ r) = k ++ first_component r.
Proof.
  induction k as [|c k IH]; intros r N; [reflexivity|]. cbn.
  destruct (c =? 47) eqn:E; [apply Z.eqb_eq in E; subst; exfalso; apply N; now left|].
  f_equal. apply IH. intros H. apply N. now right.
Qed.

Lemma fc_prefix : forall m, exists r, m = first_component m ++ r.
Proof.
  induction m as [|c m [r IH]]; [exists []; reflexivity|]. cbn.
  destruct (c =? 47); [exists m; reflexivity | exists r; cbn; now f_equal].
Qed.

Lemma fc_nonempty : forall c r, first_component (c :: r) <> [].
Proof. intros c r. cbn. destruct (c =? 47); discriminate. Qed.

Lemma literal_path : forall k sub tys m,
  wf_pat (mkp k sub tys) -> ~ In 47 k -> addr_chars m ->
  match_path (render (mkp k sub tys)) m =
  if str_eqb (key_of k sub) (first_component m)
  then MRet (render_types tys) (skipn (length (key_of k sub)) m) else MNull.
Proof.
  intros k sub tys m Hwf Hk Hm.
  pose proof (wf_tail_cond _ Hwf) as Htc. destruct Hwf as (Hs & He & Hl & Ht). cbn [segs types subtree] in *.
  unfold render. rewrite match_path_greedy by assumption.
  change (segs (mkp k sub tys)) with [Lit k]. cbn [greedy].
  destruct (prefixb k m) eqn:P.
  - pose proof (prefixb_skipn _ _ P) as E. set (m' := skipn (length k) m) in *.
    assert (Hm' : addr_chars m') by (apply (addr_chars_suffix k); now rewrite <- E).
    rewrite match_path_tail by assumption.
    change (subtree (mkp k sub tys)) with sub. change (types (mkp k sub tys)) with tys.
    rewrite E. rewrite fc_app_noslash by assumption. unfold key_of.
    destruct sub.
    + destruct m' as [|c rest].
      * cbn [first_component]. rewrite app_nil_r.
        replace (str_eqb (k ++ [47]) k) with false; [reflexivity|].
        symmetry. apply not_true_iff_false. intros H. apply str_eqb_eq in H.
        apply (f_equal (@length Z)) in H. rewrite app_length in H. cbn in H. lia.
      * cbn [first_component]. destruct (c =? 47) eqn:E47.
        -- apply Z.eqb_eq in E47. subst c.
           replace (str_eqb (k ++ [47]) (k ++ [47])) with true by (symmetry; now apply str_eqb_eq).
           f_equal. change (k ++ 47 :: rest) with (k ++ [47] ++ rest).
           rewrite app_assoc. now rewrite skipn_app_exact.
        -- replace (str_eqb (k ++ [47]) (k ++ c :: first_component rest)) with false; [reflexivity|].
           symmetry. apply not_true_iff_false. intros H. apply str_eqb_eq in H.
           apply app_inv_head in H. inversion H. subst. now rewrite Z.eqb_refl in E47.
    + rewrite app_nil_r. destruct m' as [|c rest].
      * cbn [first_component]. rewrite !app_nil_r.
        replace (str_eqb k k) with true by (symmetry; now apply str_eqb_eq).
        f_equal. rewrite <- (app_nil_r k) at 2. now rewrite skipn_app_exact.
      * replace (str_eqb k (k ++ first_component (c :: rest))) with false; [reflexivity|].
        symmetry. apply not_true_iff_false. intros H. apply str_eqb_eq in H.
        rewrite <- (app_nil_r k) in H at 1. apply app_inv_head in H.
        symmetry in H. now apply fc_nonempty in H.
  - replace (str_eqb (key_of k sub) (first_component m)) with false; [reflexivity|].
    symmetry. apply not_true_iff_false. intros H. apply str_eqb_eq in H.
    destruct (fc_prefix m) as [r E]. rewrite <- H in E. unfold key_of in E.
    assert (prefixb k m = true); [|congruence].
    apply prefixb_prefix, prefix_app. rewrite <- app_assoc in E. eexists. exact E.
Qed.

Lemma index_of_notin : forall c a, ~ In c a -> index_of c a = None.
Proof.
  induction a as [|x a IH]; intros N; [reflexivity|]. cbn.
  destruct (x =? c) eqn:E; [apply Z.eqb_eq in E; subst; exfalso; apply N; now left|].
  rewrite IH; [reflexivity | intros H; apply N; now right].
Qed.

Lemma index_of_app_hit : forall c a b, ~ In c a -> index_of c (a ++ c :: b) = Some (length a).
Proof.
  induction a as [|x a IH]; intros b N; cbn.
  - now rewrite Z.eqb_refl.
  - destruct (x =? c) eqn:E; [apply Z.eqb_eq in E; subst; exfalso; apply N; now left|].
    rewrite IH; [reflexivity | intros H; apply N; now right].
Qed.

Lemma key_no_colon : forall k sub tys, wf_pat (mkp k sub tys) -> ~ In 58 (key_of k sub) /\ key_of k sub <> [].
Proof.
  intros k sub tys (Hs & _). cbn [segs mkp] in Hs. inversion Hs as [|? ? Hk0 _]; subst.
  cbn in Hk0. destruct Hk0 as [Hne Hk]. split.
  - unfold key_of. intros H. apply in_app_or in H as [H|H].
    + rewrite Forall_forall in Hk. destruct (Hk _ H) as (_ & H58 & _). congruence.
    + destruct sub; cbn in H; [destruct H as [H|[]]; discriminate | contradiction].
  - unfold key_of. destruct k; [congruence | discriminate].
Qed.

Definition spec_of (tys : option (list str)) : option str :=
  match tys with None => None | Some l => Some (render_types (Some l)) end.

Lemma split_literal : forall k sub tys, wf_pat (mkp k sub tys) ->
  split_name (render (mkp k sub tys)) = (key_of k sub, spec_of tys).
Proof.
  intros k sub tys Hwf. destruct (key_no_colon _ _ _ Hwf) as [Hnc Hne].
  rewrite render_mkp. unfold split_name. destruct Hwf as (_ & _ & _ & Ht). cbn [types mkp] in Ht.
  destruct tys as [l|].
  - destruct Ht as [Hl _]. destruct l as [|a l]; [congruence|].
    change (render_types (Some (a :: l))) with (58 :: a ++ render_types (Some l)).
    rewrite index_of_app_hit by assumption.
    destruct (key_of k sub) as [|c key] eqn:E; [congruence|]. cbn [length].
    rewrite <- E. change (S (length key)) with (length (c :: key)). rewrite <- E.
    rewrite firstn_app, Nat.sub_diag, firstn_all. cbn [firstn]. rewrite app_nil_r.
    rewrite skipn_app, Nat.sub_diag, skipn_all. reflexivity.
  - cbn [render_types spec_of]. rewrite app_nil_r. now rewrite index_of_notin.
Qed.

Definition tyok (tys : option (list str)) (args : str) : bool :=
  match spec_of tys with Some s => pm_match_args s args | None => true end.

(* rtosc_match on a literal name = "the message's first component is the
   key" and the types *)
Lemma literal_match : forall k sub tys m args,
  wf_pat (mkp k sub tys) -> ~ In 47 k -> addr_chars m ->
  rtosc_match (render (mkp k sub tys)) m args =
  if str_eqb (key_of k sub) (first_component m)
  then Some (tyok tys args, Some (skipn (length (key_of k sub)) m)) else Some (false, None).
Proof.
  intros k sub tys m args Hwf Hk Hm. unfold rtosc_match. rewrite literal_path by assumption.
  destruct (str_eqb (key_of k sub) (first_component m)); [|reflexivity].
  unfold tyok, spec_of. destruct tys as [l|]; [|reflexivity].
  destruct Hwf as (_ & _ & _ & [Hl _]). destruct l as [|a l]; [congruence|].
  change (hd0 (render_types (Some (a :: l))) =? 58) with true. cbn iota.
  now destruct (copies_agree (render_types (Some (a :: l))) args) as [_ ->].
Qed.

Lemma is_prefix_prefixb : forall a b, is_prefix a b = prefixb a b.
Proof. reflexivity. Qed.   (* the two fixpoints have the same body *)

(* two prefixes of the same string with the same length are equal *)
Lemma prefix_len_eq : forall a b m, prefixb a m = true -> prefixb b m = true ->
  length a = length b -> a = b.
Proof.
  induction a as [|x a IH]; intros [|y b] m Pa Pb L; cbn in L; try lia; [reflexivity|].
  destruct m as [|z m]; [discriminate|]. cbn in Pa, Pb.
  apply andb_true_iff in Pa as [Ea Pa]. apply andb_true_iff in Pb as [Eb Pb].
  apply Z.eqb_eq in Ea, Eb. subst. f_equal. eapply IH; eauto.
Qed.

Lemma fc_prefixb : forall m, prefixb (first_component m) m = true.
Proof.
  intros m. destruct (fc_prefix m) as [r E]. rewrite E at 2. apply prefixb_app.
Qed.

(* the test of the hashed branch (length + hard_match) on a literal name *)
Lemma literal_hard_match : forall k sub tys m args,
  wf_pat (mkp k sub tys) ->
  (Z.of_nat (length (fst (split_name (render (mkp k sub tys))))) =? Z.of_nat (length (first_component m)))
  && hard_match (render (mkp k sub tys)) m args =
  str_eqb (key_of k sub) (first_component m) && tyok tys args.
Proof.
  intros k sub tys m args Hwf. unfold hard_match. rewrite split_literal by assumption.
  cbn [fst snd]. unfold tyok. rewrite is_prefix_prefixb.
  set (key := key_of k sub). set (ty := match spec_of tys with Some s => pm_match_args s args | None => true end).
  destruct ty; rewrite ?andb_true_r, ?andb_false_r; [|reflexivity].
  destruct (str_eqb key (first_component m)) eqn:E.
  - apply str_eqb_eq in E. rewrite E, Z.eqb_refl. apply fc_prefixb.
  - apply not_true_iff_false. intros H. apply andb_true_iff in H as [L P].
    apply Z.eqb_eq in L. apply Nat2Z.inj in L.
    assert (key = first_component m) by (eapply prefix_len_eq; eauto using fc_prefixb).
    apply str_eqb_eq in H. congruence.
Qed.

(* ======================================================================== *)
(* the hashed lookup finds exactly what the linear scan finds                 *)
(* ======================================================================== *)
Definition lit_table (T : table) : Prop := Forall (fun p => lit_port (fst p)) (t_ports T).
Definition assoc_ok (T : table) : Prop :=
  length (t_assoc T) = 256%nat /\ Forall (fun a => 0 <= a) (t_assoc T).
(* a string of bytes (unsigned char values); nothing is asked beyond that since
   the letter table has one entry per byte value *)
Definition byte_str (m : str) : Prop := Forall (fun c => 0 <= c < 256) m.

Lemma tables_of_some : forall T H, tables_of T = Some H ->
  exists hs, all_some (map (hash_of (t_pos T) (t_assoc T)) (keys_of T)) = Some hs /\
             has_dups hs = false /\ h_pos H = t_pos T /\ h_assoc H = t_assoc T /\
             h_remap H = find_remap hs.
Proof.
  intros T H E. unfold tables_of in E.
  destruct (existsb (fun p => is_pattern (fst p)) (t_ports T)); [discriminate|].
  destruct (existsb (fun p => inner_slash (fst p)) (t_ports T)); [discriminate|].
  destruct (t_ports T) as [|p0 ps]; [discriminate|].
  destruct (t_pos T) as [|q0 qs]; [discriminate|].
  destruct (all_some (map (hash_of (q0 :: qs) (t_assoc T)) (keys_of T))) as [hs|]; [|discriminate].
  destruct (has_dups hs) eqn:D; [discriminate|]. inversion E; subst. exists hs. cbn. auto.
Qed.

Lemma all_some_nth : forall A (l : list (option A)) hs n x,
  all_some l = Some hs -> nth_error l n = Some x ->
  exists h, x = Some h /\ nth_error hs n = Some h.
Proof.
  induction l as [|[y|] l IH]; intros hs n x E N; [destruct n; discriminate | | discriminate].
  cbn in E. destruct (all_some l) as [t|] eqn:Al; [|discriminate]. inversion E; subst.
  destruct n as [|n]; cbn in N.
  - inversion N; subst. exists y. split; reflexivity.
  - cbn. eapply IH; eauto.
Qed.

Lemma all_some_length : forall A (l : list (option A)) hs, all_some l = Some hs -> length hs = length l.
Proof.
  induction l as [|[y|] l IH]; intros hs E; cbn in E; [inversion E; reflexivity | | discriminate].
  destruct (all_some l) as [t|]; [|discriminate]. inversion E; subst. cbn. f_equal. now apply IH.
Qed.

Lemma all_some_forall : forall A (P : A -> Prop) (l : list (option A)) hs,
  all_some l = Some hs -> (forall h, In (Some h) l -> P h) -> Forall P hs.
Proof.
  induction l as [|[y|] l IH]; intros hs E HP; cbn in E; [inversion E; constructor | | discriminate].
  destruct (all_some l) as [t|]; [|discriminate]. inversion E; subst.
  constructor; [apply HP; now left | apply IH; [reflexivity | intros h Hh; apply HP; now right]].
Qed.

Lemma hash_sum_nonneg : forall assoc s pos x,
  Forall (fun a => 0 <= a) assoc -> hash_sum assoc s pos = Some x -> 0 <= x.
Proof.
  induction pos as [|p r IH]; intros x Ha E; cbn in E; [inversion E; lia|].
  destruct (hash_sum assoc s r) as [acc|]; [|discriminate]. specialize (IH acc Ha eq_refl).
  destruct ((0 <=? p) && (p <? Z.of_nat (length s))); [|inversion E; lia].
  destruct (nth_error s (Z.to_nat p)) as [c|]; [|discriminate].
  unfold assoc_at in E. destruct (c <? 0); [discriminate|].
  destruct (nth_error assoc (Z.to_nat c)) as [a|] eqn:N; [|discriminate]. inversion E; subst.
  apply nth_error_In in N. rewrite Forall_forall in Ha. specialize (Ha _ N). lia.
Qed.

Lemma hash_of_nonneg : forall pos assoc s h,
  Forall (fun a => 0 <= a) assoc -> hash_of pos assoc s = Some h -> 0 <= h.
Proof.
  intros pos assoc s h Ha E. unfold hash_of in E.
  destruct (hash_sum assoc s pos) as [x|] eqn:S; [|discriminate]. inversion E; subst.
  pose proof (hash_sum_nonneg _ _ _ _ Ha S). lia.
Qed.

Lemma hash_sum_total : forall assoc s pos,
  length assoc = 256%nat -> byte_str s -> exists x, hash_sum assoc s pos = Some x.
Proof.
  induction pos as [|p r IH]; intros La Hs; cbn; [eauto|].
  destruct (IH La Hs) as [acc ->].
  destruct ((0 <=? p) && (p <? Z.of_nat (length s))) eqn:R; [|eauto].
  apply andb_true_iff in R as [R1 R2]. apply Z.leb_le in R1. apply Z.ltb_lt in R2.
  destruct (nth_error s (Z.to_nat p)) as [c|] eqn:N.
  - apply nth_error_In in N. unfold byte_str in Hs. rewrite Forall_forall in Hs. specialize (Hs _ N).
    unfold assoc_at. replace (c <? 0) with false by (symmetry; apply Z.ltb_ge; lia).
    destruct (nth_error assoc (Z.to_nat c)) as [a|] eqn:Na; [eauto|].
    apply nth_error_None in Na. lia.
  - apply nth_error_None in N. lia.
Qed.

Lemma set_nth_forall : forall (P : Z -> Prop) l n v, Forall P l -> P v -> Forall P (set_nth l n v).
Proof.
  induction l as [|x l IH]; intros [|n] v Hl Hv; cbn; try assumption; inversion Hl; subst; constructor; auto.
Qed.

Lemma fill_remap_bound : forall hs r i b,
  Forall (fun v => 0 <= v < b) r -> 0 <= i -> i + Z.of_nat (length hs) <= b ->
  Forall (fun v => 0 <= v < b) (fill_remap r hs i).
Proof.
  induction hs as [|h hs IH]; intros r i b Hr Hi Hb; cbn; [assumption|].
  cbn [length] in Hb. apply IH; [apply set_nth_forall; [assumption | lia] | lia | lia].
Qed.

Lemma find_remap_bound : forall hs, hs <> [] ->
  Forall (fun v => 0 <= v < Z.of_nat (length hs)) (find_remap hs).
Proof.
  intros hs Hne. unfold find_remap. apply fill_remap_bound; [|lia|lia].
  apply Forall_forall. intros v Hv. apply repeat_spec in Hv. subst.
  destruct hs; [congruence | cbn; lia].
Qed.

Lemma byte_str_fc : forall m, byte_str m -> byte_str (first_component m).
Proof.
  intros m H. destruct (fc_prefix m) as [r E]. unfold byte_str in *. rewrite E in H.
  apply Forall_app in H. tauto.
Qed.

Lemma keys_nth : forall T n name sub,
  nth_error (t_ports T) n = Some (name, sub) ->
  nth_error (keys_of T) n = Some (fst (split_name name)).
Proof. intros T n name sub E. unfold keys_of. now rewrite nth_error_map, E. Qed.

Theorem hashed_eq_linear : forall T H m args,
  tables_of T = Some H -> lit_table T -> assoc_ok T ->
  addr_chars m -> byte_str m ->
  lookup_hit T H m args <> LErr /\
  forall j name sub,
    lookup_hit T H m args = LHit j name sub <->
    exists pe, In (j, name, sub, pe) (scan_hits (t_ports T) 0 m args).
Proof.
  intros T H m args HT Hlit [La Ha] Hm H7.
  destruct (tables_of_some _ _ HT) as (hs & Hall & Hd & Ep & Eas & Er).
  assert (Hlen : length hs = length (t_ports T)).
  { rewrite (all_some_length _ _ _ Hall). unfold keys_of. now rewrite !map_length. }
  assert (Hpos : Forall (fun h => 0 <= h) hs).
  { eapply all_some_forall; [exact Hall|]. intros h Hin. apply in_map_iff in Hin as (key & E & _).
    eapply hash_of_nonneg; eassumption. }
  destruct (hash_sum_total (t_assoc T) (first_component m) (t_pos T) La (byte_str_fc _ H7)) as [x Hx].
  set (comp := first_component m) in *.
  assert (Hh : hash_of (h_pos H) (h_assoc H) comp = Some (Z.of_nat (length comp) + x)).
  { rewrite Ep, Eas. unfold hash_of. now rewrite Hx. }
  set (t := Z.of_nat (length comp) + x) in *.
  assert (Ht0 : 0 <= t) by (eapply hash_of_nonneg; [exact Ha | rewrite <- Eas; exact Hh]).
  assert (Hports : t_ports T <> []).
  { unfold tables_of in HT.
    destruct (existsb (fun p => is_pattern (fst p)) (t_ports T)); [discriminate|].
    destruct (existsb (fun p => inner_slash (fst p)) (t_ports T)); [discriminate|].
    destruct (t_ports T); [discriminate | discriminate]. }
  assert (Hhs : hs <> []) by (destruct hs; [destruct (t_ports T); [congruence | discriminate] | discriminate]).
  pose proof (find_remap_bound hs Hhs) as Hb. rewrite <- Er in Hb.
  (* a literal port is hit iff its key is the first component and the types fit *)
  assert (Lit : forall n name sub, nth_error (t_ports T) n = Some (name, sub) ->
            exists k sb tys, name = render (mkp k sb tys) /\ wf_pat (mkp k sb tys) /\ ~ In 47 k).
  { intros n name sub E. unfold lit_table in Hlit. rewrite Forall_forall in Hlit.
    apply nth_error_In in E. exact (Hlit _ E). }
  subst comp. split.
  - unfold lookup_hit. rewrite Hh.
    destruct (Z.of_nat (length (h_remap H)) <=? t) eqn:Le; [discriminate|]. apply Z.leb_gt in Le.
    destruct (nth_error (h_remap H) (Z.to_nat t)) as [pn|] eqn:N; [|apply nth_error_None in N; lia].
    apply nth_error_In in N. rewrite Forall_forall in Hb. specialize (Hb _ N).
    destruct (nth_error (t_ports T) (Z.to_nat pn)) as [[name sub]|] eqn:P; [|apply nth_error_None in P; lia].
    destruct (_ && _); discriminate.
  - intros j name sub. split.
    + intros L. unfold lookup_hit in L. rewrite Hh in L.
      destruct (Z.of_nat (length (h_remap H)) <=? t) eqn:Le; [discriminate|].
      destruct (nth_error (h_remap H) (Z.to_nat t)) as [pn|] eqn:N; [|discriminate].
      apply nth_error_In in N. rewrite Forall_forall in Hb. specialize (Hb _ N).
      destruct (nth_error (t_ports T) (Z.to_nat pn)) as [[nm sb]|] eqn:P; [|discriminate].
      destruct (Lit _ _ _ P) as (k & sb' & tys & -> & Hwf & Hk).
      rewrite literal_hard_match in L by assumption.
      destruct (str_eqb (key_of k sb') (first_component m) && tyok tys args) eqn:Tst; [|discriminate].
      inversion L; subst. apply andb_true_iff in Tst as [Tk Tt].
      exists (skipn (length (key_of k sb')) m). apply scan_hits_in.
      exists (Z.to_nat j). repeat split; [lia | assumption|].
      rewrite literal_match by assumption. now rewrite Tk, Tt.
    + intros (pe & Hin). apply scan_hits_in in Hin as (n & -> & P & M).
      destruct (Lit _ _ _ P) as (k & sb' & tys & -> & Hwf & Hk).
      rewrite literal_match in M by assumption.
      destruct (str_eqb (key_of k sb') (first_component m)) eqn:Tk; [|discriminate]. inversion M as [[Tt Epe]].
      apply str_eqb_eq in Tk.
      (* the key's slot *)
      pose proof (keys_nth _ _ _ _ P) as Kn. rewrite split_literal in Kn by assumption. cbn [fst] in Kn.
      assert (Hn : nth_error (map (hash_of (t_pos T) (t_assoc T)) (keys_of T)) n
                   = Some (hash_of (t_pos T) (t_assoc T) (key_of k sb'))) by now rewrite nth_error_map, Kn.
      destruct (all_some_nth _ _ _ _ _ Hall Hn) as (h & Eh & Nh).
      rewrite Tk, <- Ep, <- Eas, Hh in Eh. inversion Eh; subst h.
      destruct (find_remap_hit hs n t Hpos Hd Nh) as [Lt Rm]. rewrite <- Er in Lt, Rm.
      unfold lookup_hit. rewrite Hh.
      replace (Z.of_nat (length (h_remap H)) <=? t) with false by (symmetry; apply Z.leb_gt; lia).
      rewrite Rm, Nat2Z.id, P. rewrite literal_hard_match by assumption.
      replace (str_eqb (key_of k sb') (first_component m)) with true by (symmetry; now apply str_eqb_eq).
      rewrite Tt. cbn [andb]. reflexivity.
Qed.

(* whatever the tables are (valid or not, from the search or not): a port
   that the hashed branch invokes is one the linear scan would invoke *)
Theorem hashed_sound : forall T H m args j name sub,
  lit_table T -> addr_chars m ->
  lookup_hit T H m args = LHit j name sub ->
  nth_error (t_ports T) (Z.to_nat j) = Some (name, sub) /\
  exists pe, rtosc_match name m args = Some (true, Some pe).
Proof.
  intros T H m args j name sub Hlit Hm L. unfold lookup_hit in L.
  destruct (hash_of (h_pos H) (h_assoc H) (first_component m)) as [t|]; [|discriminate].
  destruct (Z.of_nat (length (h_remap H)) <=? t); [discriminate|].
  destruct (nth_error (h_remap H) (Z.to_nat t)) as [pn|]; [|discriminate].
  destruct (nth_error (t_ports T) (Z.to_nat pn)) as [[nm sb]|] eqn:P; [|discriminate].
  assert (LP : lit_port nm).
  { unfold lit_table in Hlit. rewrite Forall_forall in Hlit. apply nth_error_In in P. exact (Hlit _ P). }
  destruct LP as (k & sb' & tys & -> & Hwf & Hk).
  rewrite literal_hard_match in L by assumption.
  destruct (str_eqb (key_of k sb') (first_component m) && tyok tys args) eqn:Tst; [|discriminate].
  inversion L; subst. apply andb_true_iff in Tst as [Tk Tt]. split; [assumption|].
  rewrite literal_match by assumption. rewrite Tk, Tt. eauto.
Qed.

(* the default handler runs (hashed branch) only when no port of the table
   matches the message *)
Theorem default_only_when_no_match : forall T H m args,
  tables_of T = Some H -> lit_table T -> assoc_ok T -> addr_chars m -> byte_str m ->
  lookup_hit T H m args = LMiss -> scan_hits (t_ports T) 0 m args = [].
Proof.
  intros T H m args HT Hlit Ha Hm H7 L.
  destruct (hashed_eq_linear T H m args HT Hlit Ha Hm H7) as [_ Iff].
  destruct (scan_hits (t_ports T) 0 m args) as [|[[[j nm] sb] pe] r] eqn:E; [reflexivity|].
  assert (lookup_hit T H m args = LHit j nm sb) by (apply Iff; exists pe; now left). congruence.
Qed.

(* at most one port of a hashed literal table matches a message *)
Theorem hashed_table_unique : forall T H m args j1 n1 s1 p1 j2 n2 s2 p2,
  tables_of T = Some H -> lit_table T -> assoc_ok T -> addr_chars m -> byte_str m ->
  In (j1, n1, s1, p1) (scan_hits (t_ports T) 0 m args) ->
  In (j2, n2, s2, p2) (scan_hits (t_ports T) 0 m args) -> j1 = j2.
Proof.
  intros T H m args j1 n1 s1 p1 j2 n2 s2 p2 HT Hlit Ha Hm H7 I1 I2.
  destruct (hashed_eq_linear T H m args HT Hlit Ha Hm H7) as [_ Iff].
  assert (E1 : lookup_hit T H m args = LHit j1 n1 s1) by (apply Iff; eauto).
  assert (E2 : lookup_hit T H m args = LHit j2 n2 s2) by (apply Iff; eauto).
  congruence.
Qed.

(* ======================================================================== *)
(* the location buffer is restored (one table, any well-behaved callback)     *)
(* ======================================================================== *)
Definition keeps_loc (cb : callback) : Prop := forall i m d, loc (cb i m d) = loc d.

Lemma firstn_app_exact : forall (a b : str), firstn (length a) (a ++ b) = a.
Proof. induction a; intros; cbn; [reflexivity | now f_equal]. Qed.

Lemma loc_restore : forall old s,
  loc (restore old s) = match loc s with Some l => Some (firstn (length old) l) | None => None end.
Proof. intros old s. unfold restore. destruct (loc s) eqn:E; [reflexivity | exact E]. Qed.

Lemma loc_call : forall (cb : callback) i m obj0 x p, keeps_loc cb ->
  loc (set_obj (cb i m (set_port x p)) obj0) = loc x.
Proof. intros cb i m obj0 x p K. cbn [set_obj loc]. rewrite K. reflexivity. Qed.

Lemma step_loc_restores : forall cb tid m obj0 old st h,
  keeps_loc cb -> loc st = Some old -> loc (step_loc cb tid m obj0 old st h) = Some old.
Proof.
  intros cb tid m obj0 old st [[[i name] sub] pe] K L. unfold step_loc.
  assert (L1 : loc (if sub then st else inc_matches st) = Some old) by (destruct sub; exact L).
  rewrite L1, loc_restore, loc_call by assumption. cbn [set_loc loc].
  destruct (is_pattern name); now rewrite firstn_app_exact.
Qed.

Theorem scan_loc_restores : forall cb tid ports i m args obj0 old st,
  keeps_loc cb -> loc st = Some old ->
  loc (scan_loc cb tid ports i m args obj0 old st) = Some old.
Proof.
  intros cb tid ports i m args obj0 old st K L. rewrite scan_loc_fold.
  revert st L. induction (scan_hits ports i m args) as [|h r IH]; intros st L; [exact L|].
  cbn [fold_left]. apply IH. now apply step_loc_restores.
Qed.

Theorem lookup_loc_restores : forall cb dh T H m args obj0 old st,
  keeps_loc cb -> (forall m d, loc (dh m d) = loc d) -> loc st = Some old ->
  loc (lookup_loc cb dh T H m args obj0 old st) = Some old.
Proof.
  intros cb dh T H m args obj0 old st K Kd L. rewrite lookup_loc_hit.
  destruct (lookup_hit T H m args) as [| |i name sub].
  - exact L.
  - destruct (t_dflt T); [|exact L]. unfold call_default. cbn [set_obj loc]. rewrite Kd. exact L.
  - unfold step_hashed.
    assert (L1 : loc (if sub then st else inc_matches st) = Some old) by (destruct sub; exact L).
    rewrite L1, loc_restore, loc_call by assumption. cbn [set_loc loc].
    now rewrite firstn_app_exact.
Qed.

(* what a callback sees: its own Port in d.port, and in loc the old location
   followed by its name (literal names; for '#' names the matched text) *)
Theorem callback_sees : forall cb tid m obj0 old st i name sub pe,
  loc st = Some old ->
  step_loc cb tid m obj0 old st (i, name, sub, pe) =
  restore old (set_obj (cb i m
    {| loc := Some (old ++ (if is_pattern name then firstn (length m - length pe) m else upto_colon name));
       matches := if sub then matches st else matches st + 1;
       obj := obj st; dport := Some (tid, i); log := log st |}) obj0).
Proof.
  intros cb tid m obj0 old st i name sub pe L. unfold step_loc.
  assert (L1 : loc (if sub then st else inc_matches st) = Some old) by (destruct sub; exact L).
  rewrite L1. f_equal. f_equal. f_equal.
  destruct sub, (is_pattern name); unfold set_port, set_loc, inc_matches; cbn; reflexivity.
Qed.

(* ---- non-vacuity ---------------------------------------------------------- *)
Definition tab_ex : table :=
  {| t_id := 0; t_dflt := false;
     t_ports := [([97; 58; 105], false); ([98; 99; 47], true); ([98; 97], false)];
     t_pos := [0]; t_assoc := repeat 0 256 |}.

Lemma tab_ex_ok :
  (exists H, tables_of tab_ex = Some H /\
     lookup_hit tab_ex H [98; 99; 47; 120] [] = LHit 1 [98; 99; 47] true /\
     lookup_hit tab_ex H [97] [105] = LHit 0 [97; 58; 105] false /\
     lookup_hit tab_ex H [97] [102] = LMiss) /\
  lit_table tab_ex /\ assoc_ok tab_ex.
Proof.
  split; [eexists; split; [vm_compute; reflexivity | vm_compute; auto]|].
  split.
  - unfold lit_table, tab_ex. cbn [t_ports]. repeat constructor; cbn [fst].
    + exists [97], false, (Some [[105]]). split; [reflexivity|]. split; [unfold wf_pat, mkp; prove_wf | cbn; intuition discriminate].
    + exists [98; 99], true, None. split; [reflexivity|]. split; [unfold wf_pat, mkp; prove_wf | cbn; intuition discriminate].
    + exists [98; 97], false, None. split; [reflexivity|]. split; [unfold wf_pat, mkp; prove_wf | cbn; intuition discriminate].
  - split; [reflexivity|]. unfold tab_ex. cbn [t_assoc].
    apply Forall_forall. intros a Ha. apply repeat_spec in Ha. lia.
Qed.
