(* C04 - proofs about the dispatch model (Ports/DispatchModel.v). *)
From Coq Require Import List ZArith Bool Lia.
From RtoscV Require Import Match.PatSpec Match.MatchModel Match.MatchProofs Ports.DispatchModel.
Import ListNotations.
Local Open Scope Z_scope.

(* the table of D3: with the result of the library's search (pos = [0;1],
   assoc a = 1, b = 0) two names hash alike; the repaired build step sees it
   and selects the linear scan *)
Definition assoc_ab : list Z := repeat 0 97 ++ [1; 0] ++ repeat 0 28.
Definition tab_d3 : table :=
  {| t_id := 0; t_dflt := false;
     t_ports := [([97; 98], false); ([98; 97], false); ([97; 97], false); ([98; 98], false)];
     t_pos := [0; 1]; t_assoc := assoc_ab |}.

Lemma d3_falls_back : tables_of tab_d3 = None.
Proof. vm_compute. reflexivity. Qed.
