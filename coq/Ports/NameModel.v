(* Shared by C18 and C09: port names, the port tree, and the fragment of
   rtosc_match_path (src/dispatch.c:71-112) that port names built from literal
   characters, '#N', '/' and a ':' argument part exercise (since stage 2 the
   matcher itself is C05's model, Match/MatchModel.v).  No proofs here.

   C strings are lists of bytes without the terminator; a char pointer into a
   string is the suffix that starts at the pointee, the byte under a pointer
   that reached the end is the terminator 0 (hd0).  Every advance of a pointer
   in the modelled code happens after the byte under it was seen to be
   non-zero, so a suffix never has to move past the terminator. *)
From Coq Require Import List ZArith Bool Arith.
From RtoscV Require Import Match.PatSpec Match.MatchModel.
Import ListNotations.
Local Open Scope Z_scope.

Notation byte := Z (only parsing).
Notation str := (list Z) (only parsing).

Definition is_nil {A} (l : list A) : bool := match l with [] => true | _ => false end.

Fixpoint streqb (a b : str) : bool :=
  match a, b with
  | [], [] => true
  | x :: a', y :: b' => (x =? y) && streqb a' b'
  | _, _ => false
  end.

(* strstr(hay, needle) == hay *)
Fixpoint prefixb (needle hay : str) : bool :=
  match needle, hay with
  | [], _ => true
  | x :: n', y :: h' => (x =? y) && prefixb n' h'
  | _ :: _, [] => false
  end.

Fixpoint has_char (c : byte) (s : str) : bool :=
  match s with [] => false | x :: t => (x =? c) || has_char c t end.

(* atoi on a string that starts with its digits (callers either tested
   isdigit or the name has digits after '#'); no digit = 0 as in C.  Values are
   unbounded: more than 9 digits overflow int in C (stated precondition).
   atoi_acc / skip_digits / hd0 / isdigit are C05's (Match/MatchModel.v). *)
Definition atoi (s : str) : Z := atoi_acc 0 s.

(* snprintf("%d", i) for 0 <= i *)
Fixpoint dec_fuel (fuel : nat) (n : Z) (acc : str) : str :=
  match fuel with
  | O => acc
  | S f =>
      let acc' := (48 + n mod 10) :: acc in
      if n <? 10 then acc' else dec_fuel f (n / 10) acc'
  end.
Definition dec (n : Z) : str := dec_fuel (S (Z.to_nat (Z.log2 n))) n [].

(* ---- the port tree ----------------------------------------------------------- *)
(* meta: None = NULL pointer, Some block = the bytes of the metadata block
   including its final terminator(s) *)
Inductive port := Port (name : str) (meta : option (list byte)) (sub : option (list port)).

Definition pname (p : port) : str := match p with Port n _ _ => n end.
Definition pmeta (p : port) : option (list byte) := match p with Port _ m _ => m end.
Definition psub (p : port) : option (list port) := match p with Port _ _ s => s end.

(* a port is identified by its index path from the root table *)
Fixpoint get_port (t : list port) (id : list nat) : option port :=
  match id with
  | [] => None
  | [i] => nth_error t i
  | i :: r => match nth_error t i with
              | Some (Port _ _ (Some s)) => get_port s r
              | _ => None
              end
  end.

(* ---- Spec side: structured names ------------------------------------------- *)
Inductive seg := Lit (s : str) | Enum (n : Z).

Definition render_seg (sg : seg) : str :=
  match sg with Lit s => s | Enum n => 35 :: dec n end.

(* the path part of a name, then its argument part ("" or ":...") *)
Definition render_name (segs : list seg) (args : str) : str :=
  concat (map render_seg segs) ++ args.

(* all concrete names: every '#N' replaced by 0..N-1, leftmost index slowest *)
Fixpoint expand (segs : list seg) : list str :=
  match segs with
  | [] => [[]]
  | Lit s :: r => map (app s) (expand r)
  | Enum n :: r =>
      flat_map (fun i => map (app (dec (Z.of_nat i))) (expand r)) (seq 0 (Z.to_nat n))
  end.
