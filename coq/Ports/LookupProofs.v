(* C18 - lookup of walked addresses: computed instances and the witness for
   the reading of the side condition (see notes/C18.md).  The general theorem
   (for every well-formed tree whose concrete sibling names are prefix-free,
   every pair the walk reports is found by apropos) is not proved here; it is
   checked on every run by the tie and the Python Spec oracle. *)
From Coq Require Import List ZArith Bool.
From RtoscV Require Import Match.PatSpec Match.MatchModel Ports.NameModel Ports.PathModel Ports.WalkModel Ports.WalkProofs.
Import ListNotations.
Local Open Scope Z_scope.

Definition id_eqb (a b : list nat) : bool :=
  (Nat.eqb (length a) (length b)) && forallb (fun p => Nat.eqb (fst p) (snd p)) (combine a b).

Definition lookup_all (t : list port) : bool :=
  match walk None t [] with
  | WOk reps _ =>
      forallb (fun r => match apropos t (snd r) with
                        | AFound id => id_eqb id (fst r)
                        | _ => false
                        end) reps
  | WFail => false
  end.

(* "a#3/b#2/c/" -> { "e", "v#2/w#11:i" }: all 6 + 6*22 walked addresses *)
Example lookup_example : lookup_all (map render_port ex_numeric_s) = true.
Proof. vm_compute. reflexivity. Qed.

(* the side condition has to speak about concrete names AND exclude literal
   digits: the siblings "a#4b" and "a01b" have no concrete name that is a prefix
   of another (a0b..a3b vs a01b), the walk reports (port 1, "/a01b"), the lookup
   returns port 0 because the matcher reads "01" as the index 1 *)
Definition alias_tree : list port := [Port [97;35;52;98] None None; Port [97;48;49;98] None None].

Example lookup_digit_alias :
  walk None alias_tree [] =
    WOk [([0%nat], [47;97;48;98]); ([0%nat], [47;97;49;98]); ([0%nat], [47;97;50;98]);
         ([0%nat], [47;97;51;98]); ([1%nat], [47;97;48;49;98])] [47] /\
  apropos alias_tree [47;97;48;49;98] = AFound [0%nat].
Proof. split; vm_compute; reflexivity. Qed.
