(* C17 - model of Port::MetaIterator / Port::MetaContainer
   (src/cpp/ports.cpp:126-217, include/rtosc/ports.h:104-145) and of the
   metadata layout produced by rMap/rProp/rDoc/rOpt (port-sugar.h:350-392).

   A C pointer into the metadata block is modelled as the *suffix* of the
   block that starts at the pointee (all pointer motion in this code is
   forward).  Reading the head of the empty suffix is an out-of-bounds read
   and makes every model function return None.  A NULL pointer is the
   separate constructor Null.  No proofs in this file. *)
From Coq Require Import List ZArith Bool.
Import ListNotations.
Local Open Scope Z_scope.

Definition byte := Z.
Definition str := list byte.

Inductive ptr := Null | At (suffix : list byte).

(* ---- layout written by the macros -------------------------------------- *)
Definition entry := (str * option str)%type.

Definition render_entry (e : entry) : list byte :=
  58 :: fst e ++ 0 ::
  match snd e with Some v => 61 :: v ++ [0] | None => [] end.

(* the string literal's own terminator closes the block *)
Definition render (es : list entry) : list byte :=
  concat (map render_entry es) ++ [0].

(* ---- C-string helpers --------------------------------------------------- *)
(* bytes of the C string starting at p; None if no terminator inside *)
Fixpoint cstr (p : list byte) : option str :=
  match p with
  | [] => None
  | c :: t => if c =? 0 then Some []
              else match cstr t with Some s => Some (c :: s) | None => None end
  end.

(* the suffix starting at the terminator of the string at p *)
Fixpoint strend (p : list byte) : option (list byte) :=
  match p with
  | [] => None
  | c :: t => if c =? 0 then Some p else strend t
  end.

(* ---- metaiterator_advance(title, value): returns the new value --------- *)
Definition advance (title : ptr) : option ptr :=
  match title with
  | Null => Some Null
  | At [] => None
  | At ((c :: _) as t) =>
      if c =? 0 then Some Null
      else match strend t with
           | Some (_ :: e :: v) => if e =? 61 then Some (At v) else Some Null
           | _ => None
           end
  end.

Record iter := { title : ptr; value : ptr }.

Definition mk_iter (p : ptr) : option iter :=
  match advance p with Some v => Some {| title := p; value := v |} | None => None end.

(* while(prev || ( *title && *title != ':')) prev = *title++; *)
Fixpoint scan_next (prev : byte) (t : list byte) : option (list byte) :=
  match t with
  | [] => None
  | c :: t' =>
      if negb (prev =? 0) || (negb (c =? 0) && negb (c =? 58))
      then scan_next c t' else Some t
  end.

(* MetaIterator::operator++ *)
Definition incr (it : iter) : option iter :=
  match title it with
  | Null => Some {| title := Null; value := value it |}
  | At [] => None
  | At ((c :: _) as t) =>
      if c =? 0 then Some {| title := Null; value := value it |}
      else match scan_next 0 t with
           | Some [] => None
           | Some (d :: t') =>
               if d =? 0 then mk_iter Null else mk_iter (At t')
           | None => None
           end
  end.

(* Port::meta() followed by MetaContainer::begin(): each strips one ':' *)
Definition strip_colon (p : list byte) : option (list byte) :=
  match p with
  | [] => None
  | c :: t => if c =? 58 then Some t else Some p
  end.

Definition meta (metadata : list byte) : option (list byte) := strip_colon metadata.

Definition begin_ (str_ptr : list byte) : option iter :=
  match strip_colon str_ptr with
  | Some p => mk_iter (At p)
  | None => None
  end.

(* what the range-for sees: one (title, value) per iterator state whose
   title is non-NULL.  The loop is bounded by the block length. *)
Definition deref (it : iter) : option (option (str * option str)) :=
  match title it with
  | Null => Some None
  | At t =>
      match cstr t with
      | None => None
      | Some k =>
          match value it with
          | Null => Some (Some (k, None))
          | At v => match cstr v with
                    | Some s => Some (Some (k, Some s))
                    | None => None
                    end
          end
      end
  end.

Fixpoint iterate_from (fuel : nat) (it : iter) : option (list entry) :=
  match fuel with
  | O => None
  | S f =>
      match deref it with
      | None => None
      | Some None => Some []
      | Some (Some e) =>
          match incr it with
          | None => None
          | Some it' =>
              match iterate_from f it' with
              | Some es => Some (e :: es)
              | None => None
              end
          end
      end
  end.

Definition iterate (str_ptr : list byte) : option (list entry) :=
  match begin_ str_ptr with
  | Some it => iterate_from (S (length str_ptr)) it
  | None => None
  end.

(* positions, for the correspondence check: offset of a suffix in a block *)
Definition off (whole : list byte) (p : ptr) : Z :=
  match p with Null => -1 | At s => Z.of_nat (length whole) - Z.of_nat (length s) end.

Fixpoint iterate_pos_from (whole : list byte) (fuel : nat) (it : iter)
  : option (list (Z * Z)) :=
  match fuel with
  | O => None
  | S f =>
      match title it with
      | Null => Some []
      | At _ =>
          match incr it with
          | None => None
          | Some it' =>
              match iterate_pos_from whole f it' with
              | Some ps => Some ((off whole (title it), off whole (value it)) :: ps)
              | None => None
              end
          end
      end
  end.

(* for(x : *this) if(!strcmp(x.title, str)) return x;  return NULL *)
Definition str_eqb (a b : str) : bool :=
  (Nat.eqb (length a) (length b)) && forallb (fun p => fst p =? snd p) (combine a b).

Fixpoint find_from (fuel : nat) (key : str) (it : iter) : option iter :=
  match fuel with
  | O => None
  | S f =>
      match title it with
      | Null => Some {| title := Null; value := Null |}
      | At t =>
          match cstr t with
          | None => None
          | Some k =>
              if str_eqb k key then Some it
              else match incr it with
                   | Some it' => find_from f key it'
                   | None => None
                   end
          end
      end
  end.

Definition find (str_ptr : list byte) (key : str) : option iter :=
  match begin_ str_ptr with
  | Some it => find_from (S (length str_ptr)) key it
  | None => None
  end.

(* MetaContainer::operator[] : value pointer of the first entry named key *)
Definition lookup (str_ptr : list byte) (key : str) : option (option str) :=
  match find str_ptr key with
  | None => None
  | Some it =>
      match title it, value it with
      | Null, _ => Some None
      | At _, Null => Some None
      | At _, At v => match cstr v with Some s => Some (Some s) | None => None end
      end
  end.

Definition present (str_ptr : list byte) (key : str) : option bool :=
  match find str_ptr key with
  | None => None
  | Some it => Some (match title it with Null => false | At _ => true end)
  end.

(* MetaContainer::length:  while(prev || *itr) prev = *itr++;  2+(itr-str) *)
Fixpoint len_scan (prev : byte) (p : list byte) (n : Z) : option Z :=
  match p with
  | [] => None
  | c :: t => if negb (prev =? 0) || negb (c =? 0) then len_scan c t (n + 1) else Some n
  end.

Definition length_ (str_ptr : list byte) : option Z :=
  match str_ptr with
  | [] => None
  | c :: _ => if c =? 0 then Some 0
              else match len_scan 0 str_ptr 0 with
                   | Some n => Some (2 + n)
                   | None => None
                   end
  end.

(* ---- Spec side ----------------------------------------------------------- *)
Definition nonul (s : str) : Prop := Forall (fun c => c <> 0) s.
Definition key_ok (k : str) : Prop :=
  k <> [] /\ nonul k /\ hd 0 k <> 58.
Definition entry_ok (e : entry) : Prop :=
  key_ok (fst e) /\ match snd e with Some v => nonul v | None => True end.

Fixpoint spec_lookup (es : list entry) (key : str) : option str :=
  match es with
  | [] => None
  | (k, v) :: r => if str_eqb k key then v else spec_lookup r key
  end.

Definition spec_present (es : list entry) (key : str) : bool :=
  existsb (fun e => str_eqb (fst e) key) es.
