(* C09 - port_is_enabled (src/cpp/ports.cpp) as a function: which port it asks,
   at which address, and what it returns; and the pruning oracle of
   Ports/WalkModel.v built from it.  No proofs in this file.

   bool port_is_enabled(port, loc, loc_size, base, runtime, relative_to_parent,
                        walker, data, port_runtime, portname_from_base):
     enable_port = port->meta()["enabled by"]          -- none: enabled
     n = port->name, e = enable_port, advanced while equal and neither is '/'
     subport = ( *e == '/' && *n == '/')
     ask_port_str = subport ? e+1 : enable_port
     ask_ports    = subport ? *base[port->name]->ports : base
     ask_port     = ask_ports[ask_port_str]              -- assert(ask_port)
     below = subport && portname_from_base
     loc_copy = below ? loc ++ ask_port_str
                      : loc ++ (relative_to_parent ? "../" : "") ++ enable_port
     collapsed_loc = Ports::collapsePath(loc_copy)
     get_value_from_runtime(..., *ask_port, collapsed_loc, ...)   -- the toggle's answer
     res = 'T' or a non-zero 'i'
   The answer does not depend on collapsed_loc (it is only handed to the
   callback as its location, and to the walker): the callback of ask_port runs
   on `runtime` - the object of the table `base`, or port_runtime, the port's
   own object, for a toggle inside it.  So the runtime enters through
     ans t n = "the toggle named n of the table whose object is reached at the
                address t answers true".
   The buffer is assumed large enough (strncat does not truncate). *)
From Coq Require Import List ZArith Bool.
From RtoscV Require Import Match.PatSpec Ports.MetaModel Ports.NameModel Ports.PathModel Ports.WalkModel.
Import ListNotations.
Local Open Scope Z_scope.

Inductive equery :=
| QAlways                                   (* no 'enabled by' property: enabled *)
| QAsk (inside : bool) (j : nat) (n a : str)  (* port j, named n, of the asked table (the port's own sub-table if inside); location a *)
| QAssert.                                  (* assert(ask_port) / a leaf's sub-table / unreadable metadata / collapsePath ran off *)

Definition dotdot_slash : str := [46; 46; 47].

Definition enabled_query (q : port) (base : list port) (loc : str) (rel below : bool) : equery :=
  match q with
  | Port qn None _ => QAlways
  | Port qn (Some m) sub =>
      match meta m with
      | None => QAssert
      | Some s =>
          match lookup s enabled_by with
          | None => QAssert
          | Some None => QAlways
          | Some (Some v) =>
              match subport_split qn v with
              | Some e' =>
                  match sub with
                  | None => QAssert
                  | Some st =>
                      match index_op st e' with
                      | None => QAssert
                      | Some j =>
                          let raw := if below then loc ++ e'
                                     else loc ++ (if rel then dotdot_slash else []) ++ v in
                          match collapse_str raw with
                          | Some (_, a) => QAsk true j e' a
                          | None => QAssert
                          end
                      end
                  end
              | None =>
                  match index_op base v with
                  | None => QAssert
                  | Some j =>
                      match collapse_str (loc ++ (if rel then dotdot_slash else []) ++ v) with
                      | Some (_, a) => QAsk false j v a
                      | None => QAssert
                      end
                  end
              end
          end
      end
  end.

Section Runtime.
Variable ans : str -> str -> bool.

(* the return value; None = the code asserts.  tbl = the address the table
   `base` was reached at (name_buffer up to old_end), loc = the port's own *)
Definition port_enabled (q : port) (base : list port) (tbl loc : str) (rel below : bool) : option bool :=
  match enabled_query q base loc rel below with
  | QAlways => Some true
  | QAsk inside _ n _ => Some (ans (if inside then loc else tbl) n)
  | QAssert => None
  end.

(* the addresses walk_ports_recurse0 hands to walk_ports_recurse for a sub-tree
   name, computed by the code's own expansion *)
Definition expansions (qn : str) (buf : str) : list str :=
  match recurse0 (S (length qn)) (fun b => WOk [([], b)] b) qn buf buf with
  | WOk reps _ => map snd reps
  | WFail => []
  end.

(* walk_ports: port_is_enabled(( *base)["self:"], name_buffer, ..., *base, runtime, false, ...) *)
Definition self_site (t : list port) (b : str) : list (bool * str) :=
  match index_op t self_key with
  | Some i =>
      match nth_error t i with
      | Some sp => match port_enabled sp t b b false false with Some false => [(true, b)] | _ => [] end
      | None => []
      end
  | None => []
  end.

(* every place of the tree where one of the two calls answers false, no pruning:
   (false, b) = walk_ports_recurse's call for the sub-tree reached at b
                (relative_to_parent = true, portname_from_base = old_end),
   (true, b)  = walk_ports' call for the self: port of the table reached at b *)
Fixpoint off_sites (q : port) (base : list port) (b : str) {struct q} : list (bool * str) :=
  match q with
  | Port qn m (Some sub) =>
      flat_map (fun b' =>
        (match port_enabled q base b b' true true with Some false => [(false, b')] | _ => [] end)
        ++ self_site sub b'
        ++ (fix go (l : list port) : list (bool * str) :=
              match l with [] => [] | c :: r => off_sites c sub b' ++ go r end) sub)
        (expansions qn b)
  | Port _ _ None => []
  end.

(* a table reached at b: its self: port, then its sub-tree ports *)
Definition off_table (t : list port) (b : str) : list (bool * str) :=
  self_site t b ++ flat_map (fun c => off_sites c t b) t.

Definition site_mem (x : bool * str) (l : list (bool * str)) : bool :=
  existsb (fun y => Bool.eqb (fst x) (fst y) && streqb (snd x) (snd y)) l.

(* the oracle of the walk, from the toggles' answers and the NULL child pointers *)
Definition oracle_of (nulls : list str) (root : list port) (buf : str) : oracle :=
  let sites := off_table root (norm buf) in
  {| o_null := fun b => existsb (streqb b) nulls;
     o_disabled := fun b => site_mem (false, b) sites;
     o_selfoff := fun b => site_mem (true, b) sites |}.
End Runtime.

Definition walk_rt (ans : str -> str -> bool) (nulls : list str) (root : list port) (buf : str) : wres :=
  walk (Some (oracle_of ans nulls root buf)) root buf.
