(* C04 - regression witnesses: the decision / lookup functions as they were on
   the pinned tree (before the fix: commits for D3, D20, D23, for the letter
   table indexed with a plain char, and for the default handler that ran on
   one path only) and the tables on which the property fails for them. *)
From Coq Require Import List ZArith Bool.
From RtoscV Require Import Match.PatSpec Match.MatchModel Ports.DispatchModel.
Import ListNotations.
Local Open Scope Z_scope.

(* generate_minimal_hash as pinned: no check for an inner '/', no check that
   the search ended without collisions *)
Definition tables_of_old (T : table) : option hashtab :=
  if existsb (fun p => mem 35 (fst p)) (t_ports T) then None
  else match t_ports T, t_pos T with
       | [], _ => None
       | _, [] => None
       | _, _ =>
           match all_some (map (hash_of (t_pos T) (t_assoc T)) (keys_of T)) with
           | None => None
           | Some hs => Some {| h_pos := t_pos T; h_assoc := t_assoc T; h_remap := find_remap hs |}
           end
       end.

(* the hashed branch as pinned: hard_match alone decides *)
Definition lookup_loc_old (cb : callback) (dh : str -> dstate -> dstate) (T : table) (H : hashtab)
           (m args : str) (obj0 : Z) (old : str) (st : dstate) : dstate :=
  let comp := first_component m in
  match hash_of (h_pos H) (h_assoc H) comp with
  | None => add_log st EvError
  | Some t =>
      if Z.of_nat (length (h_remap H)) <=? t then
        (if t_dflt T then call_default dh m obj0 st else st)
      else
        match nth_error (h_remap H) (Z.to_nat t) with
        | None => add_log st EvError
        | Some port_num =>
            match nth_error (t_ports T) (Z.to_nat port_num) with
            | None => add_log st EvError
            | Some (name, sub) =>
                let key := fst (split_name name) in
                if hard_match name m args then
                  let st1 := if sub then st else inc_matches st in
                  let st2 := match loc st1 with
                             | Some l => set_loc st1 (Some (old ++ key))
                             | None => st1
                             end in
                  restore old (set_obj (cb port_num m (set_port st2 (Some (t_id T, port_num)))) obj0)
                else if t_dflt T then call_default dh m obj0 st
                else st
            end
        end
  end.

Definition dispatch_table_old (cb : callback) (dh : str -> dstate -> dstate) (T : table)
           (m args : str) (base : bool) (st : dstate) : dstate :=
  let obj0 := obj st in
  let st1 := if base then
               let s := set_matches st 0 in
               match loc s with Some _ => set_loc s (Some []) | None => s end
             else st in
  let m1 := if base then match m with c :: t => if c =? 47 then t else m | [] => m end else m in
  match loc st1 with
  | None => scan_noloc cb (t_id T) (t_ports T) 0 m1 args obj0 st1
  | Some l0 =>
      let l := match l0 with [] => [47] | _ => l0 end in
      let st2 := set_loc st1 (Some l) in
      match tables_of_old T with
      | None => scan_loc cb (t_id T) (t_ports T) 0 m1 args obj0 l st2
      | Some H => lookup_loc_old cb dh T H m1 args obj0 l st2
      end
  end.

(* a root dispatch into a flat table of leaves; which ports ran *)
Definition leaf_cb (T : table) : callback := fun i m d => leaf_event (t_id T) i m true d.
Definition no_dh : str -> dstate -> dstate := fun _ d => d.

Fixpoint invoked (l : list event) : list Z :=
  match l with
  | [] => []
  | Ev _ i _ _ _ _ _ :: r => invoked r ++ [i]
  | _ :: r => invoked r
  end.

Definition run_old (T : table) (m : str) (with_loc : bool) : list Z :=
  invoked (log (dispatch_table_old (leaf_cb T) no_dh T m [] true (init_state with_loc 1))).
Definition run_new (T : table) (m : str) (with_loc : bool) : list Z :=
  invoked (log (dispatch_table (leaf_cb T) no_dh T m [] true (init_state with_loc 1))).

Definition zeros127 : list Z := repeat 0 127.
Definition assoc_ab : list Z := repeat 0 97 ++ [1; 0] ++ repeat 0 28.

(* D3: {ab, ba, aa, bb}, pos = [0;1], assoc a = 1, b = 0 (what the pinned
   library's search returns): ab and ba both hash to 3 *)
Definition tab_d3 : table :=
  {| t_id := 0; t_dflt := false;
     t_ports := [([97; 98], false); ([98; 97], false); ([97; 97], false); ([98; 98], false)];
     t_pos := [0; 1]; t_assoc := assoc_ab |}.
(* D20: {c, a/b}, pos = [0], assoc = 0 *)
Definition tab_d20 : table :=
  {| t_id := 0; t_dflt := false; t_ports := [([99], false); ([97; 47; 98], false)];
     t_pos := [0]; t_assoc := zeros127 |}.
(* D23: {a, bcd}, pos = [0], assoc = 0 *)
Definition tab_d23 : table :=
  {| t_id := 0; t_dflt := false; t_ports := [([97], false); ([98; 99; 100], false)];
     t_pos := [0]; t_assoc := zeros127 |}.

(* /ab reaches port 0 without a location buffer and nothing with one *)
Lemma d3_refuted :
  run_old tab_d3 [47; 97; 98] false = [0] /\ run_old tab_d3 [47; 97; 98] true = [].
Proof. vm_compute. split; reflexivity. Qed.

(* /a/b reaches port 1 without a location buffer and nothing with one *)
Lemma d20_refuted :
  run_old tab_d20 [47; 97; 47; 98] false = [1] /\ run_old tab_d20 [47; 97; 47; 98] true = [].
Proof. vm_compute. split; reflexivity. Qed.

(* /ab reaches nothing without a location buffer and port 0 (name a) with one *)
Lemma d23_refuted :
  run_old tab_d23 [47; 97; 98] false = [] /\ run_old tab_d23 [47; 97; 98] true = [0].
Proof. vm_compute. split; reflexivity. Qed.

(* the repaired functions on the same tables and messages (find_assoc now
   makes 256 entries: the same tables, padded) *)
Definition widen (T : table) : table :=
  {| t_id := t_id T; t_dflt := t_dflt T; t_ports := t_ports T; t_pos := t_pos T;
     t_assoc := t_assoc T ++ repeat 0 (256 - length (t_assoc T)) |}.

Lemma witnesses_repaired :
  run_new (widen tab_d3) [47; 97; 98] true = [0] /\ run_new (widen tab_d3) [47; 97; 98] false = [0] /\
  run_new (widen tab_d20) [47; 97; 47; 98] true = [1] /\ run_new (widen tab_d20) [47; 97; 47; 98] false = [1] /\
  run_new (widen tab_d23) [47; 97; 98] true = [] /\ run_new (widen tab_d23) [47; 97; 98] false = [].
Proof. vm_compute. repeat split; reflexivity. Qed.

(* ---- the letter table indexed with a plain char ------------------------------
   before "fix: the perfect-hash letter table was indexed with a plain char":
   assoc had 127 entries and Ports::dispatch read assoc[m[p]] with m a
   `const char *`: a byte >= 0x80 is a negative index, 0x7f is one past the end. *)
Definition assoc_at_old (assoc : list Z) (c : Z) : option Z :=
  let sc := if c <? 128 then c else c - 256 in         (* (char)c on the pinned platforms *)
  if sc <? 0 then None else nth_error assoc (Z.to_nat sc).

Fixpoint hash_sum_old (assoc : list Z) (s : str) (pos : list Z) : option Z :=
  match pos with
  | [] => Some 0
  | p :: r =>
      match hash_sum_old assoc s r with
      | None => None
      | Some acc =>
          if (0 <=? p) && (p <? Z.of_nat (length s)) then
            match nth_error s (Z.to_nat p) with
            | Some c => match assoc_at_old assoc c with Some a => Some (a + acc) | None => None end
            | None => None
            end
          else Some acc
      end
  end.

(* None = the hashed branch read outside the vector *)
Definition hash_of_old (pos assoc : list Z) (s : str) : option Z :=
  match hash_sum_old assoc s pos with Some x => Some (Z.of_nat (length s) + x) | None => None end.

(* {ab, cd, ef}: pos = [0], assoc a = 1, c = 2 (the library's search result) *)
Definition assoc_ace (n : nat) : list Z := repeat 0 97 ++ [1; 0; 2] ++ repeat 0 (n - 100).
Definition tab_hi (n : nat) : table :=
  {| t_id := 0; t_dflt := false;
     t_ports := [([97; 98], false); ([99; 100], false); ([101; 102], false)];
     t_pos := [0]; t_assoc := assoc_ace n |}.

(* "/\xe9\xe9" and "/\x7f": the pinned lookup reads outside its 127 entries *)
Lemma highbyte_refuted :
  tables_of (tab_hi 127) <> None /\
  hash_of_old [0] (assoc_ace 127) [233; 233] = None /\
  hash_of_old [0] (assoc_ace 127) [127] = None.
Proof. vm_compute. repeat split; discriminate. Qed.

(* repaired: 256 entries, unsigned index: every byte has its entry, the lookup
   finds no port, nothing is logged (no EvError), with and without buffer *)
Lemma highbyte_repaired :
  hash_of [0] (assoc_ace 256) [233; 233] = Some 2 /\
  hash_of [0] (assoc_ace 256) [127] = Some 1 /\
  log (dispatch_table (leaf_cb (tab_hi 256)) no_dh (tab_hi 256) [47; 233; 233] [] true (init_state true 1)) = [] /\
  log (dispatch_table (leaf_cb (tab_hi 256)) no_dh (tab_hi 256) [47; 233; 233] [] true (init_state false 1)) = [] /\
  run_new (tab_hi 256) [47; 97; 98] true = [0].
Proof. vm_compute. repeat split; reflexivity. Qed.

(* ---- the default handler ran on one path only ---------------------------------
   before "fix: a table's default handler ... ran only when the table had a perfect
   hash and a location buffer was supplied": dispatch_table_old has no default
   handler in its two scans. *)
Definition log_dh (T : table) : str -> dstate -> dstate :=
  fun msg d => add_log d (EvDefault (t_id T) msg (obj d) (loc d)).
Fixpoint defaults (l : list event) : nat :=
  match l with
  | [] => O
  | EvDefault _ _ _ _ :: r => S (defaults r)
  | _ :: r => defaults r
  end.
Definition dflt_old (T : table) (m : str) (with_loc : bool) : nat :=
  defaults (log (dispatch_table_old (leaf_cb T) (log_dh T) T m [] true (init_state with_loc 1))).
Definition dflt_new (T : table) (m : str) (with_loc : bool) : nat :=
  defaults (log (dispatch_table (leaf_cb T) (log_dh T) T m [] true (init_state with_loc 1))).

Definition with_dflt (T : table) : table :=
  {| t_id := t_id T; t_dflt := true; t_ports := t_ports T; t_pos := t_pos T; t_assoc := t_assoc T |}.
(* {a#2, cd} with a default handler: never hashed *)
Definition tab_lin : table :=
  {| t_id := 0; t_dflt := true; t_ports := [([97; 35; 50], false); ([99; 100], false)];
     t_pos := []; t_assoc := [] |}.

(* /zz: pinned, the hashed table {ab,cd,ef} runs its default handler with a
   location buffer and not without; the unhashed {a#2,cd} never runs it *)
Lemma default_path_refuted :
  dflt_old (with_dflt (tab_hi 127)) [47; 122; 122] true = 1%nat /\
  dflt_old (with_dflt (tab_hi 127)) [47; 122; 122] false = 0%nat /\
  dflt_old tab_lin [47; 122; 122] true = 0%nat /\
  dflt_old tab_lin [47; 122; 122] false = 0%nat.
Proof. vm_compute. repeat split; reflexivity. Qed.

(* repaired: once on every path; not at all when a port matches *)
Lemma default_path_repaired :
  dflt_new (with_dflt (tab_hi 256)) [47; 122; 122] true = 1%nat /\
  dflt_new (with_dflt (tab_hi 256)) [47; 122; 122] false = 1%nat /\
  dflt_new tab_lin [47; 122; 122] true = 1%nat /\
  dflt_new tab_lin [47; 122; 122] false = 1%nat /\
  dflt_new tab_lin [47; 97; 49] true = 0%nat /\ dflt_new tab_lin [47; 97; 49] false = 0%nat /\
  dflt_new (with_dflt (tab_hi 256)) [47; 99; 100] true = 0%nat /\
  dflt_new (with_dflt (tab_hi 256)) [47; 99; 100] false = 0%nat.
Proof. vm_compute. repeat split; reflexivity. Qed.

(* ---- names with alternatives ---------------------------------------------------
   before "fix: a port table whose names hold alternatives ... got a perfect
   hash" generate_minimal_hash looked for '#' only, and before "fix: the linear
   scan of Ports::dispatch appended the text of the port's name ..." the scan
   took the matched text of the message for '#' names only. *)
Definition tables_of_noalt (T : table) : option hashtab :=
  if existsb (fun p => mem 35 (fst p)) (t_ports T) then None
  else if existsb (fun p => inner_slash (fst p)) (t_ports T) then None
  else match t_ports T, t_pos T with
       | [], _ => None
       | _, [] => None
       | _, _ =>
           match all_some (map (hash_of (t_pos T) (t_assoc T)) (keys_of T)) with
           | None => None
           | Some hs => if has_dups hs then None
                        else Some {| h_pos := t_pos T; h_assoc := t_assoc T; h_remap := find_remap hs |}
           end
       end.

Fixpoint scan_loc_noalt (cb : callback) (tid : Z) (ports : list (str * bool)) (i : Z)
         (m args : str) (obj0 : Z) (old : str) (st : dstate) : dstate :=
  match ports with
  | [] => st
  | (name, sub) :: r =>
      let st' :=
        match rtosc_match name m args with
        | Some (true, Some m_end) =>
            let st1 := if sub then st else inc_matches st in
            let app := if mem 35 name then firstn (length m - length m_end) m else upto_colon name in
            let st2 := match loc st1 with
                       | Some l => set_loc st1 (Some (if mem 35 name then old ++ app else l ++ app))
                       | None => st1
                       end in
            restore old (set_obj (cb i m (set_port st2 (Some (tid, i)))) obj0)
        | Some (true, None) => add_log st EvError
        | Some (false, _) => st
        | None => add_log st EvError
        end in
      scan_loc_noalt cb tid r (i + 1) m args obj0 old st'
  end.

Definition dispatch_table_noalt (cb : callback) (dh : str -> dstate -> dstate) (T : table)
           (m args : str) (base : bool) (st : dstate) : dstate :=
  let obj0 := obj st in
  let st1 := if base then
               let s := set_matches st 0 in
               match loc s with Some _ => set_loc s (Some []) | None => s end
             else st in
  let m1 := if base then match m with c :: t => if c =? 47 then t else m | [] => m end else m in
  match loc st1 with
  | None =>
      let st' := scan_noloc cb (t_id T) (t_ports T) 0 m1 args obj0 st1 in
      if any_match (t_ports T) m1 args then st'
      else if t_dflt T then call_default_noloc dh m1 obj0 st' else st'
  | Some l0 =>
      let l := match l0 with [] => [47] | _ => l0 end in
      let st2 := set_loc st1 (Some l) in
      match tables_of_noalt T with
      | None =>
          let st' := scan_loc_noalt cb (t_id T) (t_ports T) 0 m1 args obj0 l st2 in
          if any_match (t_ports T) m1 args then st'
          else if t_dflt T then call_default dh m1 obj0 st' else st'
      | Some H => lookup_loc cb dh T H m1 args obj0 l st2
      end
  end.

(* which ports ran, and the loc each of them saw *)
Fixpoint seen (l : list event) : list (Z * option str) :=
  match l with
  | [] => []
  | Ev _ i _ _ lc _ _ :: r => seen r ++ [(i, lc)]
  | _ :: r => seen r
  end.
Definition seen_noalt (T : table) (m : str) (with_loc : bool) : list (Z * option str) :=
  seen (log (dispatch_table_noalt (leaf_cb T) no_dh T m [] true (init_state with_loc 1))).
Definition seen_new (T : table) (m : str) (with_loc : bool) : list (Z * option str) :=
  seen (log (dispatch_table (leaf_cb T) no_dh T m [] true (init_state with_loc 1))).

(* { {ab,cd}x, ef, gh }: pos = [0], assoc e = 1 (what the library's search
   returns): the keys hash to 8, 3, 2 - no collision, the table was hashed *)
Definition tab_alt_hashed : table :=
  {| t_id := 0; t_dflt := false;
     t_ports := [([123; 97; 98; 44; 99; 100; 125; 120], false); ([101; 102], false); ([103; 104], false)];
     t_pos := [0]; t_assoc := repeat 0 101 ++ [1] ++ repeat 0 154 |}.
(* { {ab,cd}x, e#2 }: never hashed *)
Definition tab_alt_lin : table :=
  {| t_id := 0; t_dflt := false;
     t_ports := [([123; 97; 98; 44; 99; 100; 125; 120], false); ([101; 35; 50], false)];
     t_pos := []; t_assoc := [] |}.

(* /abx reaches {ab,cd}x without a location buffer and nothing with one; the
   address /{ab,cd}x - the text of the name - reaches it with a buffer only;
   in the unhashed table /cdx is delivered, but the callback sees the loc
   "/{ab,cd}x" *)
Lemma alt_names_refuted :
  seen_noalt tab_alt_hashed [47; 97; 98; 120] false = [(0, None)] /\
  seen_noalt tab_alt_hashed [47; 97; 98; 120] true = [] /\
  seen_noalt tab_alt_hashed [47; 123; 97; 98; 44; 99; 100; 125; 120] false = [] /\
  seen_noalt tab_alt_hashed [47; 123; 97; 98; 44; 99; 100; 125; 120] true =
    [(0, Some [47; 123; 97; 98; 44; 99; 100; 125; 120])] /\
  seen_noalt tab_alt_lin [47; 99; 100; 120] true = [(0, Some [47; 123; 97; 98; 44; 99; 100; 125; 120])].
Proof. vm_compute. repeat split; reflexivity. Qed.

(* repaired: the same callbacks with and without buffer, loc = the address *)
Lemma alt_names_repaired :
  seen_new tab_alt_hashed [47; 97; 98; 120] false = [(0, None)] /\
  seen_new tab_alt_hashed [47; 97; 98; 120] true = [(0, Some [47; 97; 98; 120])] /\
  seen_new tab_alt_hashed [47; 123; 97; 98; 44; 99; 100; 125; 120] false = [] /\
  seen_new tab_alt_hashed [47; 123; 97; 98; 44; 99; 100; 125; 120] true = [] /\
  seen_new tab_alt_lin [47; 99; 100; 120] true = [(0, Some [47; 99; 100; 120])] /\
  tables_of tab_alt_hashed = None.
Proof. vm_compute. repeat split; reflexivity. Qed.
