(* C18 - "the port addressed by a path" (LookupSpec.addresses: structural descent
   with C05's [spells], no reference to apropos) is what apropos computes, for
   leaves AND sub-tree ports; so the table path_search looks at
   (PathModel.addressed) is the children of that port. *)
From Coq Require Import List ZArith Bool Arith Lia.
From RtoscV Require Import Match.PatSpec Match.MatchModel Match.MatchProofs
     Ports.DispatchModel Ports.DispatchProofs Ports.TreeProofs
     Ports.MetaModel Ports.NameModel Ports.PathModel Ports.PathProofs Ports.SearchProofs
     Ports.WalkModel Ports.WalkProofs
     Ports.DecProofs Ports.EnumProofs Ports.DispatchWalk Ports.LookupGen Ports.NamesModel Ports.NamesOk
     Ports.LookupSpec.
Import ListNotations.
Local Open Scope Z_scope.

Lemma sconv_conv : sconv = conv.
Proof. reflexivity. Qed.

(* ---- spells over concatenations ---------------------------------------------------------- *)
Lemma spells_app a : forall b u v, spells a u -> spells b v -> spells (a ++ b) (u ++ v).
Proof.
  induction a as [|s a IH]; intros b u v Hu Hv.
  - inversion Hu; subst. exact Hv.
  - inversion Hu as [|s' r x y Hx Hy]; subst. rewrite <- app_assoc. cbn [app]. constructor; [exact Hx | apply IH; assumption].
Qed.

Lemma spells_app_inv a : forall b z, spells (a ++ b) z -> exists u v, spells a u /\ spells b v /\ z = u ++ v.
Proof.
  induction a as [|s a IH]; intros b z H.
  - exists [], z. split; [constructor | split; [exact H | reflexivity]].
  - cbn [app] in H. inversion H as [|s' r x y Hx Hy]; subst.
    destruct (IH b y Hy) as [u [v [Hu [Hv ->]]]].
    exists (x ++ u), v. split; [constructor; assumption | split; [exact Hv | apply app_assoc]].
Qed.

(* a sub-tree name "t1/t2#N/..." spells y ++ "/" where the components joined by '/' spell y *)
Lemma comp_spells c x : spells (map conv (comp_segs c)) x ->
  exists y, spells (map conv (comp_conv c)) y /\ x = y ++ [47].
Proof.
  destruct c as [t [n|]]; cbn [comp_segs comp_conv map conv]; intros H.
  - apply spells_lit_inv in H. destruct H as [y1 [-> H]].
    inversion H as [|s2 r2 x2 y2 Hx2 Hy2]. subst s2 r2 y1.
    apply spells_lit_inv in Hy2. destruct Hy2 as [y3 [-> Hy3]]. apply spells_nil_inv in Hy3. subst y3.
    exists (t ++ x2 ++ []). split.
    + constructor; [constructor|]. constructor; [exact Hx2 | constructor].
    + rewrite !app_nil_r, <- !app_assoc. reflexivity.
  - apply spells_lit_inv in H. destruct H as [y1 [-> H]]. apply spells_nil_inv in H. subst y1.
    exists (t ++ []). split; [constructor; [constructor | constructor] | rewrite !app_nil_r; reflexivity].
Qed.

Lemma comps_spells cs : cs <> [] -> forall x, spells (map conv (comps_segs cs)) x ->
  exists y, spells (map conv (comps_conv cs)) y /\ x = y ++ [47].
Proof.
  induction cs as [|c r IH]; intros Hne x Hx; [congruence|].
  rewrite comps_segs_cons, map_app in Hx. apply spells_app_inv in Hx. destruct Hx as [u [v [Hu [Hv ->]]]].
  destruct (comp_spells c u Hu) as [y [Hy ->]].
  destruct r as [|c' r']; cbn [comps_conv].
  - cbn [comps_segs flat_map map] in Hv. inversion Hv; subst.
    exists y. rewrite !app_nil_r. split; [exact Hy | reflexivity].
  - destruct (IH ltac:(discriminate) v Hv) as [y' [Hy' ->]].
    exists (y ++ [47] ++ y'). split; [|rewrite <- !app_assoc; reflexivity].
    rewrite map_app. apply spells_app; [exact Hy|]. cbn [map conv]. constructor; [constructor | exact Hy'].
Qed.

(* ---- the port on the path matches what spells its name ------------------------------------ *)
Lemma subtree_matches_spells cs x rest :
  cs <> [] -> Forall dcomp cs -> spells (map conv (comps_segs cs)) x -> addr_ok (x ++ rest) ->
  match_path (flatten (comps_segs cs) ++ []) (x ++ rest) = MRet [] rest.
Proof.
  intros Hne Hc Hx Haddr.
  destruct (comps_spells cs Hne x Hx) as [y [Hy ->]].
  pose proof (comps_conv_wf cs Hc) as Hw.
  set (p := {| segs := map conv (comps_conv cs); subtree := true; types := None |}).
  assert (Hr : flatten (comps_segs cs) ++ [] = PatSpec.render p).
  { unfold PatSpec.render, render_tail, p. cbn [segs subtree types render_types app].
    rewrite render_conv, (comps_flatten cs Hne), !app_nil_r. reflexivity. }
  rewrite Hr. rewrite <- app_assoc. cbn [app].
  assert (Hwf : wf_pat p).
  { unfold wf_pat, p. cbn [segs subtree types]. repeat split;
      [apply conv_seg_ok; exact Hw | apply conv_enum_sep; exact Hw | intros E; discriminate]. }
  replace (MRet [] rest) with (MRet (render_types (types p)) rest) by reflexivity.
  apply path_complete; [exact Hwf | intros l Hl'; exfalso; exact (conv_no_alt _ _ Hl')
                        | apply conv_enum_delimited; exact Hw
                        | rewrite <- app_assoc in Haddr; exact Haddr |].
  unfold path_spec, p. cbn [subtree segs]. exists y. split; [exact Hy | reflexivity].
Qed.

Lemma leaf_matches_spells sg args a :
  dsegs_wf sg -> last_not_slash (map conv sg) -> (exists ty, admits args ty) ->
  spells (map conv sg) a -> addr_ok a ->
  exists r, match_path (flatten sg ++ args) a = MRet r [].
Proof.
  intros Hw Hl [ty [tys [-> [Ht _]]]] Ha Haddr.
  set (p := {| segs := map conv sg; subtree := false; types := tys |}).
  assert (Hr : flatten sg ++ render_types tys = PatSpec.render p).
  { unfold PatSpec.render, render_tail, p. cbn [segs subtree types app]. rewrite render_conv. reflexivity. }
  rewrite Hr.
  assert (Hwf : wf_pat p).
  { unfold wf_pat, p. cbn [segs subtree types]. repeat split;
      [apply conv_seg_ok; exact Hw | apply conv_enum_sep; exact Hw | intros _; exact Hl | exact Ht]. }
  exists (render_types (types p)).
  apply path_complete; [exact Hwf | intros l Hl'; exfalso; exact (conv_no_alt _ _ Hl')
                        | apply conv_enum_delimited; exact Hw | exact Haddr |].
  unfold path_spec, p. cbn [subtree segs]. split; [exact Ha | reflexivity].
Qed.

(* ---- apropos computes the addressed port ---------------------------------------------------- *)
Lemma addresses_hd l j rest a : Forall lok l -> addresses l (j :: rest) a -> hd0 a <> 47 /\ a <> [].
Proof.
  intros Hl H. cbn [addresses] in H.
  destruct (nth_error l j) as [[sg args m sub]|] eqn:E; [|contradiction].
  destruct H as [x [a' [Hx [-> _]]]]. rewrite sconv_conv in Hx.
  rewrite Forall_forall in Hl. pose proof (Hl _ (nth_error_In _ _ E)) as Hq.
  destruct sub as [l'|]; cbn [lok] in Hq.
  - destruct Hq as [_ [[cs [-> [Hcs Hcl]]] _]].
    destruct cs as [|c r]; [congruence|]. inversion Hcl as [|? ? Hc _]; subst.
    destruct Hc as [Hne [_ [Hns _]]].
    rewrite comps_segs_cons, map_app in Hx. apply spells_app_inv in Hx. destruct Hx as [u [v [Hu [_ ->]]]].
    destruct c as [t [n|]]; cbn [comp_segs map conv fst] in *;
      apply spells_lit_inv in Hu; destruct Hu as [y [-> _]];
      (destruct t as [|c0 t0]; [congruence|]); cbn [app hd0];
      (split; [intros ->; apply Hns; left; reflexivity | discriminate]).
  - destruct Hq as [_ [_ Hh]]. destruct sg as [|[[|c0 s]|n] sg]; try contradiction.
    cbn [map conv] in Hx. apply spells_lit_inv in Hx. destruct Hx as [y [-> _]].
    cbn [app hd0]. split; [exact Hh | discriminate].
Qed.

Theorem lookup_addresses : forall id l a n m,
  lookup_disjoint l -> Forall lok l -> Forall adm l -> addr_ok a -> addresses l id a ->
  apropos_port false (Port n m (Some (map render_port l))) a = AFound id.
Proof.
  induction id as [|j rest IH]; intros l a n m Hd Hl Ha Haddr H; [contradiction|].
  destruct (addresses_hd l j rest a Hl H) as [Hh Hne].
  rewrite (apropos_port_rel _ _ _ _ a Hh).
  cbn [addresses] in H. destruct (nth_error l j) as [[sg args m' sub]|] eqn:E; [|contradiction].
  destruct H as [x [a' [Hx [-> H]]]]. rewrite sconv_conv in Hx.
  pose proof Hl as Hl0. rewrite Forall_forall in Hl0. pose proof (Hl0 _ (nth_error_In _ _ E)) as Hq.
  pose proof Ha as Ha0. rewrite Forall_forall in Ha0. pose proof (Ha0 _ (nth_error_In _ _ E)) as Hadm.
  destruct sub as [l'|].
  - (* a sub-tree port: the addressed port itself, or one on the way *)
    cbn [lok] in Hq. destruct Hq as [-> [[cs [-> [Hcs Hc]]] [Hd' Hall]]].
    pose proof (subtree_matches_spells cs x a' Hcs Hc Hx Haddr) as Hmp.
    set (q := SPort (comps_segs cs) [] m' (Some l')) in *.
    assert (Hans : exists r pe, match_path (sname q) (x ++ a') = MRet r pe) by (exists [], a'; exact Hmp).
    destruct (others_silent l j q (x ++ a') Hd E Haddr Hans) as [pre [post [-> [Hlen [Hpre _]]]]].
    rewrite map_app. cbn [map]. rewrite loop1_skip by exact Hpre. cbn [apropos_loop1].
    rewrite pname_render, psub_render. unfold q at 1 2 3. cbn [sname].
    change (render_name (comps_segs cs) []) with (flatten (comps_segs cs) ++ []).
    replace (has_char 47 (flatten (comps_segs cs) ++ [])) with true
      by (rewrite (comps_flatten cs Hcs), !has_char_app; cbn; rewrite orb_true_r; reflexivity).
    rewrite Hmp.
    destruct rest as [|j2 rest2].
    + subst a'. cbn [is_nil negb]. rewrite Hlen. reflexivity.
    + destruct H as [Hne' H]. destruct a' as [|c0 a'']; [congruence|]. cbn [is_nil negb].
      unfold q. cbn [render_port]. cbn [adm] in Hadm.
      assert (Haddr' : addr_ok (c0 :: a'')) by (apply Forall_app in Haddr; apply Haddr).
      rewrite (IH l' (c0 :: a'') _ m' Hd' (lok_all _ Hall) (adm_all _ Hadm) Haddr' H).
      cbn [aprepend]. rewrite Hlen. reflexivity.
  - (* a leaf *)
    destruct rest as [|j2 rest2]; [|contradiction].
    subst a'. rewrite app_nil_r in *.
    cbn [lok] in Hq. destruct Hq as [Hw [Hls _]]. cbn [adm] in Hadm.
    destruct (leaf_matches_spells sg args x Hw Hls Hadm Hx Haddr) as [r Hmp].
    set (q := SPort sg args m' None) in *.
    assert (Hans : exists r pe, match_path (sname q) x = MRet r pe) by (exists r, []; exact Hmp).
    destruct (others_silent l j q x Hd E Haddr Hans) as [pre [post [-> [Hlen [Hpre Hpost]]]]].
    rewrite map_app. cbn [map]. rewrite loop1_skip by exact Hpre. cbn [apropos_loop1].
    rewrite pname_render, psub_render. unfold q at 1 2 3 4. cbn [sname].
    change (render_name sg args) with (flatten sg ++ args).
    destruct (has_char 47 (flatten sg ++ args)).
    + rewrite Hmp. rewrite Hlen. reflexivity.
    + rewrite <- (app_nil_r (map render_port post)). rewrite loop1_skip by exact Hpost. cbn [apropos_loop1].
      rewrite leaf_skip by exact Hpre. cbn [apropos_leaf].
      rewrite pname_render. unfold q. cbn [sname]. change (render_name sg args) with (flatten sg ++ args).
      destruct x as [|c0 a0]; [congruence|]. cbn [is_nil].
      destruct (NameModel.prefixb (c0 :: a0) (flatten sg ++ args)); [rewrite Hlen; reflexivity|].
      rewrite Hmp, Hlen. reflexivity.
Qed.

(* ---- names_ok version, absolute address ------------------------------------------------------ *)
Lemma names_ok_adm root : names_ok root = true -> Forall adm root.
Proof.
  unfold names_ok. intros H. apply andb_true_iff in H. destruct H as [_ Hall]. rewrite forallb_forall in Hall.
  rewrite Forall_forall. intros q Hq. apply port_okb_adm. apply Hall. exact Hq.
Qed.

Theorem apropos_addresses root id a :
  names_ok root = true -> addr_ok a -> addresses root id a ->
  apropos (map render_port root) (47 :: a) = AFound id.
Proof.
  intros H Haddr Ha. destruct (names_ok_sound root H) as [_ [_ [_ [Hlok Hld]]]].
  destruct id as [|j rest]; [contradiction|].
  destruct (addresses_hd root j rest a Hlok Ha) as [Hh _].
  unfold apropos. rewrite (apropos_port_abs false [] None (map render_port root) a Hh).
  apply lookup_addresses; try assumption. apply names_ok_adm. exact H.
Qed.

(* the model's index path resolves to the rendered port *)
Lemma nth_error_render l j : nth_error (map render_port l) j = option_map render_port (nth_error l j).
Proof. revert j. induction l as [|x l IH]; intros [|j]; cbn; auto. Qed.

Lemma get_port_render : forall id l q,
  sport_at l id = Some q -> get_port (map render_port l) id = Some (render_port q).
Proof.
  induction id as [|j rest IH]; intros l q H; [discriminate|].
  destruct rest as [|j2 rest2].
  - cbn [sport_at get_port] in *. rewrite nth_error_render, H. reflexivity.
  - cbn [sport_at] in H. cbn [get_port]. rewrite nth_error_render.
    destruct (nth_error l j) as [[sg a m [l'|]]|]; try discriminate.
    cbn [option_map render_port]. apply IH. exact H.
Qed.

Lemma addresses_sport_at : forall id l a, addresses l id a -> exists q, sport_at l id = Some q.
Proof.
  induction id as [|j rest IH]; intros l a H; [contradiction|].
  cbn [addresses] in H. destruct (nth_error l j) as [[sg args m sub]|] eqn:E; [|contradiction].
  destruct H as [x [a' [_ [_ H]]]]. destruct rest as [|j2 rest2].
  - cbn [sport_at]. rewrite E. eexists. reflexivity.
  - destruct sub as [l'|]; [|contradiction]. destruct H as [_ H].
    destruct (IH l' a' H) as [q Hq]. exists q. cbn [sport_at]. rewrite E. exact Hq.
Qed.

(* the table path_search looks at, for the address of ANY port of the tree: the
   children of the addressed port (the port itself if it has none) *)
Theorem addressed_is_spec root id a q :
  names_ok root = true -> addr_ok a -> addresses root id a -> sport_at root id = Some q ->
  addressed (map render_port root) (47 :: a) = AdOk (children_of q).
Proof.
  intros H Haddr Ha Hq. unfold addressed.
  destruct (names_ok_sound root H) as [_ [_ [_ [Hlok _]]]].
  destruct id as [|j rest]; [contradiction|].
  destruct (addresses_hd root j rest a Hlok Ha) as [_ Hne].
  destruct a as [|c0 a0]; [congruence|]. cbn [is_nil streqb orb]. rewrite andb_false_r.
  rewrite (apropos_addresses root (j :: rest) (c0 :: a0) H Haddr Ha).
  rewrite (get_port_render _ _ _ Hq).
  destruct q as [sg args m [l|]]; reflexivity.
Qed.

(* the search clause at the address of a sub-tree, table order *)
Theorem search_at_address root id a q needle :
  names_ok root = true -> addr_ok a -> addresses root id a -> sport_at root id = Some q ->
  Forall (fun p => meta_wf (pmeta p)) (children_of q) ->
  path_search (map render_port root) (47 :: a) needle Unmodified =
    SOk (map hit_of (spec_children needle (children_of q))).
Proof.
  intros H Haddr Ha Hq Hm. apply search_unmodified; [|exact Hm].
  apply (addressed_is_spec root id a q); assumption.
Qed.

(* ---- a non-root table with several children ------------------------------------------------- *)
(* ex_nested = "s/" -> { "osc#3/" -> { "vol" (doc), "qan:i", "pb/" -> { "l" }, "pa" }, "x" }, "t";
   "s/osc1/" names the port [0;0]; its four children are what the searches see *)
Example ex_nested_addressed :
  names_ok ex_nested = true /\
  addresses ex_nested [0%nat; 0%nat] [115; 47; 111; 115; 99; 49; 47] /\
  (exists q, sport_at ex_nested [0%nat; 0%nat] = Some q /\ length (children_of q) = 4%nat) /\
  path_search (map render_port ex_nested) [47; 115; 47; 111; 115; 99; 49; 47] [] Unmodified =
    SOk [{| e_name := Some [118; 111; 108]; e_data := Some [58; 100; 111; 99; 0; 61; 118; 0; 0]; e_len := 9 |};
         {| e_name := Some [113; 97; 110; 58; 105]; e_data := None; e_len := 0 |};
         {| e_name := Some [112; 98; 47]; e_data := None; e_len := 0 |};
         {| e_name := Some [112; 97]; e_data := None; e_len := 0 |}] /\
  path_search (map render_port ex_nested) [47; 115; 47; 111; 115; 99; 49; 47] [112] Sorted =
    SOk [{| e_name := Some [112; 97]; e_data := None; e_len := 0 |};
         {| e_name := Some [112; 98; 47]; e_data := None; e_len := 0 |}] /\
  (* the leading-zero spelling names the same port (C05) *)
  addresses ex_nested [0%nat; 0%nat] [115; 47; 111; 115; 99; 48; 49; 47].
Proof.
  split; [vm_compute; reflexivity|]. split; [|split; [|split; [|split]]].
  - cbn [addresses ex_nested nth_error]. exists [115; 47], [111; 115; 99; 49; 47]. split.
    + change [115; 47] with ([115; 47] ++ []). constructor; constructor.
    + split; [reflexivity|]. split; [discriminate|].
      cbn [addresses nth_error]. exists [111; 115; 99; 49; 47], []. split.
      * change [111; 115; 99; 49; 47] with ([111; 115; 99] ++ [49] ++ [47] ++ []).
        constructor; [constructor|]. constructor; [|constructor; constructor].
        constructor; [discriminate | repeat constructor | vm_compute; reflexivity].
      * split; reflexivity.
  - eexists. split; [reflexivity | reflexivity].
  - vm_compute. reflexivity.
  - vm_compute. reflexivity.
  - cbn [addresses ex_nested nth_error]. exists [115; 47], [111; 115; 99; 48; 49; 47]. split.
    + change [115; 47] with ([115; 47] ++ []). constructor; constructor.
    + split; [reflexivity|]. split; [discriminate|].
      cbn [addresses nth_error]. exists [111; 115; 99; 48; 49; 47], []. split.
      * change [111; 115; 99; 48; 49; 47] with ([111; 115; 99] ++ [48; 49] ++ [47] ++ []).
        constructor; [constructor|]. constructor; [|constructor; constructor].
        constructor; [discriminate | repeat constructor | vm_compute; reflexivity].
      * split; reflexivity.
Qed.
