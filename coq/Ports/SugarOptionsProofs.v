(* C14: with pairwise distinct symbols, a symbol of an rOptions(...) list is
   translated to its position in the list - for a list of any length *)
From Coq Require Import List ZArith Bool Lia.
From RtoscV Require Import Ports.SugarModel Ports.SugarProofs Ports.SugarOptions.
Import ListNotations.
Local Open Scope Z_scope.

Lemma options_from_app : forall a b k,
  options_from k (a ++ b) = options_from k a ++ options_from (k + Z.of_nat (length a)) b.
Proof.
  induction a as [|x a IH]; intros b k.
  - cbn. f_equal. lia.
  - cbn [app options_from length]. rewrite IH. cbn [app].
    replace (k + 1 + Z.of_nat (length a)) with (k + Z.of_nat (S (length a))) by lia. reflexivity.
Qed.

Lemma options_from_snd : forall a k s,
  ~ In s a -> Forall (fun kv : Z * str => snd kv <> s) (options_from k a).
Proof.
  induction a as [|x a IH]; intros k s Hn; cbn [options_from].
  - constructor.
  - constructor.
    + cbn. intro E. apply Hn. left. exact E.
    + apply IH. intro Hi. apply Hn. right. exact Hi.
Qed.

Lemma nth_error_split_nodup : forall (syms : list str) i s,
  NoDup syms -> nth_error syms i = Some s ->
  exists a b, syms = a ++ s :: b /\ length a = i /\ ~ In s a.
Proof.
  induction syms as [|x syms IH]; intros i s Hnd Hn.
  - destruct i; discriminate.
  - destruct i as [|i].
    + cbn in Hn. injection Hn as ->. exists [], syms. repeat split. intros [].
    + cbn in Hn. inversion Hnd as [|? ? Hx Hnd']; subst.
      destruct (IH i s Hnd' Hn) as (a & b & -> & Hl & Hni).
      exists (x :: a), b. repeat split.
      * cbn. f_equal. exact Hl.
      * intros [E | Hi]; [| exact (Hni Hi)].
        subst x. apply Hx. apply in_or_app. right. left. reflexivity.
Qed.

Theorem symbol_index_position : forall syms i s,
  NoDup syms -> nth_error syms i = Some s ->
  symbol_index (rOptions_decl syms) s = Some (Z.of_nat i).
Proof.
  intros syms i s Hnd Hn.
  destruct (nth_error_split_nodup syms i s Hnd Hn) as (a & b & -> & Hl & Hni).
  apply symbol_index_first.
  unfold rOptions_decl. rewrite options_from_app. cbn [options_from].
  exists (options_from 0 a), (options_from (0 + Z.of_nat (length a) + 1) b).
  split.
  - rewrite Hl. reflexivity.
  - apply options_from_snd. exact Hni.
Qed.

(* setting symbol number i of an rOptions(...) list stores i, with the undo /
   broadcast contract of a set *)
Theorem rOptionCb_symbol_position : forall e loc old syms i s,
  p_map e = rOptions_decl syms -> NoDup syms -> nth_error syms i = Some s ->
  exists res, rOptionCb e loc old [ASy s] = Some res /\
              set_spec zkey Ai Ai None None loc old (Z.of_nat i) res.
Proof.
  intros e loc old syms i s Hm Hnd Hn.
  apply rOptionCb_set_symbol. rewrite Hm. apply symbol_index_position; assumption.
Qed.

(* the 11-symbol list of the harness: the last symbol "kilo" is option 10 *)
Example symbol_position_nonvacuous :
  let syms := [[97]; [98]; [99]; [100]; [101]; [102]; [103]; [104]; [105]; [106]; [107;105;108;111]] in
  NoDup syms /\ nth_error syms 10 = Some [107;105;108;111] /\
  symbol_index (rOptions_decl syms) [107;105;108;111] = Some 10.
Proof.
  cbn zeta. split; [| split; reflexivity].
  repeat (constructor; [cbn; intuition discriminate |]). constructor.
Qed.
