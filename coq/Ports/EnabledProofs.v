(* C09 - what the pruning oracle of the walk stands for.

   Ports/EnabledModel.v models port_is_enabled (metadata lookup, the sub-port
   test, Ports::operator[], the location string with collapsePath, the query of
   the toggle) and builds the oracle of Ports/WalkModel.v from the toggles'
   answers.  Here:
   - o_disabled / o_selfoff of that oracle hold at an address exactly when the
     tree has a place at that address - a sub-tree port under one of the
     expansions of its name, reached through sub-trees under expansions of
     theirs; the self: port of a table so reached - where port_is_enabled,
     called as walk_ports_recurse / walk_ports call it, returns false;
   - what a pruned sub-tree / a switched-off table still reports (sub_toggle,
     self_toggle of the walk model) is the port that call asked. *)
From Coq Require Import List ZArith Bool Arith Lia.
From RtoscV Require Import Match.PatSpec Ports.MetaModel Ports.NameModel Ports.PathModel Ports.PathProofs
     Ports.WalkModel Ports.WalkProofs Ports.EnabledModel.
Import ListNotations.
Local Open Scope Z_scope.

Lemma streqb_eq : forall a b, streqb a b = true <-> a = b.
Proof.
  induction a as [|x a IH]; intros [|y b]; cbn [streqb]; split; intros H; try reflexivity; try discriminate.
  - apply andb_true_iff in H as [H1 H2]. apply Z.eqb_eq in H1. apply IH in H2. congruence.
  - inversion H; subst. rewrite Z.eqb_refl. cbn. now apply IH.
Qed.

Lemma site_mem_In : forall x l, site_mem x l = true <-> In x l.
Proof.
  intros [t a] l. unfold site_mem. rewrite existsb_exists. cbn [fst snd]. split.
  - intros [[t' a'] [Hin H]]. cbn [fst snd] in H. apply andb_true_iff in H as [H1 H2].
    apply eqb_prop in H1. apply streqb_eq in H2. subst. exact Hin.
  - intros Hin. exists (t, a). split; [exact Hin|]. cbn [fst snd].
    rewrite eqb_reflx. cbn. now apply streqb_eq.
Qed.

(* ---- the places of a tree ------------------------------------------------------ *)
Section Sites.
Variable ans : list Z -> list Z -> bool.

(* [table_at t b t' b']: walking the table t at address b without pruning, the
   table t' is reached at address b' *)
Inductive table_at : list port -> list Z -> list port -> list Z -> Prop :=
| ta_here t b : table_at t b t b
| ta_below t b c n m sub bc t' b' :
    In c t -> c = Port n m (Some sub) -> In bc (expansions n b) ->
    table_at sub bc t' b' -> table_at t b t' b'.

Lemma off_sites_unfold q base b :
  off_sites ans q base b =
  match q with
  | Port qn m (Some sub) =>
      flat_map (fun b' =>
        (match port_enabled ans q base b b' true true with Some false => [(false, b')] | _ => [] end)
        ++ off_table ans sub b') (expansions qn b)
  | Port _ _ None => []
  end.
Proof.
  destruct q as [qn m [sub|]]; reflexivity.
Qed.

(* what is in the list: the false answers of the two calls, place by place *)
Definition place (x : bool * list Z) (t : list port) (b : list Z) : Prop :=
  (fst x = true /\ snd x = b /\ self_site ans t b = [(true, b)]) \/
  (fst x = false /\ exists q qn m sub, In q t /\ q = Port qn m (Some sub) /\ In (snd x) (expansions qn b) /\
                    port_enabled ans q t b (snd x) true true = Some false).

Lemma self_site_In x t b : In x (self_site ans t b) <-> (x = (true, b) /\ self_site ans t b = [(true, b)]).
Proof.
  unfold self_site. destruct (index_op t self_key) as [i|]; [|cbn; split; [tauto | intros [_ H]; discriminate H]].
  destruct (nth_error t i) as [sp|]; [|cbn; split; [tauto | intros [_ H]; discriminate H]].
  destruct (port_enabled ans sp t b b false false) as [[|]|]; cbn;
    try (split; [tauto | intros [_ H]; discriminate H]).
  split; [intros [<-|[]]; auto | intros [-> _]; auto].
Qed.

Theorem off_table_In : forall t b x,
  In x (off_table ans t b) <-> exists t' b', table_at t b t' b' /\ place x t' b'.
Proof.
  (* induction over the nesting depth of the tree, carried by port_ind2 on a wrapper port *)
  assert (Hport : forall q, forall base b x,
            In x (off_sites ans q base b) <->
            exists qn m sub bq, q = Port qn m (Some sub) /\ In bq (expansions qn b) /\
              ((x = (false, bq) /\ port_enabled ans q base b bq true true = Some false) \/
               exists t' b', table_at sub bq t' b' /\ place x t' b')).
  { induction q as [qn m s IHs] using port_ind2. intros base b x.
    rewrite off_sites_unfold. destruct s as [sub|].
    2:{ cbn. split; [tauto|]. intros (? & ? & ? & ? & E & _). discriminate. }
    rewrite in_flat_map. split.
    - intros (bq & Hbq & Hin). exists qn, m, sub, bq. split; [reflexivity|]. split; [exact Hbq|].
      apply in_app_or in Hin as [Hin|Hin].
      + left. destruct (port_enabled ans (Port qn m (Some sub)) base b bq true true) as [[|]|] eqn:E;
          cbn in Hin; try tauto. destruct Hin as [<-|[]]. auto.
      + right. unfold off_table in Hin. apply in_app_or in Hin as [Hin|Hin].
        * apply self_site_In in Hin as [-> Hs]. exists sub, bq. split; [constructor|]. left. auto.
        * apply in_flat_map in Hin as (c & Hc & Hin).
          rewrite Forall_forall in IHs. apply (IHs c Hc) in Hin as (cn & cm & csub & bc & -> & Hbc & Hcase).
          destruct Hcase as [[-> Hpe] | (t' & b' & Hta & Hpl)].
          -- exists sub, bq. split; [constructor|]. right. split; [reflexivity|].
             exists (Port cn cm (Some csub)), cn, cm, csub. cbn [snd]. auto.
          -- exists t', b'. split; [|exact Hpl]. eapply ta_below; eauto.
    - intros (qn' & m' & sub' & bq & E & Hbq & Hcase). inversion E; subst qn' m' sub'. clear E.
      exists bq. split; [exact Hbq|]. apply in_or_app.
      destruct Hcase as [[-> Hpe] | (t' & b' & Hta & Hpl)].
      + left. rewrite Hpe. now left.
      + right. unfold off_table.
        inversion Hta as [|? ? c cn cm csub bc ? ? Hc Ec Hbc Hta']; subst.
        * (* the place is in sub itself *)
          destruct Hpl as [(Hf & Hs & Hself) | (Hf & q' & qn' & m' & sub' & Hq' & -> & Hexp & Hpe)].
          -- apply in_or_app. left. apply self_site_In. destruct x as [xt xa]. cbn in Hf, Hs. subst. auto.
          -- apply in_or_app. right. apply in_flat_map. exists (Port qn' m' (Some sub')). split; [exact Hq'|].
             rewrite Forall_forall in IHs. apply (IHs _ Hq').
             exists qn', m', sub', (snd x). split; [reflexivity|]. split; [exact Hexp|]. left.
             destruct x as [xt xa]. cbn in Hf. subst. cbn [snd]. auto.
        * apply in_or_app. right. apply in_flat_map. exists (Port cn cm (Some csub)). split; [exact Hc|].
          rewrite Forall_forall in IHs. apply (IHs _ Hc).
          exists cn, cm, csub, bc. split; [reflexivity|]. split; [exact Hbc|]. right. eauto. }
  intros t b x. unfold off_table. rewrite in_app_iff, in_flat_map. split.
  - intros [Hin | (c & Hc & Hin)].
    + apply self_site_In in Hin as [-> Hs]. exists t, b. split; [constructor|]. left. auto.
    + apply Hport in Hin as (cn & cm & csub & bc & -> & Hbc & Hcase).
      destruct Hcase as [[-> Hpe] | (t' & b' & Hta & Hpl)].
      * exists t, b. split; [constructor|]. right. split; [reflexivity|].
        exists (Port cn cm (Some csub)), cn, cm, csub. cbn [snd]. auto.
      * exists t', b'. split; [|exact Hpl]. eapply ta_below; eauto.
  - intros (t' & b' & Hta & Hpl).
    inversion Hta as [|? ? c cn cm csub bc ? ? Hc Ec Hbc Hta']; subst.
    + destruct Hpl as [(Hf & Hs & Hself) | (Hf & q' & qn' & m' & sub' & Hq' & -> & Hexp & Hpe)].
      * left. apply self_site_In. destruct x as [xt xa]. cbn in Hf, Hs. subst. auto.
      * right. exists (Port qn' m' (Some sub')). split; [exact Hq'|]. apply Hport.
        exists qn', m', sub', (snd x). split; [reflexivity|]. split; [exact Hexp|]. left.
        destruct x as [xt xa]. cbn in Hf. subst. cbn [snd]. auto.
    + right. exists (Port cn cm (Some csub)). split; [exact Hc|]. apply Hport.
      exists cn, cm, csub, bc. split; [reflexivity|]. split; [exact Hbc|]. right. eauto.
Qed.

(* the oracle's two answers, read off the tree *)
Theorem oracle_disabled_iff nulls root buf x :
  o_disabled (oracle_of ans nulls root buf) x = true <->
  exists t b q qn m sub, table_at root (norm buf) t b /\ In q t /\ q = Port qn m (Some sub) /\
    In x (expansions qn b) /\ port_enabled ans q t b x true true = Some false.
Proof.
  cbn [oracle_of o_disabled]. rewrite site_mem_In, off_table_In. split.
  - intros (t & b & Hta & [(Hf & _) | (_ & q & qn & m & sub & Hq & E & Hexp & Hpe)]); [discriminate Hf|].
    exists t, b, q, qn, m, sub. cbn [snd] in *. auto.
  - intros (t & b & q & qn & m & sub & Hta & Hq & E & Hexp & Hpe).
    exists t, b. split; [exact Hta|]. right. split; [reflexivity|]. exists q, qn, m, sub. cbn [snd]. auto.
Qed.

Theorem oracle_selfoff_iff nulls root buf x :
  o_selfoff (oracle_of ans nulls root buf) x = true <->
  exists t, table_at root (norm buf) t x /\ self_site ans t x = [(true, x)].
Proof.
  cbn [oracle_of o_selfoff]. rewrite site_mem_In, off_table_In. split.
  - intros (t & b & Hta & [(_ & Hs & Hself) | (Hf & _)]); [|discriminate Hf].
    cbn [snd] in Hs. subst b. exists t. auto.
  - intros (t & Hta & Hself). exists t, x. split; [exact Hta|]. left. cbn. auto.
Qed.
End Sites.

(* ---- the port a pruned sub-tree / a switched-off table still reports ------------ *)
(* ... is the port port_is_enabled asked: its index in the asked table, at the
   sub-tree's own address followed by the toggle's name (collapsePath of that) *)
Lemma query_inside_sub_toggle q base loc j n a :
  enabled_query q base loc true true = QAsk true j n a ->
  sub_toggle q loc = Some (j, loc ++ n) /\ exists pos, collapse_str (loc ++ n) = Some (pos, a).
Proof.
  unfold enabled_query, sub_toggle. destruct q as [qn [m|] sub]; [|discriminate].
  destruct (meta m) as [s|]; [|discriminate].
  destruct (lookup s enabled_by) as [[v|]|]; try discriminate.
  destruct (subport_split qn v) as [e'|].
  - destruct sub as [st|]; [|discriminate]. destruct (index_op st e') as [j'|]; [|discriminate].
    destruct (collapse_str (loc ++ e')) as [[pos a']|] eqn:E; [|discriminate].
    intros H. inversion H; subst. split; [reflexivity|]. exists pos. exact E.
  - destruct (index_op base v); [|discriminate]. destruct (collapse_str _) as [[? ?]|]; discriminate.
Qed.

Lemma query_self_toggle t b i sp j n a :
  index_op t self_key = Some i -> nth_error t i = Some sp ->
  enabled_query sp t b false false = QAsk false j n a -> self_toggle t b = Some (j, b ++ n).
Proof.
  intros Hi Hn. unfold enabled_query, self_toggle. rewrite Hi, Hn.
  destruct sp as [qn [m|] sub]; [|discriminate].
  destruct (meta m) as [s|]; [|discriminate].
  destruct (lookup s enabled_by) as [[v|]|]; try discriminate.
  destruct (subport_split qn v) as [e'|].
  - destruct sub as [st|]; [|discriminate]. destruct (index_op st e'); [|discriminate].
    destruct (collapse_str _) as [[? ?]|]; discriminate.
  - destruct (index_op t v) as [j'|]; [|discriminate].
    destruct (collapse_str _) as [[pos a']|]; [|discriminate].
    intros H. inversion H; subst. reflexivity.
Qed.

(* a table the derived oracle switches off has the enabling port its self: port
   names (the self: port is a leaf, as rSelf builds it): the walk model's
   failure "self_toggle = None" does not arise there *)
Lemma self_site_defined ans t b :
  (forall i sp, index_op t self_key = Some i -> nth_error t i = Some sp -> psub sp = None) ->
  self_site ans t b = [(true, b)] -> self_toggle t b <> None.
Proof.
  intros Hleaf. unfold self_site. destruct (index_op t self_key) as [i|] eqn:Hi; [|discriminate].
  destruct (nth_error t i) as [sp|] eqn:Hn; [|discriminate].
  specialize (Hleaf i sp eq_refl Hn).
  unfold port_enabled. destruct (enabled_query sp t b false false) as [|inside j n a|] eqn:Q; try discriminate.
  intros _. destruct inside.
  - exfalso. unfold enabled_query in Q. destruct sp as [qn [m|] sub]; [|discriminate].
    cbn [psub] in Hleaf. subst sub.
    destruct (meta m) as [s|]; [|discriminate]. destruct (lookup s enabled_by) as [[v|]|]; try discriminate.
    destruct (subport_split qn v) as [e'|]; [discriminate|].
    destruct (index_op t v); [|discriminate]. destruct (collapse_str _) as [[? ?]|]; discriminate.
  - rewrite (query_self_toggle t b i sp j n a Hi Hn Q). discriminate.
Qed.

(* collapsePath leaves a path without ".." components as it is *)
Lemma stack_spec_nodots cs : Forall (fun c => is_dotdot c = false) cs -> stack_spec cs = cs.
Proof.
  intros H. unfold stack_spec.
  assert (G : forall st, fold_left stack_step cs st = rev cs ++ st).
  { induction H as [|c r Hc Hr IH]; intros st; [reflexivity|]. cbn [fold_left rev].
    unfold stack_step at 2. rewrite Hc, IH, <- app_assoc. reflexivity. }
  rewrite G, app_nil_r. apply rev_involutive.
Qed.

Lemma collapse_nodots p cs :
  components p = Some cs -> Forall (fun c => is_dotdot c = false) cs ->
  exists pos, collapse_str p = Some (pos, p).
Proof.
  intros Hc Hd. destruct (collapse_is_stack_spec p cs Hc) as (b' & pos & Hcol & Hskip & _).
  exists pos. unfold collapse_str. rewrite Hcol, Hskip, (stack_spec_nodots cs Hd).
  destruct (components_flat p cs Hc) as [-> _]. reflexivity.
Qed.

(* ---- a computed instance ------------------------------------------------------ *)
(* { "tg::T:F", "sub/" (enabled by tg) -> { "x" },
     "arr#2/" (enabled by arr#2/on) -> { "on::T:F", "y" } } *)
Definition m_tg : list Z := [58;101;110;97;98;108;101;100;32;98;121;0;61;116;103;0;0].
Definition m_on : list Z := [58;101;110;97;98;108;101;100;32;98;121;0;61;97;114;114;35;50;47;111;110;0;0].
Definition ex_rt : list port :=
  [Port [116;103;58;58;84;58;70] None None;
   Port [115;117;98;47] (Some m_tg) (Some [Port [120] None None]);
   Port [97;114;114;35;50;47] (Some m_on) (Some [Port [111;110;58;58;84;58;70] None None; Port [121] None None])].
(* the root's tg and the "on" of the object behind /arr1/ answer false *)
Definition ans_ex (t n : list Z) : bool :=
  negb ((streqb t [47] && streqb n [116;103]) || (streqb t [47;97;114;114;49;47] && streqb n [111;110])).

Example enabled_example :
  (* sub/ asks port 0 ("tg") of the ROOT table; the location handed over is /sub/../tg collapsed *)
  enabled_query (Port [115;117;98;47] (Some m_tg) (Some [Port [120] None None])) ex_rt [47;115;117;98;47] true true
    = QAsk false 0%nat [116;103] [47;116;103] /\
  (* arr#2/ asks port 0 ("on") of its OWN table, at its own expanded address *)
  enabled_query (Port [97;114;114;35;50;47] (Some m_on)
                      (Some [Port [111;110;58;58;84;58;70] None None; Port [121] None None]))
                ex_rt [47;97;114;114;49;47] true true
    = QAsk true 0%nat [111;110] [47;97;114;114;49;47;111;110] /\
  off_table ans_ex ex_rt [47] = [(false, [47;115;117;98;47]); (false, [47;97;114;114;49;47])] /\
  (* /sub/ is skipped; /arr0/ is walked; /arr1/ is skipped but reports its enabling port *)
  walk_rt ans_ex [] ex_rt [] =
    WOk [([0%nat], [47;116;103]);
         ([2%nat; 0%nat], [47;97;114;114;48;47;111;110]); ([2%nat; 1%nat], [47;97;114;114;48;47;121]);
         ([2%nat; 0%nat], [47;97;114;114;49;47;111;110])] [47] /\
  (* every toggle on: the static enumeration *)
  walk_rt (fun _ _ => true) [] ex_rt [] = walk None ex_rt [].
Proof. vm_compute. repeat split; reflexivity. Qed.
