(* C04: a root dispatch on an RtData whose location buffer is not fresh.

   Ports::dispatch(m, d, base_dispatch = true) starts with
       d.matches = 0; ... if(d.loc) d.loc[0] = 0;
   so whatever C string the caller's buffer held before (the address of an
   earlier dispatch, a reply text, any scratch use) is cut off before the
   lookup is reached.  `dispatch_reused` is the root dispatch of
   DispatchModel.v started from such a state: the buffer holds `stale`,
   d.matches holds `m0` (RtData is reused, nothing resets it but dispatch). *)
From Coq Require Import List ZArith Bool.
From RtoscV Require Import Match.PatSpec Match.MatchModel Ports.DispatchModel.
Import ListNotations.
Local Open Scope Z_scope.

Definition reused_state (stale : str) (m0 o : Z) : dstate :=
  {| loc := Some stale; matches := m0; obj := o; dport := None; log := [] |}.

Definition dispatch_reused (t : tree) (m args stale : str) (m0 o : Z) : dstate :=
  dispatch_f (depth t) t m args true (reused_state stale m0 o).
