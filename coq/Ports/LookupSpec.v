(* C18 - Spec side of the lookup and search clauses (no proofs in this file; the
   boolean predicates are extracted and evaluated on every generated tree):

   1. what the property text asks of a tree for "looking up an address that a
      walk reported returns the port it was reported with": names of the
      documented shape ([names_shape], [enums_pos]) and NO CONCRETE NAME OF A
      PORT A PREFIX OF A CONCRETE NAME OF A SIBLING ([sibling_prefix_free],
      over the expansions of every '#N');
   2. the side condition under which the clause is proved ([no_digit_facing]):
      reading two sibling names in step, a '#N' never meets a literal digit.
      NamesModel.clashb is split into its two reasons here: [prefix_clashb]
      (one name ends: the text's proviso, '#N' read as one token) and
      [digit_facingb];
   3. "the port addressed by a path", by structural descent over the tree with
      C05's [spells] - independent of apropos. *)
From Coq Require Import List ZArith Bool.
From RtoscV Require Import Match.PatSpec Match.MatchModel Ports.NameModel Ports.PathModel Ports.WalkModel
                           Ports.NamesModel.
Import ListNotations.
Local Open Scope Z_scope.

(* ---- the two reasons of a clash ------------------------------------------------------- *)
Fixpoint prefix_clashb (a b : list tok) : bool :=
  match a, b with
  | [], _ => true
  | _, [] => true
  | TC c :: a', TC d :: b' => (c =? d) && prefix_clashb a' b'
  | TH :: a', TH :: b' => prefix_clashb a' b'
  | TH :: _, TC _ :: _ => false
  | TC _ :: _, TH :: _ => false
  end.

Fixpoint digit_facingb (a b : list tok) : bool :=
  match a, b with
  | [], _ => false
  | _, [] => false
  | TC c :: a', TC d :: b' => (c =? d) && digit_facingb a' b'
  | TH :: a', TH :: b' => digit_facingb a' b'
  | TH :: _, TC d :: _ => isdigit d
  | TC c :: _, TH :: _ => isdigit c
  end.

(* no two elements of a list related by f (f is applied to an element and a later one) *)
Fixpoint pairs_freeb {A} (f : A -> A -> bool) (l : list A) : bool :=
  match l with
  | [] => true
  | k :: r => forallb (fun k' => negb (f k k')) r && pairs_freeb f r
  end.

(* ---- predicates over every table of a tree -------------------------------------------- *)
Fixpoint tables_allb (P : list sport -> bool) (p : sport) : bool :=
  match p with
  | SPort _ _ _ None => true
  | SPort _ _ _ (Some l) =>
      P l && (fix all (l : list sport) : bool := match l with [] => true | x :: r => tables_allb P x && all r end) l
  end.

Definition every_table (P : list sport -> bool) (root : list sport) : bool :=
  P root && forallb (tables_allb P) root.

(* the shape of one name, nothing about its siblings (NamesModel.port_okb without table_okb) *)
Definition name_okb (p : sport) : bool :=
  match p with
  | SPort sg a _ None => leaf_okb sg a
  | SPort sg a _ (Some _) => sub_okb sg a
  end.

Definition ssegs (p : sport) : list NameModel.seg := match p with SPort sg _ _ _ => sg end.

Definition enums_posb (sg : list NameModel.seg) : bool :=
  forallb (fun s => match s with NameModel.Enum n => 1 <=? n | NameModel.Lit _ => true end) sg.

Definition comparableb (x y : list Z) : bool := NameModel.prefixb x y || NameModel.prefixb y x.

(* the text's proviso for two siblings: no concrete name of one is a prefix of a
   concrete name of the other *)
Definition concrete_clashb (a b : list NameModel.seg) : bool :=
  existsb (fun x => existsb (fun y => comparableb x y) (expand b)) (expand a).

Definition names_shape (root : list sport) : bool := every_table (forallb name_okb) root.
Definition enums_pos (root : list sport) : bool := every_table (forallb (fun p => enums_posb (ssegs p))) root.
Definition sibling_prefix_free (root : list sport) : bool :=
  every_table (fun l => pairs_freeb concrete_clashb (map ssegs l)) root.
Definition key_prefix_free (root : list sport) : bool :=
  every_table (fun l => pairs_freeb prefix_clashb (map stoks l)) root.
Definition no_digit_facing (root : list sport) : bool :=
  every_table (fun l => pairs_freeb digit_facingb (map stoks l)) root.

(* ---- the port addressed by a path ------------------------------------------------------ *)
(* [addresses root id a]: the relative address a (no leading '/') names the port
   at index path id - at every level the name of the port on the path, read as
   a pattern of C05 (literal text verbatim, at every '#N' a decimal index below
   N), spells the next part of the address; the address ends with the name of
   the port itself (for a sub-tree port: with its '/') *)
Definition sconv (s : NameModel.seg) : PatSpec.seg :=
  match s with
  | NameModel.Lit t => PatSpec.Lit t
  | NameModel.Enum n => PatSpec.Enum (NameModel.dec n)
  end.

Fixpoint addresses (l : list sport) (id : list nat) (a : list Z) {struct id} : Prop :=
  match id with
  | [] => False
  | j :: rest =>
      match nth_error l j with
      | None => False
      | Some (SPort sg _ _ sub) =>
          exists x a', spells (map sconv sg) x /\ a = x ++ a' /\
            match rest, sub with
            | [], _ => a' = []
            | _ :: _, Some l' => a' <> [] /\ addresses l' rest a'
            | _ :: _, None => False
            end
      end
  end.

(* the structured port at an index path *)
Fixpoint sport_at (l : list sport) (id : list nat) : option sport :=
  match id with
  | [] => None
  | [j] => nth_error l j
  | j :: rest => match nth_error l j with
                 | Some (SPort _ _ _ (Some l')) => sport_at l' rest
                 | _ => None
                 end
  end.

(* what a search at that port looks at: its children, or the port itself *)
Definition children_of (q : sport) : list port :=
  match q with
  | SPort _ _ _ (Some l) => map render_port l
  | SPort _ _ _ None => [render_port q]
  end.

(* ---- examples (used by the theorems' non-vacuity and refutation statements) ------------ *)
(* siblings "a#4b", "a01b": the text's proviso holds, '#4' faces the literal 0 *)
Definition alias_stree : list sport :=
  [SPort [NameModel.Lit [97]; NameModel.Enum 4; NameModel.Lit [98]] [] None None;
   SPort [NameModel.Lit [97; 48; 49; 98]] [] None None].

(* "s/" -> { "osc#3/" -> { "vol" (doc), "qan:i", "pb/" -> { "l" }, "pa" }, "x" }, "t" :
   the sub-tree /s/osc1/ is neither the root nor a single-child table *)
Definition ex_nested : list sport :=
  [SPort [NameModel.Lit [115; 47]] [] None
     (Some [SPort [NameModel.Lit [111; 115; 99]; NameModel.Enum 3; NameModel.Lit [47]] [] None
              (Some [SPort [NameModel.Lit [118; 111; 108]] [] (Some [58; 100; 111; 99; 0; 61; 118; 0; 0]) None;
                     SPort [NameModel.Lit [113; 97; 110]] [58; 105] None None;
                     SPort [NameModel.Lit [112; 98; 47]] [] None (Some [SPort [NameModel.Lit [108]] [] None None]);
                     SPort [NameModel.Lit [112; 97]] [] None None]);
            SPort [NameModel.Lit [120]] [] None None]);
   SPort [NameModel.Lit [116]] [] None None].
