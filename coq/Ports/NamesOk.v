(* C09 / C18 - the semantic side conditions table_disjoint (C09_dispatchable)
   and lookup_disjoint (C18_lookup) derived from a decidable syntactic one:
   literal text without digits, and the KEYS of sibling names - the path part
   with every '#N' replaced by the single character '#' - pairwise not
   prefixes of one another.  Uses C05's soundness direction (path_sound =
   C05_no_spurious): whatever a name matches spells it, so the address with
   its digit runs collapsed to '#' begins with the name's key. *)
From Coq Require Import List ZArith Bool Arith Lia.
From RtoscV Require Import Match.PatSpec Match.MatchModel Match.MatchProofs
     Ports.DispatchModel Ports.DispatchProofs Ports.TreeProofs
     Ports.MetaModel Ports.NameModel Ports.PathModel Ports.WalkModel Ports.WalkProofs
     Ports.DecProofs Ports.EnumProofs Ports.DispatchWalk Ports.LookupGen Ports.NamesModel.
Import ListNotations.
Local Open Scope Z_scope.

(* ---- tokens ------------------------------------------------------------------------------ *)
(* what a token list spells: a literal character itself, a '#N' any non-empty digit string *)
Inductive tspells : list tok -> list Z -> Prop :=
| TsNil : tspells [] []
| TsC : forall c a y, tspells a y -> tspells (TC c :: a) (c :: y)
| TsH : forall d a y, d <> [] -> digits d -> tspells a y -> tspells (TH :: a) (d ++ y).

(* behind a '#N' comes the end or a literal character that is no digit *)
Fixpoint tokwf (a : list tok) : Prop :=
  match a with
  | [] => True
  | TH :: r => match r with [] => True | TC c :: _ => isdigit c = false | TH :: _ => False end /\ tokwf r
  | TC _ :: r => tokwf r
  end.

Definition comparable (a b : list Z) : Prop := prefix a b \/ prefix b a.
Definition nd (y : list Z) : Prop := match y with [] => True | c :: _ => isdigit c = false end.

Lemma toks_cons s r : toks (s :: r) = (match s with NameModel.Lit t => map TC t | NameModel.Enum _ => [TH] end) ++ toks r.
Proof. reflexivity. Qed.

Lemma toks_app a b : toks (a ++ b) = toks a ++ toks b.
Proof. unfold toks. apply flat_map_app. Qed.

Lemma tspells_lit t : forall a y, tspells a y -> tspells (map TC t ++ a) (t ++ y).
Proof. induction t as [|c t IH]; intros a y H; [exact H|]. cbn [map app]. constructor. apply IH. exact H. Qed.

Lemma tspells_app a : forall b x y, tspells a x -> tspells b y -> tspells (a ++ b) (x ++ y).
Proof.
  induction a as [|t a IH]; intros b x y Ha Hb.
  - inversion Ha; subst. exact Hb.
  - inversion Ha; subst; cbn [app].
    + constructor. apply IH; assumption.
    + rewrite <- app_assoc. constructor; try assumption. apply IH; assumption.
Qed.

Lemma spells_nil_inv z : spells [] z -> z = [].
Proof. intros H. inversion H. reflexivity. Qed.

Lemma spells_lit_inv s r z : spells (PatSpec.Lit s :: r) z -> exists y, z = s ++ y /\ spells r y.
Proof.
  intros H. inversion H as [|sg r' x y Hx Hy]; subst. inversion Hx; subst. exists y. split; [reflexivity | exact Hy].
Qed.

Lemma spells_enum_inv ds r z : spells (PatSpec.Enum ds :: r) z ->
  exists x y, z = x ++ y /\ x <> [] /\ digits x /\ spells r y.
Proof.
  intros H. inversion H as [|sg r' x y Hx Hy]; subst. inversion Hx; subst.
  exists x, y. repeat split; assumption.
Qed.

(* whatever spells a name (as a C05 pattern) is spelled by its tokens *)
Lemma spells_tspells l : forall x, spells (map conv l) x -> tspells (toks l) x.
Proof.
  induction l as [|[s|n] l IH]; intros x Hs.
  - apply spells_nil_inv in Hs. subst. constructor.
  - cbn [map conv] in Hs. apply spells_lit_inv in Hs. destruct Hs as [y [-> Hy]].
    rewrite toks_cons. apply tspells_lit. apply IH. exact Hy.
  - cbn [map conv] in Hs. apply spells_enum_inv in Hs. destruct Hs as [x1 [y [-> [Hne [Hdg Hy]]]]].
    rewrite toks_cons. cbn [app]. constructor; try assumption. apply IH. exact Hy.
Qed.

Lemma tokwf_lit t a : tokwf (map TC t ++ a) <-> tokwf a.
Proof. induction t as [|c t IH]; [reflexivity|]. cbn [map app tokwf]. exact IH. Qed.

Lemma dsegs_tokwf l : dsegs_wf l -> tokwf (toks l).
Proof.
  induction l as [|[s|n] l IH]; intros H; [exact I| |].
  - destruct H as [_ [_ Hr]]. rewrite toks_cons. apply tokwf_lit. apply IH. exact Hr.
  - destruct H as [_ [Hnx Hr]]. rewrite toks_cons. cbn [app tokwf]. split; [|apply IH; exact Hr].
    destruct l as [|[s|n'] l]; [exact I| |contradiction].
    destruct Hr as [Hne _]. destruct s as [|c s]; [congruence|]. rewrite toks_cons. cbn [map app]. exact Hnx.
Qed.

Lemma tokwf_snoc a c : isdigit c = false -> tokwf a -> tokwf (a ++ [TC c]).
Proof.
  intros Hc. induction a as [|t a IH]; intros H; [exact I|]. destruct t as [d|]; cbn [app tokwf] in *.
  - apply IH. exact H.
  - destruct H as [Hn Hr]. split; [|apply IH; exact Hr].
    destruct a as [|[d|] a]; cbn [app]; [exact Hc | exact Hn | contradiction].
Qed.

Lemma clashb_nil_r a : clashb a [] = true.
Proof. destruct a as [|[c|] a]; reflexivity. Qed.

Lemma tspells_nil a : tspells a [] -> a = [].
Proof.
  intros H. inversion H as [| |d a' y Hne Hd Hy E1 E2]; subst; [reflexivity|].
  destruct d; [congruence | discriminate].
Qed.

(* two digit runs at the same place of two comparable strings, each followed by
   the end or by a non-digit: the runs are the same, or one string ends with its run *)
Lemma digit_runs_align : forall d1 d2 y1 y2,
  digits d1 -> digits d2 -> nd y1 -> nd y2 -> comparable (d1 ++ y1) (d2 ++ y2) ->
  (d1 = d2 /\ comparable y1 y2) \/ y1 = [] \/ y2 = [].
Proof.
  induction d1 as [|c1 d1 IH]; intros d2 y1 y2 H1 H2 N1 N2 Hc.
  - destruct d2 as [|c2 d2]; [left; split; [reflexivity | exact Hc]|].
    destruct y1 as [|c y1]; [right; left; reflexivity|]. exfalso.
    inversion H2 as [|? ? Hd _]; subst. cbn [app nd] in *.
    destruct Hc as [[E _]|[E _]]; subst; congruence.
  - inversion H1 as [|? ? Hd1 H1']; subst. destruct d2 as [|c2 d2].
    + destruct y2 as [|c y2]; [right; right; reflexivity|]. exfalso. cbn [app nd] in *.
      destruct Hc as [[E _]|[E _]]; subst; congruence.
    + inversion H2 as [|? ? Hd2 H2']; subst. cbn [app] in Hc.
      assert (E : c1 = c2 /\ comparable (d1 ++ y1) (d2 ++ y2)).
      { destruct Hc as [[E P]|[E P]]; subst; split; try reflexivity; [left | right]; exact P. }
      destruct E as [-> Hc']. destruct (IH d2 y1 y2 H1' H2' N1 N2 Hc') as [[-> Hy]|[E|E]]; auto.
Qed.

Lemma tokwf_tail_nd a y : match a with [] => True | TC c :: _ => isdigit c = false | TH :: _ => False end ->
  tspells a y -> nd y.
Proof.
  intros Hw Hs. destruct a as [|[c|] a]; inversion Hs; subst; [exact I | exact Hw | contradiction].
Qed.

(* names that spell comparable strings clash *)
Lemma clash_sound : forall a b x1 x2,
  tokwf a -> tokwf b -> tspells a x1 -> tspells b x2 -> comparable x1 x2 -> clashb a b = true.
Proof.
  induction a as [|t a IH]; intros b x1 x2 Wa Wb S1 S2 Hc; [reflexivity|].
  destruct b as [|u b]; [apply clashb_nil_r|].
  destruct t as [c|], u as [d|]; cbn [clashb tokwf] in *.
  - inversion S1; subst. inversion S2; subst.
    assert (E : c = d /\ comparable y y0).
    { destruct Hc as [[E P]|[E P]]; subst; split; try reflexivity; [left | right]; exact P. }
    destruct E as [-> Hc']. rewrite Z.eqb_refl. cbn [andb]. eapply IH; eassumption.
  - inversion S1; subst. inversion S2 as [| |dd b' y2 Hne Hd Hy]; subst.
    destruct dd as [|d0 dd]; [congruence|]. inversion Hd; subst. cbn [app] in Hc.
    destruct Hc as [[E _]|[E _]]; subst; assumption.
  - inversion S2; subst. inversion S1 as [| |dd a' y1 Hne Hd Hy]; subst.
    destruct dd as [|d0 dd]; [congruence|]. inversion Hd; subst. cbn [app] in Hc.
    destruct Hc as [[E _]|[E _]]; subst; assumption.
  - inversion S1 as [| |d1 a' y1 Hne1 Hd1 Hy1]; subst. inversion S2 as [| |d2 b' y2 Hne2 Hd2 Hy2]; subst.
    destruct Wa as [Na Wa]. destruct Wb as [Nb Wb].
    destruct (digit_runs_align d1 d2 y1 y2 Hd1 Hd2 (tokwf_tail_nd a y1 Na Hy1) (tokwf_tail_nd b y2 Nb Hy2) Hc)
      as [[_ Hy]|[E|E]].
    + eapply IH; eassumption.
    + subst. rewrite (tspells_nil a Hy1). reflexivity.
    + subst. rewrite (tspells_nil b Hy2). apply clashb_nil_r.
Qed.

(* a name whose spelling begins a literal text clashes with every name that
   begins with that text *)
Lemma clash_lit_prefix : forall a x t c, tspells a x -> prefix x t -> clashb a (map TC t ++ c) = true.
Proof.
  induction a as [|u a IH]; intros x t c S P; [reflexivity|].
  inversion S as [|c0 a' y Hy|d a' y Hne Hd Hy]; subst.
  - destruct t as [|c1 t]; [contradiction|]. destruct P as [-> P]. cbn [map app clashb].
    rewrite Z.eqb_refl. cbn [andb]. eapply IH; eassumption.
  - destruct d as [|d0 d]; [congruence|]. inversion Hd; subst. cbn [app] in P.
    destruct t as [|c1 t]; [contradiction|]. destruct P as [-> P]. cbn [map app clashb]. assumption.
Qed.

(* ---- one port: what a match tells about the address ------------------------------------ *)
(* the name conditions used below, per port *)
Definition pok (q : sport) : Prop :=
  match q with
  | SPort sg a _ None =>
      dsegs_wf sg /\ last_not_slash (map conv sg) /\
      exists tys, a = render_types tys /\ types_ok tys
  | SPort sg a _ (Some _) =>
      a = [] /\ exists cs, sg = comps_segs cs /\ cs <> [] /\ Forall dcomp cs
  end.

Lemma spells_chars (P : Z -> Prop) l :
  (forall c, dchar c -> P c) -> (forall c, isdigit c = true -> P c) ->
  dsegs_wf l -> forall x, spells (map conv l) x -> Forall P x.
Proof.
  intros HP HD. induction l as [|[s|n] l IH]; intros H x Hs.
  - apply spells_nil_inv in Hs. subst. constructor.
  - cbn [map conv] in Hs. apply spells_lit_inv in Hs. destruct Hs as [y [-> Hy]].
    destruct H as [_ [Hc Hr]]. apply Forall_app. split; [eapply Forall_impl; [|exact Hc]; exact HP | apply IH; assumption].
  - cbn [map conv] in Hs. apply spells_enum_inv in Hs. destruct Hs as [x1 [y [-> [_ [Hdg Hy]]]]].
    destruct H as [_ [_ Hr]]. apply Forall_app. split; [eapply Forall_impl; [|exact Hdg]; exact HD | apply IH; assumption].
Qed.

Definition no35 (c : Z) : Prop := c <> 35.
Lemma dchar_no35 c : dchar c -> no35 c. Proof. unfold dchar, no35. lia. Qed.
Lemma digit_no35 c : isdigit c = true -> no35 c. Proof. intros H. apply isdigit_range in H. unfold no35. lia. Qed.

Lemma comps_toks cs : cs <> [] -> toks (comps_segs cs) = toks (comps_conv cs) ++ [TC 47].
Proof.
  induction cs as [|c r IH]; intros Hne; [congruence|].
  rewrite comps_segs_cons, toks_app.
  assert (H1 : toks (comp_segs c) = toks (comp_conv c) ++ [TC 47]).
  { destruct c as [t [n|]]; unfold toks; cbn [comp_segs comp_conv flat_map map app];
      rewrite ?app_nil_r, ?map_app, <- ?app_assoc; reflexivity. }
  rewrite H1. destruct r as [|c' r']; cbn [comps_conv].
  - cbn [comps_segs flat_map]. unfold toks at 2. cbn [flat_map]. rewrite !app_nil_r. reflexivity.
  - rewrite IH by discriminate. rewrite toks_app, toks_cons. cbn [map]. rewrite <- !app_assoc. reflexivity.
Qed.

(* a matching port: the address begins with a '#'-free text that the port's
   tokens spell *)
Lemma match_toks q m r pe :
  pok q -> addr_ok m -> match_path (sname q) m = MRet r pe ->
  tokwf (stoks q) /\ exists m', prefix m' m /\ Forall no35 m' /\ tspells (stoks q) m'.
Proof.
  intros Hq Haddr Hm. destruct q as [sg a mt [l|]]; cbn [pok sname stoks] in *.
  - destruct Hq as [-> [cs [-> [Hcs Hc]]]].
    pose proof (comps_conv_wf cs Hc) as Hw.
    set (p := {| segs := map conv (comps_conv cs); subtree := true; types := None |}).
    assert (Hr : render_name (comps_segs cs) [] = PatSpec.render p).
    { unfold PatSpec.render, render_tail, p, render_name. fold (flatten (comps_segs cs)).
      cbn [segs subtree types render_types app]. rewrite render_conv, (comps_flatten cs Hcs), !app_nil_r. reflexivity. }
    rewrite Hr in Hm.
    assert (Hwf : wf_pat p).
    { unfold wf_pat, p. cbn [segs subtree types]. repeat split;
        [apply conv_seg_ok; exact Hw | apply conv_enum_sep; exact Hw | intros E; discriminate]. }
    destruct (path_sound p m r pe Hwf Haddr Hm) as [_ Hsp].
    unfold path_spec, p in Hsp. cbn [subtree segs] in Hsp. destruct Hsp as [x [Hx ->]].
    rewrite (comps_toks cs Hcs). split; [apply tokwf_snoc; [reflexivity | apply dsegs_tokwf; exact Hw]|].
    exists (x ++ [47]). split; [|split].
    + apply prefix_app. exists pe. rewrite <- app_assoc. reflexivity.
    + apply Forall_app. split; [apply (spells_chars no35 _ dchar_no35 digit_no35 Hw x Hx) | constructor; [unfold no35; lia | constructor]].
    + apply tspells_app; [apply spells_tspells; exact Hx | repeat constructor].
  - destruct Hq as [Hw [Hls [tys [-> Ht]]]].
    set (p := {| segs := map conv sg; subtree := false; types := tys |}).
    assert (Hr : render_name sg (render_types tys) = PatSpec.render p).
    { unfold PatSpec.render, render_tail, p, render_name. fold (flatten sg).
      cbn [segs subtree types app]. rewrite render_conv. reflexivity. }
    rewrite Hr in Hm.
    assert (Hwf : wf_pat p).
    { unfold wf_pat, p. cbn [segs subtree types]. repeat split;
        [apply conv_seg_ok; exact Hw | apply conv_enum_sep; exact Hw | intros _; exact Hls | exact Ht]. }
    destruct (path_sound p m r pe Hwf Haddr Hm) as [_ Hsp].
    unfold path_spec, p in Hsp. cbn [subtree segs] in Hsp. destruct Hsp as [Hx ->].
    split; [apply dsegs_tokwf; exact Hw|].
    exists m. split; [apply prefix_refl | split].
    + apply (spells_chars no35 _ dchar_no35 digit_no35 Hw m Hx).
    + apply spells_tspells. exact Hx.
Qed.

(* ---- the raw name: its leading literal text --------------------------------------------- *)
Fixpoint lead (l : list NameModel.seg) : list Z :=
  match l with NameModel.Lit s :: r => s ++ lead r | _ => [] end.

Lemma lead_toks l : exists c, toks l = map TC (lead l) ++ c.
Proof.
  induction l as [|[s|n] l IH]; [exists []; reflexivity| |exists (toks (NameModel.Enum n :: l)); reflexivity].
  destruct IH as [c E]. exists c. rewrite toks_cons, E. cbn [lead]. rewrite map_app, <- app_assoc. reflexivity.
Qed.

(* the raw name is its leading literal text, followed by nothing, a '#' or a ':' *)
Lemma raw_lead l a : (a = [] \/ hd0 a = 58) ->
  exists rest, flatten l ++ a = lead l ++ rest /\ (rest = [] \/ hd0 rest = 35 \/ hd0 rest = 58).
Proof.
  intros Ha. induction l as [|[s|n] l IH].
  - exists a. split; [reflexivity|]. destruct Ha as [->|Ha]; [left; reflexivity | right; right; exact Ha].
  - destruct IH as [rest [E Hr]]. exists rest. split; [|exact Hr].
    rewrite flatten_cons. cbn [NameModel.render_seg lead]. rewrite <- !app_assoc, E. reflexivity.
  - exists (flatten (NameModel.Enum n :: l) ++ a). split; [reflexivity|]. right. left. reflexivity.
Qed.

Lemma prefix_stop (x p rest : list Z) :
  prefix x (p ++ rest) -> (rest = [] \/ ~ In (hd0 rest) x) -> prefix x p.
Proof.
  revert p. induction x as [|c x IH]; intros p H Hr; [exact I|].
  destruct p as [|d p].
  - cbn [app] in H. destruct rest as [|e rest]; [contradiction|]. destruct H as [-> _].
    destruct Hr as [Hr|Hr]; [discriminate|]. exfalso. apply Hr. left. reflexivity.
  - cbn [app] in H. destruct H as [-> H]. split; [reflexivity|]. apply (IH p H).
    destruct Hr as [Hr|Hr]; [left; exact Hr | right; intros Hin; apply Hr; right; exact Hin].
Qed.

Lemma prefix_forall {P : Z -> Prop} x y : prefix x y -> Forall P y -> Forall P x.
Proof. intros H Hy. apply prefix_app in H. destruct H as [r ->]. apply Forall_app in Hy. apply Hy. Qed.

Lemma prefix_trans' (a b c : list Z) : prefix a b -> prefix b c -> prefix a c.
Proof.
  intros H1 H2. apply prefix_app in H1. destruct H1 as [r ->]. apply prefix_app in H2. destruct H2 as [r' ->].
  apply prefix_app. exists (r ++ r'). rewrite app_assoc. reflexivity.
Qed.

Definition pargs_ok (q : sport) : Prop := match q with SPort _ a _ _ => a = [] \/ hd0 a = 58 end.

(* ---- two siblings answering one path clash ---------------------------------------------------- *)
Lemma two_matches q q' m r pe r' pe' :
  pok q -> pok q' -> addr_ok m ->
  match_path (sname q) m = MRet r pe -> match_path (sname q') m = MRet r' pe' ->
  clashb (stoks q) (stoks q') = true.
Proof.
  intros Hq Hq' Ha Hm Hm'.
  destruct (match_toks q m r pe Hq Ha Hm) as [W1 [m1 [P1 [_ S1]]]].
  destruct (match_toks q' m r' pe' Hq' Ha Hm') as [W2 [m2 [P2 [_ S2]]]].
  apply (clash_sound _ _ m1 m2 W1 W2 S1 S2). apply (prefix_comparable _ _ m); assumption.
Qed.

Lemma match_and_rawprefix q q' m r pe :
  pok q -> pargs_ok q' -> addr_ok m ->
  match_path (sname q) m = MRet r pe -> NameModel.prefixb m (sname q') = true ->
  clashb (stoks q) (stoks q') = true.
Proof.
  intros Hq Hargs Ha Hm Hp.
  destruct (match_toks q m r pe Hq Ha Hm) as [_ [m' [Hm' [H35 Hk]]]].
  destruct q' as [sg' a' mt' s']. cbn [sname stoks pargs_ok] in *.
  unfold render_name in Hp. fold (flatten sg') in Hp.
  destruct (raw_lead sg' a' Hargs) as [rest [E Hrest]]. rewrite E in Hp.
  assert (Hpm : prefix m (lead sg' ++ rest)).
  { clear - Hp. revert Hp. generalize (lead sg' ++ rest). induction m as [|c m IH]; intros [|d y] H; cbn in *; try exact I; try discriminate.
    apply andb_true_iff in H. destruct H as [Hc H]. apply Z.eqb_eq in Hc. split; [exact Hc | apply IH; exact H]. }
  assert (Hm'l : prefix m' (lead sg')).
  { apply (prefix_stop m' (lead sg') rest); [eapply prefix_trans'; eassumption|].
    destruct Hrest as [->|[Hr|Hr]]; [left; reflexivity | |]; right; rewrite Hr; intros Hin.
    - rewrite Forall_forall in H35. apply (H35 35 Hin). reflexivity.
    - pose proof (prefix_forall m' m Hm' Ha) as Ha'. rewrite Forall_forall in Ha'. destruct (Ha' 58 Hin) as [_ Hc]. apply Hc. reflexivity. }
  destruct (lead_toks sg') as [c Ec]. rewrite Ec. eapply clash_lit_prefix; eassumption.
Qed.

(* ---- the tables -------------------------------------------------------------------------- *)
(* no two ports of the table clash *)
Definition keys_free (l : list sport) : Prop :=
  forall i j q q', nth_error l i = Some q -> nth_error l j = Some q' -> clashb (stoks q) (stoks q') = true -> i = j.

Lemma clashb_sym a : forall b, clashb a b = clashb b a.
Proof.
  induction a as [|t a IH]; intros b; [symmetry; apply clashb_nil_r|].
  destruct b as [|u b]; [rewrite clashb_nil_r; reflexivity|]. destruct t as [c|], u as [d|]; cbn [clashb]; try reflexivity.
  - rewrite (Z.eqb_sym c d), IH. reflexivity.
  - apply IH.
Qed.

Lemma pok_args q : pok q -> pargs_ok q.
Proof.
  destruct q as [sg a mt [l|]]; cbn [pok pargs_ok].
  - intros [-> _]. left; reflexivity.
  - intros [_ [_ [tys [-> Ht]]]].
    destruct (render_types_shape tys Ht) as [->|[X ->]]; [left; reflexivity | right; reflexivity].
Qed.

Theorem keys_table_disjoint l : Forall pok l -> keys_free l -> table_disjoint l.
Proof.
  intros Hl Hk j j' q q' m ty pe pe' E E' Ha Hm Hm'.
  rewrite Forall_forall in Hl.
  destruct (rtosc_match_path_of _ _ _ _ Hm) as [r Hr]. destruct (rtosc_match_path_of _ _ _ _ Hm') as [r' Hr'].
  exact (Hk j j' q q' E E' (two_matches q q' m r pe r' pe' (Hl _ (nth_error_In _ _ E)) (Hl _ (nth_error_In _ _ E')) Ha Hr Hr')).
Qed.

Theorem keys_lookup_disjoint l : Forall pok l -> keys_free l -> lookup_disjoint l.
Proof.
  intros Hl Hk j j' q q' m E E' Ha [r [pe Hm]] Hans.
  rewrite Forall_forall in Hl.
  pose proof (Hl _ (nth_error_In _ _ E)) as Hq. pose proof (Hl _ (nth_error_In _ _ E')) as Hq'.
  destruct Hans as [[r' [pe' Hm']] | [_ Hp]].
  - exact (Hk j j' q q' E E' (two_matches q q' m r pe r' pe' Hq Hq' Ha Hm Hm')).
  - exact (Hk j j' q q' E E' (match_and_rawprefix q q' m r pe Hq (pok_args q' Hq') Ha Hm Hp)).
Qed.

(* ======================================================================== *)
(* the decidable predicate                                                   *)
(* ======================================================================== *)
(* ---- reflection ---------------------------------------------------------------------------- *)
Lemma litcharb_ok c : litcharb c = true -> dchar c.
Proof.
  unfold litcharb, dchar. rewrite !andb_true_iff, !negb_true_iff, !orb_false_iff.
  intros [[H0 H1] [[[A B] C] D]]. apply Z.ltb_lt in H0. apply Z.ltb_lt in H1.
  apply Z.eqb_neq in A. apply Z.eqb_neq in B. apply Z.eqb_neq in C. apply Z.eqb_neq in D.
  repeat split; assumption.
Qed.

Lemma text_chars t : forallb litcharb t = true ->
  Forall dchar t /\ has_char 35 t = false /\ has_char 58 t = false.
Proof.
  induction t as [|c t IH]; intros H; [repeat split; constructor|].
  cbn [forallb] in H. apply andb_true_iff in H. destruct H as [Hc Ht].
  pose proof (litcharb_ok c Hc) as Hd. destruct (IH Ht) as [A [C D]].
  repeat split; try (constructor; assumption); cbn [has_char]; unfold dchar in Hd.
  - rewrite C. replace (c =? 35) with false by (symmetry; apply Z.eqb_neq; lia). reflexivity.
  - rewrite D. replace (c =? 58) with false by (symmetry; apply Z.eqb_neq; lia). reflexivity.
Qed.

Lemma segs_okb_ok l : segs_okb l = true -> dsegs_wf l /\ segs_wf l.
Proof.
  induction l as [|[s|n] l IH]; intros H; [repeat split|cbn [segs_okb] in H|cbn [segs_okb] in H].
  - apply andb_true_iff in H. destruct H as [H Hr]. apply andb_true_iff in H. destruct H as [Hne Hs].
    destruct (IH Hr) as [A C]. destruct (text_chars s Hs) as [Hd [H35 H58]].
    assert (Hne' : s <> []) by (destruct s; [discriminate | discriminate]).
    cbn [dsegs_wf segs_wf]. repeat split; assumption.
  - apply andb_true_iff in H. destruct H as [H Hr]. apply andb_true_iff in H. destruct H as [H Hnx].
    apply andb_true_iff in H. destruct H as [H0 H1]. apply Z.leb_le in H0. apply Z.ltb_lt in H1.
    destruct (IH Hr) as [A C].
    cbn [dsegs_wf segs_wf]. repeat split; try assumption; try lia;
      destruct l as [|[s|n'] l]; try exact I; try discriminate;
      apply negb_true_iff in Hnx; exact Hnx.
Qed.

(* ':'t1':'t2... : every ':'-led NUL-free string is a rendered type list *)
Fixpoint alts58 (a : list Z) : list (list Z) :=
  match a with
  | [] => [[]]
  | c :: t => if c =? 58 then [] :: alts58 t
              else match alts58 t with h :: r => (c :: h) :: r | [] => [[c]] end
  end.

Lemma alts58_spec a : Forall (fun c => c <> 0) a ->
  concat (map (fun x => 58 :: x) (alts58 a)) = 58 :: a /\ alts58 a <> [] /\
  Forall (Forall (fun c => c <> 0 /\ c <> 58)) (alts58 a).
Proof.
  induction a as [|c t IH]; intros H; [repeat split; [discriminate | repeat constructor]|].
  inversion H as [|? ? Hc Ht]; subst. destruct (IH Ht) as [E [Hne Hall]]. cbn [alts58].
  destruct (c =? 58) eqn:E58.
  - apply Z.eqb_eq in E58. subst c. cbn [map concat]. rewrite E. repeat split; [discriminate | constructor; [constructor | exact Hall]].
  - apply Z.eqb_neq in E58. destruct (alts58 t) as [|h r]; [congruence|].
    cbn [map concat] in *. inversion E. repeat split; [discriminate|].
    inversion Hall; subst. constructor; [constructor; [split; assumption | assumption] | assumption].
Qed.

Lemma argsb_ok a : argsb a = true ->
  args_wf a /\ exists tys, a = render_types tys /\ types_ok tys.
Proof.
  unfold argsb. intros H. apply orb_true_iff in H. destruct H as [H|H].
  - destruct a; [|discriminate]. split; [split; [left|]; reflexivity|]. exists None. split; [reflexivity | exact I].
  - apply andb_true_iff in H. destruct H as [H H35]. apply andb_true_iff in H. destruct H as [Hh Hn].
    apply negb_true_iff in H35. apply Z.eqb_eq in Hh.
    split; [split; [right; exact Hh | exact H35]|].
    destruct a as [|c a]; [cbn in Hh; discriminate|]. cbn [hd0] in Hh. subst c.
    assert (Hnz : Forall (fun c => c <> 0) a).
    { cbn [forallb] in Hn. apply andb_true_iff in Hn. destruct Hn as [_ Hn]. rewrite forallb_forall in Hn.
      rewrite Forall_forall. intros c Hc. specialize (Hn c Hc). apply negb_true_iff, Z.eqb_neq in Hn. exact Hn. }
    destruct (alts58_spec a Hnz) as [E [Hne Hall]].
    exists (Some (alts58 a)). split; [cbn [render_types]; symmetry; exact E | split; assumption].
Qed.

Lemma last_map {A B} (f : A -> B) l d d' : l <> [] -> last (map f l) d' = f (last l d).
Proof.
  induction l as [|x l IH]; [congruence|]. intros _. destruct l as [|y l]; [reflexivity|].
  cbn [map last] in *. apply IH. discriminate.
Qed.

Lemma last_not_slashb_ok sg : sg <> [] -> last_not_slashb sg = true -> last_not_slash (map conv sg).
Proof.
  intros Hne H. unfold last_not_slash, last_not_slashb in *.
  rewrite (last_map conv sg (NameModel.Enum 0) (PatSpec.Enum []) Hne).
  destruct (last sg (NameModel.Enum 0)) as [s|n]; cbn [conv]; [|exact I].
  apply negb_true_iff, Z.eqb_neq in H. exact H.
Qed.

Lemma has_char_in c t : has_char c t = false -> ~ In c t.
Proof.
  induction t as [|x t IH]; intros H; [intros []|]. cbn [has_char] in H. apply orb_false_iff in H.
  destruct H as [Hx Ht]. apply Z.eqb_neq in Hx. intros [E|E]; [congruence | exact (IH Ht E)].
Qed.

Lemma text_okb_ok t0 : text_okb t0 = true ->
  t0 <> [] /\ Forall dchar t0 /\ has_char 35 t0 = false /\ has_char 58 t0 = false /\ ~ In 47 t0.
Proof.
  unfold text_okb. intros H. apply andb_true_iff in H. destruct H as [H H47]. apply andb_true_iff in H.
  destruct H as [Hne Hc]. destruct (text_chars t0 Hc) as [A [C D]].
  apply negb_true_iff in H47. repeat split; try assumption; [destruct t0; discriminate | apply has_char_in; exact H47].
Qed.

Definition comp_good (c : comp) : Prop := dcomp c /\ comp_wf c.

Lemma comps_okb_ok : forall k sg, (length sg <= k)%nat -> comps_okb sg = true ->
  exists cs, sg = comps_segs cs /\ Forall comp_good cs.
Proof.
  induction k as [|k IH]; intros sg Hlen H.
  - destruct sg; [exists []; split; [reflexivity | constructor] | cbn [length] in Hlen; lia].
  - destruct sg as [|[t|n] r]; [exists []; split; [reflexivity | constructor] | | discriminate].
    cbn [length] in Hlen.
    assert (Hplain : (last t 0 =? 47) && text_okb (removelast t) && comps_okb r = true ->
                     exists cs, NameModel.Lit t :: r = comps_segs cs /\ Forall comp_good cs).
    { intros H'. apply andb_true_iff in H'. destruct H' as [H' Hr]. apply andb_true_iff in H'. destruct H' as [Hl Ht].
      apply Z.eqb_eq in Hl. destruct (text_okb_ok _ Ht) as [Hne [Hd [H35 [H58 H47]]]].
      assert (Htne : t <> []) by (intros ->; cbn in Hne; congruence).
      destruct (IH r ltac:(lia) Hr) as [cs [-> Hcs]].
      exists ((removelast t, None) :: cs). split.
      - rewrite comps_segs_cons. cbn [comp_segs app]. rewrite <- Hl, <- app_removelast_last by exact Htne. reflexivity.
      - constructor; [|exact Hcs]. unfold comp_good, dcomp, comp_wf. cbn [fst snd]. repeat split; assumption. }
    destruct r as [|[t2|n2] r2]; cbn [comps_okb] in H.
    + apply Hplain. exact H.
    + apply Hplain. exact H.
    + destruct r2 as [|[t3|n3] r3]; [discriminate| |discriminate].
      destruct t3 as [|c [|? ?]]; [discriminate| |discriminate].
      apply andb_true_iff in H. destruct H as [H Hr]. apply andb_true_iff in H. destruct H as [H H1].
      apply andb_true_iff in H. destruct H as [H H0]. apply andb_true_iff in H. destruct H as [Hc Ht].
      apply Z.eqb_eq in Hc. subst c. apply Z.leb_le in H0. apply Z.ltb_lt in H1.
      destruct (text_okb_ok _ Ht) as [Hne [Hd [H35 [H58 H47]]]].
      cbn [length] in Hlen. destruct (IH r3 ltac:(lia) Hr) as [cs [-> Hcs]].
      exists ((t, Some n2) :: cs). split; [reflexivity|].
      constructor; [|exact Hcs]. unfold comp_good, dcomp, comp_wf. cbn [fst snd]. repeat split; try assumption; lia.
Qed.

Lemma sub_okb_ok sg a : sub_okb sg a = true ->
  a = [] /\ exists cs, sg = comps_segs cs /\ cs <> [] /\ Forall comp_good cs.
Proof.
  unfold sub_okb. intros H. apply andb_true_iff in H. destruct H as [H Hc]. apply andb_true_iff in H. destruct H as [Ha Hne].
  split; [destruct a; [reflexivity | discriminate]|].
  destruct (comps_okb_ok (length sg) sg (le_n _) Hc) as [cs [-> Hcs]].
  exists cs. split; [reflexivity|]. split; [|exact Hcs]. intros ->. discriminate.
Qed.

Lemma prefixb_iff a b : NameModel.prefixb a b = true <-> prefix a b.
Proof.
  revert b. induction a as [|x a IH]; intros [|y b]; cbn; try tauto; try (split; [discriminate | tauto]).
  rewrite andb_true_iff, Z.eqb_eq, IH. tauto.
Qed.

Lemma keys_freeb_ok l : keys_freeb (map stoks l) = true -> keys_free l.
Proof.
  induction l as [|p l IH]; intros H i j q q' Ei Ej Hp; [destruct i; discriminate|].
  cbn [map keys_freeb] in H. apply andb_true_iff in H. destruct H as [Hall Hr].
  rewrite forallb_forall in Hall.
  destruct i as [|i], j as [|j]; cbn [nth_error] in *.
  - reflexivity.
  - exfalso. inversion Ei; subst. specialize (Hall (stoks q') (in_map stoks _ _ (nth_error_In _ _ Ej))).
    apply negb_true_iff in Hall. congruence.
  - exfalso. inversion Ej; subst. specialize (Hall (stoks q) (in_map stoks _ _ (nth_error_In _ _ Ei))).
    apply negb_true_iff in Hall. rewrite clashb_sym in Hp. congruence.
  - f_equal. exact (IH Hr i j q q' Ei Ej Hp).
Qed.

Lemma okb_all_forall l :
  (fix all (l : list sport) : bool := match l with [] => true | x :: r => port_okb x && all r end) l = true ->
  forallb port_okb l = true.
Proof. induction l as [|x r IH]; intros H; [reflexivity|]. apply andb_true_iff in H. destruct H. cbn [forallb]. rewrite H, IH; auto. Qed.

Lemma forall_all {P : sport -> Prop} l : Forall P l ->
  (fix all (l : list sport) : Prop := match l with [] => True | x :: r => P x /\ all r end) l.
Proof. induction 1; [exact I | split; assumption]. Qed.

(* one port: everything the theorems ask of names *)
Lemma port_okb_ok p : port_okb p = true -> pok p /\ sport_wf p /\ dok p /\ lok p.
Proof.
  induction p as [sg a mt s IHs] using sport_ind2. intros H. destruct s as [l|]; cbn [port_okb] in H.
  - apply andb_true_iff in H. destruct H as [H Hall]. apply andb_true_iff in H. destruct H as [Hsub Htab].
    destruct (sub_okb_ok sg a Hsub) as [-> [cs [-> [Hcs Hgood]]]].
    assert (Hc : Forall dcomp cs) by (eapply Forall_impl; [|exact Hgood]; intros ? [? _]; assumption).
    assert (Hcw : Forall comp_wf cs) by (eapply Forall_impl; [|exact Hgood]; intros ? [_ ?]; assumption).
    apply okb_all_forall in Hall. rewrite forallb_forall in Hall.
    assert (HF : Forall (fun q => pok q /\ sport_wf q /\ dok q /\ lok q) l).
    { rewrite Forall_forall in *. intros q Hq. apply IHs; [exact Hq | apply Hall; exact Hq]. }
    assert (Hpok : Forall pok l) by (eapply Forall_impl; [|exact HF]; cbv beta; intros ? [? [? [? ?]]]; assumption).
    pose proof (keys_freeb_ok l Htab) as Hkf.
    split; [|split; [|split]].
    + cbn [pok]. split; [reflexivity|]. exists cs. auto.
    + cbn [sport_wf]. split; [split; [left|]; reflexivity|]. split.
      * exists cs. split; [reflexivity|]. split; assumption.
      * apply forall_all. eapply Forall_impl; [|exact HF]; cbv beta; intros ? [? [? [? ?]]]; assumption.
    + cbn [dok]. split; [reflexivity|]. split; [exists cs; auto|]. split; [apply keys_table_disjoint; assumption|].
      apply forall_all. eapply Forall_impl; [|exact HF]; cbv beta; intros ? [? [? [? ?]]]; assumption.
    + cbn [lok]. split; [reflexivity|]. split; [exists cs; auto|]. split; [apply keys_lookup_disjoint; assumption|].
      apply forall_all. eapply Forall_impl; [|exact HF]; cbv beta; intros ? [? [? [? ?]]]; assumption.
  - unfold leaf_okb in H. apply andb_true_iff in H. destruct H as [H Ha]. apply andb_true_iff in H. destruct H as [H Hl].
    apply andb_true_iff in H. destruct H as [Hs Hf].
    destruct (segs_okb_ok sg Hs) as [Hd Hw]. destruct (argsb_ok a Ha) as [Haw Hty].
    assert (Hne : sg <> []) by (destruct sg; [discriminate | discriminate]).
    pose proof (last_not_slashb_ok sg Hne Hl) as Hls.
    split; [|split; [|split]].
    + cbn [pok]. auto.
    + cbn [sport_wf]. auto.
    + cbn [dok]. auto.
    + cbn [lok]. split; [exact Hd|]. split; [exact Hls|].
      destruct sg as [|[[|c s]|n] sg]; try discriminate. cbn [first_okb] in Hf.
      apply negb_true_iff, Z.eqb_neq in Hf. exact Hf.
Qed.

Theorem names_ok_sound root : names_ok root = true ->
  Forall sport_wf root /\ Forall dok root /\ table_disjoint root /\ Forall lok root /\ lookup_disjoint root.
Proof.
  unfold names_ok. intros H. apply andb_true_iff in H. destruct H as [Htab Hall].
  rewrite forallb_forall in Hall.
  assert (HF : Forall (fun q => pok q /\ sport_wf q /\ dok q /\ lok q) root).
  { rewrite Forall_forall. intros q Hq. apply port_okb_ok. apply Hall. exact Hq. }
  assert (Hpok : Forall pok root) by (eapply Forall_impl; [|exact HF]; cbv beta; intros ? [? [? [? ?]]]; assumption).
  pose proof (keys_freeb_ok root Htab) as Hkf.
  split; [eapply Forall_impl; [|exact HF]; cbv beta; intros ? [? [? [? ?]]]; assumption|].
  split; [eapply Forall_impl; [|exact HF]; cbv beta; intros ? [? [? [? ?]]]; assumption|].
  split; [apply keys_table_disjoint; assumption|].
  split; [eapply Forall_impl; [|exact HF]; cbv beta; intros ? [? [? [? ?]]]; assumption|].
  apply keys_lookup_disjoint; assumption.
Qed.

(* ---- every leaf the walk reports admits some type string ------------------------------------ *)
(* (apropos does not look at types: C18_lookup needs no hypothesis about them) *)
Fixpoint adm (p : sport) : Prop :=
  match p with
  | SPort _ a _ None => exists ty, admits a ty
  | SPort _ _ _ (Some l) =>
      (fix all (l : list sport) : Prop := match l with [] => True | x :: r => adm x /\ all r end) l
  end.

Lemma adm_all l :
  (fix all (l : list sport) : Prop := match l with [] => True | x :: r => adm x /\ all r end) l -> Forall adm l.
Proof. induction l as [|x r IH]; intros H; [constructor|]. destruct H. constructor; auto. Qed.

Lemma argsb_admits a : argsb a = true -> exists ty, admits a ty.
Proof.
  intros H. destruct (argsb_ok a H) as [_ [tys [-> Ht]]]. destruct tys as [l|].
  - pose proof Ht as Ht0. destruct Ht as [Hne Hall]. destruct l as [|t l]; [congruence|]. exists t. exists (Some (t :: l)).
    split; [reflexivity|]. split; [exact Ht0|]. split; [|left; reflexivity].
    inversion Hall as [|? ? Ht1 _]; subst. eapply Forall_impl; [|exact Ht1]. intros c [Hc _]. exact Hc.
  - exists []. exists None. split; [reflexivity|]. split; [exact I|]. split; [constructor | exact I].
Qed.

Lemma port_okb_adm p : port_okb p = true -> adm p.
Proof.
  induction p as [sg a mt s IHs] using sport_ind2. intros H. destruct s as [l|]; cbn [port_okb adm] in *.
  - apply andb_true_iff in H. destruct H as [_ Hall]. apply okb_all_forall in Hall. rewrite forallb_forall in Hall.
    apply forall_all. rewrite Forall_forall in *. intros q Hq. apply IHs; [exact Hq | apply Hall; exact Hq].
  - unfold leaf_okb in H. apply andb_true_iff in H. destruct H as [_ Ha]. apply argsb_admits. exact Ha.
Qed.

Lemma spec_port_admits q : forall ids pre id a,
  adm q -> In (id, a) (spec_addrs_port ids pre q) ->
  exists rest ty, id = ids ++ rest /\
    match q with
    | SPort _ args _ None => admits args ty
    | SPort _ _ _ (Some l') => leaf_admits l' rest ty
    end.
Proof.
  induction q as [sg args m s IHs] using sport_ind2. intros ids pre id a Hadm H.
  destruct s as [l'|].
  - rewrite spec_addrs_subtree in H. apply in_flat_map in H. destruct H as [x [_ H]].
    cbn [adm] in Hadm. apply adm_all in Hadm.
    assert (Htab : forall l i, Forall (fun q => forall ids pre id a,
               adm q -> In (id, a) (spec_addrs_port ids pre q) ->
               exists rest ty, id = ids ++ rest /\
                 match q with
                 | SPort _ args _ None => admits args ty
                 | SPort _ _ _ (Some l') => leaf_admits l' rest ty
                 end) l -> Forall adm l ->
             In (id, a) (spec_table ids (pre ++ x) l i) ->
             exists j q rest ty, nth_error l j = Some q /\ id = ids ++ (i + j)%nat :: rest /\
               match q with
               | SPort _ args _ None => admits args ty
               | SPort _ _ _ (Some l') => leaf_admits l' rest ty
               end).
    { induction l as [|q r IHr]; intros i HF HA Hin; [contradiction|].
      inversion HF as [|? ? Hq Hr]; subst. inversion HA as [|? ? Aq Ar]; subst.
      cbn [spec_table] in Hin. apply in_app_or in Hin. destruct Hin as [Hin|Hin].
      - destruct (Hq _ _ _ _ Aq Hin) as [rest [ty [-> Hre]]].
        exists O, q, rest, ty. split; [reflexivity|]. split; [rewrite <- app_assoc, Nat.add_0_r; reflexivity | exact Hre].
      - destruct (IHr (S i) Hr Ar Hin) as [j [q' [rest [ty [En [-> Hre]]]]]].
        exists (S j), q', rest, ty. split; [exact En|]. split; [f_equal; f_equal; lia | exact Hre]. }
    destruct (Htab l' O IHs Hadm H) as [j [q [rest [ty [En [-> Hre]]]]]].
    exists (j :: rest), ty. split; [reflexivity|]. cbn [leaf_admits]. rewrite En.
    destruct q as [sg' args' m' [l''|]]; exact Hre.
  - cbn [spec_addrs_port] in H. apply in_map_iff in H. destruct H as [x [Heq Hx]]. inversion Heq; subst.
    cbn [adm] in Hadm. destruct Hadm as [ty Hty]. exists [], ty. split; [rewrite app_nil_r; reflexivity | exact Hty].
Qed.

Lemma names_ok_leaf_admits root id a :
  names_ok root = true -> In (id, a) (spec_addrs root) -> exists ty, leaf_admits root id ty.
Proof.
  unfold names_ok. intros H Hin. apply andb_true_iff in H. destruct H as [_ Hall]. rewrite forallb_forall in Hall.
  assert (Hadm : adm (SPort [] [] None (Some root))).
  { cbn [adm]. apply forall_all. rewrite Forall_forall. intros q Hq. apply port_okb_adm. apply Hall. exact Hq. }
  unfold spec_addrs in Hin.
  destruct (spec_port_admits _ _ _ _ _ Hadm Hin) as [rest [ty [-> Hre]]]. exists ty. exact Hre.
Qed.

(* ---- the theorems with the decidable hypothesis --------------------------------------------- *)
Theorem walk_dispatchable_names hp tid root id a ty o :
  names_ok root = true -> tree_ok (to_tree hp tid root) ->
  forall out b, walk None (map render_port root) [] = WOk out b ->
  In (id, a) out -> leaf_admits root id ty ->
  let t := to_tree hp tid root in
  rev (log (dispatch t a ty true o)) = chain id t (strip a) ty o (Some [47]) /\
  rev (log (dispatch t a ty false o)) = chain id t (strip a) ty o None /\
  matches (dispatch t a ty true o) = 1 /\
  leaf_count (chain id t (strip a) ty o (Some [47])) = 1 /\
  length (chain id t (strip a) ty o (Some [47])) = length id.
Proof.
  intros H. destruct (names_ok_sound root H) as [Hwf [Hdok [Htd _]]].
  apply walk_dispatchable; assumption.
Qed.

Theorem walk_lookup_names root id a :
  names_ok root = true ->
  forall out b, walk None (map render_port root) [] = WOk out b ->
  In (id, a) out ->
  apropos (map render_port root) a = AFound id.
Proof.
  intros H out b Hwalk Hin. destruct (names_ok_sound root H) as [Hwf [_ [_ [Hlok Hld]]]].
  assert (Hin' : In (id, a) (spec_addrs root)).
  { rewrite (walk_enumerates root Hwf) in Hwalk. inversion Hwalk; subst. exact Hin. }
  destruct (names_ok_leaf_admits root id a H Hin') as [ty Hty].
  eapply walk_lookup; eassumption.
Qed.

(* non-vacuity: siblings sharing first characters, an enumerated sub-tree, a
   leaf with two enumerations:  { "xa", "xb#2/y#11:i", "c#12/" -> { "xa:T:F", "d" } } *)
Definition ex_names : list sport :=
  [SPort [NameModel.Lit [120; 97]] [] None None;
   SPort [NameModel.Lit [120; 98]; NameModel.Enum 2; NameModel.Lit [47; 121]; NameModel.Enum 11] [58; 105] None None;
   SPort [NameModel.Lit [99]; NameModel.Enum 12; NameModel.Lit [47]] [] None
         (Some [SPort [NameModel.Lit [120; 97]] [58; 84; 58; 70] None None;
                SPort [NameModel.Lit [100]] [] None None])].

Example ex_names_ok :
  names_ok ex_names = true /\
  names_ok [SPort [NameModel.Lit [97]; NameModel.Enum 4; NameModel.Lit [98]] [] None None;
            SPort [NameModel.Lit [97; 48; 49; 98]] [] None None] = false /\        (* a#4b, a01b: digit in literal text *)
  names_ok [SPort [NameModel.Lit [120]] [] None None;
            SPort [NameModel.Lit [120; 121]] [] None None] = false /\              (* x, xy: key prefix *)
  (exists out b, walk None (map render_port ex_names) [] = WOk out b /\ length out = 47%nat /\
                 In ([2%nat; 0%nat], [47; 99; 49; 49; 47; 120; 97]) out) /\
  apropos (map render_port ex_names) [47; 99; 49; 49; 47; 120; 97] = AFound [2%nat; 0%nat].
Proof.
  split; [vm_compute; reflexivity|]. split; [vm_compute; reflexivity|]. split; [vm_compute; reflexivity|].
  split; [|vm_compute; reflexivity].
  eexists. eexists. split; [vm_compute; reflexivity|]. split; [reflexivity|].
  do 45 right. left. reflexivity.
Qed.

(* ---- digits in literal text ----------------------------------------------------------------- *)
(* { "osc1a", "osc2a", "v2#3/x7:i", "p10/q/" -> { "b2", "c" } }: accepted (literal digits are
   compared like any other literal character); { "a1", "a12" } is rejected (a prefix), and so is
   the alias pair { "a#4b", "a01b" } ('#4' against a literal digit: C18_lookup_digit_alias_refuted) *)
Definition ex_digits : list sport :=
  [SPort [NameModel.Lit [111; 115; 99; 49; 97]] [] None None;
   SPort [NameModel.Lit [111; 115; 99; 50; 97]] [] None None;
   SPort [NameModel.Lit [118; 50]; NameModel.Enum 3; NameModel.Lit [47; 120; 55]] [58; 105] None None;
   SPort [NameModel.Lit [112; 49; 48; 47]; NameModel.Lit [113; 47]] [] None
         (Some [SPort [NameModel.Lit [98; 50]] [] None None; SPort [NameModel.Lit [99]] [] None None])].

Example ex_digits_ok :
  names_ok ex_digits = true /\
  names_ok [SPort [NameModel.Lit [97; 49]] [] None None; SPort [NameModel.Lit [97; 49; 50]] [] None None] = false /\
  (exists out b, walk None (map render_port ex_digits) [] = WOk out b /\ length out = 7%nat /\
                 In ([2%nat], [47; 118; 50; 50; 47; 120; 55]) out /\
                 In ([3%nat; 0%nat], [47; 112; 49; 48; 47; 113; 47; 98; 50]) out) /\
  apropos (map render_port ex_digits) [47; 118; 50; 50; 47; 120; 55] = AFound [2%nat] /\
  apropos (map render_port ex_digits) [47; 112; 49; 48; 47; 113; 47; 98; 50] = AFound [3%nat; 0%nat].
Proof.
  split; [vm_compute; reflexivity|]. split; [vm_compute; reflexivity|].
  split; [|split; vm_compute; reflexivity].
  eexists. eexists. split; [vm_compute; reflexivity|]. split; [reflexivity|].
  split; [do 4 right; left; reflexivity | do 5 right; left; reflexivity].
Qed.

(* ---- a multi-component sub-tree name under the macro recursion callback -------------------- *)
(* { "a/b/" -> { "x" } }: the walk reports ([0;0], "/a/b/x"); with SNIP skipping as many
   components as the name has (DispatchModel.snipk) its dispatch reaches the leaf, and the
   name is accepted by names_ok (structured by components: "a/" "b/").  The behaviour
   before the fix is kept in SnipRegress.v. *)
Definition ex_multi : list sport :=
  [SPort [NameModel.Lit [97; 47]; NameModel.Lit [98; 47]] [] None (Some [SPort [NameModel.Lit [120]] [] None None])].

(* "a#3/b#2/c/" -> { "e", "v#2/w#11:i" } *)
Definition ex_multi2 : list sport :=
  [SPort [NameModel.Lit [97]; NameModel.Enum 3; NameModel.Lit [47]; NameModel.Lit [98]; NameModel.Enum 2; NameModel.Lit [47];
          NameModel.Lit [99; 47]] [] None
     (Some [SPort [NameModel.Lit [101]] [] None None;
            SPort [NameModel.Lit [118]; NameModel.Enum 2; NameModel.Lit [47; 119]; NameModel.Enum 11] [58; 105] None None])].

Example multicomponent_macro :
  walk None (map render_port ex_multi) [] = WOk [([0%nat; 0%nat], [47; 97; 47; 98; 47; 120])] [47] /\
  (let d := dispatch (to_tree no_hash_search one_id ex_multi) [47; 97; 47; 98; 47; 120] [] true 0 in
   matches d = 1 /\ leaf_count (log d) = 1 /\ length (log d) = 2%nat) /\
  names_ok ex_multi = true /\ names_ok ex_multi2 = true /\
  (exists out b, walk None (map render_port ex_multi2) [] = WOk out b /\ length out = 138%nat /\
                 In ([0%nat; 1%nat], [47; 97; 50; 47; 98; 49; 47; 99; 47; 118; 49; 47; 119; 49; 48]) out) /\
  apropos (map render_port ex_multi2) [47; 97; 50; 47; 98; 49; 47; 99; 47; 118; 49; 47; 119; 49; 48] = AFound [0%nat; 1%nat].
Proof.
  split; [vm_compute; reflexivity|]. split; [vm_compute; repeat split; reflexivity|].
  split; [vm_compute; reflexivity|]. split; [vm_compute; reflexivity|]. split; [|vm_compute; reflexivity].
  eexists. eexists. split; [vm_compute; reflexivity|]. split; [reflexivity|].
  do 137 right. left. reflexivity.
Qed.
