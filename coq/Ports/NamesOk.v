(* C09 / C18 - the semantic side conditions table_disjoint (C09_dispatchable)
   and lookup_disjoint (C18_lookup) derived from a decidable syntactic one:
   literal text without digits, and the KEYS of sibling names - the path part
   with every '#N' replaced by the single character '#' - pairwise not
   prefixes of one another.  Uses C05's soundness direction (path_sound =
   C05_no_spurious): whatever a name matches spells it, so the address with
   its digit runs collapsed to '#' begins with the name's key. *)
From Coq Require Import List ZArith Bool Arith Lia.
From RtoscV Require Import Match.PatSpec Match.MatchModel Match.MatchProofs
     Ports.DispatchModel Ports.DispatchProofs Ports.TreeProofs
     Ports.MetaModel Ports.NameModel Ports.PathModel Ports.WalkModel Ports.WalkProofs
     Ports.DecProofs Ports.EnumProofs Ports.DispatchWalk Ports.LookupGen Ports.NamesModel.
Import ListNotations.
Local Open Scope Z_scope.

(* ---- keys and shapes ------------------------------------------------------------------- *)
(* an address with every maximal digit run replaced by '#' *)
Fixpoint shape_aux (in_run : bool) (s : list Z) : list Z :=
  match s with
  | [] => []
  | c :: t => if isdigit c then (if in_run then shape_aux true t else 35 :: shape_aux true t)
              else c :: shape_aux false t
  end.
Definition shape (s : list Z) : list Z := shape_aux false s.

Definition nodigits (s : list Z) : Prop := Forall (fun c => isdigit c = false) s.

Lemma shape_aux_nodigit b s t : nodigits s -> shape_aux b (s ++ t) = s ++ shape_aux (if s then b else false) t.
Proof.
  revert b. induction s as [|c s IH]; intros b H; [reflexivity|].
  inversion H as [|? ? Hc Hs]; subst. cbn [app shape_aux]. rewrite Hc. rewrite (IH false Hs).
  destruct s; reflexivity.
Qed.

Lemma shape_aux_head b t : starts_with_digit t = false -> shape_aux b t = shape_aux false t.
Proof. destruct t as [|c t]; [reflexivity|]. cbn. intros ->. reflexivity. Qed.

Lemma shape_aux_digits x : forall t, digits x -> x <> [] -> starts_with_digit t = false ->
  shape_aux false (x ++ t) = 35 :: shape_aux false t.
Proof.
  assert (G : forall x t, digits x -> starts_with_digit t = false -> shape_aux true (x ++ t) = shape_aux false t).
  { induction x0 as [|c x0 IH]; intros t Hd Ht; [apply shape_aux_head; exact Ht|].
    inversion Hd as [|? ? Hc Hx]; subst. cbn [app shape_aux]. rewrite Hc. apply IH; assumption. }
  intros t Hd Hne Ht. destruct x as [|c x]; [congruence|]. inversion Hd as [|? ? Hc Hx]; subst.
  cbn [app shape_aux]. rewrite Hc. f_equal. apply G; assumption.
Qed.

(* literal text without digits, no two enumerations adjacent *)
Fixpoint segs_plain (l : list NameModel.seg) : Prop :=
  match l with
  | [] => True
  | NameModel.Lit s :: r => s <> [] /\ nodigits s /\ segs_plain r
  | NameModel.Enum _ :: r => match r with NameModel.Enum _ :: _ => False | _ => True end /\ segs_plain r
  end.

Lemma spells_nil_inv z : spells [] z -> z = [].
Proof. intros H. inversion H. reflexivity. Qed.

Lemma spells_lit_inv s r z : spells (PatSpec.Lit s :: r) z -> exists y, z = s ++ y /\ spells r y.
Proof.
  intros H. inversion H as [|sg r' x y Hx Hy]; subst. inversion Hx; subst. exists y. split; [reflexivity | exact Hy].
Qed.

Lemma spells_enum_inv ds r z : spells (PatSpec.Enum ds :: r) z ->
  exists x y, z = x ++ y /\ x <> [] /\ digits x /\ spells r y.
Proof.
  intros H. inversion H as [|sg r' x y Hx Hy]; subst. inversion Hx; subst.
  exists x, y. repeat split; assumption.
Qed.

Lemma plain_next_nondigit r y t :
  segs_plain r -> match r with NameModel.Enum _ :: _ => False | _ => True end ->
  spells (map conv r) y -> starts_with_digit t = false -> starts_with_digit (y ++ t) = false.
Proof.
  intros Hp Hne Hs Ht. destruct r as [|[s|n] r]; [| |contradiction].
  - apply spells_nil_inv in Hs. subst. exact Ht.
  - cbn [map conv] in Hs. apply spells_lit_inv in Hs. destruct Hs as [y' [-> _]].
    destruct Hp as [Hne' [Hd _]]. destruct s as [|c s]; [congruence|]. inversion Hd; subst.
    cbn. assumption.
Qed.

(* whatever spells a plain name has the name's key as its shape *)
Lemma spells_shape l : forall x t b,
  segs_plain l -> (b = true -> match l with NameModel.Enum _ :: _ => False | _ => True end) ->
  spells (map conv l) x -> starts_with_digit t = false ->
  shape_aux b (x ++ t) = key l ++ shape_aux false t.
Proof.
  induction l as [|[s|n] l IH]; intros x t b Hp Hb Hs Ht.
  - apply spells_nil_inv in Hs. subst. cbn [app key map concat]. apply shape_aux_head. exact Ht.
  - cbn [map conv] in Hs. apply spells_lit_inv in Hs. destruct Hs as [y [-> Hy]].
    destruct Hp as [Hne [Hd Hr]]. rewrite <- app_assoc. rewrite (shape_aux_nodigit b s _ Hd).
    destruct s as [|c s]; [congruence|].
    rewrite (IH y t false Hr ltac:(discriminate) Hy Ht).
    unfold key. cbn [map concat]. rewrite <- app_assoc. reflexivity.
  - cbn [map conv] in Hs. apply spells_enum_inv in Hs. destruct Hs as [x1 [y [-> [Hne [Hdg Hy]]]]].
    destruct Hp as [Hnx Hr]. rewrite <- app_assoc.
    assert (b = false) by (destruct b; [exfalso; apply (Hb eq_refl) | reflexivity]). subst b.
    assert (Hyt : starts_with_digit (y ++ t) = false) by (eapply plain_next_nondigit; eassumption).
    rewrite (shape_aux_digits x1 (y ++ t) Hdg Hne Hyt).
    rewrite (IH y t false Hr ltac:(discriminate) Hy Ht). reflexivity.
Qed.

(* shaping preserves "is a prefix of" *)
Lemma shape_prefix m : forall b t, prefix (shape_aux b m) (shape_aux b (m ++ t)).
Proof.
  induction m as [|c m IH]; intros b t; [exact I|].
  cbn [app shape_aux]. destruct (isdigit c).
  - destruct b; [apply IH | split; [reflexivity | apply IH]].
  - split; [reflexivity | apply IH].
Qed.

(* an address without digits spells only names without enumerations, and then
   it is the name's text itself *)
Lemma spells_nodigits l : forall x, spells (map conv l) x -> nodigits x ->
  x = key l /\ Forall (fun s => match s with NameModel.Lit _ => True | _ => False end) l.
Proof.
  induction l as [|[s|n] l IH]; intros x Hs Hn.
  - apply spells_nil_inv in Hs. subst. split; [reflexivity | constructor].
  - cbn [map conv] in Hs. apply spells_lit_inv in Hs. destruct Hs as [y [-> Hy]].
    apply Forall_app in Hn. destruct Hn as [_ Hy']. destruct (IH y Hy Hy') as [-> Hl].
    split; [reflexivity | constructor; [exact I | exact Hl]].
  - exfalso. cbn [map conv] in Hs. apply spells_enum_inv in Hs. destruct Hs as [x1 [y [-> [Hne [Hdg _]]]]].
    destruct x1 as [|c x1]; [congruence|]. inversion Hdg; subst. inversion Hn; subst. congruence.
Qed.

(* ---- one port: what a match tells about the address ------------------------------------ *)
(* the name conditions used below, per port *)
Definition pok (q : sport) : Prop :=
  match q with
  | SPort sg a _ None =>
      dsegs_wf sg /\ segs_plain sg /\ last_not_slash (map conv sg) /\
      exists tys, a = render_types tys /\ types_ok tys
  | SPort sg a _ (Some _) =>
      a = [] /\ exists cs, sg = comps_segs cs /\ cs <> [] /\ Forall dcomp cs /\ Forall (fun c => nodigits (fst c)) cs
  end.

Lemma spells_chars (P : Z -> Prop) l :
  (forall c, dchar c -> P c) -> (forall c, isdigit c = true -> P c) ->
  dsegs_wf l -> forall x, spells (map conv l) x -> Forall P x.
Proof.
  intros HP HD. induction l as [|[s|n] l IH]; intros H x Hs.
  - apply spells_nil_inv in Hs. subst. constructor.
  - cbn [map conv] in Hs. apply spells_lit_inv in Hs. destruct Hs as [y [-> Hy]].
    destruct H as [_ [Hc Hr]]. apply Forall_app. split; [eapply Forall_impl; [|exact Hc]; exact HP | apply IH; assumption].
  - cbn [map conv] in Hs. apply spells_enum_inv in Hs. destruct Hs as [x1 [y [-> [_ [Hdg Hy]]]]].
    destruct H as [_ [_ Hr]]. apply Forall_app. split; [eapply Forall_impl; [|exact Hdg]; exact HD | apply IH; assumption].
Qed.

Definition no35 (c : Z) : Prop := c <> 35.
Lemma dchar_no35 c : dchar c -> no35 c. Proof. unfold dchar, no35. lia. Qed.
Lemma digit_no35 c : isdigit c = true -> no35 c. Proof. intros H. apply isdigit_range in H. unfold no35. lia. Qed.

Lemma comp_conv_plain c : nodigits (fst c) -> fst c <> [] -> segs_plain (comp_conv c).
Proof. destruct c as [t [n|]]; cbn [fst comp_conv segs_plain]; intros; repeat split; auto. Qed.

Lemma comp_key c : key (comps_segs [c]) = key (comp_conv c) ++ [47].
Proof.
  destruct c as [t [n|]]; unfold key; cbn [comps_segs flat_map comp_segs app comp_conv map concat];
    rewrite ?app_nil_r, <- ?app_assoc; reflexivity.
Qed.

Lemma key_app a b : key (a ++ b) = key a ++ key b.
Proof. unfold key. rewrite map_app, concat_app. reflexivity. Qed.

Lemma comps_key cs : cs <> [] -> key (comps_segs cs) = key (comps_conv cs) ++ [47].
Proof.
  induction cs as [|c r IH]; intros Hne; [congruence|].
  rewrite comps_segs_cons, key_app, <- (comps_segs_one c), comp_key.
  destruct r as [|c' r']; cbn [comps_conv].
  - cbn [comps_segs flat_map]. unfold key at 2. cbn [map concat]. rewrite !app_nil_r. reflexivity.
  - rewrite IH by discriminate. rewrite key_app. unfold key at 4. cbn [map concat]. fold (key (comps_conv (c' :: r'))).
    rewrite <- !app_assoc. reflexivity.
Qed.

Lemma comps_conv_plain cs : Forall dcomp cs -> Forall (fun c => nodigits (fst c)) cs -> segs_plain (comps_conv cs).
Proof.
  induction cs as [|c r IH]; intros Hc Hn; [exact I|].
  inversion Hc as [|? ? Hc1 Hcr]; subst. inversion Hn as [|? ? Hn1 Hnr]; subst. specialize (IH Hcr Hnr).
  destruct Hc1 as [Hne _]. assert (H47 : nodigits [47]) by (constructor; [reflexivity | constructor]).
  destruct c as [t [n|]]; destruct r as [|c' r']; cbn [comps_conv comp_conv app fst segs_plain] in *;
    repeat split; auto; discriminate.
Qed.

Lemma comps_segs_plain cs : Forall dcomp cs -> Forall (fun c => nodigits (fst c)) cs -> segs_plain (comps_segs cs).
Proof.
  induction cs as [|c r IH]; intros Hc Hn; [exact I|].
  inversion Hc as [|? ? Hc1 Hcr]; subst. inversion Hn as [|? ? Hn1 Hnr]; subst. specialize (IH Hcr Hnr).
  destruct Hc1 as [Hne _]. assert (H47 : nodigits [47]) by (constructor; [reflexivity | constructor]).
  rewrite comps_segs_cons.
  destruct c as [t [n|]]; cbn [comp_segs app fst segs_plain] in *.
  - repeat split; auto; discriminate.
  - repeat split; auto; [intros E; apply app_eq_nil in E; destruct E; discriminate | apply Forall_app; split; assumption].
Qed.

(* a matching port: the shaped address begins with the port's key; and the
   address begins with a '#'-free text that IS the key if it has no digits *)
Lemma match_shape q m r pe :
  pok q -> addr_ok m -> match_path (sname q) m = MRet r pe ->
  (exists u, shape m = skey q ++ u) /\
  (exists m', prefix m' m /\ Forall no35 m' /\ (nodigits m' -> m' = skey q)).
Proof.
  intros Hq Haddr Hm. destruct q as [sg a mt [l|]]; cbn [pok sname skey] in *.
  - destruct Hq as [-> [cs [-> [Hcs [Hc Hnd]]]]].
    pose proof (comps_conv_wf cs Hc) as Hw.
    set (p := {| segs := map conv (comps_conv cs); subtree := true; types := None |}).
    assert (Hr : render_name (comps_segs cs) [] = PatSpec.render p).
    { unfold PatSpec.render, render_tail, p, render_name. fold (flatten (comps_segs cs)).
      cbn [segs subtree types render_types app]. rewrite render_conv, (comps_flatten cs Hcs), !app_nil_r. reflexivity. }
    rewrite Hr in Hm.
    assert (Hwf : wf_pat p).
    { unfold wf_pat, p. cbn [segs subtree types]. repeat split;
        [apply conv_seg_ok; exact Hw | apply conv_enum_sep; exact Hw | intros E; discriminate]. }
    destruct (path_sound p m r pe Hwf Haddr Hm) as [_ Hsp].
    unfold path_spec, p in Hsp. cbn [subtree segs] in Hsp. destruct Hsp as [x [Hx ->]].
    pose proof (comps_conv_plain cs Hc Hnd) as Hpl.
    split.
    + exists (shape pe). unfold shape. rewrite (spells_shape _ x (47 :: pe) false Hpl ltac:(discriminate) Hx eq_refl).
      rewrite (comps_key cs Hcs), <- app_assoc. reflexivity.
    + exists (x ++ [47]). split; [|split].
      * apply prefix_app. exists pe. rewrite <- app_assoc. reflexivity.
      * apply Forall_app. split; [apply (spells_chars no35 _ dchar_no35 digit_no35 Hw x Hx) | constructor; [unfold no35; lia | constructor]].
      * intros Hn. apply Forall_app in Hn. destruct Hn as [Hn _].
        destruct (spells_nodigits _ x Hx Hn) as [-> _]. rewrite (comps_key cs Hcs). reflexivity.
  - destruct Hq as [Hw [Hpl [Hls [tys [-> Ht]]]]].
    set (p := {| segs := map conv sg; subtree := false; types := tys |}).
    assert (Hr : render_name sg (render_types tys) = PatSpec.render p).
    { unfold PatSpec.render, render_tail, p, render_name. fold (flatten sg).
      cbn [segs subtree types app]. rewrite render_conv. reflexivity. }
    rewrite Hr in Hm.
    assert (Hwf : wf_pat p).
    { unfold wf_pat, p. cbn [segs subtree types]. repeat split;
        [apply conv_seg_ok; exact Hw | apply conv_enum_sep; exact Hw | intros _; exact Hls | exact Ht]. }
    destruct (path_sound p m r pe Hwf Haddr Hm) as [_ Hsp].
    unfold path_spec, p in Hsp. cbn [subtree segs] in Hsp. destruct Hsp as [Hx ->].
    split.
    + exists []. unfold shape. rewrite <- (app_nil_r m) at 1.
      rewrite (spells_shape _ m [] false Hpl ltac:(discriminate) Hx eq_refl). reflexivity.
    + exists m. split; [apply prefix_refl | split].
      * apply (spells_chars no35 _ dchar_no35 digit_no35 Hw m Hx).
      * intros Hn. apply (spells_nodigits _ m Hx Hn).
Qed.

(* ---- the raw name: its leading literal text --------------------------------------------- *)
Fixpoint lead (l : list NameModel.seg) : list Z :=
  match l with NameModel.Lit s :: r => s ++ lead r | _ => [] end.

Lemma lead_key l : prefix (lead l) (key l).
Proof.
  induction l as [|[s|n] l IH]; [exact I| |exact I].
  cbn [lead]. unfold key. cbn [map concat]. fold (key l). apply prefix_app.
  apply prefix_app in IH. destruct IH as [r ->]. exists r. rewrite app_assoc. reflexivity.
Qed.

Lemma lead_nodigits l : segs_plain l -> nodigits (lead l).
Proof.
  induction l as [|[s|n] l IH]; intros H; [constructor| |constructor].
  destruct H as [_ [Hd Hr]]. cbn [lead]. apply Forall_app. split; [exact Hd | apply IH; exact Hr].
Qed.

(* the raw name is its leading literal text, followed by nothing, a '#' or a ':' *)
Lemma raw_lead l a : (a = [] \/ hd0 a = 58) ->
  exists rest, flatten l ++ a = lead l ++ rest /\ (rest = [] \/ hd0 rest = 35 \/ hd0 rest = 58).
Proof.
  intros Ha. induction l as [|[s|n] l IH].
  - exists a. split; [reflexivity|]. destruct Ha as [->|Ha]; [left; reflexivity | right; right; exact Ha].
  - destruct IH as [rest [E Hr]]. exists rest. split; [|exact Hr].
    rewrite flatten_cons. cbn [NameModel.render_seg lead]. rewrite <- !app_assoc, E. reflexivity.
  - exists (flatten (NameModel.Enum n :: l) ++ a). split; [reflexivity|]. right. left. reflexivity.
Qed.

Lemma prefix_stop (x p rest : list Z) :
  prefix x (p ++ rest) -> (rest = [] \/ ~ In (hd0 rest) x) -> prefix x p.
Proof.
  revert p. induction x as [|c x IH]; intros p H Hr; [exact I|].
  destruct p as [|d p].
  - cbn [app] in H. destruct rest as [|e rest]; [contradiction|]. destruct H as [-> _].
    destruct Hr as [Hr|Hr]; [discriminate|]. exfalso. apply Hr. left. reflexivity.
  - cbn [app] in H. destruct H as [-> H]. split; [reflexivity|]. apply (IH p H).
    destruct Hr as [Hr|Hr]; [left; exact Hr | right; intros Hin; apply Hr; right; exact Hin].
Qed.

Lemma prefix_forall {P : Z -> Prop} x y : prefix x y -> Forall P y -> Forall P x.
Proof. intros H Hy. apply prefix_app in H. destruct H as [r ->]. apply Forall_app in Hy. apply Hy. Qed.

Lemma prefix_trans' (a b c : list Z) : prefix a b -> prefix b c -> prefix a c.
Proof.
  intros H1 H2. apply prefix_app in H1. destruct H1 as [r ->]. apply prefix_app in H2. destruct H2 as [r' ->].
  apply prefix_app. exists (r ++ r'). rewrite app_assoc. reflexivity.
Qed.

Definition pargs_ok (q : sport) : Prop := match q with SPort _ a _ _ => a = [] \/ hd0 a = 58 end.
Definition pplain (q : sport) : Prop := match q with SPort sg _ _ _ => segs_plain sg end.

(* ---- two siblings answering one path have prefix-related keys ---------------------------- *)
Lemma two_matches q q' m r pe r' pe' :
  pok q -> pok q' -> addr_ok m ->
  match_path (sname q) m = MRet r pe -> match_path (sname q') m = MRet r' pe' ->
  prefix (skey q) (skey q') \/ prefix (skey q') (skey q).
Proof.
  intros Hq Hq' Ha Hm Hm'.
  destruct (match_shape q m r pe Hq Ha Hm) as [[u Hu] _].
  destruct (match_shape q' m r' pe' Hq' Ha Hm') as [[u' Hu'] _].
  apply (prefix_comparable _ _ (shape m)); apply prefix_app; eauto.
Qed.

Lemma match_and_rawprefix q q' m r pe :
  pok q -> pplain q' -> pargs_ok q' -> addr_ok m ->
  match_path (sname q) m = MRet r pe -> NameModel.prefixb m (sname q') = true ->
  prefix (skey q) (skey q').
Proof.
  intros Hq Hpl Hargs Ha Hm Hp.
  destruct (match_shape q m r pe Hq Ha Hm) as [_ [m' [Hm' [H35 Hk]]]].
  destruct q' as [sg' a' mt' s']. cbn [sname skey pplain pargs_ok] in *.
  unfold render_name in Hp. fold (flatten sg') in Hp.
  destruct (raw_lead sg' a' Hargs) as [rest [E Hrest]]. rewrite E in Hp.
  assert (Hpm : prefix m (lead sg' ++ rest)).
  { clear - Hp. revert Hp. generalize (lead sg' ++ rest). induction m as [|c m IH]; intros [|d y] H; cbn in *; try exact I; try discriminate.
    apply andb_true_iff in H. destruct H as [Hc H]. apply Z.eqb_eq in Hc. split; [exact Hc | apply IH; exact H]. }
  assert (Hm'l : prefix m' (lead sg')).
  { apply (prefix_stop m' (lead sg') rest); [eapply prefix_trans'; eassumption|].
    destruct Hrest as [->|[Hr|Hr]]; [left; reflexivity | |]; right; rewrite Hr; intros Hin.
    - rewrite Forall_forall in H35. apply (H35 35 Hin). reflexivity.
    - pose proof (prefix_forall m' m Hm' Ha) as Ha'. rewrite Forall_forall in Ha'. destruct (Ha' 58 Hin) as [_ Hc]. apply Hc. reflexivity. }
  rewrite <- (Hk (prefix_forall m' (lead sg') Hm'l (lead_nodigits sg' Hpl))).
  eapply prefix_trans'; [exact Hm'l | apply lead_key].
Qed.

(* ---- the tables -------------------------------------------------------------------------- *)
(* no key is a prefix of the key of another port of the table *)
Definition keys_free (l : list sport) : Prop :=
  forall i j q q', nth_error l i = Some q -> nth_error l j = Some q' -> prefix (skey q) (skey q') -> i = j.

Lemma pok_plain q : pok q -> pplain q /\ pargs_ok q.
Proof.
  destruct q as [sg a mt [l|]]; cbn [pok pplain pargs_ok].
  - intros [-> [cs [-> [_ [Hc Hnd]]]]]. split; [|left; reflexivity]. apply comps_segs_plain; assumption.
  - intros [_ [Hpl [_ [tys [-> Ht]]]]]. split; [exact Hpl|].
    destruct (render_types_shape tys Ht) as [->|[X ->]]; [left; reflexivity | right; reflexivity].
Qed.

Theorem keys_table_disjoint l : Forall pok l -> keys_free l -> table_disjoint l.
Proof.
  intros Hl Hk j j' q q' m ty pe pe' E E' Ha Hm Hm'.
  rewrite Forall_forall in Hl.
  destruct (rtosc_match_path_of _ _ _ _ Hm) as [r Hr]. destruct (rtosc_match_path_of _ _ _ _ Hm') as [r' Hr'].
  destruct (two_matches q q' m r pe r' pe' (Hl _ (nth_error_In _ _ E)) (Hl _ (nth_error_In _ _ E')) Ha Hr Hr') as [H|H].
  - exact (Hk j j' q q' E E' H).
  - symmetry. exact (Hk j' j q' q E' E H).
Qed.

Theorem keys_lookup_disjoint l : Forall pok l -> keys_free l -> lookup_disjoint l.
Proof.
  intros Hl Hk j j' q q' m E E' Ha [r [pe Hm]] Hans.
  rewrite Forall_forall in Hl.
  pose proof (Hl _ (nth_error_In _ _ E)) as Hq. pose proof (Hl _ (nth_error_In _ _ E')) as Hq'.
  destruct Hans as [[r' [pe' Hm']] | [_ Hp]].
  - destruct (two_matches q q' m r pe r' pe' Hq Hq' Ha Hm Hm') as [H|H].
    + exact (Hk j j' q q' E E' H).
    + symmetry. exact (Hk j' j q' q E' E H).
  - destruct (pok_plain q' Hq') as [Hpl Hargs].
    exact (Hk j j' q q' E E' (match_and_rawprefix q q' m r pe Hq Hpl Hargs Ha Hm Hp)).
Qed.

(* ======================================================================== *)
(* the decidable predicate                                                   *)
(* ======================================================================== *)
(* ---- reflection ---------------------------------------------------------------------------- *)
Lemma litcharb_ok c : litcharb c = true -> dchar c /\ isdigit c = false.
Proof.
  unfold litcharb, dchar. rewrite !andb_true_iff, !negb_true_iff, !orb_false_iff.
  intros [[[H0 H1] [[[A B] C] D]] E]. apply Z.ltb_lt in H0. apply Z.ltb_lt in H1.
  apply Z.eqb_neq in A. apply Z.eqb_neq in B. apply Z.eqb_neq in C. apply Z.eqb_neq in D.
  repeat split; assumption.
Qed.

Lemma text_chars t : forallb litcharb t = true ->
  Forall dchar t /\ nodigits t /\ has_char 35 t = false /\ has_char 58 t = false.
Proof.
  induction t as [|c t IH]; intros H; [repeat split; constructor|].
  cbn [forallb] in H. apply andb_true_iff in H. destruct H as [Hc Ht].
  destruct (litcharb_ok c Hc) as [Hd Hn]. destruct (IH Ht) as [A [B [C D]]].
  repeat split; try (constructor; assumption); cbn [has_char]; unfold dchar in Hd.
  - rewrite C. replace (c =? 35) with false by (symmetry; apply Z.eqb_neq; lia). reflexivity.
  - rewrite D. replace (c =? 58) with false by (symmetry; apply Z.eqb_neq; lia). reflexivity.
Qed.

Lemma nodigits_start s : s <> [] -> nodigits s -> starts_with_digit s = false.
Proof. destruct s as [|c s]; [congruence|]. intros _ H. inversion H; subst. assumption. Qed.

Lemma segs_okb_ok l : segs_okb l = true -> dsegs_wf l /\ segs_plain l /\ segs_wf l.
Proof.
  induction l as [|[s|n] l IH]; intros H; [repeat split|cbn [segs_okb] in H|cbn [segs_okb] in H].
  - apply andb_true_iff in H. destruct H as [H Hr]. apply andb_true_iff in H. destruct H as [Hne Hs].
    destruct (IH Hr) as [A [B C]]. destruct (text_chars s Hs) as [Hd [Hn [H35 H58]]].
    assert (Hne' : s <> []) by (destruct s; [discriminate | discriminate]).
    cbn [dsegs_wf segs_plain segs_wf]. repeat split; assumption.
  - apply andb_true_iff in H. destruct H as [H Hr]. apply andb_true_iff in H. destruct H as [H Hnx].
    apply andb_true_iff in H. destruct H as [H0 H1]. apply Z.leb_le in H0. apply Z.ltb_lt in H1.
    destruct (IH Hr) as [A [B C]].
    cbn [dsegs_wf segs_plain segs_wf]. repeat split; try assumption; try lia;
      destruct l as [|[s|n'] l]; try exact I; try discriminate.
    + destruct B as [Hne [Hn _]]. apply nodigits_start; assumption.
    + destruct B as [Hne [Hn _]]. apply nodigits_start; assumption.
Qed.

(* ':'t1':'t2... : every ':'-led NUL-free string is a rendered type list *)
Fixpoint alts58 (a : list Z) : list (list Z) :=
  match a with
  | [] => [[]]
  | c :: t => if c =? 58 then [] :: alts58 t
              else match alts58 t with h :: r => (c :: h) :: r | [] => [[c]] end
  end.

Lemma alts58_spec a : Forall (fun c => c <> 0) a ->
  concat (map (fun x => 58 :: x) (alts58 a)) = 58 :: a /\ alts58 a <> [] /\
  Forall (Forall (fun c => c <> 0 /\ c <> 58)) (alts58 a).
Proof.
  induction a as [|c t IH]; intros H; [repeat split; [discriminate | repeat constructor]|].
  inversion H as [|? ? Hc Ht]; subst. destruct (IH Ht) as [E [Hne Hall]]. cbn [alts58].
  destruct (c =? 58) eqn:E58.
  - apply Z.eqb_eq in E58. subst c. cbn [map concat]. rewrite E. repeat split; [discriminate | constructor; [constructor | exact Hall]].
  - apply Z.eqb_neq in E58. destruct (alts58 t) as [|h r]; [congruence|].
    cbn [map concat] in *. inversion E. repeat split; [discriminate|].
    inversion Hall; subst. constructor; [constructor; [split; assumption | assumption] | assumption].
Qed.

Lemma argsb_ok a : argsb a = true ->
  args_wf a /\ exists tys, a = render_types tys /\ types_ok tys.
Proof.
  unfold argsb. intros H. apply orb_true_iff in H. destruct H as [H|H].
  - destruct a; [|discriminate]. split; [split; [left|]; reflexivity|]. exists None. split; [reflexivity | exact I].
  - apply andb_true_iff in H. destruct H as [H H35]. apply andb_true_iff in H. destruct H as [Hh Hn].
    apply negb_true_iff in H35. apply Z.eqb_eq in Hh.
    split; [split; [right; exact Hh | exact H35]|].
    destruct a as [|c a]; [cbn in Hh; discriminate|]. cbn [hd0] in Hh. subst c.
    assert (Hnz : Forall (fun c => c <> 0) a).
    { cbn [forallb] in Hn. apply andb_true_iff in Hn. destruct Hn as [_ Hn]. rewrite forallb_forall in Hn.
      rewrite Forall_forall. intros c Hc. specialize (Hn c Hc). apply negb_true_iff, Z.eqb_neq in Hn. exact Hn. }
    destruct (alts58_spec a Hnz) as [E [Hne Hall]].
    exists (Some (alts58 a)). split; [cbn [render_types]; symmetry; exact E | split; assumption].
Qed.

Lemma last_map {A B} (f : A -> B) l d d' : l <> [] -> last (map f l) d' = f (last l d).
Proof.
  induction l as [|x l IH]; [congruence|]. intros _. destruct l as [|y l]; [reflexivity|].
  cbn [map last] in *. apply IH. discriminate.
Qed.

Lemma last_not_slashb_ok sg : sg <> [] -> last_not_slashb sg = true -> last_not_slash (map conv sg).
Proof.
  intros Hne H. unfold last_not_slash, last_not_slashb in *.
  rewrite (last_map conv sg (NameModel.Enum 0) (PatSpec.Enum []) Hne).
  destruct (last sg (NameModel.Enum 0)) as [s|n]; cbn [conv]; [|exact I].
  apply negb_true_iff, Z.eqb_neq in H. exact H.
Qed.

Lemma has_char_in c t : has_char c t = false -> ~ In c t.
Proof.
  induction t as [|x t IH]; intros H; [intros []|]. cbn [has_char] in H. apply orb_false_iff in H.
  destruct H as [Hx Ht]. apply Z.eqb_neq in Hx. intros [E|E]; [congruence | exact (IH Ht E)].
Qed.

Lemma text_okb_ok t0 : text_okb t0 = true ->
  t0 <> [] /\ Forall dchar t0 /\ nodigits t0 /\ has_char 35 t0 = false /\ has_char 58 t0 = false /\ ~ In 47 t0.
Proof.
  unfold text_okb. intros H. apply andb_true_iff in H. destruct H as [H H47]. apply andb_true_iff in H.
  destruct H as [Hne Hc]. destruct (text_chars t0 Hc) as [A [B [C D]]].
  apply negb_true_iff in H47. repeat split; try assumption; [destruct t0; discriminate | apply has_char_in; exact H47].
Qed.

Definition comp_good (c : comp) : Prop := dcomp c /\ nodigits (fst c) /\ comp_wf c.

Lemma comps_okb_ok : forall k sg, (length sg <= k)%nat -> comps_okb sg = true ->
  exists cs, sg = comps_segs cs /\ Forall comp_good cs.
Proof.
  induction k as [|k IH]; intros sg Hlen H.
  - destruct sg; [exists []; split; [reflexivity | constructor] | cbn [length] in Hlen; lia].
  - destruct sg as [|[t|n] r]; [exists []; split; [reflexivity | constructor] | | discriminate].
    cbn [length] in Hlen.
    assert (Hplain : (last t 0 =? 47) && text_okb (removelast t) && comps_okb r = true ->
                     exists cs, NameModel.Lit t :: r = comps_segs cs /\ Forall comp_good cs).
    { intros H'. apply andb_true_iff in H'. destruct H' as [H' Hr]. apply andb_true_iff in H'. destruct H' as [Hl Ht].
      apply Z.eqb_eq in Hl. destruct (text_okb_ok _ Ht) as [Hne [Hd [Hn [H35 [H58 H47]]]]].
      assert (Htne : t <> []) by (intros ->; cbn in Hne; congruence).
      destruct (IH r ltac:(lia) Hr) as [cs [-> Hcs]].
      exists ((removelast t, None) :: cs). split.
      - rewrite comps_segs_cons. cbn [comp_segs app]. rewrite <- Hl, <- app_removelast_last by exact Htne. reflexivity.
      - constructor; [|exact Hcs]. unfold comp_good, dcomp, comp_wf. cbn [fst snd]. repeat split; assumption. }
    destruct r as [|[t2|n2] r2]; cbn [comps_okb] in H.
    + apply Hplain. exact H.
    + apply Hplain. exact H.
    + destruct r2 as [|[t3|n3] r3]; [discriminate| |discriminate].
      destruct t3 as [|c [|? ?]]; [discriminate| |discriminate].
      apply andb_true_iff in H. destruct H as [H Hr]. apply andb_true_iff in H. destruct H as [H H1].
      apply andb_true_iff in H. destruct H as [H H0]. apply andb_true_iff in H. destruct H as [Hc Ht].
      apply Z.eqb_eq in Hc. subst c. apply Z.leb_le in H0. apply Z.ltb_lt in H1.
      destruct (text_okb_ok _ Ht) as [Hne [Hd [Hn [H35 [H58 H47]]]]].
      cbn [length] in Hlen. destruct (IH r3 ltac:(lia) Hr) as [cs [-> Hcs]].
      exists ((t, Some n2) :: cs). split; [reflexivity|].
      constructor; [|exact Hcs]. unfold comp_good, dcomp, comp_wf. cbn [fst snd]. repeat split; try assumption; lia.
Qed.

Lemma sub_okb_ok sg a : sub_okb sg a = true ->
  a = [] /\ exists cs, sg = comps_segs cs /\ cs <> [] /\ Forall comp_good cs.
Proof.
  unfold sub_okb. intros H. apply andb_true_iff in H. destruct H as [H Hc]. apply andb_true_iff in H. destruct H as [Ha Hne].
  split; [destruct a; [reflexivity | discriminate]|].
  destruct (comps_okb_ok (length sg) sg (le_n _) Hc) as [cs [-> Hcs]].
  exists cs. split; [reflexivity|]. split; [|exact Hcs]. intros ->. discriminate.
Qed.

Lemma prefixb_iff a b : NameModel.prefixb a b = true <-> prefix a b.
Proof.
  revert b. induction a as [|x a IH]; intros [|y b]; cbn; try tauto; try (split; [discriminate | tauto]).
  rewrite andb_true_iff, Z.eqb_eq, IH. tauto.
Qed.

Lemma keys_freeb_ok l : keys_freeb (map skey l) = true -> keys_free l.
Proof.
  induction l as [|p l IH]; intros H i j q q' Ei Ej Hp; [destruct i; discriminate|].
  cbn [map keys_freeb] in H. apply andb_true_iff in H. destruct H as [Hall Hr].
  rewrite forallb_forall in Hall.
  destruct i as [|i], j as [|j]; cbn [nth_error] in *.
  - reflexivity.
  - exfalso. inversion Ei; subst. specialize (Hall (skey q') (in_map skey _ _ (nth_error_In _ _ Ej))).
    apply andb_true_iff in Hall. destruct Hall as [H1 _]. apply negb_true_iff in H1.
    apply prefixb_iff in Hp. congruence.
  - exfalso. inversion Ej; subst. specialize (Hall (skey q) (in_map skey _ _ (nth_error_In _ _ Ei))).
    apply andb_true_iff in Hall. destruct Hall as [_ H2]. apply negb_true_iff in H2.
    apply prefixb_iff in Hp. congruence.
  - f_equal. exact (IH Hr i j q q' Ei Ej Hp).
Qed.

Lemma okb_all_forall l :
  (fix all (l : list sport) : bool := match l with [] => true | x :: r => port_okb x && all r end) l = true ->
  forallb port_okb l = true.
Proof. induction l as [|x r IH]; intros H; [reflexivity|]. apply andb_true_iff in H. destruct H. cbn [forallb]. rewrite H, IH; auto. Qed.

Lemma forall_all {P : sport -> Prop} l : Forall P l ->
  (fix all (l : list sport) : Prop := match l with [] => True | x :: r => P x /\ all r end) l.
Proof. induction 1; [exact I | split; assumption]. Qed.

(* one port: everything the theorems ask of names *)
Lemma port_okb_ok p : port_okb p = true -> pok p /\ sport_wf p /\ dok p /\ lok p.
Proof.
  induction p as [sg a mt s IHs] using sport_ind2. intros H. destruct s as [l|]; cbn [port_okb] in H.
  - apply andb_true_iff in H. destruct H as [H Hall]. apply andb_true_iff in H. destruct H as [Hsub Htab].
    destruct (sub_okb_ok sg a Hsub) as [-> [cs [-> [Hcs Hgood]]]].
    assert (Hc : Forall dcomp cs) by (eapply Forall_impl; [|exact Hgood]; intros ? [? _]; assumption).
    assert (Hnd : Forall (fun c => nodigits (fst c)) cs) by (eapply Forall_impl; [|exact Hgood]; intros ? [_ [? _]]; assumption).
    assert (Hcw : Forall comp_wf cs) by (eapply Forall_impl; [|exact Hgood]; intros ? [_ [_ ?]]; assumption).
    apply okb_all_forall in Hall. rewrite forallb_forall in Hall.
    assert (HF : Forall (fun q => pok q /\ sport_wf q /\ dok q /\ lok q) l).
    { rewrite Forall_forall in *. intros q Hq. apply IHs; [exact Hq | apply Hall; exact Hq]. }
    assert (Hpok : Forall pok l) by (eapply Forall_impl; [|exact HF]; cbv beta; intros ? [? [? [? ?]]]; assumption).
    pose proof (keys_freeb_ok l Htab) as Hkf.
    split; [|split; [|split]].
    + cbn [pok]. split; [reflexivity|]. exists cs. auto.
    + cbn [sport_wf]. split; [split; [left|]; reflexivity|]. split.
      * exists cs. split; [reflexivity|]. split; assumption.
      * apply forall_all. eapply Forall_impl; [|exact HF]; cbv beta; intros ? [? [? [? ?]]]; assumption.
    + cbn [dok]. split; [reflexivity|]. split; [exists cs; auto|]. split; [apply keys_table_disjoint; assumption|].
      apply forall_all. eapply Forall_impl; [|exact HF]; cbv beta; intros ? [? [? [? ?]]]; assumption.
    + cbn [lok]. split; [reflexivity|]. split; [exists cs; auto|]. split; [apply keys_lookup_disjoint; assumption|].
      apply forall_all. eapply Forall_impl; [|exact HF]; cbv beta; intros ? [? [? [? ?]]]; assumption.
  - unfold leaf_okb in H. apply andb_true_iff in H. destruct H as [H Ha]. apply andb_true_iff in H. destruct H as [H Hl].
    apply andb_true_iff in H. destruct H as [Hs Hf].
    destruct (segs_okb_ok sg Hs) as [Hd [Hp Hw]]. destruct (argsb_ok a Ha) as [Haw Hty].
    assert (Hne : sg <> []) by (destruct sg; [discriminate | discriminate]).
    pose proof (last_not_slashb_ok sg Hne Hl) as Hls.
    split; [|split; [|split]].
    + cbn [pok]. auto.
    + cbn [sport_wf]. auto.
    + cbn [dok]. auto.
    + cbn [lok]. split; [exact Hd|]. split; [exact Hls|].
      destruct sg as [|[[|c s]|n] sg]; try discriminate. cbn [first_okb] in Hf.
      apply negb_true_iff, Z.eqb_neq in Hf. exact Hf.
Qed.

Theorem names_ok_sound root : names_ok root = true ->
  Forall sport_wf root /\ Forall dok root /\ table_disjoint root /\ Forall lok root /\ lookup_disjoint root.
Proof.
  unfold names_ok. intros H. apply andb_true_iff in H. destruct H as [Htab Hall].
  rewrite forallb_forall in Hall.
  assert (HF : Forall (fun q => pok q /\ sport_wf q /\ dok q /\ lok q) root).
  { rewrite Forall_forall. intros q Hq. apply port_okb_ok. apply Hall. exact Hq. }
  assert (Hpok : Forall pok root) by (eapply Forall_impl; [|exact HF]; cbv beta; intros ? [? [? [? ?]]]; assumption).
  pose proof (keys_freeb_ok root Htab) as Hkf.
  split; [eapply Forall_impl; [|exact HF]; cbv beta; intros ? [? [? [? ?]]]; assumption|].
  split; [eapply Forall_impl; [|exact HF]; cbv beta; intros ? [? [? [? ?]]]; assumption|].
  split; [apply keys_table_disjoint; assumption|].
  split; [eapply Forall_impl; [|exact HF]; cbv beta; intros ? [? [? [? ?]]]; assumption|].
  apply keys_lookup_disjoint; assumption.
Qed.

(* ---- the theorems with the decidable hypothesis --------------------------------------------- *)
Theorem walk_dispatchable_names hp tid root id a ty o :
  names_ok root = true -> tree_ok (to_tree hp tid root) ->
  forall out b, walk None (map render_port root) [] = WOk out b ->
  In (id, a) out -> leaf_admits root id ty ->
  let t := to_tree hp tid root in
  rev (log (dispatch t a ty true o)) = chain id t (strip a) ty o (Some [47]) /\
  rev (log (dispatch t a ty false o)) = chain id t (strip a) ty o None /\
  matches (dispatch t a ty true o) = 1 /\
  leaf_count (chain id t (strip a) ty o (Some [47])) = 1 /\
  length (chain id t (strip a) ty o (Some [47])) = length id.
Proof.
  intros H. destruct (names_ok_sound root H) as [Hwf [Hdok [Htd _]]].
  apply walk_dispatchable; assumption.
Qed.

Theorem walk_lookup_names root id a ty :
  names_ok root = true ->
  forall out b, walk None (map render_port root) [] = WOk out b ->
  In (id, a) out -> leaf_admits root id ty ->
  apropos (map render_port root) a = AFound id.
Proof.
  intros H. destruct (names_ok_sound root H) as [Hwf [_ [_ [Hlok Hld]]]].
  apply walk_lookup; assumption.
Qed.

(* non-vacuity: siblings sharing first characters, an enumerated sub-tree, a
   leaf with two enumerations:  { "xa", "xb#2/y#11:i", "c#12/" -> { "xa:T:F", "d" } } *)
Definition ex_names : list sport :=
  [SPort [NameModel.Lit [120; 97]] [] None None;
   SPort [NameModel.Lit [120; 98]; NameModel.Enum 2; NameModel.Lit [47; 121]; NameModel.Enum 11] [58; 105] None None;
   SPort [NameModel.Lit [99]; NameModel.Enum 12; NameModel.Lit [47]] [] None
         (Some [SPort [NameModel.Lit [120; 97]] [58; 84; 58; 70] None None;
                SPort [NameModel.Lit [100]] [] None None])].

Example ex_names_ok :
  names_ok ex_names = true /\
  names_ok [SPort [NameModel.Lit [97]; NameModel.Enum 4; NameModel.Lit [98]] [] None None;
            SPort [NameModel.Lit [97; 48; 49; 98]] [] None None] = false /\        (* a#4b, a01b: digit in literal text *)
  names_ok [SPort [NameModel.Lit [120]] [] None None;
            SPort [NameModel.Lit [120; 121]] [] None None] = false /\              (* x, xy: key prefix *)
  (exists out b, walk None (map render_port ex_names) [] = WOk out b /\ length out = 47%nat /\
                 In ([2%nat; 0%nat], [47; 99; 49; 49; 47; 120; 97]) out) /\
  apropos (map render_port ex_names) [47; 99; 49; 49; 47; 120; 97] = AFound [2%nat; 0%nat].
Proof.
  split; [vm_compute; reflexivity|]. split; [vm_compute; reflexivity|]. split; [vm_compute; reflexivity|].
  split; [|vm_compute; reflexivity].
  eexists. eexists. split; [vm_compute; reflexivity|]. split; [reflexivity|].
  do 45 right. left. reflexivity.
Qed.

(* ---- a multi-component sub-tree name under the macro recursion callback -------------------- *)
(* { "a/b/" -> { "x" } }: the walk reports ([0;0], "/a/b/x"); with SNIP skipping as many
   components as the name has (DispatchModel.snipk) its dispatch reaches the leaf, and the
   name is accepted by names_ok (structured by components: "a/" "b/").  The behaviour
   before the fix is kept in SnipRegress.v. *)
Definition ex_multi : list sport :=
  [SPort [NameModel.Lit [97; 47]; NameModel.Lit [98; 47]] [] None (Some [SPort [NameModel.Lit [120]] [] None None])].

(* "a#3/b#2/c/" -> { "e", "v#2/w#11:i" } *)
Definition ex_multi2 : list sport :=
  [SPort [NameModel.Lit [97]; NameModel.Enum 3; NameModel.Lit [47]; NameModel.Lit [98]; NameModel.Enum 2; NameModel.Lit [47];
          NameModel.Lit [99; 47]] [] None
     (Some [SPort [NameModel.Lit [101]] [] None None;
            SPort [NameModel.Lit [118]; NameModel.Enum 2; NameModel.Lit [47; 119]; NameModel.Enum 11] [58; 105] None None])].

Example multicomponent_macro :
  walk None (map render_port ex_multi) [] = WOk [([0%nat; 0%nat], [47; 97; 47; 98; 47; 120])] [47] /\
  (let d := dispatch (to_tree no_hash_search one_id ex_multi) [47; 97; 47; 98; 47; 120] [] true 0 in
   matches d = 1 /\ leaf_count (log d) = 1 /\ length (log d) = 2%nat) /\
  names_ok ex_multi = true /\ names_ok ex_multi2 = true /\
  (exists out b, walk None (map render_port ex_multi2) [] = WOk out b /\ length out = 138%nat /\
                 In ([0%nat; 1%nat], [47; 97; 50; 47; 98; 49; 47; 99; 47; 118; 49; 47; 119; 49; 48]) out) /\
  apropos (map render_port ex_multi2) [47; 97; 50; 47; 98; 49; 47; 99; 47; 118; 49; 47; 119; 49; 48] = AFound [0%nat; 1%nat].
Proof.
  split; [vm_compute; reflexivity|]. split; [vm_compute; repeat split; reflexivity|].
  split; [vm_compute; reflexivity|]. split; [vm_compute; reflexivity|]. split; [|vm_compute; reflexivity].
  eexists. eexists. split; [vm_compute; reflexivity|]. split; [reflexivity|].
  do 137 right. left. reflexivity.
Qed.
