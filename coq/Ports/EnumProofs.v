(* C09 - enumeration for names WITH '#N': bundle_foreach (leaf names, any
   number of '#') and walk_ports_recurse0 (sub-tree names, components
   "text[#N]/") produce exactly the expansions of the Spec, in order. *)
From Coq Require Import List ZArith Bool Arith Lia.
From RtoscV Require Import Match.PatSpec Match.MatchModel Match.MatchProofs
     Ports.MetaModel Ports.NameModel Ports.PathModel Ports.WalkModel Ports.WalkProofs Ports.DecProofs.
Import ListNotations.
Local Open Scope Z_scope.

Definition flatten (r : list seg) : list Z := concat (map render_seg r).

Definition has_enum (r : list seg) : bool :=
  existsb (fun s => match s with Enum _ => true | Lit _ => false end) r.

Fixpoint count_enum (r : list seg) : nat :=
  match r with
  | [] => O
  | Enum _ :: t => S (count_enum t)
  | Lit _ :: t => count_enum t
  end.

(* literal text: not empty, no '#', no ':'; what follows an enumeration does
   not begin with a digit (it would be read as part of N); 0 <= N *)
Fixpoint segs_wf (l : list seg) : Prop :=
  match l with
  | [] => True
  | Lit s :: r => s <> [] /\ has_char 35 s = false /\ has_char 58 s = false /\ segs_wf r
  | Enum n :: r =>
      0 <= n /\ match r with Lit s :: _ => starts_with_digit s = false | _ => True end /\ segs_wf r
  end.

Definition args_wf (a : list Z) : Prop := (a = [] \/ hd0 a = 58) /\ has_char 35 a = false.

(* ---- small facts --------------------------------------------------------------- *)
Lemma flatten_cons s r : flatten (s :: r) = render_seg s ++ flatten r.
Proof. reflexivity. Qed.

Lemma digits_no_hash ds : digits ds -> has_char 35 ds = false.
Proof.
  induction 1 as [|c t Hc Ht IH]; [reflexivity|]. cbn [has_char]. rewrite IH, orb_false_r.
  apply isdigit_range in Hc. apply Z.eqb_neq. lia.
Qed.

Lemma flatten_hash r : segs_wf r -> has_char 35 (flatten r) = has_enum r.
Proof.
  induction r as [|[s|n] r IH]; intros H; [reflexivity| |].
  - destruct H as [_ [Hs [_ Hr]]]. rewrite flatten_cons. cbn [render_seg has_enum existsb].
    rewrite has_char_app, Hs. cbn [orb]. apply IH. exact Hr.
  - reflexivity.
Qed.

Lemma rest_nondigit r args :
  match r with Lit s :: _ => starts_with_digit s = false | _ => True end ->
  segs_wf r -> args_wf args -> starts_with_digit (flatten r ++ args) = false.
Proof.
  intros H Hr [Ha _]. destruct r as [|[s|n] r].
  - cbn [flatten map concat app]. destruct Ha as [-> | Ha]; [reflexivity|].
    destruct args as [|c a]; [reflexivity|]. cbn [hd0] in Ha. subst c. reflexivity.
  - destruct Hr as [Hne _]. rewrite flatten_cons. cbn [render_seg].
    destruct s as [|c s]; [congruence|]. exact H.
  - reflexivity.
Qed.

Lemma expand_enumfree r : has_enum r = false -> expand r = [flatten r].
Proof.
  induction r as [|[s|n] r IH]; intros H; [reflexivity| |discriminate].
  cbn [has_enum existsb orb] in H. cbn [expand]. rewrite (IH H). reflexivity.
Qed.

Lemma flatten_enumfree_colon r : segs_wf r -> has_enum r = false -> has_char 58 (flatten r) = false.
Proof.
  induction r as [|[s|n] r IH]; intros Hw H; [reflexivity| |discriminate].
  destruct Hw as [_ [_ [Hc Hr]]]. rewrite flatten_cons. cbn [render_seg].
  rewrite has_char_app, Hc. cbn [orb]. apply IH; assumption.
Qed.

Lemma map_flat_map {A B C} (f : B -> C) (g : A -> list B) l :
  map f (flat_map g l) = flat_map (fun x => map f (g x)) l.
Proof. induction l as [|x l IH]; [reflexivity|]. cbn [flat_map]. rewrite map_app, IH. reflexivity. Qed.

Lemma flat_map_map {A B C} (g : B -> list C) (h : A -> B) l :
  flat_map g (map h l) = flat_map (fun x => g (h x)) l.
Proof. induction l as [|x l IH]; [reflexivity|]. cbn [map flat_map]. rewrite IH. reflexivity. Qed.

(* ---- bundle_foreach --------------------------------------------------------------- *)
Lemma split_hash_lit s X : has_char 35 s = false ->
  split_hash (s ++ X) = match split_hash X with Some (l, r) => Some (s ++ l, r) | None => None end.
Proof.
  induction s as [|c s IH]; intros H; cbn [app].
  - destruct (split_hash X) as [[l r]|]; reflexivity.
  - cbn [has_char] in H. apply orb_false_iff in H. destruct H as [Hc Hs].
    cbn [split_hash]. rewrite Hc, (IH Hs). destruct (split_hash X) as [[l r]|]; reflexivity.
Qed.

Lemma bundle_lit fuel s X w : has_char 35 s = false ->
  bundle_addrs fuel (s ++ X) w = bundle_addrs fuel X (w ++ s).
Proof.
  intros H. destruct fuel as [|f]; [reflexivity|]. cbn [bundle_addrs].
  rewrite (split_hash_lit s X H). destruct (split_hash X) as [[l r]|]; [|reflexivity].
  rewrite <- !app_assoc. reflexivity.
Qed.

Lemma bundle_spec r : forall args w fuel,
  segs_wf r -> args_wf args -> has_enum r = true -> (count_enum r < fuel)%nat ->
  bundle_addrs fuel (flatten r ++ args) w = Some (map (app w) (expand r)).
Proof.
  induction r as [|[s|n] r IH]; intros args w fuel Hw Ha He Hf; [discriminate| |].
  - destruct Hw as [_ [Hs [_ Hr]]]. rewrite flatten_cons. cbn [render_seg]. rewrite <- app_assoc.
    rewrite (bundle_lit _ _ _ _ Hs). cbn [has_enum existsb orb] in He. cbn [count_enum] in Hf.
    rewrite (IH args (w ++ s) fuel Hr Ha He Hf). cbn [expand]. rewrite map_map. f_equal.
    apply map_ext. intros a. rewrite app_assoc. reflexivity.
  - destruct Hw as [Hn [Hnext Hr]]. cbn [count_enum] in Hf. destruct fuel as [|f]; [lia|].
    rewrite flatten_cons. cbn [render_seg]. rewrite <- app_assoc. cbn [app].
    set (X := flatten r ++ args).
    assert (HX : starts_with_digit X = false) by (apply rest_nondigit; assumption).
    destruct (atoi_dec n X Hn HX) as [Hat [Hsk _]].
    cbn [bundle_addrs split_hash Z.eqb Pos.eqb]. rewrite Hat, Hsk.
    assert (HhX : has_char 35 X = has_enum r).
    { unfold X. rewrite has_char_app, (flatten_hash r Hr). destruct Ha as [_ ->]. apply orb_false_r. }
    rewrite HhX. cbn [expand]. destruct (has_enum r) eqn:Er.
    + (* more enumerations behind this one *)
      assert (Hloop : forall l,
        (fix each (l : list Z) : option (list (list Z)) :=
           match l with
           | [] => Some []
           | i :: r0 =>
               match bundle_addrs f X ((w ++ []) ++ dec i) with
               | Some a => match each r0 with Some b => Some (a ++ b) | None => None end
               | None => None
               end
           end) l = Some (flat_map (fun i => map (app ((w ++ []) ++ dec i)) (expand r)) l)).
      { induction l as [|i l IHl]; [reflexivity|].
        unfold X at 1. rewrite (IH args _ f Hr Ha eq_refl ltac:(lia)). rewrite IHl. reflexivity. }
      rewrite Hloop. f_equal. rewrite flat_map_map, map_flat_map.
      apply flat_map_ext. intros i. rewrite map_map. apply map_ext. intros a.
      rewrite app_nil_r, app_assoc. reflexivity.
    + f_equal. rewrite (expand_enumfree r Er). rewrite map_map, map_flat_map.
      rewrite flat_map_concat_map. cbn [map].
      rewrite <- (flat_map_concat_map (fun i : nat => [w ++ dec (Z.of_nat i) ++ flatten r])).
      assert (Hup : upto_colon X = flatten r).
      { unfold X. apply upto_colon_name; [apply flatten_enumfree_colon; assumption | apply Ha]. }
      rewrite Hup. clear. induction (seq 0 (Z.to_nat n)) as [|i l IHl]; [reflexivity|].
      cbn [map flat_map app]. rewrite IHl, app_nil_r. reflexivity.
Qed.

(* ---- walk_ports_recurse0 --------------------------------------------------------------- *)
(* a sub-tree name is a sequence of components "text/" or "text#N/" *)
Definition comp := (list Z * option Z)%type.

Definition comp_segs (c : comp) : list seg :=
  match c with
  | (t, None) => [Lit (t ++ [47])]
  | (t, Some n) => [Lit t; Enum n; Lit [47]]
  end.

Definition comps_segs (cs : list comp) : list seg := flat_map comp_segs cs.

Definition comp_wf (c : comp) : Prop :=
  fst c <> [] /\ has_char 35 (fst c) = false /\ has_char 58 (fst c) = false /\
  match snd c with Some n => 0 <= n | None => True end.

Fixpoint count_some (cs : list comp) : nat :=
  match cs with
  | [] => O
  | (_, Some _) :: r => S (count_some r)
  | (_, None) :: r => count_some r
  end.

(* the sub-walk k started on each of a list of buffers, reports concatenated,
   the buffer of the last one left behind *)
Fixpoint run_all (k : list Z -> wres) (ws : list (list Z)) (out : list report) (buf : list Z) : wres :=
  match ws with
  | [] => WOk out buf
  | w :: r => match k w with
              | WOk o b => run_all k r (out ++ o) b
              | WFail => WFail
              end
  end.

Lemma run_all_app k a : forall b out buf,
  run_all k (a ++ b) out buf =
  match run_all k a out buf with WOk o b' => run_all k b o b' | WFail => WFail end.
Proof.
  induction a as [|w a IH]; intros b out buf; [reflexivity|].
  cbn [app run_all]. destruct (k w) as [o b0|]; [apply IH | reflexivity].
Qed.

Lemma run_all_out k ws : forall out buf,
  run_all k ws out buf =
  match run_all k ws [] buf with WOk o b => WOk (out ++ o) b | WFail => WFail end.
Proof.
  induction ws as [|w ws IH]; intros out buf; cbn [run_all]; [rewrite app_nil_r; reflexivity|].
  destruct (k w) as [o b0|]; [|reflexivity].
  rewrite IH. rewrite (IH ([] ++ o)). destruct (run_all k ws [] b0) as [o' b'|]; [|reflexivity].
  cbn [app]. rewrite app_assoc. reflexivity.
Qed.

Lemma split_hash1_lit s X : s <> [] -> has_char 35 s = false ->
  split_hash1 (s ++ X) = match split_hash X with Some (l, r) => Some (s ++ l, r) | None => None end.
Proof.
  intros Hne H. destruct s as [|c s]; [congruence|]. cbn [has_char] in H.
  apply orb_false_iff in H. destruct H as [_ Hs]. cbn [app split_hash1].
  rewrite (split_hash_lit s X Hs). destruct (split_hash X) as [[l r]|]; reflexivity.
Qed.

Lemma split_hash_none_app s a : has_char 35 s = false -> has_char 35 a = false -> split_hash (s ++ a) = None.
Proof. intros Hs Ha. apply split_hash_none. rewrite has_char_app, Hs, Ha. reflexivity. Qed.

Lemma split_hash1_none s : has_char 35 s = false -> split_hash1 s = None.
Proof.
  destruct s as [|c s]; [reflexivity|]. cbn [has_char]. intros H. apply orb_false_iff in H.
  cbn [split_hash1]. rewrite (split_hash_none s (proj2 H)). reflexivity.
Qed.

Lemma flatten_app a b : flatten (a ++ b) = flatten a ++ flatten b.
Proof. unfold flatten. rewrite map_app, concat_app. reflexivity. Qed.

Lemma last_is_slash_end x : last_is_slash (x ++ [47]) = true.
Proof. rewrite last_is_slash_app by discriminate. reflexivity. Qed.

Ltac lst := repeat (rewrite <- app_assoc || (progress (cbn [app]))); reflexivity.

Lemma recurse0_spec cs : forall pre args w fuel k buf,
  Forall comp_wf cs -> has_char 35 pre = false -> has_char 58 pre = false -> args_wf args ->
  (cs = [] -> last_is_slash (w ++ pre) = true) ->
  (count_some cs < fuel)%nat ->
  recurse0 fuel k (pre ++ flatten (comps_segs cs) ++ args) w buf =
  run_all k (map (fun a => w ++ pre ++ a) (expand (comps_segs cs))) [] buf.
Proof.
  induction cs as [|[t [n|]] cs IH]; intros pre args w fuel k buf Hcs Hp Hpc Ha Hlast Hf.
  - (* no component left: the rest of the name is appended, the sub-walk starts *)
    destruct fuel as [|f]; [lia|]. cbn [comps_segs flat_map flatten map concat app expand run_all recurse0].
    destruct Ha as [Ha Hah].
    rewrite split_hash1_none by (rewrite has_char_app, Hp, Hah; reflexivity).
    rewrite (upto_colon_name pre args Hpc Ha). rewrite (Hlast eq_refl). rewrite app_nil_r.
    destruct (k (w ++ pre)); reflexivity.
  - (* "text#N/": every index, then the rest *)
    inversion Hcs as [|? ? Hc Hcs']; subst. destruct Hc as [Hne [Hh [Hc Hn]]]. cbn [fst snd] in *.
    cbn [count_some] in Hf. destruct fuel as [|f]; [lia|].
    cbn [comps_segs flat_map comp_segs]. rewrite flatten_app. cbn [flatten map concat render_seg].
    fold (comps_segs cs). fold (flatten (comps_segs cs)).
    set (Y := flatten (comps_segs cs) ++ args).
    replace (pre ++ ((t ++ (35 :: dec n) ++ [47] ++ []) ++ flatten (comps_segs cs)) ++ args)
      with ((pre ++ t) ++ 35 :: dec n ++ 47 :: Y)
      by (unfold Y; lst).
    cbn [recurse0].
    rewrite split_hash1_lit;
      [| intros E; apply app_eq_nil in E; destruct E; contradiction
       | rewrite has_char_app, Hp, Hh; reflexivity].
    cbn [split_hash Z.eqb Pos.eqb]. rewrite app_nil_r.
    replace (has_char 58 (pre ++ t)) with false by (rewrite has_char_app, Hpc, Hc; reflexivity).
    destruct (atoi_dec n (47 :: Y) Hn eq_refl) as [Hat [Hsk _]]. rewrite Hat, Hsk.
    cbn [Z.eqb Pos.eqb].
    (* the loop over the indices *)
    assert (Hloop : forall l out cur,
      (fix each (l : list nat) (out : list report) (buf0 : list Z) {struct l} : wres :=
         match l with
         | [] => WOk out buf0
         | i :: r =>
             match recurse0 f k Y (w ++ (pre ++ t) ++ dec (Z.of_nat i) ++ [47]) buf0 with
             | WOk o b => each r (out ++ o) b
             | WFail => WFail
             end
         end) l out cur
      = run_all k (flat_map (fun i => map (fun a => (w ++ (pre ++ t) ++ dec (Z.of_nat i) ++ [47]) ++ [] ++ a)
                                         (expand (comps_segs cs))) l) out cur).
    { induction l as [|i l IHl]; intros out cur; [reflexivity|].
      change Y with ([] ++ Y). unfold Y.
      rewrite (IH [] args _ f k cur Hcs' eq_refl eq_refl Ha);
        [| intros _; rewrite app_nil_r, !app_assoc; apply last_is_slash_end | lia].
      cbn [flat_map]. rewrite run_all_app. rewrite (run_all_out k _ out cur).
      destruct (run_all k _ [] cur) as [o b|]; [|reflexivity]. apply IHl. }
    rewrite Hloop. f_equal.
    cbn [app expand]. rewrite !map_flat_map.
    apply flat_map_ext. intros i. rewrite !map_map. apply map_ext. intros a. lst.
  - (* "text/": absorbed into the literal prefix *)
    inversion Hcs as [|? ? Hc Hcs']; subst. destruct Hc as [Hne [Hh [Hc _]]]. cbn [fst snd] in *.
    cbn [count_some] in Hf.
    cbn [comps_segs flat_map comp_segs]. rewrite flatten_app. cbn [flatten map concat render_seg].
    fold (comps_segs cs). fold (flatten (comps_segs cs)).
    replace (pre ++ (((t ++ [47]) ++ []) ++ flatten (comps_segs cs)) ++ args)
      with ((pre ++ t ++ [47]) ++ flatten (comps_segs cs) ++ args)
      by lst.
    rewrite (IH (pre ++ t ++ [47]) args w fuel k buf Hcs');
      [| rewrite !has_char_app, Hp, Hh; reflexivity
       | rewrite !has_char_app, Hpc, Hc; reflexivity
       | exact Ha
       | intros _; rewrite !app_assoc; apply last_is_slash_end
       | exact Hf].
    f_equal. cbn [expand app]. rewrite map_map. apply map_ext. intros a.
    rewrite <- !app_assoc. reflexivity.
Qed.

(* ---- the tree --------------------------------------------------------------------------- *)
(* well-formed structured trees: leaf names any sequence of literal / '#N'
   segments; sub-tree names sequences of components "text/" / "text#N/" *)
Fixpoint sport_wf (p : sport) : Prop :=
  match p with
  | SPort sg a m s =>
      args_wf a /\
      match s with
      | None => segs_wf sg
      | Some l =>
          (exists cs, sg = comps_segs cs /\ Forall comp_wf cs /\ cs <> []) /\
          (fix all (l : list sport) : Prop :=
             match l with [] => True | x :: r => sport_wf x /\ all r end) l
      end
  end.

Lemma wf_all_forall l :
  (fix all (l : list sport) : Prop := match l with [] => True | x :: r => sport_wf x /\ all r end) l ->
  Forall sport_wf l.
Proof. induction l as [|x r IH]; intros H; [constructor|]. destruct H as [Hx Hr]. constructor; [exact Hx | apply IH; exact Hr]. Qed.

Lemma count_enum_le r : (count_enum r <= length (flatten r))%nat.
Proof.
  induction r as [|[s|n] r IH]; [cbn; lia| |]; rewrite flatten_cons, app_length; cbn [count_enum render_seg length]; lia.
Qed.

Lemma count_some_le cs : (count_some cs <= length (flatten (comps_segs cs)))%nat.
Proof.
  induction cs as [|[t [n|]] cs IH]; [cbn; lia| |];
    cbn [comps_segs flat_map comp_segs]; rewrite flatten_app, app_length; cbn [count_some];
    fold (comps_segs cs); [|lia].
  cbn [flatten map concat render_seg]. rewrite !app_length. cbn [length]. lia.
Qed.

Lemma last_nonempty {A} (l : list A) : forall x d d', last (x :: l) d = last (x :: l) d'.
Proof. induction l as [|y l IH]; intros x d d'; [reflexivity|]. cbn [last] in *. apply IH. Qed.

Lemma run_all_const k (g : list Z -> list report) ws : forall out buf,
  (forall w, In w ws -> k w = WOk (g w) w) ->
  run_all k ws out buf = WOk (out ++ flat_map g ws) (last ws buf).
Proof.
  induction ws as [|w ws IH]; intros out buf H; cbn [run_all flat_map last].
  - rewrite app_nil_r. reflexivity.
  - rewrite (H w (or_introl eq_refl)). rewrite IH by (intros x Hx; apply H; right; exact Hx).
    rewrite app_assoc. f_equal. destruct ws as [|w' ws']; [reflexivity|]. apply last_nonempty.
Qed.

Lemma last_extends {A} (buf : list A) xs :
  exists x, last (map (fun a => buf ++ a) xs) buf = buf ++ x.
Proof.
  induction xs as [|a xs IH]; [exists []; cbn; rewrite app_nil_r; reflexivity|].
  cbn [map last]. destruct xs as [|b xs]; [exists a; reflexivity|]. exact IH.
Qed.

Theorem walk_enumerates_wf p : forall ids buf sg a m l,
  p = SPort sg a m (Some l) -> Forall sport_wf l -> buf <> [] ->
  walk_port None ids (render_port p) buf = WOk (spec_table ids buf l 0%nat) buf.
Proof.
  induction p as [sg0 a0 m0 s0 IHs] using sport_ind2.
  intros ids buf sg a m l E Hl Hb. inversion E; subst. clear E.
  cbn [render_port walk_port]. rewrite (norm_nonempty buf Hb).
  assert (Hloop : forall l' i out0,
            Forall sport_wf l' ->
            Forall (fun q => forall ids buf sg a m l, q = SPort sg a m (Some l) -> Forall sport_wf l -> buf <> [] ->
                       walk_port None ids (render_port q) buf = WOk (spec_table ids buf l 0%nat) buf) l' ->
            loop_ports (fun q ids' b => walk_port None ids' q b) None ids (length buf)
                       (map render_port l') i out0 buf
            = WOk (out0 ++ spec_table ids buf l' i) buf).
  { induction l' as [|q r IHr]; intros i out0 Hpl HIH.
    - cbn [map loop_ports spec_table]. rewrite app_nil_r. reflexivity.
    - inversion Hpl as [|? ? Hq Hr]; subst. inversion HIH as [|? ? HIq HIr]; subst.
      cbn [map loop_ports spec_table].
      destruct q as [sg1 a1 m1 s1]. cbn [sport_wf] in Hq. destruct Hq as [Ha Hq].
      destruct s1 as [l1|].
      + (* a sub-tree: walk_ports_recurse0 over its components *)
        destruct Hq as [[cs [-> [Hcs Hne]]] Hsub].
        cbn [render_port]. unfold step_port.
        change (render_name (comps_segs cs) a1) with ([] ++ flatten (comps_segs cs) ++ a1).
        rewrite (recurse0_spec cs [] a1 buf _ _ buf Hcs eq_refl eq_refl Ha);
          [| intros E0; contradiction
           | pose proof (count_some_le cs); cbn [app]; rewrite app_length; lia].
        set (ws := map (fun a : list Z => buf ++ [] ++ a) (expand (comps_segs cs))).
        rewrite (run_all_const _ (fun b => spec_table (ids ++ [i]) b l1 0%nat) ws).
        * destruct (last_extends buf (expand (comps_segs cs))) as [x Hx].
          cbn [app] in ws. unfold ws. rewrite Hx.
          replace (length (buf ++ x) <? length buf)%nat with false
            by (symmetry; apply Nat.ltb_ge; rewrite app_length; lia).
          rewrite firstn_app_exact. rewrite IHr by assumption.
          rewrite <- app_assoc. f_equal. f_equal. cbn [app].
          rewrite spec_addrs_subtree. rewrite flat_map_map. reflexivity.
        * intros w Hw. unfold ws in Hw. apply in_map_iff in Hw. destruct Hw as [x [<- _]].
          cbn [app].
          change (Port ([] ++ flatten (comps_segs cs) ++ a1) m1 (Some (map render_port l1)))
            with (render_port (SPort (comps_segs cs) a1 m1 (Some l1))).
          apply (HIq (ids ++ [i]) (buf ++ x) (comps_segs cs) a1 m1 l1 eq_refl (wf_all_forall _ Hsub)).
          intros E0. apply app_eq_nil in E0. destruct E0. contradiction.
      + (* a leaf *)
        cbn [render_port]. unfold step_port.
        assert (Hh : has_char 35 (render_name sg1 a1) = has_enum sg1).
        { unfold render_name. fold (flatten sg1). rewrite has_char_app, (flatten_hash sg1 Hq).
          destruct Ha as [_ ->]. apply orb_false_r. }
        rewrite Hh. destruct (has_enum sg1) eqn:Ee.
        * unfold render_name at 2. fold (flatten sg1).
          rewrite (bundle_spec sg1 a1 buf _ Hq Ha Ee)
            by (pose proof (count_enum_le sg1); unfold render_name; fold (flatten sg1); rewrite app_length; lia).
          rewrite Nat.ltb_irrefl, firstn_all. rewrite IHr by assumption.
          rewrite <- app_assoc. f_equal. f_equal. cbn [spec_addrs_port]. rewrite map_map. reflexivity.
        * assert (Hup : upto_colon (render_name sg1 a1) = flatten sg1).
          { unfold render_name. fold (flatten sg1). apply upto_colon_name; [apply flatten_enumfree_colon; assumption | apply Ha]. }
          rewrite Hup.
          replace (length (buf ++ flatten sg1) <? length buf)%nat with false
            by (symmetry; apply Nat.ltb_ge; rewrite app_length; lia).
          rewrite firstn_app_exact. rewrite IHr by assumption.
          rewrite <- app_assoc. f_equal.
          cbn [spec_addrs_port]. rewrite (expand_enumfree sg1 Ee). reflexivity. }
  specialize (Hloop l 0%nat [] Hl). cbn [app] in Hloop. apply Hloop.
  eapply Forall_impl; [|exact IHs]. intros q Hq. exact Hq.
Qed.

Theorem walk_enumerates root :
  Forall sport_wf root ->
  walk None (map render_port root) [] = WOk (spec_addrs root) [47].
Proof.
  intros H. unfold walk. rewrite walk_port_empty_buf.
  change (Port [] None (Some (map render_port root)))
    with (render_port (SPort [] [] None (Some root))).
  rewrite (walk_enumerates_wf _ [] [47] [] [] None root eq_refl H) by discriminate.
  f_equal. unfold spec_addrs. rewrite spec_addrs_subtree.
  cbn [expand map flat_map app]. rewrite app_nil_r. reflexivity.
Qed.

(* ---- pruning, for enumerated and multi-component sub-tree names ----------------------- *)
Definition pruned (rt : option oracle) (b : list Z) : bool :=
  match rt with Some o => o_null o b || o_disabled o b | None => false end.

Theorem step_port_subtree walk_sub rt ids i cs a m qs buf :
  Forall comp_wf cs -> cs <> [] -> args_wf a ->
  let q := Port (flatten (comps_segs cs) ++ a) m (Some qs) in
  step_port walk_sub rt ids i q buf =
  run_all (fun b => if pruned rt b then WOk (skipped_reports rt ids i q b) b else walk_sub q (ids ++ [i]) b)
          (map (fun x => buf ++ x) (expand (comps_segs cs))) [] buf.
Proof.
  intros Hcs Hne Ha q. unfold q, step_port.
  change (flatten (comps_segs cs) ++ a) with ([] ++ flatten (comps_segs cs) ++ a) at 2.
  rewrite (recurse0_spec cs [] a buf _ _ buf Hcs eq_refl eq_refl Ha);
    [| intros E0; contradiction
     | pose proof (count_some_le cs); rewrite app_length; lia].
  reflexivity.
Qed.

(* non-vacuity: "a#3/b#2/c/" -> { "e", "v#2/w#11:i" } in component form *)
Definition ex_wf : list sport :=
  [SPort (comps_segs [([97], Some 3); ([98], Some 2); ([99], None)]) [] None
         (Some [SPort [Lit [101]] [] None None;
                SPort [Lit [118]; Enum 2; Lit [47;119]; Enum 11] [58;105] None None])].

Example ex_wf_ok : Forall sport_wf ex_wf /\ length (spec_addrs ex_wf) = 138%nat /\
  map pname (map render_port ex_wf) = [[97;35;51;47;98;35;50;47;99;47]].
Proof.
  split; [|split; reflexivity].
  constructor; [|constructor]. cbn [sport_wf ex_wf].
  split; [split; [left|]; reflexivity|]. split.
  - eexists. split; [reflexivity|]. split; [|discriminate].
    repeat (apply Forall_cons; [repeat split; try discriminate; try reflexivity; cbn; lia|]). apply Forall_nil.
  - split; [|split; [|exact I]].
    + split; [split; [left|]; reflexivity|]. cbn. repeat split; discriminate.
    + split; [split; [right|]; reflexivity|]. cbn. repeat split; try discriminate; try reflexivity; lia.
Qed.
