(* C14 - the undo event of a parameter port replays through the port:
   it carries the port's address and both values with the port's own argument
   type, so the set-messages an undo history builds from it ("<loc> ,<t> old",
   "<loc> ,<t> new") are accepted by the same port and store exactly the old
   resp. the new value.  Also the two callbacks added with C15 stage 3
   (rCOptionCb, rArrayTCbMember). *)
From Coq Require Import List ZArith Bool Lia.
From RtoscV Require Import Ports.SugarModel Ports.SugarProofs.
Import ListNotations.
Local Open Scope Z_scope.

(* ---- what a set_spec result says about the events among the outputs ---- *)
Lemma set_spec_event : forall key mka mkb mn mx loc old v st o l a b,
  @set_spec Z key mka mkb mn mx loc old v (st, o) ->
  In (Reply (mk undo_path [As l; a; b])) o ->
  l = loc /\ a = mka old /\ b = mka st.
Proof.
  intros key mka mkb mn mx loc old v st o l a b (S1 & S2 & _) Hin. cbn [fst snd] in S1, S2.
  assert (Hu : In (Reply (mk undo_path [As l; a; b])) (undo_events o)).
  { unfold undo_events. apply filter_In. split; [exact Hin|]. reflexivity. }
  rewrite S2 in Hu. rewrite <- S1 in Hu.
  destruct (key old =? key st); [destruct Hu|].
  destruct Hu as [Hu|[]]. inversion Hu. repeat split; reflexivity.
Qed.

Lemma query_no_event : forall loc x l a b,
  ~ In (Reply (mk undo_path [As l; a; b])) [Reply (mk loc [x])].
Proof. intros loc x l a b [H|[]]. inversion H. Qed.

(* ---- the conforming set messages as numeric_set instances ---- *)
Lemma conf_numeric : forall k e cb loc old a,
  elem_cb k = Some cb -> env_ok e k -> val_ok k old -> (k = KAI -> char_range old) -> conforming e k [a] ->
  (exists mkb v, arg_val a = Some v /\
     numeric_set e loc old (kind_key k) (event_arg k) mkb v (cb e loc old [a])) \/
  (exists s i, a = ASy s /\ symbol_index (p_map e) s = Some i /\ cb = rOptionCb /\ event_arg k = Ai).
Proof.
  intros k e cb loc old a Hcb Henv Hold Hch Hc.
  inversion Hc; subst; inversion Hcb; subst cb; cbn [kind_key event_arg].
  - left. destruct Henv. eexists _, _. split; [reflexivity|]. apply NS_param; assumption.
  - left. eexists _, _. split; [reflexivity|]. apply NS_paramI.
  - left. destruct Henv. eexists _, _. split; [reflexivity|]. apply NS_paramF; assumption.
  - left. eexists _, _. split; [reflexivity|]. apply NS_option_i.
  - left. eexists _, _. split; [reflexivity|]. apply NS_option_c.
  - right. eexists _, _. repeat split; try eassumption; reflexivity.
  - left. destruct Henv. eexists _, _. split; [reflexivity|]. apply NS_arrayI; try assumption. exact (Hch eq_refl).
  - left. destruct Henv. eexists _, _. split; [reflexivity|]. apply NS_paramF; assumption.
  - left. eexists _, _. split; [reflexivity|]. apply NS_option_i.
  - left. eexists _, _. split; [reflexivity|]. apply NS_option_c.
  - right. eexists _, _. repeat split; try eassumption; reflexivity.
Qed.

(* the stored value of a char-backed kind is a char *)
Lemma rLIMIT_pick : forall mn mx v,
  let r := rLIMIT Z.ltb mn mx v in r = v \/ mn = Some r \/ mx = Some r.
Proof.
  intros mn mx v. unfold rLIMIT.
  destruct mn as [lo|]; destruct mx as [hi|]; cbn zeta;
    repeat match goal with |- context [if ?c then _ else _] => destruct c end; auto.
Qed.

Lemma char_stored : forall k e cb loc old args st o,
  (k = KP \/ k = KAI) -> elem_cb k = Some cb -> char_range old ->
  cb e loc old args = Some (st, o) -> char_range st.
Proof.
  intros k e cb loc old args st o Hk Hcb Hold H.
  assert (G : forall v, char_range (rLIMIT Z.ltb (option_map wrap8 (p_min e)) (option_map wrap8 (p_max e)) (wrap8 v))).
  { intro v. destruct (rLIMIT_pick (option_map wrap8 (p_min e)) (option_map wrap8 (p_max e)) (wrap8 v)) as [E|[E|E]].
    - rewrite E. apply wrap8_range.
    - destruct (p_min e); cbn in E; [|discriminate]. inversion E as [E']. rewrite <- E' at 1. apply wrap8_range.
    - destruct (p_max e); cbn in E; [|discriminate]. inversion E as [E']. rewrite <- E' at 1. apply wrap8_range. }
  destruct Hk; subst k; inversion Hcb; subst cb.
  - unfold rParamCb in H. destruct args as [|a r]; [inversion H; subst; exact Hold|].
    destruct (arg_i a); [|discriminate]. unfold limit_apply_bcast in H. inversion H; subst. apply G.
  - unfold rArrayICb_elem in H. destruct args as [|a r]; [inversion H; subst; exact Hold|].
    destruct (arg_i a); [|discriminate]. unfold limit_apply_bcast in H. inversion H; subst. apply G.
Qed.

(* ---- element callbacks: the event of a set, and what a replayed value does ---- *)
Lemma conforming_shape : forall e k args, conforming e k args -> args = [] \/ exists a, args = [a].
Proof. intros e k args H. inversion H; subst; [left; reflexivity| right; eexists; reflexivity ..]. Qed.

Lemma elem_event : forall k e cb loc old args st o,
  elem_cb k = Some cb -> env_ok e k ->
  bounds_ordered (kind_key k) (p_min e) (p_max e) -> map_in_range e ->
  conforming e k args -> stable e k old -> cb e loc old args = Some (st, o) ->
  stable e k st /\
  forall l a b, In (Reply (mk undo_path [As l; a; b])) o ->
    l = loc /\ a = event_arg k old /\ b = event_arg k st.
Proof.
  intros k e cb loc old args st o Hcb Henv Hord Hmap Hc (Hv & Hin & Hch) H.
  split.
  - destruct (elem_inv k e cb loc old args st o Hcb Henv Hord Hmap Hc Hv Hin H) as [V R].
    split; [exact V|]. split; [exact R|].
    destruct k; try exact I.
    + exact (char_stored KP e cb loc old args st o (or_introl eq_refl) Hcb Hch H).
    + exact (char_stored KAI e cb loc old args st o (or_intror eq_refl) Hcb Hch H).
  - intros l a b Hi.
    assert (HchA : k = KAI -> char_range old) by (intro EkA; subst k; exact Hch).
    destruct (conforming_shape e k args Hc) as [E|[x E]]; subst args.
    + exfalso.
      destruct k; inversion Hcb; subst cb; cbn in H; inversion H; subst;
        exact (query_no_event _ _ _ _ _ Hi).
    + destruct (conf_numeric k e cb loc old x Hcb Henv Hv HchA Hc) as [(mkb & v & _ & NS)|(s & i & Ex & Hs & Ecb & Ek)].
      * destruct (numeric_set_spec _ _ _ _ _ _ _ _ NS) as (res & Er & SP).
        rewrite H in Er. inversion Er; subst res.
        exact (set_spec_event _ _ _ _ _ _ _ _ _ _ _ _ _ SP Hi).
      * subst x cb.
        destruct (rOptionCb_set_symbol e loc old s i Hs) as (res & Er & SP).
        rewrite H in Er. inversion Er; subst res.
        destruct (set_spec_event _ _ _ _ _ _ _ _ _ _ _ _ _ SP Hi) as (A & B & C).
        rewrite Ek. repeat split; assumption.
Qed.

Lemma arg_val_event_arg : forall k v, arg_val (event_arg k v) = Some v.
Proof. intros k v. destruct k; reflexivity. Qed.

Lemma cb_cur_char : forall k e cb loc cur args,
  elem_cb k = Some cb -> args <> [] -> val_ok k cur ->
  exists cur', (k = KAI -> char_range cur') /\ val_ok k cur' /\
    forall st o, cb e loc cur' args = Some (st, o) -> exists o', cb e loc cur args = Some (st, o').
Proof.
  intros k e cb loc cur args Hcb Hne Hv.
  destruct k; try discriminate; inversion Hcb; subst cb;
    try (exists cur; split; [intro Ek; discriminate Ek|split; [exact Hv|intros st o E; exists o; exact E]]).
  exists 0. split; [intros _; exact char_range_0|]. split; [exact I|].
  intros st o E. exact (rArrayICb_elem_stored e loc 0 cur args st o E Hne).
Qed.

Lemma elem_replay : forall k e cb loc cur v,
  elem_cb k = Some cb -> env_ok e k -> val_ok k cur -> stable e k v ->
  in_spec k [event_arg k v] = true /\ conforming e k [event_arg k v] /\
  exists o, cb e loc cur [event_arg k v] = Some (v, o).
Proof.
  intros k e cb loc cur v Hcb Henv Hcur (Hv & Hin & Hch).
  assert (Hc : conforming e k [event_arg k v]).
  { destruct k; inversion Hcb; cbn [event_arg]; constructor; assumption. }
  split; [destruct k; inversion Hcb; reflexivity|]. split; [exact Hc|].
  (* what is stored does not depend on the previous content: for rArrayICb argue
     about a previous content inside the char range *)
  destruct (cb_cur_char k e cb loc cur [event_arg k v] Hcb ltac:(discriminate) Hcur)
    as (cur' & HchA & Hcur' & Back).
  destruct (conf_numeric k e cb loc cur' _ Hcb Henv Hcur' HchA Hc) as [(mkb & v0 & Ev & NS)|(s & i & Ex & _)].
  - rewrite arg_val_event_arg in Ev. inversion Ev; subst v0.
    destruct (numeric_clamp _ _ _ _ _ _ _ _ NS) as (o & E).
    rewrite (clampK_inside Z (kind_key k) _ _ v Hin) in E.
    destruct (Back _ _ E) as (o' & E'). exists o'. exact E'.
  - destruct k; discriminate.
Qed.

(* ---- rCOptionCb: with a setter that stores what it is given, rOptionCb on getcode ---- *)
Lemma rCOptionCb_as_option : forall S (get : S -> Z) (set : S -> Z -> S),
  (forall s v, get (set s v) = v) ->
  forall e loc s args,
    rCOptionCb_ get set e loc s args =
    match rOptionCb e loc (get s) args with
    | Some (v, o) => Some (match args with [] => s | _ => set s v end, o)
    | None => None
    end.
Proof.
  intros S get set Hlaw e loc s args.
  unfold rCOptionCb_, rOptionCb, limit_apply_bcast.
  destruct args as [|a [|b r]]; [reflexivity| |destruct a; reflexivity].
  destruct a; cbn [arg_i]; rewrite ?Hlaw; reflexivity.
Qed.

Lemma co_law : forall s v, co_get (co_set s v) = v.
Proof. intros [x n] v. reflexivity. Qed.

Lemma counted_as_option : forall e loc v n args,
  rCOptionCb_counted e loc [v; n] args =
  match rOptionCb e loc v args with
  | Some (v', o) => Some ([v'; match args with [] => n | _ => n + 1 end], o)
  | None => None
  end.
Proof.
  intros e loc v n args. unfold rCOptionCb_counted.
  rewrite (rCOptionCb_as_option _ co_get co_set co_law). cbn [co_get fst].
  destruct args as [|a r]; [reflexivity|].
  destruct (rOptionCb e loc v (a :: r)) as [[v' o]|]; reflexivity.
Qed.

(* ---- lifting to [step] ---- *)
Lemma upd_upd : forall A (l : list A) n v w, upd (upd l n v) n w = upd l n w.
Proof.
  intros A l. induction l as [|x r IH]; intros n v w; [destruct n; reflexivity|].
  destruct n; cbn; [reflexivity|]. rewrite IH. reflexivity.
Qed.

(* what [C14_undo_event_replays] says of one step *)
Definition replays (k : kind) (e : penv) (loc m : str) (st st' : list Z) (outs : list out) : Prop :=
  forall l a b, In (Reply (mk undo_path [As l; a; b])) outs ->
    l = loc /\ (exists old new, a = event_arg k old /\ b = event_arg k new) /\
    in_spec k [a] = true /\ in_spec k [b] = true /\
    (exists st1 o1, step k e loc m st' [a] = Some (st1, o1) /\ values k st1 = values k st) /\
    (exists st2 o2, step k e loc m st [b] = Some (st2, o2) /\ values k st2 = values k st') /\
    (exists st3 o3, step k e loc m st' [b] = Some (st3, o3) /\ values k st3 = values k st').

Section Lift.
  Variables (k : kind) (e : penv) (loc m : str)
            (cb : penv -> str -> Z -> list arg -> option (Z * list out)).
  Hypothesis Hcb : elem_cb k = Some cb.
  Hypothesis Henv : env_ok e k.
  Hypothesis Hord : bounds_ordered (kind_key k) (p_min e) (p_max e).
  Hypothesis Hmap : map_in_range e.
  Hypothesis Hval : forall st, values k st = st.

  Lemma lift_scalar : forall st args st' outs,
    (forall s a, step k e loc m s a = scalar s (fun v => cb e loc v a)) ->
    conforming e k args -> Forall (stable e k) st ->
    step k e loc m st args = Some (st', outs) ->
    Forall (stable e k) st' /\ replays k e loc m st st' outs.
  Proof.
    intros st args st' outs Hstep Hc Hst H. rewrite Hstep in H. unfold scalar in H.
    destruct st as [|old [|w r]]; try discriminate.
    destruct (cb e loc old args) as [[v' o']|] eqn:E; [|discriminate]. inversion H; subst st' outs.
    inversion Hst as [|? ? Hold _]; subst.
    destruct (elem_event k e cb loc old args v' o' Hcb Henv Hord Hmap Hc Hold E) as [Hnew Hev].
    split; [constructor; [exact Hnew|constructor]|].
    intros l a b Hi. destruct (Hev l a b Hi) as (El & Ea & Eb). subst l a b.
    destruct Hold as (Vo & Ro & Co). destruct Hnew as (Vn & Rn & Cn).
    destruct (elem_replay k e cb loc v' old Hcb Henv Vn (conj Vo (conj Ro Co))) as (I1 & _ & o1 & R1).
    destruct (elem_replay k e cb loc old v' Hcb Henv Vo (conj Vn (conj Rn Cn))) as (I2 & _ & o2 & R2).
    destruct (elem_replay k e cb loc v' v' Hcb Henv Vn (conj Vn (conj Rn Cn))) as (_ & _ & o3 & R3).
    split; [reflexivity|]. split; [eexists _, _; split; reflexivity|].
    split; [exact I1|]. split; [exact I2|].
    rewrite !Hstep. unfold scalar. rewrite R1, R2, R3.
    repeat split; eexists _, _; (split; [reflexivity|]); rewrite !Hval; reflexivity.
  Qed.

  Lemma lift_array : forall st args st' outs,
    (forall s a, step k e loc m s a = at_idx s (boils_idx e m) (fun cur => cb e loc cur a)) ->
    conforming e k args -> Forall (stable e k) st ->
    step k e loc m st args = Some (st', outs) ->
    Forall (stable e k) st' /\ replays k e loc m st st' outs.
  Proof.
    intros st args st' outs Hstep Hc Hst H. rewrite Hstep in H. unfold at_idx in H.
    set (i := Z.to_nat (boils_idx e m)) in *.
    destruct (nth_error st i) as [old|] eqn:En; [|discriminate].
    destruct (cb e loc old args) as [[v' o']|] eqn:E; [|discriminate]. inversion H; subst st' outs.
    pose proof (Forall_nth_error _ _ _ _ _ Hst En) as Hold.
    destruct (elem_event k e cb loc old args v' o' Hcb Henv Hord Hmap Hc Hold E) as [Hnew Hev].
    split; [apply Forall_upd; assumption|].
    intros l a b Hi. destruct (Hev l a b Hi) as (El & Ea & Eb). subst l a b.
    destruct Hold as (Vo & Ro & Co). destruct Hnew as (Vn & Rn & Cn).
    destruct (elem_replay k e cb loc v' old Hcb Henv Vn (conj Vo (conj Ro Co))) as (I1 & _ & o1 & R1).
    destruct (elem_replay k e cb loc old v' Hcb Henv Vo (conj Vn (conj Rn Cn))) as (I2 & _ & o2 & R2).
    destruct (elem_replay k e cb loc v' v' Hcb Henv Vn (conj Vn (conj Rn Cn))) as (_ & _ & o3 & R3).
    assert (Hlt : (i < length st)%nat) by (apply nth_error_Some; rewrite En; discriminate).
    split; [reflexivity|]. split; [eexists _, _; split; reflexivity|].
    split; [exact I1|]. split; [exact I2|].
    rewrite !Hstep. unfold at_idx. fold i.
    rewrite (nth_error_upd_same _ st i v' Hlt), En, R1, R2, R3.
    repeat split; eexists _, _; (split; [reflexivity|]); rewrite !Hval.
    - rewrite upd_upd. apply upd_same. exact En.
    - reflexivity.
    - rewrite upd_upd. reflexivity.
  Qed.
End Lift.

Lemma step_event_replays : forall k e loc m st args st' outs,
  undo_kind k -> env_ok e k ->
  bounds_ordered (kind_key k) (p_min e) (p_max e) -> map_in_range e ->
  conf e k args -> stored_stable e k st ->
  step k e loc m st args = Some (st', outs) ->
  stored_stable e k st' /\ replays k e loc m st st' outs.
Proof.
  intros k e loc m st args st' outs Hk Henv Hord Hmap Hc Hst H.
  destruct Hk as [[Hk|[Hk|[Hk|[Hk|[Hk|[Hk|Hk]]]]]]|Hk]; subst k.
  - apply (lift_scalar KP e loc m rParamCb eq_refl Henv Hord Hmap (fun _ => eq_refl) st args);
      [intros; reflexivity|assumption..].
  - apply (lift_scalar KI e loc m rParamICb eq_refl Henv Hord Hmap (fun _ => eq_refl) st args);
      [intros; reflexivity|assumption..].
  - apply (lift_scalar KF e loc m rParamFCb eq_refl Henv Hord Hmap (fun _ => eq_refl) st args);
      [intros; reflexivity|assumption..].
  - apply (lift_scalar KO e loc m rOptionCb eq_refl Henv Hord Hmap (fun _ => eq_refl) st args);
      [intros; reflexivity|assumption..].
  - apply (lift_array KAI e loc m rArrayICb_elem eq_refl Henv Hord Hmap (fun _ => eq_refl) st args);
      [intros; reflexivity|assumption..].
  - apply (lift_array KAF e loc m rParamFCb eq_refl Henv Hord Hmap (fun _ => eq_refl) st args);
      [intros; reflexivity|assumption..].
  - apply (lift_array KAO e loc m rOptionCb eq_refl Henv Hord Hmap (fun _ => eq_refl) st args);
      [intros; reflexivity|assumption..].
  - (* rCOptionCb with the counted setter *)
    destruct Hst as (v & n & Est & Hold). subst st.
    cbn [step] in H. rewrite counted_as_option in H.
    destruct (rOptionCb e loc v args) as [[v' o']|] eqn:E; [|discriminate]. inversion H; subst st' outs.
    change (stable e KO v) in Hold. change (conforming e KO args) in Hc.
    destruct (elem_event KO e rOptionCb loc v args v' o' eq_refl I Hord Hmap Hc Hold E) as [Hnew Hev].
    split; [eexists _, _; split; [reflexivity|exact Hnew]|].
    intros l a b Hi. destruct (Hev l a b Hi) as (El & Ea & Eb). subst l a b.
    destruct Hold as (Vo & Ro & Co). destruct Hnew as (Vn & Rn & Cn).
    destruct (elem_replay KO e rOptionCb loc v' v eq_refl I Vn (conj Vo (conj Ro Co))) as (_ & _ & o1 & R1).
    destruct (elem_replay KO e rOptionCb loc v v' eq_refl I Vo (conj Vn (conj Rn Cn))) as (_ & _ & o2 & R2).
    destruct (elem_replay KO e rOptionCb loc v' v' eq_refl I Vn (conj Vn (conj Rn Cn))) as (_ & _ & o3 & R3).
    cbn [event_arg] in *.
    split; [reflexivity|]. split; [eexists _, _; split; reflexivity|].
    split; [reflexivity|]. split; [reflexivity|].
    cbn [step]. rewrite !counted_as_option, R1, R2, R3.
    repeat split; eexists _, _; (split; [reflexivity|]); reflexivity.
Qed.

(* with a setter that does not store what it is given the event's new value is
   not the value the port holds afterwards: the law of rCOptionCb_as_option is
   needed (setcode = "keep the low two bits") *)
Lemma coption_needs_storing_setter :
  exists (get : Z -> Z) (set : Z -> Z -> Z) e loc s s' o,
    rCOptionCb_ get set e loc s [Ai 7] = Some (s', o) /\ get s' = 3 /\
    undo_events o = [Reply (mk undo_path [As loc; Ai 0; Ai 7])].
Proof.
  exists (fun s => s), (fun _ v => v mod 4),
         {| p_name := [111]; p_hash := false; p_min := None; p_max := None; p_map := [] |}, [47; 111], 0.
  eexists _, _. split; [reflexivity|]. split; reflexivity.
Qed.

(* ---- rArrayTCbMember: the toggle contract on the member of the addressed element ---- *)
Lemma member_toggle : forall e ds rest arr cur loc a t,
  p_hash e = true -> digits_ok ds -> starts_nondigit rest ->
  let i := Z.to_nat (2 * digits_val ds + 1) in
  nth_error arr i = Some cur -> arg_T a = Some t ->
  rArrayTCbMember e loc (array_address e ds rest) arr [a] =
    Some (upd arr i t, if cur =? t then [] else [Bcast (mk loc [a])]) /\
  frame arr (upd arr i t) i t /\
  rArrayTCbMember e loc (array_address e ds rest) arr [] =
    Some (arr, [Reply (mk loc [if cur =? 0 then AFalse else ATrue])]).
Proof.
  intros e ds rest arr cur loc a t Hh Hd Hr i Hn Ha.
  unfold rArrayTCbMember. pose proof (boils_idx_names e ds rest Hh Hd Hr) as Eb. unfold array_address in *. rewrite Eb.
  unfold at_idx. fold i. rewrite Hn.
  destruct (toggle_set e loc cur a t Ha) as [_ E]. rewrite E.
  split; [reflexivity|]. split.
  - apply frame_upd. apply nth_error_Some. rewrite Hn. discriminate.
  - cbn [rArrayTCb_elem]. rewrite (upd_same _ arr i cur Hn). reflexivity.
Qed.

(* ---- non-vacuity: a clamped set on an array element, its event, the two replays ---- *)
Definition env_arr : penv :=
  {| p_name := [110]; p_hash := true; p_min := Some (-5); p_max := Some 9; p_map := [] |}.
Lemma replays_nonvacuous :
  undo_kind KAI /\ env_ok env_arr KAI /\ bounds_ordered (kind_key KAI) (p_min env_arr) (p_max env_arr) /\
  map_in_range env_arr /\ conf env_arr KAI [Ai 50] /\ stored_stable env_arr KAI [1; 2; 3] /\
  step KAI env_arr [47; 110; 49] [110; 49] [1; 2; 3] [Ai 50] =
    Some ([1; 9; 3], [Reply (mk undo_path [As [47; 110; 49]; Ai 2; Ai 9]); Bcast (mk [47; 110; 49] [Ai 9])]) /\
  step KAI env_arr [47; 110; 49] [110; 49] [1; 9; 3] [Ai 2] =
    Some ([1; 2; 3], [Reply (mk undo_path [As [47; 110; 49]; Ai 9; Ai 2]); Bcast (mk [47; 110; 49] [Ai 2])]).
Proof.
  split; [left; unfold numeric_kind; tauto|].
  split; [split; intros b Hb; cbn in Hb; inversion Hb; subst; unfold char_range; lia|].
  split; [intros lo hi E1 E2; cbn in E1, E2; inversion E1; inversion E2; subst; unfold kind_key, zkey; lia|].
  split; [constructor|].
  split; [apply CF_AI; unfold char_range; lia|].
  split; [|split; reflexivity].
  repeat constructor; try (intros x Hx; cbn in Hx; inversion Hx; subst; unfold kind_key, zkey; lia); unfold char_range; lia.
Qed.

(* ---- one set message on the slot it addresses (used by C15's end-to-end model) ---- *)
Lemma rLIMIT_pick_gen : forall V (ltb : V -> V -> bool) mn mx v,
  let r := rLIMIT ltb mn mx v in r = v \/ mn = Some r \/ mx = Some r.
Proof.
  intros V ltb mn mx v. unfold rLIMIT.
  destruct mn as [lo|]; destruct mx as [hi|]; cbn zeta;
    repeat match goal with |- context [if ?c then _ else _] => destruct c end; auto.
Qed.

(* what a float callback stores is the value it held, the incoming value or a bound *)
Definition float_pick (k : kind) (e : penv) (old : Z) (args : list arg) (new : Z) : Prop :=
  forall P : Z -> Prop, (k = KF \/ k = KAF) -> P old -> (forall b, args = [Af b] -> P b) ->
    (forall b, p_min e = Some b -> P b) -> (forall b, p_max e = Some b -> P b) -> P new.

Lemma rParamFCb_pick : forall k e loc old args st o,
  (args = [] \/ exists a, args = [a]) ->
  rParamFCb e loc old args = Some (st, o) -> float_pick k e old args st.
Proof.
  intros k e loc old args st o Hsh H P _ Po Pa Pmn Pmx.
  destruct Hsh as [E|[a E]]; subst args; cbn in H.
  - inversion H; subst. exact Po.
  - destruct a; try discriminate. cbn in H. unfold limit_apply_bcast in H. inversion H; subst.
    destruct (rLIMIT_pick_gen Z fltb (p_min e) (p_max e) bits) as [E|[E|E]].
    + rewrite E. apply Pa. reflexivity.
    + apply Pmn. exact E.
    + apply Pmx. exact E.
Qed.

Lemma elem_set_facts : forall k e cb loc old args st o,
  elem_cb k = Some cb -> env_ok e k ->
  bounds_ordered (kind_key k) (p_min e) (p_max e) -> map_in_range e ->
  conforming e k args -> stable e k old -> loc <> undo_path ->
  cb e loc old args = Some (st, o) ->
  stable e k st /\
  undo_events o = (if kind_key k old =? kind_key k st then []
                   else [Reply (mk undo_path [As loc; event_arg k old; event_arg k st])]) /\
  (forall v, args = [event_arg k v] -> stable e k v -> st = v) /\
  float_pick k e old args st.
Proof.
  intros k e cb loc old args st o Hcb Henv Hord Hmap Hc Hold Hloc H.
  destruct (elem_event k e cb loc old args st o Hcb Henv Hord Hmap Hc Hold H) as [Hnew _].
  split; [exact Hnew|]. split; [|split].
  - destruct Hold as (Hv & _ & Hch).
    assert (HchA : k = KAI -> char_range old) by (intro EkA; subst k; exact Hch).
    destruct (conforming_shape e k args Hc) as [E|[x E]]; subst args.
    + assert (Q : st = old /\ exists y, o = [Reply (mk loc [y])]).
      { destruct k; inversion Hcb; subst cb; cbn in H; inversion H; subst;
          (split; [reflexivity|eexists; reflexivity]). }
      destruct Q as (Es & y & Eo). subst st o. rewrite Z.eqb_refl.
      unfold undo_events. cbn [filter]. rewrite (is_undo_query loc _ Hloc). reflexivity.
    + destruct (conf_numeric k e cb loc old x Hcb Henv Hv HchA Hc) as [(mkb & v & _ & NS)|(s & i & Ex & Hs & Ecb & Ek)].
      * destruct (numeric_set_spec _ _ _ _ _ _ _ _ NS) as (res & Er & SP).
        rewrite H in Er. inversion Er; subst res. unfold set_spec in SP. cbv zeta in SP.
        destruct SP as (S1 & S2 & _). cbn [fst snd] in S1, S2. rewrite <- S1 in S2. exact S2.
      * subst x cb.
        destruct (rOptionCb_set_symbol e loc old s i Hs) as (res & Er & SP).
        rewrite H in Er. inversion Er; subst res. unfold set_spec in SP. cbv zeta in SP.
        destruct SP as (S1 & S2 & _). cbn [fst snd] in S1, S2. rewrite <- S1 in S2.
        rewrite Ek. assert (Ekk : kind_key k = zkey)
          by (pose proof (f_equal (fun f => f 0) Ek) as Ek0; destruct k; try reflexivity; discriminate Ek0).
        rewrite Ekk. exact S2.
  - intros v Ea Hv. subst args. destruct Hold as (Vo & _ & _).
    destruct (elem_replay k e cb loc old v Hcb Henv Vo Hv) as (_ & _ & o' & R).
    rewrite H in R. inversion R. reflexivity.
  - intros P Hk. pose proof (conforming_shape e k args Hc) as Hsh.
    destruct Hk; subst k; inversion Hcb; subst cb;
      exact (rParamFCb_pick _ e loc old args st o Hsh H P (or_introl eq_refl)).
Qed.

(* the entry of the port's state that the message addresses *)
Definition slot (k : kind) (e : penv) (m : str) : nat :=
  match k with KAI | KAF | KAO => Z.to_nat (boils_idx e m) | _ => 0%nat end.

Definition slot_facts (k : kind) (e : penv) (loc m : str) (st : list Z) (args : list arg)
           (st' : list Z) (outs : list out) : Prop :=
  exists old new,
    nth_error st (slot k e m) = Some old /\ nth_error st' (slot k e m) = Some new /\
    length st' = length st /\
    (forall j, j <> slot k e m -> k <> KCO -> nth_error st' j = nth_error st j) /\
    stable e k old /\ stable e k new /\
    undo_events outs = (if kind_key k old =? kind_key k new then []
                        else [Reply (mk undo_path [As loc; event_arg k old; event_arg k new])]) /\
    (forall v, args = [event_arg k v] -> stable e k v -> new = v) /\
    float_pick k e old args new.

Lemma step_slot_facts : forall k e loc m st args st' outs,
  undo_kind k -> env_ok e k ->
  bounds_ordered (kind_key k) (p_min e) (p_max e) -> map_in_range e ->
  conf e k args -> stored_stable e k st -> loc <> undo_path ->
  step k e loc m st args = Some (st', outs) ->
  slot_facts k e loc m st args st' outs.
Proof.
  intros k e loc m st args st' outs Hk Henv Hord Hmap Hc Hst Hloc H.
  assert (SC : forall cb, elem_cb k = Some cb -> slot k e m = 0%nat -> k <> KCO ->
               conforming e k args -> Forall (stable e k) st ->
               scalar st (fun v => cb e loc v args) = Some (st', outs) ->
               slot_facts k e loc m st args st' outs).
  { intros cb Hcb Hs Hn Hc' Hst' HS. unfold scalar in HS.
    destruct st as [|old [|w r]]; try discriminate.
    destruct (cb e loc old args) as [[v' o']|] eqn:E; [|discriminate]. inversion HS; subst st' outs.
    inversion Hst' as [|? ? Hold _]; subst.
    destruct (elem_set_facts k e cb loc old args v' o' Hcb Henv Hord Hmap Hc' Hold Hloc E) as (A & B & C & D).
    exists old, v'. rewrite Hs. cbn [nth_error].
    split; [reflexivity|]. split; [reflexivity|]. split; [reflexivity|].
    split; [intros j Hj _; destruct j; [contradiction|]; destruct j; reflexivity|].
    split; [exact Hold|]. split; [exact A|]. split; [exact B|]. split; [exact C|exact D]. }
  assert (AR : forall cb, elem_cb k = Some cb -> slot k e m = Z.to_nat (boils_idx e m) ->
               conforming e k args -> Forall (stable e k) st ->
               at_idx st (boils_idx e m) (fun cur => cb e loc cur args) = Some (st', outs) ->
               slot_facts k e loc m st args st' outs).
  { intros cb Hcb Hs Hc' Hst' HA. unfold at_idx in HA. rewrite <- Hs in HA.
    destruct (nth_error st (slot k e m)) as [old|] eqn:En; [|discriminate].
    destruct (cb e loc old args) as [[v' o']|] eqn:E; [|discriminate]. inversion HA; subst st' outs.
    pose proof (Forall_nth_error _ _ _ _ _ Hst' En) as Hold.
    destruct (elem_set_facts k e cb loc old args v' o' Hcb Henv Hord Hmap Hc' Hold Hloc E) as (A & B & C & D).
    assert (Hlt : (slot k e m < length st)%nat) by (apply nth_error_Some; rewrite En; discriminate).
    exists old, v'. split; [exact En|]. split; [apply nth_error_upd_same; exact Hlt|].
    split; [apply length_upd|]. split; [intros j Hj _; apply nth_error_upd_other; congruence|].
    split; [exact Hold|]. split; [exact A|]. split; [exact B|]. split; [exact C|exact D]. }
  destruct Hk as [[Hk|[Hk|[Hk|[Hk|[Hk|[Hk|Hk]]]]]]|Hk]; subst k; cbn [step] in H.
  - exact (SC rParamCb eq_refl eq_refl ltac:(discriminate) Hc Hst H).
  - exact (SC rParamICb eq_refl eq_refl ltac:(discriminate) Hc Hst H).
  - exact (SC rParamFCb eq_refl eq_refl ltac:(discriminate) Hc Hst H).
  - exact (SC rOptionCb eq_refl eq_refl ltac:(discriminate) Hc Hst H).
  - exact (AR rArrayICb_elem eq_refl eq_refl Hc Hst H).
  - exact (AR rParamFCb eq_refl eq_refl Hc Hst H).
  - exact (AR rOptionCb eq_refl eq_refl Hc Hst H).
  - destruct Hst as (v & n & Est & Hold). subst st.
    rewrite counted_as_option in H.
    destruct (rOptionCb e loc v args) as [[v' o']|] eqn:E; [|discriminate]. inversion H; subst st' outs.
    change (stable e KO v) in Hold. change (conforming e KO args) in Hc.
    destruct (elem_set_facts KO e rOptionCb loc v args v' o' eq_refl I Hord Hmap Hc Hold Hloc E) as (A & B & C & D).
    exists v, v'. cbn [slot nth_error].
    split; [reflexivity|]. split; [reflexivity|]. split; [reflexivity|].
    split; [intros j _ Hn; exfalso; apply Hn; reflexivity|].
    split; [exact Hold|]. split; [exact A|]. split; [exact B|]. split; [exact C|].
    intros P [Hk|Hk]; discriminate Hk.
Qed.

(* ---- a replayed value is a set message of the quantifier, and the step is defined ---- *)
Lemma replay_conf : forall k e v, undo_kind k -> stable e k v ->
  conf e k [event_arg k v] /\ in_spec k [event_arg k v] = true.
Proof.
  intros k e v Hk (Hv & _ & Hc).
  destruct Hk as [[Hk|[Hk|[Hk|[Hk|[Hk|[Hk|Hk]]]]]]|Hk]; subst k;
    (split; [cbn [conf event_arg]; constructor; assumption|reflexivity]).
Qed.

Lemma step_replay_total : forall k e loc m st v,
  undo_kind k -> env_ok e k -> stored_stable e k st -> stable e k v ->
  match k with
  | KAI | KAF | KAO => (slot k e m < length st)%nat
  | KCO => True
  | _ => length st = 1%nat
  end ->
  exists st' o, step k e loc m st [event_arg k v] = Some (st', o).
Proof.
  intros k e loc m st v Hk Henv Hst Hv Hlen.
  assert (SC : forall cb, elem_cb k = Some cb -> Forall (stable e k) st -> length st = 1%nat ->
               exists st' o, scalar st (fun x => cb e loc x [event_arg k v]) = Some (st', o)).
  { intros cb Hcb Hf Hl. destruct st as [|x [|y r]]; try discriminate.
    inversion Hf as [|? ? (Vx & _ & _) _]; subst.
    destruct (elem_replay k e cb loc x v Hcb Henv Vx Hv) as (_ & _ & o & R).
    unfold scalar. rewrite R. eexists _, _. reflexivity. }
  assert (AR : forall cb, elem_cb k = Some cb -> Forall (stable e k) st ->
               (Z.to_nat (boils_idx e m) < length st)%nat ->
               exists st' o, at_idx st (boils_idx e m) (fun x => cb e loc x [event_arg k v]) = Some (st', o)).
  { intros cb Hcb Hf Hl. unfold at_idx.
    destruct (nth_error st (Z.to_nat (boils_idx e m))) as [x|] eqn:En;
      [|apply nth_error_None in En; lia].
    destruct (Forall_nth_error _ _ _ _ _ Hf En) as (Vx & _ & _).
    destruct (elem_replay k e cb loc x v Hcb Henv Vx Hv) as (_ & _ & o & R).
    rewrite R. eexists _, _. reflexivity. }
  destruct Hk as [[Hk|[Hk|[Hk|[Hk|[Hk|[Hk|Hk]]]]]]|Hk]; subst k; cbn [step].
  - exact (SC rParamCb eq_refl Hst Hlen).
  - exact (SC rParamICb eq_refl Hst Hlen).
  - exact (SC rParamFCb eq_refl Hst Hlen).
  - exact (SC rOptionCb eq_refl Hst Hlen).
  - exact (AR rArrayICb_elem eq_refl Hst Hlen).
  - exact (AR rParamFCb eq_refl Hst Hlen).
  - exact (AR rOptionCb eq_refl Hst Hlen).
  - destruct Hst as (x & n & Est & (Vx & Rx & Cx)). subst st.
    rewrite counted_as_option.
    destruct (elem_replay KO e rOptionCb loc x v eq_refl I Vx Hv) as (_ & _ & o & R).
    cbn [event_arg] in *. rewrite R. eexists _, _. reflexivity.
Qed.

(* ---- further non-vacuity examples ------------------------------------------- *)
(* rString of length 5 holding "A": "abcdef" is stored as "abcd" *)
Lemma string_trunc_nonvacuous :
  1 <= 5 /\ Z.of_nat (length [65; 0; 77; 0; 0]) = 5 /\ nul_free [97; 98; 99; 100; 101; 102] /\
  rStringCb 5 env_ex [47] [65; 0; 77; 0; 0] [As [97; 98; 99; 100; 101; 102]] =
    Some ([97; 98; 99; 100; 0], [Bcast (mk [47] [As [97; 98; 99; 100]])]).
Proof.
  split; [lia|]. split; [reflexivity|]. split; [repeat constructor; discriminate|reflexivity].
Qed.

(* the options of env_ex are 0=r 2=b 5=r: the symbol r stores 0 (the first), event (2, 0) *)
Lemma option_symbol_nonvacuous :
  symbol_index (p_map env_ex) [114] = Some 0 /\
  rOptionCb env_ex [47] 2 [ASy [114]] =
    Some (0, [Reply (mk undo_path [As [47]; Ai 2; Ai 0]); Bcast (mk [47] [Ai 0])]).
Proof. split; reflexivity. Qed.

(* struct array of two elements (other, on) = (7,0) (8,1); address n1, false: only entry 3 changes *)
Lemma member_toggle_nonvacuous :
  p_hash env_arr = true /\ digits_ok [1] /\ starts_nondigit [] /\
  nth_error [7; 0; 8; 1] (Z.to_nat (2 * digits_val [1] + 1)) = Some 1 /\ arg_T AFalse = Some 0 /\
  rArrayTCbMember env_arr [47; 110; 49] (array_address env_arr [1] []) [7; 0; 8; 1] [AFalse] =
    Some ([7; 0; 8; 0], [Bcast (mk [47; 110; 49] [AFalse])]).
Proof.
  split; [reflexivity|]. split; [split; [discriminate|repeat constructor; lia]|]. split; [exact I|].
  split; [reflexivity|]. split; reflexivity.
Qed.

(* a float port -1.5 .. 2.5 holding 0.5: set 100.0 (stored 2.5), query, set -7.125
   (stored -1.5): the hypotheses of the history theorems hold for a float kind *)
Definition env_flt : penv :=
  {| p_name := [102]; p_hash := false; p_min := Some 3217031168; p_max := Some 1075838976; p_map := [] |}.
Definition hist_flt : list op :=
  [ {| op_loc := [47; 102]; op_m := [102]; op_args := [Af 1120403456] |};
    {| op_loc := [47; 102]; op_m := [102]; op_args := [] |};
    {| op_loc := [47; 102]; op_m := [102]; op_args := [Af 3236167680] |} ].
Lemma history_in_range_nonvacuous :
  numeric_kind KF /\ env_ok env_flt KF /\
  bounds_ordered (kind_key KF) (p_min env_flt) (p_max env_flt) /\ map_in_range env_flt /\
  Forall (fun o => conforming env_flt KF (op_args o)) hist_flt /\ stored_ok env_flt KF [1056964608] /\
  exists outs, run KF env_flt hist_flt [1056964608] = Some ([3217031168], outs) /\
    undo_pairs outs = [(1056964608, 1075838976); (1075838976, 3217031168)].
Proof.
  split; [right; right; left; reflexivity|].
  split; [split; intros b E; inversion E; reflexivity|].
  split; [intros lo hi E1 E2; inversion E1; inversion E2; subst; cbn; lia|].
  split; [constructor|].
  split; [repeat constructor; reflexivity|].
  split.
  { constructor; [|constructor]. split; [reflexivity|].
    split; intros x E; inversion E; subst; cbn; lia. }
  eexists. split; reflexivity.
Qed.
