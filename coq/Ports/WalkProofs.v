(* C09 - proofs about Ports/WalkModel.v *)
From Coq Require Import List ZArith Bool Arith Lia.
From RtoscV Require Import Match.PatSpec Match.MatchModel Ports.MetaModel Ports.NameModel Ports.PathModel Ports.WalkModel.
Import ListNotations.
Local Open Scope Z_scope.

(* ---- induction over the port tree ------------------------------------------- *)
Section PortInd.
  Variable P : port -> Prop.
  Hypothesis H : forall n m s,
    match s with Some l => Forall P l | None => True end -> P (Port n m s).
  Fixpoint port_ind2 (p : port) : P p.
  Proof.
    destruct p as [n m s]. apply H. destruct s as [l|]; [|exact I].
    exact ((fix go (l : list port) : Forall P l :=
              match l with
              | [] => Forall_nil P
              | x :: r => Forall_cons x (port_ind2 x) (go r)
              end) l).
  Defined.
End PortInd.

Lemma firstn_app_exact {A} (a b : list A) : firstn (length a) (a ++ b) = a.
Proof. rewrite firstn_app, Nat.sub_diag, firstn_all. cbn [firstn]. apply app_nil_r. Qed.

(* ---- the buffer ------------------------------------------------------------- *)
(* recurse0 leaves either the buffer it was given or an extension of its write
   prefix, provided the sub-walk k leaves what it was given (it is only started
   on a non-empty buffer: the prefix ends in '/') *)
Lemma last_is_slash_nonempty w : last_is_slash w = true -> w <> [].
Proof. destruct w; [discriminate|discriminate]. Qed.

Lemma recurse0_buf fuel : forall (k : list Z -> wres) rh w buf out b,
  (forall x o b', x <> [] -> k x = WOk o b' -> b' = x) ->
  recurse0 fuel k rh w buf = WOk out b ->
  b = buf \/ exists x, b = w ++ x.
Proof.
  induction fuel as [|f IH]; intros k rh w buf out b Hk H; cbn [recurse0] in H; [discriminate|].
  destruct (split_hash1 rh) as [[lit rest]|].
  - destruct (has_char 58 lit); [discriminate|].
    revert H. generalize (@nil report). generalize buf.
    generalize (seq 0 (Z.to_nat (atoi rest))).
    intros l. induction l as [|i l IHl]; intros cur out0 H.
    + inversion H; subst. left. reflexivity.
    + match type of H with context [recurse0 f k ?r ?w' cur] =>
        destruct (recurse0 f k r w' cur) as [o b1|] eqn:E; [|discriminate] end.
      apply IH in E; [|exact Hk].
      specialize (IHl b1 (out0 ++ o) H).
      destruct IHl as [-> | [x ->]].
      * destruct E as [-> | [x ->]].
        -- left. reflexivity.
        -- right. eexists. rewrite <- !app_assoc. reflexivity.
      * right. exists x. reflexivity.
  - destruct (last_is_slash (w ++ upto_colon rh)) eqn:El.
    + apply Hk in H; [|apply last_is_slash_nonempty; exact El]. subst b. right.
      exists (upto_colon rh). reflexivity.
    + apply Hk in H; [|intros E; apply app_eq_nil in E; destruct E; discriminate]. subst b. right.
      exists (upto_colon rh ++ [47]). rewrite <- app_assoc. reflexivity.
Qed.

Lemma norm_nonempty b : b <> [] -> norm b = b.
Proof. destruct b; [congruence|reflexivity]. Qed.

Section TableBuf.
  Variable walk_sub : port -> list nat -> list Z -> wres.
  Variable rt : option oracle.
  Variable ids : list nat.

  Lemma step_port_buf i q buf o b :
    (forall ids' x o' b', x <> [] -> walk_sub q ids' x = WOk o' b' -> b' = x) ->
    step_port walk_sub rt ids i q buf = WOk o b -> exists x, b = buf ++ x.
  Proof.
    intros Hq H. unfold step_port in H. destruct q as [qn qm [qs|]].
    - apply recurse0_buf in H.
      + destruct H as [-> | [x ->]]; [exists []; rewrite app_nil_r; reflexivity | exists x; reflexivity].
      + intros x o' b' Hx Hk.
        destruct (match rt with Some o1 => o_null o1 x || o_disabled o1 x | None => false end).
        * inversion Hk. reflexivity.
        * eapply Hq; eassumption.
    - destruct (has_char 35 qn).
      + destruct (bundle_addrs (S (length qn)) qn buf); [|discriminate].
        inversion H. exists []. rewrite app_nil_r. reflexivity.
      + inversion H. eexists. reflexivity.
  Qed.

  Lemma loop_ports_buf l : forall i out0 buf out b,
    Forall (fun q => forall ids' x o' b', x <> [] -> walk_sub q ids' x = WOk o' b' -> b' = x) l ->
    loop_ports walk_sub rt ids (length buf) l i out0 buf = WOk out b -> b = buf.
  Proof.
    induction l as [|q r IHr]; intros i out0 buf out b Hl H; cbn [loop_ports] in H.
    - inversion H. reflexivity.
    - inversion Hl as [|? ? Hq Hr]; subst.
      destruct (step_port walk_sub rt ids i q buf) as [o b0|] eqn:E; [|discriminate].
      destruct (length b0 <? length buf)%nat; [discriminate|].
      destruct (step_port_buf _ _ _ _ _ Hq E) as [x ->].
      rewrite firstn_app_exact in H. eapply IHr; eassumption.
  Qed.
End TableBuf.

(* walk_ports leaves the buffer it was given ("/" for an empty one) *)
Lemma walk_port_buf p : forall rt ids buf0 out b,
  walk_port rt ids p buf0 = WOk out b -> b = norm buf0.
Proof.
  induction p as [n m s IHs] using port_ind2. intros rt ids buf0 out b H.
  destruct s as [t|]; [|discriminate].
  cbn [walk_port] in H.
  destruct (match rt with Some o => o_selfoff o (norm buf0) | None => false end).
  { destruct (self_toggle t (norm buf0)) as [[j a]|]; [|discriminate]. inversion H. reflexivity. }
  eapply loop_ports_buf; [|exact H].
  eapply Forall_impl; [|exact IHs].
  intros q Hq ids' x o' b' Hx Hw. apply Hq in Hw. rewrite Hw. apply norm_nonempty. exact Hx.
Qed.

Theorem walk_buffer_restored rt root buf out b :
  walk rt root buf = WOk out b -> b = norm buf.
Proof. apply walk_port_buf. Qed.

(* ---- pruning ---------------------------------------------------------------------- *)
(* a sub-tree port with a one-component literal name "x/": walk_ports_recurse0
   appends the name and hands over to walk_ports_recurse, which skips the
   sub-table exactly when the child object is NULL or its 'enabled by' port
   answers false (with a runtime object), and visits it otherwise *)
Lemma split_hash_none s : has_char 35 s = false -> split_hash s = None.
Proof.
  induction s as [|c t IH]; intros H; [reflexivity|]. cbn [has_char] in H. cbn [split_hash].
  apply orb_false_iff in H. destruct H as [Hc Ht]. rewrite Hc, (IH Ht). reflexivity.
Qed.

Lemma step_port_plain_subtree walk_sub rt ids i qn qm qs buf :
  has_char 35 qn = false -> qn <> [] ->
  let b := buf ++ upto_colon qn in
  let b' := if last_is_slash b then b else b ++ [47] in
  step_port walk_sub rt ids i (Port qn qm (Some qs)) buf =
  match rt with
  | Some o => if o_null o b' || o_disabled o b'
              then WOk (skipped_reports rt ids i (Port qn qm (Some qs)) b') b'
              else walk_sub (Port qn qm (Some qs)) (ids ++ [i]) b'
  | None => walk_sub (Port qn qm (Some qs)) (ids ++ [i]) b'
  end.
Proof.
  intros Hh Hne b b'. unfold step_port. cbn [recurse0].
  assert (Hs : split_hash1 qn = None).
  { destruct qn as [|c t]; [congruence|]. cbn [split_hash1]. cbn [has_char] in Hh.
    apply orb_false_iff in Hh. rewrite (split_hash_none t (proj2 Hh)). reflexivity. }
  rewrite Hs. fold b. fold b'. destruct rt; reflexivity.
Qed.

(* a table whose self: toggle is off reports its enabling port only *)
Lemma walk_self_disabled o ids n m t buf0 :
  o_selfoff o (norm buf0) = true ->
  walk_port (Some o) ids (Port n m (Some t)) buf0 =
  match self_toggle t (norm buf0) with
  | Some (j, a) => WOk [(ids ++ [j], a)] (norm buf0)
  | None => WFail
  end.
Proof. intros H. cbn [walk_port]. rewrite H. reflexivity. Qed.

(* ---- examples (the trees of test/walk-ports.cpp) --------------------------------- *)
Definition ex_numeric : list port :=
  [Port [97;35;51;47;98;35;50;47;99] None (Some [Port [101] None None])].    (* "a#3/b#2/c" -> { "e" } *)

Example walk_numeric :
  walk None ex_numeric [] =
  WOk (map (fun a => ([0%nat; 0%nat], a))
       [[47;97;48;47;98;48;47;99;47;101]; [47;97;48;47;98;49;47;99;47;101];
        [47;97;49;47;98;48;47;99;47;101]; [47;97;49;47;98;49;47;99;47;101];
        [47;97;50;47;98;48;47;99;47;101]; [47;97;50;47;98;49;47;99;47;101]]) [47].
Proof. vm_compute. reflexivity. Qed.

(* the same as a structured tree: the walk is the Spec's enumeration *)
Definition ex_numeric_s : list sport :=
  [SPort [Lit [97]; Enum 3; Lit [47;98]; Enum 2; Lit [47;99;47]] [] None
         (Some [SPort [Lit [101]] [] None None;
                SPort [Lit [118]; Enum 2; Lit [47;119]; Enum 11] [58;105] None None])].

Example walk_is_spec_example :
  walk None (map render_port ex_numeric_s) [] = WOk (spec_addrs ex_numeric_s) [47].
Proof. vm_compute. reflexivity. Qed.

(* ---- enumeration, '#'-free trees ----------------------------------------------------- *)
Section SPortInd.
  Variable P : sport -> Prop.
  Hypothesis H : forall sg a m s,
    match s with Some l => Forall P l | None => True end -> P (SPort sg a m s).
  Fixpoint sport_ind2 (p : sport) : P p.
  Proof.
    destruct p as [sg a m s]. apply H. destruct s as [l|]; [|exact I].
    exact ((fix go (l : list sport) : Forall P l :=
              match l with
              | [] => Forall_nil P
              | x :: r => Forall_cons x (sport_ind2 x) (go r)
              end) l).
  Defined.
End SPortInd.

(* names without '#': one literal, no '#' / ':' in it, argument part empty or
   ":..." without '#'; a sub-tree name ends in '/' *)
Fixpoint plain (p : sport) : Prop :=
  match p with
  | SPort sg a m s =>
      (exists n, sg = [Lit n] /\ n <> [] /\ has_char 35 n = false /\ has_char 58 n = false /\
                 (s <> None -> last_is_slash n = true)) /\
      (a = [] \/ hd0 a = 58) /\ has_char 35 a = false /\
      match s with
      | Some l => (fix all (l : list sport) : Prop :=
                     match l with [] => True | x :: r => plain x /\ all r end) l
      | None => True
      end
  end.

Fixpoint spec_table (ids : list nat) (pre : list Z) (l : list sport) (i : nat) : list report :=
  match l with
  | [] => []
  | q :: r => spec_addrs_port (ids ++ [i]) pre q ++ spec_table ids pre r (S i)
  end.

Lemma spec_addrs_subtree ids pre sg a m l :
  spec_addrs_port ids pre (SPort sg a m (Some l)) =
  flat_map (fun x => spec_table ids (pre ++ x) l 0%nat) (expand sg).
Proof.
  cbn [spec_addrs_port]. apply flat_map_ext. intros x.
  generalize 0%nat. induction l as [|q r IH]; intros i; [reflexivity|].
  cbn [spec_table]. rewrite <- IH. reflexivity.
Qed.

Lemma has_char_app c a b : has_char c (a ++ b) = has_char c a || has_char c b.
Proof. induction a as [|x a IH]; [reflexivity|]. cbn [app has_char]. rewrite IH, orb_assoc. reflexivity. Qed.

Lemma upto_colon_name n a :
  has_char 58 n = false -> (a = [] \/ hd0 a = 58) -> upto_colon (n ++ a) = n.
Proof.
  intros Hn Ha. induction n as [|c n IH].
  - destruct Ha as [-> | Ha]; [reflexivity|]. destruct a as [|x a]; [reflexivity|].
    cbn [hd0] in Ha. subst x. reflexivity.
  - cbn [has_char] in Hn. apply orb_false_iff in Hn. destruct Hn as [Hc Hn].
    cbn [app upto_colon]. rewrite Hc, (IH Hn). reflexivity.
Qed.

Lemma last_char_app a n : n <> [] -> last_char (a ++ n) = last_char n.
Proof.
  intros Hn. induction a as [|x a IH]; [reflexivity|].
  cbn [app]. destruct (a ++ n) as [|y r] eqn:E.
  - apply app_eq_nil in E. destruct E. contradiction.
  - rewrite <- IH. reflexivity.
Qed.

Lemma last_is_slash_app a n : n <> [] -> last_is_slash (a ++ n) = last_is_slash n.
Proof. intros Hn. unfold last_is_slash. rewrite last_char_app by exact Hn. reflexivity. Qed.

Lemma plain_all_forall l :
  (fix all (l : list sport) : Prop := match l with [] => True | x :: r => plain x /\ all r end) l ->
  Forall plain l.
Proof. induction l as [|x r IH]; intros H; [constructor|]. destruct H as [Hx Hr]. constructor; [exact Hx | apply IH; exact Hr]. Qed.

Theorem walk_enumerates_plain p : forall ids buf sg a m l,
  p = SPort sg a m (Some l) -> Forall plain l -> buf <> [] ->
  walk_port None ids (render_port p) buf = WOk (spec_table ids buf l 0%nat) buf.
Proof.
  induction p as [sg0 a0 m0 s0 IHs] using sport_ind2.
  intros ids buf sg a m l E Hl Hb. inversion E; subst. clear E.
  cbn [render_port walk_port]. rewrite (norm_nonempty buf Hb).

  (* the loop, for any start index and accumulated output *)
  assert (Hloop : forall l' i out0,
            Forall plain l' ->
            Forall (fun q => forall ids buf sg a m l, q = SPort sg a m (Some l) -> Forall plain l -> buf <> [] ->
                       walk_port None ids (render_port q) buf = WOk (spec_table ids buf l 0%nat) buf) l' ->
            loop_ports (fun q ids' b => walk_port None ids' q b) None ids (length buf)
                       (map render_port l') i out0 buf
            = WOk (out0 ++ spec_table ids buf l' i) buf).
  { induction l' as [|q r IHr]; intros i out0 Hpl HIH.
    - cbn [map loop_ports spec_table]. rewrite app_nil_r. reflexivity.
    - inversion Hpl as [|? ? Hq Hr]; subst. inversion HIH as [|? ? HIq HIr]; subst.
      cbn [map loop_ports spec_table].
      destruct q as [sg1 a1 m1 s1]. cbn [plain] in Hq.
      destruct Hq as [[n [-> [Hne [Hh [Hc Hsl]]]]] [Ha [Hha Hsub]]].
      assert (Hnm : render_name [Lit n] a1 = n ++ a1).
      { unfold render_name. cbn [map concat render_seg]. rewrite app_nil_r. reflexivity. }
      assert (Hh' : has_char 35 (n ++ a1) = false) by (rewrite has_char_app, Hh, Hha; reflexivity).
      destruct s1 as [l1|].
      + (* a sub-tree *)
        cbn [render_port].
        assert (Hup : upto_colon (render_name [Lit n] a1) = n) by (rewrite Hnm; apply upto_colon_name; assumption).
        rewrite step_port_plain_subtree;
          [| rewrite Hnm; exact Hh' | rewrite Hnm; destruct n; [congruence|discriminate]].
        rewrite Hup.
        rewrite (last_is_slash_app buf n Hne), (Hsl ltac:(discriminate)).
        change (Port (render_name [Lit n] a1) m1 (Some (map render_port l1)))
          with (render_port (SPort [Lit n] a1 m1 (Some l1))).
        rewrite (HIq (ids ++ [i]) (buf ++ n) [Lit n] a1 m1 l1 eq_refl (plain_all_forall _ Hsub))
          by (intros E0; apply app_eq_nil in E0; destruct E0; contradiction).
        replace (length (buf ++ n) <? length buf)%nat with false
          by (symmetry; apply Nat.ltb_ge; rewrite app_length; lia).
        rewrite firstn_app_exact. rewrite IHr by assumption.
        rewrite <- app_assoc. f_equal. f_equal.
        rewrite spec_addrs_subtree. cbn [expand map flat_map]. rewrite !app_nil_r. reflexivity.
      + (* a leaf *)
        cbn [render_port]. unfold step_port.
        assert (Hup : upto_colon (render_name [Lit n] a1) = n) by (rewrite Hnm; apply upto_colon_name; assumption).
        replace (has_char 35 (render_name [Lit n] a1)) with false by (rewrite Hnm; symmetry; exact Hh').
        rewrite Hup.
        replace (length (buf ++ n) <? length buf)%nat with false
          by (symmetry; apply Nat.ltb_ge; rewrite app_length; lia).
        rewrite firstn_app_exact. rewrite IHr by assumption.
        rewrite <- app_assoc. f_equal.
        cbn [spec_addrs_port expand map app]. rewrite app_nil_r. reflexivity. }
  specialize (Hloop l 0%nat [] Hl).
  cbn [app] in Hloop. apply Hloop.
  eapply Forall_impl; [|exact IHs]. intros q Hq. exact Hq.
Qed.

Lemma walk_port_empty_buf rt ids p : walk_port rt ids p [] = walk_port rt ids p [47].
Proof. destruct p as [n m [t|]]; reflexivity. Qed.

Theorem walk_enumerates_hashfree root :
  Forall plain root ->
  walk None (map render_port root) [] = WOk (spec_addrs root) [47].
Proof.
  intros H. unfold walk. rewrite walk_port_empty_buf.
  change (Port [] None (Some (map render_port root)))
    with (render_port (SPort [] [] None (Some root))).
  rewrite (walk_enumerates_plain _ [] [47] [] [] None root eq_refl H) by discriminate.
  f_equal. unfold spec_addrs. rewrite spec_addrs_subtree.
  cbn [expand map flat_map app]. rewrite app_nil_r. reflexivity.
Qed.

(* non-vacuity: the first tree of test/walk-ports.cpp, "a/" -> "b/c/" -> "d/" -> "e" *)
Definition ex_plain : list sport :=
  [SPort [Lit [97;47]] [] None
     (Some [SPort [Lit [98;47;99;47]] [] None
        (Some [SPort [Lit [100;47]] [] None (Some [SPort [Lit [101]] [58;105] None None])])])].

Example ex_plain_ok : Forall plain ex_plain /\
  spec_addrs ex_plain = [([0;0;0;0]%nat, [47;97;47;98;47;99;47;100;47;101])].
Proof.
  split; [|reflexivity].
  constructor; [|constructor]. cbn [plain].
  repeat match goal with
         | |- _ /\ _ => split
         | |- exists n, [Lit ?x] = [Lit n] /\ _ => exists x
         | |- True => exact I
         | |- _ = _ => reflexivity
         | |- _ <> _ => discriminate
         | |- None <> None -> _ => let H := fresh in intros H; exfalso; apply H; reflexivity
         | |- Some _ <> None -> _ => intros _
         | |- [] = [] \/ _ => left; reflexivity
         | |- _ \/ hd0 _ = 58 => right; reflexivity
         end.
Qed.

(* the enabling port reported for a skipped sub-tree ('enabled by' naming a port
   inside it) is a port of the sub-tree's own table, at the skipped sub-tree's
   own expanded address followed by that port's name *)
Lemma sub_toggle_addr : forall qn m sub b j a,
  sub_toggle (Port qn m (Some sub)) b = Some (j, a) ->
  exists e', a = b ++ e' /\ index_op sub e' = Some j.
Proof.
  intros qn m sub b j a H. unfold sub_toggle in H.
  destruct m as [m|]; [|discriminate]. destruct (meta m) as [s|]; [|discriminate].
  destruct (lookup s enabled_by) as [[v|]|]; try discriminate.
  destruct (subport_split qn v) as [e'|]; [|discriminate].
  destruct (index_op sub e') as [j'|] eqn:E; [|discriminate].
  inversion H; subst. exists e'. split; [reflexivity | exact E].
Qed.
