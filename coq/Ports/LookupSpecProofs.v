(* C18 - proofs about the Spec side of the lookup clause (Ports/LookupSpec.v):
   names_ok = names_shape + key_prefix_free + no_digit_facing; the text's
   proviso over concrete names gives key_prefix_free; the lookup clause under
   the text's proviso and the side condition no_digit_facing; the refutation
   of the clause without the side condition. *)
From Coq Require Import List ZArith Bool Arith Lia.
From RtoscV Require Import Match.PatSpec Match.MatchModel Match.MatchProofs
     Ports.MetaModel Ports.NameModel Ports.PathModel Ports.WalkModel Ports.WalkProofs
     Ports.EnumProofs Ports.DispatchWalk Ports.LookupGen Ports.NamesModel Ports.NamesOk Ports.LookupSpec.
Import ListNotations.
Local Open Scope Z_scope.

(* ---- clashb = prefix_clashb || digit_facingb ------------------------------------------ *)
Lemma clashb_split a : forall b, clashb a b = prefix_clashb a b || digit_facingb a b.
Proof.
  induction a as [|x a IH]; intros b; [reflexivity|].
  destruct b as [|y b]; [destruct x; reflexivity|].
  destruct x as [c|], y as [d|]; cbn [clashb prefix_clashb digit_facingb].
  - rewrite IH. destruct (c =? d); reflexivity.
  - reflexivity.
  - reflexivity.
  - apply IH.
Qed.

Lemma keys_freeb_pairs ks : keys_freeb ks = pairs_freeb clashb ks.
Proof. induction ks as [|k r IH]; [reflexivity|]. cbn [keys_freeb pairs_freeb]. rewrite IH. reflexivity. Qed.

Lemma pairs_freeb_split ks :
  pairs_freeb clashb ks = pairs_freeb prefix_clashb ks && pairs_freeb digit_facingb ks.
Proof.
  induction ks as [|k r IH]; [reflexivity|]. cbn [pairs_freeb]. rewrite IH.
  assert (E : forallb (fun k' => negb (clashb k k')) r =
              forallb (fun k' => negb (prefix_clashb k k')) r && forallb (fun k' => negb (digit_facingb k k')) r).
  { clear IH. induction r as [|y r IHr]; [reflexivity|]. cbn [forallb]. rewrite IHr, clashb_split, negb_orb.
    destruct (negb (prefix_clashb k y)), (negb (digit_facingb k y)),
             (forallb (fun k' => negb (prefix_clashb k k')) r); reflexivity. }
  rewrite E.
  destruct (forallb (fun k' => negb (prefix_clashb k k')) r), (forallb (fun k' => negb (digit_facingb k k')) r),
           (pairs_freeb prefix_clashb r); reflexivity.
Qed.

(* ---- nested recursion helpers ---------------------------------------------------------- *)
Lemma all_fix_forallb (F : sport -> bool) l :
  (fix all (l : list sport) : bool := match l with [] => true | x :: r => F x && all r end) l = forallb F l.
Proof. induction l as [|x r IH]; [reflexivity|]. cbn [forallb]. rewrite <- IH. reflexivity. Qed.

Lemma tables_allb_some P sg a m l :
  tables_allb P (SPort sg a m (Some l)) = P l && forallb (tables_allb P) l.
Proof. cbn [tables_allb]. rewrite all_fix_forallb. reflexivity. Qed.

Lemma port_okb_some sg a m l :
  port_okb (SPort sg a m (Some l)) = sub_okb sg a && table_okb l && forallb port_okb l.
Proof. cbn [port_okb]. rewrite all_fix_forallb. reflexivity. Qed.

(* ---- names_ok = names_shape && key_prefix_free && no_digit_facing --------------------- *)
Definition Pn : list sport -> bool := forallb name_okb.
Definition Pk (l : list sport) : bool := pairs_freeb prefix_clashb (map stoks l).
Definition Pd (l : list sport) : bool := pairs_freeb digit_facingb (map stoks l).

Lemma Pn_cons x r : Pn (x :: r) = name_okb x && Pn r.
Proof. reflexivity. Qed.

Lemma table_okb_split l : table_okb l = Pk l && Pd l.
Proof. unfold table_okb, Pk, Pd. rewrite keys_freeb_pairs. apply pairs_freeb_split. Qed.

Lemma port_okb_split p :
  port_okb p = name_okb p && tables_allb Pn p && tables_allb Pk p && tables_allb Pd p.
Proof.
  induction p as [sg a m s IH] using sport_ind2. destruct s as [l|].
  - rewrite port_okb_some, !tables_allb_some. cbn [name_okb]. rewrite table_okb_split.
    assert (E : forallb port_okb l =
                Pn l && forallb (tables_allb Pn) l && forallb (tables_allb Pk) l && forallb (tables_allb Pd) l).
    { clear sg a m. induction l as [|x r IHr]; [reflexivity|].
      inversion IH as [|? ? Hx Hr]; subst. rewrite Pn_cons. cbn [forallb]. rewrite Hx, (IHr Hr).
      generalize (name_okb x) (tables_allb Pn x) (tables_allb Pk x) (tables_allb Pd x) (Pn r)
                 (forallb (tables_allb Pn) r) (forallb (tables_allb Pk) r) (forallb (tables_allb Pd) r).
      intros b1 b2 b3 b4 b5 b6 b7 b8. destruct b1, b2, b3, b4, b5, b6, b7, b8; reflexivity. }
    rewrite E.
    generalize (sub_okb sg a) (Pk l) (Pd l) (Pn l) (forallb (tables_allb Pn) l) (forallb (tables_allb Pk) l)
               (forallb (tables_allb Pd) l).
    intros b1 b2 b3 b4 b5 b6 b7. destruct b1, b2, b3, b4, b5, b6, b7; reflexivity.
  - cbn [port_okb name_okb tables_allb]. rewrite !andb_true_r. reflexivity.
Qed.

Lemma names_shape_eq root : names_shape root = Pn root && forallb (tables_allb Pn) root.
Proof. reflexivity. Qed.
Lemma key_prefix_free_eq root : key_prefix_free root = Pk root && forallb (tables_allb Pk) root.
Proof. reflexivity. Qed.
Lemma no_digit_facing_eq root : no_digit_facing root = Pd root && forallb (tables_allb Pd) root.
Proof. reflexivity. Qed.

Theorem names_ok_split root :
  names_ok root = names_shape root && key_prefix_free root && no_digit_facing root.
Proof.
  rewrite names_shape_eq, key_prefix_free_eq, no_digit_facing_eq. unfold names_ok. rewrite table_okb_split.
  assert (E : forallb port_okb root =
              Pn root && forallb (tables_allb Pn) root && forallb (tables_allb Pk) root && forallb (tables_allb Pd) root).
  { induction root as [|x r IHr]; [reflexivity|].
    rewrite Pn_cons. cbn [forallb]. rewrite port_okb_split, IHr.
    generalize (name_okb x) (tables_allb Pn x) (tables_allb Pk x) (tables_allb Pd x) (Pn r)
               (forallb (tables_allb Pn) r) (forallb (tables_allb Pk) r) (forallb (tables_allb Pd) r).
    intros b1 b2 b3 b4 b5 b6 b7 b8. destruct b1, b2, b3, b4, b5, b6, b7, b8; reflexivity. }
  rewrite E.
  generalize (Pk root) (Pd root) (Pn root) (forallb (tables_allb Pn) root) (forallb (tables_allb Pk) root)
             (forallb (tables_allb Pd) root).
  intros b1 b2 b3 b4 b5 b6. destruct b1, b2, b3, b4, b5, b6; reflexivity.
Qed.

(* ---- a predicate that follows table by table ------------------------------------------- *)
Lemma tables_allb_impl2 (P Q R : list sport -> bool) :
  (forall l, P l = true -> Q l = true -> R l = true) ->
  forall p, tables_allb P p = true -> tables_allb Q p = true -> tables_allb R p = true.
Proof.
  intros H p. induction p as [sg a m s IH] using sport_ind2. destruct s as [l|]; [|reflexivity].
  rewrite !tables_allb_some. intros HP HQ. apply andb_true_iff in HP, HQ. destruct HP as [HP HPl], HQ as [HQ HQl].
  apply andb_true_iff. split; [apply H; assumption|].
  rewrite forallb_forall in *. intros x Hx. rewrite Forall_forall in IH. apply IH; auto.
Qed.

Lemma every_table_impl2 (P Q R : list sport -> bool) root :
  (forall l, P l = true -> Q l = true -> R l = true) ->
  every_table P root = true -> every_table Q root = true -> every_table R root = true.
Proof.
  intros H HP HQ. unfold every_table in *. apply andb_true_iff in HP, HQ. destruct HP as [HP HPl], HQ as [HQ HQl].
  apply andb_true_iff. split; [apply H; assumption|].
  rewrite forallb_forall in *. intros x Hx. eapply tables_allb_impl2; eauto.
Qed.

(* ---- the text's proviso (concrete names) gives the key-level one ----------------------- *)
Definition zero_of (a : list tok) : list Z := map (fun t => match t with TC c => c | TH => 48 end) a.

Lemma zero_comparable a : forall b, prefix_clashb a b = true -> comparableb (zero_of a) (zero_of b) = true.
Proof.
  unfold comparableb. induction a as [|x a IH]; intros b H; [reflexivity|].
  destruct b as [|y b]; [cbn [zero_of map NameModel.prefixb]; apply orb_true_r|].
  destruct x as [c|], y as [d|]; cbn [prefix_clashb] in H; try discriminate.
  - apply andb_true_iff in H. destruct H as [Hc H]. apply Z.eqb_eq in Hc. subst d.
    cbn [zero_of map NameModel.prefixb]. rewrite Z.eqb_refl. cbn [andb]. apply IH. exact H.
  - cbn [zero_of map NameModel.prefixb]. rewrite Z.eqb_refl. cbn [andb]. apply IH. exact H.
Qed.

Lemma zero_of_app a b : zero_of (a ++ b) = zero_of a ++ zero_of b.
Proof. apply map_app. Qed.

Lemma zero_of_lit s : zero_of (map TC s) = s.
Proof. unfold zero_of. rewrite map_map. apply map_id. Qed.

Lemma zero_in_expand sg : enums_posb sg = true -> In (zero_of (toks sg)) (expand sg).
Proof.
  induction sg as [|s r IH]; intros H; [left; reflexivity|].
  unfold enums_posb in H. cbn [forallb] in H. apply andb_true_iff in H. destruct H as [Hs Hr].
  rewrite toks_cons, zero_of_app. destruct s as [t|n]; cbn [expand].
  - rewrite zero_of_lit. apply in_map. apply IH. exact Hr.
  - apply in_flat_map. exists 0%nat. split.
    + apply in_seq. apply Z.leb_le in Hs. lia.
    + cbn [zero_of map app]. change (48 :: zero_of (toks r)) with ([48] ++ zero_of (toks r)).
      apply (in_map (app (NameModel.dec (Z.of_nat 0)))). apply IH. exact Hr.
Qed.

Lemma key_clash_concrete a b :
  enums_posb a = true -> enums_posb b = true ->
  prefix_clashb (toks a) (toks b) = true -> concrete_clashb a b = true.
Proof.
  intros Ha Hb H. unfold concrete_clashb. apply existsb_exists.
  exists (zero_of (toks a)). split; [apply zero_in_expand; exact Ha|].
  apply existsb_exists. exists (zero_of (toks b)). split; [apply zero_in_expand; exact Hb|].
  apply zero_comparable. exact H.
Qed.

Lemma stoks_ssegs l : map stoks l = map toks (map ssegs l).
Proof. rewrite map_map. apply map_ext. intros [sg a m s]. reflexivity. Qed.

Lemma concrete_to_key_list ls :
  forallb enums_posb ls = true -> pairs_freeb concrete_clashb ls = true ->
  pairs_freeb prefix_clashb (map toks ls) = true.
Proof.
  induction ls as [|k r IH]; intros Hp H; [reflexivity|].
  cbn [forallb] in Hp. apply andb_true_iff in Hp. destruct Hp as [Hk Hr].
  cbn [pairs_freeb] in H. apply andb_true_iff in H. destruct H as [Hc Hfr].
  cbn [map pairs_freeb]. apply andb_true_iff. split; [|apply IH; assumption].
  rewrite forallb_forall in *. intros k' Hin. apply in_map_iff in Hin. destruct Hin as [y [<- Hy]].
  destruct (prefix_clashb (toks k) (toks y)) eqn:E; [|reflexivity].
  specialize (Hc y Hy). rewrite (key_clash_concrete k y Hk (Hr y Hy) E) in Hc. discriminate.
Qed.

Lemma concrete_to_key_table l :
  forallb (fun p => enums_posb (ssegs p)) l = true ->
  pairs_freeb concrete_clashb (map ssegs l) = true ->
  pairs_freeb prefix_clashb (map stoks l) = true.
Proof.
  intros Hp H. rewrite stoks_ssegs. apply concrete_to_key_list; [|exact H].
  clear H. induction l as [|x r IH]; [reflexivity|]. cbn [forallb map] in *.
  apply andb_true_iff in Hp. destruct Hp as [Hx Hr]. rewrite Hx, (IH Hr). reflexivity.
Qed.

(* the proviso of the property text implies the key-level one *)
Theorem text_proviso_keys root :
  enums_pos root = true -> sibling_prefix_free root = true -> key_prefix_free root = true.
Proof. apply every_table_impl2. exact concrete_to_key_table. Qed.

(* ---- the lookup clause under the text's proviso and the side condition ------------------ *)
Theorem walk_lookup_text root id a :
  names_shape root = true -> enums_pos root = true -> sibling_prefix_free root = true ->
  no_digit_facing root = true ->
  forall out b, walk None (map render_port root) [] = WOk out b ->
  In (id, a) out ->
  apropos (map render_port root) a = AFound id.
Proof.
  intros Hs He Hp Hd. apply walk_lookup_names.
  rewrite names_ok_split, Hs, Hd, (text_proviso_keys root He Hp). reflexivity.
Qed.

(* the clause as the text has it (without the side condition) is false of the
   faithful model: siblings "a#4b" and "a01b" *)
Theorem lookup_text_refuted :
  names_shape alias_stree = true /\ enums_pos alias_stree = true /\ sibling_prefix_free alias_stree = true /\
  no_digit_facing alias_stree = false /\
  exists out b, walk None (map render_port alias_stree) [] = WOk out b /\
    In ([1%nat], [47; 97; 48; 49; 98]) out /\
    apropos (map render_port alias_stree) [47; 97; 48; 49; 98] = AFound [0%nat].
Proof.
  split; [vm_compute; reflexivity|]. split; [vm_compute; reflexivity|]. split; [vm_compute; reflexivity|].
  split; [vm_compute; reflexivity|].
  eexists. eexists. split; [vm_compute; reflexivity|]. split; [|vm_compute; reflexivity].
  do 4 right. left. reflexivity.
Qed.

(* the hypotheses of walk_lookup_text are satisfiable with literal digits next to enumerations
   elsewhere in the tree (NamesOk.ex_digits) *)
Example lookup_text_nonvacuous :
  names_shape ex_digits = true /\ enums_pos ex_digits = true /\ sibling_prefix_free ex_digits = true /\
  no_digit_facing ex_digits = true.
Proof. repeat split; vm_compute; reflexivity. Qed.
