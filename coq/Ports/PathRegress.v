(* C18 - regression witnesses: the functions as they were before the "fix:"
   commits of the work-C18 branch, and the inputs on which they violate the
   property (replayed on the real code: corpus/C18/defects.txt). *)
From Coq Require Import List ZArith Bool.
From RtoscV Require Import Match.PatSpec Match.MatchModel Osc.OscModel Ports.MetaModel Ports.NameModel Ports.PathModel.
Import ListNotations.
Local Open Scope Z_scope.

(* D16: port "e" with metadata ":doc\0=x\0\0" (9 bytes): the pinned collection
   reports 10 bytes, one more than the block holds, so the reply assembly reads
   one byte past it *)
Definition d16_meta : list Z := [58;100;111;99;0;61;120;0;0].
Definition d16_port : port := Port [101] (Some d16_meta) None.

Lemma d16_meta_wf : meta_wf (pmeta d16_port).
Proof.
  right. exists [([100;111;99], Some [120])]. split; [reflexivity|].
  repeat constructor; cbn; try discriminate; intros H; discriminate.
Qed.

Lemma search_length_pinned_refuted :
  exists p, meta_wf (pmeta p) /\
    collect_one_pinned [] p <> Some [hit_of p] /\
    collect_one_pinned [] p =
      Some [{| e_name := Some (pname p); e_data := pmeta p;
               e_len := 1 + Z.of_nat (length d16_meta) |}] /\
    collect_one [] p = Some [hit_of p].
Proof.
  exists d16_port. split; [exact d16_meta_wf|]. split; [|split]; vm_compute; congruence.
Qed.

(* D23: root { "a/" -> { "b/c/" -> { "e" } } }: the address "/a/b/c/" the walk
   builds for the inner sub-tree is not found by the pinned apropos (it looks
   at the byte after the FIRST '/' of "b/c/" and descends with an empty rest) *)
Definition d23_tree : list port :=
  [Port [97;47] None (Some [Port [98;47;99;47] None (Some [Port [101] None None])])].
Definition d23_addr : list Z := [47;97;47;98;47;99;47].

Lemma apropos_subtree_pinned_refuted :
  apropos_pinned d23_tree d23_addr = ANull /\
  apropos d23_tree d23_addr = AFound [0%nat; 0%nat] /\
  path_search d23_tree d23_addr [] Unmodified =
    SOk [{| e_name := Some [101]; e_data := None; e_len := 0 |}].
Proof. repeat split; vm_compute; reflexivity. Qed.

(* observation (outside the quantifier: port names are non-empty): a port with
   an EMPTY name makes the unique-prefix pass read args[prev].s[strlen_prev-1]
   one byte before the string; the model reports the read (SOob), the real code
   trips ASan (global-buffer-overflow, 1 byte left of the literal "") *)
Lemma empty_name_reads_before :
  path_search [Port [] None None; Port [98] None None] [] [] SortedUniquePrefix = SOob /\
  path_search [Port [] None None; Port [98] None None] [] [] Sorted =
    SOk [{| e_name := Some []; e_data := None; e_len := 0 |}; {| e_name := Some [98]; e_data := None; e_len := 0 |}].
Proof. split; vm_compute; reflexivity. Qed.
