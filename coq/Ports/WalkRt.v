(* C09 - the walk WITH a runtime object, for every oracle: what is reported is
   exactly the Spec's enumeration with the sub-trees the oracle prunes left out
   (a pruned sub-tree reports the enabling port that lies inside it, a table
   switched off through its self: port reports its enabling port), the buffer is
   restored, and the walk never fails: in particular the model's "buffer shorter
   than old_end" failure of the erase loop (WalkModel.loop_ports) is unreachable.

   Oracle-relative: o_null / o_disabled / o_selfoff stand for "the child object
   pointer is NULL" and for the two calls of port_is_enabled.  Which address
   port_is_enabled asks and that the oracle built from the toggles' answers is
   that call: Ports/EnabledModel.v. *)
From Coq Require Import List ZArith Bool Arith Lia.
From RtoscV Require Import Match.PatSpec Match.MatchModel Match.MatchProofs
     Ports.MetaModel Ports.NameModel Ports.PathModel Ports.WalkModel Ports.WalkProofs Ports.DecProofs
     Ports.EnumProofs.
Import ListNotations.
Local Open Scope Z_scope.

(* ---- the erase loop's length test never fires --------------------------------- *)
(* whatever a port of the table does to the buffer, it leaves an extension of what
   it was given: the model's explicit failure "string shorter than old_end" in
   loop_ports is dead, for every tree (well-formed names or not) and every oracle *)
Theorem erase_check_dead : forall rt ids i q buf o b,
  step_port (fun q ids' b => walk_port rt ids' q b) rt ids i q buf = WOk o b ->
  Nat.ltb (length b) (length buf) = false.
Proof.
  intros rt ids i q buf o b H.
  apply step_port_buf in H.
  - destruct H as [x ->]. apply Nat.ltb_ge. rewrite app_length. lia.
  - intros ids' x o' b' Hx Hw. apply walk_port_buf in Hw. rewrite Hw. apply norm_nonempty. exact Hx.
Qed.

Section Rt.
Variable o : oracle.

Definition toggle_report (ids : list nat) (r : option (nat * list Z)) : list report :=
  match r with Some (j, a) => [(ids ++ [j], a)] | None => [] end.

(* the Spec with a runtime object.  ids = the port's own index path. *)
Fixpoint spec_rt (ids : list nat) (prefix : list Z) (p : sport) {struct p} : list report :=
  match p with
  | SPort segs _ _ None => map (fun a => (ids, prefix ++ a)) (expand segs)
  | SPort segs a m (Some l) =>
      flat_map (fun x =>
        let b := prefix ++ x in
        if o_null o b || o_disabled o b then
          (if negb (o_null o b) && o_disabled o b
           then toggle_report ids (sub_toggle (render_port (SPort segs a m (Some l))) b) else [])
        else if o_selfoff o b then toggle_report ids (self_toggle (map render_port l) b)
        else (fix go (l : list sport) (i : nat) : list report :=
                match l with
                | [] => []
                | q :: r => spec_rt (ids ++ [i]) b q ++ go r (S i)
                end) l 0%nat) (expand segs)
  end.

Fixpoint rt_table (ids : list nat) (b : list Z) (l : list sport) (i : nat) : list report :=
  match l with
  | [] => []
  | q :: r => spec_rt (ids ++ [i]) b q ++ rt_table ids b r (S i)
  end.

(* a table reached at address b *)
Definition rt_visit (ids : list nat) (b : list Z) (l : list sport) : list report :=
  if o_selfoff o b then toggle_report ids (self_toggle (map render_port l) b) else rt_table ids b l 0%nat.

Definition spec_walk_rt (root : list sport) : list report := rt_visit [] [47] root.

(* every table the oracle switches off through self: has the enabling port its
   self: port names (the code asserts it: assert(ask_port)) *)
Definition is_some {A} (x : option A) : bool := match x with Some _ => true | None => false end.

Fixpoint defined_rt (prefix : list Z) (p : sport) {struct p} : bool :=
  match p with
  | SPort _ _ _ None => true
  | SPort segs _ _ (Some l) =>
      forallb (fun x =>
        let b := prefix ++ x in
        if o_null o b || o_disabled o b then true
        else if o_selfoff o b then is_some (self_toggle (map render_port l) b)
        else (fix go (l : list sport) : bool :=
                match l with [] => true | q :: r => defined_rt b q && go r end) l) (expand segs)
  end.

Fixpoint defined_table (b : list Z) (l : list sport) : bool :=
  match l with [] => true | q :: r => defined_rt b q && defined_table b r end.

Definition defined_visit (b : list Z) (l : list sport) : bool :=
  if o_selfoff o b then is_some (self_toggle (map render_port l) b) else defined_table b l.

Definition site_rt (ids : list nat) (q : sport) (l : list sport) (b : list Z) : list report :=
  if o_null o b || o_disabled o b then
    (if negb (o_null o b) && o_disabled o b then toggle_report ids (sub_toggle (render_port q) b) else [])
  else rt_visit ids b l.

Lemma spec_rt_subtree ids pre sg a m l :
  spec_rt ids pre (SPort sg a m (Some l)) =
  flat_map (fun x => site_rt ids (SPort sg a m (Some l)) l (pre ++ x)) (expand sg).
Proof.
  cbn [spec_rt]. apply flat_map_ext. intros x. unfold site_rt, rt_visit.
  destruct (o_null o (pre ++ x) || o_disabled o (pre ++ x)); [reflexivity|].
  destruct (o_selfoff o (pre ++ x)); [reflexivity|].
  generalize 0%nat. induction l as [|q r IH]; intros i; [reflexivity|].
  cbn [rt_table]. rewrite <- IH. reflexivity.
Qed.

Lemma defined_rt_subtree pre sg a m l :
  defined_rt pre (SPort sg a m (Some l)) =
  forallb (fun x => if o_null o (pre ++ x) || o_disabled o (pre ++ x) then true
                    else defined_visit (pre ++ x) l) (expand sg).
Proof.
  cbn [defined_rt]. unfold defined_visit.
  induction (expand sg) as [|x xs IH]; [reflexivity|]. cbn [forallb]. rewrite IH. f_equal.
  destruct (o_null o (pre ++ x) || o_disabled o (pre ++ x)); [reflexivity|].
  destruct (o_selfoff o (pre ++ x)); [reflexivity|].
  clear IH. induction l as [|q r IHl]; [reflexivity|]. cbn [defined_table]. rewrite <- IHl. reflexivity.
Qed.

Theorem walk_rt_wf p : forall ids buf sg a m l,
  p = SPort sg a m (Some l) -> Forall sport_wf l -> buf <> [] -> defined_visit buf l = true ->
  walk_port (Some o) ids (render_port p) buf = WOk (rt_visit ids buf l) buf.
Proof.
  induction p as [sg0 a0 m0 s0 IHs] using sport_ind2.
  intros ids buf sg a m l E Hl Hb Hdef. inversion E; subst. clear E.
  cbn [render_port walk_port]. rewrite (norm_nonempty buf Hb).
  unfold rt_visit, defined_visit in *.
  destruct (o_selfoff o buf) eqn:Eself.
  { destruct (self_toggle (map render_port l) buf) as [[j x]|]; [reflexivity | discriminate]. }
  assert (Hloop : forall l' i out0,
            Forall sport_wf l' -> defined_table buf l' = true ->
            Forall (fun q => forall ids buf sg a m l, q = SPort sg a m (Some l) -> Forall sport_wf l -> buf <> [] ->
                       defined_visit buf l = true ->
                       walk_port (Some o) ids (render_port q) buf = WOk (rt_visit ids buf l) buf) l' ->
            loop_ports (fun q ids' b => walk_port (Some o) ids' q b) (Some o) ids (length buf)
                       (map render_port l') i out0 buf
            = WOk (out0 ++ rt_table ids buf l' i) buf).
  { induction l' as [|q r IHr]; intros i out0 Hpl Hd HIH.
    - cbn [map loop_ports rt_table]. rewrite app_nil_r. reflexivity.
    - inversion Hpl as [|? ? Hq Hr]; subst. inversion HIH as [|? ? HIq HIr]; subst.
      cbn [defined_table] in Hd. apply andb_true_iff in Hd as [Hdq Hdr].
      cbn [map loop_ports rt_table].
      destruct q as [sg1 a1 m1 s1]. cbn [sport_wf] in Hq. destruct Hq as [Ha Hq].
      destruct s1 as [l1|].
      + (* a sub-tree: walk_ports_recurse0 over its components, walk_ports_recurse at each *)
        destruct Hq as [[cs [-> [Hcs Hne]]] Hsub].
        cbn [render_port]. unfold step_port.
        change (render_name (comps_segs cs) a1) with ([] ++ flatten (comps_segs cs) ++ a1).
        rewrite (recurse0_spec cs [] a1 buf _ _ buf Hcs eq_refl eq_refl Ha);
          [| intros E0; contradiction
           | pose proof (count_some_le cs); cbn [app]; rewrite app_length; lia].
        set (ws := map (fun a : list Z => buf ++ [] ++ a) (expand (comps_segs cs))).
        rewrite (run_all_const _ (fun b => site_rt (ids ++ [i]) (SPort (comps_segs cs) a1 m1 (Some l1)) l1 b) ws).
        * destruct (last_extends buf (expand (comps_segs cs))) as [x Hx].
          cbn [app] in ws. unfold ws. rewrite Hx.
          replace (length (buf ++ x) <? length buf)%nat with false
            by (symmetry; apply Nat.ltb_ge; rewrite app_length; lia).
          rewrite firstn_app_exact. rewrite IHr by assumption.
          rewrite <- app_assoc. f_equal. f_equal.
          rewrite spec_rt_subtree. rewrite flat_map_map. reflexivity.
        * intros w Hw. unfold ws in Hw. apply in_map_iff in Hw. destruct Hw as [x [<- Hx]].
          cbn [app]. unfold site_rt.
          rewrite defined_rt_subtree in Hdq. rewrite forallb_forall in Hdq. specialize (Hdq x Hx).
          destruct (o_null o (buf ++ x) || o_disabled o (buf ++ x)) eqn:Esk.
          -- unfold skipped_reports. cbn [render_port].
             destruct (negb (o_null o (buf ++ x)) && o_disabled o (buf ++ x)); [|reflexivity].
             unfold toggle_report.
             change (render_name (comps_segs cs) a1) with ([] ++ flatten (comps_segs cs) ++ a1).
             destruct (sub_toggle _ (buf ++ x)) as [[j y]|]; [|reflexivity].
             rewrite <- app_assoc. reflexivity.
          -- change (Port ([] ++ flatten (comps_segs cs) ++ a1) m1 (Some (map render_port l1)))
               with (render_port (SPort (comps_segs cs) a1 m1 (Some l1))).
             apply (HIq (ids ++ [i]) (buf ++ x) (comps_segs cs) a1 m1 l1 eq_refl (wf_all_forall _ Hsub)).
             ++ intros E0. apply app_eq_nil in E0. destruct E0. contradiction.
             ++ exact Hdq.
      + (* a leaf: no runtime involved *)
        cbn [render_port]. unfold step_port.
        assert (Hh : has_char 35 (render_name sg1 a1) = has_enum sg1).
        { unfold render_name. fold (flatten sg1). rewrite has_char_app, (flatten_hash sg1 Hq).
          destruct Ha as [_ ->]. apply orb_false_r. }
        rewrite Hh. destruct (has_enum sg1) eqn:Ee.
        * unfold render_name at 2. fold (flatten sg1).
          rewrite (bundle_spec sg1 a1 buf _ Hq Ha Ee)
            by (pose proof (count_enum_le sg1); unfold render_name; fold (flatten sg1); rewrite app_length; lia).
          rewrite Nat.ltb_irrefl, firstn_all. rewrite IHr by assumption.
          rewrite <- app_assoc. f_equal. f_equal. cbn [spec_rt]. rewrite map_map. reflexivity.
        * assert (Hup : upto_colon (render_name sg1 a1) = flatten sg1).
          { unfold render_name. fold (flatten sg1). apply upto_colon_name; [apply flatten_enumfree_colon; assumption | apply Ha]. }
          rewrite Hup.
          replace (length (buf ++ flatten sg1) <? length buf)%nat with false
            by (symmetry; apply Nat.ltb_ge; rewrite app_length; lia).
          rewrite firstn_app_exact. rewrite IHr by assumption.
          rewrite <- app_assoc. f_equal.
          cbn [spec_rt]. rewrite (expand_enumfree sg1 Ee). reflexivity. }
  specialize (Hloop l 0%nat [] Hl Hdef). cbn [app] in Hloop. apply Hloop.
  eapply Forall_impl; [|exact IHs]. intros q Hq. exact Hq.
Qed.

Theorem walk_enumerates_rt root :
  Forall sport_wf root -> defined_visit [47] root = true ->
  walk (Some o) (map render_port root) [] = WOk (spec_walk_rt root) [47].
Proof.
  intros H Hd. unfold walk. rewrite walk_port_empty_buf.
  change (Port [] None (Some (map render_port root)))
    with (render_port (SPort [] [] None (Some root))).
  rewrite (walk_rt_wf _ [] [47] [] [] None root eq_refl H); [reflexivity | discriminate | exact Hd].
Qed.

Corollary walk_rt_total root :
  Forall sport_wf root -> defined_visit [47] root = true ->
  walk (Some o) (map render_port root) [] <> WFail.
Proof. intros H Hd. rewrite walk_enumerates_rt by assumption. discriminate. Qed.
End Rt.

(* an oracle that prunes nothing reports what the static walk reports *)
Definition o_none : oracle := {| o_null := fun _ => false; o_disabled := fun _ => false; o_selfoff := fun _ => false |}.

Lemma spec_rt_none : forall p ids pre, spec_rt o_none ids pre p = spec_addrs_port ids pre p.
Proof.
  induction p as [sg a m s IHs] using sport_ind2. intros ids pre.
  destruct s as [l|]; [|reflexivity].
  cbn [spec_rt spec_addrs_port o_none o_null o_disabled o_selfoff orb].
  apply flat_map_ext. intros x. generalize 0%nat. revert IHs.
  induction l as [|q r IHr]; intros IHs i; [reflexivity|].
  inversion IHs as [|? ? Hq Hr]; subst. rewrite Hq. rewrite (IHr Hr). reflexivity.
Qed.
