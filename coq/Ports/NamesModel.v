(* C09 / C18 - the decidable predicate names_ok over structured port trees
   (the hypothesis of C09_dispatchable and C18_lookup; proofs in NamesOk.v).
   No proofs in this file: it is extracted and evaluated on every generated
   tree by the tie. *)
From Coq Require Import List ZArith Bool.
From RtoscV Require Import Match.PatSpec Match.MatchModel Ports.NameModel Ports.PathModel Ports.WalkModel.
Import ListNotations.
Local Open Scope Z_scope.

(* the tokens of a name's path part: its literal characters, and one token for
   every '#N' *)
Inductive tok := TC (c : Z) | TH.

Definition toks (l : list NameModel.seg) : list tok :=
  flat_map (fun s => match s with NameModel.Lit t => map TC t | NameModel.Enum _ => [TH] end) l.

Definition stoks (q : sport) : list tok := match q with SPort sg _ _ _ => toks sg end.

(* two names CLASH when one could spell a beginning of what the other spells:
   literal characters must agree, '#N' against '#M' goes on behind both, '#N'
   against a literal digit counts as a clash (a#4b / a01b), and so does the end
   of either name (x / xy: "a sibling's name is a prefix of another's") *)
Fixpoint clashb (a b : list tok) : bool :=
  match a, b with
  | [], _ => true
  | _, [] => true
  | TC c :: a', TC d :: b' => (c =? d) && clashb a' b'
  | TH :: a', TH :: b' => clashb a' b'
  | TH :: _, TC d :: _ => isdigit d
  | TC c :: _, TH :: _ => isdigit c
  end.

Definition litcharb (c : Z) : bool :=
  (0 <? c) && (c <? 127) && negb ((c =? 58) || (c =? 123) || (c =? 42) || (c =? 35)).

Fixpoint segs_okb (l : list NameModel.seg) : bool :=
  match l with
  | [] => true
  | NameModel.Lit s :: r => negb (is_nil s) && forallb litcharb s && segs_okb r
  | NameModel.Enum n :: r =>
      (0 <=? n) && (n <? 1000000000) &&
      match r with
      | NameModel.Enum _ :: _ => false
      | NameModel.Lit t :: _ => negb (starts_with_digit t)
      | [] => true
      end && segs_okb r
  end.

Definition argsb (a : list Z) : bool :=
  is_nil a || ((hd0 a =? 58) && forallb (fun c => negb (c =? 0)) a && negb (has_char 35 a)).

Definition last_not_slashb (sg : list NameModel.seg) : bool :=
  match last sg (NameModel.Enum 0) with
  | NameModel.Lit s => negb (last s 0 =? 47)
  | NameModel.Enum _ => true
  end.

Definition first_okb (sg : list NameModel.seg) : bool :=
  match sg with NameModel.Lit (c :: _) :: _ => negb (c =? 47) | _ => false end.

Definition leaf_okb (sg : list NameModel.seg) (a : list Z) : bool :=
  segs_okb sg && first_okb sg && last_not_slashb sg && argsb a.

Definition text_okb (t0 : list Z) : bool :=
  negb (is_nil t0) && forallb litcharb t0 && negb (has_char 47 t0).

(* a sub-tree name: one or more components "text/" or "text#N/", each literal
   segment cut behind its '/' ("a#3/b#2/c/" = a #3 / b #2 / c/) *)
Fixpoint comps_okb (sg : list NameModel.seg) : bool :=
  match sg with
  | [] => true
  | NameModel.Enum _ :: _ => false
  | NameModel.Lit t :: r =>
      match r with
      | NameModel.Enum n :: NameModel.Lit [c] :: r' =>
          (c =? 47) && text_okb t && (0 <=? n) && (n <? 1000000000) && comps_okb r'
      | NameModel.Enum _ :: _ => false
      | _ => (last t 0 =? 47) && text_okb (removelast t) && comps_okb r
      end
  end.

Definition sub_okb (sg : list NameModel.seg) (a : list Z) : bool :=
  is_nil a && negb (is_nil sg) && comps_okb sg.

Fixpoint keys_freeb (ks : list (list tok)) : bool :=
  match ks with
  | [] => true
  | k :: r => forallb (fun k' => negb (clashb k k')) r && keys_freeb r
  end.

Definition table_okb (l : list sport) : bool := keys_freeb (map stoks l).

Fixpoint port_okb (p : sport) : bool :=
  match p with
  | SPort sg a _ None => leaf_okb sg a
  | SPort sg a _ (Some l) =>
      sub_okb sg a && table_okb l &&
      (fix all (l : list sport) : bool := match l with [] => true | x :: r => port_okb x && all r end) l
  end.

(* names_ok: every name of the documented shape (literal text may hold digits;
   the text behind a '#N' does not begin with one), the names of every table
   pairwise not clashing *)
Definition names_ok (root : list sport) : bool := table_okb root && forallb port_okb root.

