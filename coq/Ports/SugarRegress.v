(* C14 - the two callbacks helpers as they were before the "fix:" commits, kept
   with the witnesses that refute the property for them (D12, D22).  Both
   witnesses were replayed on the unfixed code (corpus/C14/defects.txt). *)
From Coq Require Import List ZArith Bool Lia.
From RtoscV Require Import Ports.SugarModel Ports.SugarProofs.
Import ListNotations.
Local Open Scope Z_scope.

(* D12.  rCAPPLY used to pass static_cast<int>(old) where the variadic
   reply("/undo_change", "sff", ...) reads a double.  With the x86-64 calling
   convention the first 'f' then receives the only floating-point argument that
   was passed (the new value) and the second whatever the next vector register
   holds ([junk]). *)
Definition rCAPPLY_float_old (junk : Z) (loc : str) (cur var : Z) : list out :=
  if fneqb cur var then [Reply (mk undo_path [As loc; Af var; Af junk])] else [].

Definition rParamFCb_old (junk : Z) (e : penv) (loc : str) (field : Z) (args : list arg)
  : option (Z * list out) :=
  match args with
  | [] => Some (field, [Reply (mk loc [Af field])])
  | a :: _ =>
    match arg_f a with
    | None => None
    | Some v =>
      let var := rLIMIT fltb (p_min e) (p_max e) v in
      Some (var, rCAPPLY_float_old junk loc field var ++ [Bcast (mk loc [Af var])])
    end
  end.

(* 1.25 -> 2.0 on a float port without bounds: whatever the register holds, the
   event does not carry (1.25, 2.0) *)
Lemma undo_iff_float_old_refuted :
  exists e loc old b,
    nonan old /\ nonan b /\ onan (p_min e) /\ onan (p_max e) /\
    forall junk st o, rParamFCb_old junk e loc old [Af b] = Some (st, o) ->
      fkey old <> fkey st /\ undo_events o <> [undo_event loc Af old st].
Proof.
  exists {| p_name := [103]; p_hash := false; p_min := None; p_max := None; p_map := [] |},
         [47; 103], 1067450368, 1073741824.
  repeat split; try reflexivity; try (intros b E; discriminate).
  - inversion H; subst. cbn. lia.
  - inversion H; subst. cbn. intro E. inversion E.
Qed.

(* D22.  rBOILS_BEGIN used to take the first digit run of the whole address. *)
Definition boils_idx_old (m : str) : Z := atoi_acc 0 (skip_nondigit m).

Definition rArrayICb_old (e : penv) (loc m : str) (arr : list Z) (args : list arg) :=
  at_idx arr (boils_idx_old m) (fun cur => rArrayICb_elem e loc cur args).

(* port p2v#4, address p2v3: element 2 is read and written, element 3 kept *)
Lemma array_frame_old_refuted :
  exists e ds arr v,
    p_hash e = true /\ digits_ok ds /\ digits_val ds = 3 /\
    boils_idx_old (array_address e ds []) = 2 /\
    rArrayICb_old e [47] (array_address e ds []) arr [Ai v] =
      Some ([1; 2; 50; 4], [Reply (mk undo_path [As [47]; Ai 3; Ai 50]); Bcast (mk [47] [Ai 50])]) /\
    arr = [1; 2; 3; 4].
Proof.
  exists {| p_name := [112; 50; 118]; p_hash := true; p_min := None; p_max := None; p_map := [] |},
         [3], [1; 2; 3; 4], 50.
  repeat split; try reflexivity; try discriminate.
  repeat constructor; lia.
Qed.

(* The side condition [char_range old] of NS_arrayI cannot be dropped (CURRENT
   code): rArrayI on an array whose elements are wider than char (e.g. int)
   holding 261: a set of 5 stores 5 - the stored value changed - but rCAPPLY
   compares (char)261 = 5 with 5 and emits no undo event; a set of 7 reports the
   previous value 5, not 261.  Replayed on the real code with an int array
   (kind AIW of the harness; corpus/C14/arrayI_wide.txt); finding class
   arrayI-wide-element. *)
Lemma arrayI_wide_element :
  let e := {| p_name := [119]; p_hash := true; p_min := None; p_max := None; p_map := [] |} in
  ~ char_range 261 /\ char_range 5 /\ char_range 7 /\
  rArrayICb_elem e [47; 119; 48] 261 [] = Some (261, [Reply (mk [47; 119; 48] [Ai 261])]) /\
  rArrayICb_elem e [47; 119; 48] 261 [Ai 5] = Some (5, [Bcast (mk [47; 119; 48] [Ai 5])]) /\
  rArrayICb_elem e [47; 119; 48] 261 [Ai 7] =
    Some (7, [Reply (mk undo_path [As [47; 119; 48]; Ai 5; Ai 7]); Bcast (mk [47; 119; 48] [Ai 7])]).
Proof.
  cbn zeta. split; [unfold char_range; lia|]. split; [unfold char_range; lia|].
  split; [unfold char_range; lia|]. repeat split; reflexivity.
Qed.
