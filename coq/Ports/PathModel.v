(* C18 - model of the path utilities of src/cpp/ports.cpp:
     Ports::collapsePath with parent_path_p / read_path / move_path,
     Ports::operator[], Ports::apropos (with the fragment of rtosc_match_path
     it needs: literal names, '#N', '/', ':'),
     rtosc::path_search (both overloads).
   Spec-side definitions (what the property text says) are at the end of each
   part.  No proofs in this file.

   Conventions.  Bytes are Z, a C string is the list of its bytes without the
   terminator.  In collapsePath the three cursors run backwards and may stop
   one position *before* the buffer (the loops test r<start after the
   decrement), so a cursor p+i with -1 <= i is the natural number i+1; the
   buffer is the list of the strlen(p) bytes before the terminator (the code
   never touches the terminator after it located it).  A read or a write at
   an index outside that list makes the model function return None. *)
From Coq Require Import List ZArith Bool Arith.
From RtoscV Require Import Match.PatSpec Match.MatchModel Osc.OscModel Ports.MetaModel Ports.NameModel.
Import ListNotations.
Local Open Scope Z_scope.

(* notations, not definitions: lia must see one type for all lengths *)
Notation byte := Z (only parsing).
Notation str := (list Z) (only parsing).

(* ======================================================================== *)
(* Part 1: collapsePath                                                     *)
(* ======================================================================== *)

Fixpoint upd (b : list byte) (i : nat) (v : byte) : option (list byte) :=
  match b, i with
  | [], _ => None
  | _ :: t, O => Some (v :: t)
  | c :: t, S j => match upd t j v with Some t' => Some (c :: t') | None => None end
  end.

(* parent_path_p(read, start): rp = (read - start) + 1.
     if(read-start<2) return false;
     return read[0]=='.' && read[-1]=='.' && read[-2]=='/';   (short-circuit) *)
Definition parent_path_p (b : list byte) (rp : nat) : option bool :=
  match rp with
  | S (S (S k)) =>
      match nth_error b (S (S k)) with
      | None => None
      | Some c0 =>
          if negb (c0 =? 46) then Some false else
          match nth_error b (S k) with
          | None => None
          | Some c1 =>
              if negb (c1 =? 46) then Some false else
              match nth_error b k with
              | None => None
              | Some c2 => Some (c2 =? 47)
              end
          end
      end
  | _ => Some false
  end.

(* read_path(r, start):
     while(1) { if(r<start) break; bool doBreak = *r=='/'; r--; if(doBreak) break; } *)
Fixpoint read_path (b : list byte) (rp : nat) : option nat :=
  match rp with
  | O => Some O
  | S r =>
      match nth_error b r with
      | None => None
      | Some c => if c =? 47 then Some r else read_path b r
      end
  end.

(* move_path(r, w, start):
     while(1) { if(r<start) break; bool doBreak = *r=='/'; *w-- = *r--; if(doBreak) break; }
   wp = 0 would be a write before the buffer *)
Fixpoint move_path (b : list byte) (rp wp : nat) : option (list byte * nat * nat) :=
  match rp with
  | O => Some (b, O, wp)
  | S r =>
      match nth_error b r, wp with
      | Some c, S w =>
          match upd b w c with
          | None => None
          | Some b' => if c =? 47 then Some (b', r, w) else move_path b' r w
          end
      | _, _ => None
      end
  end.

Inductive cres := COk (buf : list byte) (pos : nat) | COob | CFuel.

(* the while(read_pos >= p) loop; every round moves read_pos down by at least
   one, the fuel is strlen(p)+1 *)
Fixpoint collapse_loop (fuel : nat) (b : list byte) (rp wp : nat) (consuming : Z) : cres :=
  match fuel with
  | O => CFuel
  | S f =>
      match rp with
      | O => COk b wp                            (* return write_pos+1 *)
      | _ =>
          match parent_path_p b rp with
          | None => COob
          | Some true =>
              match read_path b rp with
              | Some rp' => collapse_loop f b rp' wp (consuming + 1)
              | None => COob
              end
          | Some false =>
              if negb (consuming =? 0) then
                match read_path b rp with
                | Some rp' => collapse_loop f b rp' wp (consuming - 1)
                | None => COob
                end
              else
                match move_path b rp wp with
                | Some (b', rp', wp') => collapse_loop f b' rp' wp' consuming
                | None => COob
                end
          end
      end
  end.

(* char *Ports::collapsePath(char *p): p_end = last non-null char, both
   cursors start there *)
Definition collapse (p : str) : cres :=
  collapse_loop (S (length p)) p (length p) (length p) 0.

(* the string the returned pointer points at *)
Definition collapse_str (p : str) : option (nat * str) :=
  match collapse p with COk b pos => Some (pos, skipn pos b) | _ => None end.

(* ---- Spec: forward stack machine over the components --------------------- *)
(* components of an absolute path: "/a/b" -> [a;b], "/a/" -> [a;""], "/" -> [""] *)
Fixpoint comps_of (p : str) : list str :=
  match p with
  | [] => [[]]
  | c :: t =>
      if c =? 47 then [] :: comps_of t
      else match comps_of t with
           | h :: r => (c :: h) :: r
           | [] => [[c]]
           end
  end.

Definition components (p : str) : option (list str) :=
  match p with
  | c :: t => if c =? 47 then Some (comps_of t) else None
  | [] => None
  end.

Definition flat (cs : list str) : str := concat (map (fun c => 47 :: c) cs).

Definition is_dotdot (c : str) : bool :=
  match c with
  | [a; b] => (a =? 46) && (b =? 46)
  | _ => false
  end.

(* the stack is kept top first; ".." pops (nothing to pop at the root) *)
Definition stack_step (st : list str) (c : str) : list str :=
  if is_dotdot c then tl st else c :: st.

Definition stack_spec (cs : list str) : list str := rev (fold_left stack_step cs []).

(* ======================================================================== *)
(* Part 2: Ports::operator[] and Ports::apropos                             *)
(* ======================================================================== *)

(* const Port *Ports::operator[](const char *name) const:
     while( *_needle && *_needle==*_haystack)_needle++,_haystack++;
     if( *_needle == 0 && ( *_haystack == ':' || *_haystack == '\0')) return &port; *)
Fixpoint index_match (needle hay : str) : bool :=
  match needle with
  | [] => (hd0 hay =? 58) || (hd0 hay =? 0)
  | n :: nt =>
      match hay with
      | h :: ht => if n =? h then index_match nt ht else false
      | [] => false
      end
  end.

Fixpoint index_from (t : list port) (i : nat) (name : str) : option nat :=
  match t with
  | [] => None
  | p :: r => if index_match name (pname p) then Some i else index_from r (S i) name
  end.
Definition index_op (t : list port) (name : str) : option nat := index_from t 0%nat name.

Inductive ares :=
| ANull                          (* NULL *)
| AFound (id : list nat)         (* the port with that index path *)
| ACrash                         (* strchr(path,'/') returned NULL and was dereferenced *)
| AUnsupported.                  (* the matcher model ran out of fuel (never: C05_path_total) *)

Definition aprepend (i : nat) (r : ares) : ares :=
  match r with AFound id => AFound (i :: id) | x => x end.

(* strchr(path,'/')[1] != 0 ; None = no '/' in path *)
Fixpoint after_first_slash (path : str) : option bool :=
  match path with
  | [] => None
  | c :: t => if c =? 47 then Some (negb (hd0 t =? 0)) else after_first_slash t
  end.

(* the second loop of apropos: "now find the best port" *)
Fixpoint apropos_leaf (t : list port) (i : nat) (path : str) : ares :=
  match t with
  | [] => ANull
  | p :: r =>
      if is_nil path then apropos_leaf r (S i) path
      else if prefixb path (pname p) then AFound [i]
      else match match_path (pname p) path with
           | MRet _ _ => AFound [i]
           | MNull => apropos_leaf r (S i) path
           | MFuel => AUnsupported
           end
  end.

(* the first loop of apropos over the table t: ports whose name holds a '/'.
   rec = the recursive call port.ports->apropos(path_end).
   [pinned] = true is the code before the commit "fix: apropos returned NULL
   for the address of a sub-tree ...": the decision to descend looked at the
   byte after the FIRST '/' of path (strchr(path,'/')[1]) instead of at
   *path_end; kept for the regression witness in PathRegress.v *)
Section Loop1.
  Variable rec : port -> str -> ares.
  Variable pinned : bool.
  Variable t : list port.
  Variable path : str.

  Fixpoint apropos_loop1 (l : list port) (i : nat) {struct l} : ares :=
    match l with
    | [] => apropos_leaf t 0%nat path
    | q :: r =>
        if has_char 47 (pname q) then
          match match_path (pname q) path with
          | MRet _ path_end =>
              match psub q with
              | Some _ =>
                  if pinned then
                    match after_first_slash path with
                    | None => ACrash
                    | Some true => aprepend i (rec q path_end)
                    | Some false => AFound [i]
                    end
                  else
                    (* (port.ports && *path_end) ? port.ports->apropos(path_end) : &port *)
                    if negb (is_nil path_end) then aprepend i (rec q path_end)
                    else AFound [i]
              | None => AFound [i]
              end
          | MNull => apropos_loop1 r (S i)
          | MFuel => AUnsupported
          end
        else apropos_loop1 r (S i)
    end.
End Loop1.

(* p.ports->apropos(path), p.ports non-NULL *)
Fixpoint apropos_port (pinned : bool) (p : port) (path0 : str) {struct p} : ares :=
  match p with
  | Port _ _ None => ANull
  | Port _ _ (Some t) =>
      let path := match path0 with c :: r => if c =? 47 then r else path0 | [] => path0 end in
      apropos_loop1 (fun q pe => apropos_port pinned q pe) pinned t path t 0%nat
  end.

Definition apropos (root : list port) (path : str) : ares :=
  apropos_port false (Port [] None (Some root)) path.
Definition apropos_pinned (root : list port) (path : str) : ares :=
  apropos_port true (Port [] None (Some root)) path.

(* ======================================================================== *)
(* Part 3: path_search                                                      *)
(* ======================================================================== *)

(* one found port: the name pointer (None after the unique-prefix pass marked
   it unused), the blob data pointer (None = NULL) and the blob length *)
Record hit := { e_name : option str; e_data : option (list byte); e_len : Z }.

Inductive sres := SOk (es : list hit) | SOob | SUnsupported | SCrash.

(* the collection lambda fn(p); None = MetaContainer::length read outside
   the block *)
Definition collect_one (needle : str) (p : port) : option (list hit) :=
  if prefixb needle (pname p) then
    match pmeta p with
    | Some ((c :: _) as m) =>
        if c =? 0 then Some [{| e_name := Some (pname p); e_data := None; e_len := 0 |}]
        else match meta m with
             | Some stripped =>
                 match length_ stripped with
                 | Some n => Some [{| e_name := Some (pname p); e_data := Some m; e_len := n |}]
                 | None => None
                 end
             | None => None
             end
    | Some [] => None                                (* reading *p.metadata of an empty block *)
    | None => Some [{| e_name := Some (pname p); e_data := None; e_len := 0 |}]
    end
  else Some [].

(* the collection lambda before the commit "fix: path_search reported a
   metadata length one byte past the block": MetaContainer(p.metadata).length()
   on the pointer that still has its leading ':' (kept for PathRegress.v) *)
Definition collect_one_pinned (needle : str) (p : port) : option (list hit) :=
  if prefixb needle (pname p) then
    match pmeta p with
    | Some ((c :: _) as m) =>
        if c =? 0 then Some [{| e_name := Some (pname p); e_data := None; e_len := 0 |}]
        else match length_ m with
             | Some n => Some [{| e_name := Some (pname p); e_data := Some m; e_len := n |}]
             | None => None
             end
    | Some [] => None
    | None => Some [{| e_name := Some (pname p); e_data := None; e_len := 0 |}]
    end
  else Some [].

Fixpoint collect (needle : str) (t : list port) : option (list hit) :=
  match t with
  | [] => Some []
  | p :: r =>
      match collect_one needle p, collect needle r with
      | Some a, Some b => Some (a ++ b)
      | _, _ => None
      end
  end.

(* strcmp(a, b) < 0 on unsigned bytes *)
Fixpoint str_ltb (a b : str) : bool :=
  match a, b with
  | [], [] => false
  | [], _ :: _ => true
  | _ :: _, [] => false
  | x :: a', y :: b' => if x =? y then str_ltb a' b' else x <? y
  end.

(* is_less / is_less_2 on pairs; a NULL name sorts last *)
Definition entry_ltb (a b : hit) : bool :=
  match e_name a, e_name b with
  | None, _ => false
  | Some _, None => true
  | Some x, Some y => str_ltb x y
  end.

(* std::sort is modelled as a stable insertion sort; the order it gives to
   entries with equal names is unspecified and canonicalised in the tie *)
Fixpoint insert_sorted (x : hit) (l : list hit) : list hit :=
  match l with
  | [] => [x]
  | y :: r => if entry_ltb y x then y :: insert_sorted x r else x :: l
  end.

Fixpoint sort_entries (l : list hit) : list hit :=
  match l with
  | [] => []
  | x :: r => insert_sorted x (sort_entries r)
  end.

Fixpoint last_char (s : str) : option byte :=
  match s with
  | [] => None                         (* s[strlen-1] with strlen = 0: one before the string *)
  | [c] => Some c
  | _ :: t => last_char t
  end.

(* the unique-prefix pass over the sorted array:
     if(strlen_prev < strlen(args[pos].s) &&
        0 == strncmp(args[pos].s, args[prev_pos].s, strlen_prev) &&
        args[prev_pos].s[strlen_prev-1] == '/')  mark unused  else  prev = this *)
Fixpoint mark_pass (prev : str) (l : list hit) : option (list hit) :=
  match l with
  | [] => Some []
  | e :: r =>
      match e_name e with
      | None => None                                  (* strlen(NULL) *)
      | Some cur =>
          if (Nat.ltb (length prev) (length cur)) && prefixb prev cur then
            match last_char prev with
            | None => None
            | Some c =>
                if c =? 47 then
                  match mark_pass prev r with
                  | Some r' => Some ({| e_name := None; e_data := e_data e; e_len := e_len e |} :: r')
                  | None => None
                  end
                else
                  match mark_pass cur r with
                  | Some r' => Some (e :: r')
                  | None => None
                  end
            end
          else
            match mark_pass cur r with
            | Some r' => Some (e :: r')
            | None => None
            end
      end
  end.

Definition count_unused (l : list hit) : nat :=
  length (filter (fun e => match e_name e with None => true | Some _ => false end) l).

Definition unique_prefix (sorted : list hit) : option (list hit) :=
  match sorted with
  | [] => Some []
  | [e] => Some [e]
  | e0 :: r =>
      match e_name e0 with
      | None => None
      | Some n0 =>
          match mark_pass n0 r with
          | None => None
          | Some r' =>
              let marked := e0 :: r' in
              let resorted := sort_entries marked in
              (* types[(n_paths_found - unused_paths)<<1] = 0 *)
              Some (firstn (length marked - count_unused marked) resorted)
          end
      end
  end.

Inductive sopt := Unmodified | Sorted | SortedUniquePrefix.

(* which ports the collection lambda is applied to:
     if(!*str || !strcmp(str, "/")) ports = &root;
     else { port = root.apropos(str);
            if(port) { if(port->ports) ports = port->ports; else single_port = port; } }
     if(ports) for(const Port &p:*ports) fn(p); else if(single_port) fn( *single_port); *)
Inductive addr_res := AdOk (children : list port) | AdCrash | AdUnsupported.

Definition addressed (root : list port) (loc : str) : addr_res :=
  if is_nil loc || streqb loc [47] then AdOk root
  else match apropos root loc with
       | ANull => AdOk []
       | AFound id =>
           match get_port root id with
           | Some (Port _ _ (Some s)) => AdOk s
           | Some p => AdOk [p]
           | None => AdCrash                  (* apropos returns ports of the tree *)
           end
       | ACrash => AdCrash
       | AUnsupported => AdUnsupported
       end.

(* void path_search(root, str, needle, types, max_types, args, max_args, opts,
   reply_with_query), for buffers that are large enough; the found
   (name, metadata) pairs after the query strings *)
Definition path_search (root : list port) (loc needle : str) (opt : sopt) : sres :=
  match addressed root loc with
  | AdCrash => SCrash
  | AdUnsupported => SUnsupported
  | AdOk children =>
      match collect needle children with
      | None => SOob
      | Some es =>
          match opt with
          | Unmodified => SOk es
          | Sorted => SOk (sort_entries es)
          | SortedUniquePrefix =>
              match unique_prefix (sort_entries es) with
              | Some r => SOk r
              | None => SOob
              end
          end
      end
  end.

(* ---- Spec side --------------------------------------------------------------- *)
(* what the property text says a child search returns, over (name, metadata) *)
Definition below (e x : str) : bool :=
  Nat.ltb (length e) (length x) && prefixb e x &&
  match last_char e with Some c => c =? 47 | None => false end.

Definition spec_children (needle : str) (t : list port) : list port :=
  filter (fun p => prefixb needle (pname p)) t.

Definition spec_unique (names : list str) (l : list port) : list port :=
  filter (fun p => negb (existsb (fun e => below e (pname p)) names)) l.

(* a port's metadata bytes as the reply carries them: the whole block with its
   terminators; nothing for a NULL or an empty block *)
Definition spec_blob (m : option (list byte)) : option (list byte) * Z :=
  match m with
  | Some ((c :: _) as b) => if c =? 0 then (None, 0) else (Some b, Z.of_nat (length b))
  | _ => (None, 0)
  end.

Definition hit_of (p : port) : hit :=
  {| e_name := Some (pname p);
     e_data := fst (spec_blob (pmeta p));
     e_len := snd (spec_blob (pmeta p)) |}.

(* metadata as the macros lay it out (C17), or no metadata *)
Definition meta_wf (m : option (list byte)) : Prop :=
  m = None \/ exists es, m = Some (render es) /\ Forall entry_ok es.

(* ---- the reply message (second overload) ------------------------------------ *)
(* size_t path_search(root, m, max_ports, msgbuf, bufsize, opts, false):
   rtosc_amessage(msgbuf, bufsize, "/paths", types, args) over the found
   entries; the result is (return value, msgbuf afterwards) *)
Definition paths_addr : str := [47; 112; 97; 116; 104; 115].

Definition reply_tags (es : list hit) : list byte := concat (map (fun _ => [115; 98]) es).
Definition reply_args (es : list hit) : list payload :=
  flat_map (fun e => [PStr (match e_name e with Some n => n | None => [] end);
                      PBlob (e_len e) (e_data e)]) es.

Inductive rres := ROk (ret : Z) (buf : list byte) | RFail (why : sres).

(* reply_with_query: the two query strings come first in types/args and are
   not part of the sorted / filtered region (after the commit "fix: path_search
   with reply_with_query sorted the two query strings ...") *)
Definition path_search_msg (root : list port) (loc needle : str) (opt : sopt) (rwq : bool)
                           (buf : list byte) : rres :=
  match path_search root loc needle opt with
  | SOk es =>
      let qt := if rwq then [115; 115] else [] in
      let qa := if rwq then [PStr loc; PStr needle] else [] in
      match amessage (Some buf) paths_addr (qt ++ reply_tags es) (qa ++ reply_args es) with
      | Ok (n, Some b) => ROk n b
      | _ => RFail SOob
      end
  | x => RFail x
  end.
