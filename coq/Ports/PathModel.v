(* C18 - model of the path utilities of src/cpp/ports.cpp:
     Ports::collapsePath with parent_path_p / read_path / move_path,
     Ports::operator[], Ports::apropos (with the fragment of rtosc_match_path
     it needs: literal names, '#N', '/', ':'),
     rtosc::path_search (both overloads).
   Spec-side definitions (what the property text says) are at the end of each
   part.  No proofs in this file.

   Conventions.  Bytes are Z, a C string is the list of its bytes without the
   terminator.  In collapsePath the three cursors run backwards and may stop
   one position *before* the buffer (the loops test r<start after the
   decrement), so a cursor p+i with -1 <= i is the natural number i+1; the
   buffer is the list of the strlen(p) bytes before the terminator (the code
   never touches the terminator after it located it).  A read or a write at
   an index outside that list makes the model function return None. *)
From Coq Require Import List ZArith Bool Arith.
Import ListNotations.
Local Open Scope Z_scope.

(* notations, not definitions: lia must see one type for all lengths *)
Notation byte := Z (only parsing).
Notation str := (list Z) (only parsing).

(* ======================================================================== *)
(* Part 1: collapsePath                                                     *)
(* ======================================================================== *)

Fixpoint upd (b : list byte) (i : nat) (v : byte) : option (list byte) :=
  match b, i with
  | [], _ => None
  | _ :: t, O => Some (v :: t)
  | c :: t, S j => match upd t j v with Some t' => Some (c :: t') | None => None end
  end.

(* parent_path_p(read, start): rp = (read - start) + 1.
     if(read-start<2) return false;
     return read[0]=='.' && read[-1]=='.' && read[-2]=='/';   (short-circuit) *)
Definition parent_path_p (b : list byte) (rp : nat) : option bool :=
  match rp with
  | S (S (S k)) =>
      match nth_error b (S (S k)) with
      | None => None
      | Some c0 =>
          if negb (c0 =? 46) then Some false else
          match nth_error b (S k) with
          | None => None
          | Some c1 =>
              if negb (c1 =? 46) then Some false else
              match nth_error b k with
              | None => None
              | Some c2 => Some (c2 =? 47)
              end
          end
      end
  | _ => Some false
  end.

(* read_path(r, start):
     while(1) { if(r<start) break; bool doBreak = *r=='/'; r--; if(doBreak) break; } *)
Fixpoint read_path (b : list byte) (rp : nat) : option nat :=
  match rp with
  | O => Some O
  | S r =>
      match nth_error b r with
      | None => None
      | Some c => if c =? 47 then Some r else read_path b r
      end
  end.

(* move_path(r, w, start):
     while(1) { if(r<start) break; bool doBreak = *r=='/'; *w-- = *r--; if(doBreak) break; }
   wp = 0 would be a write before the buffer *)
Fixpoint move_path (b : list byte) (rp wp : nat) : option (list byte * nat * nat) :=
  match rp with
  | O => Some (b, O, wp)
  | S r =>
      match nth_error b r, wp with
      | Some c, S w =>
          match upd b w c with
          | None => None
          | Some b' => if c =? 47 then Some (b', r, w) else move_path b' r w
          end
      | _, _ => None
      end
  end.

Inductive cres := COk (buf : list byte) (pos : nat) | COob | CFuel.

(* the while(read_pos >= p) loop; every round moves read_pos down by at least
   one, the fuel is strlen(p)+1 *)
Fixpoint collapse_loop (fuel : nat) (b : list byte) (rp wp : nat) (consuming : Z) : cres :=
  match fuel with
  | O => CFuel
  | S f =>
      match rp with
      | O => COk b wp                            (* return write_pos+1 *)
      | _ =>
          match parent_path_p b rp with
          | None => COob
          | Some true =>
              match read_path b rp with
              | Some rp' => collapse_loop f b rp' wp (consuming + 1)
              | None => COob
              end
          | Some false =>
              if negb (consuming =? 0) then
                match read_path b rp with
                | Some rp' => collapse_loop f b rp' wp (consuming - 1)
                | None => COob
                end
              else
                match move_path b rp wp with
                | Some (b', rp', wp') => collapse_loop f b' rp' wp' consuming
                | None => COob
                end
          end
      end
  end.

(* char *Ports::collapsePath(char *p): p_end = last non-null char, both
   cursors start there *)
Definition collapse (p : str) : cres :=
  collapse_loop (S (length p)) p (length p) (length p) 0.

(* the string the returned pointer points at *)
Definition collapse_str (p : str) : option (nat * str) :=
  match collapse p with COk b pos => Some (pos, skipn pos b) | _ => None end.

(* ---- Spec: forward stack machine over the components --------------------- *)
(* components of an absolute path: "/a/b" -> [a;b], "/a/" -> [a;""], "/" -> [""] *)
Fixpoint comps_of (p : str) : list str :=
  match p with
  | [] => [[]]
  | c :: t =>
      if c =? 47 then [] :: comps_of t
      else match comps_of t with
           | h :: r => (c :: h) :: r
           | [] => [[c]]
           end
  end.

Definition components (p : str) : option (list str) :=
  match p with
  | c :: t => if c =? 47 then Some (comps_of t) else None
  | [] => None
  end.

Definition flat (cs : list str) : str := concat (map (fun c => 47 :: c) cs).

Definition is_dotdot (c : str) : bool :=
  match c with
  | [a; b] => (a =? 46) && (b =? 46)
  | _ => false
  end.

(* the stack is kept top first; ".." pops (nothing to pop at the root) *)
Definition stack_step (st : list str) (c : str) : list str :=
  if is_dotdot c then tl st else c :: st.

Definition stack_spec (cs : list str) : list str := rev (fold_left stack_step cs []).
