(* C09 - regression witness: the recursion callbacks (rRecurCb, rRecurpCb,
   rRecursCb, rRecurspCb) as they were before the commit "fix: the recursion
   callbacks skipped one component of the message ...": SNIP stripped ONE
   component whatever the matched port's name.  dispatch_f_pinned is C04's
   dispatch_f (DispatchModel.v) with snip in place of snipk; nothing else
   differs.  Replayed on the real code: corpus/C09/defects.txt. *)
From Coq Require Import List ZArith Bool.
From RtoscV Require Import Match.PatSpec Match.MatchModel Ports.DispatchModel Ports.DispatchProofs Ports.TreeProofs
     Ports.NameModel Ports.PathModel Ports.WalkModel Ports.EnumProofs Ports.DispatchWalk Ports.NamesModel Ports.NamesOk.
Import ListNotations.
Local Open Scope Z_scope.

Fixpoint dispatch_f_pinned (fuel : nat) (t : tree) (m args : str) (base : bool) (st : dstate) : dstate :=
  match fuel with
  | O => add_log st EvError
  | S f =>
      let T := tab_of t in
      let cb := fun (i : Z) (msg : str) (d : dstate) =>
        let leaf := match nth_error (subs_of t) (Z.to_nat i) with Some (Some _) => false | _ => true end in
        let d1 := leaf_event (t_id T) i msg leaf d in
        match nth_error (subs_of t) (Z.to_nat i) with
        | Some (Some sub) =>
            let name := match nth_error (t_ports T) (Z.to_nat i) with Some (n, _) => n | None => [] end in
            let n := if mem 35 name then first_number msg else 0 in
            dispatch_f_pinned f sub (snip msg) args false (set_obj d1 (child_obj (obj d1) (t_id T) i n))
        | _ => d1
        end in
      let dh := fun (msg : str) (d : dstate) => add_log d (EvDefault (t_id T) msg (obj d) (loc d)) in
      dispatch_table cb dh T m args base st
  end.

Definition dispatch_pinned (t : tree) (m args : str) (with_loc : bool) (o : Z) : dstate :=
  dispatch_f_pinned (depth t) t m args true (init_state with_loc o).

(* { "a/b/" -> { "x" } }: the walk reports ([0;0], "/a/b/x").  Pinned: its
   dispatch reaches the sub-tree port only - the inner table receives "b/x" -
   no leaf callback, matches = 0.  Fixed: the inner table receives "x", one
   leaf callback, matches = 1. *)
Lemma multicomponent_macro_pinned_refuted :
  walk None (map render_port ex_multi) [] = WOk [([0%nat; 0%nat], [47; 97; 47; 98; 47; 120])] [47] /\
  (let d := dispatch_pinned (to_tree no_hash_search one_id ex_multi) [47; 97; 47; 98; 47; 120] [] true 0 in
   matches d = 0 /\ leaf_count (log d) = 0 /\ length (log d) = 1%nat) /\
  (let d := dispatch (to_tree no_hash_search one_id ex_multi) [47; 97; 47; 98; 47; 120] [] true 0 in
   matches d = 1 /\ leaf_count (log d) = 1 /\ length (log d) = 2%nat).
Proof. split; [vm_compute; reflexivity|]. split; vm_compute; repeat split; reflexivity. Qed.

(* on one-component names the two agree: snipk name = snip when the name has
   at most one '/' in front of its ':' *)
Lemma snipk_one_component : forall name m, (count_slash name <= 1)%nat -> snipk name m = snip m.
Proof.
  intros name m H. unfold snipk.
  destruct (count_slash name) as [|[|k]]; [reflexivity | reflexivity | exfalso; inversion H as [|? H']; inversion H'].
Qed.
