(* C05 - '*' in a pattern (not part of the documented form; rtosc_match_path
   has a branch for it).  What the code does: at '*' the pattern is advanced to
   the next '/' or ':' or to its end (whatever text stands in between is
   skipped), and only if it stopped at '/' or ':' the address is advanced to
   its next '/' or to its end.  Stated for  <segments> '*' <tail>  with the
   documented tail (optional '/', optional ':types'). *)
From Coq Require Import List ZArith Bool Lia.
From RtoscV Require Import Match.PatSpec Match.MatchModel Match.MatchProofs.
Import ListNotations.
Local Open Scope Z_scope.

Definition render_star (pre : list seg) (p : pat) : str := render_segs pre ++ 42 :: render_tail p.

(* the Spec: '*' stands for any text without '/' *)
Definition star_spec (pre : list seg) (p : pat) (addr rest : str) : Prop :=
  exists x y, spells pre x /\ ~ In 47 y /\
    if subtree p then addr = x ++ y ++ 47 :: rest else addr = x ++ y /\ rest = [].

Lemma star_skip_m_noslash : forall y r, ~ In 47 y -> star_skip_m (y ++ 47 :: r) = 47 :: r.
Proof.
  induction y as [|c y IH]; intros r N; [reflexivity|]. cbn.
  destruct (c =? 47) eqn:E; [apply Z.eqb_eq in E; subst; exfalso; apply N; now left|].
  apply IH. intros H. apply N. now right.
Qed.

Lemma star_skip_m_all : forall y, ~ In 47 y -> star_skip_m y = [].
Proof.
  induction y as [|c y IH]; intros N; [reflexivity|]. cbn.
  destruct (c =? 47) eqn:E; [apply Z.eqb_eq in E; subst; exfalso; apply N; now left|].
  apply IH. intros H. apply N. now right.
Qed.

Lemma star_skip_m_split : forall m, exists y, ~ In 47 y /\ m = y ++ star_skip_m m /\
  (star_skip_m m = [] \/ exists r, star_skip_m m = 47 :: r).
Proof.
  induction m as [|c m (y & Hy & E & S)]; [exists []; cbn; auto|]. cbn.
  destruct (c =? 47) eqn:E47.
  - apply Z.eqb_eq in E47. subst. exists []. cbn. repeat split; [tauto | right; eauto].
  - exists (c :: y). repeat split; [|cbn; now f_equal | exact S].
    intros [H|H]; [subst; now rewrite Z.eqb_refl in E47 | contradiction].
Qed.

(* the loop from the '*' on *)
Lemma match_path_star_tail : forall p m, types_ok (types p) -> addr_ok m ->
  match_path (42 :: render_tail p) m =
  if subtree p then
    match star_skip_m m with 47 :: rest => MRet (render_types (types p)) rest | _ => MNull end
  else match types p with
       | None => match m with [] => MRet [] [] | _ :: _ => MNull end
       | Some _ => match star_skip_m m with [] => MRet (render_types (types p)) [] | _ :: _ => MNull end
       end.
Proof.
  intros p m Ht Hm. rewrite match_path_eq. unfold path_step.
  change (42 =? 58) with false. change (42 =? 123) with false. change (42 =? 42) with true. cbn [andb].
  change (star_skip_p (42 :: render_tail p)) with (star_skip_p (render_tail p)).
  pose proof (match_path_tail p) as Tl.
  unfold render_tail in *. destruct (subtree p) eqn:Sub.
  - cbn [app star_skip_p]. change (47 =? 47) with true. cbn [orb hd0].
    destruct (star_skip_m_split m) as (y & Hy & E & S).
    assert (Hs : addr_chars (star_skip_m m)) by (apply (addr_chars_suffix y); now rewrite <- E).
    rewrite Tl by assumption. destruct S as [->|[r ->]]; [reflexivity|]. now rewrite Z.eqb_refl.
  - cbn [app]. destruct (types p) as [l|] eqn:T.
    + destruct Ht as [Hne Hf]. destruct l as [|a l]; [congruence|].
      change (render_types (Some (a :: l))) with (58 :: a ++ render_types (Some l)).
      change (star_skip_p (58 :: a ++ render_types (Some l))) with (58 :: a ++ render_types (Some l)).
      cbn [hd0]. change ((58 =? 47) || (58 =? 58)) with true. cbn iota.
      destruct (star_skip_m_split m) as (y & Hy & E & S).
      assert (Hs : addr_chars (star_skip_m m)) by (apply (addr_chars_suffix y); now rewrite <- E).
      specialize (Tl (star_skip_m m)). cbn [app] in Tl.
      change (render_types (Some (a :: l))) with (58 :: a ++ render_types (Some l)) in Tl.
      rewrite Tl by (assumption || exact (conj Hne Hf)).
      destruct S as [->|[r ->]]; reflexivity.
    + cbn [render_types star_skip_p hd0]. change (0 =? 47) with false. change (0 =? 58) with false. cbn [orb].
      rewrite match_path_eq. unfold path_step. destruct m; reflexivity.
Qed.

Definition star_wf (pre : list seg) (p : pat) : Prop :=
  Forall seg_ok pre /\ enum_sep pre /\ types_ok (types p).

Lemma star_tail_cond : forall pre tl, tail_cond pre (42 :: tl).
Proof.
  intros pre tl. apply tail_cond_last; [|reflexivity].
  intros s _ _. cbn. split; discriminate.
Qed.

(* no side condition: a match spells the segments, then any '/'-free text *)
Theorem star_sound : forall pre p addr r rest,
  star_wf pre p -> addr_ok addr ->
  match_path (render_star pre p) addr = MRet r rest ->
  r = render_types (types p) /\ star_spec pre p addr rest.
Proof.
  intros pre p addr r rest (Hs & He & Ht) Ha H. unfold render_star in H.
  rewrite match_path_greedy in H by (assumption || apply star_tail_cond).
  destruct (greedy_sound _ _ _ _ _ Hs H) as (x & m' & -> & Sp & K).
  assert (Hm' : addr_ok m') by (eapply addr_chars_suffix; exact Ha).
  rewrite match_path_star_tail in K by assumption.
  destruct (star_skip_m_split m') as (y & Hy & E & S). unfold star_spec.
  destruct (subtree p).
  - destruct (star_skip_m m') as [|c rest'] eqn:Es; [discriminate|].
    destruct S as [S|[r' S]]; [discriminate|]. inversion S; subst c rest'.
    inversion K; subst. split; [reflexivity|]. exists x, y. repeat split; try assumption; try reflexivity; try (now rewrite E).
  - destruct (types p) as [l|].
    + destruct (star_skip_m m') eqn:Es; [|discriminate]. rewrite app_nil_r in E.
      inversion K; subst. split; [reflexivity|]. exists x, y. repeat split; try assumption; try reflexivity.
    + destruct m' as [|c m'']; [|discriminate]. inversion K; subst.
      split; [reflexivity|]. exists x, []. repeat split; [assumption | intros [] ].
Qed.

(* under the side conditions of C05_path_partial, when a '/' or ':types'
   follows the '*', and the '*' text does not begin with a digit *)
Theorem star_complete : forall pre p x y rest,
  star_wf pre p -> enum_delimited pre -> (forall a, In (Alt a) pre -> prefix_free a) ->
  (subtree p = true \/ types p <> None) ->
  spells pre x -> ~ In 47 y -> starts_with_digit (y ++ [47]) = false ->
  let addr := if subtree p then x ++ y ++ 47 :: rest else x ++ y in
  addr_ok addr -> (subtree p = false -> rest = []) ->
  match_path (render_star pre p) addr = MRet (render_types (types p)) rest.
Proof.
  intros pre p x y rest (Hs & He & Ht) Hed Hpf Htl Sp Hy Hd addr Ha Hr. unfold render_star.
  rewrite match_path_greedy by (assumption || apply star_tail_cond).
  assert (Hnd : forall z, starts_with_digit (y ++ z) = starts_with_digit (y ++ [47]) \/ y = []).
  { intros z. destruct y; [now right | left; reflexivity]. }
  subst addr. destruct (subtree p) eqn:Sub.
  - rewrite (greedy_complete _ _ Sp) by
      (first [assumption | destruct y; [reflexivity | exact Hd]]).
    rewrite match_path_star_tail by (assumption || (eapply addr_chars_suffix; exact Ha)).
    rewrite Sub, star_skip_m_noslash by assumption. reflexivity.
  - rewrite (greedy_complete _ _ Sp) by
      (first [assumption | destruct y; [reflexivity | exact Hd]]).
    rewrite match_path_star_tail by (assumption || (eapply addr_chars_suffix; exact Ha)).
    rewrite Sub. destruct (types p) as [l|]; [|destruct Htl; congruence].
    rewrite star_skip_m_all by assumption. now rewrite (Hr eq_refl).
Qed.

(* a '*' at the very end of the pattern stands for the empty text only:
   a* does not match ab although a*: and a*/ accept ab and ab/ *)
Definition pat_a_star (sub : bool) (tys : option (list str)) : pat :=
  {| segs := []; subtree := sub; types := tys |}.

Theorem star_at_end_refuted :
  star_wf [Lit [97]] (pat_a_star false None) /\
  star_spec [Lit [97]] (pat_a_star false None) [97; 98] [] /\
  match_path (render_star [Lit [97]] (pat_a_star false None)) [97; 98] = MNull /\
  match_path (render_star [Lit [97]] (pat_a_star false (Some [[]]))) [97; 98] = MRet [58] [] /\
  match_path (render_star [Lit [97]] (pat_a_star true None)) [97; 98; 47] = MRet [] [].
Proof.
  split; [repeat split; repeat constructor; cbn; try discriminate; intuition discriminate|].
  split; [|vm_compute; auto].
  exists [97], [98]. split; [|split; [cbn; intuition discriminate | split; reflexivity]].
  rewrite <- (app_nil_r [97]). constructor; constructor.
Qed.

(* text between '*' and the next '/' or ':' is skipped: a*b/ accepts ax/ *)
Theorem star_text_ignored :
  match_path [97; 42; 98; 47] [97; 120; 47] = MRet [] [].
Proof. vm_compute. reflexivity. Qed.
