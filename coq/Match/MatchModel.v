(* C05 - executable model of the matchers of src/dispatch.c
   (rtosc_match_number, rtosc_match_options, rtosc_match_path,
   rtosc_match_args, rtosc_match) and of the two copies of the type matcher
   in src/cpp/ports.cpp (arg_matcher, Port_Matcher::rtosc_match_args).

   A C pointer into a NUL-terminated string is the *suffix* that starts at the
   pointee, without the terminator: the empty suffix is the pointer at the
   terminator and reads 0 there.  Every pointer increment in this code happens
   after the pointee was read and found non-zero, so it is a pattern match on
   a cons cell; no function here can step over a terminator.
   No proofs in this file. *)
From Coq Require Import List ZArith Bool.
From RtoscV Require Import Match.PatSpec.
Import ListNotations.
Local Open Scope Z_scope.

Definition hd0 (s : str) : Z := match s with [] => 0 | c :: _ => c end.

(* ---- rtosc_match_number (dispatch.c:13-29) -------------------------------- *)
(* atoi on a string whose first character is a digit (checked by the caller:
   no white space, no sign) *)
Fixpoint atoi_acc (acc : Z) (s : str) : Z :=
  match s with
  | [] => acc
  | c :: t => if isdigit c then atoi_acc (acc * 10 + (c - 48)) t else acc
  end.
(* (unsigned) atoi(..) as glibc computes it for values below 2^63: what the
   array callbacks of port-sugar.h (rBOILS_BEGIN) and the pinned
   rtosc_match_number do *)
Definition atoi_u (s : str) : Z := (atoi_acc 0 s) mod 4294967296.

(* while(isdigit( **p)) ++*p; *)
Fixpoint skip_digits (s : str) : str :=
  match s with
  | [] => []
  | c :: t => if isdigit c then skip_digits t else s
  end.

(* rtosc_read_number (dispatch.c): decimal value of the digit run, saturating
   at UINT_MAX.  (The pinned code used atoi; see MatchRegress.v.) *)
Definition umax : Z := 4294967295.
Fixpoint read_acc (acc : Z) (s : str) : Z :=
  match s with
  | [] => acc
  | c :: t =>
      if isdigit c then
        read_acc (if acc >? (umax - (c - 48)) / 10 then umax else acc * 10 + (c - 48)) t
      else acc
  end.
Definition read_u (s : str) : Z := read_acc 0 s.

(* returns (result, *pattern, *msg) *)
Definition match_number (p m : str) : bool * str * str :=
  if negb (isdigit (hd0 p)) || negb (isdigit (hd0 m)) then (false, p, m)
  else (read_u m <? read_u p, skip_digits p, skip_digits m).

(* ---- rtosc_match_options (dispatch.c:35-70) ------------------------------- *)
(* advance_until_end: while( *pattern && *pattern != '}') pattern++;
                      if( *pattern == '}') pattern++; *)
Fixpoint adv_until_end (p : str) : str :=
  match p with
  | [] => []
  | c :: t => if c =? 125 then t else adv_until_end t
  end.

(* OCmp  = the while(1) loop after "retry:"
   OSkip = the skipping loop after "try_next:" ( *msg already reset)
   The jump from OCmp to try_next happens with *pattern not in {0 , }} (just
   tested), so the skipping loop's first step is pattern++; it is taken
   here. *)
Inductive omode := OCmp | OSkip.

Fixpoint options_loop (mode : omode) (preserve m p : str) {struct p} : option (str * str) :=
  match p with
  | [] => None
  | c :: t =>
      match mode with
      | OCmp =>
          if (c =? 44) || (c =? 125) then Some (adv_until_end p, m)
          else match m with
               | m0 :: ms => if c =? m0 then options_loop OCmp preserve ms t
                             else options_loop OSkip preserve preserve t
               | [] => options_loop OSkip preserve preserve t
               end
      | OSkip =>
          if c =? 125 then None
          else if c =? 44 then options_loop OCmp preserve preserve t
          else options_loop OSkip preserve m t
      end
  end.

(* pattern points at '{'; returns (pattern after the group, *msg) or NULL *)
Definition match_options (p m : str) : option (str * str) :=
  match p with
  | _ :: t => options_loop OCmp m m t
  | [] => None
  end.

(* ---- rtosc_match_path (dispatch.c:72-109) --------------------------------- *)
Inductive mres :=
| MNull                         (* return NULL *)
| MRet (p : str) (path_end : str)   (* returned pattern pointer, *path_end *)
| MFuel.                        (* model ran out of fuel (never, see proofs) *)

Fixpoint star_skip_p (p : str) : str :=
  match p with
  | [] => []
  | c :: t => if (c =? 47) || (c =? 58) then p else star_skip_p t
  end.
Fixpoint star_skip_m (m : str) : str :=
  match m with
  | [] => []
  | c :: t => if c =? 47 then m else star_skip_m t
  end.

(* the body of while(1); [continue] is the next iteration *)
Definition path_step (continue : str -> str -> mres) (p m : str) : mres :=
  match p with
  | [] => match m with [] => MRet p m | _ :: _ => MNull end
  | c :: t =>
      if (c =? 58) && (hd0 m =? 0) then MRet p m
      else if c =? 123 then
        match match_options p m with
        | None => MNull
        | Some (p', m') => continue p' m'
        end
      else if c =? 42 then
        let p' := star_skip_p p in
        let m' := if (hd0 p' =? 47) || (hd0 p' =? 58) then star_skip_m m else m in
        continue p' m'
      else if (c =? 47) && (hd0 m =? 47) then
        let m' := tl m in
        if (hd0 t =? 0) || (hd0 t =? 58) then MRet t m' else continue t m'
      else if c =? 35 then
        match match_number t m with
        | (false, _, _) => MNull
        | (true, p', m') => continue p' m'
        end
      else if c =? hd0 m then
        match m with
        | _ :: ms => continue t ms
        | [] => MRet p m
        end
      else MNull
  end.

(* one unit of fuel per iteration; every iteration consumes at least one
   pattern character, so length pattern + 1 is enough *)
Fixpoint match_path_f (fuel : nat) (p m : str) : mres :=
  match fuel with
  | O => MFuel
  | S f => path_step (match_path_f f) p m
  end.

Definition match_path (p m : str) : mres := match_path_f (S (length p)) p m.

(* ---- rtosc_match_args (dispatch.c:112-132) -------------------------------- *)
(* args = the message's type tag string (rtosc_argument_string(msg)).
   a = arg_str, am = arg_match, p = pattern.  The retry is the tail call
   rtosc_match_args(pattern, msg) with pattern at the next ':'. *)
Definition args_init (p args : str) : bool := negb (hd0 p =? 0) || (hd0 p =? hd0 args).

Fixpoint args_loop (args a : str) (am : bool) (p : str) {struct p} : bool :=
  match p with
  | [] => am
  | c :: t =>
      if c =? 58 then
        if am && (hd0 a =? 0) then true
        else args_loop args args (args_init t args) t
      else
        (* arg_match &= ( *pattern++ == *arg_str); if( *arg_str) arg_str++; *)
        args_loop args (tl a) (am && (c =? hd0 a)) t
  end.

Definition match_args (p args : str) : bool :=
  match p with
  | c :: t => if c =? 58 then args_loop args args (args_init t args) t else true
  | [] => true
  end.

(* the copies in ports.cpp: arg_matcher(pattern, args) (ports.cpp:219-239) and
   Port_Matcher::rtosc_match_args(pattern, msg) (ports.cpp:271-292), written
   out from their own source text *)
Fixpoint arg_matcher_loop (args a : str) (am : bool) (p : str) {struct p} : bool :=
  match p with
  | [] => am
  | c :: t =>
      if c =? 58 then
        if am && (hd0 a =? 0) then true
        else arg_matcher_loop args args (negb (hd0 t =? 0) || (hd0 t =? hd0 args)) t
      else arg_matcher_loop args (tl a) (am && (c =? hd0 a)) t
  end.
Definition arg_matcher (p args : str) : bool :=
  if hd0 p =? 58 then
    arg_matcher_loop args args (negb (hd0 (tl p) =? 0) || (hd0 (tl p) =? hd0 args)) (tl p)
  else true.

Fixpoint pm_args_loop (args a : str) (am : bool) (p : str) {struct p} : bool :=
  match p with
  | [] => am
  | c :: t =>
      if c =? 58 then
        if am && (hd0 a =? 0) then true
        else pm_args_loop args args (negb (hd0 t =? 0) || (hd0 t =? hd0 args)) t
      else pm_args_loop args (tl a) (am && (c =? hd0 a)) t
  end.
Definition pm_match_args (p args : str) : bool :=
  if hd0 p =? 58 then
    pm_args_loop args args (negb (hd0 (tl p) =? 0) || (hd0 (tl p) =? hd0 args)) (tl p)
  else true.

(* ---- rtosc_match (dispatch.c:134-143) ------------------------------------- *)
(* Some (result, *path_end); path_end is reported only where the code wrote
   it; None = the model ran out of fuel *)
Definition rtosc_match (p addr args : str) : option (bool * option str) :=
  match match_path p addr with
  | MRet ap pe => if hd0 ap =? 58 then Some (match_args ap args, Some pe) else Some (true, Some pe)
  | MNull => Some (false, None)
  | MFuel => None
  end.
