(* C05 - the documented pattern language (doc/Guide.adoc "Path Specifiers",
   include/rtosc/rtosc.h rtosc_match) as data, its rendering to the pattern
   string stored in a Port, and what the property text says a match is.
   Strings are lists of bytes without terminator.  No proofs in this file. *)
From Coq Require Import List ZArith Bool.
Import ListNotations.
Local Open Scope Z_scope.

Definition str := list Z.

Definition isdigit (c : Z) : bool := (48 <=? c) && (c <=? 57).

(* ---- pattern AST --------------------------------------------------------- *)
(* Lit s    literal text
   Enum ds  '#' followed by the decimal digits ds (N = dec ds)
   Alt l    '{' a1 ',' a2 ... '}' *)
Inductive seg := Lit (s : str) | Enum (ds : str) | Alt (alts : list str).

Record pat := { segs : list seg;
                subtree : bool;                 (* trailing '/' *)
                types : option (list str) }.    (* ':'t1':'t2... *)

Fixpoint join_alts (l : list str) : str :=
  match l with
  | [] => []
  | [a] => a
  | a :: r => a ++ 44 :: join_alts r
  end.

Definition render_seg (s : seg) : str :=
  match s with
  | Lit s => s
  | Enum ds => 35 :: ds
  | Alt l => 123 :: join_alts l ++ [125]
  end.

Definition render_segs (l : list seg) : str := concat (map render_seg l).

Definition render_types (t : option (list str)) : str :=
  match t with
  | None => []
  | Some l => concat (map (fun a => 58 :: a) l)
  end.

Definition render_tail (p : pat) : str :=
  (if subtree p then [47] else []) ++ render_types (types p).

Definition render (p : pat) : str := render_segs (segs p) ++ render_tail p.

(* ---- decimal value -------------------------------------------------------- *)
Definition dec (ds : str) : Z := fold_left (fun a c => a * 10 + (c - 48)) ds 0.

Definition digits (s : str) : Prop := Forall (fun c => isdigit c = true) s.

(* ---- what a match is (the property text) --------------------------------- *)
(* one choice per segment: the literal itself, a decimal index strictly below
   N (any number of leading zeros), one of the alternatives *)
Inductive spells_seg : seg -> str -> Prop :=
| SpLit  : forall s, spells_seg (Lit s) s
| SpEnum : forall ds x, x <> [] -> digits x -> dec x < dec ds -> spells_seg (Enum ds) x
| SpAlt  : forall l a, In a l -> spells_seg (Alt l) a.

Inductive spells : list seg -> str -> Prop :=
| SpNil  : spells [] []
| SpCons : forall s r x y, spells_seg s x -> spells r y -> spells (s :: r) (x ++ y).

(* the address ends where the pattern's path ends, or, for a pattern ending
   in '/', continues arbitrarily (rest) after that '/' *)
Definition path_spec (p : pat) (addr rest : str) : Prop :=
  if subtree p then exists x, spells (segs p) x /\ addr = x ++ 47 :: rest
  else spells (segs p) addr /\ rest = [].

Fixpoint prefix (a b : str) : Prop :=
  match a, b with
  | [], _ => True
  | x :: a', y :: b' => x = y /\ prefix a' b'
  | _ :: _, [] => False
  end.

Definition types_equal (p : pat) (ty : str) : Prop :=
  match types p with None => True | Some l => In ty l end.

(* "equal to or an extension of an alternative" *)
Definition types_equal_or_ext (p : pat) (ty : str) : Prop :=
  match types p with None => True | Some l => exists a, In a l /\ prefix a ty end.

Definition matches_spec (p : pat) (addr ty : str) : Prop :=
  (exists rest, path_spec p addr rest) /\ types_equal p ty.

(* ---- well-formed patterns (the documented form) --------------------------- *)
Definition nonspecial (c : Z) : Prop :=
  c <> 0 /\ c <> 58 /\ c <> 123 /\ c <> 42 /\ c <> 35.   (* NUL : { * # *)

Definition alt_char (c : Z) : Prop := c <> 0 /\ c <> 44 /\ c <> 125.  (* NUL , } *)

Definition lit_ok (s : str) : Prop := s <> [] /\ Forall nonspecial s.
Definition enum_ok (ds : str) : Prop := ds <> [] /\ digits ds /\ (length ds <= 9)%nat.
Definition alts_ok (l : list str) : Prop := l <> [] /\ Forall (Forall alt_char) l.

Definition seg_ok (s : seg) : Prop :=
  match s with Lit s => lit_ok s | Enum ds => enum_ok ds | Alt l => alts_ok l end.

Definition starts_with_digit (s : str) : bool :=
  match s with c :: _ => isdigit c | [] => false end.

(* the text after '#N' must not go on with a digit (it would be read as part
   of N) *)
Fixpoint enum_sep (l : list seg) : Prop :=
  match l with
  | Enum _ :: ((Lit s :: _) as r) => starts_with_digit s = false /\ enum_sep r
  | _ :: r => enum_sep r
  | [] => True
  end.

(* a pattern whose path text ends in '/' is a subtree pattern: without the
   flag the last segment must not be a literal ending in '/' *)
Definition last_not_slash (l : list seg) : Prop :=
  match last l (Enum []) with Lit s => last s 0 <> 47 | _ => True end.

Definition types_ok (t : option (list str)) : Prop :=
  match t with
  | None => True
  | Some l => l <> [] /\ Forall (Forall (fun c => c <> 0 /\ c <> 58)) l
  end.

Definition wf_pat (p : pat) : Prop :=
  Forall seg_ok (segs p) /\ enum_sep (segs p) /\
  (subtree p = false -> last_not_slash (segs p)) /\ types_ok (types p).

(* ---- the side conditions of the partial theorem (D4) ---------------------- *)
(* no alternative of a group is a proper prefix of another one of the group *)
Definition prefix_free (l : list str) : Prop :=
  forall a b, In a l -> In b l -> prefix a b -> a = b.

Definition alts_prefix_free (p : pat) : Prop :=
  forall l, In (Alt l) (segs p) -> prefix_free l.

(* what follows an enumeration never begins with a digit: the code reads the
   longest digit run of the address as the index.  (A literal after '#N' is
   covered by enum_sep; here: no enumeration and no alternative that is empty
   or begins with a digit directly after an enumeration.) *)
Definition alt_nondigit (a : str) : Prop := a <> [] /\ starts_with_digit a = false.

Fixpoint enum_delimited (l : list seg) : Prop :=
  match l with
  | Enum _ :: ((Alt a :: _) as r) => Forall alt_nondigit a /\ enum_delimited r
  | Enum _ :: ((Enum _ :: _) as r) => False
  | _ :: r => enum_delimited r
  | [] => True
  end.

(* ---- stated precondition on the address ------------------------------------ *)
(* NUL-free, no ':' (ports.h:193) *)
Definition addr_ok (addr : str) : Prop := Forall (fun c => c <> 0 /\ c <> 58) addr.

(* every digit run at most 9 digits: what the pinned code (atoi) needed in
   addition, see MatchRegress.v *)
Definition digit_runs_ok (addr : str) : Prop :=
  forall pre run post, addr = pre ++ run ++ post -> digits run -> (length run <= 9)%nat.
