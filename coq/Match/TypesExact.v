(* C05 - which type strings the type matcher admits, exactly.

   C05_match_sound concludes types_equal_or_ext ("equal to or an extension of
   SOME alternative"), which is all the property text demands of a match.  The
   code is narrower: only the LAST alternative may be extended (the loop of
   rtosc_match_args demands the end of the tag string at every ':' and returns
   arg_match at the end of the pattern without looking at the tag string).
   Here: the exact set (types_ext_last_only, match_types_exact), the statement
   "every alternative is extensible" refuted (a:i:f rejects "is"), and a
   non-vacuity example of the path theorems with an alternative group. *)
From Coq Require Import List ZArith Bool Lia.
From RtoscV Require Import Match.PatSpec Match.MatchModel Match.MatchProofs.
Import ListNotations.
Local Open Scope Z_scope.

(* equal to an alternative, or an extension of the last, non-empty one *)
Definition equal_or_ext_last (l : list str) (ty : str) : Prop :=
  In ty l \/ (last l [] <> [] /\ prefix (last l []) ty).

Definition types_exact (p : pat) (ty : str) : Prop :=
  match types p with None => True | Some l => equal_or_ext_last l ty end.

Lemma alts_match_ext_last : forall l args,
  l <> [] -> last l [] <> [] -> prefix (last l []) args -> alts_match l args = true.
Proof.
  induction l as [|a l IH]; intros args Hne Hl Hp; [congruence|].
  destruct l as [|b l].
  - cbn [last] in Hl, Hp. cbn [alts_match]. destruct a as [|c a]; [congruence|].
    now apply prefixb_prefix.
  - change (alts_match (a :: b :: l) args) with
      ((prefixb a args && (length a =? length args)%nat) || alts_match (b :: l) args).
    apply orb_true_iff. right. apply IH; [discriminate | exact Hl | exact Hp].
Qed.

Lemma alts_match_iff : forall l args, l <> [] ->
  alts_match l args = true <-> equal_or_ext_last l args.
Proof.
  intros l args Hne. unfold equal_or_ext_last. split.
  - intros H. destruct (alts_match_sound l args Hne H) as [Hin | (Hn & Hp & _)]; [now left|].
    right. now split.
  - intros [Hin | [Hn Hp]].
    + now apply alts_match_complete.
    + now apply alts_match_ext_last.
Qed.

(* the type matcher admits exactly the alternatives and the extensions of the
   last (non-empty) alternative *)
Theorem types_ext_last_only : forall l ty,
  types_ok (Some l) -> nul_free ty ->
  match_args (render_types (Some l)) ty = true <-> equal_or_ext_last l ty.
Proof.
  intros l ty [Hne Hl] Hty. rewrite match_args_alts by assumption. now apply alts_match_iff.
Qed.

(* rtosc_match: the path spells the pattern and the type string is an
   alternative or extends the last one *)
Theorem match_types_exact : forall p addr ty pe,
  wf_pat p -> addr_ok addr -> nul_free ty ->
  rtosc_match (render p) addr ty = Some (true, pe) ->
  exists rest, pe = Some rest /\ path_spec p addr rest /\ types_exact p ty.
Proof.
  intros p addr ty pe Hwf Ha Hty H.
  assert (Ht : types_ok (types p)) by (destruct Hwf; tauto).
  destruct (match_sound _ _ _ _ Hwf Ha Hty H) as (rest & -> & Sp & _).
  exists rest. split; [reflexivity|]. split; [assumption|].
  unfold rtosc_match in H.
  destruct (match_path (render p) addr) as [|r rest'|] eqn:M; [discriminate| |discriminate].
  destruct (path_sound _ _ _ _ Hwf Ha M) as [-> _].
  unfold types_exact. destruct (types p) as [l|] eqn:T; [|exact I].
  destruct Ht as [Hne Hl]. destruct l as [|a l]; [congruence|].
  change (hd0 (render_types (Some (a :: l))) =? 58) with true in H. cbn iota in H.
  inversion H; subst. apply types_ext_last_only; [split; assumption | assumption | assumption].
Qed.

(* and under the side conditions of C05_path_partial this is an equivalence:
   the whole of rtosc_match decided *)
Theorem match_exact_partial : forall p addr ty,
  wf_pat p -> alts_prefix_free p -> enum_delimited (segs p) -> addr_ok addr -> nul_free ty ->
  (exists rest, rtosc_match (render p) addr ty = Some (true, Some rest)) <->
  ((exists rest, path_spec p addr rest) /\ types_exact p ty).
Proof.
  intros p addr ty Hwf Hpf Hed Ha Hty.
  assert (Ht : types_ok (types p)) by (destruct Hwf; tauto).
  split.
  - intros [rest H]. destruct (match_types_exact _ _ _ _ Hwf Ha Hty H) as (r & E & Sp & Te).
    split; [now exists r | assumption].
  - intros [[rest Sp] Te]. exists rest.
    rewrite (rtosc_match_types p addr ty rest Ht Hty) by now apply path_complete.
    unfold types_exact in Te. destruct (types p) as [l|]; [|reflexivity].
    destruct Ht as [Hne _]. apply alts_match_iff in Te; [|assumption]. now rewrite Te.
Qed.

(* "an extension of ANY alternative matches" is false of the code: a:i:f
   rejects the type string "is" (an extension of the first alternative) and
   admits "fs" (an extension of the last one); a:i admits "if" *)
Theorem types_ext_every_refuted : exists l a ty,
  types_ok (Some l) /\ nul_free ty /\ In a l /\ prefix a ty /\
  match_args (render_types (Some l)) ty = false.
Proof.
  exists [[105]; [102]], [105], [105; 115].
  split; [split; [discriminate | repeat constructor; discriminate]|].
  split; [repeat constructor; discriminate|].
  split; [now left|]. split; [cbn; tauto|]. vm_compute. reflexivity.
Qed.

Example types_ext_examples :
  match_args (render_types (Some [[105]; [102]])) [105; 115] = false /\
  match_args (render_types (Some [[105]; [102]])) [102; 115] = true /\
  match_args (render_types (Some [[105]])) [105; 102] = true /\
  match_args (render_types (Some [[105]; []])) [105; 102] = false.
Proof. vm_compute. auto. Qed.

(* ---- the path theorems on a pattern with an alternative group -------------- *)
(* x{ab,cd}#4/y:i *)
Definition pat_alt : pat :=
  {| segs := [Lit [120]; Alt [[97; 98]; [99; 100]]; Enum [52]; Lit [47; 121]]; subtree := false;
     types := Some [[105]] |}.

Lemma pat_alt_wf : wf_pat pat_alt.
Proof. unfold wf_pat, pat_alt. prove_wf. Qed.

(* every hypothesis of C05_path_partial / C05_match_partial holds for
   x{ab,cd}#4/y:i; xcd3/y and xab0/y match, xcd4/y (index), xad3/y (no
   alternative), xabcd3/y (two alternatives) do not *)
Theorem path_alt_nonvacuous :
  wf_pat pat_alt /\ alts_prefix_free pat_alt /\ enum_delimited (segs pat_alt) /\
  addr_ok [120; 99; 100; 51; 47; 121] /\
  path_spec pat_alt [120; 99; 100; 51; 47; 121] [] /\
  rtosc_match (render pat_alt) [120; 99; 100; 51; 47; 121] [105] = Some (true, Some []) /\
  rtosc_match (render pat_alt) [120; 97; 98; 48; 47; 121] [105] = Some (true, Some []) /\
  rtosc_match (render pat_alt) [120; 99; 100; 52; 47; 121] [105] = Some (false, None) /\
  rtosc_match (render pat_alt) [120; 97; 100; 51; 47; 121] [105] = Some (false, None) /\
  rtosc_match (render pat_alt) [120; 97; 98; 99; 100; 51; 47; 121] [105] = Some (false, None).
Proof.
  split; [exact pat_alt_wf|].
  split.
  { intros l [E|[E|[E|[E|[]]]]]; try discriminate. inversion E; subst.
    intros a b [<-|[<-|[]]] [<-|[<-|[]]]; cbn; intros H; try reflexivity;
      destruct H as [H _]; discriminate H. }
  split; [cbn; tauto|].
  split; [repeat constructor; discriminate|].
  split.
  { split; [|reflexivity].
    change [120; 99; 100; 51; 47; 121] with ([120] ++ [99; 100] ++ [51] ++ [47; 121] ++ []).
    constructor; [constructor|]. constructor; [constructor; cbn; tauto|].
    constructor; [|constructor; [constructor | constructor]].
    constructor; [discriminate | repeat constructor | vm_compute; reflexivity]. }
  vm_compute. auto 10.
Qed.
