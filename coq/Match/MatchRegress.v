(* C05 - regression witness: rtosc_match_number as it was on the pinned tree
   (atoi into an unsigned) and an address with a 10-digit index that it
   matched although the index is not below N. *)
From Coq Require Import List ZArith Bool Lia.
From RtoscV Require Import Match.PatSpec Match.MatchModel Match.MatchProofs.
Import ListNotations.
Local Open Scope Z_scope.

Definition match_number_old (p m : str) : bool * str * str :=
  if negb (isdigit (hd0 p)) || negb (isdigit (hd0 m)) then (false, p, m)
  else (atoi_u m <? atoi_u p, skip_digits p, skip_digits m).

Definition path_step_old (continue : str -> str -> mres) (p m : str) : mres :=
  match p with
  | [] => match m with [] => MRet p m | _ :: _ => MNull end
  | c :: t =>
      if (c =? 58) && (hd0 m =? 0) then MRet p m
      else if c =? 123 then
        match match_options p m with
        | None => MNull
        | Some (p', m') => continue p' m'
        end
      else if c =? 42 then
        let p' := star_skip_p p in
        let m' := if (hd0 p' =? 47) || (hd0 p' =? 58) then star_skip_m m else m in
        continue p' m'
      else if (c =? 47) && (hd0 m =? 47) then
        let m' := tl m in
        if (hd0 t =? 0) || (hd0 t =? 58) then MRet t m' else continue t m'
      else if c =? 35 then
        match match_number_old t m with
        | (false, _, _) => MNull
        | (true, p', m') => continue p' m'
        end
      else if c =? hd0 m then
        match m with
        | _ :: ms => continue t ms
        | [] => MRet p m
        end
      else MNull
  end.

Fixpoint match_path_old_f (fuel : nat) (p m : str) : mres :=
  match fuel with
  | O => MFuel
  | S f => path_step_old (match_path_old_f f) p m
  end.
Definition match_path_old (p m : str) : mres := match_path_old_f (S (length p)) p m.

(* a#3 *)
Definition pat_a3 : pat := {| segs := [Lit [97]; Enum [51]]; subtree := false; types := None |}.
(* a4294967296 *)
Definition addr_2p32 : str := [97; 52; 50; 57; 52; 57; 54; 55; 50; 57; 54].

Lemma pat_a3_wf : wf_pat pat_a3.
Proof. unfold wf_pat, pat_a3. prove_wf. Qed.

(* the pinned matcher accepts index 4294967296 for N = 3; the address does not
   spell the pattern; it has a digit run of 10 digits *)
Theorem long_index_refuted : exists p addr,
  wf_pat p /\ addr_ok addr /\ ~ digit_runs_ok addr /\
  match_path_old (render p) addr = MRet [] [] /\ ~ path_spec p addr [].
Proof.
  exists pat_a3, addr_2p32. split; [exact pat_a3_wf|].
  assert (Hok : addr_ok addr_2p32) by (repeat constructor; discriminate).
  split; [exact Hok|]. split.
  - intros H. specialize (H [97] [52; 50; 57; 52; 57; 54; 55; 50; 57; 54] [] eq_refl).
    assert (digits [52; 50; 57; 52; 57; 54; 55; 50; 57; 54]) by (repeat constructor).
    specialize (H H0). cbn in H. lia.
  - split; [vm_compute; reflexivity|]. intros Sp.
    assert (M : match_path (render pat_a3) addr_2p32 = MRet (render_types (types pat_a3)) []).
    { apply path_complete; try assumption; [exact pat_a3_wf | intros l [E|[E|[]]]; discriminate | exact I]. }
    vm_compute in M. discriminate.
Qed.

(* the repaired matcher rejects it *)
Lemma long_index_repaired : match_path (render pat_a3) addr_2p32 = MNull.
Proof. vm_compute. reflexivity. Qed.
