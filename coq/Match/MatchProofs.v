(* C05 - proofs about the matcher model (Match/MatchModel.v) against the
   pattern-language Spec (Match/PatSpec.v). *)
From Coq Require Import List ZArith Bool Lia.
From RtoscV Require Import Match.PatSpec Match.MatchModel.
Import ListNotations.
Local Open Scope Z_scope.

(* ======================================================================== *)
(* generic string facts                                                      *)
(* ======================================================================== *)
Fixpoint prefixb (a b : str) : bool :=
  match a, b with
  | [], _ => true
  | x :: a', y :: b' => (x =? y) && prefixb a' b'
  | _ :: _, [] => false
  end.

Lemma prefixb_prefix : forall a b, prefixb a b = true <-> prefix a b.
Proof.
  induction a as [|x a IH]; intros [|y b]; cbn; try tauto; try (split; [discriminate|tauto]).
  rewrite andb_true_iff, Z.eqb_eq, IH. tauto.
Qed.

Lemma prefix_app : forall a b, prefix a b <-> exists r, b = a ++ r.
Proof.
  induction a as [|x a IH]; intros b; cbn.
  - split; [intros _; exists b; reflexivity | tauto].
  - destruct b as [|y b].
    + split; [tauto | intros [r H]; discriminate].
    + rewrite IH. split.
      * intros [-> [r ->]]. exists r. reflexivity.
      * intros [r H]. inversion H. split; [reflexivity | exists r; reflexivity].
Qed.

Lemma prefix_refl : forall a, prefix a a.
Proof. intros a. apply prefix_app. exists []. now rewrite app_nil_r. Qed.

Lemma prefix_same_length : forall a b, prefix a b -> length a = length b -> a = b.
Proof.
  induction a as [|x a IH]; intros [|y b]; cbn; try tauto; try discriminate.
  intros [-> H] L. f_equal. apply IH; [assumption | lia].
Qed.

(* two prefixes of the same string are comparable *)
Lemma prefix_comparable : forall a b s, prefix a s -> prefix b s -> prefix a b \/ prefix b a.
Proof.
  induction a as [|x a IH]; intros b s; cbn; [tauto|].
  destruct b as [|y b]; [cbn; tauto|].
  destruct s as [|z s]; cbn; [tauto|].
  intros [-> Ha] [-> Hb]. destruct (IH _ _ Ha Hb); tauto.
Qed.

Definition nul_free (s : str) : Prop := Forall (fun c => c <> 0) s.

Lemma hd0_nul_free : forall s, nul_free s -> (hd0 s =? 0) = match s with [] => true | _ => false end.
Proof.
  intros [|c s] H; cbn; [reflexivity|]. inversion H; subst. now apply Z.eqb_neq.
Qed.

(* ======================================================================== *)
(* type alternatives                                                         *)
(* ======================================================================== *)
(* what the loop computes over the alternatives, alternative by alternative *)
Fixpoint alts_match (l : list str) (args : str) : bool :=
  match l with
  | [] => true
  | [a] => match a with [] => match args with [] => true | _ => false end | _ => prefixb a args end
  | a :: r => (prefixb a args && (length a =? length args)%nat) || alts_match r args
  end.

Definition type_char (c : Z) : Prop := c <> 0 /\ c <> 58.

Lemma args_loop_alt : forall a args x am rest,
  Forall type_char a -> nul_free x ->
  args_loop args x am (a ++ rest) = args_loop args (skipn (length a) x) (am && prefixb a x) rest.
Proof.
  induction a as [|c a IH]; intros args x am rest Ha Hx.
  - cbn. now rewrite andb_true_r.
  - inversion Ha as [|? ? [Hc0 Hc58] Ha']; subst.
    cbn [app args_loop]. replace (c =? 58) with false by (symmetry; now apply Z.eqb_neq).
    destruct x as [|y x].
    + cbn [tl hd0 length skipn prefixb]. replace (c =? 0) with false by (symmetry; now apply Z.eqb_neq).
      rewrite IH by (assumption || constructor). rewrite !andb_false_r.
      now destruct a.
    + inversion Hx; subst. cbn [tl hd0 length skipn prefixb].
      rewrite IH by assumption. now rewrite andb_assoc.
Qed.

Lemma skipn_prefix_end : forall a x, nul_free x -> prefixb a x = true ->
  (hd0 (skipn (length a) x) =? 0) = (length a =? length x)%nat.
Proof.
  induction a as [|c a IH]; intros x Hx P.
  - cbn. rewrite hd0_nul_free by assumption. now destruct x.
  - destruct x as [|y x]; [discriminate|]. cbn in P. apply andb_true_iff in P as [_ P].
    inversion Hx; subst. cbn [length skipn]. rewrite IH by assumption. reflexivity.
Qed.

Lemma args_init_alt : forall a rest args, Forall type_char a -> nul_free args ->
  (rest = [] \/ hd0 rest = 58) ->
  args_init (a ++ rest) args =
  match a, rest with [], [] => match args with [] => true | _ => false end | _, _ => true end.
Proof.
  intros a rest args Ha Hargs Hr. unfold args_init.
  destruct a as [|c a].
  - destruct rest as [|r rest]; cbn [app hd0].
    + rewrite Z.eqb_refl. cbn [negb orb]. rewrite Z.eqb_sym. now apply hd0_nul_free.
    + destruct Hr as [Hr|Hr]; [discriminate|]. cbn [hd0] in Hr. subst. reflexivity.
  - inversion Ha as [|? ? [Hc0 _] _]; subst. cbn [app hd0].
    replace (c =? 0) with false by (symmetry; now apply Z.eqb_neq). reflexivity.
Qed.

Lemma render_types_hd : forall l, render_types (Some l) = [] \/ hd0 (render_types (Some l)) = 58.
Proof. intros [|a l]; cbn; tauto. Qed.

Lemma args_loop_alts : forall l a args,
  Forall (Forall type_char) (a :: l) -> nul_free args ->
  args_loop args args (args_init (a ++ render_types (Some l)) args) (a ++ render_types (Some l))
  = alts_match (a :: l) args.
Proof.
  induction l as [|b l IH]; intros a args Hal Hargs.
  - inversion Hal as [|? ? Ha _]; subst.
    rewrite args_init_alt by (auto using render_types_hd).
    rewrite args_loop_alt by assumption. cbn [render_types map concat args_loop alts_match].
    destruct a as [|c a]; [destruct args; reflexivity|]. reflexivity.
  - inversion Hal as [|? ? Ha Hl]; subst.
    rewrite args_init_alt by (auto using render_types_hd).
    rewrite args_loop_alt by assumption.
    change (render_types (Some (b :: l))) with (58 :: b ++ render_types (Some l)).
    cbn [args_loop]. rewrite Z.eqb_refl.
    replace (match a with [] => true | _ :: _ => true end) with true by now destruct a.
    cbn [andb]. specialize (IH b args Hl Hargs).
    change (alts_match (a :: b :: l) args) with
      ((prefixb a args && (length a =? length args)%nat) || alts_match (b :: l) args).
    destruct (prefixb a args) eqn:P; cbn [andb orb].
    + rewrite skipn_prefix_end by assumption.
      destruct (length a =? length args)%nat; cbn [orb]; [reflexivity | exact IH].
    + exact IH.
Qed.

Lemma match_args_alts : forall l args,
  l <> [] -> Forall (Forall type_char) l -> nul_free args ->
  match_args (render_types (Some l)) args = alts_match l args.
Proof.
  intros [|a l] args Hne Hl Hargs; [congruence|].
  change (render_types (Some (a :: l))) with (58 :: a ++ render_types (Some l)).
  cbn [match_args]. rewrite Z.eqb_refl. now apply args_loop_alts.
Qed.

Lemma prefixb_len_eq : forall a b, prefixb a b && (length a =? length b)%nat = true <-> a = b.
Proof.
  intros a b. rewrite andb_true_iff, prefixb_prefix, Nat.eqb_eq. split.
  - intros [P L]. now apply prefix_same_length.
  - intros ->. split; [apply prefix_refl | reflexivity].
Qed.

Lemma alts_match_complete : forall l args, l <> [] -> In args l -> alts_match l args = true.
Proof.
  induction l as [|a l IH]; intros args Hne Hin; [congruence|].
  destruct l as [|b l].
  - destruct Hin as [<-|[]]. cbn. destruct a; [reflexivity|]. apply prefixb_prefix, prefix_refl.
  - change (alts_match (a :: b :: l) args) with
      ((prefixb a args && (length a =? length args)%nat) || alts_match (b :: l) args).
    apply orb_true_iff. destruct Hin as [<-|Hin].
    + left. now apply prefixb_len_eq.
    + right. apply IH; [discriminate | assumption].
Qed.

(* true only for an alternative itself or for a proper extension of the last
   (non-empty) alternative *)
Lemma alts_match_sound : forall l args, l <> [] -> alts_match l args = true ->
  In args l \/ (last l [] <> [] /\ prefix (last l []) args /\ last l [] <> args).
Proof.
  induction l as [|a l IH]; intros args Hne H; [congruence|].
  destruct l as [|b l].
  - cbn in H. cbn [last]. destruct a as [|c a].
    + destruct args; [left; now left | discriminate].
    + destruct (list_eq_dec Z.eq_dec (c :: a) args) as [E|E]; [left; now left|].
      right. split; [discriminate|]. split; [now apply prefixb_prefix | assumption].
  - change (alts_match (a :: b :: l) args) with
      ((prefixb a args && (length a =? length args)%nat) || alts_match (b :: l) args) in H.
    apply orb_true_iff in H as [H|H].
    + apply prefixb_len_eq in H. left; now left.
    + destruct (IH args ltac:(discriminate) H) as [Hin|Hl].
      * left; now right.
      * right. exact Hl.
Qed.

(* the three copies are the same function *)
Lemma arg_matcher_loop_eq : forall p args a am, arg_matcher_loop args a am p = args_loop args a am p.
Proof.
  induction p as [|c t IH]; intros; cbn [arg_matcher_loop args_loop]; [reflexivity|].
  unfold args_init. destruct (c =? 58); [|apply IH].
  destruct (am && (hd0 a =? 0)); [reflexivity | apply IH].
Qed.
Lemma pm_args_loop_eq : forall p args a am, pm_args_loop args a am p = args_loop args a am p.
Proof.
  induction p as [|c t IH]; intros; cbn [pm_args_loop args_loop]; [reflexivity|].
  unfold args_init. destruct (c =? 58); [|apply IH].
  destruct (am && (hd0 a =? 0)); [reflexivity | apply IH].
Qed.

Lemma copies_agree : forall p args,
  arg_matcher p args = match_args p args /\ pm_match_args p args = match_args p args.
Proof.
  intros [|c t] args; [split; reflexivity|].
  unfold arg_matcher, pm_match_args, match_args. cbn [hd0 tl].
  unfold args_init. destruct (c =? 58); [|split; reflexivity].
  split; [apply arg_matcher_loop_eq | apply pm_args_loop_eq].
Qed.

Lemma types_complete : forall l ty,
  types_ok (Some l) -> In ty l -> match_args (render_types (Some l)) ty = true.
Proof.
  intros l ty [Hne Hl] Hin.
  assert (Hty : nul_free ty).
  { rewrite Forall_forall in Hl. specialize (Hl _ Hin). unfold nul_free.
    rewrite Forall_forall in *. intros c Hc. now destruct (Hl c Hc). }
  rewrite match_args_alts by assumption. now apply alts_match_complete.
Qed.

Lemma types_sound : forall l ty,
  types_ok (Some l) -> nul_free ty -> match_args (render_types (Some l)) ty = true ->
  In ty l \/ (last l [] <> [] /\ prefix (last l []) ty /\ last l [] <> ty).
Proof.
  intros l ty [Hne Hl] Hty H. rewrite match_args_alts in H by assumption.
  now apply alts_match_sound.
Qed.

Example types_nonvacuous :
  types_ok (Some [[105; 105]; []; [105]]) /\
  match_args (render_types (Some [[105; 105]; []; [105]])) [] = true /\
  match_args (render_types (Some [[105; 105]; []; [105]])) [105; 102] = true /\
  match_args (render_types (Some [[105; 105]; []; [105]])) [102] = false.
Proof.
  split; [|vm_compute; auto].
  split; [discriminate|]. repeat constructor; discriminate.
Qed.
