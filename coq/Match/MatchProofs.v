(* C05 - proofs about the matcher model (Match/MatchModel.v) against the
   pattern-language Spec (Match/PatSpec.v). *)
From Coq Require Import List ZArith Bool Lia.
From RtoscV Require Import Match.PatSpec Match.MatchModel.
Import ListNotations.
Local Open Scope Z_scope.

(* ======================================================================== *)
(* generic string facts                                                      *)
(* ======================================================================== *)
Fixpoint prefixb (a b : str) : bool :=
  match a, b with
  | [], _ => true
  | x :: a', y :: b' => (x =? y) && prefixb a' b'
  | _ :: _, [] => false
  end.

Lemma prefixb_prefix : forall a b, prefixb a b = true <-> prefix a b.
Proof.
  induction a as [|x a IH]; intros [|y b]; cbn; try tauto; try (split; [discriminate|tauto]).
  rewrite andb_true_iff, Z.eqb_eq, IH. tauto.
Qed.

Lemma prefix_app : forall a b, prefix a b <-> exists r, b = a ++ r.
Proof.
  induction a as [|x a IH]; intros b; cbn.
  - split; [intros _; exists b; reflexivity | tauto].
  - destruct b as [|y b].
    + split; [tauto | intros [r H]; discriminate].
    + rewrite IH. split.
      * intros [-> [r ->]]. exists r. reflexivity.
      * intros [r H]. inversion H. split; [reflexivity | exists r; reflexivity].
Qed.

Lemma prefix_refl : forall a, prefix a a.
Proof. intros a. apply prefix_app. exists []. now rewrite app_nil_r. Qed.

Lemma prefix_same_length : forall a b, prefix a b -> length a = length b -> a = b.
Proof.
  induction a as [|x a IH]; intros [|y b]; cbn; try tauto; try discriminate.
  intros [-> H] L. f_equal. apply IH; [assumption | lia].
Qed.

(* two prefixes of the same string are comparable *)
Lemma prefix_comparable : forall a b s, prefix a s -> prefix b s -> prefix a b \/ prefix b a.
Proof.
  induction a as [|x a IH]; intros b s; cbn; [tauto|].
  destruct b as [|y b]; [cbn; tauto|].
  destruct s as [|z s]; cbn; [tauto|].
  intros [-> Ha] [-> Hb]. destruct (IH _ _ Ha Hb); tauto.
Qed.

Definition nul_free (s : str) : Prop := Forall (fun c => c <> 0) s.

Lemma hd0_nul_free : forall s, nul_free s -> (hd0 s =? 0) = match s with [] => true | _ => false end.
Proof.
  intros [|c s] H; cbn; [reflexivity|]. inversion H; subst. now apply Z.eqb_neq.
Qed.

(* ======================================================================== *)
(* type alternatives                                                         *)
(* ======================================================================== *)
(* what the loop computes over the alternatives, alternative by alternative *)
Fixpoint alts_match (l : list str) (args : str) : bool :=
  match l with
  | [] => true
  | [a] => match a with [] => match args with [] => true | _ => false end | _ => prefixb a args end
  | a :: r => (prefixb a args && (length a =? length args)%nat) || alts_match r args
  end.

Definition type_char (c : Z) : Prop := c <> 0 /\ c <> 58.

Lemma args_loop_alt : forall a args x am rest,
  Forall type_char a -> nul_free x ->
  args_loop args x am (a ++ rest) = args_loop args (skipn (length a) x) (am && prefixb a x) rest.
Proof.
  induction a as [|c a IH]; intros args x am rest Ha Hx.
  - cbn. now rewrite andb_true_r.
  - inversion Ha as [|? ? [Hc0 Hc58] Ha']; subst.
    cbn [app args_loop]. replace (c =? 58) with false by (symmetry; now apply Z.eqb_neq).
    destruct x as [|y x].
    + cbn [tl hd0 length skipn prefixb]. replace (c =? 0) with false by (symmetry; now apply Z.eqb_neq).
      rewrite IH by (assumption || constructor). rewrite !andb_false_r.
      now destruct a.
    + inversion Hx; subst. cbn [tl hd0 length skipn prefixb].
      rewrite IH by assumption. now rewrite andb_assoc.
Qed.

Lemma skipn_prefix_end : forall a x, nul_free x -> prefixb a x = true ->
  (hd0 (skipn (length a) x) =? 0) = (length a =? length x)%nat.
Proof.
  induction a as [|c a IH]; intros x Hx P.
  - cbn. rewrite hd0_nul_free by assumption. now destruct x.
  - destruct x as [|y x]; [discriminate|]. cbn in P. apply andb_true_iff in P as [_ P].
    inversion Hx; subst. cbn [length skipn]. rewrite IH by assumption. reflexivity.
Qed.

Lemma args_init_alt : forall a rest args, Forall type_char a -> nul_free args ->
  (rest = [] \/ hd0 rest = 58) ->
  args_init (a ++ rest) args =
  match a, rest with [], [] => match args with [] => true | _ => false end | _, _ => true end.
Proof.
  intros a rest args Ha Hargs Hr. unfold args_init.
  destruct a as [|c a].
  - destruct rest as [|r rest]; cbn [app hd0].
    + rewrite Z.eqb_refl. cbn [negb orb]. rewrite Z.eqb_sym. now apply hd0_nul_free.
    + destruct Hr as [Hr|Hr]; [discriminate|]. cbn [hd0] in Hr. subst. reflexivity.
  - inversion Ha as [|? ? [Hc0 _] _]; subst. cbn [app hd0].
    replace (c =? 0) with false by (symmetry; now apply Z.eqb_neq). reflexivity.
Qed.

Lemma render_types_hd : forall l, render_types (Some l) = [] \/ hd0 (render_types (Some l)) = 58.
Proof. intros [|a l]; cbn; tauto. Qed.

Lemma args_loop_alts : forall l a args,
  Forall (Forall type_char) (a :: l) -> nul_free args ->
  args_loop args args (args_init (a ++ render_types (Some l)) args) (a ++ render_types (Some l))
  = alts_match (a :: l) args.
Proof.
  induction l as [|b l IH]; intros a args Hal Hargs.
  - inversion Hal as [|? ? Ha _]; subst.
    rewrite args_init_alt by (auto using render_types_hd).
    rewrite args_loop_alt by assumption. cbn [render_types map concat args_loop alts_match].
    destruct a as [|c a]; [destruct args; reflexivity|]. reflexivity.
  - inversion Hal as [|? ? Ha Hl]; subst.
    rewrite args_init_alt by (auto using render_types_hd).
    rewrite args_loop_alt by assumption.
    change (render_types (Some (b :: l))) with (58 :: b ++ render_types (Some l)).
    cbn [args_loop]. rewrite Z.eqb_refl.
    replace (match a with [] => true | _ :: _ => true end) with true by now destruct a.
    cbn [andb]. specialize (IH b args Hl Hargs).
    change (alts_match (a :: b :: l) args) with
      ((prefixb a args && (length a =? length args)%nat) || alts_match (b :: l) args).
    destruct (prefixb a args) eqn:P; cbn [andb orb].
    + rewrite skipn_prefix_end by assumption.
      destruct (length a =? length args)%nat; cbn [orb]; [reflexivity | exact IH].
    + exact IH.
Qed.

Lemma match_args_alts : forall l args,
  l <> [] -> Forall (Forall type_char) l -> nul_free args ->
  match_args (render_types (Some l)) args = alts_match l args.
Proof.
  intros [|a l] args Hne Hl Hargs; [congruence|].
  change (render_types (Some (a :: l))) with (58 :: a ++ render_types (Some l)).
  cbn [match_args]. rewrite Z.eqb_refl. now apply args_loop_alts.
Qed.

Lemma prefixb_len_eq : forall a b, prefixb a b && (length a =? length b)%nat = true <-> a = b.
Proof.
  intros a b. rewrite andb_true_iff, prefixb_prefix, Nat.eqb_eq. split.
  - intros [P L]. now apply prefix_same_length.
  - intros ->. split; [apply prefix_refl | reflexivity].
Qed.

Lemma alts_match_complete : forall l args, l <> [] -> In args l -> alts_match l args = true.
Proof.
  induction l as [|a l IH]; intros args Hne Hin; [congruence|].
  destruct l as [|b l].
  - destruct Hin as [<-|[]]. cbn. destruct a; [reflexivity|]. apply prefixb_prefix, prefix_refl.
  - change (alts_match (a :: b :: l) args) with
      ((prefixb a args && (length a =? length args)%nat) || alts_match (b :: l) args).
    apply orb_true_iff. destruct Hin as [<-|Hin].
    + left. now apply prefixb_len_eq.
    + right. apply IH; [discriminate | assumption].
Qed.

(* true only for an alternative itself or for a proper extension of the last
   (non-empty) alternative *)
Lemma alts_match_sound : forall l args, l <> [] -> alts_match l args = true ->
  In args l \/ (last l [] <> [] /\ prefix (last l []) args /\ last l [] <> args).
Proof.
  induction l as [|a l IH]; intros args Hne H; [congruence|].
  destruct l as [|b l].
  - cbn in H. cbn [last]. destruct a as [|c a].
    + destruct args; [left; now left | discriminate].
    + destruct (list_eq_dec Z.eq_dec (c :: a) args) as [E|E]; [left; now left|].
      right. split; [discriminate|]. split; [now apply prefixb_prefix | assumption].
  - change (alts_match (a :: b :: l) args) with
      ((prefixb a args && (length a =? length args)%nat) || alts_match (b :: l) args) in H.
    apply orb_true_iff in H as [H|H].
    + apply prefixb_len_eq in H. left; now left.
    + destruct (IH args ltac:(discriminate) H) as [Hin|Hl].
      * left; now right.
      * right. exact Hl.
Qed.

(* the three copies are the same function *)
Lemma arg_matcher_loop_eq : forall p args a am, arg_matcher_loop args a am p = args_loop args a am p.
Proof.
  induction p as [|c t IH]; intros; cbn [arg_matcher_loop args_loop]; [reflexivity|].
  unfold args_init. destruct (c =? 58); [|apply IH].
  destruct (am && (hd0 a =? 0)); [reflexivity | apply IH].
Qed.
Lemma pm_args_loop_eq : forall p args a am, pm_args_loop args a am p = args_loop args a am p.
Proof.
  induction p as [|c t IH]; intros; cbn [pm_args_loop args_loop]; [reflexivity|].
  unfold args_init. destruct (c =? 58); [|apply IH].
  destruct (am && (hd0 a =? 0)); [reflexivity | apply IH].
Qed.

Lemma copies_agree : forall p args,
  arg_matcher p args = match_args p args /\ pm_match_args p args = match_args p args.
Proof.
  intros [|c t] args; [split; reflexivity|].
  unfold arg_matcher, pm_match_args, match_args. cbn [hd0 tl].
  unfold args_init. destruct (c =? 58); [|split; reflexivity].
  split; [apply arg_matcher_loop_eq | apply pm_args_loop_eq].
Qed.

Lemma types_complete : forall l ty,
  types_ok (Some l) -> In ty l -> match_args (render_types (Some l)) ty = true.
Proof.
  intros l ty [Hne Hl] Hin.
  assert (Hty : nul_free ty).
  { rewrite Forall_forall in Hl. specialize (Hl _ Hin). unfold nul_free.
    rewrite Forall_forall in *. intros c Hc. now destruct (Hl c Hc). }
  rewrite match_args_alts by assumption. now apply alts_match_complete.
Qed.

Lemma types_sound : forall l ty,
  types_ok (Some l) -> nul_free ty -> match_args (render_types (Some l)) ty = true ->
  In ty l \/ (last l [] <> [] /\ prefix (last l []) ty /\ last l [] <> ty).
Proof.
  intros l ty [Hne Hl] Hty H. rewrite match_args_alts in H by assumption.
  now apply alts_match_sound.
Qed.

Example types_nonvacuous :
  types_ok (Some [[105; 105]; []; [105]]) /\
  match_args (render_types (Some [[105; 105]; []; [105]])) [] = true /\
  match_args (render_types (Some [[105; 105]; []; [105]])) [105; 102] = true /\
  match_args (render_types (Some [[105; 105]; []; [105]])) [102] = false.
Proof.
  split; [|vm_compute; auto].
  split; [discriminate|]. repeat constructor; discriminate.
Qed.

(* ======================================================================== *)
(* rtosc_match_path: fuel is irrelevant, the loop equation                   *)
(* ======================================================================== *)
Lemma adv_until_end_len : forall p, (length (adv_until_end p) <= length p)%nat.
Proof.
  induction p as [|c t IH]; cbn; [lia|]. destruct (c =? 125); lia.
Qed.

Lemma options_loop_len : forall p mode pre m p' m',
  options_loop mode pre m p = Some (p', m') -> (length p' <= length p)%nat.
Proof.
  induction p as [|c t IH]; intros mode pre m p' m' H; [discriminate|].
  cbn [options_loop] in H. destruct mode.
  - destruct ((c =? 44) || (c =? 125)).
    + injection H as <- <-. apply (adv_until_end_len (c :: t)).
    + destruct m as [|m0 ms]; [|destruct (c =? m0)]; apply IH in H; cbn; lia.
  - destruct (c =? 125); [discriminate|].
    destruct (c =? 44); apply IH in H; cbn; lia.
Qed.

Lemma match_options_len : forall p m p' m',
  match_options p m = Some (p', m') -> (length p' < length p)%nat.
Proof.
  intros [|c t] m p' m' H; [discriminate|]. cbn in H. apply options_loop_len in H. cbn. lia.
Qed.

Lemma star_skip_p_len : forall p, (length (star_skip_p p) <= length p)%nat.
Proof.
  induction p as [|c t IH]; cbn; [lia|]. destruct ((c =? 47) || (c =? 58)); cbn; lia.
Qed.

Lemma skip_digits_len : forall p, (length (skip_digits p) <= length p)%nat.
Proof.
  induction p as [|c t IH]; cbn; [lia|]. destruct (isdigit c); cbn; lia.
Qed.

Lemma path_step_ext : forall r1 r2 p m,
  (forall p' m', (length p' < length p)%nat -> r1 p' m' = r2 p' m') ->
  path_step r1 p m = path_step r2 p m.
Proof.
  intros r1 r2 [|c t] m H; [reflexivity|]. unfold path_step.
  destruct ((c =? 58) && (hd0 m =? 0)); [reflexivity|].
  destruct (c =? 123).
  { destruct (match_options (c :: t) m) as [[p' m']|] eqn:E; [|reflexivity].
    apply H. now apply match_options_len in E. }
  destruct (c =? 42) eqn:E42.
  { apply Z.eqb_eq in E42. subst c. apply H.
    change (star_skip_p (42 :: t)) with (star_skip_p t).
    pose proof (star_skip_p_len t). cbn. lia. }
  destruct ((c =? 47) && (hd0 m =? 47)).
  { destruct ((hd0 t =? 0) || (hd0 t =? 58)); [reflexivity|]. apply H. cbn. lia. }
  destruct (c =? 35).
  { unfold match_number.
    destruct (negb (isdigit (hd0 t)) || negb (isdigit (hd0 m))); [reflexivity|].
    destruct (read_u m <? read_u t); [|reflexivity].
    apply H. pose proof (skip_digits_len t). cbn. lia. }
  destruct (c =? hd0 m); [|reflexivity].
  destruct m; [reflexivity|]. apply H. cbn. lia.
Qed.

Lemma match_path_f_fuel : forall f1 f2 p m,
  (length p < f1)%nat -> (length p < f2)%nat -> match_path_f f1 p m = match_path_f f2 p m.
Proof.
  induction f1 as [|f1 IH]; intros f2 p m H1 H2; [lia|].
  destruct f2 as [|f2]; [lia|]. cbn [match_path_f].
  apply path_step_ext. intros p' m' L. apply IH; lia.
Qed.

(* the loop equation: one iteration, then the loop again *)
Lemma match_path_eq : forall p m, match_path p m = path_step match_path p m.
Proof.
  intros p m. unfold match_path at 1. cbn [match_path_f].
  apply path_step_ext. intros p' m' L. unfold match_path. apply match_path_f_fuel; lia.
Qed.

Lemma path_step_nofuel : forall r p m,
  (forall p' m', (length p' < length p)%nat -> r p' m' <> MFuel) -> path_step r p m <> MFuel.
Proof.
  intros r [|c t] m H; unfold path_step; [destruct m; discriminate|].
  destruct ((c =? 58) && (hd0 m =? 0)); [discriminate|].
  destruct (c =? 123).
  { destruct (match_options (c :: t) m) as [[p' m']|] eqn:E; [|discriminate].
    apply H. now apply match_options_len in E. }
  destruct (c =? 42) eqn:E42.
  { apply Z.eqb_eq in E42. subst c. apply H.
    change (star_skip_p (42 :: t)) with (star_skip_p t).
    pose proof (star_skip_p_len t). cbn. lia. }
  destruct ((c =? 47) && (hd0 m =? 47)).
  { destruct ((hd0 t =? 0) || (hd0 t =? 58)); [discriminate|]. apply H. cbn. lia. }
  destruct (c =? 35).
  { unfold match_number.
    destruct (negb (isdigit (hd0 t)) || negb (isdigit (hd0 m))); [discriminate|].
    destruct (read_u m <? read_u t); [|discriminate].
    apply H. pose proof (skip_digits_len t). cbn. lia. }
  destruct (c =? hd0 m); [|discriminate].
  destruct m; [discriminate|]. apply H. cbn. lia.
Qed.

(* the fuel given by match_path is always enough: for EVERY pattern string
   and every address (not only rendered patterns) *)
Lemma match_path_nofuel : forall p m, match_path p m <> MFuel.
Proof.
  intros p. remember (length p) as n eqn:Hn. revert p Hn.
  induction n as [n IH] using lt_wf_ind. intros p Hn m.
  rewrite match_path_eq. apply path_step_nofuel. intros p' m' L.
  apply (IH (length p')); [lia | reflexivity].
Qed.

(* ======================================================================== *)
(* one segment at a time                                                     *)
(* ======================================================================== *)
Lemma eqb_false : forall c d : Z, c <> d -> (c =? d) = false.
Proof. intros. now apply Z.eqb_neq. Qed.

(* a literal character *)
Lemma match_path_char : forall c t m,
  nonspecial c -> (c = 47 -> hd0 t <> 0 /\ hd0 t <> 58) ->
  match_path (c :: t) m =
  match m with m0 :: ms => if c =? m0 then match_path t ms else MNull | [] => MNull end.
Proof.
  intros c t m (H0 & H58 & H123 & H42 & H35) Hs.
  rewrite match_path_eq. unfold path_step.
  rewrite (eqb_false c 58), (eqb_false c 123), (eqb_false c 42), (eqb_false c 35) by assumption.
  cbn [andb]. destruct (c =? 47) eqn:E47.
  - apply Z.eqb_eq in E47. destruct (Hs E47) as [Ht0 Ht58].
    rewrite (eqb_false _ _ Ht0), (eqb_false _ _ Ht58). cbn [orb andb].
    destruct m as [|m0 ms]; cbn [hd0 tl].
    + subst c. reflexivity.
    + subst c. rewrite (Z.eqb_sym m0 47). destruct (47 =? m0); reflexivity.
  - cbn [andb]. destruct m as [|m0 ms]; cbn [hd0].
    + now rewrite (eqb_false c 0).
    + destruct (c =? m0); reflexivity.
Qed.

Fixpoint slash_ok (lit rest : str) : Prop :=
  match lit with
  | [] => True
  | c :: t => (c = 47 -> hd0 (t ++ rest) <> 0 /\ hd0 (t ++ rest) <> 58) /\ slash_ok t rest
  end.

Lemma match_path_lit : forall lit rest m,
  Forall nonspecial lit -> slash_ok lit rest ->
  match_path (lit ++ rest) m =
  if prefixb lit m then match_path rest (skipn (length lit) m) else MNull.
Proof.
  induction lit as [|c t IH]; intros rest m Hl Hs; [reflexivity|].
  inversion Hl; subst. destruct Hs as [Hs1 Hs2].
  cbn [app]. rewrite match_path_char by assumption.
  destruct m as [|m0 ms]; [reflexivity|]. cbn [prefixb length skipn].
  destruct (c =? m0); [|reflexivity]. cbn [andb]. now apply IH.
Qed.

(* ---- decimal numbers ---------------------------------------------------- *)
Fixpoint take_digits (s : str) : str :=
  match s with
  | [] => []
  | c :: t => if isdigit c then c :: take_digits t else []
  end.

Definition dstep (a c : Z) : Z := a * 10 + (c - 48).

Lemma dec_fold : forall x, dec x = fold_left dstep x 0.
Proof. reflexivity. Qed.

Lemma take_skip : forall s, s = take_digits s ++ skip_digits s.
Proof. induction s as [|c t IH]; cbn; [reflexivity|]. destruct (isdigit c); cbn; congruence. Qed.

Lemma take_digits_digits : forall s, digits (take_digits s).
Proof.
  induction s as [|c t IH]; cbn; [constructor|]. destruct (isdigit c) eqn:E; constructor; assumption.
Qed.

Lemma atoi_acc_take : forall s acc, atoi_acc acc s = fold_left dstep (take_digits s) acc.
Proof.
  induction s as [|c t IH]; intros acc; cbn; [reflexivity|].
  destruct (isdigit c); cbn; [apply IH | reflexivity].
Qed.

Lemma take_skip_app : forall ds rest, digits ds -> starts_with_digit rest = false ->
  take_digits (ds ++ rest) = ds /\ skip_digits (ds ++ rest) = rest.
Proof.
  induction ds as [|c t IH]; intros rest Hd Hr.
  - cbn [app]. destruct rest as [|r rest]; cbn in *; [tauto|]. rewrite Hr. tauto.
  - inversion Hd; subst. cbn. rewrite H1. destruct (IH rest H2 Hr) as [-> ->]. tauto.
Qed.

Lemma fold_dstep_acc : forall x acc,
  fold_left dstep x acc = acc * 10 ^ Z.of_nat (length x) + fold_left dstep x 0.
Proof.
  induction x as [|c t IH]; intros acc.
  - cbn. lia.
  - cbn [fold_left length]. rewrite IH. rewrite (IH (dstep 0 c)).
    rewrite Nat2Z.inj_succ, Z.pow_succ_r by lia. unfold dstep. ring.
Qed.

Lemma isdigit_range : forall c, isdigit c = true -> 48 <= c <= 57.
Proof. intros c H. unfold isdigit in H. lia. Qed.

Lemma dec_bound : forall x, digits x -> 0 <= dec x < 10 ^ Z.of_nat (length x).
Proof.
  induction x as [|c t IH]; intros Hd.
  - cbn. lia.
  - inversion Hd; subst. specialize (IH H2). apply isdigit_range in H1.
    rewrite dec_fold in *. cbn [fold_left length]. rewrite fold_dstep_acc.
    rewrite Nat2Z.inj_succ, Z.pow_succ_r by lia. unfold dstep in *.
    assert (0 < 10 ^ Z.of_nat (length t)) by (apply Z.pow_pos_nonneg; lia).
    set (P := 10 ^ Z.of_nat (length t)) in *. set (F := fold_left (fun a c0 => a * 10 + (c0 - 48)) t 0) in *.
    assert (0 <= (c - 48) * P) by nia.
    assert ((c - 48) * P <= 9 * P) by nia.
    lia.
Qed.

Lemma dec_small : forall x, digits x -> (length x <= 9)%nat -> dec x mod 4294967296 = dec x.
Proof.
  intros x Hd L. apply Z.mod_small. pose proof (dec_bound x Hd) as [H0 H1].
  assert (10 ^ Z.of_nat (length x) <= 10 ^ 9) by (apply Z.pow_le_mono_r; lia).
  change (10 ^ 9) with 1000000000 in *. lia.
Qed.

Lemma fold_dstep_ge : forall x acc, digits x -> 0 <= acc -> acc <= fold_left dstep x acc.
Proof.
  intros x acc Hd Ha. rewrite fold_dstep_acc. pose proof (dec_bound x Hd) as [H0 _]. rewrite dec_fold in H0.
  assert (1 <= 10 ^ Z.of_nat (length x)) by (apply Z.pow_le_mono_r with (b := 0) (c := Z.of_nat (length x)); lia).
  nia.
Qed.

(* the saturating reader: the value of the digit run, capped at UINT_MAX *)
Lemma read_acc_spec : forall s acc, 0 <= acc <= umax ->
  read_acc acc s = Z.min (fold_left dstep (take_digits s) acc) umax.
Proof.
  unfold umax. induction s as [|c t IH]; intros acc Ha; cbn [read_acc take_digits]; unfold umax.
  - cbn. lia.
  - destruct (isdigit c) eqn:D; [|cbn; lia].
    apply isdigit_range in D. cbn [fold_left]. unfold dstep at 2.
    pose proof (Z.div_mod (4294967295 - (c - 48)) 10 ltac:(lia)) as Hq.
    pose proof (Z.mod_pos_bound (4294967295 - (c - 48)) 10 ltac:(lia)) as Hr.
    destruct (acc >? (4294967295 - (c - 48)) / 10) eqn:G.
    + apply Z.gtb_lt in G. rewrite IH by lia.
      pose proof (fold_dstep_ge (take_digits t) 4294967295 (take_digits_digits t) ltac:(lia)).
      pose proof (fold_dstep_ge (take_digits t) (acc * 10 + (c - 48)) (take_digits_digits t) ltac:(lia)).
      lia.
    + assert (~ (4294967295 - (c - 48)) / 10 < acc) by (intros X; apply Z.gtb_lt in X; congruence).
      apply IH. lia.
Qed.

Lemma read_u_spec : forall s, read_u s = Z.min (dec (take_digits s)) umax.
Proof. intros s. unfold read_u. rewrite read_acc_spec by (unfold umax; lia). now rewrite <- dec_fold. Qed.

Lemma dec_lt_umax : forall x, digits x -> (length x <= 9)%nat -> dec x < umax.
Proof.
  intros x Hd L. pose proof (dec_bound x Hd) as [H0 H1].
  assert (10 ^ Z.of_nat (length x) <= 10 ^ 9) by (apply Z.pow_le_mono_r; lia).
  change (10 ^ 9) with 1000000000 in *. unfold umax. lia.
Qed.

Lemma read_u_app : forall ds rest, digits ds -> (length ds <= 9)%nat ->
  starts_with_digit rest = false -> read_u (ds ++ rest) = dec ds.
Proof.
  intros ds rest Hd L Hr. rewrite read_u_spec.
  destruct (take_skip_app ds rest Hd Hr) as [-> _]. pose proof (dec_lt_umax ds Hd L). lia.
Qed.

(* below an N of at most 9 digits the reader is exact *)
Lemma read_u_ltb : forall m ds, digits ds -> (length ds <= 9)%nat ->
  (read_u m <? dec ds) = (dec (take_digits m) <? dec ds).
Proof.
  intros m ds Hd L. rewrite read_u_spec. pose proof (dec_lt_umax ds Hd L).
  destruct (dec (take_digits m) <? dec ds) eqn:E.
  - apply Z.ltb_lt in E. apply Z.ltb_lt. lia.
  - apply Z.ltb_ge in E. apply Z.ltb_ge. lia.
Qed.

(* an enumeration *)
Lemma match_path_enum : forall ds rest m,
  enum_ok ds -> starts_with_digit rest = false ->
  match_path (35 :: ds ++ rest) m =
  if isdigit (hd0 m) && (read_u m <? dec ds) then match_path rest (skip_digits m) else MNull.
Proof.
  intros ds rest m (Hne & Hd & L) Hr.
  rewrite match_path_eq. unfold path_step.
  change (35 =? 58) with false. change (35 =? 123) with false. change (35 =? 42) with false.
  change (35 =? 47) with false. change (35 =? 35) with true. cbn [andb].
  unfold match_number.
  assert (Hh : isdigit (hd0 (ds ++ rest)) = true).
  { destruct ds as [|d ds]; [congruence|]. now inversion Hd. }
  rewrite Hh. cbn [negb orb].
  rewrite read_u_app by assumption.
  destruct (take_skip_app ds rest Hd Hr) as [_ ->].
  destruct (isdigit (hd0 m)); cbn [negb andb]; [|reflexivity].
  destruct (read_u m <? dec ds); reflexivity.
Qed.

(* ---- alternatives ------------------------------------------------------- *)
Lemma adv_alt_chars : forall a rest, Forall alt_char a -> adv_until_end (a ++ rest) = adv_until_end rest.
Proof.
  induction a as [|c a IH]; intros rest Ha; [reflexivity|].
  inversion Ha as [|? ? (H0 & H44 & H125) Ha']; subst. cbn.
  rewrite (eqb_false c 125) by assumption. now apply IH.
Qed.

Lemma adv_join : forall l rest, Forall (Forall alt_char) l ->
  adv_until_end (join_alts l ++ 125 :: rest) = rest.
Proof.
  induction l as [|a l IH]; intros rest Hl; [reflexivity|].
  inversion Hl; subst. destruct l as [|b l].
  - cbn [join_alts]. rewrite adv_alt_chars by assumption. reflexivity.
  - change (join_alts (a :: b :: l)) with (a ++ 44 :: join_alts (b :: l)).
    rewrite <- app_assoc. rewrite adv_alt_chars by assumption. cbn [app adv_until_end].
    change (44 =? 125) with false. cbn iota. now apply IH.
Qed.

Lemma opt_skip : forall a pre m r, Forall alt_char a ->
  options_loop OSkip pre m (a ++ r) = options_loop OSkip pre m r.
Proof.
  induction a as [|c a IH]; intros pre m r Ha; [reflexivity|].
  inversion Ha as [|? ? (H0 & H44 & H125) Ha']; subst. cbn [app options_loop].
  rewrite (eqb_false c 125), (eqb_false c 44) by assumption. now apply IH.
Qed.

Lemma opt_cmp : forall a pre m d t, Forall alt_char a -> (d = 44 \/ d = 125) ->
  options_loop OCmp pre m (a ++ d :: t) =
  if prefixb a m then Some (adv_until_end (d :: t), skipn (length a) m)
  else if d =? 125 then None else options_loop OCmp pre pre t.
Proof.
  induction a as [|c a IH]; intros pre m d t Ha Hd.
  - cbn [app options_loop prefixb length skipn].
    destruct Hd as [-> | ->]; reflexivity.
  - inversion Ha as [|? ? (H0 & H44 & H125) Ha']; subst. cbn [app options_loop].
    rewrite (eqb_false c 125), (eqb_false c 44) by assumption. cbn [orb].
    assert (Hskip : options_loop OSkip pre pre (a ++ d :: t) =
                    if d =? 125 then None else options_loop OCmp pre pre t).
    { rewrite opt_skip by assumption. cbn [options_loop].
      destruct Hd as [-> | ->]; reflexivity. }
    destruct m as [|m0 ms]; cbn [prefixb]; [exact Hskip|].
    destruct (c =? m0); cbn [andb length skipn]; [now apply IH | exact Hskip].
Qed.

Lemma options_alts : forall l pre rest, Forall (Forall alt_char) l -> l <> [] ->
  options_loop OCmp pre pre (join_alts l ++ 125 :: rest) =
  match find (fun a => prefixb a pre) l with
  | Some a => Some (rest, skipn (length a) pre)
  | None => None
  end.
Proof.
  induction l as [|a l IH]; intros pre rest Hl Hne; [congruence|].
  inversion Hl; subst. destruct l as [|b l].
  - cbn [join_alts find]. rewrite opt_cmp by (auto).
    destruct (prefixb a pre); reflexivity.
  - change (join_alts (a :: b :: l)) with (a ++ 44 :: join_alts (b :: l)).
    rewrite <- app_assoc. cbn [app]. rewrite opt_cmp by (auto).
    cbn [find]. destruct (prefixb a pre).
    + cbn [adv_until_end]. change (44 =? 125) with false. cbn iota.
      now rewrite adv_join.
    + change (44 =? 125) with false. cbn iota. apply IH; [assumption | discriminate].
Qed.

Lemma match_path_alt : forall l rest m, alts_ok l ->
  match_path (123 :: join_alts l ++ 125 :: rest) m =
  match find (fun a => prefixb a m) l with
  | Some a => match_path rest (skipn (length a) m)
  | None => MNull
  end.
Proof.
  intros l rest m [Hne Hl]. rewrite match_path_eq. unfold path_step.
  change (123 =? 58) with false. change (123 =? 123) with true. cbn [andb].
  cbn [match_options]. rewrite options_alts by assumption.
  destruct (find (fun a => prefixb a m) l); reflexivity.
Qed.

(* ======================================================================== *)
(* the whole path: the code is the greedy left-to-right matcher              *)
(* ======================================================================== *)
Fixpoint greedy (l : list seg) (k : str -> mres) (m : str) : mres :=
  match l with
  | [] => k m
  | Lit s :: r => if prefixb s m then greedy r k (skipn (length s) m) else MNull
  | Enum ds :: r =>
      if isdigit (hd0 m) && (read_u m <? dec ds) then greedy r k (skip_digits m) else MNull
  | Alt a :: r =>
      match find (fun x => prefixb x m) a with
      | Some x => greedy r k (skipn (length x) m)
      | None => MNull
      end
  end.

(* what the text after the segments must look like *)
Fixpoint tail_cond (l : list seg) (tail : str) : Prop :=
  match l with
  | [] => True
  | [Lit s] => last s 0 = 47 -> hd0 tail <> 0 /\ hd0 tail <> 58
  | [Enum _] => starts_with_digit tail = false
  | _ :: r => tail_cond r tail
  end.

Lemma tail_cond_tl : forall s s' r tail, tail_cond (s :: s' :: r) tail -> tail_cond (s' :: r) tail.
Proof. intros [?|?|?] s' r tail H; exact H. Qed.

Lemma enum_sep_tl : forall s r, enum_sep (s :: r) -> enum_sep r.
Proof.
  intros [?|ds|?] r H; try exact H.
  destruct r as [|[?|?|?] r]; cbn in H; try exact H. tauto.
Qed.

Lemma slash_ok_intro : forall s rest, Forall nonspecial s ->
  (last s 0 = 47 -> hd0 rest <> 0 /\ hd0 rest <> 58) -> slash_ok s rest.
Proof.
  induction s as [|c t IH]; intros rest Hs Hl; [exact I|].
  inversion Hs as [|? ? Hc Ht]; subst. split.
  - intros ->. destruct t as [|c' t].
    + apply Hl. reflexivity.
    + inversion Ht as [|? ? (H0 & H58 & _) _]; subst. cbn. tauto.
  - apply IH; [assumption|]. destruct t as [|c' t]; [intros; discriminate|]. exact Hl.
Qed.

Lemma hd_render_segs : forall s r tail, seg_ok s ->
  hd0 (render_segs (s :: r) ++ tail) <> 0 /\ hd0 (render_segs (s :: r) ++ tail) <> 58 /\
  (match s with Lit x => starts_with_digit x = false | _ => True end ->
   starts_with_digit (render_segs (s :: r) ++ tail) = false).
Proof.
  intros [x|ds|a] r tail Hs; unfold render_segs; cbn [map concat render_seg].
  - destruct Hs as [Hne Hx]. destruct x as [|c x]; [congruence|].
    inversion Hx as [|? ? (H0 & H58 & _) _]; subst. cbn. tauto.
  - cbn. repeat split; discriminate.
  - cbn. repeat split; discriminate.
Qed.

Lemma next_ok_lit : forall s r tail,
  seg_ok (Lit s) -> Forall seg_ok r -> tail_cond (Lit s :: r) tail ->
  slash_ok s (render_segs r ++ tail).
Proof.
  intros s r tail [Hne Hs] Hr Ht. apply slash_ok_intro; [assumption|].
  destruct r as [|s' r].
  - exact Ht.
  - intros _. inversion Hr; subst. pose proof (hd_render_segs s' r tail H1). tauto.
Qed.

Lemma next_ok_enum : forall ds r tail,
  Forall seg_ok r -> enum_sep (Enum ds :: r) -> tail_cond (Enum ds :: r) tail ->
  starts_with_digit (render_segs r ++ tail) = false.
Proof.
  intros ds r tail Hr Hs Ht. destruct r as [|s' r].
  - exact Ht.
  - inversion Hr; subst. apply (hd_render_segs s' r tail H1).
    destruct s' as [x|?|?]; [|exact I|exact I]. cbn in Hs. tauto.
Qed.

Lemma render_segs_cons : forall s r, render_segs (s :: r) = render_seg s ++ render_segs r.
Proof. reflexivity. Qed.

Lemma match_path_greedy : forall l tail m,
  Forall seg_ok l -> enum_sep l -> tail_cond l tail ->
  match_path (render_segs l ++ tail) m = greedy l (match_path tail) m.
Proof.
  induction l as [|s r IH]; intros tail m Hl Hs Ht; [reflexivity|].
  inversion Hl as [|? ? Hs1 Hr]; subst.
  assert (IH' : forall m', match_path (render_segs r ++ tail) m' = greedy r (match_path tail) m').
  { intros m'. apply IH; [assumption | eapply enum_sep_tl; eassumption |].
    destruct r; [exact I | eapply tail_cond_tl; eassumption]. }
  rewrite render_segs_cons, <- app_assoc. destruct s as [x|ds|a]; cbn [render_seg greedy].
  - rewrite match_path_lit.
    + destruct (prefixb x m); [apply IH' | reflexivity].
    + now destruct Hs1.
    + now apply next_ok_lit.
  - cbn [app]. rewrite match_path_enum.
    + destruct (isdigit (hd0 m) && (read_u m <? dec ds)); [apply IH' | reflexivity].
    + exact Hs1.
    + eapply next_ok_enum; eassumption.
  - cbn [app]. rewrite <- app_assoc. cbn [app]. rewrite match_path_alt by exact Hs1.
    destruct (find (fun x => prefixb x m) a); [apply IH' | reflexivity].
Qed.

(* ---- the text after the path -------------------------------------------- *)
Definition addr_chars (m : str) : Prop := Forall (fun c => c <> 0 /\ c <> 58) m.

Lemma render_types_shape : forall t, types_ok t ->
  render_types t = [] \/ exists X, render_types t = 58 :: X.
Proof.
  intros [l|] H; [|left; reflexivity]. destruct H as [Hne _].
  destruct l as [|a l]; [congruence|]. right. eexists. reflexivity.
Qed.

Lemma match_path_tail : forall p m, types_ok (types p) -> addr_chars m ->
  match_path (render_tail p) m =
  if subtree p then
    match m with
    | c :: rest => if c =? 47 then MRet (render_types (types p)) rest else MNull
    | [] => MNull
    end
  else match m with [] => MRet (render_types (types p)) [] | _ :: _ => MNull end.
Proof.
  intros p m Ht Hm. unfold render_tail. rewrite match_path_eq.
  destruct (render_types_shape _ Ht) as [E | [X E]]; rewrite E; destruct (subtree p); cbn [app].
  - unfold path_step. change (47 =? 58) with false. change (47 =? 123) with false.
    change (47 =? 42) with false. change (47 =? 47) with true. change (47 =? 35) with false.
    cbn [andb hd0 orb]. destruct m as [|c rest]; cbn [hd0 tl]; [reflexivity|].
    rewrite (Z.eqb_sym 47 c). destruct (c =? 47); reflexivity.
  - cbn [path_step]. destruct m; reflexivity.
  - unfold path_step. change (47 =? 58) with false. change (47 =? 123) with false.
    change (47 =? 42) with false. change (47 =? 47) with true. change (47 =? 35) with false.
    cbn [andb hd0 orb]. change (58 =? 0) with false. change (58 =? 58) with true. cbn [orb].
    destruct m as [|c rest]; cbn [hd0 tl]; [reflexivity|].
    rewrite (Z.eqb_sym 47 c). destruct (c =? 47); reflexivity.
  - unfold path_step. change (58 =? 58) with true. destruct m as [|c rest]; cbn [hd0 andb].
    + reflexivity.
    + inversion Hm as [|? ? [H0 H58] _]; subst. rewrite (eqb_false c 0) by assumption.
      change (58 =? 123) with false. change (58 =? 42) with false. change (58 =? 47) with false.
      change (58 =? 35) with false. cbn [andb]. rewrite (Z.eqb_sym 58 c), (eqb_false c 58) by assumption.
      reflexivity.
Qed.

Lemma tail_cond_last : forall l tail,
  (forall s, last l (Enum []) = Lit s -> last s 0 = 47 -> hd0 tail <> 0 /\ hd0 tail <> 58) ->
  starts_with_digit tail = false -> tail_cond l tail.
Proof.
  induction l as [|s r IH]; intros tail H1 H2; [exact I|].
  destruct r as [|s' r].
  - destruct s as [x|ds|a]; cbn; [apply H1; reflexivity | exact H2 | exact I].
  - assert (tail_cond (s' :: r) tail) by (apply IH; [exact H1 | exact H2]).
    destruct s; assumption.
Qed.

Lemma wf_tail_cond : forall p, wf_pat p -> tail_cond (segs p) (render_tail p).
Proof.
  intros p (Hs & He & Hl & Ht). unfold render_tail. apply tail_cond_last.
  - intros s E L47. destruct (subtree p) eqn:Sub.
    + cbn. split; discriminate.
    + specialize (Hl eq_refl). unfold last_not_slash in Hl. rewrite E in Hl. contradiction.
  - destruct (subtree p); [reflexivity|]. cbn [app].
    destruct (render_types_shape _ Ht) as [-> | [X ->]]; reflexivity.
Qed.

(* ---- soundness: a match spells the pattern (no side condition) ---------- *)
Lemma prefixb_skipn : forall a m, prefixb a m = true -> m = a ++ skipn (length a) m.
Proof.
  induction a as [|c a IH]; intros m H; [reflexivity|].
  destruct m as [|m0 ms]; [discriminate|]. cbn in H. apply andb_true_iff in H as [E P].
  apply Z.eqb_eq in E. subst. cbn. f_equal. now apply IH.
Qed.

Lemma digit_runs_suffix : forall a b, digit_runs_ok (a ++ b) -> digit_runs_ok b.
Proof.
  intros a b H pre run post E Hd. apply (H (a ++ pre) run post); [|assumption].
  rewrite E. now rewrite app_assoc.
Qed.

Lemma addr_chars_suffix : forall a b, addr_chars (a ++ b) -> addr_chars b.
Proof. intros a b H. unfold addr_chars in *. apply Forall_app in H. tauto. Qed.

Lemma take_digits_nonempty : forall m, isdigit (hd0 m) = true -> take_digits m <> [].
Proof. intros [|c t] H; [discriminate|]. cbn in *. rewrite H. discriminate. Qed.

Lemma atoi_u_run : forall m, digit_runs_ok m -> atoi_u m = dec (take_digits m).
Proof.
  intros m H. unfold atoi_u. rewrite atoi_acc_take, <- dec_fold.
  apply dec_small; [apply take_digits_digits|].
  apply (H [] (take_digits m) (skip_digits m)); [apply take_skip | apply take_digits_digits].
Qed.

Lemma greedy_sound : forall l k m r pe,
  Forall seg_ok l -> greedy l k m = MRet r pe ->
  exists x m', m = x ++ m' /\ spells l x /\ k m' = MRet r pe.
Proof.
  induction l as [|s l IH]; intros k m r pe Hl H.
  - exists [], m. repeat split; [constructor | exact H].
  - inversion Hl as [|? ? Hs Hl']; subst. destruct s as [x|ds|a]; cbn [greedy] in H.
    + destruct (prefixb x m) eqn:P; [|discriminate].
      pose proof (prefixb_skipn _ _ P) as E.
      destruct (IH _ _ _ _ Hl' H) as (y & m' & E' & Sp & K).
      exists (x ++ y), m'. repeat split; [|constructor; [constructor | assumption] | assumption].
      rewrite <- app_assoc, <- E'. exact E.
    + destruct (isdigit (hd0 m)) eqn:D; [|discriminate]. cbn [andb] in H.
      destruct Hs as (Hne & Hd & L). rewrite read_u_ltb in H by assumption.
      destruct (dec (take_digits m) <? dec ds) eqn:Lt; [|discriminate].
      pose proof (take_skip m) as E.
      destruct (IH _ _ _ _ Hl' H) as (y & m' & E' & Sp & K).
      exists (take_digits m ++ y), m'. repeat split; [| |assumption].
      * rewrite <- app_assoc, <- E'. exact E.
      * constructor; [|assumption]. constructor.
        -- now apply take_digits_nonempty.
        -- apply take_digits_digits.
        -- now apply Z.ltb_lt.
    + destruct (find (fun z => prefixb z m) a) as [x|] eqn:F; [|discriminate].
      apply find_some in F as [Hin P].
      pose proof (prefixb_skipn _ _ P) as E.
      destruct (IH _ _ _ _ Hl' H) as (y & m' & E' & Sp & K).
      exists (x ++ y), m'. repeat split; [|constructor; [now constructor | assumption] | assumption].
      rewrite <- app_assoc, <- E'. exact E.
Qed.

(* ---- completeness under the two side conditions -------------------------- *)
Lemma prefixb_app : forall a r, prefixb a (a ++ r) = true.
Proof. intros. apply prefixb_prefix, prefix_app. now exists r. Qed.

Lemma skipn_app_exact : forall (a r : str), skipn (length a) (a ++ r) = r.
Proof. induction a; intros; cbn; auto. Qed.

(* what may follow an enumeration, so that the address's digit run ends with
   the index *)
Definition follow_ok (r : list seg) (m' : str) : Prop :=
  match r with
  | [] => starts_with_digit m' = false
  | Lit s :: _ => starts_with_digit s = false
  | Alt a :: _ => Forall alt_nondigit a
  | Enum _ :: _ => False
  end.

Lemma follow_ok_from : forall ds r m',
  enum_sep (Enum ds :: r) -> enum_delimited (Enum ds :: r) -> starts_with_digit m' = false ->
  follow_ok r m'.
Proof.
  intros ds [|[s|ds'|a] r] m' Hs Hd Hm; cbn in *; tauto.
Qed.

Lemma follow_nondigit : forall r y m',
  spells r y -> Forall seg_ok r -> follow_ok r m' -> starts_with_digit (y ++ m') = false.
Proof.
  intros r y m' Sp Hr Hf. destruct Sp as [|s r x y Hs Sp]; [exact Hf|].
  inversion Hr as [|? ? Hs1 _]; subst.
  destruct Hs as [s|ds x Hne Hd Hlt|a x Hin]; cbn in Hf.
  - destruct Hs1 as [Hne _]. destruct s as [|c s]; [congruence|]. exact Hf.
  - contradiction.
  - rewrite Forall_forall in Hf. destruct (Hf _ Hin) as [Hne Hx].
    destruct x as [|c x]; [congruence|]. exact Hx.
Qed.

Lemma enum_delimited_tl : forall s r, enum_delimited (s :: r) -> enum_delimited r.
Proof.
  intros [?|ds|?] r H; try exact H.
  destruct r as [|[?|?|?] r]; cbn in H; try exact H; tauto.
Qed.

Lemma find_first : forall (f : str -> bool) a x, In x a -> f x = true ->
  exists x', find f a = Some x' /\ In x' a /\ f x' = true.
Proof.
  induction a as [|z a IH]; intros x Hin Hf; [contradiction|]. cbn.
  destruct (f z) eqn:Fz.
  - exists z. repeat split; [now left | assumption].
  - destruct Hin as [->|Hin]; [congruence|].
    destruct (IH x Hin Hf) as (x' & E & Hin' & Hf'). exists x'. repeat split; [assumption | now right | assumption].
Qed.

Lemma greedy_complete : forall l x, spells l x -> forall k m',
  Forall seg_ok l -> enum_sep l -> enum_delimited l ->
  (forall a, In (Alt a) l -> prefix_free a) ->
  starts_with_digit m' = false ->
  greedy l k (x ++ m') = k m'.
Proof.
  induction 1 as [|s r x y Hs Sp IH]; intros k m' Hl Hes Hed Hpf Hm'; [reflexivity|].
  inversion Hl as [|? ? Hs1 Hr]; subst.
  assert (IH' : greedy r k (y ++ m') = k m').
  { apply IH; try assumption.
    - eapply enum_sep_tl; eassumption.
    - eapply enum_delimited_tl; eassumption.
    - intros a Hin. apply Hpf. now right. }
  rewrite <- app_assoc.
  destruct Hs as [s|ds x Hne Hd Hlt|a x Hin]; cbn [greedy].
  - rewrite prefixb_app, skipn_app_exact. exact IH'.
  - assert (Hnd : starts_with_digit (y ++ m') = false).
    { eapply follow_nondigit; [eassumption | assumption |].
      eapply follow_ok_from; eassumption. }
    destruct (take_skip_app x (y ++ m') Hd Hnd) as [Tk Sk].
    assert (Hh : isdigit (hd0 (x ++ y ++ m')) = true).
    { destruct x as [|c x]; [congruence|]. now inversion Hd. }
    rewrite Hh. cbn [andb].
    destruct Hs1 as (_ & Hdd & Ld). rewrite read_u_ltb by assumption. rewrite Tk, Sk.
    apply Z.ltb_lt in Hlt. rewrite Hlt. exact IH'.
  - destruct (find_first (fun z => prefixb z (x ++ y ++ m')) a x Hin (prefixb_app _ _))
      as (x' & F & Hin' & P).
    assert (x' = x).
    { assert (PF : prefix_free a) by (apply Hpf; now left).
      apply prefixb_prefix in P.
      assert (P0 : prefix x (x ++ y ++ m')) by (apply prefix_app; now eexists).
      destruct (prefix_comparable _ _ _ P P0) as [Q|Q].
      - now apply PF.
      - symmetry. now apply PF. }
    subst x'. rewrite F, skipn_app_exact. exact IH'.
Qed.

(* ======================================================================== *)
(* the path theorems                                                         *)
(* ======================================================================== *)
Lemma addr_ok_chars : forall addr, addr_ok addr -> addr_chars addr.
Proof. intros addr H. exact H. Qed.

(* a match spells the pattern: literals verbatim, every index < N, one of the
   alternatives, and the address ends / continues after '/' as the pattern
   says.  No side condition on the alternatives. *)
Theorem path_sound : forall p addr r pe,
  wf_pat p -> addr_ok addr ->
  match_path (render p) addr = MRet r pe ->
  r = render_types (types p) /\ path_spec p addr pe.
Proof.
  intros p addr r pe Hwf Hch H.
  pose proof (wf_tail_cond p Hwf) as Htc. destruct Hwf as (Hs & He & Hl & Ht).
  unfold render in H. rewrite match_path_greedy in H by assumption.
  destruct (greedy_sound _ _ _ _ _ Hs H) as (x & m' & E & Sp & K).
  subst addr. rewrite match_path_tail in K by (assumption || (eapply addr_chars_suffix; eassumption)).
  unfold path_spec. destruct (subtree p).
  - destruct m' as [|c rest]; [discriminate|].
    destruct (c =? 47) eqn:E47; [|discriminate]. apply Z.eqb_eq in E47. subst c.
    inversion K; subst. split; [reflexivity|]. exists x. split; [assumption | reflexivity].
  - destruct m' as [|c rest]; [|discriminate]. inversion K; subst.
    rewrite app_nil_r. repeat split; assumption.
Qed.

(* C05_path_partial: under prefix-free alternatives and delimited
   enumerations, every address that spells the pattern is matched *)
Theorem path_complete : forall p addr pe,
  wf_pat p -> alts_prefix_free p -> enum_delimited (segs p) -> addr_ok addr ->
  path_spec p addr pe ->
  match_path (render p) addr = MRet (render_types (types p)) pe.
Proof.
  intros p addr pe Hwf Hpf Hed Hch Hspec.
  pose proof (wf_tail_cond p Hwf) as Htc. destruct Hwf as (Hs & He & Hl & Ht).
  unfold render. rewrite match_path_greedy by assumption.
  unfold path_spec in Hspec. destruct (subtree p) eqn:Sub.
  - destruct Hspec as (x & Sp & ->).
    rewrite (greedy_complete _ _ Sp) by (assumption || reflexivity).
    rewrite match_path_tail by (assumption || (eapply addr_chars_suffix; eassumption)).
    rewrite Sub. reflexivity.
  - destruct Hspec as [Sp ->].
    rewrite <- (app_nil_r addr) at 1.
    rewrite (greedy_complete _ _ Sp) by (assumption || reflexivity).
    rewrite match_path_tail by (assumption || constructor).
    rewrite Sub. reflexivity.
Qed.

Theorem path_partial : forall p addr,
  wf_pat p -> alts_prefix_free p -> enum_delimited (segs p) -> addr_ok addr ->
  forall pe, match_path (render p) addr = MRet (render_types (types p)) pe <-> path_spec p addr pe.
Proof.
  intros p addr Hwf Hpf Hed Ha pe. split.
  - intros H. now destruct (path_sound _ _ _ _ Hwf Ha H).
  - now apply path_complete.
Qed.

(* the result is NULL or a match, never "out of fuel" *)
Theorem path_total : forall pat addr,
  match_path pat addr = MNull \/ exists r pe, match_path pat addr = MRet r pe.
Proof.
  intros pat addr. pose proof (match_path_nofuel pat addr).
  destruct (match_path pat addr); [left; reflexivity | right; eauto | congruence].
Qed.

(* ---- the choices, one per segment --------------------------------------- *)
Definition choice_ok (s : seg) (x : str) : Prop :=
  match s with
  | Lit l => x = l
  | Enum ds => x <> [] /\ digits x /\ dec x < dec ds
  | Alt a => In x a
  end.

Lemma spells_choices : forall l x, spells l x ->
  exists cs, Forall2 choice_ok l cs /\ x = concat cs.
Proof.
  induction 1 as [|s r x y Hs Sp (cs & F & E)].
  - exists []. split; [constructor | reflexivity].
  - exists (x :: cs). split; [|cbn; now rewrite E].
    constructor; [|assumption]. destruct Hs; cbn; auto.
Qed.

Theorem index_bound : forall p addr r pe,
  wf_pat p -> addr_ok addr -> match_path (render p) addr = MRet r pe ->
  exists cs, Forall2 choice_ok (segs p) cs /\
             addr = concat cs ++ (if subtree p then 47 :: pe else []).
Proof.
  intros p addr r pe Hwf Ha H. destruct (path_sound _ _ _ _ Hwf Ha H) as [_ Sp].
  unfold path_spec in Sp. destruct (subtree p).
  - destruct Sp as (x & Sp & ->). destruct (spells_choices _ _ Sp) as (cs & F & ->). now exists cs.
  - destruct Sp as [Sp ->]. destruct (spells_choices _ _ Sp) as (cs & F & ->).
    exists cs. now rewrite app_nil_r.
Qed.

(* what an array callback does (port-sugar.h rBOILS_BEGIN): skip to the first
   digit of the address, atoi.  For the usual shape  text '#' N ...  that
   number is below N whenever the port matched. *)
Fixpoint skip_nondigits (m : str) : str :=
  match m with
  | [] => []
  | c :: t => if isdigit c then m else skip_nondigits t
  end.

Lemma skip_nondigits_app : forall s m, Forall (fun c => isdigit c = false) s ->
  isdigit (hd0 m) = true -> skip_nondigits (s ++ m) = m.
Proof.
  induction s as [|c s IH]; intros m Hs Hm.
  - destruct m as [|c m]; [discriminate|]. cbn in *. now rewrite Hm.
  - inversion Hs; subst. cbn. rewrite H1. now apply IH.
Qed.

Theorem callback_index_bound : forall p s ds rest addr r pe,
  wf_pat p -> segs p = Lit s :: Enum ds :: rest -> Forall (fun c => isdigit c = false) s ->
  match_path (render p) addr = MRet r pe ->
  atoi_u (skip_nondigits addr) < dec ds.
Proof.
  intros p s ds rest addr r pe Hwf Hsegs Hs H.
  pose proof (wf_tail_cond p Hwf) as Htc. destruct Hwf as (Hs' & He & Hl & Ht).
  unfold render in H. rewrite match_path_greedy in H by assumption.
  rewrite Hsegs in H, Hs'. cbn [greedy] in H.
  destruct (prefixb s addr) eqn:P; [|discriminate].
  destruct (isdigit (hd0 (skipn (length s) addr))) eqn:D; [|discriminate]. cbn [andb] in H.
  inversion Hs' as [|? ? _ Hs2]; subst. inversion Hs2 as [|? ? Hen _]; subst.
  cbn in Hen. destruct Hen as (Hne & Hdd & Ld).
  rewrite read_u_ltb in H by assumption.
  destruct (dec (take_digits (skipn (length s) addr)) <? dec ds) eqn:Lt; [|discriminate].
  apply Z.ltb_lt in Lt.
  rewrite (prefixb_skipn _ _ P), skip_nondigits_app by assumption.
  unfold atoi_u. rewrite atoi_acc_take, <- dec_fold.
  pose proof (dec_lt_umax ds Hdd Ld). pose proof (dec_bound _ (take_digits_digits (skipn (length s) addr))).
  unfold umax in *. rewrite Z.mod_small; lia.
Qed.

(* ---- rtosc_match: path and types ---------------------------------------- *)
Lemma rtosc_match_types : forall p addr ty pe,
  types_ok (types p) -> nul_free ty ->
  match_path (render p) addr = MRet (render_types (types p)) pe ->
  rtosc_match (render p) addr ty =
  Some (match types p with None => true | Some l => alts_match l ty end, Some pe).
Proof.
  intros p addr ty pe Ht Hty H. unfold rtosc_match. rewrite H.
  destruct (types p) as [l|] eqn:T; [|reflexivity].
  destruct Ht as [Hne Hl]. rewrite <- match_args_alts by assumption.
  destruct l as [|a l]; [congruence|]. reflexivity.
Qed.

Theorem match_sound : forall p addr ty pe,
  wf_pat p -> addr_ok addr -> nul_free ty ->
  rtosc_match (render p) addr ty = Some (true, pe) ->
  exists rest, pe = Some rest /\ path_spec p addr rest /\ types_equal_or_ext p ty.
Proof.
  intros p addr ty pe Hwf Ha Hty H.
  assert (Ht : types_ok (types p)) by (destruct Hwf; tauto).
  unfold rtosc_match in H.
  destruct (match_path (render p) addr) as [|r rest|] eqn:M; [discriminate| |discriminate].
  destruct (path_sound _ _ _ _ Hwf Ha M) as [-> Sp].
  exists rest. unfold types_equal_or_ext.
  destruct (types p) as [l|] eqn:T.
  - destruct Ht as [Hne Hl]. destruct l as [|a l]; [congruence|].
    change (hd0 (render_types (Some (a :: l))) =? 58) with true in H. cbn iota in H.
    inversion H; subst. repeat split; [assumption|].
    destruct (types_sound (a :: l) ty (conj Hne Hl) Hty H1) as [Hin | (Hn & Pf & _)].
    + exists ty. split; [assumption | apply prefix_refl].
    + exists (last (a :: l) []). split; [|assumption].
      apply exists_last in Hne as (l' & z & E). rewrite E, last_last. apply in_or_app. right. now left.
  - cbn in H. inversion H; subst. repeat split; assumption.
Qed.

Theorem match_complete : forall p addr ty,
  wf_pat p -> alts_prefix_free p -> enum_delimited (segs p) -> addr_ok addr -> nul_free ty ->
  matches_spec p addr ty ->
  exists rest, rtosc_match (render p) addr ty = Some (true, Some rest) /\ path_spec p addr rest.
Proof.
  intros p addr ty Hwf Hpf Hed Ha Hty [[rest Sp] Te].
  assert (Ht : types_ok (types p)) by (destruct Hwf; tauto).
  exists rest. split; [|assumption].
  rewrite (rtosc_match_types p addr ty rest Ht Hty) by now apply path_complete.
  unfold types_equal in Te. destruct (types p) as [l|]; [|reflexivity].
  destruct Ht as [Hne _]. now rewrite alts_match_complete.
Qed.

(* a type string that is neither an alternative nor an extension of one is
   rejected, whatever the path does *)
Theorem match_types_reject : forall p addr ty,
  wf_pat p -> addr_ok addr -> nul_free ty -> ~ types_equal_or_ext p ty ->
  rtosc_match (render p) addr ty = Some (false, None) \/
  exists rest, rtosc_match (render p) addr ty = Some (false, Some rest).
Proof.
  intros p addr ty Hwf Ha Hty Hn.
  destruct (rtosc_match (render p) addr ty) as [[[|] pe]|] eqn:M.
  - destruct (match_sound _ _ _ _ Hwf Ha Hty M) as (rest & _ & _ & T). contradiction.
  - destruct pe as [rest|]; [right; now exists rest | now left].
  - unfold rtosc_match in M. pose proof (match_path_nofuel (render p) addr).
    destruct (match_path (render p) addr); try discriminate; [|congruence].
    destruct (hd0 p0 =? 58); discriminate.
Qed.

(* ---- witnesses ----------------------------------------------------------- *)
Lemma short_runs_ok : forall addr, (length addr <= 9)%nat -> digit_runs_ok addr.
Proof.
  intros addr L pre run post E _. subst addr. rewrite !app_length in L. lia.
Qed.

Definition pat_d4 : pat := {| segs := [Alt [[97]; [97; 98]]; Lit [99]]; subtree := false; types := None |}.
Definition pat_enum_digit : pat := {| segs := [Enum [50]; Alt [[49]; [97]]]; subtree := false; types := None |}.
(* foo#16/bar:i:f *)
Definition pat_doc : pat :=
  {| segs := [Lit [102; 111; 111]; Enum [49; 54]; Lit [47; 98; 97; 114]]; subtree := false;
     types := Some [[105]; [102]] |}.

Ltac prove_wf :=
  repeat split; cbn;
  repeat (first [ discriminate | exact I | reflexivity | lia
                | match goal with |- Forall _ _ => constructor end
                | match goal with |- _ /\ _ => split end
                | match goal with |- _ <> _ => discriminate end
                | progress (unfold seg_ok, lit_ok, enum_ok, alts_ok, nonspecial, alt_char, digits,
                            last_not_slash, types_ok)
                | progress cbn ]).

Lemma pat_d4_wf : wf_pat pat_d4.
Proof. unfold wf_pat, pat_d4. prove_wf. Qed.

Lemma abc_ok : addr_ok [97; 98; 99].
Proof. repeat constructor; discriminate. Qed.

(* D4: {a,ab}c, address abc: spelled by the pattern, not matched *)
Theorem path_refuted : exists p addr,
  wf_pat p /\ addr_ok addr /\ enum_delimited (segs p) /\
  path_spec p addr [] /\ match_path (render p) addr = MNull.
Proof.
  exists pat_d4, [97; 98; 99]. split; [exact pat_d4_wf|]. split; [exact abc_ok|].
  split; [exact I|]. split; [|vm_compute; reflexivity].
  split; [|reflexivity].
  change [97; 98; 99] with ([97; 98] ++ [99] ++ []).
  constructor; [constructor; cbn; tauto|]. constructor; [constructor | constructor].
Qed.

Lemma pat_enum_digit_wf : wf_pat pat_enum_digit.
Proof. unfold wf_pat, pat_enum_digit. prove_wf. Qed.

(* #2{1,a}, address 01: index 0 then alternative 1; the code reads 01 as the index *)
Theorem enum_refuted : exists p addr,
  wf_pat p /\ addr_ok addr /\ alts_prefix_free p /\
  path_spec p addr [] /\ match_path (render p) addr = MNull.
Proof.
  exists pat_enum_digit, [48; 49]. split; [exact pat_enum_digit_wf|].
  split; [repeat constructor; discriminate|].
  split.
  { intros l [E|[E|[]]]; [discriminate|]. inversion E; subst.
    intros a b [<-|[<-|[]]] [<-|[<-|[]]]; cbn; intros H; try reflexivity; destruct H as [H _]; discriminate H. }
  split; [|vm_compute; reflexivity].
  split; [|reflexivity].
  change [48; 49] with ([48] ++ [49] ++ []).
  constructor; [|constructor; [constructor; cbn; tauto | constructor]].
  constructor; [discriminate | repeat constructor | vm_compute; reflexivity].
Qed.

Lemma pat_doc_wf : wf_pat pat_doc.
Proof. unfold wf_pat, pat_doc. prove_wf. Qed.

(* the hypotheses of the partial theorem hold for foo#16/bar:i:f and
   foo15/bar, and the model matches it with type string f and not with s *)
Theorem path_nonvacuous :
  wf_pat pat_doc /\ alts_prefix_free pat_doc /\ enum_delimited (segs pat_doc) /\
  addr_ok [102; 111; 111; 49; 53; 47; 98; 97; 114] /\
  rtosc_match (render pat_doc) [102; 111; 111; 49; 53; 47; 98; 97; 114] [102] = Some (true, Some []) /\
  rtosc_match (render pat_doc) [102; 111; 111; 49; 54; 47; 98; 97; 114] [102] = Some (false, None) /\
  rtosc_match (render pat_doc) [102; 111; 111; 49; 53; 47; 98; 97; 114] [115] = Some (false, Some []).
Proof.
  split; [exact pat_doc_wf|]. split; [intros l [E|[E|[E|[]]]]; discriminate|].
  split; [exact I|]. split.
  { repeat constructor; discriminate. }
  vm_compute. auto.
Qed.
