(* C10/C11 - the floating point texts of printf/sscanf as exact integer
   arithmetic on bit patterns: printf "%#.<P>f" and "%a" of a double (a float
   argument is promoted first), the syntax sscanf's %f accepts, and the value
   of a hexadecimal literal (correctly rounded, ties to even).  The value of
   a *decimal* literal is not defined here (it is an oracle of the scanner
   model).  No proofs in this file. *)
From Coq Require Import List ZArith Bool.
From RtoscV Require Import Pretty.Tok.
Import ListNotations.
Local Open Scope Z_scope.

(* ---- float -> double (default argument promotion) ------------------------ *)
Definition f32_to_f64 (b : Z) : Z :=
  let s := b / 2 ^ 31 mod 2 in
  let e := b / 2 ^ 23 mod 2 ^ 8 in
  let f := b mod 2 ^ 23 in
  s * 2 ^ 63 +
  (if e =? 0 then
     if f =? 0 then 0
     else let k := Z.log2 f in                      (* f * 2^-149 = 2^(k-149) * 1.xxx *)
          (k - 149 + 1023) * 2 ^ 52 + (f * 2 ^ (52 - k) - 2 ^ 52)
   else if e =? 255 then 2047 * 2 ^ 52 + f * 2 ^ 29
   else (e - 127 + 1023) * 2 ^ 52 + f * 2 ^ 29).

(* sign, integer significand m and exponent x with |value| = m * 2^x *)
Definition f64_sign (b : Z) : bool := b / 2 ^ 63 mod 2 =? 1.
Definition f64_mx (b : Z) : Z * Z :=
  let e := b / 2 ^ 52 mod 2 ^ 11 in
  let f := b mod 2 ^ 52 in
  if e =? 0 then (f, -1074) else (2 ^ 52 + f, e - 1075).
Definition f64_finite (b : Z) : bool := negb (b / 2 ^ 52 mod 2 ^ 11 =? 2047).
Definition f32_finite (b : Z) : bool := negb (b / 2 ^ 23 mod 2 ^ 8 =? 255).

Definition round_half_even (n d : Z) : Z :=
  let q := n / d in let r := n mod d in
  if (d <? 2 * r) || ((2 * r =? d) && Z.odd q) then q + 1 else q.

Fixpoint dec_fixed (w : nat) (n : Z) (acc : str) : str :=
  match w with
  | O => acc
  | S w' => dec_fixed w' (n / 10) ((48 + n mod 10) :: acc)
  end.
Fixpoint hex_fixed (w : nat) (n : Z) (acc : str) : str :=
  match w with
  | O => acc
  | S w' => hex_fixed w' (n / 16) (hexdig (n mod 16) :: acc)
  end.
Definition strip0 (s : str) : str := rev (dropwhile (fun c => c =? 48) (rev s)).

(* printf("%#.<p>f", x) for the double with bit pattern b (finite) *)
Definition fmt_f (p : Z) (b : Z) : str :=
  let '(m, x) := f64_mx b in
  let scaled := m * 10 ^ p in
  let n := if 0 <=? x then scaled * 2 ^ x else round_half_even scaled (2 ^ (- x)) in
  (if f64_sign b then [45] else []) ++
  dec_nat (n / 10 ^ p) ++ 46 :: dec_fixed (Z.to_nat p) (n mod 10 ^ p) [].

Definition print_exp (e : Z) : str := (if e <? 0 then 45 else 43) :: dec_nat (Z.abs e).

(* printf("%a", x): glibc prints the shortest exact form *)
Definition fmt_a (b : Z) : str :=
  let e := b / 2 ^ 52 mod 2 ^ 11 in
  let f := b mod 2 ^ 52 in
  let frac := strip0 (hex_fixed 13 f []) in
  (if f64_sign b then [45] else []) ++ [48; 120] ++
  (if (e =? 0) && (f =? 0) then [48; 112; 43; 48]
   else (if e =? 0 then [48] else [49]) ++
        (match frac with [] => [] | _ => 46 :: frac end) ++
        112 :: print_exp (if e =? 0 then -1022 else e - 1023)).

(* ---- the syntax of sscanf's %f (glibc): (hexadecimal?, text, rest) --------- *)
Definition opt_exp (mark1 mark2 : Z) (s : str) : option str :=
  match s with
  | c :: r =>
      if (c =? mark1) || (c =? mark2)
      then let '(_, r1) := sc_sign r in
           if isdigit (hd0 r1) then Some (dropwhile isdigit r1) else None
      else Some s
  | [] => Some s
  end.

Definition sc_f (s : str) : option (bool * str * str) :=
  let s1 := skip_ws s in
  let '(_, s2) := sc_sign s1 in
  let finish (hx : bool) (r : option str) :=
    match r with
    | Some r' => Some (hx, firstn (length s1 - length r') s1, r')
    | None => None
    end in
  let is_hex := (hd0 s2 =? 48) && ((at_ s2 1 =? 120) || (at_ s2 1 =? 88)) in
  if is_hex then
    let s3 := skipn 2 s2 in
    let i := takewhile isxdigit s3 in
    let r1 := dropwhile isxdigit s3 in
    let '(fr, r2) := if hd0 r1 =? 46
                     then (takewhile isxdigit (skipn 1 r1), dropwhile isxdigit (skipn 1 r1))
                     else ([], r1) in
    if Nat.eqb (length i + length fr) 0 then None
    else finish true (opt_exp 112 80 r2)
  else
    let i := takewhile isdigit s2 in
    let r1 := dropwhile isdigit s2 in
    let '(fr, r2) := if hd0 r1 =? 46
                     then (takewhile isdigit (skipn 1 r1), dropwhile isdigit (skipn 1 r1))
                     else ([], r1) in
    if Nat.eqb (length i + length fr) 0 then None
    else finish false (opt_exp 101 69 r2).

(* ---- value of a hexadecimal literal ------------------------------------------ *)
(* (negative?, M, e) with |value| = M * 2^e *)
Definition parse_hex (t : str) : bool * Z * Z :=
  let '(neg, s2) := sc_sign t in
  let s3 := skipn 2 s2 in
  let '(m1, r1) := read_digs isxdigit 16 s3 0 in
  let '(m2, nfrac, r2) :=
    if hd0 r1 =? 46
    then let r1' := skipn 1 r1 in
         let '(m, r) := read_digs isxdigit 16 r1' m1 in
         (m, Z.of_nat (length r1' - length r), r)
    else (m1, 0, r1) in
  let ex := match r2 with
            | c :: r => if (c =? 112) || (c =? 80)
                        then let '(n, r') := sc_sign r in
                             sgn n (fst (read_digs isdigit 10 r' 0))
                        else 0
            | [] => 0 end in
  (neg, m2, ex - 4 * nfrac).

(* the IEEE bit pattern nearest to M * 2^e (ties to even) in a format with
   mbits fraction bits and ebits exponent bits *)
Definition to_bits (mbits ebits : Z) (neg : bool) (M e : Z) : Z :=
  let sign := if neg then 2 ^ (mbits + ebits) else 0 in
  if M =? 0 then sign else
  let bias := 2 ^ (ebits - 1) - 1 in
  let E := Z.log2 M + e in
  let E' := Z.max E (1 - bias) in
  let sh := e - (E' - mbits) in
  let q := if 0 <=? sh then M * 2 ^ sh else round_half_even M (2 ^ (- sh)) in
  let bits := (E' + bias - 1) * 2 ^ mbits + q in
  let infty := (2 ^ ebits - 1) * 2 ^ mbits in
  sign + (if infty <=? bits then infty else bits).

Definition hex_to_f32 (t : str) : Z := let '(n, m, e) := parse_hex t in to_bits 23 8 n m e.
Definition hex_to_f64 (t : str) : Z := let '(n, m, e) := parse_hex t in to_bits 52 11 n m e.
