(* C10 - arrays.  An array "[e1 e2 ...]" whose elements are values, repetitions
   and range tails (the items of ListProofs):
   Part 1: the checker's and the scanner's array loops read an item sequence
           that is closed by a bracket;
   Part 2: the printer's array loop emits such a sequence;
   Part 3: the round trip of a list that is one array. *)
From Coq Require Import List ZArith Bool Lia.
From RtoscV Require Import Pretty.Tok Pretty.FloatFmt Pretty.PrintModel Pretty.ScanModel
  Pretty.PrettyProofs Pretty.RangeProofs Pretty.RunProofs Pretty.ListProofs.
Import ListNotations.
Local Open Scope Z_scope.

(* the type the checker reports for an item *)
Definition ity (it : item) : Z := match it with IVal v _ => av_type v | _ => 45 end.

(* the checker's array type test along a sequence *)
Fixpoint atys_ok (aty : Z) (its : list item) : Prop :=
  match its with
  | [] => True
  | it :: r => (aty =? 0) || arraytypes_match aty (ity it) = true /\
               atys_ok (if aty =? 0 then ity it else aty) r
  end.

(* the array type the scanner stores: the element type of the last item *)
Definition lty (ty : Z) (its : list item) : Z :=
  fold_left (fun _ it => elem_type (item_slots it)) its ty.

Section Readers.
Variables dec2f dec2d : list Z -> Z.
Notation item_ok := (item_ok dec2f dec2d).
Notation iseq := (iseq dec2f dec2d).
Notation recentrel := (recentrel dec2f dec2d).

Lemma rep_skip n v t rest fuel ll fe ib :
  1 <= n < 2 ^ 31 -> tokof dec2f dec2d v t -> rest_ok rest ->
  (length (item_text (IRep n v t)) <= fuel)%nat ->
  skip_next dec2f dec2d fuel ((dec_nat n ++ 120 :: t) ++ rest) ll fe ib = Ok (rest, 2, 45).
Proof.
  intros Hn (Hrd & (c & r & -> & Hc) & Hsc) Hr H. cbn [item_text] in H.
  destruct (dec_nat_hd n ltac:(lia)) as (d & tl & E & Hd).
  pose proof (dec_nat_digits n ltac:(lia)) as Hds. rewrite E in Hds.
  assert (Htl : Forall (fun c => isdigit c = true) tl) by now inversion Hds.
  assert (Hmult : is_range_multiplier ((dec_nat n ++ 120 :: c :: r) ++ rest) = true).
  { rewrite E. cbn [app is_range_multiplier]. rewrite <- app_assoc.
    rewrite dropwhile_app by (try assumption; reflexivity). cbn [app]. rewrite hd0_cons.
    replace (isdigit (48 + d)) with true by (symmetry; apply isdigit_spec; lia).
    now replace (48 + d =? 48) with false by lia. }
  assert (Hfc : first_class (48 + d) = FC_other) by (apply first_class_num; lia).
  destruct (Hrd rest Hr) as [Hs Hsn].
  assert (Hl : (2 <= fuel)%nat) by (rewrite E in H; cbn [length app] in H; rewrite app_length in H; cbn [length] in H; lia).
  destruct fuel as [|[|f]]; try lia. remember (S f) as f1 eqn:Ef. cbn [skip_next].
  unfold skip_core. rewrite Hmult. rewrite E at 1. cbn [app]. rewrite Hfc.
  unfold after_x. rewrite <- app_assoc. cbn [app].
  rewrite E at 1. cbn [app].
  change ((48 + d) :: tl ++ 120 :: c :: r ++ rest) with (((48 + d) :: tl) ++ 120 :: (c :: r) ++ rest).
  rewrite dropwhile_notx by (constructor; [apply isdigit_spec; lia|assumption]).
  cbn [skipn]. subst f1. rewrite Hs. destruct Hr as [_ He]. rewrite He, andb_false_r. reflexivity.
Qed.

(* the checker on one item, inside or outside an array, with the type *)
Lemma item_skip_t p it rest recent fuel ib :
  item_ok p it -> rest_ok rest -> recentrel p recent (item_text it ++ rest) ->
  (length (item_text it) <= fuel)%nat ->
  skip_next dec2f dec2d fuel (item_text it ++ rest) recent true ib
  = Ok (rest, Z.of_nat (length (item_slots it)), ity it).
Proof.
  intros Hok Hr Hrec Hf. destruct it as [v t|n v t|k b d m last sp]; cbn [item_ok item_text item_slots ity] in *.
  - destruct Hok as [(Hrd & (c & r & -> & _) & _) _]. destruct fuel; [cbn in Hf; lia|].
    apply (Hrd rest Hr).
  - destruct Hok as (Hn & Htk & _). now apply (rep_skip n v t).
  - destruct Hok as (Hrun & Hsp & Hctx). pose proof (tail_len k b last sp).
    destruct fuel as [|[|f]]; try lia.
    destruct (chk_recent dec2f dec2d k b d m last sp rest p recent f ib Hrun Hsp Hr Hrec Hctx) as (u & la & Hchk & Hdis).
    exact (skip_tail dec2f dec2d k b d m last sp rest f recent ib u la Hrun Hsp Hr Hchk Hdis).
Qed.

Lemma item_len p it : item_ok p it -> (1 <= length (item_text it))%nat.
Proof. intros H. destruct (item_first dec2f dec2d _ _ H) as (c & r & -> & _). cbn. lia. Qed.

Lemma iseq_len p its T : iseq p its T -> (length its <= length T)%nat.
Proof.
  induction 1 as [p|p it Hok|p it sep it' its T Hok Hsep HL IH]; [cbn; lia| |].
  - pose proof (item_len _ _ Hok). cbn [length]. lia.
  - pose proof (item_len _ _ Hok). rewrite !app_length. cbn [length] in *. lia.
Qed.

Lemma rest_ok_close rest : rest_ok (93 :: rest).
Proof.
  assert (E : skip_ws (93 :: rest) = 93 :: rest) by (apply skip_ws_nonspace; reflexivity).
  split; [split|]; rewrite ?E.
  - right. reflexivity.
  - rewrite hd0_cons. lia.
  - reflexivity.
Qed.

(* ---- the checker's loop over the elements ------------------------------------------------ *)
Lemma skip_array_iseq its T p : iseq p its T -> its <> [] ->
  forall R0 fuel f recent k aty, rest_ok R0 -> hd0 R0 = 93 -> recentrel p recent (T ++ R0) ->
  atys_ok aty its -> (length its < fuel)%nat -> (length T <= f)%nat ->
  skip_array_loop (skip_next dec2f dec2d f) fuel (T ++ R0) recent k aty
  = Ok (R0, k + Z.of_nat (length (islots its))).
Proof.
  induction 1 as [p|p it Hok|p it sep it' its T Hok Hsep HL IH]; intros Hne R0 fuel f recent k aty HR H93 Hrec Hty Hfu Hf;
    [congruence| |].
  - destruct fuel as [|[|fuel]]; try (cbn [length] in Hfu; lia).
    destruct (item_first dec2f dec2d _ _ Hok) as (c & r & E & Hc).
    destruct Hc as (H0 & H47 & H37 & Hsp & H46 & H40 & H93c).
    assert (Hh : hd0 (item_text it ++ R0) = c) by (rewrite E; reflexivity).
    remember (S fuel) as f1. cbn [skip_array_loop]. rewrite Hh.
    replace ((c =? 0) || (c =? 93)) with false by lia.
    rewrite (item_skip_t p it R0 recent f true Hok HR Hrec Hf).
    destruct Hty as [Hty _]. rewrite Hty.
    destruct R0 as [|c0 r0]; [discriminate|]. rewrite hd0_cons in H93. subst c0.
    rewrite skip_ws_nonspace by reflexivity. subst f1. cbn [skip_array_loop]. rewrite hd0_cons. cbn [Z.eqb orb].
    replace (93 =? 0) with false by reflexivity. cbn [orb]. replace (93 =? 93) with true by reflexivity.
    f_equal. f_equal. unfold islots. cbn [map concat]. now rewrite app_nil_r.
  - destruct fuel; [lia|].
    destruct (item_first dec2f dec2d _ _ Hok) as (c & r & E & Hc).
    destruct (iseq_first _ _ _ _ _ _ HL) as (c' & r' & -> & Hc').
    pose proof (rest_ok_sep sep c' (r' ++ R0) Hsep Hc') as Hro.
    destruct Hc as (H0 & H47 & H37 & Hsp & H46 & H40 & H93c).
    rewrite <- !app_assoc. rewrite <- !app_assoc in Hrec. cbn [app] in *.
    assert (Hh : forall X, hd0 (item_text it ++ X) = c) by (intros; rewrite E; reflexivity).
    cbn [skip_array_loop]. rewrite Hh.
    replace ((c =? 0) || (c =? 93)) with false by lia.
    rewrite !app_length in Hf.
    rewrite (item_skip_t p it _ recent f true Hok Hro Hrec ltac:(lia)).
    destruct Hty as [Hty Hty2]. rewrite Hty.
    destruct Hc' as (H0' & H47' & H37' & Hsp' & H46' & H40').
    rewrite skip_ws_sep by (try apply Hsep; now rewrite hd0_cons).
    change (c' :: r' ++ R0) with ((c' :: r') ++ R0).
    rewrite (IH ltac:(discriminate) R0 fuel f _ _ _ HR H93).
    + f_equal. f_equal. unfold islots. cbn [map concat]. rewrite !app_length. lia.
    + cbn [ListProofs.recentrel]. exists p, it, sep. repeat split; try assumption; apply Hsep.
    + exact Hty2.
    + cbn [length] in *. lia.
    + lia.
Qed.

(* ---- the scanner's loop over the elements ------------------------------------------------ *)
Lemma scan_array_iseq its T p : iseq p its T -> its <> [] ->
  forall R0 fuel f i acc ty, rest_ok R0 -> hd0 R0 = 93 -> J acc -> prevrel p acc ->
  (length its < fuel)%nat -> (length T <= f)%nat ->
  scan_array_loop (scan_arg_val dec2f dec2d f) fuel (T ++ R0) i acc ty
  = Ok (acc ++ islots its, R0, lty ty its).
Proof.
  induction 1 as [p|p it Hok|p it sep it' its T Hok Hsep HL IH]; intros Hne R0 fuel f i acc ty HR H93 HJ Hprev Hfu Hf;
    [congruence| |].
  - destruct fuel as [|[|fuel]]; try (cbn [length] in Hfu; lia).
    destruct (item_first dec2f dec2d _ _ Hok) as (c & r & E & Hc).
    destruct Hc as (H0 & H47 & H37 & Hsp & H46 & H40 & H93c).
    assert (Hh : hd0 (item_text it ++ R0) = c) by (rewrite E; reflexivity).
    remember (S fuel) as f1. cbn [scan_array_loop]. rewrite Hh.
    replace ((c =? 0) || (c =? 93)) with false by lia.
    rewrite (item_scan dec2f dec2d p it R0 acc f Hok HR Hprev Hf).
    destruct R0 as [|c0 r0]; [discriminate|]. rewrite hd0_cons in H93. subst c0.
    rewrite skip_ws_nonspace by reflexivity. subst f1. cbn [scan_array_loop]. rewrite hd0_cons.
    replace (93 =? 0) with false by reflexivity. cbn [orb]. replace (93 =? 93) with true by reflexivity.
    unfold islots, lty. cbn [map concat fold_left]. now rewrite app_nil_r.
  - destruct fuel; [lia|].
    destruct (item_first dec2f dec2d _ _ Hok) as (c & r & E & Hc).
    destruct (iseq_first _ _ _ _ _ _ HL) as (c' & r' & -> & Hc').
    pose proof (rest_ok_sep sep c' (r' ++ R0) Hsep Hc') as Hro.
    destruct Hc as (H0 & H47 & H37 & Hsp & H46 & H40 & H93c).
    rewrite <- !app_assoc. cbn [app] in *.
    assert (Hh : forall X, hd0 (item_text it ++ X) = c) by (intros; rewrite E; reflexivity).
    cbn [scan_array_loop]. rewrite Hh.
    replace ((c =? 0) || (c =? 93)) with false by lia.
    rewrite !app_length in Hf.
    rewrite (item_scan dec2f dec2d p it _ acc f Hok Hro Hprev ltac:(lia)).
    destruct Hc' as (H0' & H47' & H37' & Hsp' & H46' & H40').
    rewrite skip_ws_sep by (try apply Hsep; now rewrite hd0_cons).
    change (c' :: r' ++ R0) with ((c' :: r') ++ R0).
    destruct (scan_llhs_item dec2f dec2d p it acc Hok HJ) as [HJ' Hll].
    assert (Hpos : (1 <= length (item_slots it))%nat) by (destruct it; cbn; lia).
    rewrite (IH ltac:(discriminate) R0 fuel f _ (acc ++ item_slots it) _ HR H93 HJ').
    + unfold islots, lty. cbn [map concat fold_left]. now rewrite <- app_assoc.
    + split; [discriminate|]. intros pv Epv. inversion Epv; subst pv.
      split; [exact (item_scalar_last _ _ _ _ Hok)|]. split; [|exact Hll].
      destruct (item_slots it); [cbn in Hpos; lia|]. intros E0. apply app_eq_nil in E0 as [_ E0]. discriminate.
    + cbn [length] in *. lia.
    + lia.
Qed.

(* ---- the bracketed text is read by both recognisers -------------------------------------- *)
Lemma iseq_skip_ws p it its T X : iseq p (it :: its) T -> skip_ws (T ++ X) = T ++ X.
Proof.
  intros H. destruct (iseq_first _ _ _ _ _ _ H) as (c & r & -> & Hc).
  destruct Hc as (H0 & H47 & H37 & Hsp & H46 & H40). apply skip_ws_nonspace. exact Hsp.
Qed.

Theorem array_reads its T : iseq None its T -> its <> [] -> atys_ok 0 its ->
  forall rest, rest_ok rest ->
  (forall f ll fe ib, (length T <= f)%nat ->
     skip_next dec2f dec2d (S f) (91 :: T ++ 93 :: rest) ll fe ib
     = Ok (rest, 1 + Z.of_nat (length (islots its)), 97)) /\
  (forall f before nb fe, (length T <= f)%nat ->
     scan_arg_val dec2f dec2d (S f) (91 :: T ++ 93 :: rest) before nb fe
     = Ok (VArr (lty 32 its) (Z.of_nat (length (islots its))) :: islots its, rest)).
Proof.
  intros HL Hne Hty rest Hr. destruct its as [|it its]; [congruence|].
  pose proof (iseq_len _ _ _ HL) as Hlen. destruct Hr as [Hr0 He].
  split; intros.
  - cbn [skip_next]. unfold skip_core. change (first_class 91) with FC_lb. cbv beta iota.
    cbn [skipn]. rewrite (iseq_skip_ws _ _ _ _ _ HL).
    rewrite (skip_array_iseq _ _ _ HL Hne (93 :: rest) _ f None 1 0 (rest_ok_close rest) eq_refl eq_refl Hty);
      [|cbn [length]; rewrite app_length; cbn [length] in *; lia|exact H].
    rewrite hd0_cons. replace (93 =? 93) with true by reflexivity. cbn [skipn].
    rewrite He, andb_false_r. reflexivity.
  - cbn [scan_arg_val]. unfold scan_core. change (first_class 91) with FC_lb. cbv beta iota.
    cbn [skipn]. rewrite (iseq_skip_ws _ _ _ _ _ HL).
    rewrite (scan_array_iseq _ _ _ HL Hne (93 :: rest) _ f 0 [] 32 (rest_ok_close rest) eq_refl I);
      [|split; [reflexivity|discriminate]|cbn [length]; rewrite app_length; cbn [length] in *; lia|exact H].
    rewrite hd0_cons. replace (93 =? 93) with true by reflexivity. cbn [skipn app].
    rewrite He, andb_false_r. reflexivity.
Qed.

(* ---- the same with a constant bound on the fuel: the fuel counts the nesting
   of the recognisers, not the characters (an array that is the left neighbour
   of a later range is re-read with the fuel of the text after it) ---------------------- *)
Lemma rep_skip2 n v t rest fuel ll fe ib :
  1 <= n < 2 ^ 31 -> tokof dec2f dec2d v t -> rest_ok rest -> (2 <= fuel)%nat ->
  skip_next dec2f dec2d fuel ((dec_nat n ++ 120 :: t) ++ rest) ll fe ib = Ok (rest, 2, 45).
Proof.
  intros Hn (Hrd & (c & r & -> & Hc) & Hsc) Hr Hl.
  destruct (dec_nat_hd n ltac:(lia)) as (d & tl & E & Hd).
  pose proof (dec_nat_digits n ltac:(lia)) as Hds. rewrite E in Hds.
  assert (Htl : Forall (fun c => isdigit c = true) tl) by now inversion Hds.
  assert (Hmult : is_range_multiplier ((dec_nat n ++ 120 :: c :: r) ++ rest) = true).
  { rewrite E. cbn [app is_range_multiplier]. rewrite <- app_assoc.
    rewrite dropwhile_app by (try assumption; reflexivity). cbn [app]. rewrite hd0_cons.
    replace (isdigit (48 + d)) with true by (symmetry; apply isdigit_spec; lia).
    now replace (48 + d =? 48) with false by lia. }
  assert (Hfc : first_class (48 + d) = FC_other) by (apply first_class_num; lia).
  destruct (Hrd rest Hr) as [Hs Hsn].
  destruct fuel as [|[|f]]; try lia. remember (S f) as f1 eqn:Ef. cbn [skip_next].
  unfold skip_core. rewrite Hmult. rewrite E at 1. cbn [app]. rewrite Hfc.
  unfold after_x. rewrite <- app_assoc. cbn [app].
  rewrite E at 1. cbn [app].
  change ((48 + d) :: tl ++ 120 :: c :: r ++ rest) with (((48 + d) :: tl) ++ 120 :: (c :: r) ++ rest).
  rewrite dropwhile_notx by (constructor; [apply isdigit_spec; lia|assumption]).
  cbn [skipn]. subst f1. rewrite Hs. destruct Hr as [_ He]. rewrite He, andb_false_r. reflexivity.
Qed.

Lemma item_skip_t2 p it rest recent fuel ib :
  item_ok p it -> rest_ok rest -> recentrel p recent (item_text it ++ rest) ->
  (2 <= fuel)%nat ->
  skip_next dec2f dec2d fuel (item_text it ++ rest) recent true ib
  = Ok (rest, Z.of_nat (length (item_slots it)), ity it).
Proof.
  intros Hok Hr Hrec Hf. destruct it as [v t|n v t|k b d m last sp]; cbn [item_ok item_text item_slots ity] in *.
  - destruct Hok as [(Hrd & (c & r & -> & _) & _) _]. destruct fuel; [lia|].
    apply (Hrd rest Hr).
  - destruct Hok as (Hn & Htk & _). now apply (rep_skip2 n v t).
  - destruct Hok as (Hrun & Hsp & Hctx).
    destruct fuel as [|[|f]]; try lia.
    destruct (chk_recent dec2f dec2d k b d m last sp rest p recent f ib Hrun Hsp Hr Hrec Hctx) as (u & la & Hchk & Hdis).
    exact (skip_tail dec2f dec2d k b d m last sp rest f recent ib u la Hrun Hsp Hr Hchk Hdis).
Qed.

Lemma skip_array_iseq2 its T p : iseq p its T -> its <> [] ->
  forall R0 fuel f recent k aty, rest_ok R0 -> hd0 R0 = 93 -> recentrel p recent (T ++ R0) ->
  atys_ok aty its -> (length its < fuel)%nat -> (2 <= f)%nat ->
  skip_array_loop (skip_next dec2f dec2d f) fuel (T ++ R0) recent k aty
  = Ok (R0, k + Z.of_nat (length (islots its))).
Proof.
  induction 1 as [p|p it Hok|p it sep it' its T Hok Hsep HL IH]; intros Hne R0 fuel f recent k aty HR H93 Hrec Hty Hfu Hf;
    [congruence| |].
  - destruct fuel as [|[|fuel]]; try (cbn [length] in Hfu; lia).
    destruct (item_first dec2f dec2d _ _ Hok) as (c & r & E & Hc).
    destruct Hc as (H0 & H47 & H37 & Hsp & H46 & H40 & H93c).
    assert (Hh : hd0 (item_text it ++ R0) = c) by (rewrite E; reflexivity).
    remember (S fuel) as f1. cbn [skip_array_loop]. rewrite Hh.
    replace ((c =? 0) || (c =? 93)) with false by lia.
    rewrite (item_skip_t2 p it R0 recent f true Hok HR Hrec Hf).
    destruct Hty as [Hty _]. rewrite Hty.
    destruct R0 as [|c0 r0]; [discriminate|]. rewrite hd0_cons in H93. subst c0.
    rewrite skip_ws_nonspace by reflexivity. subst f1. cbn [skip_array_loop]. rewrite hd0_cons. cbn [Z.eqb orb].
    replace (93 =? 0) with false by reflexivity. cbn [orb]. replace (93 =? 93) with true by reflexivity.
    f_equal. f_equal. unfold islots. cbn [map concat]. now rewrite app_nil_r.
  - destruct fuel; [lia|].
    destruct (item_first dec2f dec2d _ _ Hok) as (c & r & E & Hc).
    destruct (iseq_first _ _ _ _ _ _ HL) as (c' & r' & -> & Hc').
    pose proof (rest_ok_sep sep c' (r' ++ R0) Hsep Hc') as Hro.
    destruct Hc as (H0 & H47 & H37 & Hsp & H46 & H40 & H93c).
    rewrite <- !app_assoc. rewrite <- !app_assoc in Hrec. cbn [app] in *.
    assert (Hh : forall X, hd0 (item_text it ++ X) = c) by (intros; rewrite E; reflexivity).
    cbn [skip_array_loop]. rewrite Hh.
    replace ((c =? 0) || (c =? 93)) with false by lia.
    rewrite (item_skip_t2 p it _ recent f true Hok Hro Hrec Hf).
    destruct Hty as [Hty Hty2]. rewrite Hty.
    destruct Hc' as (H0' & H47' & H37' & Hsp' & H46' & H40').
    rewrite skip_ws_sep by (try apply Hsep; now rewrite hd0_cons).
    change (c' :: r' ++ R0) with ((c' :: r') ++ R0).
    rewrite (IH ltac:(discriminate) R0 fuel f _ _ _ HR H93).
    + f_equal. f_equal. unfold islots. cbn [map concat]. rewrite !app_length. lia.
    + cbn [ListProofs.recentrel]. exists p, it, sep. repeat split; try assumption; apply Hsep.
    + exact Hty2.
    + cbn [length] in *. lia.
    + exact Hf.
Qed.

Lemma array_skip2 its T : iseq None its T -> its <> [] -> atys_ok 0 its ->
  forall rest, rest_ok rest ->
  forall f ll fe ib, (2 <= f)%nat ->
     skip_next dec2f dec2d (S f) (91 :: T ++ 93 :: rest) ll fe ib
     = Ok (rest, 1 + Z.of_nat (length (islots its)), 97).
Proof.
  intros HL Hne Hty rest Hr f ll fe ib H. destruct its as [|it its]; [congruence|].
  pose proof (iseq_len _ _ _ HL) as Hlen. destruct Hr as [Hr0 He].
  cbn [skip_next]. unfold skip_core. change (first_class 91) with FC_lb. cbv beta iota.
  cbn [skipn]. rewrite (iseq_skip_ws _ _ _ _ _ HL).
  rewrite (skip_array_iseq2 _ _ _ HL Hne (93 :: rest) _ f None 1 0 (rest_ok_close rest) eq_refl eq_refl Hty);
    [|cbn [length]; rewrite app_length; cbn [length] in *; lia|exact H].
  rewrite hd0_cons. replace (93 =? 93) with true by reflexivity. cbn [skipn].
  rewrite He, andb_false_r. reflexivity.
Qed.

(* the empty array *)
Lemma empty_array_reads rest : rest_ok rest ->
  (forall f ll fe ib, skip_next dec2f dec2d (S f) (91 :: 93 :: rest) ll fe ib = Ok (rest, 1, 97)) /\
  (forall f before nb fe, scan_arg_val dec2f dec2d (S f) (91 :: 93 :: rest) before nb fe
                          = Ok ([VArr 32 0], rest)).
Proof.
  intros [Hr0 He]. split; intros.
  - cbn [skip_next]. unfold skip_core. change (first_class 91) with FC_lb. cbv beta iota.
    cbn [skipn]. rewrite skip_ws_nonspace by reflexivity. cbn [length skip_array_loop]. rewrite hd0_cons.
    replace (93 =? 0) with false by reflexivity. replace (93 =? 93) with true by reflexivity. cbn [orb skipn].
    rewrite ?hd0_cons. replace (93 =? 93) with true by reflexivity. cbv beta iota.
    rewrite He, andb_false_r. reflexivity.
  - cbn [scan_arg_val]. unfold scan_core. change (first_class 91) with FC_lb. cbv beta iota.
    cbn [skipn]. rewrite skip_ws_nonspace by reflexivity. cbn [length scan_array_loop]. rewrite hd0_cons.
    replace (93 =? 0) with false by reflexivity. replace (93 =? 93) with true by reflexivity. cbn [orb skipn length].
    rewrite ?hd0_cons. replace (93 =? 93) with true by reflexivity. cbv beta iota. cbn [length].
    rewrite He, andb_false_r. reflexivity.
Qed.
End Readers.

(* ------------------------------------------------------------------------- *)
(* Part 2: the printer                                                        *)
Section PrintArr.
Variables dec2f dec2d : list Z -> Z.
Variable o : popts.
Variable parr : parr_t.
Variable fu : nat.        (* the element printer is print_arg_val_f (S (S fu)): the fuel counts the nesting *)
Variables zf zd : Z.
Hypothesis Hz : zchoice zf zd.
Notation pavf := (print_arg_val_f (S (S fu))).
Notation item_ok := (item_ok dec2f dec2d).
Notation iter_text := (iter_text dec2f dec2d).
Notation iseq_from := (iseq_from dec2f dec2d).

(* one iteration, compression on or off *)
Lemma print_iter_any_sa a0 rest size prev t tmp cols cols1 bb cv :
  goodc o zf zd a0 -> Forall (goodca o zf zd) rest -> Z.of_nat (length (a0 :: rest)) < 2 ^ 31 ->
  convert_to_range o (a0 :: rest) size = cv -> cv <> CUnmod ->
  pavf o (match cv with CYes c _ => c | _ => a0 :: rest end) cols prev = Some (t, tmp, cols1, bb) ->
  exists its inc,
    bb = false /\ tmp = len t /\
    Z.of_nat inc = (match cv with CYes _ kk => kk | _ => next_arg_offset (a0 :: rest) end) /\
    (1 <= inc <= length (a0 :: rest))%nat /\
    iorig its = firstn inc (a0 :: rest) /\ iter_text prev its t /\
    nth_error (a0 :: rest) (inc - 1) = ilast its /\
    (match cv with CYes _ _ => Z.of_nat inc <= size | _ => inc = 1%nat end) /\ first_notconf prev its.
Proof.
  intros Hg0 Hgr Hlen Hcv Hnu Hp. destruct (compress o) eqn:Ec.
  - exact (print_iter_sa dec2f dec2d o Ec zf zd Hz fu a0 rest size prev t tmp cols cols1 bb cv Hg0 Hgr Hlen Hcv Hnu Hp).
  - unfold convert_to_range in Hcv. rewrite Ec in Hcv. cbn [negb] in Hcv. rewrite !orb_true_r in Hcv. subst cv.
    destruct (goodc_facts o zf zd a0 Hg0) as (Hs0 & _ & _).
    rewrite (pav_scalar o a0 rest cols prev (S fu) Hs0) in Hp.
    destruct (print_scalar o a0 cols) as [[[t' w'] c']|] eqn:Eps; [|discriminate]. inversion Hp; subst.
    destruct (goodc_tok dec2f dec2d o zf zd a0 cols t tmp cols1 Hg0 Eps) as (Htk & Hnd & Hw).
    exists [IVal a0 t], 1%nat. split; [reflexivity|]. split; [exact Hw|].
    split; [destruct a0; cbn in Hs0; try contradiction; reflexivity|]. split; [cbn [length]; lia|].
    split; [reflexivity|]. split; [split; [reflexivity|split; assumption]|]. split; [reflexivity|]. split; [reflexivity|exact I].
Qed.

Lemma print_iter_any a0 rest size prev t tmp cols cols1 bb cv :
  Forall (goodc o zf zd) (a0 :: rest) -> Z.of_nat (length (a0 :: rest)) < 2 ^ 31 ->
  (forall p, prev = Some p -> scalar p) ->
  convert_to_range o (a0 :: rest) size = cv -> cv <> CUnmod ->
  pavf o (match cv with CYes c _ => c | _ => a0 :: rest end) cols prev = Some (t, tmp, cols1, bb) ->
  exists its inc,
    bb = false /\ tmp = len t /\
    Z.of_nat inc = (match cv with CYes _ kk => kk | _ => next_arg_offset (a0 :: rest) end) /\
    (1 <= inc <= length (a0 :: rest))%nat /\
    iorig its = firstn inc (a0 :: rest) /\ iter_text prev its t /\
    nth_error (a0 :: rest) (inc - 1) = ilast its.
Proof.
  intros Hg Hlen _ Hcv Hnu Hp.
  destruct (print_iter_any_sa a0 rest size prev t tmp cols cols1 bb cv (Forall_inv Hg)) as (its & inc & A & B & C & D & E & F & G & _);
    try assumption.
  - eapply Forall_impl; [|exact (Forall_inv_tail Hg)]. intros a Ha. now left.
  - exists its, inc. auto 10.
Qed.

(* what one iteration emits joins what the later ones emit *)
Lemma iter_join prev its1 t its2 sfx2 (pend : bool) sepz :
  iter_text prev its1 t -> iseq_from true (ilast its1) its2 sfx2 ->
  (if pend then sepw sepz else sepz = []) ->
  iseq_from pend prev (its1 ++ its2) (sepz ++ t ++ sfx2).
Proof.
  intros Hit Hseq Hsepz.
  destruct its1 as [|it1 [|it2 [|? ?]]]; cbn [ListProofs.iter_text] in Hit; try contradiction.
  - destruct Hit as (-> & Hok1). cbn [ilast rev app item_last] in Hseq. cbn [app ListProofs.iseq_from].
    exists sepz, sfx2. split; [reflexivity|]. split; [exact Hok1|]. split; [exact Hsepz|exact Hseq].
  - destruct Hit as (-> & Hok1 & Hok2). cbn [ilast rev app item_last] in Hseq. cbn [app ListProofs.iseq_from].
    exists sepz, ([32] ++ item_text it2 ++ sfx2). split; [now rewrite <- !app_assoc|]. split; [exact Hok1|].
    split; [exact Hsepz|]. exists [32], sfx2. split; [reflexivity|]. split; [exact Hok2|].
    split; [apply sepw_32|exact Hseq].
Qed.

Lemma iter_last_scalar prev its1 t p : iter_text prev its1 t -> ilast its1 = Some p -> scalar p.
Proof.
  intros Hit E. destruct its1 as [|it1 [|it2 [|? ?]]]; cbn [ListProofs.iter_text] in Hit; try contradiction;
    cbn [ilast rev app] in E; inversion E; subst.
  - exact (item_scalar_last _ _ _ _ (proj2 Hit)).
  - exact (item_scalar_last _ _ _ _ (proj2 (proj2 Hit))).
Qed.

Lemma nth_last_app {A} (l1 l2 : list A) : l2 <> [] ->
  nth_error (l1 ++ l2) (length (l1 ++ l2) - 1) = nth_error l2 (length l2 - 1).
Proof.
  intros H. assert (1 <= length l2)%nat by (destruct l2; [congruence|cbn; lia]).
  rewrite app_length, nth_error_app2 by lia. f_equal. lia.
Qed.

Lemma ilast_app its1 its2 : its2 <> [] -> ilast (its1 ++ its2) = ilast its2.
Proof.
  intros H. unfold ilast. rewrite rev_app_distr.
  destruct (rev its2) eqn:E; [|reflexivity].
  apply (f_equal (@length _)) in E. rewrite rev_length in E. destruct its2; [congruence|discriminate].
Qed.

Lemma item_orig_pos p it : item_ok p it -> item_orig it <> [].
Proof.
  destruct it as [v t|n v t|k b d m last sp]; cbn [ListProofs.item_ok item_orig].
  - discriminate.
  - intros (Hn & _). replace (Z.to_nat n) with (S (Z.to_nat n - 1)) by lia. discriminate.
  - intros ((_ & _ & _ & Hm & _) & _). replace (Z.to_nat m) with (S (Z.to_nat m - 1)) by lia. discriminate.
Qed.

Definition sp4 : list Z := [32; 32; 32; 32].

(* one iteration of the loop over the elements; more = what follows the array
   in the slot list *)
Lemma arr_step a0 es more prev i n acc (first bb : bool) wrt cols awtl fuel res :
  Forall (goodc o zf zd) (a0 :: es) -> Forall (goodca o zf zd) more ->
  Z.of_nat (length ((a0 :: es) ++ more)) < 2 ^ 31 ->
  n + 1 - i = Z.of_nat (length (a0 :: es)) ->
  print_array_loop pavf parr (S fuel) o ((a0 :: es) ++ more) prev i n acc first bb wrt cols awtl = Some res ->
  exists its1 inc t (brk : bool) cols2 awtl2,
    (1 <= inc <= length (a0 :: es))%nat /\ iorig its1 = firstn inc (a0 :: es) /\
    iter_text prev its1 t /\ (forall p, ilast its1 = Some p -> scalar p) /\ first_notconf prev its1 /\
    nth_error (a0 :: es) (inc - 1) = ilast its1 /\ (awtl = 0 -> brk = false) /\
    print_array_loop pavf parr fuel o (skipn inc (a0 :: es) ++ more) (ilast its1) (i + Z.of_nat inc) n
      (if first then (if brk then sp4 ++ acc ++ t else acc ++ t)
       else acc ++ (if brk then nl4 else [32]) ++ t)
      false (bb || (first && brk)) (wrt + len t + (if brk then 4 else 0) + 1) (cols2 + 1) awtl2 = Some res.
Proof.
  intros Hg Hgm Hlen Hn Hrun.
  set (rest := es ++ more) in *. change ((a0 :: es) ++ more) with (a0 :: rest) in *.
  assert (Hgr : Forall (goodca o zf zd) rest).
  { unfold rest. apply Forall_app. split; [|exact Hgm].
    eapply Forall_impl; [|exact (Forall_inv_tail Hg)]. intros a Ha. now left. }
  cbn [print_array_loop] in Hrun.
  cbn [length] in Hn. replace (n <? i) with false in Hrun by lia.
  assert (Hty : hd_type (a0 :: rest) =? 97 = false)
    by (destruct (goodc_facts o zf zd a0 (Forall_inv Hg)) as (Hs0 & _); destruct a0; cbn in Hs0; try contradiction; reflexivity).
  destruct (convert_to_range o (a0 :: rest) (n + 1 - i)) as [|c kk|] eqn:Ecv; [| |discriminate].
  1: rewrite Hty in Hrun.
  2: destruct (conv_yes_head o _ _ _ _ Ecv) as (n0 & h0 & r0 & Ec0); rewrite Ec0 in Hrun;
     cbn [hd_type av_type] in Hrun; change (45 =? 97) with false in Hrun; cbv iota in Hrun; rewrite <- Ec0 in Hrun.
  all: match type of Hrun with context [print_arg_val_f ?ff ?oo ?inp ?cc ?pp] =>
         destruct (print_arg_val_f ff oo inp cc pp) as [[[[t tmp] cols1] bb1]|] eqn:Epr; [|discriminate] end.
  all: match type of Ecv with _ = ?cv =>
         destruct (print_iter_any_sa a0 rest (n + 1 - i) prev t tmp cols cols1 bb1 cv (Forall_inv Hg) Hgr Hlen Ecv ltac:(discriminate) Epr)
           as (its1 & inc & -> & -> & Hinc & Hrange & Horig & Hit & Hnth & Hle & Hnc) end.
  all: cbn [andb] in Hrun; cbv beta iota in Hrun.
  all: destruct (lb_check (linelength o) cols1 (len t) awtl) as [[brk_ cols2] awtl2] eqn:Elb.
  all: rewrite <- Hinc in Hrun.
  all: assert (Hsk : skipz (Z.of_nat inc) (a0 :: rest) = skipn inc (a0 :: rest)) by (unfold skipz; now rewrite Nat2Z.id).
  all: assert (Hnt : nth_error (a0 :: rest) (Z.to_nat (Z.of_nat inc - 1)) = ilast its1)
         by (replace (Z.to_nat (Z.of_nat inc - 1)) with (inc - 1)%nat by lia; exact Hnth).
  all: rewrite Hsk, Hnt in Hrun.
  all: assert (Hil : (inc <= length (a0 :: es))%nat) by (cbn [length] in *; lia).
  all: assert (Hf1 : firstn inc (a0 :: rest) = firstn inc (a0 :: es))
         by (change (a0 :: rest) with ((a0 :: es) ++ more); rewrite firstn_app;
             replace (inc - length (a0 :: es))%nat with 0%nat by lia; cbn [firstn]; apply app_nil_r).
  all: assert (Hs1 : skipn inc (a0 :: rest) = skipn inc (a0 :: es) ++ more)
         by (change (a0 :: rest) with ((a0 :: es) ++ more); rewrite skipn_app;
             replace (inc - length (a0 :: es))%nat with 0%nat by lia; reflexivity).
  all: assert (Hn1 : nth_error (a0 :: es) (inc - 1) = ilast its1)
         by (rewrite <- Hnth; change (a0 :: rest) with ((a0 :: es) ++ more); symmetry; apply nth_error_app1; lia).
  all: rewrite Hs1 in Hrun; rewrite Hf1 in Horig.
  all: exists its1, inc, t, brk_, cols2, awtl2.
  all: split; [lia|]; split; [exact Horig|]; split; [exact Hit|].
  all: split; [intros p Ep; exact (iter_last_scalar _ _ _ _ Hit Ep)|]; split; [exact Hnc|]; split; [exact Hn1|].
  all: split; [intros ->; unfold lb_check in Elb; cbn [Z.add Z.ltb Z.compare Pos.compare Pos.compare_cont] in Elb;
               rewrite andb_false_r in Elb; now inversion Elb|exact Hrun].
Qed.

(* the iterations after the first *)
Lemma print_arr_loop_iseq : forall fuel elems more prev i n acc bb wrt cols awtl text w c bb',
  Forall (goodc o zf zd) elems -> Forall (goodca o zf zd) more ->
  Z.of_nat (length (elems ++ more)) < 2 ^ 31 -> n + 1 - i = Z.of_nat (length elems) ->
  print_array_loop pavf parr fuel o (elems ++ more) prev i n acc false bb wrt cols awtl = Some (text, w, c, bb') ->
  exists its sfx, text = acc ++ sfx /\ w = wrt + len sfx /\ bb' = bb /\
    iseq_from true prev its sfx /\ iorig its = elems /\
    (elems <> [] -> nth_error elems (length elems - 1) = ilast its).
Proof.
  induction fuel as [|fuel IH]; intros elems more prev i n acc bb wrt cols awtl text w c bb' Hg Hgm Hlen Hn Hrun;
    [discriminate|].
  destruct elems as [|a0 rest].
  - cbn [print_array_loop] in Hrun. cbn in Hn. replace (n <? i) with true in Hrun by lia. inversion Hrun; subst.
    exists [], []. rewrite app_nil_r. cbn. repeat split; try lia; try congruence.
  - destruct (arr_step a0 rest more prev i n acc false bb wrt cols awtl fuel _ Hg Hgm Hlen Hn Hrun)
      as (its1 & inc & t & brk & cols2 & awtl2 & Hrange & Horig & Hit & Hsc & _ & Hnth & _ & Hrun2).
    assert (Hl2 : length (skipn inc (a0 :: rest)) = (length (a0 :: rest) - inc)%nat) by apply skipn_length.
    assert (Hg2 : Forall (goodc o zf zd) (skipn inc (a0 :: rest)))
      by (rewrite <- (firstn_skipn inc (a0 :: rest)) in Hg; now apply Forall_app in Hg as [_ Hg]).
    cbn [andb] in Hrun2. rewrite orb_false_r in Hrun2.
    apply IH in Hrun2; [|exact Hg2|exact Hgm|rewrite app_length in *; rewrite Hl2; cbn [length] in *; lia|rewrite Hl2; cbn [length] in *; lia].
    destruct Hrun2 as (its2 & sfx2 & -> & -> & -> & Hseq2 & Horig2 & Hlast2).
    exists (its1 ++ its2), ((if brk then nl4 else [32]) ++ t ++ sfx2).
    split; [now rewrite <- !app_assoc|]. split; [destruct brk; rewrite !len_app; [change (len nl4) with 5|change (len [32]) with 1]; lia|].
    split; [reflexivity|]. split; [|split].
    + apply iter_join; try assumption. destruct brk; [apply sepw_nl4|apply sepw_32].
    + rewrite iorig_app, Horig, Horig2. apply firstn_skipn.
    + intros _. destruct (skipn inc (a0 :: rest)) as [|x r] eqn:Esk.
      * assert (its2 = []) by (destruct its2 as [|it2 r2]; [reflexivity|];
          unfold iorig in Horig2; cbn [map concat] in Horig2; apply app_eq_nil in Horig2 as [E _];
          cbn [ListProofs.iseq_from] in Hseq2; destruct Hseq2 as (sz & sf & _ & Hok2 & _);
          destruct (item_orig_pos _ _ Hok2); congruence).
        subst its2. rewrite app_nil_r. rewrite <- Hnth. f_equal. cbn [length] in *. lia.
      * specialize (Hlast2 ltac:(discriminate)).
        rewrite <- (firstn_skipn inc (a0 :: rest)), Esk.
        rewrite nth_last_app by discriminate. rewrite Hlast2. symmetry. apply ilast_app.
        destruct its2; [unfold iorig in Horig2; cbn in Horig2; discriminate|discriminate].
Qed.

(* the whole array *)
Lemma print_array_iseq n ty elems more cols blank text w c bb :
  Forall (goodc o zf zd) elems -> Forall (goodca o zf zd) more ->
  Z.of_nat (length (elems ++ more)) < 2 ^ 31 -> n = Z.of_nat (length elems) -> elems <> [] ->
  print_array pavf parr o (VArr ty n :: elems ++ more) cols blank = Some (text, w, c, bb) ->
  exists its T, text = (if bb then sp4 else []) ++ 91 :: T ++ [93] /\ w = len text /\
    iseq_from false None its T /\ iorig its = elems /\ its <> [] /\
    nth_error elems (length elems - 1) = ilast its /\ (blank = false -> bb = false).
Proof.
  intros Hg Hgm Hlen Hn Hne Hrun. unfold print_array in Hrun.
  destruct elems as [|a0 rest]; [congruence|].
  replace (n =? 0) with false in Hrun by (cbn [length] in Hn; lia).
  match type of Hrun with match ?X with _ => _ end = _ => destruct X as [[[[t1 w1] c1] b1]|] eqn:Eloop; [|discriminate] end.
  inversion Hrun; subst text w c bb. clear Hrun.
  assert (Hfu : S (length ((a0 :: rest) ++ more)) = S (S (length (rest ++ more)))) by reflexivity.
  rewrite Hfu in Eloop.
  destruct (arr_step a0 rest more None 1 n [91] true false 1 (cols + 1) _ _ _ Hg Hgm Hlen ltac:(lia) Eloop)
    as (its1 & inc & t & brk & cols2 & awtl2 & Hrange & Horig & Hit & Hsc & _ & Hnth & Hbrk & Hrun2).
  assert (Hl2 : length (skipn inc (a0 :: rest)) = (length (a0 :: rest) - inc)%nat) by apply skipn_length.
  assert (Hg2 : Forall (goodc o zf zd) (skipn inc (a0 :: rest)))
    by (rewrite <- (firstn_skipn inc (a0 :: rest)) in Hg; now apply Forall_app in Hg as [_ Hg]).
  cbn [andb orb] in Hrun2.
  apply print_arr_loop_iseq in Hrun2;
    [|exact Hg2|exact Hgm|rewrite app_length in *; rewrite Hl2; cbn [length] in *; lia|rewrite Hl2; cbn [length] in *; lia].
  destruct Hrun2 as (its2 & sfx2 & -> & -> & -> & Hseq2 & Horig2 & Hlast2).
  exists (its1 ++ its2), (t ++ sfx2).
  split; [destruct brk; cbn [app sp4]; rewrite <- ?app_assoc; reflexivity|].
  split; [destruct brk; unfold sp4; rewrite ?len_app; cbn [app]; unfold len; cbn [length];
          rewrite ?app_length; cbn [length]; rewrite ?app_length; lia|].
  split; [|split; [|split; [|split]]].
  5: { intros ->. apply Hbrk. cbn [negb]. now rewrite orb_true_r. }
  - change (t ++ sfx2) with ([] ++ t ++ sfx2). apply iter_join; try assumption. reflexivity.
  - rewrite iorig_app, Horig, Horig2. apply firstn_skipn.
  - destruct its1; [cbn [ListProofs.iter_text] in Hit; contradiction|discriminate].
  - destruct (skipn inc (a0 :: rest)) as [|x r] eqn:Esk.
    + assert (its2 = []) by (destruct its2 as [|it2 r2]; [reflexivity|];
        unfold iorig in Horig2; cbn [map concat] in Horig2; apply app_eq_nil in Horig2 as [E _];
        cbn [ListProofs.iseq_from] in Hseq2; destruct Hseq2 as (sz & sf & _ & Hok2 & _);
        destruct (item_orig_pos _ _ Hok2); congruence).
      subst its2. rewrite app_nil_r. rewrite <- Hnth. f_equal. cbn [length] in *. lia.
    + specialize (Hlast2 ltac:(discriminate)).
      rewrite <- (firstn_skipn inc (a0 :: rest)), Esk.
      rewrite nth_last_app by discriminate. rewrite Hlast2. symmetry. apply ilast_app.
      destruct its2; [unfold iorig in Horig2; cbn in Horig2; discriminate|discriminate].
Qed.
End PrintArr.

(* ------------------------------------------------------------------------- *)
(* Part 3: a list that is one array                                           *)

(* the elements have one type (true and false count as one) *)
Definition homog (elems : list av) : Prop :=
  forall a b, In a elems -> In b elems -> types_match (av_type a) (av_type b) = true.

Lemma ival_in its : forall v t, In (IVal v t) its -> In v (iorig its).
Proof.
  induction its as [|it its IH]; intros v t H; [contradiction|].
  destruct H as [->|H]; unfold iorig; cbn [map concat].
  - cbn [item_orig]. left. reflexivity.
  - apply in_or_app. right. exact (IH _ _ H).
Qed.

Lemma atys_from elems : homog elems -> forall its aty,
  (forall v t, In (IVal v t) its -> In v elems) ->
  (aty = 0 \/ aty = 45 \/ exists a, In a elems /\ aty = av_type a) -> atys_ok aty its.
Proof.
  intros Hh. induction its as [|it its IH]; intros aty Hin Haty; [exact I|].
  cbn [atys_ok]. split.
  - destruct Haty as [->|[->|(a & Ha & ->)]]; [reflexivity|reflexivity|].
    destruct (av_type a =? 0); [reflexivity|]. cbn [orb]. unfold arraytypes_match.
    destruct it as [v t|n v t|k b d m last sp]; cbn [ity].
    + rewrite (Hh a v Ha (Hin v t (or_introl eq_refl))). now rewrite orb_true_r.
    + rewrite Z.eqb_refl. now rewrite orb_true_r.
    + rewrite Z.eqb_refl. now rewrite orb_true_r.
  - apply IH; [intros v t H; apply (Hin v t); right; exact H|].
    destruct (aty =? 0) eqn:E0.
    + destruct it as [v t|n v t|k b d m last sp]; cbn [ity].
      * right. right. exists v. split; [apply (Hin v t); left; reflexivity|reflexivity].
      * right. left. reflexivity.
      * right. left. reflexivity.
    + destruct Haty as [->|H]; [discriminate E0|]. right. exact H.
Qed.

Lemma count_common_done fuel ty l i size nc : size <= i -> count_common fuel ty l i size nc = nc.
Proof. intros H. destruct fuel; [reflexivity|]. cbn [count_common]. now replace (size <=? i) with true by lia. Qed.

Lemma conv_single_array o ty elems :
  convert_to_range o (VArr ty (Z.of_nat (length elems)) :: elems) (Z.of_nat (length elems) + 1) = CNo.
Proof.
  unfold convert_to_range.
  destruct ((Z.of_nat (length elems) + 1 <? 5) || (hd_type (VArr ty (Z.of_nat (length elems)) :: elems) =? 45)
            || negb (compress o)); [reflexivity|].
  cbn [length count_common hd_type av_type incsize].
  assert (E : Z.of_nat (length elems) + 1 <=? 0 = false) by (apply Z.leb_gt; lia). rewrite E.
  replace (97 =? 97) with true by reflexivity.
  rewrite count_common_done by lia. reflexivity.
Qed.

(* the array type the scanner stores is the type of the last original element *)
Definition last_type (elems : list av) : Z := match rev elems with x :: _ => av_type x | [] => 32 end.

Section LastType.
Variables dec2f dec2d : list Z -> Z.

Lemma item_orig_last p it : item_ok dec2f dec2d p it -> exists pre, item_orig it = pre ++ [item_last it].
Proof.
  destruct it as [v t|n v t|k b d m last sp]; cbn [item_ok item_orig item_last].
  - intros _. exists []. reflexivity.
  - intros (Hn & _). exists (repeat v (Z.to_nat n - 1)).
    replace (Z.to_nat n) with (S (Z.to_nat n - 1)) at 1 by lia. cbn [repeat]. apply repeat_cons.
  - intros ((_ & _ & Hl & Hm & _) & _).
    exists (map (fun j => mk k (b + Z.of_nat j * d)) (seq 0 (Z.to_nat m - 1))).
    replace (Z.to_nat m) with (S (Z.to_nat m - 1)) at 1 by lia.
    rewrite seq_S, map_app. cbn [map plus]. f_equal. f_equal. f_equal. subst last. rewrite Nat2Z.inj_sub, Z2Nat.id by lia. reflexivity.
Qed.

Lemma item_elem_type p it : item_ok dec2f dec2d p it -> elem_type (item_slots it) = av_type (item_last it).
Proof.
  intros Hok. pose proof (item_scalar_last _ _ _ _ Hok) as Hs.
  destruct it as [v t|n v t|k b d m last sp]; cbn [item_slots item_last] in *.
  - destruct v; cbn in Hs; try contradiction; reflexivity.
  - reflexivity.
  - destruct k; reflexivity.
Qed.

Lemma iseq_items_ok p its T : iseq dec2f dec2d p its T -> Forall (fun it => exists p', item_ok dec2f dec2d p' it) its.
Proof.
  induction 1 as [p|p it Hok|p it sep it' its T Hok Hsep HL IH]; [constructor| |].
  - constructor; [now exists p|constructor].
  - constructor; [now exists p|exact IH].
Qed.

Lemma lty_last p its T ty : iseq dec2f dec2d p its T -> its <> [] -> lty ty its = last_type (iorig its).
Proof.
  intros HL Hne. pose proof (iseq_items_ok _ _ _ HL) as Hall. clear HL.
  destruct (exists_last Hne) as (its0 & it & ->).
  apply Forall_app in Hall as [_ Hl]. inversion Hl as [|? ? [p' Hok] _]; subst.
  unfold lty. rewrite fold_left_app. cbn [fold_left]. rewrite (item_elem_type _ _ Hok).
  destruct (item_orig_last _ _ Hok) as (pre & E).
  rewrite iorig_app. unfold last_type, iorig at 2. cbn [map concat]. rewrite app_nil_r, E.
  rewrite !rev_app_distr. reflexivity.
Qed.
End LastType.

Section One.
Variables dec2f dec2d : list Z -> Z.

(* a text that is one bracketed token *)
Lemma single_token_reads text k vs :
  (2 <= length text)%nat -> hd0 text = 91 -> 1 <= k -> slots_offset vs = k ->
  skip_next dec2f dec2d (length text) text None true false = Ok ([], k, 97) ->
  scan_arg_val dec2f dec2d (length text) text [] 0 true = Ok (vs, []) ->
  count_printed_arg_vals dec2f dec2d text = Ok (true, k) /\
  scan_arg_vals dec2f dec2d text k = Ok (vs, []).
Proof.
  intros Hl Hhd Hk Hoff Hskip Hscan. split.
  - unfold count_printed_arg_vals.
    rewrite (skip_ws_nonspace text) by (rewrite Hhd; reflexivity).
    cbn [skip_comments_ws]. rewrite Hhd. replace (91 =? 37) with false by reflexivity.
    cbn [count_loop]. rewrite Hhd. replace ((91 =? 0) || (91 =? 47)) with false by reflexivity.
    rewrite Hskip. cbn [skip_ws dropwhile hd0 at_ nth Z.eqb negb andb].
    destruct (length text) as [|[|l]]; try lia. cbn [count_loop hd0 at_ nth Z.eqb orb]. reflexivity.
  - unfold scan_arg_vals. cbn [scan_loop]. replace (k <=? 0) with false by lia.
    rewrite Hscan. cbn [length skip_ws_comments skip_ws dropwhile hd0 at_ nth Z.eqb app].
    destruct (Z.to_nat k) eqn:E; [lia|]. cbn [scan_loop]. rewrite Hoff.
    replace (k <=? 0 + k) with true by lia. reflexivity.
Qed.

(* the round trip of an array of values of one type: the scanner gives an array
   whose elements expand to the original elements *)
Theorem roundtrip_array o zf zd ty elems text w :
  zchoice zf zd ->
  Forall (goodc o zf zd) elems -> homog elems -> Z.of_nat (length elems) + 1 < 2 ^ 31 ->
  print_arg_vals o (VArr ty (Z.of_nat (length elems)) :: elems) 0 = Some (text, w) ->
  exists ty' slots,
    w = len text /\
    count_printed_arg_vals dec2f dec2d text = Ok (true, 1 + Z.of_nat (length slots)) /\
    scan_arg_vals dec2f dec2d text (1 + Z.of_nat (length slots))
    = Ok (VArr ty' (Z.of_nat (length slots)) :: slots, []) /\
    expand slots = Some elems /\ ty' = last_type elems.
Proof.
  intros Hz Hg Hh Hlen Hp. unfold print_arg_vals in Hp. cbn [length] in Hp.
  remember (S (length elems)) as f1 eqn:Ef1. cbn [print_vals_loop] in Hp.
  replace (Z.of_nat f1 <=? 0) with false in Hp by lia.
  replace (Z.of_nat f1 - 0) with (Z.of_nat (length elems) + 1) in Hp by lia.
  rewrite conv_single_array in Hp. cbn [print_arg_val_top] in Hp.
  destruct (print_array print_arg_val print_arr o (VArr ty (Z.of_nat (length elems)) :: elems) 0 false)
    as [[[[t tmp] cols1] bb]|] eqn:Epa; [|discriminate].
  change (breaks_itself (av_type (VArr ty (Z.of_nat (length elems))))) with true in Hp.
  cbv beta iota zeta in Hp. cbn [orb negb andb] in Hp. destruct bb; [discriminate|].
  cbn [next_arg_offset] in Hp.
  replace (0 + (Z.of_nat (length elems) + 1) <? Z.of_nat f1) with false in Hp by lia.
  subst f1. cbn [print_vals_loop] in Hp.
  assert (E : Z.of_nat (S (length elems)) <=? 0 + (Z.of_nat (length elems) + 1) = true) by (apply Z.leb_le; lia).
  rewrite E in Hp. clear E.
  cbn [app] in Hp. inversion Hp; subst text w. clear Hp.
  destruct elems as [|a0 rest].
  - cbn in Epa. inversion Epa; subst. exists 32, [].
    destruct (empty_array_reads dec2f dec2d [] rest_ok_nil) as [Hs Hc].
    destruct (single_token_reads [91; 93] 1 [VArr 32 0] ltac:(cbn; lia) eq_refl ltac:(lia) eq_refl
                (Hs 1%nat None true false) (Hc 1%nat [] 0 true)) as [H1 H2].
    split; [reflexivity|]. split; [exact H1|]. split; [exact H2|]. split; reflexivity.
  - rewrite <- (app_nil_r (a0 :: rest)) in Epa at 2.
    destruct (print_array_iseq dec2f dec2d o print_arr 4 zf zd Hz _ ty (a0 :: rest) [] 0 false t tmp cols1 false Hg (Forall_nil _)
                ltac:(rewrite app_nil_r; lia) eq_refl
                ltac:(discriminate) Epa) as (its & T & -> & -> & Hseq & Horig & Hne & _ & _).
    destruct (iseq_from_iseq dec2f dec2d _ _ _ _ Hseq Hne) as (sepz & T' & -> & HL & ->). cbn [app].
    assert (Hty : atys_ok 0 its).
    { apply (atys_from (a0 :: rest) Hh); [|left; reflexivity].
      intros v tt Hin. rewrite <- Horig. exact (ival_in _ _ _ Hin). }
    destruct (array_reads dec2f dec2d its T' HL Hne Hty [] rest_ok_nil) as [Hs Hc].
    exists (lty 32 its), (islots its).
    assert (Hlt : length (91 :: T' ++ [93]) = S (S (length T')))
      by (cbn [length]; rewrite app_length; cbn [length]; lia).
    assert (Hs' : skip_next dec2f dec2d (length (91 :: T' ++ [93])) (91 :: T' ++ [93]) None true false
                  = Ok ([], 1 + Z.of_nat (length (islots its)), 97)) by (rewrite Hlt; apply Hs; lia).
    assert (Hc' : scan_arg_val dec2f dec2d (length (91 :: T' ++ [93])) (91 :: T' ++ [93]) [] 0 true
                  = Ok (VArr (lty 32 its) (Z.of_nat (length (islots its))) :: islots its, []))
      by (rewrite Hlt; apply Hc; lia).
    destruct (single_token_reads (91 :: T' ++ [93]) (1 + Z.of_nat (length (islots its)))
                (VArr (lty 32 its) (Z.of_nat (length (islots its))) :: islots its)
                ltac:(rewrite Hlt; lia) eq_refl ltac:(lia)
                ltac:(cbn [slots_offset]; lia) Hs' Hc') as [H1 H2].
    split; [reflexivity|]. split; [exact H1|]. split; [exact H2|].
    rewrite <- Horig. split; [exact (expand_items dec2f dec2d _ _ _ HL)|].
    exact (lty_last dec2f dec2d _ _ _ 32 HL Hne).
Qed.
End One.

(* with the condition on the zeroes at list level *)
Theorem roundtrip_array_nz (dec2f dec2d : list Z -> Z) o ty elems text w :
  Forall (goodv o) elems -> nozmix elems -> homog elems -> Z.of_nat (length elems) + 1 < 2 ^ 31 ->
  print_arg_vals o (VArr ty (Z.of_nat (length elems)) :: elems) 0 = Some (text, w) ->
  exists ty' slots,
    w = len text /\
    count_printed_arg_vals dec2f dec2d text = Ok (true, 1 + Z.of_nat (length slots)) /\
    scan_arg_vals dec2f dec2d text (1 + Z.of_nat (length slots))
    = Ok (VArr ty' (Z.of_nat (length slots)) :: slots, []) /\
    expand slots = Some elems /\ ty' = last_type elems.
Proof.
  intros Hg Hnz. destruct (zero_choice o elems Hg Hnz) as (zf & zd & Hz & Hg').
  exact (roundtrip_array dec2f dec2d o zf zd ty elems text w Hz Hg').
Qed.

(* an array with an elided run, a plain value and a constant run; linelength 20
   puts line breaks inside *)
Definition example_elems : list av := map VI [1; 2; 3; 4; 5; 6; 9; 8; 8; 8; 8; 8; 8].
Lemma roundtrip_array_example : forall o,
  Forall (goodv o) example_elems /\ homog example_elems /\
  exists w, print_arg_vals {| lossless := true; prec := 2; linelength := 20; compress := true |}
    (VArr 105 (Z.of_nat (length example_elems)) :: example_elems) 0
  = Some ([91; 49; 32; 46; 46; 46; 32; 54; 32; 57; 32; 54; 120; 56; 93], w).
Proof.
  intros o. split; [|split].
  - unfold example_elems. cbn [map]. repeat (constructor; [left; cbn; unfold small_k, good_k; lia|]). constructor.
  - intros a b Ha Hb. unfold example_elems in *. apply in_map_iff in Ha as (x & <- & _).
    apply in_map_iff in Hb as (y & <- & _). reflexivity.
  - eexists. vm_compute. reflexivity.
Qed.
