(* C10 - model of the pretty printer (src/cpp/pretty-format.c:155-771):
   rtosc_print_arg_val per type, string and blob line breaking,
   linebreak_check_after_write, rtosc_print_arg_vals, rtosc_print_message.
   Every function returns the text it writes, the count the code returns
   (computed with the code's own arithmetic, not as the length of the text)
   and the new value of cols_used.  No proofs in this file. *)
From Coq Require Import List ZArith Bool.
From RtoscV Require Import Pretty.Tok Pretty.FloatFmt Pretty.TimeFmt.
Import ListNotations.
Local Open Scope Z_scope.

Record popts := { lossless : bool; prec : Z; linelength : Z; compress : bool }.

Definition len (s : str) : Z := Z.of_nat (length s).

(* break_string writes  "\<newline>    "  and sets cols_used to 5 *)
Definition brk : str := [34; 92; 10; 32; 32; 32; 32; 34].
Definition nl4 : str := [10; 32; 32; 32; 32].

Definition reserved : list str :=
  [kw_true; kw_false; kw_nil; kw_inf; kw_now; kw_immediately; kw_MIDI; kw_BLOB].
Definition is_reserved (s : str) : bool := existsb (str_eqb s) reserved.

(* "Symbol": are quotes required? *)
Definition sym_plain (s : str) : bool :=
  match s with
  | [] => false
  | c :: r => isidstart c && forallb isidchar r && negb (is_reserved s)
  end.

(* the loop over the characters of a string *)
Fixpoint print_chars (plain : bool) (ll : Z) (s : str) (cols : Z) : str * Z :=
  match s with
  | [] => ([], cols)
  | c :: s' =>
      let '(pre, cols1) := if negb plain && (ll - 3 <? cols) then (brk, 5) else ([], cols) in
      match as_escaped_char c false with
      | Some e =>
          let cols2 := cols1 + 2 in
          let '(post, cols3) := if negb plain && (e =? 110) then (brk, 5) else ([], cols2) in
          let '(r, cf) := print_chars plain ll s' cols3 in
          (pre ++ [92; e] ++ post ++ r, cf)
      | None =>
          let '(r, cf) := print_chars plain ll s' (cols1 + 1) in
          (pre ++ [c] ++ r, cf)
      end
  end.

Definition print_string (o : popts) (is_sym : bool) (s : str) (cols : Z) : str * Z :=
  let plain := is_sym && sym_plain s in
  if plain then print_chars true (linelength o) s cols
  else let '(body, c1) := print_chars false (linelength o) s (cols + 1) in
       (34 :: body ++ 34 :: (if is_sym then [83] else []), c1 + 1).

(* the blob loop: acc is the text so far (it ends with a blank) *)
Fixpoint blob_loop (ll : Z) (d : str) (acc : str) (wrt cols : Z) : str * Z * Z :=
  match d with
  | [] => (acc, wrt, cols)
  | b :: d' =>
      let '(acc1, wrt1, cols1) :=
        if ll - 6 <=? cols then (removelast acc ++ nl4, wrt + 4, 4) else (acc, wrt, cols) in
      blob_loop ll d' (acc1 ++ [48; 120] ++ hex2 b ++ [32]) (wrt1 + 5) (cols1 + 5)
  end.

Definition print_blob (o : popts) (d : str) (cols : Z) : str * Z * Z :=
  let head := kw_BLOB ++ [32; 91] ++ print_d (len d) ++ [32] in
  let '(t, wrt, c) := blob_loop (linelength o) d head (len head) (cols + len head) in
  (removelast t ++ [93], wrt, c).

Definition print_char (c : Z) : str :=
  match as_escaped_char c true with
  | Some e => [39; 92; e; 39]
  | None => [39; c; 39]
  end.

Definition print_midi (m0 m1 m2 m3 : Z) : str :=
  kw_MIDI ++ [32; 91; 48; 120] ++ hex2 m0 ++ [32; 48; 120] ++ hex2 m1 ++
  [32; 48; 120] ++ hex2 m2 ++ [32; 48; 120] ++ hex2 m3 ++ [93].

Definition print_rgba (v : Z) : str :=
  35 :: hex2 (v / 2 ^ 24 mod 256) ++ hex2 (v / 2 ^ 16 mod 256) ++
        hex2 (v / 2 ^ 8 mod 256) ++ hex2 (v mod 256).

(* ---- time tags (calendar and fraction conversions: TimeFmt.v) ----------------------- *)
(* case 't' of rtosc_print_arg_val: strftime with one of three formats, then
   the fraction: the digits of "%.<prec>f" from the point on (prec at least 1)
   and, lossless, " (...+<%a>s)" *)
Definition print_timetag (o : popts) (t : Z) : str :=
  if t =? 1 then kw_immediately else
  let secs := t / 2 ^ 32 in
  let sf := t mod 2 ^ 32 in
  let '(y, mo, d, h, mi, se) := date_of_secs secs in
  let date := dec_nat y ++ 45 :: d2 mo ++ 45 :: d2 d in
  if negb (sf =? 0) || negb (se =? 0) then
    date ++ 32 :: d2 h ++ 58 :: d2 mi ++ 58 :: d2 se ++
    (if sf =? 0 then [] else
       let flt := f32_to_f64 (secfracs2float sf) in
       dropwhile (fun c => negb (c =? 46)) (fmt_f (Z.max (prec o) 1) flt) ++
       (if lossless o then [32; 40; 46; 46; 46; 43] ++ fmt_a flt ++ [115; 41] else []))
  else if negb (h =? 0) || negb (mi =? 0) then date ++ 32 :: d2 h ++ 58 :: d2 mi
  else date.

(* rtosc_print_arg_val for the types that do not recurse: (text, returned count,
   cols_used) *)
Definition print_scalar (o : popts) (v : av) (cols : Z) : option (str * Z * Z) :=
  let simple t := Some (t, len t, cols + len t) in
  match v with
  | VT => simple kw_true
  | VF => simple kw_false
  | VN => simple kw_nil
  | VInf => simple kw_inf
  | VH h => simple (print_d h ++ [104])
  | VI i => simple (print_d i)
  | VC c => simple (print_char c)
  | VR r => simple (print_rgba r)
  | VM a b c d => simple (print_midi a b c d)
  | VS s => let '(t, c) := print_string o false s cols in Some (t, len t, c)
  | VSym s => let '(t, c) := print_string o true s cols in Some (t, len t, c)
  | VB d => Some (print_blob o d cols)
  | VFl b =>
      (* "%#.<prec>f" and, lossless, " (%a)"; glibc's %a has no trailing
         zeroes, remove_trailing_zeroes finds nothing to remove *)
      let d := f32_to_f64 b in
      simple (fmt_f (prec o) d ++ (if lossless o then [32; 40] ++ fmt_a d ++ [41] else []))
  | VD b =>
      simple (fmt_f (prec o) b ++ 100 :: (if lossless o then [32; 40] ++ fmt_a b ++ [41] else []))
  | VTm t => simple (print_timetag o t)
  | _ => None
  end.

(* linebreak_check_after_write: (break?, cols_used, args_written_this_line) *)
Definition lb_check (ll cols inc awtl : Z) : bool * Z * Z :=
  let a1 := awtl + 1 in
  if (ll <? cols) && (1 <? a1) then (true, 4 + inc, 1) else (false, cols, a1).

(* strchr("-asb", type) *)
Definition breaks_itself (ty : Z) : bool :=
  (ty =? 45) || (ty =? 97) || (ty =? 115) || (ty =? 98).

(* next_arg_offset *)
Fixpoint next_arg_offset (l : list av) : Z :=
  match l with
  | VArr _ n :: _ => n + 1
  | VSpc n :: _ => n + 1
  | VRep _ hd :: r => 1 + next_arg_offset r + hd
  | _ => 1
  end.

Definition skipz {A} (n : Z) (l : list A) : list A := skipn (Z.to_nat n) l.

(* ---- range conversion ------------------------------------------------------- *)
Definition incsize (l : list av) : Z := match l with VArr _ n :: _ => n + 1 | _ => 1 end.
Definition hd_type (l : list av) : Z := match l with v :: _ => av_type v | [] => 0 end.

Fixpoint all_eq (a b : list av) : option bool :=
  match a, b with
  | [], [] => Some true
  | x :: a', y :: b' =>
      match av_eq_single x y with
      | Some true => all_eq a' b'
      | Some false => Some false
      | None => None
      end
  | _, _ => Some false
  end.

(* rtosc_arg_vals_eq_single on the elements starting at l and r (arrays
   without ranges or arrays inside; None = not covered) *)
Definition elem_eq (l r : list av) : option bool :=
  match l, r with
  | VArr t1 n1 :: l', VArr t2 n2 :: r' =>
      if negb (types_match t1 t2) then Some false
      else if negb (n1 =? n2) then Some false
      else all_eq (firstn (Z.to_nat n1) l') (firstn (Z.to_nat n2) r')
  | v1 :: _, v2 :: _ => if av_type v1 =? av_type v2 then av_eq_single v1 v2 else Some false
  | _, _ => None
  end.

(* the first loop: how many leading elements have the type of the first *)
Fixpoint count_common (fuel : nat) (ty : Z) (l : list av) (i size nc : Z) : Z :=
  match fuel with
  | O => nc
  | S f =>
      if size <=? i then nc else
      match l with
      | [] => nc
      | v :: _ => if av_type v =? ty
                  then count_common f ty (skipz (incsize l) l) (i + incsize l) size (nc + 1)
                  else nc
      end
  end.

(* range_step_fits: the step from [from] to [to_] did not wrap and the span
   from [first] to [to_] fits the type *)
Definition range_step_fits (first from to_ delta : av) : option bool :=
  match av_null (av_type delta) with
  | Some zero =>
      match av_cmp_single delta zero, av_sub to_ first with
      | Some dir, Some span =>
          match av_cmp_single to_ from, av_cmp_single span zero with
          | Some c1, Some c2 => Some ((c1 =? dir) && (c2 =? dir))
          | _, _ => None end
      | _, _ => None end
  | None => None
  end.

(* the second loop: Some (skipped, num_common) *)
Fixpoint run_loop (fuel : nat) (args : list av) (size : Z) (has_delta : bool) (delta : av)
         (skipped nc : Z) : option (Z * Z) :=
  match fuel with
  | O => None
  | S f =>
      let cur := skipz skipped args in
      let next := skipped + incsize cur in
      let cmp_l := if has_delta
                   then match cur with
                        | c :: _ => match av_add c delta with Some a => Some [a] | None => None end
                        | [] => None end
                   else Some args in
      if size <=? next then Some (next, nc + 1) else
      match cmp_l with
      | None => None
      | Some l => match elem_eq l (skipz next args) with
                  | None => None
                  | Some true =>
                      if has_delta
                      then match args, cur, l with
                           | a0 :: _, c :: _, added :: _ =>
                               match range_step_fits a0 c added delta with
                               | Some true => run_loop f args size has_delta delta next (nc + 1)
                               | Some false => Some (next, nc + 1)
                               | None => None end
                           | _, _, _ => None end
                      else run_loop f args size has_delta delta next (nc + 1)
                  | Some false => Some (next, nc + 1)
                  end
      end
  end.

Inductive conv := CNo | CYes (c : list av) (k : Z) | CUnmod.

Definition range_convertible (ty : Z) : bool :=
  (ty =? 99) || (ty =? 105) || (ty =? 104) || (ty =? 84) || (ty =? 70).

(* rtosc_convert_to_range(arg, size, arg_out, opt) *)
Definition convert_to_range (o : popts) (args : list av) (size : Z) : conv :=
  if (size <? 5) || (hd_type args =? 45) || negb (compress o) then CNo else
  let ty := hd_type args in
  if count_common (length args) ty args 0 size 0 <? 5 then CNo else
  match elem_eq args (skipz (incsize args) args) with
  | None => CUnmod
  | Some e =>
      if negb e && negb (range_convertible ty) then CNo else
      let dl := if e then Some VN   (* unused *)
                else match args with
                     | a0 :: a1 :: _ => av_sub a1 a0
                     | _ => None end in
      match dl with
      | None => CUnmod
      | Some delta =>
          match (if e then Some true
                 else match args with
                      | a0 :: a1 :: _ => range_step_fits a0 a0 a1 delta
                      | _ => None end) with
          | None => CUnmod
          | Some false => CNo
          | Some true =>
          match run_loop (length args) args size (negb e) delta (incsize args) 1 with
          | None => CUnmod
          | Some (skipped, nc) =>
              if nc <? 5 then CNo else
              let hdz := if e then 0 else 1 in
              let used := 1 + hdz + incsize args in
              CYes (VRep nc hdz :: (if e then [] else [delta]) ++
                    firstn (Z.to_nat (incsize args)) args ++ [VSpc (skipped - used - 1)]) skipped
          end
          end
      end
  end.

(* ---- rtosc_print_arg_val ------------------------------------------------------- *)
(* result: (text, returned count, cols_used, the line break went in front of
   the text: the character before the buffer was overwritten with '\n' and the
   text starts with the four blanks) *)
Definition pres := option (str * Z * Z * bool).
Definition pav_t := popts -> list av -> Z -> option av -> pres.

(* printing an array that is an element of an array or the value of a
   repetition: (options, slots, cols_used, the character in front is a blank) *)
Definition parr_t := popts -> list av -> Z -> bool -> pres.

(* the loop over the elements of an array; acc does not contain the pending
   separator; first = last_sep still is buffer-1 (in front of the bracket).
   An element that is an array may put its line break over the separator in
   front of it (its text then starts with the four blanks). *)
Fixpoint print_array_loop (pav : pav_t) (parr : parr_t) (fuel : nat) (o : popts) (elems : list av)
         (prev : option av) (i n : Z) (acc : str) (first : bool) (bb : bool) (wrt cols awtl : Z) : pres :=
  match fuel with
  | O => None
  | S f =>
      if n <? i then Some (acc, wrt, cols, bb) else
      match convert_to_range o elems (n + 1 - i) with
      | CUnmod => None
      | cv =>
          let input := match cv with CYes c _ => c | _ => elems end in
          match (if hd_type input =? 97 then parr o input cols (negb first) else pav o input cols prev) with
          | Some (t, tmp, cols1, bbi) =>
              if bbi && first then None else
              let '(brk_, cols2, awtl2) := lb_check (linelength o) cols1 tmp awtl in
              let inc := match cv with CYes _ k => k | _ => next_arg_offset elems end in
              let prev2 := nth_error elems (Z.to_nat (inc - 1)) in
              let acc2 := if first then (if brk_ then [32; 32; 32; 32] ++ acc ++ t else acc ++ t)
                          else acc ++ (if brk_ then nl4 else if bbi then [10] else [32]) ++ t in
              print_array_loop pav parr f o (skipz inc elems) prev2 (i + inc) n acc2 false
                               (bb || (first && brk_)) (wrt + tmp + (if brk_ then 4 else 0) + 1)
                               (cols2 + 1) awtl2
          | None => None
          end
      end
  end.

(* blank: the character in front of the bracket is a blank (a line break may
   replace it) *)
Definition print_array (pav : pav_t) (parr : parr_t) (o : popts) (arg : list av) (cols : Z) (blank : bool) : pres :=
  match arg with
  | VArr _ n :: elems =>
      if n =? 0 then Some ([91; 93], 2, cols + 3, false) else
      match print_array_loop pav parr (S (length elems)) o elems None 1 n [91] true false 1 (cols + 1)
                             (if (cols =? 0) || negb blank then 0 else 1) with
      | Some (t, w, c, bb) => Some (t ++ [93], w, c + 1, bb)
      | None => None
      end
  | _ => None
  end.

(* rtosc_print_range for a compressed, finite range *)
Definition print_range (pav : pav_t) (parr : parr_t) (o : popts) (arg : list av) (cols : Z) (prev : option av) : pres :=
  match arg with
  | VRep num hd :: rest =>
      if negb (compress o) || (num =? 0) then None else
      if negb (hd =? 0) then
        match rest with
        | delta :: firstv :: _ =>
            match pav o [firstv] cols None, av_from_int (av_type firstv) 1, av_from_int (av_type firstv) (-1) with
            | Some (t1, w1, c1, false), Some one, Some m_one =>
                let confusing :=
                  match prev with
                  | Some p => if av_type p =? av_type firstv
                              then match av_eq_single firstv p with
                                   | Some b => Some (negb b) | None => None end
                              else Some false
                  | None => Some false
                  end in
                match confusing, av_eq_single delta one, av_eq_single delta m_one with
                | Some cf, Some e1, Some e2 =>
                    let mid :=
                      if (e1 || e2) && negb cf then Some ([], 0, c1)
                      else match range_arg delta firstv 1 with
                           | Some second =>
                               match pav o [second] (c1 + 1) None with
                               | Some (t2, w2, c2, false) => Some (32 :: t2, 1 + w2, c2)
                               | _ => None end
                           | None => None end in
                    match mid, range_arg delta firstv (num - 1) with
                    | Some (tm, wm, cm), Some lastv =>
                        match pav o [lastv] (cm + 5) None with
                        | Some (t3, w3, c3, false) =>
                            let '(brk_, c4, _) := lb_check (linelength o) c3 w3 1 in
                            Some (t1 ++ tm ++ [32; 46; 46; 46] ++ (if brk_ then nl4 else [32]) ++ t3,
                                  w1 + wm + 5 + w3 + (if brk_ then 4 else 0), c4 + 1, false)
                        | _ => None end
                    | _, _ => None end
                | _, _, _ => None end
            | _, _, _ => None end
        | _ => None end
      else
        let head := print_d num ++ [120] in
        match (match rest with
               | VArr _ _ :: _ => parr o rest (cols + len head) false   (* after the x *)
               | _ => pav o rest (cols + len head) None end) with
        | Some (t, w, c, bb) =>
            Some ((if bb then removelast head ++ [10] else head) ++ t, len head + w, c, false)
        | None => None end
  | _ => None
  end.

(* rtosc_print_arg_val on the slot sequence starting at the argument *)
Fixpoint print_arg_val_f (fuel : nat) (o : popts) (args : list av) (cols : Z) (prev : option av)
         {struct fuel} : pres :=
  match fuel with
  | O => None
  | S f =>
      match args with
      | VRep _ _ :: _ => print_range (print_arg_val_f f) (print_arr_f f) o args cols prev
      | VArr _ _ :: _ => print_array (print_arg_val_f f) (print_arr_f f) o args cols false
      | v :: _ => match print_scalar o v cols with
                  | Some (t, w, c) => Some (t, w, c, false)
                  | None => None end
      | [] => None
      end
  end
with print_arr_f (fuel : nat) (o : popts) (args : list av) (cols : Z) (blank : bool) {struct fuel} : pres :=
  match fuel with
  | O => None
  | S f => print_array (print_arg_val_f f) (print_arr_f f) o args cols blank
  end.
Definition print_arg_val := print_arg_val_f 6.
Definition print_arr := print_arr_f 6.
(* a value of the top-level list: blank = a separator has been written in front *)
Definition print_arg_val_top (o : popts) (args : list av) (cols : Z) (prev : option av) (blank : bool) : pres :=
  match args with
  | VArr _ _ :: _ => print_array print_arg_val print_arr o args cols blank
  | _ => print_arg_val o args cols prev
  end.

(* the loop of rtosc_print_arg_vals.  acc = text written so far without the
   pending separator, pend = a separator has been written at last_sep
   (pend = false: last_sep is buffer-1, outside the text) *)
Fixpoint print_vals_loop (fuel : nat) (o : popts) (args : list av) (prev : option av)
         (i n : Z) (acc : str) (pend : bool) (wrt cols awtl : Z) : option (str * Z) :=
  match fuel with
  | O => None
  | S f =>
      if n <=? i then Some (acc, wrt) else
      match args with
      | [] => None
      | a0 :: _ =>
          match convert_to_range o args (n - i) with
          | CUnmod => None
          | cv =>
          let input := match cv with CYes c _ => c | _ => args end in
          match print_arg_val_top o input cols prev pend with
          | None => None
          | Some (t, tmp, cols1, bb) =>
              let '(brk_, cols2, awtl2) :=
                if breaks_itself (av_type a0) then (false, cols1, awtl)
                else lb_check (linelength o) cols1 tmp awtl in
              if (brk_ || bb) && negb pend then None (* '\n' written in front of the buffer *)
              else
              let sepz := if brk_ then nl4 else if bb then [10] else if pend then [32] else [] in
              let wrt2 := wrt + tmp + (if brk_ then 4 else 0) in
              let inc := match cv with CYes _ k => k | _ => next_arg_offset args end in
              let i2 := i + inc in
              let acc2 := acc ++ sepz ++ t in
              let prev2 := nth_error args (Z.to_nat (inc - 1)) in
              if i2 <? n
              then print_vals_loop f o (skipz inc args) prev2 i2 n acc2 true (wrt2 + 1) (cols2 + 1) awtl2
              else print_vals_loop f o (skipz inc args) prev2 i2 n acc2 false wrt2 cols2 awtl2
          end
          end
      end
  end.

(* rtosc_print_arg_vals(args, n, buffer, bs, opt, cols_used) *)
Definition print_arg_vals (o : popts) (args : list av) (cols : Z) : option (str * Z) :=
  print_vals_loop (S (length args)) o args None 0 (Z.of_nat (length args)) [] false 0 cols
                  (if cols =? 0 then 0 else 1).

(* rtosc_print_message: "%s " then the values; the blank after the address
   is where last_sep points for the first value *)
Definition print_message (o : popts) (addr : str) (args : list av) (cols : Z) : option (str * Z) :=
  let w0 := len addr + 1 in
  let c0 := cols + w0 in
  match print_vals_loop (S (length args)) o args None 0 (Z.of_nat (length args)) addr true 0 c0
                        (if c0 =? 0 then 0 else 1) with
  | Some (t, w) =>
      (* nothing printed: the blank stays *)
      Some (if (Z.of_nat (length args) =? 0) then addr ++ [32] else t, w0 + w)
  | None => None
  end.

(* ---- Spec: the values a slot list stands for (finite ranges expanded, the
   filler the range conversion leaves behind dropped) --------------------------- *)
Fixpoint map_opt {A B} (f : A -> option B) (l : list A) : option (list B) :=
  match l with
  | [] => Some []
  | a :: r => match f a, map_opt f r with
              | Some b, Some t => Some (b :: t)
              | _, _ => None end
  end.

Fixpoint expand_f (fuel : nat) (l : list av) : option (list av) :=
  match fuel with
  | O => None
  | S f =>
      match l with
      | [] => Some []
      | VRep num hd :: r =>
          if num <=? 0 then None else
          if hd =? 0 then
            let k := Z.to_nat (incsize r) in
            match expand_f f (skipn k r) with
            | Some t => Some (concat (repeat (firstn k r) (Z.to_nat num)) ++ t)
            | None => None end
          else
            match r with
            | delta :: start :: r' =>
                match map_opt (fun j => range_arg delta start (Z.of_nat j)) (seq 0 (Z.to_nat num)),
                      expand_f f r' with
                | Some vs, Some t => Some (vs ++ t)
                | _, _ => None end
            | _ => None end
      | VSpc _ :: r => expand_f f r
      | v :: r => match expand_f f r with Some t => Some (v :: t) | None => None end
      end
  end.
Definition expand (l : list av) : option (list av) := expand_f (S (length l)) l.
