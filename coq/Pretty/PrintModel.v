(* C10 - model of the pretty printer (src/cpp/pretty-format.c:155-771):
   rtosc_print_arg_val per type, string and blob line breaking,
   linebreak_check_after_write, rtosc_print_arg_vals, rtosc_print_message.
   Every function returns the text it writes, the count the code returns
   (computed with the code's own arithmetic, not as the length of the text)
   and the new value of cols_used.  No proofs in this file. *)
From Coq Require Import List ZArith Bool.
From RtoscV Require Import Pretty.Tok Pretty.FloatFmt.
Import ListNotations.
Local Open Scope Z_scope.

Record popts := { lossless : bool; prec : Z; linelength : Z; compress : bool }.

Definition len (s : str) : Z := Z.of_nat (length s).

(* break_string writes  "\<newline>    "  and sets cols_used to 5 *)
Definition brk : str := [34; 92; 10; 32; 32; 32; 32; 34].
Definition nl4 : str := [10; 32; 32; 32; 32].

Definition reserved : list str :=
  [kw_true; kw_false; kw_nil; kw_inf; kw_now; kw_immediately; kw_MIDI; kw_BLOB].
Definition str_eqb (a b : str) : bool :=
  Nat.eqb (length a) (length b) && starts_with a b.
Definition is_reserved (s : str) : bool := existsb (str_eqb s) reserved.

(* "Symbol": are quotes required? *)
Definition sym_plain (s : str) : bool :=
  match s with
  | [] => false
  | c :: r => isidstart c && forallb isidchar r && negb (is_reserved s)
  end.

(* the loop over the characters of a string *)
Fixpoint print_chars (plain : bool) (ll : Z) (s : str) (cols : Z) : str * Z :=
  match s with
  | [] => ([], cols)
  | c :: s' =>
      let '(pre, cols1) := if negb plain && (ll - 3 <? cols) then (brk, 5) else ([], cols) in
      match as_escaped_char c false with
      | Some e =>
          let cols2 := cols1 + 2 in
          let '(post, cols3) := if negb plain && (e =? 110) then (brk, 5) else ([], cols2) in
          let '(r, cf) := print_chars plain ll s' cols3 in
          (pre ++ [92; e] ++ post ++ r, cf)
      | None =>
          let '(r, cf) := print_chars plain ll s' (cols1 + 1) in
          (pre ++ [c] ++ r, cf)
      end
  end.

Definition print_string (o : popts) (is_sym : bool) (s : str) (cols : Z) : str * Z :=
  let plain := is_sym && sym_plain s in
  if plain then print_chars true (linelength o) s cols
  else let '(body, c1) := print_chars false (linelength o) s (cols + 1) in
       (34 :: body ++ 34 :: (if is_sym then [83] else []), c1 + 1).

(* the blob loop: acc is the text so far (it ends with a blank) *)
Fixpoint blob_loop (ll : Z) (d : str) (acc : str) (wrt cols : Z) : str * Z * Z :=
  match d with
  | [] => (acc, wrt, cols)
  | b :: d' =>
      let '(acc1, wrt1, cols1) :=
        if ll - 6 <=? cols then (removelast acc ++ nl4, wrt + 4, 4) else (acc, wrt, cols) in
      blob_loop ll d' (acc1 ++ [48; 120] ++ hex2 b ++ [32]) (wrt1 + 5) (cols1 + 5)
  end.

Definition print_blob (o : popts) (d : str) (cols : Z) : str * Z * Z :=
  let head := kw_BLOB ++ [32; 91] ++ print_d (len d) ++ [32] in
  let '(t, wrt, c) := blob_loop (linelength o) d head (len head) (cols + len head) in
  (removelast t ++ [93], wrt, c).

Definition print_char (c : Z) : str :=
  match as_escaped_char c true with
  | Some e => [39; 92; e; 39]
  | None => [39; c; 39]
  end.

Definition print_midi (m0 m1 m2 m3 : Z) : str :=
  kw_MIDI ++ [32; 91; 48; 120] ++ hex2 m0 ++ [32; 48; 120] ++ hex2 m1 ++
  [32; 48; 120] ++ hex2 m2 ++ [32; 48; 120] ++ hex2 m3 ++ [93].

Definition print_rgba (v : Z) : str :=
  35 :: hex2 (v / 2 ^ 24 mod 256) ++ hex2 (v / 2 ^ 16 mod 256) ++
        hex2 (v / 2 ^ 8 mod 256) ++ hex2 (v mod 256).

(* rtosc_print_arg_val for the types that neither recurse nor call libc's
   floating point or calendar code: (text, returned count, cols_used) *)
Definition print_scalar (o : popts) (v : av) (cols : Z) : option (str * Z * Z) :=
  let simple t := Some (t, len t, cols + len t) in
  match v with
  | VT => simple kw_true
  | VF => simple kw_false
  | VN => simple kw_nil
  | VInf => simple kw_inf
  | VH h => simple (print_d h ++ [104])
  | VI i => simple (print_d i)
  | VC c => simple (print_char c)
  | VR r => simple (print_rgba r)
  | VM a b c d => simple (print_midi a b c d)
  | VS s => let '(t, c) := print_string o false s cols in Some (t, len t, c)
  | VSym s => let '(t, c) := print_string o true s cols in Some (t, len t, c)
  | VB d => Some (print_blob o d cols)
  | VFl b =>
      (* "%#.<prec>f" and, lossless, " (%a)"; glibc's %a has no trailing
         zeroes, remove_trailing_zeroes finds nothing to remove *)
      let d := f32_to_f64 b in
      simple (fmt_f (prec o) d ++ (if lossless o then [32; 40] ++ fmt_a d ++ [41] else []))
  | VD b =>
      simple (fmt_f (prec o) b ++ 100 :: (if lossless o then [32; 40] ++ fmt_a b ++ [41] else []))
  | _ => None
  end.

(* linebreak_check_after_write: (break?, cols_used, args_written_this_line) *)
Definition lb_check (ll cols inc awtl : Z) : bool * Z * Z :=
  let a1 := awtl + 1 in
  if (ll <? cols) && (1 <? a1) then (true, 4 + inc, 1) else (false, cols, a1).

(* strchr("-asb", type) *)
Definition breaks_itself (ty : Z) : bool :=
  (ty =? 45) || (ty =? 97) || (ty =? 115) || (ty =? 98).

(* next_arg_offset *)
Fixpoint next_arg_offset (l : list av) : Z :=
  match l with
  | VArr _ n :: _ => n + 1
  | VSpc n :: _ => n + 1
  | VRep _ hd :: r => 1 + next_arg_offset r + hd
  | _ => 1
  end.

Definition skipz {A} (n : Z) (l : list A) : list A := skipn (Z.to_nat n) l.

(* rtosc_print_arg_val on the slot sequence starting at the argument *)
Definition print_arg_val (o : popts) (args : list av) (cols : Z) (prev : option av)
  : option (str * Z * Z) :=
  match args with
  | v :: _ => print_scalar o v cols
  | [] => None
  end.

(* rtosc_convert_to_range: None = 0 (no conversion), Some (converted, skipped) *)
Definition convert_to_range (o : popts) (args : list av) (size : Z) : option (list av * Z) :=
  None.

(* the loop of rtosc_print_arg_vals.  acc = text written so far without the
   pending separator, pend = a separator has been written at last_sep
   (pend = false: last_sep is buffer-1, outside the text) *)
Fixpoint print_vals_loop (fuel : nat) (o : popts) (args : list av) (prev : option av)
         (i n : Z) (acc : str) (pend : bool) (wrt cols awtl : Z) : option (str * Z) :=
  match fuel with
  | O => None
  | S f =>
      if n <=? i then Some (acc, wrt) else
      match args with
      | [] => None
      | a0 :: _ =>
          let conv := convert_to_range o args (n - i) in
          let input := match conv with Some (c, _) => c | None => args end in
          match print_arg_val o input cols prev with
          | None => None
          | Some (t, tmp, cols1) =>
              let '(brk_, cols2, awtl2) :=
                if breaks_itself (av_type a0) then (false, cols1, awtl)
                else lb_check (linelength o) cols1 tmp awtl in
              if brk_ && negb pend then None (* '\n' written in front of the buffer *)
              else
              let sepz := if brk_ then nl4 else if pend then [32] else [] in
              let wrt2 := wrt + tmp + (if brk_ then 4 else 0) in
              let inc := match conv with Some (_, k) => k | None => next_arg_offset args end in
              let i2 := i + inc in
              let acc2 := acc ++ sepz ++ t in
              let prev2 := nth_error args (Z.to_nat (inc - 1)) in
              if i2 <? n
              then print_vals_loop f o (skipz inc args) prev2 i2 n acc2 true (wrt2 + 1) (cols2 + 1) awtl2
              else print_vals_loop f o (skipz inc args) prev2 i2 n acc2 false wrt2 cols2 awtl2
          end
      end
  end.

(* rtosc_print_arg_vals(args, n, buffer, bs, opt, cols_used) *)
Definition print_arg_vals (o : popts) (args : list av) (cols : Z) : option (str * Z) :=
  print_vals_loop (S (length args)) o args None 0 (Z.of_nat (length args)) [] false 0 cols
                  (if cols =? 0 then 0 else 1).

(* rtosc_print_message: "%s " then the values; the blank after the address
   is where last_sep points for the first value *)
Definition print_message (o : popts) (addr : str) (args : list av) (cols : Z) : option (str * Z) :=
  let w0 := len addr + 1 in
  let c0 := cols + w0 in
  match print_vals_loop (S (length args)) o args None 0 (Z.of_nat (length args)) addr true 0 c0
                        (if c0 =? 0 then 0 else 1) with
  | Some (t, w) =>
      (* nothing printed: the blank stays *)
      Some (if (Z.of_nat (length args) =? 0) then addr ++ [32] else t, w0 + w)
  | None => None
  end.
