(* C10 - the printer model is total on the lists of the round-trip theorems:
   rtosc_convert_to_range never takes a path the model does not cover, every
   value is printed, and the first value never needs a line break in front of
   the buffer.  So the hypothesis "print_arg_vals ... = Some _" of
   C10_roundtrip_any_partial holds for every such list. *)
From Coq Require Import List ZArith Bool Lia.
From RtoscV Require Import Pretty.Tok Pretty.FloatFmt Pretty.PrintModel Pretty.ScanModel
  Pretty.PrettyProofs Pretty.RangeProofs Pretty.RunProofs Pretty.FloatProofs Pretty.ListProofs Pretty.ArrayProofs
  Pretty.MixedProofs Pretty.MixedPrint.
Import ListNotations.
Local Open Scope Z_scope.

(* ------------------------------------------------------------------------- *)
(* Part 1: the range conversion on a list that starts with a value            *)
Lemma av_eq_total a b : scalar a -> scalar b -> exists e, av_eq_single a b = Some e.
Proof. destruct a, b; cbn [scalar]; intros Ha Hb; try contradiction; cbn [av_eq_single]; eauto. Qed.

Lemma same_type_scalar a b : scalar a -> sa b -> av_type b = av_type a -> scalar b.
Proof. destruct a, b; cbn; intros Ha Hb E; try contradiction; try exact I; discriminate. Qed.

Lemma count_common_single fuel ty a0 size : scalar a0 -> count_common fuel ty [a0] 0 size 0 <= 1.
Proof.
  intros Hs. destruct fuel as [|[|f]]; cbn [count_common]; try lia.
  - destruct (size <=? 0); [lia|]. destruct (av_type a0 =? ty); lia.
  - destruct (size <=? 0); [lia|]. destruct (av_type a0 =? ty); [|lia].
    rewrite (incsize_scalar a0 [] Hs). change (skipz 1 [a0]) with (@nil av). destruct (size <=? 0 + 1); lia.
Qed.

Lemma fits_mk' k d x a t :
  range_step_fits (mk k x) (mk k a) (mk k t) (mk k d) =
  Some ((cmp3 t a =? cmp3 d 0) && (cmp3 (wr k (t - x)) 0 =? cmp3 d 0)).
Proof. destruct k; reflexivity. Qed.

Section ConvTotal.
Variables zf zd : Z.
Hypothesis Hz : zchoice zf zd.
Variable args : list av.
Hypothesis Hsc : Forall sa args.
Hypothesis Hin : Forall (inrv zf zd) args.

Lemma run_loop_delta_total k d x size : forall fuel s,
  nth_error args 0 = Some (mk k x) -> (1 <= s)%nat -> chained args k d x s ->
  Z.of_nat s < size <= Z.of_nat (length args) -> (length args <= fuel + s)%nat ->
  run_loop fuel args size true (mk k d) (Z.of_nat s) (Z.of_nat s) <> None.
Proof.
  induction fuel as [|fuel IH]; intros s Hx0 Hs Hch Hsz Hf; [lia|].
  cbn [run_loop].
  destruct (Hch (s - 1)%nat ltac:(lia)) as (a0 & _ & Ha & _). replace (S (s - 1)) with s in Ha by lia.
  rewrite skipz_nth, (incsize_skipn args s _ Ha ltac:(now destruct k)).
  set (a := wr k (a0 + d)) in *.
  rewrite (skipn_hd args s), Ha, add_mk.
  destruct (size <=? Z.of_nat s + 1) eqn:Esz; [discriminate|].
  replace (Z.of_nat s + 1) with (Z.of_nat (S s)) by lia. rewrite skipz_nth.
  rewrite (skipn_hd args (S s)).
  destruct (nth_error args (S s)) as [z|] eqn:Ez.
  2:{ apply nth_error_None in Ez. lia. }
  assert (Hzs : sa z) by (eapply Forall_forall; [exact Hsc|]; eapply nth_error_In; exact Ez).
  rewrite (elem_eq_mk k _ z _ Hzs).
  destruct (av_type (mk k (wr k (a + d))) =? av_type z) eqn:Et; [|discriminate].
  apply Z.eqb_eq in Et. symmetry in Et. destruct (type_mk_inj' _ _ _ Et) as (b & ->).
  rewrite eq_mk. destruct (wr k (a + d) =? b) eqn:Eb; [|discriminate].
  apply Z.eqb_eq in Eb. subst b.
  destruct args as [|h0 t0] eqn:Eargs; [discriminate|]. cbn in Hx0. inversion Hx0; subst h0.
  rewrite <- Eargs in *.
  rewrite (fits_mk' k d x a (wr k (a + d))).
  destruct ((cmp3 (wr k (a + d)) a =? cmp3 d 0) && (cmp3 (wr k (wr k (a + d) - x)) 0 =? cmp3 d 0)) eqn:Ef; [|discriminate].
  replace (Z.of_nat (S s)) with (Z.of_nat s + 1) by lia.
  replace (Z.of_nat s + 1) with (Z.of_nat (S s)) by lia.
  apply IH; [rewrite Eargs; reflexivity|lia| |lia|lia].
  intros j Hj. destruct (Nat.eq_dec j s) as [->|Hne].
  - exists a. split; [exact Ha|]. split; [exact Ez|]. rewrite (fits_mk' k d x a (wr k (a + d))). now rewrite Ef.
  - apply Hch. lia.
Qed.

Lemma run_loop_const_total size a0 dl : forall fuel s,
  exact a0 -> nth_error args 0 = Some a0 -> (1 <= s)%nat -> const_run args a0 s ->
  Z.of_nat s < size <= Z.of_nat (length args) -> (length args <= fuel + s)%nat ->
  run_loop fuel args size false dl (Z.of_nat s) (Z.of_nat s) <> None.
Proof.
  induction fuel as [|fuel IH]; intros s Hex H0 Hs Hch Hsz Hf; [lia|].
  cbn [run_loop].
  assert (Hs0 : scalar a0) by (apply exact_scalar; exact Hex).
  rewrite skipz_nth, (incsize_skipn args s a0 (Hch s (Nat.le_refl s)) Hs0).
  destruct (size <=? Z.of_nat s + 1) eqn:Esz; [discriminate|].
  replace (Z.of_nat s + 1) with (Z.of_nat (S s)) by lia. rewrite skipz_nth.
  rewrite (skipn_hd args (S s)).
  destruct args as [|x rest] eqn:Ea; [discriminate|]. cbn in H0. inversion H0; subst x. rewrite <- Ea in *.
  destruct (nth_error args (S s)) as [z|] eqn:Ez.
  2:{ apply nth_error_None in Ez. lia. }
  assert (Hzs : sa z) by (eapply Forall_forall; [exact Hsc|]; eapply nth_error_In; exact Ez).
  rewrite Ea at 1. rewrite (elem_eq_exact a0 z rest _ Hex Hzs).
  destruct (av_type a0 =? av_type z) eqn:Et; [|discriminate].
  apply Z.eqb_eq in Et.
  destruct (av_eq_total a0 z Hs0 (same_type_scalar a0 z Hs0 Hzs (eq_sym Et))) as [e Ee]. rewrite Ee.
  destruct e; [|discriminate].
  replace (Z.of_nat (S s)) with (Z.of_nat s + 1) by lia.
  replace (Z.of_nat s + 1) with (Z.of_nat (S s)) by lia.
  apply IH; try assumption; try lia; [rewrite Ea; reflexivity|].
  intros j Hj. destruct (Nat.eq_dec j (S s)) as [->|Hne]; [|apply Hch; lia].
  rewrite Ez. f_equal.
  apply (eq_exact zf zd (proj1 Hz) (proj2 Hz) a0 z Hex); [| |exact Ee].
  - eapply Forall_forall; [exact Hin|]. rewrite Ea. now left.
  - eapply Forall_forall; [exact Hin|]. eapply nth_error_In. exact Ez.
Qed.
End ConvTotal.

Lemma conv_total_scalar zf zd o a0 rest size :
  zchoice zf zd -> exact a0 -> Forall sa rest -> Forall (inrv zf zd) (a0 :: rest) ->
  size <= Z.of_nat (length (a0 :: rest)) -> convert_to_range o (a0 :: rest) size <> CUnmod.
Proof.
  intros Hz Hex Hsr Hin Hsz. unfold convert_to_range.
  destruct (size <? 5) eqn:E5; [discriminate|]. apply Z.ltb_ge in E5. cbn [orb].
  destruct ((hd_type (a0 :: rest) =? 45) || negb (compress o)); [discriminate|].
  destruct (count_common (length (a0 :: rest)) (hd_type (a0 :: rest)) (a0 :: rest) 0 size 0 <? 5) eqn:Ecc; [discriminate|].
  apply Z.ltb_ge in Ecc. cbn [hd_type] in *.
  assert (Hs0 : scalar a0) by (apply exact_scalar; exact Hex).
  assert (Hsa : Forall sa (a0 :: rest)) by (constructor; [now apply scalar_sa|exact Hsr]).
  rewrite (incsize_scalar a0 rest Hs0). change (skipz 1 (a0 :: rest)) with rest.
  destruct rest as [|a1 r'].
  { exfalso. pose proof (count_common_single (length [a0]) (av_type a0) a0 size Hs0). lia. }
  assert (Hty : av_type a1 = av_type a0).
  { destruct (Z.eq_dec (av_type a1) (av_type a0)) as [E|E]; [exact E|exfalso].
    pose proof (count_common_second (length (a0 :: a1 :: r')) (av_type a0) a0 a1 r' size Hs0 E). lia. }
  assert (Hsa1 : sa a1) by (inversion Hsr; assumption).
  assert (Hs1 : scalar a1) by (exact (same_type_scalar a0 a1 Hs0 Hsa1 Hty)).
  rewrite (elem_eq_exact a0 a1 (a1 :: r') r' Hex Hsa1). rewrite Hty, Z.eqb_refl.
  destruct (av_eq_total a0 a1 Hs0 Hs1) as [e Ee]. rewrite Ee.
  assert (Hi0 : inrv zf zd a0) by now inversion Hin.
  assert (Hi1 : inrv zf zd a1) by (inversion Hin as [|? ? _ Hr]; subst; now inversion Hr).
  set (args := a0 :: a1 :: r') in *.
  assert (H0 : nth_error args 0 = Some a0) by reflexivity.
  assert (E1 : nth_error args 1 = Some a1) by reflexivity.
  destruct e.
  - (* a constant run *)
    cbn [negb andb]. cbv iota.
    assert (Ha1 : a1 = a0).
    { exact (eq_exact zf zd (proj1 Hz) (proj2 Hz) a0 a1 Hex Hi0 Hi1 Ee). }
    destruct (run_loop (length args) args size false VN 1 1) as [[skipped nc]|] eqn:Er.
    + destruct (nc <? 5); discriminate.
    + exfalso. revert Er. apply (run_loop_const_total zf zd Hz args Hsa Hin size a0 VN (length args) 1 Hex H0 ltac:(lia)).
      * intros j Hj. destruct j as [|[|j]]; [exact H0|rewrite E1, Ha1; reflexivity|lia].
      * lia.
      * lia.
  - (* a run with a step *)
    cbn [negb andb].
    destruct (range_convertible (av_type a0)) eqn:Erc; [|discriminate]. cbn [negb]. cbv iota.
    destruct (exact_kind a0 Hex Erc) as [(k & x & ->)|[->| ->]].
    + destruct (type_mk_inj' k x a1 Hty) as (y & ->).
      rewrite sub_mk. rewrite fits_mk'.
      destruct ((cmp3 y x =? cmp3 (wr k (y - x)) 0) && (cmp3 (wr k (y - x)) 0 =? cmp3 (wr k (y - x)) 0)) eqn:Ef0; [|discriminate].
      destruct (run_loop (length args) args size true (mk k (wr k (y - x))) 1 1) as [[skipped nc]|] eqn:Er.
      * destruct (nc <? 5); discriminate.
      * exfalso. revert Er.
        assert (Hx : inr k x) by (exact (inrv_mk zf zd (proj1 Hz) (proj2 Hz) k x Hi0)).
        assert (Hy : inr k y) by (exact (inrv_mk zf zd (proj1 Hz) (proj2 Hz) k y Hi1)).
        assert (Hyx : wr k (x + wr k (y - x)) = y)
          by (rewrite wr_add_r; replace (x + (y - x)) with y by lia; now apply wr_id).
        apply (run_loop_delta_total zf zd args Hsa Hin k (wr k (y - x)) x size (length args) 1 H0 ltac:(lia)).
        -- intros j Hj. assert (j = 0)%nat by lia. subst j. exists x. split; [exact H0|].
           rewrite Hyx. split; [exact E1|]. rewrite fits_mk'. now rewrite Ef0.
        -- lia.
        -- lia.
    + destruct a1; cbn in Hs1, Ee, Hty; try contradiction; discriminate.
    + destruct a1; cbn in Hs1, Ee, Hty; try contradiction; discriminate.
Qed.

(* ------------------------------------------------------------------------- *)
(* Part 2: the range conversion on a list that starts with an array           *)
Lemma all_eq_total : forall a e, Forall scalar a -> Forall scalar e -> exists b, all_eq a e = Some b.
Proof.
  induction a as [|x a IH]; intros e Ha He; destruct e as [|y e]; cbn [all_eq]; eauto.
  destruct (av_eq_total x y (Forall_inv Ha) (Forall_inv He)) as [b Eb]. rewrite Eb.
  destruct b; [|eauto]. exact (IH e (Forall_inv_tail Ha) (Forall_inv_tail He)).
Qed.

Section ConvArrTotal.
Variable o : popts.
Variables zf zd : Z.
Hypothesis Hz : zchoice zf zd.
Variable es : list av.
Hypothesis Hes : Forall (goodc o zf zd) es.
Notation N := (S (length es)).

Lemma goodc_scalars l : Forall (goodc o zf zd) l -> Forall scalar l.
Proof. intros H. eapply Forall_impl; [|exact H]. intros a Ha. apply (goodc_facts o zf zd a Ha). Qed.

Lemma run_loop_arrs_total dl size : forall f t0 tl rest,
  Forall (goodt o zf zd) rest ->
  size <= Z.of_nat (length (flat (arrs es (t0 :: tl) ++ rest))) -> tl <> [] -> (length rest < f)%nat ->
  run_loop f (flat (arrs es (t0 :: tl) ++ rest)) size false dl
           (Z.of_nat ((length tl) * N)) (Z.of_nat (length tl)) <> None.
Proof.
  induction f as [|f IH]; intros t0 tl rest Hgr Hsz Hne Hf; [lia|].
  cbn [run_loop].
  destruct (exists_last Hne) as (tl0 & tlast & Etl).
  set (args := flat (arrs es (t0 :: tl) ++ rest)) in *.
  assert (Hcur : skipz (Z.of_nat (length tl * N)) args = flat (TA tlast es :: rest)).
  { unfold skipz. rewrite Nat2Z.id. unfold args. rewrite Etl.
    replace (arrs es (t0 :: tl0 ++ [tlast]) ++ rest) with (arrs es (t0 :: tl0) ++ (TA tlast es :: rest))
      by (unfold arrs; rewrite app_comm_cons, map_app; cbn [map]; rewrite <- app_assoc; reflexivity).
    replace (length (tl0 ++ [tlast])) with (length (t0 :: tl0)) by (rewrite app_length; cbn [length]; lia).
    apply skip_blocks. }
  rewrite Hcur.
  assert (Hinc : incsize (flat (TA tlast es :: rest)) = Z.of_nat N)
    by (unfold flat; cbn [map concat tv_flat app incsize]; lia).
  rewrite Hinc.
  replace (Z.of_nat (length tl * N) + Z.of_nat N) with (Z.of_nat (S (length tl) * N)) by lia.
  destruct (size <=? Z.of_nat (S (length tl) * N)) eqn:Esz; [discriminate|].
  assert (Hnext : skipz (Z.of_nat (S (length tl) * N)) args = flat rest).
  { unfold skipz. rewrite Nat2Z.id. unfold args.
    replace (S (length tl)) with (length (t0 :: tl)) by reflexivity. apply skip_blocks. }
  rewrite Hnext.
  assert (Hargs : args = flat (TA t0 es :: arrs es tl ++ rest)) by reflexivity.
  rewrite Hargs at 1.
  destruct rest as [|[v|ty e] rest'].
  - exfalso. apply Z.leb_gt in Esz. unfold args in Hsz. rewrite app_nil_r in Hsz.
    assert (Hbl : forall l, length (flat (arrs es l)) = (length l * N)%nat).
    { clear. intros l. induction l as [|t l IHl]; [reflexivity|].
      change (arrs es (t :: l)) with (TA t es :: arrs es l).
      unfold flat in *. cbn [map concat tv_flat length]. rewrite app_length, IHl. cbn [length]. lia. }
    rewrite (Hbl (t0 :: tl)) in Hsz. cbn [length] in *. lia.
  - pose proof (Forall_inv Hgr) as Hv. cbn [goodt] in Hv.
    rewrite (elem_eq_arr_val es t0 _ v rest' (proj1 (goodc_facts o zf zd v Hv))). discriminate.
  - rewrite elem_eq_arr.
    pose proof (Forall_inv Hgr) as [Hge _].
    destruct (negb (types_match t0 ty)); [discriminate|].
    destruct (negb (Z.of_nat (length es) =? Z.of_nat (length e))); [discriminate|].
    destruct (all_eq_total es e (goodc_scalars es Hes) (goodc_scalars e Hge)) as [b Eb]. rewrite Eb.
    destruct b; [|discriminate].
    apply (all_eq_same o zf zd Hz es e Hes Hge) in Eb. subst e.
    replace (Z.of_nat (length tl) + 1) with (Z.of_nat (length (tl ++ [ty]))) by (rewrite app_length; cbn [length]; lia).
    replace (S (length tl)) with (length (tl ++ [ty])) by (rewrite app_length; cbn [length]; lia).
    assert (Ea : args = flat (arrs es (t0 :: tl ++ [ty]) ++ rest')).
    { unfold args, arrs. rewrite app_comm_cons, map_app. cbn [map]. now rewrite <- app_assoc. }
    rewrite Ea. apply IH.
    + exact (Forall_inv_tail Hgr).
    + rewrite <- Ea. exact Hsz.
    + intros E. apply app_eq_nil in E as [_ E]. discriminate.
    + cbn [length] in Hf. lia.
Qed.

Lemma conv_array_total ty tvs size :
  Forall (goodt o zf zd) tvs -> size <= Z.of_nat (length (flat (TA ty es :: tvs))) ->
  convert_to_range o (flat (TA ty es :: tvs)) size <> CUnmod.
Proof.
  intros Hg Hsz. unfold convert_to_range.
  destruct ((size <? 5) || (hd_type (flat (TA ty es :: tvs)) =? 45) || negb (compress o)); [discriminate|].
  change (hd_type (flat (TA ty es :: tvs))) with 97.
  destruct (count_common (length (flat (TA ty es :: tvs))) 97 (flat (TA ty es :: tvs)) 0 size 0 <? 5) eqn:Ecc;
    [discriminate|].
  apply Z.ltb_ge in Ecc.
  assert (Hg' : Forall tsok (TA ty es :: tvs))
    by (constructor; [exact I|eapply Forall_impl; [|exact Hg]; exact (goodt_tsok o zf zd)]).
  pose proof (cc_le (length (flat (TA ty es :: tvs))) (TA ty es :: tvs) 0 size 0 Hg') as Hle.
  cbn [lead] in Hle.
  destruct tvs as [|[v|t2 e2] tvs2]; try (cbn [lead] in Hle; lia).
  rewrite skip_block. rewrite elem_eq_arr.
  assert (Hinc : incsize (flat (TA ty es :: TA t2 e2 :: tvs2)) = Z.of_nat N)
    by (unfold flat; cbn [map concat tv_flat app incsize]; lia).
  rewrite Hinc.
  pose proof (Forall_inv Hg) as [Hge2 _].
  destruct (all_eq_total es e2 (goodc_scalars es Hes) (goodc_scalars e2 Hge2)) as [b Eb].
  destruct (if negb (types_match ty t2) then Some false
            else if negb (Z.of_nat (length es) =? Z.of_nat (length e2)) then Some false else all_eq es e2)
    as [[|]|] eqn:Ee.
  3: { destruct (negb (types_match ty t2)); [discriminate|].
       destruct (negb (Z.of_nat (length es) =? Z.of_nat (length e2))); [discriminate|]. congruence. }
  2: { cbn [negb andb]. change (range_convertible 97) with false. cbn [negb]. discriminate. }
  assert (e2 = es).
  { destruct (negb (types_match ty t2)); [discriminate|].
    destruct (negb (Z.of_nat (length es) =? Z.of_nat (length e2))); [discriminate|].
    exact (all_eq_same o zf zd Hz es e2 Hes Hge2 Ee). }
  subst e2. cbn [negb andb]. cbv iota.
  destruct (run_loop (length (flat (TA ty es :: TA t2 es :: tvs2))) (flat (TA ty es :: TA t2 es :: tvs2)) size false VN
              (Z.of_nat N) 1) as [[skipped nc]|] eqn:Er.
  - destruct (nc <? 5); discriminate.
  - exfalso. revert Er.
    change (flat (TA ty es :: TA t2 es :: tvs2)) with (flat (arrs es (ty :: [t2]) ++ tvs2)).
    replace (Z.of_nat N) with (Z.of_nat (length [t2] * N)) by (cbn [length]; lia).
    change 1 with (Z.of_nat (length [t2])).
    apply run_loop_arrs_total; [exact (Forall_inv_tail Hg)|exact Hsz|discriminate|].
    pose proof (flat_len tvs2).
    change (flat (arrs es [ty; t2] ++ tvs2)) with (flat (TA ty es :: TA t2 es :: tvs2)).
    change (flat (TA ty es :: TA t2 es :: tvs2)) with (VArr ty (Z.of_nat (length es)) :: es ++ VArr t2 (Z.of_nat (length es)) :: es ++ flat tvs2).
    cbn [length]. rewrite app_length. cbn [length]. rewrite app_length. lia.
Qed.
End ConvArrTotal.
