(* C10 - the printer model is total on the lists of the round-trip theorems:
   rtosc_convert_to_range never takes a path the model does not cover, every
   value is printed, and the first value never needs a line break in front of
   the buffer.  So the hypothesis "print_arg_vals ... = Some _" of
   C10_roundtrip_any_partial holds for every such list. *)
From Coq Require Import List ZArith Bool Lia.
From RtoscV Require Import Pretty.Tok Pretty.FloatFmt Pretty.PrintModel Pretty.ScanModel
  Pretty.PrettyProofs Pretty.RangeProofs Pretty.RunProofs Pretty.FloatProofs Pretty.ListProofs Pretty.ArrayProofs
  Pretty.MixedProofs Pretty.MixedPrint.
Import ListNotations.
Local Open Scope Z_scope.

(* ------------------------------------------------------------------------- *)
(* Part 1: the range conversion on a list that starts with a value            *)
Lemma av_eq_total a b : scalar a -> scalar b -> exists e, av_eq_single a b = Some e.
Proof. destruct a, b; cbn [scalar]; intros Ha Hb; try contradiction; cbn [av_eq_single]; eauto. Qed.

Lemma same_type_scalar a b : scalar a -> sa b -> av_type b = av_type a -> scalar b.
Proof. destruct a, b; cbn; intros Ha Hb E; try contradiction; try exact I; discriminate. Qed.

Lemma count_common_single fuel ty a0 size : scalar a0 -> count_common fuel ty [a0] 0 size 0 <= 1.
Proof.
  intros Hs. destruct fuel as [|[|f]]; cbn [count_common]; try lia.
  - destruct (size <=? 0); [lia|]. destruct (av_type a0 =? ty); lia.
  - destruct (size <=? 0); [lia|]. destruct (av_type a0 =? ty); [|lia].
    rewrite (incsize_scalar a0 [] Hs). change (skipz 1 [a0]) with (@nil av). destruct (size <=? 0 + 1); lia.
Qed.

Lemma fits_mk' k d x a t :
  range_step_fits (mk k x) (mk k a) (mk k t) (mk k d) =
  Some ((cmp3 t a =? cmp3 d 0) && (cmp3 (wr k (t - x)) 0 =? cmp3 d 0)).
Proof. destruct k; reflexivity. Qed.

Section ConvTotal.
Variables zf zd : Z.
Hypothesis Hz : zchoice zf zd.
Variable args : list av.
Hypothesis Hsc : Forall sa args.
Hypothesis Hin : Forall (inrv zf zd) args.

Lemma run_loop_delta_total k d x size : forall fuel s,
  nth_error args 0 = Some (mk k x) -> (1 <= s)%nat -> chained args k d x s ->
  Z.of_nat s < size <= Z.of_nat (length args) -> (length args <= fuel + s)%nat ->
  run_loop fuel args size true (mk k d) (Z.of_nat s) (Z.of_nat s) <> None.
Proof.
  induction fuel as [|fuel IH]; intros s Hx0 Hs Hch Hsz Hf; [lia|].
  cbn [run_loop].
  destruct (Hch (s - 1)%nat ltac:(lia)) as (a0 & _ & Ha & _). replace (S (s - 1)) with s in Ha by lia.
  rewrite skipz_nth, (incsize_skipn args s _ Ha ltac:(now destruct k)).
  set (a := wr k (a0 + d)) in *.
  rewrite (skipn_hd args s), Ha, add_mk.
  destruct (size <=? Z.of_nat s + 1) eqn:Esz; [discriminate|].
  replace (Z.of_nat s + 1) with (Z.of_nat (S s)) by lia. rewrite skipz_nth.
  rewrite (skipn_hd args (S s)).
  destruct (nth_error args (S s)) as [z|] eqn:Ez.
  2:{ apply nth_error_None in Ez. lia. }
  assert (Hzs : sa z) by (eapply Forall_forall; [exact Hsc|]; eapply nth_error_In; exact Ez).
  rewrite (elem_eq_mk k _ z _ Hzs).
  destruct (av_type (mk k (wr k (a + d))) =? av_type z) eqn:Et; [|discriminate].
  apply Z.eqb_eq in Et. symmetry in Et. destruct (type_mk_inj' _ _ _ Et) as (b & ->).
  rewrite eq_mk. destruct (wr k (a + d) =? b) eqn:Eb; [|discriminate].
  apply Z.eqb_eq in Eb. subst b.
  destruct args as [|h0 t0] eqn:Eargs; [discriminate|]. cbn in Hx0. inversion Hx0; subst h0.
  rewrite <- Eargs in *.
  rewrite (fits_mk' k d x a (wr k (a + d))).
  destruct ((cmp3 (wr k (a + d)) a =? cmp3 d 0) && (cmp3 (wr k (wr k (a + d) - x)) 0 =? cmp3 d 0)) eqn:Ef; [|discriminate].
  replace (Z.of_nat (S s)) with (Z.of_nat s + 1) by lia.
  replace (Z.of_nat s + 1) with (Z.of_nat (S s)) by lia.
  apply IH; [rewrite Eargs; reflexivity|lia| |lia|lia].
  intros j Hj. destruct (Nat.eq_dec j s) as [->|Hne].
  - exists a. split; [exact Ha|]. split; [exact Ez|]. rewrite (fits_mk' k d x a (wr k (a + d))). now rewrite Ef.
  - apply Hch. lia.
Qed.

Lemma run_loop_const_total size a0 dl : forall fuel s,
  exact a0 -> nth_error args 0 = Some a0 -> (1 <= s)%nat -> const_run args a0 s ->
  Z.of_nat s < size <= Z.of_nat (length args) -> (length args <= fuel + s)%nat ->
  run_loop fuel args size false dl (Z.of_nat s) (Z.of_nat s) <> None.
Proof.
  induction fuel as [|fuel IH]; intros s Hex H0 Hs Hch Hsz Hf; [lia|].
  cbn [run_loop].
  assert (Hs0 : scalar a0) by (apply exact_scalar; exact Hex).
  rewrite skipz_nth, (incsize_skipn args s a0 (Hch s (Nat.le_refl s)) Hs0).
  destruct (size <=? Z.of_nat s + 1) eqn:Esz; [discriminate|].
  replace (Z.of_nat s + 1) with (Z.of_nat (S s)) by lia. rewrite skipz_nth.
  rewrite (skipn_hd args (S s)).
  destruct args as [|x rest] eqn:Ea; [discriminate|]. cbn in H0. inversion H0; subst x. rewrite <- Ea in *.
  destruct (nth_error args (S s)) as [z|] eqn:Ez.
  2:{ apply nth_error_None in Ez. lia. }
  assert (Hzs : sa z) by (eapply Forall_forall; [exact Hsc|]; eapply nth_error_In; exact Ez).
  rewrite Ea at 1. rewrite (elem_eq_exact a0 z rest _ Hex Hzs).
  destruct (av_type a0 =? av_type z) eqn:Et; [|discriminate].
  apply Z.eqb_eq in Et.
  destruct (av_eq_total a0 z Hs0 (same_type_scalar a0 z Hs0 Hzs (eq_sym Et))) as [e Ee]. rewrite Ee.
  destruct e; [|discriminate].
  replace (Z.of_nat (S s)) with (Z.of_nat s + 1) by lia.
  replace (Z.of_nat s + 1) with (Z.of_nat (S s)) by lia.
  apply IH; try assumption; try lia; [rewrite Ea; reflexivity|].
  intros j Hj. destruct (Nat.eq_dec j (S s)) as [->|Hne]; [|apply Hch; lia].
  rewrite Ez. f_equal.
  apply (eq_exact zf zd (proj1 Hz) (proj2 Hz) a0 z Hex); [| |exact Ee].
  - eapply Forall_forall; [exact Hin|]. rewrite Ea. now left.
  - eapply Forall_forall; [exact Hin|]. eapply nth_error_In. exact Ez.
Qed.
End ConvTotal.

Lemma conv_total_scalar zf zd o a0 rest size :
  zchoice zf zd -> exact a0 -> Forall sa rest -> Forall (inrv zf zd) (a0 :: rest) ->
  size <= Z.of_nat (length (a0 :: rest)) -> convert_to_range o (a0 :: rest) size <> CUnmod.
Proof.
  intros Hz Hex Hsr Hin Hsz. unfold convert_to_range.
  destruct (size <? 5) eqn:E5; [discriminate|]. apply Z.ltb_ge in E5. cbn [orb].
  destruct ((hd_type (a0 :: rest) =? 45) || negb (compress o)); [discriminate|].
  destruct (count_common (length (a0 :: rest)) (hd_type (a0 :: rest)) (a0 :: rest) 0 size 0 <? 5) eqn:Ecc; [discriminate|].
  apply Z.ltb_ge in Ecc. cbn [hd_type] in *.
  assert (Hs0 : scalar a0) by (apply exact_scalar; exact Hex).
  assert (Hsa : Forall sa (a0 :: rest)) by (constructor; [now apply scalar_sa|exact Hsr]).
  rewrite (incsize_scalar a0 rest Hs0). change (skipz 1 (a0 :: rest)) with rest.
  destruct rest as [|a1 r'].
  { exfalso. pose proof (count_common_single (length [a0]) (av_type a0) a0 size Hs0). lia. }
  assert (Hty : av_type a1 = av_type a0).
  { destruct (Z.eq_dec (av_type a1) (av_type a0)) as [E|E]; [exact E|exfalso].
    pose proof (count_common_second (length (a0 :: a1 :: r')) (av_type a0) a0 a1 r' size Hs0 E). lia. }
  assert (Hsa1 : sa a1) by (inversion Hsr; assumption).
  assert (Hs1 : scalar a1) by (exact (same_type_scalar a0 a1 Hs0 Hsa1 Hty)).
  rewrite (elem_eq_exact a0 a1 (a1 :: r') r' Hex Hsa1). rewrite Hty, Z.eqb_refl.
  destruct (av_eq_total a0 a1 Hs0 Hs1) as [e Ee]. rewrite Ee.
  assert (Hi0 : inrv zf zd a0) by now inversion Hin.
  assert (Hi1 : inrv zf zd a1) by (inversion Hin as [|? ? _ Hr]; subst; now inversion Hr).
  set (args := a0 :: a1 :: r') in *.
  assert (H0 : nth_error args 0 = Some a0) by reflexivity.
  assert (E1 : nth_error args 1 = Some a1) by reflexivity.
  destruct e.
  - (* a constant run *)
    cbn [negb andb]. cbv iota.
    assert (Ha1 : a1 = a0).
    { exact (eq_exact zf zd (proj1 Hz) (proj2 Hz) a0 a1 Hex Hi0 Hi1 Ee). }
    destruct (run_loop (length args) args size false VN 1 1) as [[skipped nc]|] eqn:Er.
    + destruct (nc <? 5); discriminate.
    + exfalso. revert Er. apply (run_loop_const_total zf zd Hz args Hsa Hin size a0 VN (length args) 1 Hex H0 ltac:(lia)).
      * intros j Hj. destruct j as [|[|j]]; [exact H0|rewrite E1, Ha1; reflexivity|lia].
      * lia.
      * lia.
  - (* a run with a step *)
    cbn [negb andb].
    destruct (range_convertible (av_type a0)) eqn:Erc; [|discriminate]. cbn [negb]. cbv iota.
    destruct (exact_kind a0 Hex Erc) as [(k & x & ->)|[->| ->]].
    + destruct (type_mk_inj' k x a1 Hty) as (y & ->).
      rewrite sub_mk. rewrite fits_mk'.
      destruct ((cmp3 y x =? cmp3 (wr k (y - x)) 0) && (cmp3 (wr k (y - x)) 0 =? cmp3 (wr k (y - x)) 0)) eqn:Ef0; [|discriminate].
      destruct (run_loop (length args) args size true (mk k (wr k (y - x))) 1 1) as [[skipped nc]|] eqn:Er.
      * destruct (nc <? 5); discriminate.
      * exfalso. revert Er.
        assert (Hx : inr k x) by (exact (inrv_mk zf zd (proj1 Hz) (proj2 Hz) k x Hi0)).
        assert (Hy : inr k y) by (exact (inrv_mk zf zd (proj1 Hz) (proj2 Hz) k y Hi1)).
        assert (Hyx : wr k (x + wr k (y - x)) = y)
          by (rewrite wr_add_r; replace (x + (y - x)) with y by lia; now apply wr_id).
        apply (run_loop_delta_total zf zd args Hsa Hin k (wr k (y - x)) x size (length args) 1 H0 ltac:(lia)).
        -- intros j Hj. assert (j = 0)%nat by lia. subst j. exists x. split; [exact H0|].
           rewrite Hyx. split; [exact E1|]. rewrite fits_mk'. now rewrite Ef0.
        -- lia.
        -- lia.
    + destruct a1; cbn in Hs1, Ee, Hty; try contradiction; discriminate.
    + destruct a1; cbn in Hs1, Ee, Hty; try contradiction; discriminate.
Qed.

(* ------------------------------------------------------------------------- *)
(* Part 2: the range conversion on a list that starts with an array           *)
Lemma all_eq_total : forall a e, Forall scalar a -> Forall scalar e -> exists b, all_eq a e = Some b.
Proof.
  induction a as [|x a IH]; intros e Ha He; destruct e as [|y e]; cbn [all_eq]; eauto.
  destruct (av_eq_total x y (Forall_inv Ha) (Forall_inv He)) as [b Eb]. rewrite Eb.
  destruct b; [|eauto]. exact (IH e (Forall_inv_tail Ha) (Forall_inv_tail He)).
Qed.

Section ConvArrTotal.
Variable o : popts.
Variables zf zd : Z.
Hypothesis Hz : zchoice zf zd.
Variable es : list av.
Hypothesis Hes : Forall (goodc o zf zd) es.
Notation N := (S (length es)).

Lemma goodc_scalars l : Forall (goodc o zf zd) l -> Forall scalar l.
Proof. intros H. eapply Forall_impl; [|exact H]. intros a Ha. apply (goodc_facts o zf zd a Ha). Qed.

Lemma run_loop_arrs_total dl size : forall f t0 tl rest,
  Forall (goodt o zf zd) rest ->
  size <= Z.of_nat (length (flat (arrs es (t0 :: tl) ++ rest))) -> tl <> [] -> (length rest < f)%nat ->
  run_loop f (flat (arrs es (t0 :: tl) ++ rest)) size false dl
           (Z.of_nat ((length tl) * N)) (Z.of_nat (length tl)) <> None.
Proof.
  induction f as [|f IH]; intros t0 tl rest Hgr Hsz Hne Hf; [lia|].
  cbn [run_loop].
  destruct (exists_last Hne) as (tl0 & tlast & Etl).
  set (args := flat (arrs es (t0 :: tl) ++ rest)) in *.
  assert (Hcur : skipz (Z.of_nat (length tl * N)) args = flat (TA tlast es :: rest)).
  { unfold skipz. rewrite Nat2Z.id. unfold args. rewrite Etl.
    replace (arrs es (t0 :: tl0 ++ [tlast]) ++ rest) with (arrs es (t0 :: tl0) ++ (TA tlast es :: rest))
      by (unfold arrs; rewrite app_comm_cons, map_app; cbn [map]; rewrite <- app_assoc; reflexivity).
    replace (length (tl0 ++ [tlast])) with (length (t0 :: tl0)) by (rewrite app_length; cbn [length]; lia).
    apply skip_blocks. }
  rewrite Hcur.
  assert (Hinc : incsize (flat (TA tlast es :: rest)) = Z.of_nat N)
    by (unfold flat; cbn [map concat tv_flat app incsize]; lia).
  rewrite Hinc.
  replace (Z.of_nat (length tl * N) + Z.of_nat N) with (Z.of_nat (S (length tl) * N)) by lia.
  destruct (size <=? Z.of_nat (S (length tl) * N)) eqn:Esz; [discriminate|].
  assert (Hnext : skipz (Z.of_nat (S (length tl) * N)) args = flat rest).
  { unfold skipz. rewrite Nat2Z.id. unfold args.
    replace (S (length tl)) with (length (t0 :: tl)) by reflexivity. apply skip_blocks. }
  rewrite Hnext.
  assert (Hargs : args = flat (TA t0 es :: arrs es tl ++ rest)) by reflexivity.
  rewrite Hargs at 1.
  destruct rest as [|[v|ty e] rest'].
  - exfalso. apply Z.leb_gt in Esz. unfold args in Hsz. rewrite app_nil_r in Hsz.
    assert (Hbl : forall l, length (flat (arrs es l)) = (length l * N)%nat).
    { clear. intros l. induction l as [|t l IHl]; [reflexivity|].
      change (arrs es (t :: l)) with (TA t es :: arrs es l).
      unfold flat in *. cbn [map concat tv_flat length]. rewrite app_length, IHl. cbn [length]. lia. }
    rewrite (Hbl (t0 :: tl)) in Hsz. cbn [length] in *. lia.
  - pose proof (Forall_inv Hgr) as Hv. cbn [goodt] in Hv.
    rewrite (elem_eq_arr_val es t0 _ v rest' (proj1 (goodc_facts o zf zd v Hv))). discriminate.
  - rewrite elem_eq_arr.
    pose proof (Forall_inv Hgr) as [Hge _].
    destruct (negb (types_match t0 ty)); [discriminate|].
    destruct (negb (Z.of_nat (length es) =? Z.of_nat (length e))); [discriminate|].
    destruct (all_eq_total es e (goodc_scalars es Hes) (goodc_scalars e Hge)) as [b Eb]. rewrite Eb.
    destruct b; [|discriminate].
    apply (all_eq_same o zf zd Hz es e Hes Hge) in Eb. subst e.
    replace (Z.of_nat (length tl) + 1) with (Z.of_nat (length (tl ++ [ty]))) by (rewrite app_length; cbn [length]; lia).
    replace (S (length tl)) with (length (tl ++ [ty])) by (rewrite app_length; cbn [length]; lia).
    assert (Ea : args = flat (arrs es (t0 :: tl ++ [ty]) ++ rest')).
    { unfold args, arrs. rewrite app_comm_cons, map_app. cbn [map]. now rewrite <- app_assoc. }
    rewrite Ea. apply IH.
    + exact (Forall_inv_tail Hgr).
    + rewrite <- Ea. exact Hsz.
    + intros E. apply app_eq_nil in E as [_ E]. discriminate.
    + cbn [length] in Hf. lia.
Qed.

Lemma conv_array_total ty tvs size :
  Forall (goodt o zf zd) tvs -> size <= Z.of_nat (length (flat (TA ty es :: tvs))) ->
  convert_to_range o (flat (TA ty es :: tvs)) size <> CUnmod.
Proof.
  intros Hg Hsz. unfold convert_to_range.
  destruct ((size <? 5) || (hd_type (flat (TA ty es :: tvs)) =? 45) || negb (compress o)); [discriminate|].
  change (hd_type (flat (TA ty es :: tvs))) with 97.
  destruct (count_common (length (flat (TA ty es :: tvs))) 97 (flat (TA ty es :: tvs)) 0 size 0 <? 5) eqn:Ecc;
    [discriminate|].
  apply Z.ltb_ge in Ecc.
  assert (Hg' : Forall tsok (TA ty es :: tvs))
    by (constructor; [exact I|eapply Forall_impl; [|exact Hg]; exact (goodt_tsok o zf zd)]).
  pose proof (cc_le (length (flat (TA ty es :: tvs))) (TA ty es :: tvs) 0 size 0 Hg') as Hle.
  cbn [lead] in Hle.
  destruct tvs as [|[v|t2 e2] tvs2]; try (cbn [lead] in Hle; lia).
  rewrite skip_block. rewrite elem_eq_arr.
  assert (Hinc : incsize (flat (TA ty es :: TA t2 e2 :: tvs2)) = Z.of_nat N)
    by (unfold flat; cbn [map concat tv_flat app incsize]; lia).
  rewrite Hinc.
  pose proof (Forall_inv Hg) as [Hge2 _].
  destruct (all_eq_total es e2 (goodc_scalars es Hes) (goodc_scalars e2 Hge2)) as [b Eb].
  destruct (if negb (types_match ty t2) then Some false
            else if negb (Z.of_nat (length es) =? Z.of_nat (length e2)) then Some false else all_eq es e2)
    as [[|]|] eqn:Ee.
  3: { destruct (negb (types_match ty t2)); [discriminate|].
       destruct (negb (Z.of_nat (length es) =? Z.of_nat (length e2))); [discriminate|]. congruence. }
  2: { cbn [negb andb]. change (range_convertible 97) with false. cbn [negb]. discriminate. }
  assert (e2 = es).
  { destruct (negb (types_match ty t2)); [discriminate|].
    destruct (negb (Z.of_nat (length es) =? Z.of_nat (length e2))); [discriminate|].
    exact (all_eq_same o zf zd Hz es e2 Hes Hge2 Ee). }
  subst e2. cbn [negb andb]. cbv iota.
  destruct (run_loop (length (flat (TA ty es :: TA t2 es :: tvs2))) (flat (TA ty es :: TA t2 es :: tvs2)) size false VN
              (Z.of_nat N) 1) as [[skipped nc]|] eqn:Er.
  - destruct (nc <? 5); discriminate.
  - exfalso. revert Er.
    change (flat (TA ty es :: TA t2 es :: tvs2)) with (flat (arrs es (ty :: [t2]) ++ tvs2)).
    replace (Z.of_nat N) with (Z.of_nat (length [t2] * N)) by (cbn [length]; lia).
    change 1 with (Z.of_nat (length [t2])).
    apply run_loop_arrs_total; [exact (Forall_inv_tail Hg)|exact Hsz|discriminate|].
    pose proof (flat_len tvs2).
    change (flat (arrs es [ty; t2] ++ tvs2)) with (flat (TA ty es :: TA t2 es :: tvs2)).
    change (flat (TA ty es :: TA t2 es :: tvs2)) with (VArr ty (Z.of_nat (length es)) :: es ++ VArr t2 (Z.of_nat (length es)) :: es ++ flat tvs2).
    cbn [length]. rewrite app_length. cbn [length]. rewrite app_length. lia.
Qed.
End ConvArrTotal.

(* ------------------------------------------------------------------------- *)
(* Part 3: every element is printed                                           *)
Lemma print_scalar_total o v cols : scalar v -> exists r, print_scalar o v cols = Some r.
Proof.
  destruct v; cbn [scalar]; intros Hs; try contradiction; cbn [print_scalar]; eauto.
  - destruct (print_string o false s cols). eauto.
  - destruct (print_string o true s cols). eauto.
Qed.

Lemma conv_yes_compress o args size c kk : convert_to_range o args size = CYes c kk -> compress o = true.
Proof.
  unfold convert_to_range. destruct (compress o); [reflexivity|].
  cbn [negb]. rewrite !orb_true_r. discriminate.
Qed.

Section PrintTotal.
Variables dec2f dec2d : list Z -> Z.
Variable o : popts.
Variables zf zd : Z.
Hypothesis Hz : zchoice zf zd.

Lemma goodca_flat_sa l : Forall (goodca o zf zd) l -> Forall sa l /\ Forall (inrv zf zd) l.
Proof.
  intros H. split; eapply Forall_impl; try exact H; [exact (goodca_sa o zf zd)|exact (goodca_inrv o zf zd)].
Qed.

(* one value, a repetition or a range, as the loops print it *)
Lemma print_conv_total fu a0 rest size cols prev :
  goodc o zf zd a0 -> Forall (goodca o zf zd) rest -> Z.of_nat (length (a0 :: rest)) < 2 ^ 31 ->
  size <= Z.of_nat (length (a0 :: rest)) ->
  exists cv, convert_to_range o (a0 :: rest) size = cv /\ cv <> CUnmod /\
    exists r, print_arg_val_f (S (S fu)) o (match cv with CYes c _ => c | _ => a0 :: rest end) cols prev = Some r.
Proof.
  intros Hg0 Hgr Hlen Hsz.
  destruct (goodc_facts o zf zd a0 Hg0) as (Hs0 & Hi0 & Hex0).
  destruct (goodca_flat_sa rest Hgr) as [Hsar Hinr].
  assert (Hsa : Forall sa (a0 :: rest)) by (constructor; [now apply scalar_sa|exact Hsar]).
  assert (Hin : Forall (inrv zf zd) (a0 :: rest)) by (constructor; assumption).
  pose proof (conv_total_scalar zf zd o a0 rest size Hz Hex0 Hsar Hin Hsz) as Hnu.
  destruct (convert_to_range o (a0 :: rest) size) as [|c kk|] eqn:Ecv; [| |congruence].
  - exists CNo. split; [reflexivity|]. split; [discriminate|].
    rewrite (pav_scalar o a0 rest cols prev (S fu) Hs0).
    destruct (print_scalar_total o a0 cols Hs0) as [[[t w] c'] E]. rewrite E. eauto.
  - exists (CYes c kk). split; [reflexivity|]. split; [discriminate|].
    pose proof (conv_yes_compress _ _ _ _ _ Ecv) as Hon.
    destruct (range_expand_shape_sa zf zd (proj1 Hz) (proj2 Hz) o (a0 :: rest) size c kk Hsa Hin Hex0 Hlen Ecv)
      as (n & -> & Hn5 & Hexp & Hshape & Hle).
    destruct Hn5 as [Hn5 Hnl].
    destruct Hshape as [[[y Ec] Hrep]|(k & d & x & y & Ec & Hdr & Hhd & Hd0 & Hexj)]; subst c; cbn [hd] in *.
    + rewrite (print_range_const_eq o Hon fu (Z.of_nat n) a0 y cols prev ltac:(lia) Hs0).
      destruct (print_scalar_total o a0 (cols + len (dec_nat (Z.of_nat n) ++ [120])) Hs0) as [[[t w] c'] E].
      rewrite E. eauto.
    + subst a0.
      assert (Hex : forall j, (j < n)%nat -> wr k (x + Z.of_nat j * d) = x + Z.of_nat j * d)
        by (intros j Hj; apply wr_id; apply (Hexj j Hj)).
      assert (Hsec : wr k (x + 1 * d) = x + d)
        by (replace 1 with (Z.of_nat 1) by reflexivity; rewrite Hex by lia; lia).
      destruct (print_range_delta fu o k d x (Z.of_nat n) y cols prev (wr k (x + (Z.of_nat n - 1) * d)) Hon ltac:(lia) Hd0 Hsec eq_refl)
        as (sp & t' & c' & _ & Hpr & _).
      rewrite Hpr. eauto.
Qed.
(* the loop over the elements of an array *)
Lemma print_array_loop_total parr fu : forall fuel es more prev i n acc (first bb : bool) wrt cols awtl,
  Forall (goodc o zf zd) es -> Forall (goodca o zf zd) more -> Z.of_nat (length (es ++ more)) < 2 ^ 31 ->
  n + 1 - i = Z.of_nat (length es) -> (length es < fuel)%nat ->
  exists res, print_array_loop (print_arg_val_f (S (S fu))) parr fuel o (es ++ more) prev i n acc first bb wrt cols awtl
              = Some res.
Proof.
  induction fuel as [|fuel IH]; intros es more prev i n acc first bb wrt cols awtl Hg Hgm Hlen Hn Hf; [lia|].
  destruct es as [|a0 es'].
  - cbn [app print_array_loop]. cbn [length] in Hn. replace (n <? i) with true by lia. eauto.
  - set (rest := es' ++ more). change ((a0 :: es') ++ more) with (a0 :: rest) in *.
    assert (Hgr : Forall (goodca o zf zd) rest).
    { unfold rest. apply Forall_app. split; [|exact Hgm].
      eapply Forall_impl; [|exact (Forall_inv_tail Hg)]. intros a Ha. now left. }
    cbn [print_array_loop]. cbn [length] in Hn. replace (n <? i) with false by lia.
    destruct (print_conv_total fu a0 rest (n + 1 - i) cols prev (Forall_inv Hg) Hgr Hlen
                ltac:(unfold rest; cbn [length]; rewrite app_length; lia))
      as (cv & Ecv & Hnu & r & Hr).
    rewrite Ecv.
    assert (Hty : hd_type (a0 :: rest) =? 97 = false)
      by (destruct (goodc_facts o zf zd a0 (Forall_inv Hg)) as (Hs0 & _); destruct a0; cbn in Hs0; try contradiction; reflexivity).
    destruct cv as [|c kk|]; [| |congruence].
    1: rewrite Hty.
    2: destruct (conv_yes_head o _ _ _ _ Ecv) as (n0 & h0 & r0 & Ec0); rewrite Ec0;
       cbn [hd_type av_type]; change (45 =? 97) with false; cbv iota; rewrite <- Ec0.
    all: rewrite Hr; destruct r as [[[t tmp] cols1] bb1].
    all: match type of Ecv with _ = ?cv =>
           destruct (print_iter_any_sa dec2f dec2d o fu zf zd Hz a0 rest (n + 1 - i) prev t tmp cols cols1 bb1 cv
                       (Forall_inv Hg) Hgr Hlen Ecv ltac:(discriminate) Hr)
             as (its1 & inc & -> & -> & Hinc & Hrange & Horig & Hit & Hnth & Hle & Hnc) end.
    all: cbn [andb]; cbv beta iota.
    all: destruct (lb_check (linelength o) cols1 (len t) awtl) as [[brk_ cols2] awtl2] eqn:Elb.
    all: rewrite <- Hinc.
    all: assert (Hsk : skipz (Z.of_nat inc) (a0 :: rest) = skipn inc (a0 :: es') ++ more)
           by (unfold skipz; rewrite Nat2Z.id; change (a0 :: rest) with ((a0 :: es') ++ more); rewrite skipn_app;
               replace (inc - length (a0 :: es'))%nat with 0%nat by (cbn [length] in *; lia); reflexivity).
    all: rewrite Hsk.
    all: apply IH;
         [rewrite <- (firstn_skipn inc (a0 :: es')) in Hg; now apply Forall_app in Hg as [_ Hg]
         |exact Hgm
         |rewrite app_length, skipn_length; change (a0 :: rest) with ((a0 :: es') ++ more) in Hlen;
          rewrite app_length in Hlen; cbn [length] in *; lia
         |rewrite skipn_length; cbn [length] in *; lia
         |rewrite skipn_length; cbn [length] in *; lia].
Qed.

(* an array as an element of the list or behind "Nx" *)
Lemma print_array_total parr fu ty es more cols blank :
  Forall (goodc o zf zd) es -> Forall (goodca o zf zd) more -> Z.of_nat (length (es ++ more)) < 2 ^ 31 ->
  exists r, print_array (print_arg_val_f (S (S fu))) parr o (VArr ty (Z.of_nat (length es)) :: es ++ more) cols blank = Some r.
Proof.
  intros Hg Hgm Hlen. unfold print_array. destruct (Z.of_nat (length es) =? 0); [eauto|].
  destruct (print_array_loop_total parr fu (S (length (es ++ more))) es more None 1 (Z.of_nat (length es)) [91] true false 1
              (cols + 1) (if (cols =? 0) || negb blank then 0 else 1) Hg Hgm Hlen ltac:(lia)
              ltac:(rewrite app_length; lia)) as [[[[t w] c] bb] E].
  rewrite E. eauto.
Qed.
End PrintTotal.

(* ------------------------------------------------------------------------- *)
(* Part 4: the loop of rtosc_print_arg_vals                                   *)
Lemma lb_check_first ll c inc : lb_check ll c inc 0 = (false, c, 1).
Proof. unfold lb_check. cbn [Z.add Z.ltb Z.compare Pos.compare Pos.compare_cont]. now rewrite andb_false_r. Qed.

Lemma print_arr_f_S f o args cols blank :
  print_arr_f (S f) o args cols blank = print_array (print_arg_val_f f) (print_arr_f f) o args cols blank.
Proof. reflexivity. Qed.

Section LoopTotal.
Variables dec2f dec2d : list Z -> Z.
Variable o : popts.
Variables zf zd : Z.
Hypothesis Hz : zchoice zf zd.

(* one iteration leads to the loop on the rest of the list *)
Definition next_ok (tvs : list tv) (f : nat) (X : option (list Z * Z)) (i n : Z) : Prop :=
  exists tvs2 prev2 inc acc2 (pend2 : bool) wrt2 cols2 awtl2,
    X = print_vals_loop f o (flat tvs2) prev2 (i + Z.of_nat inc) n acc2 pend2 wrt2 cols2 awtl2 /\
    Forall (goodt o zf zd) tvs2 /\ length (flat tvs) = (inc + length (flat tvs2))%nat /\ (1 <= inc)%nat /\
    (pend2 = false -> tvs2 = []).

Lemma step_total_val f v tvs' prev i n acc (pend : bool) wrt cols awtl :
  goodc o zf zd v -> Forall (goodt o zf zd) tvs' -> Z.of_nat (length (flat (TS v :: tvs'))) < 2 ^ 31 ->
  n = i + Z.of_nat (length (flat (TS v :: tvs'))) -> (pend = false -> awtl = 0) ->
  next_ok (TS v :: tvs') f (print_vals_loop (S f) o (flat (TS v :: tvs')) prev i n acc pend wrt cols awtl) i n.
Proof.
  intros Hgv Hg Hlen Hn Hpe.
  change (flat (TS v :: tvs')) with (v :: flat tvs') in *. set (rest := flat tvs') in *.
  assert (Hgr : Forall (goodca o zf zd) rest) by (apply goodt_flat; exact Hg).
  cbn [print_vals_loop]. cbn [length] in Hn. replace (n <=? i) with false by lia.
  destruct (goodc_facts o zf zd v Hgv) as (Hs0 & _).
  destruct (print_conv_total o zf zd Hz 4 v rest (n - i) cols prev Hgv Hgr Hlen ltac:(cbn [length]; lia))
    as (cv & Ecv & Hnu & r & Hr).
  rewrite Ecv. destruct cv as [|cc kk|]; [| |congruence].
  1: rewrite top_plain by (destruct v; cbn in Hs0; try contradiction; cbn; lia).
  2: destruct (conv_yes_head o _ _ _ _ Ecv) as (n0 & h0 & r0 & Ec0); rewrite Ec0;
     rewrite top_plain by (cbn; lia); rewrite <- Ec0.
  all: unfold print_arg_val; rewrite Hr; destruct r as [[[t tmp] cols1] bb].
  all: match type of Ecv with _ = ?cv =>
         destruct (print_iter_any_sa dec2f dec2d o 4 zf zd Hz v rest (n - i) prev t tmp cols cols1 bb cv Hgv Hgr Hlen Ecv
                     ltac:(discriminate) Hr)
           as (its1 & inc & -> & -> & Hinc & Hrange & Horig & Hit & Hnth & _ & Hnc) end.
  all: destruct (if breaks_itself (av_type v) then (false, cols1, awtl)
                 else lb_check (linelength o) cols1 (len t) awtl) as [[brk_ cols2] awtl2] eqn:Elb.
  all: assert (Hbrk : brk_ && negb pend = false)
         by (destruct pend; [now rewrite andb_false_r|]; rewrite (Hpe eq_refl), lb_check_first in Elb;
             destruct (breaks_itself (av_type v)); inversion Elb; reflexivity).
  all: rewrite orb_false_r, Hbrk.
  all: rewrite <- Hinc.
  all: assert (Hsk : skipz (Z.of_nat inc) (v :: rest) = skipn inc (v :: rest)) by (unfold skipz; now rewrite Nat2Z.id).
  all: rewrite Hsk.
  all: assert (Hli : length (iorig its1) = inc) by (rewrite Horig, firstn_length; lia).
  all: destruct (flat_split_scalars (iorig its1) (TS v :: tvs') (iter_orig_scalar dec2f dec2d _ _ _ Hit)
                   ltac:(change (flat (TS v :: tvs')) with (v :: rest); rewrite Hli; lia)
                   ltac:(change (flat (TS v :: tvs')) with (v :: rest); rewrite Hli; symmetry; exact Horig))
         as (tvs2 & Etv).
  all: assert (Hsk2 : skipn inc (v :: rest) = flat tvs2)
         by (change (v :: rest) with (flat (TS v :: tvs')); rewrite Etv, flat_app, flat_scalars, skipn_app, <- Hli,
             skipn_all, Nat.sub_diag; reflexivity).
  all: rewrite Hsk2.
  all: assert (Hlen2 : length (v :: rest) = (inc + length (flat tvs2))%nat)
         by (rewrite <- Hsk2, skipn_length; lia).
  all: assert (Hg2 : Forall (goodt o zf zd) tvs2)
         by (assert (Hall : Forall (goodt o zf zd) (TS v :: tvs')) by (constructor; assumption);
             rewrite Etv in Hall; now apply Forall_app in Hall as [_ Hall]).
  all: destruct (i + Z.of_nat inc <? n) eqn:Ein.
  all: eexists tvs2, _, inc, _, _, _, _, _; split; [reflexivity|].
  all: split; [exact Hg2|]. all: split; [exact Hlen2|]. all: split; [lia|].
  all: first [intros E; discriminate E
             |intros _; apply length_zero_iff_nil; pose proof (flat_len tvs2); apply Z.ltb_ge in Ein; cbn [length] in *; lia].
Qed.
Lemma step_total_arr f ty es tvs' prev i n acc (pend : bool) wrt cols awtl :
  Forall (goodc o zf zd) es -> homog es -> Forall (goodt o zf zd) tvs' ->
  Z.of_nat (length (flat (TA ty es :: tvs'))) < 2 ^ 31 ->
  n = i + Z.of_nat (length (flat (TA ty es :: tvs'))) ->
  next_ok (TA ty es :: tvs') f (print_vals_loop (S f) o (flat (TA ty es :: tvs')) prev i n acc pend wrt cols awtl) i n.
Proof.
  intros Hges Hh Hg Hlen Hn.
  assert (Eargs : flat (TA ty es :: tvs') = VArr ty (Z.of_nat (length es)) :: es ++ flat tvs') by reflexivity.
  assert (Hgm : Forall (goodca o zf zd) (flat tvs')) by (apply goodt_flat; exact Hg).
  assert (Hpos : (1 <= length (flat (TA ty es :: tvs')))%nat) by (rewrite Eargs; cbn [length]; lia).
  assert (Hlenargs : length (flat (TA ty es :: tvs')) = (S (length es) + length (flat tvs'))%nat)
    by (rewrite Eargs; cbn [length]; rewrite app_length; lia).
  cbn [print_vals_loop]. replace (n <=? i) with false by lia.
  rewrite Eargs at 1. cbv iota.
  pose proof (conv_array_total o zf zd Hz es Hges ty tvs' (n - i) Hg ltac:(lia)) as Hnu.
  destruct (convert_to_range o (flat (TA ty es :: tvs')) (n - i)) as [|cc kk|] eqn:Ecv; [| |congruence].
  - (* the array itself *)
    rewrite Eargs. cbn [print_arg_val_top].
    destruct (print_array_total dec2f dec2d o zf zd Hz print_arr 4 ty es (flat tvs') cols pend Hges Hgm
                ltac:(rewrite Eargs in Hlen; cbn [length] in Hlen; lia)) as [[[[t tmp] cols1] bb] Epr].
    unfold print_arg_val. rewrite Epr.
    destruct (print_arr_elem dec2f dec2d o zf zd Hz 4 print_arr ty es (flat tvs') cols pend t tmp cols1 bb Hges Hh Hgm
                ltac:(rewrite Eargs in Hlen; cbn [length] in Hlen; lia) Epr)
      as (its & T & -> & -> & _ & _ & _ & Hbb & _).
    change (breaks_itself (av_type (VArr ty (Z.of_nat (length es))))) with true. cbv iota. cbn [orb].
    assert (Hb : bb && negb pend = false) by (destruct pend; [now rewrite andb_false_r|now rewrite (Hbb eq_refl)]).
    rewrite Hb. cbn [next_arg_offset].
    assert (Hsk : skipz (Z.of_nat (length es) + 1) (VArr ty (Z.of_nat (length es)) :: es ++ flat tvs') = flat tvs')
      by (rewrite <- Eargs; exact (skip_block ty es tvs')).
    rewrite Hsk.
    destruct (i + (Z.of_nat (length es) + 1) <? n) eqn:Ein.
    all: eexists tvs', _, (S (length es)), _, _, _, _, _.
    all: replace (i + Z.of_nat (S (length es))) with (i + (Z.of_nat (length es) + 1)) by lia.
    all: split; [reflexivity|]. all: split; [exact Hg|]. all: split; [exact Hlenargs|]. all: split; [lia|].
    all: first [intros E; discriminate E
               |intros _; apply length_zero_iff_nil; pose proof (flat_len tvs'); apply Z.ltb_ge in Ein; lia].
  - (* five or more equal arrays *)
    destruct (conv_array o zf zd Hz es Hges ty tvs' (n - i) (CYes cc kk) Hg ltac:(lia) Ecv ltac:(discriminate))
      as [Hcn|(tys & rest2 & y & Etv & Hm4 & Ecy)]; [discriminate|].
    set (m := S (length tys)) in *.
    assert (Ecc : cc = VRep (Z.of_nat m) 0 :: VArr ty (Z.of_nat (length es)) :: es ++ [VSpc y]) by congruence.
    assert (Ekk : kk = Z.of_nat (m * S (length es))) by congruence.
    pose proof (conv_yes_compress _ _ _ _ _ Ecv) as Hon.
    clear Ecy. subst cc kk tvs'.
    rewrite top_plain by (cbn; lia). unfold print_arg_val. rewrite pavf_rep.
    unfold print_range. rewrite Hon. cbn [negb orb].
    assert (Em0 : (Z.of_nat m =? 0) = false) by (apply Z.eqb_neq; unfold m; lia).
    rewrite Em0. cbn [Z.eqb negb]. cbv iota.
    rewrite (print_arr_f_S 4).
    destruct (print_array_total dec2f dec2d o zf zd Hz (print_arr_f 4) 2 ty es [VSpc y] (cols + len (print_d (Z.of_nat m) ++ [120])) false Hges
                ltac:(constructor; [right; right; eauto|constructor])
                ltac:(rewrite Eargs in Hlen; cbn [length] in Hlen; rewrite !app_length in *; cbn [length] in *; lia))
      as [[[[t tmp] cols1] bb] Epr].
    rewrite Epr.
    change (breaks_itself (av_type (VArr ty (Z.of_nat (length es))))) with true. cbv iota. cbn [orb andb].
    assert (Hblk : forall l, length (flat (arrs es l)) = (length l * S (length es))%nat).
    { clear. intros l. induction l as [|t0 l IHl]; [reflexivity|].
      change (arrs es (t0 :: l)) with (TA t0 es :: arrs es l).
      unfold flat in *. cbn [map concat tv_flat length]. rewrite app_length, IHl. cbn [length]. lia. }
    assert (Eall : flat (TA ty es :: arrs es tys ++ rest2) = flat (arrs es (ty :: tys) ++ rest2)) by reflexivity.
    assert (Hla : length (flat (TA ty es :: arrs es tys ++ rest2)) = (m * S (length es) + length (flat rest2))%nat)
      by (rewrite Eall, flat_app, app_length, Hblk; reflexivity).
    assert (Hsk : skipz (Z.of_nat (m * S (length es))) (flat (TA ty es :: arrs es tys ++ rest2)) = flat rest2)
      by (unfold skipz; rewrite Nat2Z.id, Eall; exact (skip_blocks es (ty :: tys) rest2)).
    rewrite Hsk.
    assert (Hg2 : Forall (goodt o zf zd) rest2) by (now apply Forall_app in Hg as [_ Hg]).
    destruct (i + Z.of_nat (m * S (length es)) <? n) eqn:Ein.
    all: eexists rest2, _, (m * S (length es))%nat, _, _, _, _, _.
    all: split; [reflexivity|]. all: split; [exact Hg2|]. all: split; [exact Hla|]. all: split; [unfold m; lia|].
    all: first [intros E; discriminate E
               |intros _; apply length_zero_iff_nil; pose proof (flat_len rest2); apply Z.ltb_ge in Ein; rewrite Hla in Hn; lia].
Qed.

Lemma print_loop_total : forall fuel tvs prev i n acc (pend : bool) wrt cols awtl,
  Forall (goodt o zf zd) tvs -> Z.of_nat (length (flat tvs)) < 2 ^ 31 -> n = i + Z.of_nat (length (flat tvs)) ->
  (length (flat tvs) < fuel)%nat -> (pend = false -> awtl = 0 \/ tvs = []) ->
  exists res, print_vals_loop fuel o (flat tvs) prev i n acc pend wrt cols awtl = Some res.
Proof.
  induction fuel as [|fuel IH]; intros tvs prev i n acc pend wrt cols awtl Hg Hlen Hn Hf Hpe; [lia|].
  destruct tvs as [|t tvs'].
  - cbn [flat map concat print_vals_loop]. cbn in Hn. replace (n <=? i) with true by lia. eauto.
  - assert (Hpe' : pend = false -> awtl = 0) by (intros E; destruct (Hpe E) as [H|H]; [exact H|discriminate]).
    assert (Hstep : next_ok (t :: tvs') fuel (print_vals_loop (S fuel) o (flat (t :: tvs')) prev i n acc pend wrt cols awtl) i n).
    { destruct t as [v|ty es].
      - exact (step_total_val fuel v tvs' prev i n acc pend wrt cols awtl (Forall_inv Hg) (Forall_inv_tail Hg) Hlen Hn Hpe').
      - destruct (Forall_inv Hg) as [Hges Hh].
        exact (step_total_arr fuel ty es tvs' prev i n acc pend wrt cols awtl Hges Hh (Forall_inv_tail Hg) Hlen Hn). }
    destruct Hstep as (tvs2 & prev2 & inc & acc2 & pend2 & wrt2 & cols2 & awtl2 & -> & Hg2 & Hl2 & Hinc & Hp2).
    apply IH; [exact Hg2|lia|lia|lia|].
    intros E. right. exact (Hp2 E).
Qed.

(* THE PRINTER MODEL IS TOTAL on the lists of the round-trip theorems *)
Theorem print_mixed_total tvs :
  Forall (goodt o zf zd) tvs -> Z.of_nat (length (flat tvs)) < 2 ^ 31 ->
  exists text w, print_arg_vals o (flat tvs) 0 = Some (text, w).
Proof.
  intros Hg Hlen. unfold print_arg_vals.
  destruct (print_loop_total (S (length (flat tvs))) tvs None 0 (Z.of_nat (length (flat tvs))) [] false 0 0
              (if 0 =? 0 then 0 else 1) Hg Hlen ltac:(lia) ltac:(lia) ltac:(intros _; left; reflexivity)) as [[text w] E].
  eauto.
Qed.

Theorem print_message_mixed_total addr tvs :
  Forall (goodt o zf zd) tvs -> Z.of_nat (length (flat tvs)) < 2 ^ 31 ->
  exists text w, print_message o addr (flat tvs) 0 = Some (text, w).
Proof.
  intros Hg Hlen. unfold print_message.
  destruct (print_loop_total (S (length (flat tvs))) tvs None 0 (Z.of_nat (length (flat tvs))) addr true 0
              (0 + (len addr + 1)) (if 0 + (len addr + 1) =? 0 then 0 else 1) Hg Hlen ltac:(lia) ltac:(lia)
              ltac:(intros E; discriminate E)) as [[text w] E].
  rewrite E. eauto.
Qed.
End LoopTotal.

(* with the condition on the zeroes at list level *)
Theorem print_mixed_total_nz o tvs :
  Forall (goodtv o) tvs -> nozmix (scalars tvs) -> Z.of_nat (length (flat tvs)) < 2 ^ 31 ->
  exists text w, print_arg_vals o (flat tvs) 0 = Some (text, w).
Proof.
  intros Hg Hnz. destruct (zero_choice o (scalars tvs) (goodtv_scalars o tvs Hg) Hnz) as (zf & zd & Hz & Hg').
  exact (print_mixed_total (fun _ => 0) (fun _ => 0) o zf zd Hz tvs (goodt_of o zf zd tvs Hg Hg')).
Qed.

Theorem print_message_mixed_total_nz o addr tvs :
  Forall (goodtv o) tvs -> nozmix (scalars tvs) -> Z.of_nat (length (flat tvs)) < 2 ^ 31 ->
  exists text w, print_message o addr (flat tvs) 0 = Some (text, w).
Proof.
  intros Hg Hnz. destruct (zero_choice o (scalars tvs) (goodtv_scalars o tvs Hg) Hnz) as (zf & zd & Hz & Hg').
  exact (print_message_mixed_total (fun _ => 0) (fun _ => 0) o zf zd Hz addr tvs (goodt_of o zf zd tvs Hg Hg')).
Qed.
