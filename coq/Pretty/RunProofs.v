(* C10/C11 - sequences of *elements*: a single value, or a repetition "NxV"
   (two slots: the range header and the value).  Both recognisers read such a
   text back, whatever white space separates the elements. *)
From Coq Require Import List ZArith Bool Lia.
From RtoscV Require Import Pretty.Tok Pretty.FloatFmt Pretty.PrintModel Pretty.ScanModel Pretty.PrettyProofs.
Import ListNotations.
Local Open Scope Z_scope.

Section Elems.
Variables dec2f dec2d : list Z -> Z.

(* the text t is read as the slots vs by both recognisers *)
Definition elof (vs : list av) (t : list Z) : Prop :=
  (forall rest, rest_ok rest ->
     (forall fuel ll fe ib, (length t <= fuel)%nat ->
        exists ty, skip_next dec2f dec2d fuel (t ++ rest) ll fe ib = Ok (rest, Z.of_nat (length vs), ty)) /\
     (forall fuel before nb fe, (length t <= fuel)%nat ->
        scan_arg_val dec2f dec2d fuel (t ++ rest) before nb fe = Ok (vs, rest))) /\
  (exists c r, t = c :: r /\ first_ok c) /\
  slots_offset vs = Z.of_nat (length vs).

Inductive elang : list (list av) -> list Z -> Prop :=
| EL_nil : elang [] []
| EL_one vs t : elof vs t -> elang [vs] t
| EL_cons vs t sep vs' els T :
    elof vs t -> sepw sep -> elang (vs' :: els) T -> elang (vs :: vs' :: els) (t ++ sep ++ T).

Lemma elof_tok v t : tokof dec2f dec2d v t -> elof [v] t.
Proof.
  intros (Hrd & (c & r & -> & Hc) & Hsc). split; [|split].
  - intros rest Hr. destruct (Hrd rest Hr) as [Hs Hn]. split; intros.
    + destruct fuel; [cbn in H; lia|]. exists (av_type v). apply Hs.
    + destruct fuel; [cbn in H; lia|]. apply Hn.
  - eexists _, _. split; [reflexivity|exact Hc].
  - destruct v; cbn in Hsc; try contradiction; reflexivity.
Qed.

(* ---- "NxV" --------------------------------------------------------------------------- *)
Lemma sc_d_nat' n rest : 0 <= n -> isdigit (hd0 rest) = false -> sc_d (dec_nat n ++ rest) = Some (n, rest).
Proof.
  intros Hn Hr. destruct (dec_nat_nonempty n Hn) as (c & tl & E & Hc).
  pose proof (dec_nat_digits n Hn) as Hd. pose proof (dec_nat_val n Hn) as Hv.
  rewrite E in *. apply isdigit_spec in Hc. unfold sc_d.
  rewrite skip_ws_nonspace by (cbn; unfold isspace, in_range; lia).
  cbn [app]. rewrite sc_sign_other by lia. rewrite hd0_cons.
  replace (isdigit c) with true by (symmetry; apply isdigit_spec; lia).
  change (c :: tl ++ rest) with ((c :: tl) ++ rest).
  rewrite read_digs_app by assumption. rewrite Hv. reflexivity.
Qed.

Lemma dropwhile_notx ds tail :
  Forall (fun c => isdigit c = true) ds ->
  dropwhile (fun c => negb (c =? 120)) (ds ++ 120 :: tail) = 120 :: tail.
Proof.
  induction 1 as [|c ds Hc Hd IH]; cbn [app dropwhile]; [reflexivity|].
  apply isdigit_spec in Hc. replace (c =? 120) with false by lia. exact IH.
Qed.

Lemma elof_rep n v t :
  1 <= n < 2 ^ 31 -> tokof dec2f dec2d v t -> elof [VRep n 0; v] (dec_nat n ++ 120 :: t).
Proof.
  intros Hn (Hrd & (c & r & -> & Hc) & Hsc).
  destruct (dec_nat_hd n ltac:(lia)) as (d & tl & E & Hd).
  pose proof (dec_nat_digits n ltac:(lia)) as Hds. rewrite E in Hds.
  assert (Htl : Forall (fun c => isdigit c = true) tl) by now inversion Hds.
  assert (Hmult : forall rest, is_range_multiplier ((dec_nat n ++ 120 :: c :: r) ++ rest) = true).
  { intros rest. rewrite E. cbn [app is_range_multiplier]. rewrite <- app_assoc.
    rewrite dropwhile_app by (try assumption; reflexivity). cbn [app]. rewrite hd0_cons.
    replace (isdigit (48 + d)) with true by (symmetry; apply isdigit_spec; lia).
    now replace (48 + d =? 48) with false by lia. }
  assert (Hfc : first_class (48 + d) = FC_other) by (apply first_class_num; lia).
  split; [|split].
  - intros rest Hr. destruct (Hrd rest Hr) as [Hs Hsn]. split; intros fuel; intros.
    + assert (Hl : (2 <= fuel)%nat) by (rewrite E in H; cbn [length app] in H; rewrite app_length in H; cbn [length] in H; lia).
      destruct fuel as [|[|f]]; try lia. exists 45. remember (S f) as f1 eqn:Ef. cbn [skip_next].
      unfold skip_core. rewrite Hmult. rewrite E at 1. cbn [app]. rewrite Hfc.
      unfold after_x. rewrite <- app_assoc. cbn [app].
      rewrite E at 1. cbn [app].
      change ((48 + d) :: tl ++ 120 :: c :: r ++ rest) with (((48 + d) :: tl) ++ 120 :: (c :: r) ++ rest).
      rewrite dropwhile_notx by (constructor; [apply isdigit_spec; lia|assumption]).
      cbn [skipn]. subst f1. rewrite Hs. destruct Hr as [_ He]. rewrite He, andb_false_r. reflexivity.
    + assert (Hl : (2 <= fuel)%nat) by (rewrite E in H; cbn [length app] in H; rewrite app_length in H; cbn [length] in H; lia).
      destruct fuel as [|[|f]]; try lia. remember (S f) as f1 eqn:Ef. cbn [scan_arg_val].
      unfold scan_core. rewrite Hmult. rewrite E at 1. cbn [app]. rewrite Hfc.
      rewrite <- app_assoc. cbn [app run_fmt].
      rewrite sc_d_nat' by (try lia; reflexivity). cbn [lit]. rewrite Z.eqb_refl. cbn [run_fmt rev app].
      subst f1. rewrite Hsn. rewrite st32_id by lia. destruct Hr as [_ He]. rewrite He, andb_false_r. reflexivity.
  - rewrite E. eexists _, _. split; [reflexivity|]. apply first_ok_num. lia.
  - cbn [slots_offset length]. destruct v; cbn in Hsc; try contradiction; reflexivity.
Qed.

(* ---- the two loops over a sequence of elements ------------------------------------------ *)
Lemma elang_first vs els T : elang (vs :: els) T -> exists c r, T = c :: r /\ first_ok c.
Proof.
  intros H. inversion H as [|? ? Ht|? ? ? ? ? ? Ht _ _]; subst;
    destruct Ht as (_ & (c & r & -> & Hc) & _); eexists _, _; (split; [reflexivity|exact Hc]).
Qed.

Definition total_slots (els : list (list av)) : Z := Z.of_nat (length (concat els)).

Lemma count_loop_elang els T : elang els T ->
  forall fuel recent num, (length T < fuel)%nat ->
  count_loop dec2f dec2d fuel T recent num = Ok (true, num + total_slots els).
Proof.
  induction 1 as [|vs t Ht|vs t sep vs' els T Ht Hsep HL IH]; intros fuel recent num Hf.
  - destruct fuel; [cbn in Hf; lia|]. cbn. f_equal. f_equal. unfold total_slots. cbn. lia.
  - destruct fuel; [lia|]. destruct Ht as (Hrd & (c & r & -> & Hc) & _).
    destruct Hc as (H0 & H47 & H37 & Hsp & H46 & H40).
    cbn [count_loop]. rewrite hd0_cons. replace ((c =? 0) || (c =? 47)) with false by lia.
    destruct (Hrd [] (rest_ok_nil)) as [Hs _].
    destruct (Hs (length (c :: r)) recent true false ltac:(lia)) as [ty Es]. rewrite app_nil_r in Es. rewrite Es.
    cbn [skip_ws dropwhile]. cbn [hd0 at_ nth Z.eqb negb andb].
    destruct fuel; [cbn in Hf; lia|]. cbn [count_loop hd0 at_ nth Z.eqb orb].
    f_equal. f_equal. unfold total_slots. cbn [concat]. rewrite app_nil_r. reflexivity.
  - destruct fuel; [lia|]. destruct Ht as (Hrd & (c & r & -> & Hc) & _).
    destruct (elang_first _ _ _ HL) as (c' & r' & -> & Hc').
    pose proof (rest_ok_sep sep c' r' Hsep Hc') as Hro.
    destruct Hc as (H0 & H47 & H37 & Hsp & H46 & H40).
    cbn [count_loop app]. rewrite hd0_cons. replace ((c =? 0) || (c =? 47)) with false by lia.
    destruct (Hrd _ Hro) as [Hs _].
    destruct (Hs (length ((c :: r) ++ sep ++ c' :: r')) recent true false
                 ltac:(rewrite app_length; lia)) as [ty Es].
    cbn [app] in Es. rewrite Es.
    destruct Hc' as (H0' & H47' & H37' & Hsp' & H46' & H40').
    rewrite skip_ws_sep by (try apply Hsep; now rewrite hd0_cons).
    rewrite hd0_cons. replace (negb (c' =? 0) && negb (isspace c')) with true
      by (rewrite Hsp'; symmetry; lia).
    rewrite skip_comments_ws_no by assumption.
    rewrite IH.
    + f_equal. f_equal. unfold total_slots. cbn [concat]. rewrite !app_length. lia.
    + cbn [length app] in Hf. rewrite !app_length in Hf. cbn [length] in *. lia.
Qed.

Lemma scan_loop_elang els T : elang els T ->
  forall fuel i n acc, n = i + total_slots els -> (length els < fuel)%nat ->
  scan_loop dec2f dec2d fuel T i n acc = Ok (acc ++ concat els, []).
Proof.
  induction 1 as [|vs t Ht|vs t sep vs' els T Ht Hsep HL IH]; intros fuel i n acc Hn Hf.
  - destruct fuel; [lia|]. cbn [scan_loop]. unfold total_slots in Hn. cbn in Hn.
    replace (n <=? i) with true by lia. cbn [concat]. now rewrite app_nil_r.
  - destruct fuel; [lia|]. destruct Ht as (Hrd & (c & r & -> & Hc) & Hso). cbn [scan_loop].
    unfold total_slots in Hn. cbn [concat] in Hn. rewrite app_nil_r in Hn.
    assert (Hpos : 0 < slots_offset vs) by (rewrite Hso; destruct vs; [cbn in Hso; lia|cbn [length]; lia]).
    replace (n <=? i) with false by lia.
    destruct (Hrd [] rest_ok_nil) as [_ Hs].
    rewrite app_nil_r in Hs. rewrite Hs by lia.
    destruct fuel; [cbn in Hf; lia|]. cbn [scan_loop length skip_ws_comments skip_ws dropwhile].
    cbn [hd0 at_ nth Z.eqb]. replace (n <=? i + slots_offset vs) with true by lia.
    cbn [concat]. now rewrite app_nil_r.
  - destruct fuel; [lia|]. destruct Ht as (Hrd & (c & r & -> & Hc) & Hso).
    destruct (elang_first _ _ _ HL) as (c' & r' & -> & Hc').
    pose proof (rest_ok_sep sep c' r' Hsep Hc') as Hro.
    assert (Hpos : 0 < slots_offset vs) by (rewrite Hso; destruct vs; [cbn in Hso; lia|cbn [length]; lia]).
    cbn [scan_loop]. unfold total_slots in Hn. cbn [concat] in Hn. rewrite app_length in Hn.
    replace (n <=? i) with false by lia.
    destruct (Hrd _ Hro) as [_ Hs]. rewrite Hs by (rewrite app_length; lia).
    rewrite skip_ws_comments_tok by (try apply Hsep; assumption).
    rewrite IH; [cbn [concat]; now rewrite <- app_assoc | unfold total_slots; cbn [concat] in *; rewrite ?app_length in *; lia | cbn [length] in *; lia].
Qed.

Lemma elang_len els T : elang els T -> (length els <= length (concat els))%nat.
Proof.
  induction 1 as [|vs t Ht|vs t sep vs' els T Ht Hsep HL IH]; cbn [concat length]; [lia| |].
  - destruct Ht as (_ & _ & Hso). rewrite app_nil_r.
    assert (0 < slots_offset vs) by (rewrite Hso; destruct vs; [cbn in Hso; lia|cbn [length]; lia]). lia.
  - destruct Ht as (_ & _ & Hso). rewrite app_length. cbn [concat length] in IH.
    assert (0 < slots_offset vs) by (rewrite Hso; destruct vs; [cbn in Hso; lia|cbn [length]; lia]). lia.
Qed.

(* C11/C10: a text made of values and repetitions, separated by any white space *)
Theorem elements_agree els T :
  elang els T ->
  count_printed_arg_vals dec2f dec2d T = Ok (true, total_slots els) /\
  scan_arg_vals dec2f dec2d T (total_slots els) = Ok (concat els, []).
Proof.
  intros HL. split.
  - unfold count_printed_arg_vals.
    assert (E : skip_comments_ws (S (length (skip_ws T))) (skip_ws T) = T).
    { destruct els as [|vs els].
      - inversion HL; subst. reflexivity.
      - destruct (elang_first _ _ _ HL) as (c & r & -> & Hc).
        destruct Hc as (H0 & H47 & H37 & Hsp & H46 & H40).
        rewrite skip_ws_nonspace by now rewrite hd0_cons. now apply skip_comments_ws_no. }
    rewrite E. rewrite (count_loop_elang _ _ HL); [reflexivity|lia].
  - unfold scan_arg_vals. pose proof (elang_len _ _ HL) as Hle.
    rewrite (scan_loop_elang _ _ HL); [reflexivity|lia|].
    unfold total_slots. rewrite Nat2Z.id. lia.
Qed.
End Elems.

(* ------------------------------------------------------------------------- *)
(* whole messages: address, blank (or line break), values                     *)
Definition good_addr (a : list Z) : Prop :=
  (exists r, a = 47 :: r) /\ Forall (fun c => isspace c = false) a.

Section Msg.
Variables dec2f dec2d : list Z -> Z.

Lemma dropwhile_nonspace a tail :
  Forall (fun c => isspace c = false) a -> (tail = [] \/ isspace (hd0 tail) = true) ->
  dropwhile (fun c => negb (isspace c)) (a ++ tail) = tail /\
  takewhile (fun c => negb (isspace c)) (a ++ tail) = a.
Proof.
  intros Ha Ht. induction Ha as [|c a Hc Ha IH]; cbn [app dropwhile takewhile].
  - destruct tail as [|x t]; [split; reflexivity|]. destruct Ht as [Ht|Ht]; [discriminate|].
    unfold hd0, at_ in Ht. cbn in Ht. cbn [dropwhile takewhile]. rewrite Ht. cbn. split; reflexivity.
  - rewrite Hc. cbn [negb]. destruct IH as [I1 I2]. rewrite I1, I2. split; reflexivity.
Qed.

Section MsgGen.
Variable o : popts.
Variable P : av -> Prop.
Hypothesis Htok : forall v cols t w c,
  P v -> print_scalar o v cols = Some (t, w, c) -> tokof dec2f dec2d v t /\ w = len t.
Hypothesis HPs : forall v, P v -> scalar v.

Theorem message_roundtrip_gen addr vs text w :
  compress o = false -> good_addr addr -> Forall P vs ->
  print_message o addr vs 0 = Some (text, w) ->
  w = len text /\
  count_printed_arg_vals_of_msg dec2f dec2d text = Ok (true, Z.of_nat (length vs)) /\
  scan_message dec2f dec2d text (Z.of_nat (length vs)) = Ok (addr, vs, []).
Proof.
  intros Hoff [[ar Ea] Hns] Hg Hp. unfold print_message in Hp.
  destruct (print_vals_loop (S (length vs)) o vs None 0 (Z.of_nat (length vs)) addr true 0
              (0 + (len addr + 1)) (if 0 + (len addr + 1) =? 0 then 0 else 1)) as [[t w']|] eqn:El;
    [|discriminate].
  inversion Hp; subst text w; clear Hp.
  assert (Hsk : forall tail f, skip_comments_ws f (addr ++ tail) = addr ++ tail)
    by (intros; rewrite Ea; cbn [app]; apply skip_comments_ws_no; lia).
  assert (Hhd : forall tail, hd0 (addr ++ tail) = 47) by (intros; rewrite Ea; reflexivity).
  assert (Hnw : forall tail, skip_ws (addr ++ tail) = addr ++ tail)
    by (intros; apply skip_ws_nonspace; rewrite Hhd; reflexivity).
  destruct vs as [|v vs'].
  - (* no values: the blank stays *)
    cbn in El. inversion El; subst t w'. cbn [length Z.of_nat Z.eqb].
    assert (Hd := dropwhile_nonspace addr [32] Hns (or_intror eq_refl)). destruct Hd as [Hd Ht].
    split; [rewrite len_app; cbn; unfold len; cbn; lia|].
    unfold count_printed_arg_vals_of_msg, scan_message.
    rewrite !Hnw, !Hsk, !Hhd. cbn [Z.eqb Pos.eqb negb]. rewrite Hd, Ht.
    split; reflexivity.
  - apply (print_loop_lang dec2f dec2d o P Htok HPs Hoff) in El;
      [|assumption|lia|discriminate].
    destruct El as (sfx & -> & -> & Hl).
    destruct (lang_from_lang dec2f dec2d _ _ _ Hl ltac:(discriminate)) as (sepz & T & -> & HL & Hsep).
    assert (Hz : (Z.of_nat (length (v :: vs')) =? 0) = false) by (apply Z.eqb_neq; cbn [length]; lia). rewrite !Hz.
    split; [rewrite !len_app in *; lia|].
    destruct (lang_first _ _ _ _ _ HL) as (c & r & -> & Hc).
    assert (Hsp : sepz ++ c :: r = [] \/ isspace (hd0 (sepz ++ c :: r)) = true).
    { right. destruct Hsep as [Hne Hall]. destruct sepz as [|x s]; [congruence|]. now inversion Hall. }
    destruct (dropwhile_nonspace addr (sepz ++ c :: r) Hns Hsp) as [Hd Ht].
    assert (Hws : skip_ws (sepz ++ c :: r) = c :: r).
    { apply skip_ws_sep; [apply Hsep|]. rewrite hd0_cons. apply Hc. }
    unfold count_printed_arg_vals_of_msg, scan_message.
    rewrite !Hnw, !Hsk, !Hhd. cbn [Z.eqb Pos.eqb negb]. rewrite Hd, Ht, Hws.
    split.
    + unfold count_printed_arg_vals. rewrite Hws.
      destruct Hc as (H0 & H47 & H37 & Hsp' & H46 & H40).
      rewrite skip_comments_ws_no by assumption.
      rewrite (count_loop_lang dec2f dec2d _ _ HL); [reflexivity|].
      rewrite app_length. cbn [length]. lia.
    + now rewrite (scan_lang dec2f dec2d _ _ HL).
Qed.
End MsgGen.

Theorem message_roundtrip o addr vs text w :
  compress o = false -> good_addr addr -> Forall good_val vs ->
  print_message o addr vs 0 = Some (text, w) ->
  w = len text /\
  count_printed_arg_vals_of_msg dec2f dec2d text = Ok (true, Z.of_nat (length vs)) /\
  scan_message dec2f dec2d text (Z.of_nat (length vs)) = Ok (addr, vs, []).
Proof.
  exact (message_roundtrip_gen o good_val (scalar_tok dec2f dec2d o) (good_val_scalar dec2f dec2d) addr vs text w).
Qed.
End Msg.

(* "5x7 true" : a repetition and a value *)
Lemma ex_elements (dec2f dec2d : list Z -> Z) :
  elang dec2f dec2d [[VRep 5 0; VI 7]; [VT]] (dec_nat 5 ++ 120 :: print_d 7 ++ [32] ++ kw_true).
Proof.
  assert (H7 : tokof dec2f dec2d (VI 7) (print_d 7)).
  { exact (proj1 (scalar_tok dec2f dec2d {| lossless := true; prec := 2; linelength := 80; compress := false |}
                   (VI 7) 0 _ _ _ ltac:(cbn; lia) eq_refl)). }
  assert (HT : tokof dec2f dec2d VT kw_true).
  { exact (proj1 (scalar_tok dec2f dec2d {| lossless := true; prec := 2; linelength := 80; compress := false |}
                   VT 0 _ _ _ I eq_refl)). }
  replace (dec_nat 5 ++ 120 :: print_d 7 ++ [32] ++ kw_true)
    with ((dec_nat 5 ++ 120 :: print_d 7) ++ [32] ++ kw_true) by now rewrite <- app_assoc.
  apply EL_cons; [apply elof_rep; [lia|exact H7] | apply sepw_32 | apply EL_one, elof_tok, HT].
Qed.
