(* C10/C11 - IEEE-754 binary arithmetic on bit patterns, as exact integer
   arithmetic followed by one rounding (to nearest, ties to even; FloatFmt.to_bits):
   what the C operators + - * / , the conversions int <-> float and the
   comparisons of src/cpp/arg-val-math.c / arg-val-cmp.c compute for 'f' and
   'd' values (x86-64, FLT_EVAL_METHOD 0: every operation rounds to its own
   format).  None = an operand that is not finite, a division by zero, a
   conversion to int that does not fit (undefined in C).  Then the float /
   double half of delta_from_arg_vals and of rtosc_arg_val_range_arg.
   No proofs in this file; tied to the hardware by the correspondence run. *)
From Coq Require Import List ZArith Bool.
From RtoscV Require Import Pretty.Tok Pretty.FloatFmt.
Import ListNotations.
Local Open Scope Z_scope.

Section Fmt.
Variables mbits ebits : Z.

Definition fl_finite (b : Z) : bool := negb (b / 2 ^ mbits mod 2 ^ ebits =? 2 ^ ebits - 1).
Definition fl_negative (b : Z) : bool := b / 2 ^ (mbits + ebits) mod 2 =? 1.
Definition fl_negate (b : Z) : Z :=
  if fl_negative b then b - 2 ^ (mbits + ebits) else b + 2 ^ (mbits + ebits).

(* |value| = m * 2^x *)
Definition fl_mx (b : Z) : Z * Z :=
  let e := b / 2 ^ mbits mod 2 ^ ebits in
  let f := b mod 2 ^ mbits in
  let bias := 2 ^ (ebits - 1) - 1 in
  if e =? 0 then (f, 1 - bias - mbits) else (2 ^ mbits + f, e - bias - mbits).
(* value = s * 2^x *)
Definition fl_sx (b : Z) : Z * Z :=
  let '(m, x) := fl_mx b in ((if fl_negative b then - m else m), x).

Definition fl_add (a b : Z) : option Z :=
  if fl_finite a && fl_finite b then
    let '(sa, xa) := fl_sx a in
    let '(sb, xb) := fl_sx b in
    let x := Z.min xa xb in
    let s := sa * 2 ^ (xa - x) + sb * 2 ^ (xb - x) in
    Some (if s =? 0 then to_bits mbits ebits (fl_negative a && fl_negative b) 0 0
          else to_bits mbits ebits (s <? 0) (Z.abs s) x)
  else None.
Definition fl_sub (a b : Z) : option Z := fl_add a (fl_negate b).

Definition fl_mul (a b : Z) : option Z :=
  if fl_finite a && fl_finite b then
    let '(ma, xa) := fl_mx a in
    let '(mb, xb) := fl_mx b in
    Some (to_bits mbits ebits (xorb (fl_negative a) (fl_negative b)) (ma * mb) (xa + xb))
  else None.

(* the quotient with a sticky bit: q has at least mbits + 4 bits, so the odd
   last bit never sits on a rounding boundary *)
Definition fl_div (a b : Z) : option Z :=
  if fl_finite a && fl_finite b then
    let '(ma, xa) := fl_mx a in
    let '(mb, xb) := fl_mx b in
    if mb =? 0 then None else
    let k := mbits + 5 + Z.log2 mb in
    let q := (ma * 2 ^ k) / mb in
    let r := (ma * 2 ^ k) mod mb in
    Some (to_bits mbits ebits (xorb (fl_negative a) (fl_negative b))
                  (2 * q + (if r =? 0 then 0 else 1)) (xa - xb - k - 1))
  else None.

Definition fl_of_int (n : Z) : Z := to_bits mbits ebits (n <? 0) (Z.abs n) 0.

(* (int)x : truncation; undefined when the result does not fit *)
Definition fl_trunc (b : Z) : option Z :=
  if fl_finite b then
    let '(s, x) := fl_sx b in
    let t := if 0 <=? x then s * 2 ^ x else Z.quot s (2 ^ (- x)) in
    if (- 2 ^ 31 <=? t) && (t <? 2 ^ 31) then Some t else None
  else None.

Definition fl_le (a b : Z) : bool := fl_key mbits ebits a <=? fl_key mbits ebits b.
(* mfabs(v) = (v >= 0) ? v : -v *)
Definition fl_abs (b : Z) : Z := if 0 <=? fl_key mbits ebits b then b else fl_negate b.

(* c999 = 0.999, ctol = 0.001 in this format *)
Variables c999 ctol : Z.

(* rtosc_arg_val_round: tmp = (int)v; v = tmp + (int)(v - tmp >= 0.999) *)
Definition fl_round (b : Z) : option Z :=
  match fl_trunc b with
  | Some tmp =>
      match fl_sub b (fl_of_int tmp) with
      | Some diff =>
          let r := tmp + (if fl_finite diff && fl_le c999 diff then 1 else 0) in
          if r <? 2 ^ 31 then Some (fl_of_int r) else None
      | None => None end
  | None => None
  end.

(* rtosc_arg_vals_eq_single with float_tolerance 0.001: fabs(l - r) <= tol *)
Definition fl_eq_tol (a b : Z) : option bool :=
  match fl_sub a b with
  | Some d => if fl_isnan mbits ebits d then Some false else Some (fl_le (fl_abs d) ctol)
  | None => None
  end.

(* delta_from_arg_vals on bit patterns: Some (returned number, delta) *)
Definition fl_delta (llhs lhs : Z) (rhs : option Z) (must_be_unity : bool) : option (Z * Z) :=
  let dc : option (Z * Z) :=
    if must_be_unity then
      match rhs with
      | Some r =>
          if fl_isnan mbits ebits lhs || fl_isnan mbits ebits r then None else
          let c := cmp3 (fl_key mbits ebits lhs) (fl_key mbits ebits r) in
          Some ((if 0 <? c then fl_negate (fl_of_int 1) else fl_of_int 1), c)
      | None => None
      end
    else
      match fl_sub lhs llhs with
      | Some d => if fl_isnan mbits ebits d then None
                  else Some (d, cmp3 (fl_key mbits ebits d) 0)
      | None => None
      end in
  match dc with
  | None => None
  | Some (delta, c) =>
      if c =? 0 then Some (-1, delta) else
      match rhs with
      | None => Some (0, delta)
      | Some r =>
          match fl_sub r lhs with
          | Some width =>
              match fl_div width delta with
              | Some dv0 =>
                  match fl_round dv0 with
                  | Some dv =>
                      match fl_mul dv delta with
                      | Some width2 =>
                          match fl_eq_tol width width2 with
                          | Some true => match fl_trunc dv with
                                         | Some n => Some (n + 1, delta)
                                         | None => None end
                          | Some false => Some (-1, delta)
                          | None => None
                          end
                      | None => None end
                  | None => None end
              | None => None end
          | None => None end
      end
  end.

(* rtosc_arg_val_range_arg: start + (float)ith * delta *)
Definition fl_range_arg (delta start ith : Z) : option Z :=
  match fl_mul (fl_of_int ith) delta with
  | Some m => fl_add start m
  | None => None
  end.
End Fmt.

Definition c999_f := 1065336439.            (* 0.999f  0x3f7fbe77 *)
Definition ctol_f := 981668463.             (* (float)0.001  0x3a83126f *)
Definition c999_d := 4607173411600762667.   (* 0.999  0x3feff7ced916872b *)
Definition ctol_d := 4562254508917369340.   (* 0.001  0x3f50624dd2f1a9fc *)

Definition is_flt (v : av) : bool := match v with VFl _ | VD _ => true | _ => false end.

(* delta_from_arg_vals when the left-hand side is a float or a double *)
Definition delta_from_arg_vals_fl (llhs lhs : av) (rhs : option av) (must_be_unity : bool)
  : option (Z * av) :=
  match lhs with
  | VFl b =>
      match (match rhs with None => Some None | Some (VFl r) => Some (Some r) | Some _ => None end),
            (if must_be_unity then Some 0 else match llhs with VFl a => Some a | _ => None end) with
      | Some r, Some a =>
          match fl_delta 23 8 c999_f ctol_f a b r must_be_unity with
          | Some (n, d) => Some (n, VFl d)
          | None => None end
      | _, _ => None
      end
  | VD b =>
      match (match rhs with None => Some None | Some (VD r) => Some (Some r) | Some _ => None end),
            (if must_be_unity then Some 0 else match llhs with VD a => Some a | _ => None end) with
      | Some r, Some a =>
          match fl_delta 52 11 c999_d ctol_d a b r must_be_unity with
          | Some (n, d) => Some (n, VD d)
          | None => None end
      | _, _ => None
      end
  | _ => None
  end.

(* delta_from_arg_vals for every numeric_range_type *)
Definition delta_x (llhs lhs : av) (rhs : option av) (must_be_unity : bool) : option (Z * av) :=
  if is_flt lhs then delta_from_arg_vals_fl llhs lhs rhs must_be_unity
  else delta_from_arg_vals llhs lhs rhs must_be_unity.

(* rtosc_arg_val_range_arg for every numeric_range_type *)
Definition range_arg_x (delta start : av) (ith : Z) : option av :=
  match delta, start with
  | VFl d, VFl s => match fl_range_arg 23 8 d s ith with Some v => Some (VFl v) | None => None end
  | VD d, VD s => match fl_range_arg 52 11 d s ith with Some v => Some (VD v) | None => None end
  | _, _ => range_arg delta start ith
  end.
