(* C11 - the alternative spelling "now" of a time tag: both recognisers read it as
   the time tag "immediately" (value 1), which the printer writes "immediately":
   the canonical spelling. *)
From Coq Require Import List ZArith Bool Lia ZifyBool.
From RtoscV Require Import Pretty.Tok Pretty.FloatFmt Pretty.TimeFmt Pretty.PrintModel Pretty.ScanModel
  Pretty.PrettyProofs.
Import ListNotations.
Local Open Scope Z_scope.

Section Now.
Variables dec2f dec2d : str -> Z.

Lemma tok_now : tok_core dec2f dec2d (VTm 1) kw_now.
Proof.
  intros rest Hr. unfold kw_now. split; intros.
  - unfold skip_core. cbn [app first_class Z.eqb Pos.eqb orb].
    unfold skip_word at 1. cbn [strip_prefix kw_nil Z.eqb Pos.eqb].
    change (110 :: 111 :: 119 :: rest) with (kw_now ++ rest).
    rewrite skip_word_self by exact Hr. cbn [av_type andb]. reflexivity.
  - unfold scan_core. cbn [app first_class Z.eqb Pos.eqb orb].
    unfold skip_word at 1. cbn [strip_prefix kw_immediately Z.eqb Pos.eqb].
    change (110 :: 111 :: 119 :: rest) with (kw_now ++ rest).
    rewrite skip_word_self by exact Hr. reflexivity.
Qed.

Theorem now_tokof : tokof dec2f dec2d (VTm 1) kw_now.
Proof.
  split; [apply tok_core_reads, tok_now|]. split; [|exact I].
  eexists _, _. split; [reflexivity|]. apply first_ok_alpha. lia.
Qed.

(* ... and what was read is printed in the canonical spelling *)
Theorem now_canonical o : print_timetag o 1 = kw_immediately.
Proof. reflexivity. Qed.
End Now.
