(* C10 - two more token classes: symbols printed bare (identifier-shaped and not
   a reserved word) and blobs "BLOB [n 0x.. 0x..]" with the printer's line
   breaks between the bytes.  Both recognisers read them back. *)
From Coq Require Import List ZArith Bool Lia.
From RtoscV Require Import Pretty.Tok Pretty.FloatFmt Pretty.PrintModel Pretty.ScanModel
  Pretty.PrettyProofs Pretty.RangeProofs Pretty.FloatProofs.
Import ListNotations.
Local Open Scope Z_scope.

(* ------------------------------------------------------------------------- *)
(* Part 1: identifiers                                                        *)
Definition idch (c : Z) : Prop := isidchar c = true.
Definition letter (c : Z) : Prop := isalpha c = true.

Lemma idch_facts c : isidchar c = true ->
  ((c =? 47) || (c =? 93) || (c =? 46) || (c =? 37) || isspace c = false) /\
  isspace c = false /\ c <> 91 /\ c <> 0 /\ c <> 46 /\ c <> 93.
Proof.
  unfold isidchar, isalnum, isalpha, isupper, islower, isdigit, isspace, in_range. intros H.
  repeat split; lia.
Qed.

Lemma idstart_idch c : isidstart c = true -> isidchar c = true.
Proof. unfold isidstart, isidchar, isalnum. intros H. apply orb_true_iff in H as [H|H]; rewrite H; now rewrite ?orb_true_r. Qed.

Lemma strip_idword kw : forall s rest r,
  Forall letter kw -> Forall idch s -> rest_ok0 rest -> s <> kw ->
  strip_prefix kw (s ++ rest) = Some r -> exists c r', r = c :: r' /\ isidchar c = true.
Proof.
  induction kw as [|a kw IH]; intros s rest r Hk Hs Hr Hne H.
  - cbn [strip_prefix] in H. inversion H; subst. destruct s as [|c s]; [congruence|].
    inversion Hs; subst. cbn [app]. eauto.
  - inversion Hk as [|? ? Ha Hk']; subst. destruct s as [|c s]; cbn [app strip_prefix] in H.
    + destruct (rest_ok_inv _ Hr) as [->|(x & r0 & -> & Hx)]; [discriminate|].
      replace (x =? a) with false in H; [discriminate|].
      symmetry. unfold letter, isalpha, isupper, islower, in_range in Ha. lia.
    + inversion Hs; subst. destruct (c =? a) eqn:E; [|discriminate]. apply Z.eqb_eq in E. subst c.
      apply (IH s rest r); try assumption. congruence.
Qed.

Lemma skip_word_miss kw s rest :
  Forall letter kw -> Forall idch s -> rest_ok0 rest -> s <> kw -> skip_word kw (s ++ rest) = None.
Proof.
  intros Hk Hs Hr Hne. unfold skip_word. destruct (strip_prefix kw (s ++ rest)) as [r|] eqn:E; [|reflexivity].
  destruct (strip_idword kw s rest r Hk Hs Hr Hne E) as (c & r' & -> & Hc).
  unfold word_end_ok. now rewrite (proj1 (idch_facts c Hc)).
Qed.

Lemma run_fmt_lits kw : forall f T vals,
  run_fmt (lits kw ++ f) T vals = match strip_prefix kw T with Some r => run_fmt f r vals | None => None end.
Proof.
  induction kw as [|a kw IH]; intros f T vals; [reflexivity|].
  cbn [lits map app run_fmt strip_prefix]. unfold lit. destruct T as [|c T]; [reflexivity|].
  destruct (c =? a); [apply IH|reflexivity].
Qed.

Lemma str_eqb_refl s : str_eqb s s = true.
Proof.
  unfold str_eqb, starts_with. rewrite Nat.eqb_refl.
  assert (E : strip_prefix s s = Some []).
  { induction s as [|c s IH]; [reflexivity|]. cbn [strip_prefix]. now rewrite Z.eqb_refl. }
  now rewrite E.
Qed.

Lemma reserved_letters : Forall (Forall letter) reserved.
Proof. unfold reserved. repeat constructor. Qed.

Lemma sym_plain_facts s : sym_plain s = true ->
  exists c r, s = c :: r /\ isidstart c = true /\ Forall idch s /\ forall kw, In kw reserved -> s <> kw.
Proof.
  unfold sym_plain. destruct s as [|c r]; [discriminate|]. intros H.
  apply andb_true_iff in H as [H Hres]. apply andb_true_iff in H as [Hc Hr].
  exists c, r. split; [reflexivity|]. split; [exact Hc|]. split.
  - constructor; [now apply idstart_idch|]. now apply Forall_forall, forallb_forall.
  - intros kw Hin E. apply negb_true_iff in Hres. unfold is_reserved in Hres. rewrite E in Hres.
    assert (existsb (str_eqb kw) reserved = true) by (apply existsb_exists; exists kw; split; [assumption|apply str_eqb_refl]).
    congruence.
Qed.

Lemma idstart_class c : isidstart c = true ->
  isdigit c = false /\
  (first_class c = FC_kw \/ first_class c = FC_M \/ first_class c = FC_B \/ first_class c = FC_other).
Proof.
  intros H. assert (Hc : c = 95 \/ 65 <= c <= 90 \/ 97 <= c <= 122)
    by (unfold isidstart, isalpha, isupper, islower, in_range in H; lia).
  split; [unfold isdigit, in_range; lia|]. unfold first_class.
  destruct ((c =? 116) || (c =? 102) || (c =? 110) || (c =? 105)); [now left|].
  replace (c =? 35) with false by lia. replace (c =? 39) with false by lia.
  replace (c =? 34) with false by lia. replace (c =? 91) with false by lia.
  destruct (c =? 77); [right; now left|]. destruct (c =? 66); [right; right; now left|now repeat right].
Qed.

Lemma print_chars_plain ll s : forall cols, Forall idch s -> print_chars true ll s cols = (s, cols + len s).
Proof.
  induction s as [|c s IH]; intros cols Hs; cbn [print_chars].
  - unfold len. cbn. f_equal. lia.
  - inversion Hs as [|? ? Hc Hs']; subst. cbn [negb andb].
    assert (E : as_escaped_char c false = None).
    { unfold idch, isidchar, isalnum, isalpha, isupper, islower, isdigit, in_range in Hc.
      unfold as_escaped_char. cbn [negb andb].
      replace (c =? 0) with false by lia. replace (c =? 7) with false by lia. replace (c =? 8) with false by lia.
      replace (c =? 9) with false by lia. replace (c =? 10) with false by lia. replace (c =? 11) with false by lia.
      replace (c =? 12) with false by lia. replace (c =? 13) with false by lia. replace (c =? 92) with false by lia.
      now replace (c =? 34) with false by lia. }
    rewrite E, (IH (cols + 1) Hs'). cbn [app]. f_equal. unfold len. cbn [length]. lia.
Qed.

Section SymTok.
Variables dec2f dec2d : str -> Z.

Lemma tok_plainsym s : sym_plain s = true -> tok_core dec2f dec2d (VSym s) s.
Proof.
  intros Hp rest Hr. destruct (sym_plain_facts s Hp) as (c & r & Es & Hc & Hs & Hnk).
  destruct (idstart_class c Hc) as (Hnd & Hcls).
  pose proof (rest_ok_hd _ Hr) as Hh.
  assert (Hrid : isidchar (hd0 rest) = false)
    by (unfold isidchar, isalnum, isalpha, isupper, islower, isdigit, in_range; lia).
  assert (Htw : takewhile isidchar (s ++ rest) = s) by (apply takewhile_app; assumption).
  assert (Hdw : dropwhile isidchar (s ++ rest) = rest) by (apply dropwhile_app; assumption).
  assert (Hmiss : forall kw, In kw reserved -> skip_word kw (s ++ rest) = None).
  { intros kw Hin. apply skip_word_miss; try assumption; [|now apply Hnk].
    exact (proj1 (Forall_forall _ _) reserved_letters kw Hin). }
  assert (Ht := Hmiss kw_true ltac:(cbn; tauto)). assert (Hf := Hmiss kw_false ltac:(cbn; tauto)).
  assert (Hn := Hmiss kw_nil ltac:(cbn; tauto)). assert (Hi := Hmiss kw_inf ltac:(cbn; tauto)).
  assert (Hw := Hmiss kw_now ltac:(cbn; tauto)). assert (Him := Hmiss kw_immediately ltac:(cbn; tauto)).
  assert (Hpi : parse_identifier (s ++ rest) = Some (VSym s, rest)).
  { unfold parse_identifier. rewrite Es at 1. cbn [app]. rewrite hd0_cons, Hc. now rewrite Htw, Hdw. }
  assert (Hsi : skip_identifier (s ++ rest) = Some rest).
  { unfold skip_identifier. rewrite Es at 1. cbn [app]. rewrite Hc. f_equal.
    rewrite Es in Hdw. cbn [app dropwhile] in Hdw. now rewrite (idstart_idch c Hc) in Hdw. }
  assert (Hmidi : is_midi_start (s ++ rest) = false).
  { unfold is_midi_start, starts_with. destruct (strip_prefix kw_MIDI (s ++ rest)) as [r0|] eqn:E; [|reflexivity].
    destruct (strip_idword kw_MIDI s rest r0 ltac:(repeat constructor) Hs Hr (Hnk kw_MIDI ltac:(cbn; tauto)) E)
      as (c' & r' & -> & Hc').
    apply strip_prefix_app in E. rewrite E. change (at_ (kw_MIDI ++ c' :: r') 4) with c'.
    destruct (idch_facts c' Hc') as (_ & Hsp & H91 & _). rewrite Hsp. cbn [orb andb].
    now replace (c' =? 91) with false by lia. }
  assert (Hblob : forall f vals, run_fmt (fmt_blob_open ++ f) (s ++ rest) vals = None).
  { intros f vals. unfold fmt_blob_open. rewrite <- app_assoc, run_fmt_lits.
    destruct (strip_prefix kw_BLOB (s ++ rest)) as [r0|] eqn:E; [|reflexivity].
    destruct (strip_idword kw_BLOB s rest r0 ltac:(repeat constructor) Hs Hr (Hnk kw_BLOB ltac:(cbn; tauto)) E)
      as (c' & r' & -> & Hc').
    destruct (idch_facts c' Hc') as (_ & Hsp & H91 & _).
    cbn [app run_fmt]. rewrite skip_ws_nonspace by now rewrite hd0_cons.
    cbn [lit]. now replace (c' =? 91) with false by lia. }
  assert (Hrm : is_range_multiplier (s ++ rest) = false).
  { rewrite Es. cbn [app is_range_multiplier]. now rewrite Hnd. }
  assert (Esrc : exists tl, s ++ rest = c :: tl) by (rewrite Es; cbn [app]; eauto).
  destruct Esrc as (tl & Esrc).
  split; intros.
  - unfold skip_core. rewrite Esrc. rewrite <- Esrc.
    destruct Hcls as [E|[E|[E|E]]]; rewrite E.
    + rewrite Ht, Hf, Hn, Hi, Hw, Him. unfold ret_ident. rewrite Hsi.
      destruct (c =? 116); [reflexivity|]. destruct (c =? 102); [reflexivity|]. destruct (c =? 110); reflexivity.
    + rewrite Hmidi. unfold ret_ident. now rewrite Hsi.
    + unfold skip_fmt_null. rewrite <- (app_nil_r fmt_blob_open), Hblob. unfold ret_ident. now rewrite Hsi.
    + rewrite Hrm, Hc, Hdw. reflexivity.
  - unfold scan_core. rewrite Esrc. rewrite <- Esrc.
    destruct Hcls as [E|[E|[E|E]]]; rewrite E.
    + now rewrite Ht, Hf, Hn, Hi, Hw, Him, Hpi.
    + now rewrite Hmidi, Hpi.
    + now rewrite Hblob, Hpi.
    + rewrite Hrm, Hc, Htw, Hdw. reflexivity.
Qed.
End SymTok.

(* ------------------------------------------------------------------------- *)
(* Part 2: blobs                                                              *)
Definition byte_ok (b : Z) : Prop := 0 <= b < 256.

(* the bytes as the printer writes them: each preceded by " " or "\n    " *)
Inductive blob_body : list Z -> str -> Prop :=
| bb_nil : blob_body [] []
| bb_cons b d sep T : sep = [32] \/ sep = nl4 -> blob_body d T ->
    blob_body (b :: d) (sep ++ [48; 120] ++ hex2 b ++ T).

Lemma removelast_snoc {A} (l : list A) x : removelast (l ++ [x]) = l.
Proof. rewrite removelast_app by discriminate. cbn. apply app_nil_r. Qed.

Lemma blob_loop_body ll d : forall pre wrt cols t wrt' cols',
  blob_loop ll d (pre ++ [32]) wrt cols = (t, wrt', cols') ->
  exists T, blob_body d T /\ t = pre ++ T ++ [32] /\ wrt' - wrt = len t - len (pre ++ [32]).
Proof.
  induction d as [|b d IH]; intros pre wrt cols t wrt' cols' H; cbn [blob_loop] in H.
  - inversion H; subst. exists []. split; [constructor|]. split; [reflexivity|]. cbn [app]. lia.
  - destruct (ll - 6 <=? cols).
    + rewrite removelast_snoc in H.
      replace ((pre ++ nl4) ++ [48; 120] ++ hex2 b ++ [32]) with ((pre ++ nl4 ++ [48; 120] ++ hex2 b) ++ [32]) in H
        by (rewrite <- !app_assoc; reflexivity).
      apply IH in H. destruct H as (T & HT & -> & Hw).
      exists (nl4 ++ [48; 120] ++ hex2 b ++ T). split; [constructor; [now right|assumption]|].
      split; [rewrite <- !app_assoc; reflexivity|].
      rewrite !len_app in *. unfold len in *. cbn [length nl4 hex2] in *. lia.
    + replace ((pre ++ [32]) ++ [48; 120] ++ hex2 b ++ [32]) with ((pre ++ [32] ++ [48; 120] ++ hex2 b) ++ [32]) in H
        by (rewrite <- !app_assoc; reflexivity).
      apply IH in H. destruct H as (T & HT & -> & Hw).
      exists ([32] ++ [48; 120] ++ hex2 b ++ T). split; [constructor; [now left|assumption]|].
      split; [rewrite <- !app_assoc; reflexivity|].
      rewrite !len_app in *. unfold len in *. cbn [length hex2] in *. lia.
Qed.

Definition blob_text (n : Z) (T : str) : str := kw_BLOB ++ [32; 91] ++ print_d n ++ T ++ [93].

Lemma print_blob_text o d cols t w c :
  print_blob o d cols = (t, w, c) -> exists T, blob_body d T /\ t = blob_text (len d) T /\ w = len t.
Proof.
  unfold print_blob. set (head := kw_BLOB ++ [32; 91] ++ print_d (len d)).
  replace (kw_BLOB ++ [32; 91] ++ print_d (len d) ++ [32]) with (head ++ [32])
    by (unfold head; rewrite <- !app_assoc; reflexivity).
  destruct (blob_loop (linelength o) d (head ++ [32]) (len (head ++ [32])) (cols + len (head ++ [32])))
    as [[t0 wrt] c0] eqn:E.
  intros H. inversion H; subst. apply blob_loop_body in E. destruct E as (T & HT & -> & Hw).
  exists T. split; [assumption|].
  replace (head ++ T ++ [32]) with ((head ++ T) ++ [32]) by now rewrite <- app_assoc.
  rewrite removelast_snoc. split.
  - unfold blob_text, head. rewrite <- !app_assoc. reflexivity.
  - rewrite !len_app in *. unfold len in *. cbn [length] in *. lia.
Qed.

Lemma blob_body_hd d T rest : blob_body d T -> isxdigit (hd0 (T ++ 93 :: rest)) = false /\ num_follow (T ++ 93 :: rest).
Proof.
  intros H. destruct H as [|b d sep T Hsep HT].
  - cbn [app]. rewrite hd0_cons. split; [reflexivity|]. unfold num_follow. rewrite hd0_cons.
    split; [reflexivity|split; lia].
  - destruct Hsep as [->| ->]; cbn [app nl4]; rewrite hd0_cons; (split; [reflexivity|]);
      unfold num_follow; rewrite hd0_cons; (split; [reflexivity|split; lia]).
Qed.

Lemma skip_ws_sep2 sep X : sep = [32] \/ sep = nl4 -> skip_ws (sep ++ 48 :: X) = 48 :: X.
Proof. intros [->| ->]; reflexivity. Qed.

Section BlobTok.
Variables dec2f dec2d : str -> Z.

(* one "0x%x %n" *)
Lemma blob_byte b T rest : byte_ok b -> isxdigit (hd0 (T ++ 93 :: rest)) = false ->
  run_fmt fmt_blob_byte ([48; 120] ++ hex2 b ++ T ++ 93 :: rest) [] = Some ([b], skip_ws (T ++ 93 :: rest)).
Proof.
  intros Hb Hx. unfold fmt_blob_byte. cbn [app run_fmt]. cbn [lit]. change (48 =? 48) with true. cbv iota.
  cbn [lit]. change (120 =? 120) with true. cbv iota. change (hexdig (b / 16 mod 16) :: hexdig (b mod 16) :: T ++ 93 :: rest) with (hex2 b ++ T ++ 93 :: rest).
  rewrite sc_x_hex2 by assumption. reflexivity.
Qed.

Lemma scan_bytes d T : blob_body d T -> Forall byte_ok d -> forall rest acc,
  scan_blob_bytes (length d) (skip_ws (T ++ 93 :: rest)) acc = Some (rev acc ++ d, 93 :: rest).
Proof.
  induction 1 as [|b d sep T Hsep HT IH]; intros Hb rest acc.
  - cbn [length scan_blob_bytes app]. now rewrite app_nil_r.
  - inversion Hb as [|? ? Hb0 Hb']; subst. cbn [length scan_blob_bytes].
    rewrite <- !app_assoc. cbn [app]. rewrite (skip_ws_sep2 sep _ Hsep).
    change (48 :: 120 :: hex2 b ++ T ++ 93 :: rest) with ([48; 120] ++ hex2 b ++ T ++ 93 :: rest).
    rewrite blob_byte by (try assumption; apply (blob_body_hd d T rest HT)).
    rewrite Z.mod_small by exact Hb0. rewrite (IH Hb' rest (b :: acc)). cbn [rev]. now rewrite <- app_assoc.
Qed.

Lemma skip_bytes d T : blob_body d T -> Forall byte_ok d -> forall rest fuel size,
  (length d < fuel)%nat ->
  skip_blob_bytes fuel (skip_ws (T ++ 93 :: rest)) size = Some (93 :: rest, size - len d).
Proof.
  induction 1 as [|b d sep T Hsep HT IH]; intros Hb rest fuel size Hfuel.
  - destruct fuel; [cbn in Hfuel; lia|]. cbn [skip_blob_bytes app]. change (skip_ws (93 :: rest)) with (93 :: rest).
    rewrite hd0_cons. change (93 =? 48) with false. cbv iota. unfold len. cbn. f_equal. f_equal. lia.
  - inversion Hb as [|? ? Hb0 Hb']; subst. destruct fuel; [cbn in Hfuel; lia|]. cbn [length] in Hfuel.
    cbn [skip_blob_bytes]. rewrite <- !app_assoc. cbn [app]. rewrite (skip_ws_sep2 sep _ Hsep).
    rewrite hd0_cons. change (48 =? 48) with true. cbv iota.
    unfold skip_fmt_null.
    change (48 :: 120 :: hex2 b ++ T ++ 93 :: rest) with ([48; 120] ++ hex2 b ++ T ++ 93 :: rest).
    rewrite blob_byte by (try assumption; apply (blob_body_hd d T rest HT)).
    assert (Hl : Nat.eqb (length (skip_ws (T ++ 93 :: rest))) (length ([48; 120] ++ hex2 b ++ T ++ 93 :: rest)) = false).
    { apply Nat.eqb_neq. unfold skip_ws.
      assert (Hle : forall l, (length (dropwhile isspace l) <= length l)%nat).
      { induction l as [|x l IHl]; cbn [dropwhile length]; [lia|]. destruct (isspace x); cbn [length]; lia. }
      specialize (Hle (T ++ 93 :: rest)). cbn [app length hex2]. lia. }
    rewrite Hl. rewrite (IH Hb' rest fuel (size - 1)) by lia. f_equal. f_equal. unfold len. cbn [length]. lia.
Qed.

Lemma tok_blob d T : blob_body d T -> Forall byte_ok d ->
  tok_core dec2f dec2d (VB d) (blob_text (len d) T).
Proof.
  intros HT Hb rest Hr. unfold blob_text.
  destruct (blob_body_hd d T rest HT) as (Hx & Hnf).
  assert (Esrc : (kw_BLOB ++ [32; 91] ++ print_d (len d) ++ T ++ [93]) ++ rest
                 = kw_BLOB ++ [32; 91] ++ print_d (len d) ++ T ++ 93 :: rest)
    by (rewrite <- !app_assoc; cbn [app]; rewrite <- ?app_assoc; reflexivity).
  rewrite Esrc.
  assert (Hopen : forall f vals, run_fmt (fmt_blob_open ++ f) (kw_BLOB ++ [32; 91] ++ print_d (len d) ++ T ++ 93 :: rest) vals
                  = run_fmt f (print_d (len d) ++ T ++ 93 :: rest) vals).
  { intros f vals. unfold fmt_blob_open. rewrite <- app_assoc, run_fmt_lits.
    assert (Es : strip_prefix kw_BLOB (kw_BLOB ++ [32; 91] ++ print_d (len d) ++ T ++ 93 :: rest)
                 = Some ([32; 91] ++ print_d (len d) ++ T ++ 93 :: rest)) by reflexivity.
    rewrite Es. cbn [app run_fmt]. change (skip_ws (32 :: 91 :: print_d (len d) ++ T ++ 93 :: rest))
      with (91 :: print_d (len d) ++ T ++ 93 :: rest). cbn [lit]. change (91 =? 91) with true. cbv iota.
    rewrite skip_ws_nonspace; [reflexivity|].
    destruct (print_d_hd (len d)) as (c0 & tl & E & Hc0). rewrite E. cbn [app]. rewrite hd0_cons.
    unfold isspace, in_range. lia. }
  assert (Hsize : run_fmt fmt_blob_size (print_d (len d) ++ T ++ 93 :: rest) [] = Some ([len d], skip_ws (T ++ 93 :: rest))).
  { unfold fmt_blob_size. cbn [run_fmt]. rewrite sc_i_print by assumption. reflexivity. }
  assert (Hlen0 : 0 <= len d) by (unfold len; lia).
  split; intros.
  - unfold skip_core. set (X := [32; 91] ++ print_d (len d) ++ T ++ 93 :: rest) in *.
    change (kw_BLOB ++ X) with (66 :: 76 :: 79 :: 66 :: X). cbv iota. change (first_class 66) with FC_B. cbv iota.
    change (66 :: 76 :: 79 :: 66 :: X) with (kw_BLOB ++ X). subst X.
    unfold skip_fmt_null at 1. rewrite <- (app_nil_r fmt_blob_open), Hopen. cbn [run_fmt rev].
    assert (Hl : Nat.eqb (length (print_d (len d) ++ T ++ 93 :: rest))
                   (length (kw_BLOB ++ [32; 91] ++ print_d (len d) ++ T ++ 93 :: rest)) = false)
      by (apply Nat.eqb_neq; rewrite !app_length; cbn [length kw_BLOB]; lia).
    rewrite Hl, Hsize.
    assert (Hsp : same_pos (skip_ws (T ++ 93 :: rest)) (print_d (len d) ++ T ++ 93 :: rest) = false).
    { unfold same_pos. apply Nat.eqb_neq. unfold skip_ws.
      assert (Hle : forall l, (length (dropwhile isspace l) <= length l)%nat).
      { induction l as [|x l IHl]; cbn [dropwhile length]; [lia|]. destruct (isspace x); cbn [length]; lia. }
      specialize (Hle (T ++ 93 :: rest)). rewrite app_length.
      destruct (print_d_hd (len d)) as (c0 & tl & E & _). rewrite E. cbn [length]. lia. }
    rewrite Hsp. rewrite (skip_bytes d T HT Hb rest _ (len d)).
    + replace (len d - len d =? 0) with true by lia. cbn [negb]. rewrite hd0_cons. reflexivity.
    + unfold skip_ws.
      assert (Hge : forall d0 T0, blob_body d0 T0 -> (length d0 <= length (dropwhile isspace (T0 ++ 93%Z :: rest)))%nat).
      { clear. intros d0 T0 H. induction H as [|b d sep T Hsep HT IH]; [cbn [length]; lia|].
        rewrite <- !app_assoc. destruct Hsep as [->| ->]; cbn [app nl4 dropwhile];
          change (isspace 32) with true; change (isspace 10) with true; change (isspace 48) with false; cbv iota;
          cbn [length hex2 app]; rewrite app_length in *; cbn [length] in *;
          (assert (Hle : forall l, (length (dropwhile isspace l) <= length l)%nat)
            by (induction l as [|x l IHl]; cbn [dropwhile length]; [lia|]; destruct (isspace x); cbn [length]; lia));
          specialize (Hle (T ++ 93 :: rest)); rewrite app_length in Hle; cbn [length] in Hle; lia. }
      specialize (Hge d T HT). unfold skip_ws in *. lia.
  - unfold scan_core. set (X := [32; 91] ++ print_d (len d) ++ T ++ 93 :: rest) in *.
    change (kw_BLOB ++ X) with (66 :: 76 :: 79 :: 66 :: X). cbv iota. change (first_class 66) with FC_B. cbv iota.
    change (66 :: 76 :: 79 :: 66 :: X) with (kw_BLOB ++ X). subst X.
    rewrite Hopen, Hsize. replace (len d <? 0) with false by lia.
    replace (Z.to_nat (len d)) with (length d) by (unfold len; lia).
    rewrite (scan_bytes d T HT Hb rest []). reflexivity.
Qed.
End BlobTok.

Lemma symbol_blob_tokens (dec2f dec2d : str -> Z) :
  (forall s, sym_plain s = true -> tok_core dec2f dec2d (VSym s) s) /\
  (forall o d cols t w c, Forall byte_ok d -> print_blob o d cols = (t, w, c) ->
     tok_core dec2f dec2d (VB d) t /\ w = len t).
Proof.
  split; [apply tok_plainsym|]. intros o d cols t w c Hb Hp.
  destruct (print_blob_text o d cols t w c Hp) as (T & HT & -> & Hw). split; [now apply tok_blob|exact Hw].
Qed.
