(* C11 - ranges over booleans, floats and doubles in the scan / check models:
   the arithmetic of FloatArith.v leaves the integer kinds alone, and concrete
   sentences are counted and scanned to the slots the real code writes
   (replayed on the real code: corpus/C11/typed-ranges.txt). *)
From Coq Require Import List ZArith Bool.
From RtoscV Require Import Pretty.Tok Pretty.FloatFmt Pretty.FloatArith Pretty.ScanModel.
Import ListNotations.
Local Open Scope Z_scope.

Lemma delta_x_conservative l lhs r u :
  is_flt lhs = false -> delta_x l lhs r u = delta_from_arg_vals l lhs r u.
Proof. intros H. unfold delta_x. now rewrite H. Qed.

Lemma range_arg_x_conservative dl st j :
  is_flt dl = false -> range_arg_x dl st j = range_arg dl st j.
Proof. destruct dl; cbn; intros H; try discriminate; reflexivity. Qed.

(* 2.5f - 1.5f = 1.0f; 0.2f - 0.1f = 0.1f (the rounded literals); (0.5f - 0.1f) / 0.1f = 4.0f;
   (int)3.75 = 3; 1.0 / 3.0 and 16777217 as a float are rounded to nearest-even *)
Lemma fl_examples :
  fl_sub 23 8 1075838976 1069547520 = Some 1065353216 /\
  fl_sub 23 8 1045220557 1036831949 = Some 1036831949 /\
  fl_div 23 8 1053609165 1036831949 = Some 1082130432 /\
  fl_trunc 23 8 1081081856 = Some 3 /\
  fl_div 52 11 4607182418800017408 4613937818241073152 = Some 4599676419421066581 /\
  fl_of_int 23 8 16777217 = 1266679808.
Proof. vm_compute. repeat split; reflexivity. Qed.

Definition ex_bool_open : list Z := [91; 116; 114; 117; 101; 32; 102; 97; 108; 115; 101; 32; 46; 46; 46; 93].
Definition ex_float_open : list Z := [91; 48; 120; 49; 46; 56; 112; 43; 48; 32; 48; 120; 49; 46; 52; 112; 43; 49; 32; 46; 46; 46; 93].
Definition ex_float_fin : list Z := [48; 120; 49; 112; 45; 49; 32; 48; 120; 49; 112; 43; 48; 32; 46; 46; 46; 32; 48; 120; 49; 46; 52; 112; 43; 49].
Definition ex_float_two : list Z := [48; 120; 49; 112; 45; 49; 32; 48; 120; 49; 112; 43; 48; 32; 46; 46; 46; 32; 48; 120; 49; 112; 43; 49; 32; 48; 120; 49; 46; 56; 112; 43; 49; 32; 46; 46; 46; 32; 48; 120; 49; 46; 52; 112; 43; 50].
Definition ex_double_unit : list Z := [110; 105; 108; 32; 48; 120; 49; 46; 56; 112; 43; 49; 100; 32; 46; 46; 46; 32; 48; 120; 49; 112; 45; 49; 100].

(* "[true false ...]", "[0x1.8p+0 0x1.4p+1 ...]" (1.5 2.5 ...), "0x1p-1 0x1p+0 ... 0x1.4p+1"
   (0.5 1.0 ... 2.5), "0x1p-1 0x1p+0 ... 0x1p+1 0x1.8p+1 ... 0x1.4p+2" (the second range
   takes the last value 2.0 of the first for its left neighbour: step 1.0, 3 4 5),
   "nil 0x1.8p+1d ... 0x1p-1d" (3.0 down to 0.5 is no unit-step range: rejected) *)
Lemma typed_range_examples (dec2f dec2d : list Z -> Z) :
  (count_printed_arg_vals dec2f dec2d ex_bool_open = Ok (true, 5) /\
   scan_arg_vals dec2f dec2d ex_bool_open 5 = Ok ([VArr 70 4; VT; VRep 0 1; VT; VF], [])) /\
  (count_printed_arg_vals dec2f dec2d ex_float_open = Ok (true, 5) /\
   scan_arg_vals dec2f dec2d ex_float_open 5
   = Ok ([VArr 102 4; VFl 1069547520; VRep 0 1; VFl 1065353216; VFl 1075838976], [])) /\
  (count_printed_arg_vals dec2f dec2d ex_float_fin = Ok (true, 4) /\
   scan_arg_vals dec2f dec2d ex_float_fin 4 = Ok ([VFl 1056964608; VRep 4 1; VFl 1056964608; VFl 1065353216], [])) /\
  (count_printed_arg_vals dec2f dec2d ex_float_two = Ok (true, 7) /\
   scan_arg_vals dec2f dec2d ex_float_two 7
   = Ok ([VFl 1056964608; VRep 3 1; VFl 1056964608; VFl 1065353216; VRep 3 1; VFl 1065353216; VFl 1077936128], [])) /\
  count_printed_arg_vals dec2f dec2d ex_double_unit = Ok (false, 2).
Proof. vm_compute. repeat split; reflexivity. Qed.
